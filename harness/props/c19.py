"""C19 — accelerated kernels compute the same results as the pure-Python reference (translation validation).

There is no formal semantics of pyccel + gfortran to prove anything about; the *specification* of a kernel is its own
pure-Python source in the working tree (whose meaning is the subject of C07/C10-C12/C16).  This check is differential:

  (a) the interpreted modules of the working tree                                  -- the reference
  (b) the extension modules produced by the documented build `make ACC=pycc LANGUAGE=fortran pycc` in a scratch copy of
      the working tree (outside /repo and /verif, removed afterwards), imported in a separate process   [both tiers]
  (c) the `pythran_*` copies run as plain Python and the `numba_*` copies run with a stub `numba`

Every function defined in the five reference modules is called in every variant on the same generated argument tuples
(harness/kernel_args.py: all boundary modes, der in {0,1}, both time schemes, both spline families, points on cell edges,
feet outside the domain, periodic wrap loops ...); return values AND every array argument after the call are compared.
Bit-equality is recorded; what decides is |ref - other| <= 1e-12 * max(|ref| over the array, hint) (+ for the implicit
poloidal step 4*tol*gain, see kernel_args.gen_pol), `hint` being the size of the terms that are summed (max|coeff| times the
gain of the basis/derivative), i.e. four decimal digits above binary64 rounding of those sums and far below the effect of
any change of a formula.  Angles reduced mod 2*pi are compared on the circle.  Integers (spans) are compared exactly.
Also checked: the build succeeds and produces all five extension modules; every function of a reference module exists in
each copy with the same positional parameters.  Line coverage of the reference kernels during the run is measured with
sys.monitoring and reported (a divergence in a copy can only be seen on arguments that reach the diverging line).
"""
import ast
import json
import os
import pickle
import shutil
import subprocess
import sys
import tempfile
import time

import numpy as np

import common
import kernel_args as K

LEVEL = 'translation_validation'

# findings of the design/build phase that are not (yet) in KNOWN_FINDINGS.json; see finish_local()
LOCAL_KNOWN = {}   # every finding of the build phase has been decided in KNOWN_FINDINGS.json (fixed or known)


def finish_local(chk, local_known, search=None):
    """Violation protocol with a *local* list of known findings (same convention as props/c08.py): a failure whose signature
    has no entry at all in KNOWN_FINDINGS.json and is listed in `local_known` is printed as KNOWN-FINDING and does not fail
    the run.  As soon as KNOWN_FINDINGS.json names the signature, the committed file alone decides."""
    f = common.VERIF / 'KNOWN_FINDINGS.json'
    named = set()
    if f.exists():
        named = {e['signature'] for e in json.load(open(f))['findings']}
    keep, seen = [], {}
    for fl in chk.failures:
        s = fl['signature']
        if s in local_known and s not in named:
            seen.setdefault(s, fl)
        else:
            keep.append(fl)
    for s, fl in sorted(seen.items()):
        print('KNOWN-FINDING: property=%s %s [signature %s]' % (chk.pid, local_known[s], s))
    chk.notes['local_known_findings'] = {s: {'what': local_known[s], 'example': fl['case'], 'expected': fl['expected'],
                                             'actual': fl['actual']} for s, fl in seen.items()}
    chk.failures = keep
    return chk.finish(search)


# ----------------------------------------------------------------------------------------------
# static: names and parameters

def functions_of(path):
    t = ast.parse(open(path).read())
    return {n.name: [a.arg for a in n.args.args] for n in t.body if isinstance(n, ast.FunctionDef)}


def copy_path(repo, m, prefix):
    pg = os.path.join(str(repo), 'pygyro')
    if prefix == 'pythran_' and m == 'accelerated_advection_steps':
        return os.path.join(pg, 'advection', 'pythran_deps', 'pythran_accelerated_advection_steps.py')
    return os.path.join(pg, K.PKG[m], prefix + m + '.py')


def names_check(chk):
    repo = common.REPO
    ref_names = {}
    for m, p in K.PKG.items():
        ref = functions_of(os.path.join(str(repo), 'pygyro', p, m + '.py'))
        ref_names[m] = ref
        for prefix in ('numba_', 'pythran_'):
            path = copy_path(repo, m, prefix)
            case = {'reference': 'pygyro/%s/%s.py' % (p, m), 'copy': os.path.relpath(path, str(repo))}
            if not os.path.exists(path):
                chk.fail('C19:%s%s-missing-file' % (prefix, m), 'the %s copy of %s does not exist' % (prefix[:-1], m), case)
                continue
            cp = functions_of(path)
            missing = [n for n in ref if n not in cp]
            if missing:
                chk.fail('C19:%s%s-missing-functions' % (prefix, m),
                         'functions of the reference module that the copy does not define', case, expected=sorted(ref), actual={'missing': missing})
            for n in ref:
                if n in cp and cp[n] != ref[n]:
                    chk.fail('C19:%s%s.%s-parameters' % (prefix, m, n), 'positional parameters differ between reference and copy', case,
                             expected=ref[n], actual=cp[n])
            extra = sorted(n for n in cp if n not in ref)
            chk.count('names: %s%s defines %d/%d reference functions, %d extra' % (prefix, m, len(ref) - len(missing), len(ref), len(extra)))
            chk.notes.setdefault('extra_functions_in_copies', {})[prefix + m] = extra
    return ref_names


# ----------------------------------------------------------------------------------------------
# line coverage of the reference kernels (sys.monitoring: every line event is disabled after its first hit)

class Coverage:
    def __init__(self, modules):
        self.mon = getattr(sys, 'monitoring', None)
        self.hit = set()
        self.funcs = {}
        for m, mod in modules.items():
            for n, f in vars(mod).items():
                if callable(f) and getattr(f, '__module__', None) == mod.__name__ and hasattr(f, '__code__'):
                    self.funcs[(m, n)] = f.__code__
        self.tool = None

    def _lines(self, code):
        ls = {l for (_, _, l) in code.co_lines() if l is not None and l != code.co_firstlineno}
        doc = code.co_consts[0] if code.co_consts and isinstance(code.co_consts[0], str) else None
        # a docstring is not a line event; def-line continuation lines (multi-line signatures) neither
        src_first = min(ls) if ls else None
        return ls, doc, src_first

    def start(self):
        if self.mon is None:
            return
        self.tool = self.mon.COVERAGE_ID
        try:
            self.mon.use_tool_id(self.tool, 'c19')
        except ValueError:
            self.tool = None
            return

        def on_line(code, line):
            self.hit.add((code, line))
            return self.mon.DISABLE
        self.mon.register_callback(self.tool, self.mon.events.LINE, on_line)
        for code in self.funcs.values():
            self.mon.set_local_events(self.tool, code, self.mon.events.LINE)

    def stop(self):
        if self.tool is None:
            return
        for code in self.funcs.values():
            self.mon.set_local_events(self.tool, code, 0)
        self.mon.register_callback(self.tool, self.mon.events.LINE, None)
        self.mon.free_tool_id(self.tool)

    def report(self):
        out = {}
        for (m, n), code in sorted(self.funcs.items()):
            ls, _, _ = self._lines(code)
            # lines that hold only the annotations of a multi-line signature produce no event: keep body lines only
            body = {l for l in ls}
            got = {l for (c, l) in self.hit if c is code}
            body |= got
            never = sorted(body - got)
            out['%s.%s' % (m, n)] = {'lines': len(body), 'hit': len(got & body), 'pct': round(100.0 * len(got & body) / max(1, len(body)), 1),
                                     'not_hit': never[:40]}
        return out


# ----------------------------------------------------------------------------------------------
# differential runs

def signature_of(variant_name, case, name, oth, ref):
    sig = 'C19:%s_%s.%s' % (variant_name, case['module'], name)
    if case['tag'].startswith('der='):
        sig += '[%s]' % case['tag'].replace('der=', 'der=')
    kind = 'differs'
    if oth[0] == 'ok' and ref[0] == 'ok':
        arrs = [(a, b) for a, b in zip(ref[2], oth[2]) if a is not None and b is not None and not np.array_equal(a, b)]
        if arrs and all(not np.any(b) and np.any(a) for a, b in arrs):
            kind = 'output-all-zero'
    elif oth[0] == 'raise':
        kind = 'raises'
    elif oth[0] == 'hang':
        kind = 'does-not-terminate'
    return sig + '-' + kind


def brief(case):
    def b(a):
        if isinstance(a, np.ndarray):
            return {'array': list(a.shape), 'first': [float(np.real(x)) for x in a.flat[:6]]} if a.size > 8 else [complex(x).real if a.dtype.kind == 'c' else float(x) for x in a.flat]
        if isinstance(a, tuple):
            return '.'.join(str(x) for x in a)
        return a
    return {'module': case['module'], 'kernel': case['kernel'], 'tag': case['tag'], 'args': [b(a) for a in case['args']]}


def judge(chk, vname, case, name, ref, oth, stats):
    cmp = K.compare(case, ref, oth)
    key = '%s %s.%s' % (vname, case['module'], name)
    st = stats.setdefault(key, {'cases': 0, 'bit_equal': 0, 'within_bound': 0, 'worst_error_over_bound': 0.0})
    st['cases'] += 1
    st['bit_equal'] += bool(cmp['bit'])
    st['within_bound'] += bool(cmp['ok'])
    if cmp['ok'] and cmp['worst'] > st['worst_error_over_bound']:
        st['worst_error_over_bound'] = float(cmp['worst'])
    if not cmp['ok']:
        chk.fail(signature_of(vname, case, name, oth, ref),
                 '%s variant of %s.%s disagrees with the pure-Python reference: %s' % (vname, case['module'], name, cmp['where'][:300]),
                 brief(case), expected='reference result within 1e-12 of the summed terms', actual=cmp['where'][:300])
    return cmp


def budget(case):
    """watchdog per call: the kernels take milliseconds; only the implicit step iterates until convergence"""
    return 10.0 if case.get('iterates') else 3.0


class Hangs:
    """after two time-outs of the same kernel in the same variant its remaining cases are skipped (each costs the budget)"""

    def __init__(self):
        self.n = {}

    def skip(self, vname, name):
        return self.n.get((vname, name), 0) >= 2

    def note(self, vname, name, res):
        if res[0] == 'hang':
            self.n[(vname, name)] = self.n.get((vname, name), 0) + 1
            self.n[vname] = self.n.get(vname, 0) + 1

    def budget(self, vname, case):
        return min(budget(case), 1.0) if self.n.get(vname, 0) >= 4 else budget(case)


def run_reference(chk, ref, cases, hangs):
    out = []
    for c in cases:
        if hangs.skip('reference', c['kernel']):
            out.append(('hang', 0.0))
            continue
        r = K.run_case(ref, c, budget=hangs.budget('reference', c))
        hangs.note('reference', c['kernel'], r)
        out.append(r)
    return out


def run_interpreted(chk, cases, ref_results, variants, stats, hangs):
    for c, r in zip(cases, ref_results):
        for vname, var in variants:
            mod = var.get(c['module'])
            if mod is None or not hasattr(mod, c['kernel']):
                chk.count('not defined in %s copy: %s.%s' % (vname, c['module'], c['kernel']))     # reported by names_check
                continue
            if hangs.skip(vname, c['kernel']):
                chk.count('skipped after two time-outs: %s %s' % (vname, c['kernel']))
                continue
            o = K.run_case(var, c, budget=hangs.budget(vname, c))
            hangs.note(vname, c['kernel'], o)
            judge(chk, vname, c, c['kernel'], r, o, stats)
            if 'alias' in c and vname == 'pythran' and hasattr(mod, c['alias'][0]) and not hangs.skip(vname, c['alias'][0]):
                o = K.run_case(var, c, name=c['alias'][0], nargs=c['alias'][1], budget=hangs.budget(vname, c))
                hangs.note(vname, c['alias'][0], o)
                judge(chk, vname, c, c['alias'][0], r, o, stats)


def rebuild_awareness(chk, scratch, env, cmd):
    """after the build every compiled module must be rebuilt by the same documented command when its own source OR the source of an
    accelerated module it imports kernels from changes (pyccel links those into the importing extension): `make -n` (dry run) after
    giving one source a newer time stamp must list the translation of every module that depends on it"""
    import ast
    src = {m: os.path.join(scratch, 'pygyro', pk, m + '.py') for m, pk in K.PKG.items()}
    deps = {m: {m} for m in src}
    for m, f in src.items():
        for node in ast.walk(ast.parse(open(f).read())):
            if isinstance(node, ast.ImportFrom) and node.module and node.module.split('.')[-1] in src:
                deps[m].add(node.module.split('.')[-1])
    dry = cmd[:1] + ['-n'] + cmd[1:]
    base = subprocess.run(dry, cwd=scratch, env=env, capture_output=True, text=True, timeout=300)
    if base.returncode != 0 or any((m + '.py') in base.stdout for m in src):
        chk.count('rebuild check skipped: the tree is not up to date right after the build')
        return
    for changed in sorted(src):
        st = os.stat(src[changed])
        os.utime(src[changed], (st.st_atime, time.time() + 5))
        p = subprocess.run(dry, cwd=scratch, env=env, capture_output=True, text=True, timeout=300)
        os.utime(src[changed], (st.st_atime, st.st_mtime))
        want = sorted(m for m in src if changed in deps[m])
        missing = [m for m in want if (m + '.py') not in p.stdout]
        if p.returncode != 0 or missing:
            chk.fail('C19:stale-build', 'after a change of %s.py the documented build does not regenerate %s: the compiled kernels would keep '
                     'running the old source' % (changed, ', '.join(missing) or '(make -n failed)'),
                     {'changed_source': changed + '.py', 'cmd': ' '.join(dry)}, expected={'regenerated': want},
                     actual={'dry_run_output': p.stdout[-800:], 'exit': p.returncode})
        chk.count('rebuild dry runs')


F32_SIG = 'C19:compiled-negative-stride-writes-out-of-bounds'


def build_and_run(chk, cases, ref_results, ref_names, stats):
    """(b): documented build in a scratch copy, kernels run in a worker process"""
    tmp = tempfile.mkdtemp(prefix='c19_build_')
    try:
        scratch = os.path.join(tmp, 'repo')
        shutil.copytree(str(common.REPO), scratch, symlinks=True, ignore=shutil.ignore_patterns('.git', '__pycache__', '*.so', '*.o', '*.mod', '__pyccel__*'))
        env = dict(os.environ)
        env['PATH'] = os.path.dirname(sys.executable) + os.pathsep + env.get('PATH', '')
        cmd = ['make', 'ACC=pycc', 'LANGUAGE=fortran', 'pycc', 'PYTHON=' + sys.executable]
        t0 = time.time()
        p = subprocess.run(cmd, cwd=scratch, env=env, capture_output=True, text=True, timeout=900)
        chk.notes['build'] = {'cmd': ' '.join(cmd), 'seconds': round(time.time() - t0, 1), 'exit': p.returncode}
        so = {m: [f for f in os.listdir(os.path.join(scratch, 'pygyro', pk)) if f.startswith(m + '.') and f.endswith('.so')] for m, pk in K.PKG.items()}
        if p.returncode != 0 or not all(so.values()):
            chk.fail('C19:build-fails', 'the documented build (%s) of the working tree fails or does not produce all five extension modules' % ' '.join(cmd),
                     {'cmd': ' '.join(cmd)}, expected='exit 0 and one .so per accelerated module',
                     actual={'exit': p.returncode, 'so': so, 'log': (p.stdout + p.stderr)[-1500:]})
            return
        chk.count('build: succeeded, %d extension modules' % len(so))
        rebuild_awareness(chk, scratch, env, cmd)
        fin, fout = os.path.join(tmp, 'cases.pkl'), os.path.join(tmp, 'results.pkl')
        pickle.dump(cases, open(fin, 'wb'))
        w = subprocess.run([sys.executable, os.path.join(str(common.VERIF), 'harness', 'kernel_args.py'), '--worker', scratch, fin, fout],
                           capture_output=True, text=True, timeout=900, env=dict(env, PYTHONPATH=''))
        if w.returncode != 0 or not os.path.exists(fout):
            chk.fail('C19:compiled-modules-unusable', 'importing / running the compiled modules failed: ' + (w.stderr or w.stdout)[-600:], {'cmd': ' '.join(cmd)})
            return
        res = pickle.load(open(fout, 'rb'))
        chk.notes['compiled_files'] = {m: os.path.basename(f) for m, f in res['files'].items()}
        for m, names in res['names'].items():
            missing = [n for n in ref_names[m] if n not in names]
            if missing:
                chk.fail('C19:compiled_%s-missing-functions' % m, 'functions of the reference module that the compiled module does not export',
                         {'module': m}, expected=sorted(ref_names[m]), actual={'missing': missing})
        for c, r, o in zip(cases, ref_results, res['results']):
            if c.get('fnarg') and o[0] == 'raise':
                # kernels whose arguments are functions cannot be driven from Python once compiled (they are reached through
                # their non-general wrappers, which are compared): recorded, not a difference
                chk.count('compiled: %s takes function arguments, not callable from Python (%s)' % (c['kernel'], o[1].split(':')[0]))
                continue
            judge(chk, 'compiled', c, c['kernel'], r, o, stats)
        # finding F32 (known): a 1-D array argument with a NEGATIVE stride (points in decreasing order, `x[::-1]`).  Its own worker
        # process: the compiled kernel may write behind the output array
        from pygyro.splines import spline_eval_funcs as ref_nu
        knots, deg, coeffs, pts = K.layout_case()
        want = np.empty(len(pts))
        ref_nu.nu_eval_spline_1d_vector(pts[::-1], knots, deg, coeffs, want, 0)
        fl = os.path.join(tmp, 'layout.pkl')
        w2 = subprocess.run([sys.executable, os.path.join(str(common.VERIF), 'harness', 'kernel_args.py'), '--layout-worker', scratch, fl],
                            capture_output=True, text=True, timeout=120, env=dict(env, PYTHONPATH=''))
        case = {'kernel': 'nu_eval_spline_1d_vector', 'points': 'x[::-1] with x = %s (a reversed view: stride -8 bytes)' % pts.tolist(),
                'build': ' '.join(cmd), 'pyccel': chk.notes.get('pyccel_version')}
        if w2.returncode != 0 or not os.path.exists(fl):
            chk.fail(F32_SIG, 'compiled nu_eval_spline_1d_vector with the points given as a reversed view: the worker process died (exit %s: %s)'
                     % (w2.returncode, (w2.stderr or '')[-160:]), case)
        else:
            o2 = pickle.load(open(fl, 'rb'))
            if any(g != -777.0 for g in o2['guards']):
                chk.fail(F32_SIG, 'compiled nu_eval_spline_1d_vector with the points given as a reversed view writes behind the end of the output '
                         'array (guard entries %s), the interpreted source does not' % o2['guards'], case, expected=[-777.0] * 4, actual=o2['guards'])
            elif not np.allclose(o2['values'], want, rtol=1e-12, atol=1e-13):
                chk.fail('C19:compiled-reversed-view', 'compiled nu_eval_spline_1d_vector with the points given as a reversed view returns other values '
                         'than the interpreted source', case, expected=want.tolist(), actual=o2['values'])
            chk.count('compiled: reversed view of the points (finding F32 replay)')
    finally:
        shutil.rmtree(tmp, ignore_errors=True)


def run(chk):
    chk.rule = ('for every function of the five reference modules: generated argument tuples (kernel_args.py) covering der in {0,1}^2, '
                'boundary modes 0/1/2, explicit and implicit scheme, cubic-uniform and non-uniform splines (degrees 1-5, clamped and '
                'periodic, uniform and stretched breaks), points on cell edges / domain ends / next-after values / outside, real and '
                'complex rho; non-trivial = every case (each reaches a kernel body); distinct by (kernel, tag, argument digest)')
    chk.proof_side(build=False)
    common.use_repo()
    ref_names = names_check(chk)
    ref = K.load_reference(common.REPO)
    variants = []
    for vname, loader in (('pythran', K.load_pythran), ('numba', K.load_numba)):
        try:
            variants.append((vname, loader(common.REPO)))
        except Exception as e:  # noqa: BLE001
            chk.fail('C19:%s-copies-not-loadable' % vname, 'the %s copies cannot be executed as Python: %s: %s' % (vname, type(e).__name__, str(e)[:300]), {'variant': vname})
    for vname, var in variants:
        if '__notes__' in var:
            chk.notes['pythran_deps'] = var['__notes__']
            for n, what in var['__notes__'].items():
                if what.startswith('DIFFERENT'):
                    chk.fail('C19:pythran_deps-%s-diverges' % n, 'advection/pythran_deps/%s.py is not the copy next to the reference: %s' % (n, what), {'file': n})
    cases = K.all_cases(chk.rng, chk.n(6, 20))
    cov = Coverage(ref)
    cov.start()
    hangs = Hangs()
    try:
        ref_results = run_reference(chk, ref, cases, hangs)
    finally:
        cov.stop()
    stats = {}
    kernels = set()
    for c, r in zip(cases, ref_results):
        kernels.add((c['module'], c['kernel']))
        chk.count('%s.%s' % (c['module'], c['kernel']) + (' [%s]' % c['tag'] if c['tag'] else ''))
        digest = hash(tuple(a.tobytes() if isinstance(a, np.ndarray) else repr(a) for a in c['args']))
        chk.case((c['kernel'], c['tag'], digest), nontrivial=r[0] == 'ok',
                 sample=brief(c) if c['kernel'] in ('nu_eval_spline_1d_scalar', 'v_parallel_advection_eval_step') and len(chk.samples) < 2 else None)
        if r[0] != 'ok':
            # the generators are meant to produce arguments the reference accepts
            chk.count('reference %s: %s.%s' % (r[0], c['module'], c['kernel']))
    run_interpreted(chk, cases, ref_results, variants, stats, hangs)
    # the documented build takes ~15 s here and is part of the property ("the documented build succeeds on the current tree";
    # compiled = interpreted): it runs in both tiers (the thorough tier only uses more argument tuples)
    build_and_run(chk, cases, ref_results, ref_names, stats)
    covrep = cov.report()
    low = {k: v for k, v in covrep.items() if v['pct'] < 90.0}
    chk.extra_cov['programs'] = len(kernels)
    chk.extra_cov['kernels_compared'] = sorted('%s.%s' % k for k in kernels)
    chk.extra_cov['reference_functions'] = sum(len(v) for v in ref_names.values())
    chk.extra_cov['per_variant_kernel'] = stats
    chk.extra_cov['reference_line_coverage'] = {k: {'pct': v['pct'], 'lines': v['lines'], 'not_hit': v['not_hit']} for k, v in covrep.items()}
    chk.extra_cov['reference_line_coverage_min_pct'] = min([v['pct'] for v in covrep.values()] or [0.0])
    chk.notes['kernels_below_90pct_line_coverage'] = sorted(low)
    chk.notes['bit_equal_share'] = {v: round(sum(s['bit_equal'] for k, s in stats.items() if k.startswith(v)) /
                                             max(1, sum(s['cases'] for k, s in stats.items() if k.startswith(v))), 4) for v in ('pythran', 'numba', 'compiled')}
    not_run = [('%s.%s' % (m, n)) for m, d in ref_names.items() for n in d if (m, n) not in kernels]
    if not_run:
        chk.diff('reference functions without generated arguments', {'functions': not_run}, 'every function of the five modules is exercised', not_run)
    chk.assumptions = ['the pure-Python source of a kernel is its specification (its meaning is the subject of C07/C10-C12/C16)',
                       'pythran copies are executed as plain Python, numba copies with a stub numba: the pythran / numba compilers themselves are not installed and not exercised',
                       'compiled variant: pyccel 2.0.1 + gfortran as installed (both tiers)',
                       'agreement = within 1e-12 of the magnitude of the summed terms (bit-equality recorded in the evidence)']
    chk.trusted = chk.trusted + ['pyccel/gfortran tool chain of this machine for variant (b); CPython for (a) and (c)']
    return finish_local(chk, LOCAL_KNOWN)
