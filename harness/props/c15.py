"""C15 — quasi-neutrality pipeline: exact FFT round trip, real potential, equilibrium.

proof side     : Props/C15.lean (dft_roundtrip, dft_formulas, mvals_alias, mval_zero_iff, mval_injective, m2_symmetric,
                 chi_selects_stiffness, mode_operator_formula, pipeline_zero_for_equilibrium)
correspondence : the pipeline of fullSimulation.py (getPerturbedRho -> getModes -> setLayout('mode_solve') -> solveEquation ->
                 setLayout('v_parallel_2d') -> findPotential) with the real LayoutSwapper / handler on every process grid
                 with <= 6 simulated ranks; the grids between the stages are gathered; the Lean model (Drivers/C14.lean, op
                 `solver` with `electrons`) decides which operator every mode must satisfy and returns the exact Galerkin
                 residual of the returned mode potentials.
oracle (no model): dense DFT matrices for getModes / findPotential; round trip; independent dense numpy Galerkin assembly
                 per mode number (own fftfreq bookkeeping, own chi / m = 0 handling); real potential for real density;
                 zero potential for the equilibrium; refusal of chi not in {0,1}.
"""
from fractions import Fraction as Fr

import numpy as np

import common
from props import c14 as H

LEVEL = 'proof'

EPS = Fr(common.EPS)
C_FFT = 2048        # |getModes - dense DFT| / (eps * sum|x_j|)   (FFTPACK is a contract)
C_REAL = 1 << 14   # |imag phi| / (eps * gain * max|rho|)
C_ZEROEQ = 1 << 14


def profile_functions(consts, custom):
    """(n0, Te, n0'/n0): the library's profiles, or (custom) other profile functions handed to the solver through its optional
    arguments `n0`, `Te`, `n0derivNormalised`"""
    from pygyro.initialisation import initialiser_funcs as init

    def n0d(r):
        return init.n0(r, consts.CN0, consts.kN0, consts.deltaRN0, consts.rp)

    def Ted(r):
        return init.Te(r, consts.CTe, consts.kTe, consts.deltaRTe, consts.rp)

    def dnd(r):
        return init.n0deriv_normalised(r, consts.kN0, consts.rp, consts.deltaRN0)
    if not custom:
        return n0d, Ted, dnd
    return (lambda r: 2.0 * n0d(r) + 0.1), (lambda r: 0.5 * Ted(r) + 0.2), (lambda r: 2.0 * dnd(r) * n0d(r) / (2.0 * n0d(r) + 0.1))


def qn_functions(consts, adiabatic, Bf, custom=False):
    """the coefficient functions the property states for the quasi-neutrality equation (profiles = inputs)"""
    n0, Te, dn = profile_functions(consts, custom)
    fA = lambda r: -1.0  # noqa: E731
    fB = lambda r: -(1 / r + dn(r))  # noqa: E731
    fC = (lambda r: Bf * Bf / Te(r)) if adiabatic else (lambda r: 0.0)
    fD = lambda r: -1 / r ** 2  # noqa: E731
    fE = lambda r: Bf * Bf / n0(r)  # noqa: E731
    return [fA, fB, fC, fD, fE]


def proc_grids(nr, nth, nz, max_ranks):
    out = []
    for pr in range(1, max_ranks + 1):
        for pz in range(1, max_ranks // pr + 1):
            if pr <= min(nr, nth) and pz <= nz:
                out.append((pr, pz))
    return out


def run_pipeline(S, cfg, nprocs, F=None, rho0=None, seed=0):
    """the calls of fullSimulation.py on all simulated ranks; returns the gathered grids between the stages"""
    from mpi4py import MPI
    from pygyro.model.layout import getLayoutHandler, LayoutSwapper
    from pygyro.model.grid import Grid
    from pygyro.poisson.poisson_solver import DensityFinder, QuasiNeutralitySolver
    eta, bs, consts = S['eta'], S['bsplines'], S['constants']
    layout_poisson = {'v_parallel_2d': [0, 2, 1], 'mode_solve': [1, 2, 0]}
    layout_vpar = {'v_parallel_1d': [0, 2, 1]}
    layout_poloidal = {'poloidal': [2, 1, 0]}
    nprocs = list(nprocs)

    def body():
        comm = MPI.COMM_WORLD
        kw = {}
        if cfg['adiabatic']:
            kw['chi'] = cfg['chi']
        else:
            kw['adiabaticElectrons'] = False
        if cfg['B'] != 1.0:
            kw['B'] = cfg['B']
        if cfg.get('custom_profiles'):
            kw['n0'], kw['Te'], kw['n0derivNormalised'] = profile_functions(consts, True)
        try:
            qn = QuasiNeutralitySolver(eta[:3], cfg['qdeg'], bs[0], consts, **kw)
        except ValueError as e:
            return {'refused': str(e)}
        remapperPhi = LayoutSwapper(comm, [layout_poisson, layout_vpar, layout_poloidal],
                                    [nprocs, nprocs[0], nprocs[1]], eta[:3], 'mode_solve')
        remapperRho = getLayoutHandler(comm, layout_poisson, nprocs, eta[:3])
        phi = Grid(eta[:3], bs[:3], remapperPhi, 'mode_solve', comm, dtype=np.complex128)
        rho = Grid(eta[:3], bs[:3], remapperRho, 'v_parallel_2d', comm, dtype=np.complex128)
        phi._f[:] = 3e200
        Lr = rho.getLayout('v_parallel_2d')
        if F is not None:
            h4 = getLayoutHandler(comm, {'v_parallel': [0, 2, 1, 3]}, nprocs, eta)
            g = Grid(eta, bs, h4, 'v_parallel', comm)
            L = g.getLayout('v_parallel')
            g._f[:] = np.transpose(F, (0, 2, 1, 3))[L.starts[0]:L.ends[0], L.starts[1]:L.ends[1]]
            dens = DensityFinder(cfg['dens_degree'], bs[3], eta, consts)
            dens.getPerturbedRho(g, rho)
        else:
            rho._f[:] = np.transpose(rho0, (0, 2, 1))[Lr.starts[0]:Lr.ends[0], Lr.starts[1]:Lr.ends[1]]
        out = {'s_vp': [int(x) for x in Lr.starts], 'rho_real': np.array(rho._f)}
        qn.getModes(rho)
        out['rho_modes'] = np.array(rho._f)
        rho.setLayout('mode_solve')
        phi.setLayout('mode_solve')
        qn.solveEquation(phi, rho)
        Lm = phi.getLayout('mode_solve')
        out['s_ms'] = [int(x) for x in Lm.starts]
        out['phi_modes'] = np.array(phi._f)
        phi.setLayout('v_parallel_2d')
        rho.setLayout('v_parallel_2d')
        out['rho_modes_back'] = np.array(rho._f)
        qn.findPotential(phi)
        out['phi'] = np.array(phi._f)
        # round trip of the transforms alone on an independent complex field
        rt = Grid(eta[:3], bs[:3], remapperRho, 'v_parallel_2d', comm, dtype=np.complex128)
        rr = np.random.RandomState(seed)
        X = rr.uniform(-1, 1, size=(len(eta[0]), len(eta[2]), len(eta[1]))) + 1j * rr.uniform(-1, 1, size=(len(eta[0]), len(eta[2]), len(eta[1])))
        rt._f[:] = X[Lr.starts[0]:Lr.ends[0], Lr.starts[1]:Lr.ends[1]]
        qn.getModes(rt)
        qn.findPotential(rt)
        out['roundtrip_in'] = X[Lr.starts[0]:Lr.ends[0], Lr.starts[1]:Lr.ends[1]]
        out['roundtrip_out'] = np.array(rt._f)
        return out
    return MPI.run(int(np.prod(nprocs)), body, policy='random', seed=seed & 0xffff)


def gather(res, key, skey, shape):
    out = np.full(shape, np.nan, dtype=complex)
    cover = np.zeros(shape, int)
    for o in res.values():
        s, b = o[skey], o[key]
        out[s[0]:s[0] + b.shape[0], s[1]:s[1] + b.shape[1], :] = b
        cover[s[0]:s[0] + b.shape[0], s[1]:s[1] + b.shape[1], :] += 1
    return out, cover


def one_setup(chk, drv, it, stats):
    rng = chk.rng
    d = rng.choice([1, 2, 3, 3, 3, 4, 5])
    nr = d + rng.randint(1, 4)
    nth = rng.randint(1, 7)
    nz = rng.randint(1, 3)
    nv = rng.randint(6, 8)
    uniform_flag = rng.random() < 0.7
    from_f = rng.random() < 0.45
    # the three electron models in turn (every run of the check, whatever the seed, solves each of them with content in modes m != 0)
    adiabatic = it % 3 != 2
    chi = (it % 3) if adiabatic else None
    if it < 6:
        nth = max(nth, 3)
    if it % 10 == 7:
        # poloidal sizes for which (k * (1/n)) * n is not exactly k for some mode number k (fftfreq gives exact integers there)
        nth = [14, 17, 18][it // 10 % 3]
        nz = 1
    if it % 10 == 3:
        # many theta lines on one process: (radial points) x (z planes) a round number (transforms done in blocks of lines)
        d, nr, nth, nz = 3, [20, 25, 20][it // 10 % 3], [8, 6, 5][it // 10 % 3], [5, 8, 10][it // 10 % 3]
    cfg = {'qdeg': rng.choice([2 * d, 2 * d + 1, 7, 6, 3]), 'adiabatic': adiabatic, 'chi': chi,
           'B': rng.choice([1.0, 1.0, 2.0]), 'dens_degree': rng.choice([3, 6]), 'custom_profiles': rng.random() < 0.3}
    rrange = rng.choice([(0.1, 14.5), (1.0, 3.0), (2.0, 9.0)])
    # theta, z splines are irrelevant for the pipeline (only their grids are used); keep them valid
    # profile constants as a parameter file may give them: the electron temperature profile need not share the ion width / gradient
    prof = {}
    if rng.random() < 0.5:
        prof = {'deltaRTe': rng.choice([0.5, 0.9, 2.3]), 'kTe': rng.choice([0.1, 0.4]), 'CTe': rng.choice([1.0, 1.5]),
                'deltaRN0': rng.choice([2.9, 1.7]), 'kN0': rng.choice([0.055, 0.1])}
    S = H.make_setup([nr, max(nth, 2), max(nz, 2), nv], [d, 1, 1, 3], uniform_flag, rrange=rrange, **prof)
    if it % 4 == 1:
        # the centre of the radial profiles is a constant of its own (a parameter file may give it): not the middle of the domain
        S['constants'].rp = rrange[0] + [0.3, 0.62][it // 4 % 2] * (rrange[1] - rrange[0])
        prof = dict(prof, rp=S['constants'].rp)
    if prof:
        S['constants'].getCN0()
    S['eta'] = [S['eta'][0], np.linspace(0, 2 * np.pi, nth, endpoint=False), np.linspace(0, 1, nz, endpoint=False), S['eta'][3]]
    consts = S['constants']
    consts.npts = [nr, nth, nz, nv]
    nprng = np.random.RandomState(rng.randrange(1 << 30))
    kind = rng.choice(['random', 'random', 'single_mode', 'equilibrium'])
    if it < 6:
        kind = 'random'
    if it % 4 == 1:
        from_f = True              # the density comes from a distribution function: the equilibrium table is built with the off-centre rp
        kind = 'equilibrium' if it % 8 in (1, 5) else kind      # ... and the equilibrium of THESE constants is a fixed point
    if it % 6 == 2 and it % 4 != 1:
        kind, from_f = 'random', False          # a complex density given directly (see below)
    if it % 10 == 7:
        kind, from_f = 'random', False          # content in every mode of the special poloidal sizes
    if it % 5 == 4:
        # a line source on the first theta point, the same on every z plane: ALL poloidal modes of the density are equal (and the
        # slices of consecutive modes on one process hold exactly the same numbers)
        kind, from_f = 'line_source', False
    from props import c16
    feq_tab = c16.feq_oracle(S)
    F = rho0 = None
    th = S['eta'][1]
    if from_f:
        if kind == 'equilibrium':
            F = np.broadcast_to(feq_tab[:, None, None, :], (nr, nth, nz, nv)).copy()
        elif kind == 'single_mode':
            mm = rng.randint(0, nth)
            F = feq_tab[:, None, None, :] * (1 + 1e-2 * np.cos(mm * th)[None, :, None, None] * nprng.uniform(0.5, 1, size=(nr, 1, nz, 1)))
        else:
            F = feq_tab[:, None, None, :] * (1 + 1e-2 * nprng.uniform(-1, 1, size=(nr, nth, nz, nv)))
    else:
        if kind == 'equilibrium':
            rho0 = np.zeros((nr, nth, nz))
        elif kind == 'single_mode':
            mm = rng.randint(0, nth)
            rho0 = np.cos(mm * th + 0.3)[None, :, None] * nprng.uniform(0.5, 1, size=(nr, 1, nz))
        elif kind == 'line_source':
            rho0 = np.zeros((nr, nth, nz))
            rho0[:, 0, :] = nprng.uniform(0.5, 1, size=(nr, 1))
        else:
            rho0 = nprng.uniform(-1, 1, size=(nr, nth, nz))
            if it % 6 == 2:
                # the density grid is complex: two real densities packed as rho1 + i rho2 give phi1 + i phi2 (the solve is linear);
                # the modes m and -m of such a density are NOT conjugates of each other
                rho0 = rho0 + 1j * nprng.uniform(-1, 1, size=(nr, nth, nz))
    desc0 = {'npts': [nr, nth, nz, nv], 'rdegree': d, 'uniform_flag': uniform_flag, 'from_f': from_f, 'kind': kind,
             'rrange': list(rrange), **cfg}

    # chi outside {0,1} must be refused (decision logic), once per setup on one rank
    if adiabatic and it % 4 == 0:
        bad = rng.choice([2, -1, 3])
        r = run_pipeline(S, dict(cfg, chi=bad), (1, 1), rho0=np.zeros((nr, nth, nz)))
        refused = r.ok and 'refused' in r.values()[0]
        if not refused:
            chk.fail('C15:chi-refusal', 'chi = %d accepted' % bad, dict(desc0, chi=bad))
        mo = drv.call(qn_request(S, cfg, d, nth, 'adiabatic', bad, [], None)[0])
        if not mo.get('chi_refused'):
            chk.diff('chi refusal', dict(desc0, chi=bad), mo.get('chi_refused'), refused)
        chk.count('chi refusal cases')

    fns = qn_functions(consts, adiabatic, cfg['B'], cfg.get('custom_profiles', False))
    from pygyro.splines.splines import BSplines, make_knots
    rs0 = S['bsplines'][0]
    rs = BSplines(make_knots(rs0.breaks, 3, False), 3, False, False) if rs0.cubic_uniform else rs0
    nodes = S['eta'][0]
    knf = [float(k) for k in H.frac_knots(rs)]
    oa = H.oracle_assembly(knf, d, np.asarray(rs.breaks, float), cfg['qdeg'], fns)
    # chi = 1: the m = 0 equation has no reaction term -> own assembly without C
    oa0 = oa if not (adiabatic and chi == 1) else H.oracle_assembly(knf, d, np.asarray(rs.breaks, float), cfg['qdeg'],
                                                                  [fns[0], fns[1], (lambda r: 0.0), fns[3], fns[4]])
    Vc = H.oracle_colloc(knf, d, nodes)
    mv = [k if k <= (nth - 1) // 2 else k - nth for k in range(nth)]      # own bookkeeping of fftfreq order
    nb = oa['nb']
    ops = []
    for I, m in enumerate(mv):
        idx = list(range(0, nb - 1)) if m == 0 else list(range(1, nb - 1))
        src = oa0 if m == 0 else oa
        Aop = (src['stiff'] - m * m * src['k2'])[np.ix_(idx, idx)]
        absA = (np.abs(src['stiff']) + m * m * np.abs(src['k2']))[np.ix_(idx, idx)]
        ops.append((idx, Aop, absA))
    if any(len(i) and np.linalg.cond(a) > 1e9 for i, a, _ in ops):
        chk.count('discarded: ill-conditioned mode system')
        return
    # response of the final potential to a unit perturbation of a rho mode slice (used to scale rounding noise)
    gain = max([np.abs(Vc[:, i] @ np.linalg.solve(a, oa['mass'][i, :] @ np.linalg.inv(Vc))).sum(axis=1).max()
                for i, a, _ in ops if len(i)] + [0.0])
    W = np.exp(-2j * np.pi * np.outer(np.arange(nth), np.arange(nth)) / nth)

    M = Minv = None
    serial_phi = None
    for gi, nprocs in enumerate(proc_grids(nr, nth, nz, chk.n(4, 6))):
        desc = dict(desc0, nprocs=list(nprocs))
        knots_before = [(b, np.array(b.knots, copy=True)) for b in S['bsplines'] if b is not None]
        res = run_pipeline(S, cfg, nprocs, F=F, rho0=rho0, seed=it * 101 + gi)
        if any(not np.array_equal(k0, np.asarray(b.knots)) for b, k0 in knots_before):
            # the spline spaces belong to the caller (they are shared with the grids and the advection operators)
            chk.fail('C15:spline-space-modified', 'building / using the quasi-neutrality solver changed the knots of a spline space it was given', desc)
            return
        if not res.ok:
            err = str(res.first_error())
            chk.fail('C15:crash', 'pipeline raised: ' + err[:200], desc)
            continue
        outs = res.values()
        if 'refused' in outs[0]:
            chk.fail('C15:refused', 'constructor refused a valid configuration: ' + outs[0]['refused'], desc)
            continue
        shape_vp, shape_ms = (nr, nz, nth), (nth, nz, nr)
        rho_real, cov = gather(res, 'rho_real', 's_vp', shape_vp)
        rho_modes, _ = gather(res, 'rho_modes', 's_vp', shape_vp)
        rho_back, _ = gather(res, 'rho_modes_back', 's_vp', shape_vp)
        phi_modes, cov2 = gather(res, 'phi_modes', 's_ms', shape_ms)
        phi, _ = gather(res, 'phi', 's_vp', shape_vp)
        rt_in, _ = gather(res, 'roundtrip_in', 's_vp', shape_vp)
        rt_out, _ = gather(res, 'roundtrip_out', 's_vp', shape_vp)
        if not ((cov == 1).all() and (cov2 == 1).all()):
            chk.fail('C15:cover', 'blocks do not tile the grid', desc)
            continue
        eps = common.EPS
        # --- transforms (oracle): dense DFT, inverse, round trip, layout round trip of rho
        s1 = np.abs(rho_real).sum(axis=2, keepdims=True)
        e1 = np.abs(rho_modes - rho_real @ W)
        stats['fft'] = max(stats['fft'], float((e1 / (eps * np.maximum(s1, 1e-300))).max()))
        if not (e1 <= C_FFT * eps * s1).all():
            chk.fail('C15:getModes', 'getModes is not the discrete Fourier transform along theta', desc)
        s2 = np.abs(phi_modes).sum(axis=0)          # (nz, nr)
        pm_vp = np.transpose(phi_modes, (2, 1, 0))   # (nr, nz, nth) modes
        e2 = np.abs(phi - pm_vp @ np.conj(W) / nth)
        stats['fft'] = max(stats['fft'], float((e2 / (eps * np.maximum(s2.T[:, :, None], 1e-300))).max()))
        if not (e2 <= C_FFT * eps * s2.T[:, :, None]).all():
            chk.fail('C15:findPotential', 'findPotential is not the inverse discrete Fourier transform of the solved modes', desc)
        s3 = np.abs(rt_in).sum(axis=2, keepdims=True)
        e3 = np.abs(rt_out - rt_in)
        stats['roundtrip'] = max(stats['roundtrip'], float((e3 / (eps * np.maximum(s3, 1e-300))).max()))
        if not (e3 <= C_FFT * eps * s3).all():
            chk.fail('C15:roundtrip', 'findPotential(getModes(x)) != x', desc)
        if not np.array_equal(rho_back, rho_modes):
            chk.fail('C15:layout-roundtrip', 'rho changed by the layout changes mode_solve <-> v_parallel_2d', desc)
        # --- per-mode solve (oracle): the solved modes satisfy the independent dense Galerkin system of their mode number
        rmodes_ms = np.transpose(rho_modes, (2, 1, 0))      # (nth, nz, nr)
        worst = 0.0
        for I in range(nth):
            idx, Aop, absA = ops[I]
            for z in range(nz):
                xh = np.linalg.solve(Vc, phi_modes[I, z])
                c = np.linalg.solve(Vc, rmodes_ms[I, z])
                r = Aop @ xh[idx] - oa['mass'][idx, :] @ c
                sc = absA.sum(axis=1) * max(np.abs(xh).max(), 1e-300) + np.abs(oa['mass'][idx, :]).sum(axis=1) * np.abs(c).max()
                ratio = np.abs(r) / (eps * np.where(sc > 0, sc, 1))
                out_idx = [p for p in range(nb) if p not in idx]
                zero_ok = all(abs(xh[p]) <= H.C_ORACLE * eps * max(np.abs(xh).max(), 1e-300) for p in out_idx)
                worst = max(worst, float(ratio.max()) if len(ratio) else 0.0)
                if (len(ratio) and ratio.max() > H.C_ORACLE) or not zero_ok:
                    chk.fail('C15:mode-solve', 'mode %d (m = %d) does not satisfy the Galerkin system of its mode number / boundary choice'
                             % (I, mv[I]), dict(desc, mode_index=I, m=mv[I], z=z), 'residual <= %d eps scale' % H.C_ORACLE,
                             float(ratio.max()) if len(ratio) else None)
                    break
            else:
                continue
            break
        stats['oracle'] = max(stats['oracle'], worst)
        # --- real potential for real density
        rmax = max(np.abs(rho_real).max(), 1e-300)
        if np.abs(rho_real.imag).max() == 0:
            im = np.abs(phi.imag).max()
            stats['imag'] = max(stats['imag'], float(im / (eps * max(gain, 1e-300) * rmax)))
            if im > C_REAL * eps * gain * rmax:
                chk.fail('C15:real-potential', 'potential of a real density has an imaginary part', desc, 0.0, float(im))
        # --- equilibrium
        if kind == 'equilibrium':
            zs = (np.abs(feq_tab).max() * 2 * abs(consts.vMax) if from_f else 0.0)
            if np.abs(phi).max() > C_ZEROEQ * eps * gain * zs:
                chk.fail('C15:equilibrium', 'the equilibrium distribution does not give a zero potential', desc, 0.0, float(np.abs(phi).max()))
            chk.count('equilibrium cases')
        # --- decomposition independence
        if serial_phi is None:
            serial_phi = phi
        else:
            dev = np.abs(phi - serial_phi).max()
            if dev > 64 * eps * gain * rmax:
                chk.fail('C15:decomposition', 'potential depends on the process grid', desc, None, float(dev))
        # --- model: which operator for which mode; exact Galerkin residual of the solved modes (first grid + one random)
        if gi == 0 or gi == (it % max(1, len(proc_grids(nr, nth, nz, chk.n(4, 6))))):
            if M is None:
                M, Minv = H.collocation_tools(rs, nodes)
            pairs = sorted(set([(I, 0, 0) for I in range(nth)] + [(rng.randrange(nth), rng.randrange(nz), 1) for _ in range(2)]))
            req, _ = qn_request(S, cfg, d, nth, 'adiabatic' if adiabatic else 'kinetic', chi,
                                H.exact_queries(None, rs, nodes, rmodes_ms, phi_modes, pairs, Minv), rs)
            mo = drv.call(req)
            if 'error' in mo:
                raise RuntimeError('driver: ' + mo['error'])
            for (I, z, part), q, rq in zip(pairs, mo['queries'], req['queries']):
                if any(Fr(v) != 0 for v in q['eval_residual']):
                    raise RuntimeError('harness: exact collocation of the harness and of the Lean model disagree')
                if q['m2'] != mv[I] ** 2:
                    chk.diff('squared mode number of index %d' % I, desc, q['m2'], mv[I] ** 2)
                xmax = max([abs(Fr(v)) for v in rq['xhat']] + [Fr(0)])
                cmax = max(abs(Fr(v)) for v in rq['rho_c'])
                for a in range(q['size']):
                    row = mo['start_range'] + q['stiff_range'][0] + a
                    sc = Fr(q['rowabs'][a]) * xmax + sum(abs(Fr(v)) for v in mo['abs']['mass'][row]) * cmax
                    r = abs(Fr(q['residual'][a]))
                    if sc:
                        stats['residual'] = max(stats['residual'], float(r / (EPS * sc)))
                    if r > H.C_RESIDUAL * EPS * sc:
                        chk.diff('Galerkin residual of mode %d (z %d, %s part) w.r.t. the model operator' % (I, z, 'real' if part == 0 else 'imag'),
                                 desc, 'row %d <= %d eps * %g' % (a, H.C_RESIDUAL, float(sc)), float(r))
                        break
                for v in q['outside']:
                    if abs(Fr(v)) > H.C_RESIDUAL * EPS * xmax:
                        chk.diff('coefficient outside the slice of mode %d is not zero' % I, desc, 0, float(Fr(v)))
        uneven = (nr % nprocs[0] != 0) or (nz % nprocs[1] != 0) or (nth % nprocs[0] != 0)
        chk.case(('qn', nr, nth, nz, d, uniform_flag, from_f, kind, adiabatic, chi, cfg['qdeg'], cfg['B'], nprocs),
                 nontrivial=nth > 1, sample=dict(desc, phi00=float(phi[0, 0, 0].real)) if (it == 0 and gi < 2) else None)
        chk.count('grid %dx%d' % nprocs)
        chk.count('ntheta %s' % ('even' if nth % 2 == 0 else 'odd'))
        chk.count('electrons ' + ('adiabatic chi=%d' % chi if adiabatic else 'kinetic'))
        chk.count('kind ' + kind + (' from f' if from_f else ' from rho'))
        chk.count('uneven split' if uneven else 'even split')
        chk.traces_validated += 1


def qn_request(S, cfg, d, nth, electrons, chi, queries, rs):
    from pygyro.splines.splines import BSplines, make_knots
    rs0 = S['bsplines'][0]
    if rs is None:
        rs = BSplines(make_knots(rs0.breaks, 3, False), 3, False, False) if rs0.cubic_uniform else rs0
    fns = qn_functions(S['constants'], electrons == 'adiabatic', cfg['B'], cfg.get('custom_profiles', False))
    extra = {'N': nth, 'electrons': electrons, 'nodes': common.rats(S['eta'][0]), 'queries': queries}
    if electrons == 'adiabatic':
        extra['chi'] = int(chi)
    return H.solver_request(rs, cfg['qdeg'], fns, extra)


def run(chk):
    chk.rule = ('random radial degree 1-5, nr, ntheta 1-7 (even and odd), nz 1-3, cubic-uniform or general radial spline, '
                'adiabatic (chi 0/1) or kinetic electrons, B in {1,2}, quadrature parameter; density from a distribution function '
                '(random perturbation / single mode / exact equilibrium) through DensityFinder or a given real rho; every process grid '
                '(pr,pz) with pr*pz <= 4 (quick) / 6 (thorough); non-trivial = more than one mode; distinct by all of these')
    chk.explanation = ('partial proof + correspondence: round trip (Mathlib ZMod.dft), mode-number bookkeeping, chi / m = 0 selection, '
                       'slices and the zero-equilibrium composition are Lean theorems; that FFTPACK computes the DFT, the sparse solves and '
                       'the distributed layout changes are covered by the correspondence run of the real pipeline (dense DFT oracle, exact '
                       'Galerkin residual w.r.t. the model operator, independent dense numpy solve per mode)')
    # theorems about the loop REGENERATED from fullSimulation.py: run the translator first
    import subprocess as _sp
    _tr = _sp.run(['/venv/bin/python', str(common.VERIF / 'harness' / 'translate_driver.py'), '--repo', str(common.REPO), '--out', common.generated_dir(chk)], capture_output=True, text=True)
    if _tr.returncode != 0:
        chk.proof_broken.append({'theorem': 'translator (harness/translate_driver.py) refused the source of the time loop', 'log': (_tr.stdout + _tr.stderr)[-800:]})
    chk.proof_side(build=not getattr(chk, 'no_build', False), extra_props=('C15Extra',))
    common.use_repo()
    drv = common.LeanDriver('C14.lean')
    stats = {'fft': 0.0, 'roundtrip': 0.0, 'oracle': 0.0, 'residual': 0.0, 'imag': 0.0}
    try:
        for it in range(chk.n(20, 150)):
            one_setup(chk, drv, it, stats)
    finally:
        drv.close()
    chk.notes['max_ratio_fft'] = 'max |getModes/findPotential - dense DFT|/(eps*sum|x|) = %.3g (accepted %d)' % (stats['fft'], C_FFT)
    chk.notes['max_ratio_roundtrip'] = 'max round-trip error/(eps*sum|x|) = %.3g (accepted %d)' % (stats['roundtrip'], C_FFT)
    chk.notes['max_ratio_oracle'] = 'max float residual of the dense per-mode numpy system/(eps*scale) = %.3g (accepted %d)' % (stats['oracle'], H.C_ORACLE)
    chk.notes['max_ratio_residual'] = 'max exact Galerkin residual w.r.t. the model operator/(eps*scale) = %.3g (accepted %d)' % (stats['residual'], H.C_RESIDUAL)
    chk.notes['max_ratio_imag'] = 'max |imag phi|/(eps*gain*max|rho|) = %.3g (accepted %d)' % (stats['imag'], C_REAL)
    chk.assumptions = [
        'scipy.fftpack fft/ifft = DFT / inverse DFT (contract; measured against dense DFT matrices on every case)',
        'equilibrium profiles n0, Te, n0\'/n0, f_eq are inputs (evaluated by the repo\'s initialiser functions)',
        'the clause "the equilibrium is a fixed point of the complete time step" composes this property with the advection '
        'properties C10-C12 and is not re-checked here (zero potential => zero field terms is shown there)',
        'uniform radial breaks; mode systems with condition number > 1e9 are discarded and counted',
    ]
    return chk.finish()
