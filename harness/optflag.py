"""The same computation in an interpreter started normally and in one started with -O (assert statements compiled away): the numbers
may not depend on the flag.  Used by C08 (1-D / 2-D interpolation) and C16 (perturbed density on a 2x2 process grid)."""
import json
import os
import subprocess
import sys
import tempfile

import common

SCRIPT = r'''
import sys, json
sys.path[0:0] = %r
import numpy as np
which = sys.argv[1]
if which == 'c08':
    from pygyro.splines.splines import BSplines, Spline1D, Spline2D, make_knots
    from pygyro.splines.spline_interpolators import SplineInterpolator1D, SplineInterpolator2D
    rs = np.random.RandomState(5)
    out = []
    for (d1, p1, u1, d2, p2, u2) in [(3, True, True, 3, False, True), (2, True, False, 4, False, False), (3, False, False, 5, True, False)]:
        def sp(d, p, u, n):
            return BSplines(make_knots(np.linspace(0.0, 1.0, n + 1), d, p), d, p, u)
        b1, b2 = sp(d1, p1, u1, 7), sp(d2, p2, u2, 6)
        x1, x2 = np.array(b1.greville), np.array(b2.greville)
        s1 = Spline1D(b1)
        u = rs.uniform(-1, 1, size=len(x1))
        SplineInterpolator1D(b1).compute_interpolant(u.copy(), s1)
        e1 = max(abs(s1.eval(float(x)) - v) for x, v in zip(x1, u))
        s2 = Spline2D(b1, b2)
        U = rs.uniform(-1, 1, size=(len(x1), len(x2)))
        SplineInterpolator2D(b1, b2).compute_interpolant(U.copy(), s2)
        e2 = max(abs(s2.eval(float(x), float(y)) - U[i, j]) for i, x in enumerate(x1) for j, y in enumerate(x2))
        out.append({'err1d': float(e1), 'err2d': float(e2), 'coeffs': [float(c) for c in np.ravel(np.asarray(s2.coeffs))]})
    print(json.dumps(out))
else:
    from mpi4py import MPI
    from pygyro.initialisation.setups import setupCylindricalGrid
    from pygyro.poisson.poisson_solver import DensityFinder
    from pygyro.model.layout import getLayoutHandler
    from pygyro.model.grid import Grid
    from pygyro.model.process_grid import compute_2d_process_grid
    npts = [6, 8, 4, 8]
    nprocs = compute_2d_process_grid(npts, 4)

    def body():
        comm = MPI.COMM_WORLD
        grid, constants, t = setupCylindricalGrid(npts=npts, layout='v_parallel', comm=comm, eps=0.1)
        eta = grid.eta_grid
        h = getLayoutHandler(comm, {'v_parallel_2d': [0, 2, 1]}, list(nprocs), eta[:3])
        rho = Grid(eta[:3], [None] * 3, h, 'v_parallel_2d', comm)
        df = DensityFinder(6, grid.getSpline(3), eta, constants)
        df.getPerturbedRho(grid, rho)
        first = np.array(rho._f).tolist()
        df.getRho(grid, rho)
        return [first, np.array(rho._f).tolist()]
    res = MPI.run(4, body)
    if not res.ok:
        raise SystemExit('raised: ' + str(res.first_error())[:300])
    print(json.dumps({'nprocs': [int(x) for x in nprocs], 'rho': res.values()}))
'''


def compare(chk, which, prop):
    with tempfile.TemporaryDirectory(prefix='pgopt') as d:
        script = os.path.join(d, 'optflag.py')
        open(script, 'w').write(SCRIPT % ([str(common.SIMMPI), str(common.REPO)],))
        env = {k: v for k, v in os.environ.items() if k != 'PYTHONOPTIMIZE'}
        env['PYTHONDONTWRITEBYTECODE'] = '1'
        procs = [(fl, subprocess.Popen([sys.executable] + fl + [script, which], stdout=subprocess.PIPE, stderr=subprocess.PIPE, env=env, text=True))
                 for fl in ([], ['-O'])]
        outs = []
        for fl, pr in procs:
            o, e = pr.communicate()
            if pr.returncode != 0:
                chk.fail('%s:interpreter-flag-crash' % prop, 'the computation raised in an interpreter started with %r: %s' % (fl, e[-300:]),
                         {'flags': fl, 'what': which})
                return
            outs.append(json.loads(o.strip().splitlines()[-1]))
    case = {'what': {'c08': '1-D and 2-D interpolation on three pairs of spaces', 'c16': 'getPerturbedRho / getRho on a 2x2 process grid'}[which],
            'interpreters': ['python', 'python -O']}
    if outs[0] != outs[1]:
        chk.fail('%s:depends-on-interpreter-flag' % prop, 'the result differs between an interpreter started normally and one started with -O '
                 '(assert statements are not executed there): part of the computation sits in an assert', case)
    if which == 'c08':
        for o, fl in zip(outs, ('python', 'python -O')):
            for k, e in enumerate(o):
                if not (e['err1d'] <= 1e-10 and e['err2d'] <= 1e-10):
                    chk.fail('C08:interpolation-under-flag', 'under %s the interpolant does not reproduce the data at the interpolation points' % fl,
                             dict(case, pair=k), 0.0, max(e['err1d'], e['err2d']))
                    break
    chk.case(('optflag', which), nontrivial=True)
    chk.count('same computation with and without -O')
