"""Helpers shared by the layout / grid checks (C01-C04, C06): run the real layout code of /repo on
simulated ranks, fill blocks with an encoding of the global index, and compute — independently of any
model — what every rank has to hold (numpy transpose + slicing of the global array)."""
import itertools

import numpy as np

import common

common.use_repo()
from mpi4py import MPI  # noqa: E402  (simulated)


def eta_grids(shape):
    return [np.arange(n, dtype=float) * (d + 1) + 0.25 * d for d, n in enumerate(shape)]


def global_array(shape, dtype='int64', salt=0):
    """payload = global flat index (+ salt): a misplaced element is identified, not merely detected"""
    G = np.arange(int(np.prod(shape)), dtype='int64').reshape(shape) + salt
    if dtype == 'float64':
        return G.astype(float) + 0.5
    if dtype == 'complex128':
        return G.astype(float) + 1j * (G.astype(float) * 2 + 1)
    return G.astype(dtype)


def expected_block(G, layout):
    sl = tuple(slice(s, e) for s, e in zip(layout.starts, layout.ends))
    return np.transpose(G, layout.dims_order)[sl]


def put_block(buf, G, layout):
    blk = expected_block(G, layout)
    buf[:layout.size] = blk.ravel()
    return blk


def block_of(buf, layout):
    return buf[:layout.size].reshape(layout.shape)


def all_perms(nd):
    return list(itertools.permutations(range(nd)))


def rand_shape(rng, nd, nprocs, lo=None, hi=9):
    """extents >= the largest process count (so that no block is empty), with forced edge cases"""
    m = max(nprocs) if nprocs else 1
    out = []
    for _ in range(nd):
        r = rng.random()
        if r < 0.2:
            out.append(m)                      # extent == process count
        elif r < 0.35:
            out.append(m + 1)                  # extent == 1 mod P (for P = m)
        else:
            out.append(rng.randint(max(m, lo or 1), max(hi, m)))
    return out


def rand_nprocs(rng, nd, max_ranks=6, max_axes=3):
    """1..min(nd-1, max_axes) process axes with counts 1-4, product <= max_ranks"""
    for _ in range(100):
        k = rng.randint(1, min(max_axes, max(1, nd - 1)))
        n = [rng.choice([1, 1, 2, 2, 3, 4]) for _ in range(k)]
        if int(np.prod(n)) <= max_ranks:
            return n
    return [1]


def handler_compatible(nprocs, o1, o2):
    """re-statement of LayoutHandler.compatible on plain data (used only to build *accepted* layout sets)"""
    d = [i for i, n in enumerate(nprocs) if n > 1 and o1[i] != o2[i]]
    return len(d) < 2


def connected(nprocs, orders):
    names = list(range(len(orders)))
    seen = {0}
    todo = [0]
    while todo:
        a = todo.pop()
        for b in names:
            if b not in seen and handler_compatible(nprocs, orders[a], orders[b]):
                seen.add(b)
                todo.append(b)
    return len(seen) == len(orders)


def rand_layout_set(rng, nd, nprocs, k=None, want_connected=True):
    """k distinct random permutations (as dict name -> order); connected under `compatible` if want_connected, NOT connected if it is False
    (when such a set exists), either if None"""
    perms = all_perms(nd)
    for _ in range(200):
        kk = k or rng.randint(2, min(5, len(perms)))
        orders = rng.sample(perms, kk)
        if want_connected is None or connected(nprocs, orders) == bool(want_connected):
            return {'L%d' % i: list(o) for i, o in enumerate(orders)}
    if not want_connected:
        # (no unconnected set exists for this grid, e.g. a single process direction)
        return rand_layout_set(rng, nd, nprocs, k, True)
    o = rng.choice(perms)
    return {'L0': list(o)}


def run_ranks(nranks, fn, *args, **kw):
    return MPI.run(nranks, fn, *args, **kw)
