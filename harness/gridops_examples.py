#!/usr/bin/env python3
"""Concrete instances of the generated grid-level loops (Generated/GridOpsGen.lean), RECORDED FROM THE REAL METHODS of /repo.

The real methods (FluxSurfaceAdvection.gridStep, VParallelAdvection.gridStep / gridStepKeepGradient, PoloidalAdvection.gridStep /
gridStep_SplinesUnchanged, DensityFinder.getPerturbedRho / getRho, DiffEqSolver.solveEquation, QuasiNeutralitySolver.solveEquation,
initialise_flux_surface / _poloidal / _v_parallel) are run on the 4 ranks of a 2 x 2 process grid of the simulated MPI, on real `Grid`
objects over real layout managers (npts 3 x 4 x 5 x 7: uneven blocks), with RECORDING STAND-INS for everything the loops call: the
operator object is a stub whose `step` / `_solveMode` / `_interpolator.compute_interpolant` record their arguments, the kernels imported
by the modules (`get_perturbed_rho`, `get_rho`, `init_f_*`) are replaced by recorders, tables (`parGradVals`, `self._fEq`, `self._mVals`, …) are
symbolic objects that record how they are indexed.  Every recorded argument is rendered as the `Arg` term of Model/GridApi.lean it IS:
a view into a grid's memory -> `.view "<grid>" [leading local indices]` (found through the memory offset), a coordinate value -> `.coord dim
globalIndex` (the coordinate arrays hold pairwise different values), a slice of a coordinate array -> `.coordVals dim lo hi`, an integer ->
`.idx n`.  Arguments are bound to parameter names with `inspect.signature` of the REAL callee (not with the translator's reading of it).

  --write   writes lean/PygyroVerif/Props/C05Gen2Examples.lean: `example : <generated function> <this rank's layouts> = some [<recorded calls>] := by decide`
            (and `= none` where the real method raises AssertionError) — kernel-checked against the function GENERATED from the source
  check(chk) (called by harness/props/c05.py on every run): records again from the repository under test and compares with the text of that
            file; a difference is a correspondence difference of C05.
"""
import inspect
import os
import sys
import threading
import types

import numpy as np

HERE = os.path.dirname(os.path.abspath(__file__))
sys.path.insert(0, HERE)
import common  # noqa: E402

common.use_repo()
from mpi4py import MPI  # noqa: E402  (simulated)

OUT = common.LEAN / 'PygyroVerif' / 'Props' / 'C05Gen2Examples.lean'
NPTS = (3, 4, 5, 7)
FORCED = (2, 2)
NAMES = {'flux_surface': 0, 'v_parallel': 1, 'poloidal': 2, 'v_parallel_2d': 3, 'mode_solve': 4, 'v_parallel_1d': 5}
F_LAYOUTS = {'flux_surface': [0, 3, 1, 2], 'v_parallel': [0, 2, 1, 3], 'poloidal': [3, 2, 1, 0]}
PHI_GROUPS = [{'v_parallel_2d': [0, 2, 1], 'mode_solve': [1, 2, 0]}, {'v_parallel_1d': [0, 2, 1]}, {'poloidal': [2, 1, 0]}]
RHO_LAYOUTS = {'v_parallel_2d': [0, 2, 1], 'mode_solve': [1, 2, 0]}
MVALS = [3, -1, 0, 5]            # stand-in for self._mVals (one entry per global theta mode): the zero is NOT at index 0
IS_ZERO = '(fun I => I == 2)'    # the test `self._mVals[I] == 0` for these values
TL = threading.local()           # .ctx: the recording context of the rank running in this thread (ranks of the simulated MPI are threads)


class Sym:
    """symbolic stand-in for a table / opaque object: remembers the Arg term it denotes"""
    __hash__ = None

    def __init__(self, lean):
        self.lean = lean

    def __getitem__(self, key):
        keys = key if isinstance(key, tuple) else (key,)
        return Sym('.sub%d (%s) %s' % (len(keys), self.lean, ' '.join('(%s)' % TL.ctx.render(k) for k in keys)))

    def __sub__(self, o):
        return Sym('.bin "-" (%s) (%s)' % (self.lean, TL.ctx.render(o)))

    def __mul__(self, o):
        return Sym('.bin "*" (%s) (%s)' % (self.lean, TL.ctx.render(o)))

    def __rmul__(self, o):
        return Sym('.bin "*" (%s) (%s)' % (TL.ctx.render(o), self.lean))


class MVals(Sym):
    """self._mVals: entries are symbolic but can be compared with a number"""
    def __getitem__(self, key):
        e = Entry('.sub1 (%s) (%s)' % (self.lean, TL.ctx.render(key)))
        e.value = MVALS[int(key)]
        return e


class Entry(Sym):
    def __eq__(self, o):
        return self.value == o

    def __ne__(self, o):
        return self.value != o


class Attrs:
    """object whose every attribute is an opaque symbol `<name>.<attr>`"""
    def __init__(self, name):
        self.__dict__['_n'] = name

    def __getattr__(self, a):
        return Sym('.obj "%s.%s"' % (self._n, a))


class Ctx:
    """renders recorded arguments; knows the grids (memory) and the coordinate arrays of this rank"""
    def __init__(self, eta):
        self.eta = eta
        self.grids = {}          # python name -> Grid
        self.calls = []

    def addr(self, a):
        return a.__array_interface__['data'][0]

    def render(self, x):
        if isinstance(x, Sym):
            return x.lean
        if isinstance(x, (bool, np.bool_)):
            raise TypeError('a Boolean was passed')
        if isinstance(x, (int, np.integer)):
            if x < 0:
                raise ValueError('negative integer %d passed' % x)
            return '.idx %d' % int(x)
        if isinstance(x, range):
            if x.step != 1:
                raise ValueError('range with a step')
            return '.idxs [%s]' % ', '.join(str(v) for v in x)
        for name, g in self.grids.items():
            if x is g:
                return '.obj "%s"' % name
        if isinstance(x, (float, np.floating)):
            hits = [(d, int(i)) for d, e in enumerate(self.eta) for i in np.nonzero(e == x)[0]]
            if len(hits) != 1:
                raise ValueError('the float %r is not exactly one coordinate value' % x)
            return '.coord %d %d' % hits[0]
        if isinstance(x, np.ndarray):
            for d, e in enumerate(self.eta):
                off = self.addr(x) - self.addr(e)
                if x.ndim == 1 and x.size > 0 and 0 <= off < e.nbytes and x.dtype == e.dtype and x.strides == e.strides and off % e.itemsize == 0 \
                        and off // e.itemsize + x.size <= e.size:
                    lo = off // e.itemsize
                    return '.coordVals %d %d %d' % (d, lo, lo + x.size)
            for name, g in self.grids.items():
                base = g._f
                off = self.addr(x) - self.addr(base)
                if 0 <= off < max(base.nbytes, 1) and base.flags['C_CONTIGUOUS']:
                    lead = base.ndim - x.ndim
                    idx = np.unravel_index(off // base.itemsize, base.shape) if base.size else ()
                    if off % base.itemsize or lead < 0 or any(int(i) != 0 for i in idx[lead:]) or tuple(x.shape) != tuple(base.shape[lead:]):
                        raise ValueError('an array inside the memory of grid %s that is not a slice at leading indices' % name)
                    v = '.view "%s" [%s]' % (name, ', '.join(str(int(i)) for i in idx[:lead]))
                    if x.dtype == base.dtype and x.strides == base.strides[lead:]:
                        return v
                    if base.dtype == np.complex128 and x.dtype == np.float64 and x.strides == base.strides[lead:]:
                        return '.un "np.real" (%s)' % v          # the real parts: same addresses, same strides, half the item
                    raise ValueError('an unexpected view of grid %s' % name)
            raise ValueError('an array that is neither a slice of a grid nor of a coordinate array')
        raise TypeError('argument of type %s' % type(x).__name__)

    def take(self):
        out, self.calls = self.calls, []
        return out


def recorder(callee, real=None, drop_self=False):
    """callable that records, in the context of the calling rank, (callee text, arguments bound to the parameter names of the REAL
    function `real`; arg0, arg1, … without one)"""
    sig = None
    if real is not None:
        ps = list(inspect.signature(real).parameters.values())
        sig = inspect.Signature(ps[1:] if drop_self else ps)

    def rec(*args, **kw):
        ctx = TL.ctx
        if sig is None:
            assert not kw
            bound = [('arg%d' % i, a) for i, a in enumerate(args)]
        else:
            ba = sig.bind(*args, **kw)
            ba.apply_defaults()
            bound = list(ba.arguments.items())
        ctx.calls.append('⟨"%s", [%s]⟩' % (callee, ', '.join('("%s", %s)' % (n, ctx.render(a)) for n, a in bound)))
    return rec


def body():
    """inside a rank: build the grids, run every method with stand-ins, return the rendered call lists"""
    import pygyro.advection.advection as adv
    import pygyro.poisson.poisson_solver as ps
    import pygyro.initialisation.initialiser as ini
    from pygyro.model.layout import LayoutSwapper, getLayoutHandler
    from pygyro.model.grid import Grid
    comm = MPI.COMM_WORLD
    eta = [np.array([10.0 * d + i + 0.5 for i in range(n)]) for d, n in enumerate(NPTS)]
    ctx = TL.ctx = Ctx(eta)
    nprocs = list(FORCED)
    f = Grid(eta, [None] * 4, getLayoutHandler(comm, F_LAYOUTS, nprocs, eta), 'flux_surface', comm, allocateSaveMemory=True)
    phi = Grid(eta[:3], [None] * 3, LayoutSwapper(comm, PHI_GROUPS, [nprocs, nprocs[0], nprocs[1]], eta[:3], 'mode_solve'), 'mode_solve', comm,
               dtype=np.complex128)
    rho = Grid(eta[:3], [None] * 3, getLayoutHandler(comm, RHO_LAYOUTS, nprocs, eta[:3]), 'v_parallel_2d', comm, dtype=np.complex128)
    for g in (f, phi, rho):
        for b in g._my_data:
            b[:] = 0
    out = {'coords': [int(x) for x in f._layout_manager.mpiCoords], 'layouts': {}, 'ex': []}
    for gname, g, names in (('f', f, F_LAYOUTS), ('phi', phi, [n for grp in PHI_GROUPS for n in grp]), ('rho', rho, RHO_LAYOUTS)):
        for n in names:
            L = g.getLayout(n)
            out['layouts'][gname + ':' + n] = {'nprocs': [int(x) for x in L.nprocs], 'ord': [int(x) for x in L.dims_order], 'ranks': [int(x) for x in L.ranks],
                                              'shape': [int(x) for x in L.shape]}

    def sym(t):
        return Sym('.obj "%s"' % t)

    def ex(lean_fn, grids, run):
        """grids: list of (lean constructor, python name, Grid); the current layouts are read off the grids"""
        ctx.grids = {pn: g for _, pn, g in grids}
        args = ' '.join('(Ex.%s %s %d)' % (ctor, out['coords'], NAMES[g.currentLayout]) for ctor, _, g in grids)
        try:
            run()
            res = ctx.take()
        except AssertionError:
            ctx.take()
            res = None
        out['ex'].append((lean_fn, args, res))

    dt = sym('dt')
    # ---- flux surface
    flux = types.SimpleNamespace(step=recorder('self.step', adv.FluxSurfaceAdvection.step, True))
    f.setLayout('flux_surface')
    ex('FluxSurfaceAdvection_gridStep', [('gridF', 'grid', f)], lambda: adv.FluxSurfaceAdvection.gridStep(flux, f))
    constants = Attrs('constants')
    if True:
        ex('initialise_flux_surface', [('gridF', 'grid', f)], lambda: ini.initialise_flux_surface(f, constants))
        # ---- v parallel
        f.setLayout('v_parallel')
        phi.setLayout('v_parallel_1d')
        ex('FluxSurfaceAdvection_gridStep', [('gridF', 'grid', f)], lambda: adv.FluxSurfaceAdvection.gridStep(flux, f))       # refused: wrong layout
        vpar = types.SimpleNamespace(step=recorder('self.step', adv.VParallelAdvection.step, True))
        pg = types.SimpleNamespace(parallel_gradient=recorder('parGrad.parallel_gradient', adv.ParallelGradient.parallel_gradient, True))
        pgv = sym('parGradVals')
        ex('VParallelAdvection_gridStep', [('gridF', 'grid', f), ('gridPhi', 'phi', phi)], lambda: adv.VParallelAdvection.gridStep(vpar, f, phi, pg, pgv, dt))
        ex('VParallelAdvection_gridStepKeepGradient', [('gridF', 'grid', f)], lambda: adv.VParallelAdvection.gridStepKeepGradient(vpar, f, pgv, dt))
        ex('initialise_v_parallel', [('gridF', 'grid', f)], lambda: ini.initialise_v_parallel(f, constants))
        # ---- density (f in v_parallel, rho in v_parallel_2d)
        dens = types.SimpleNamespace(_fEq=sym('self._fEq'), _quad_coeffs=sym('self._quad_coeffs'))
        ex('DensityFinder_getPerturbedRho', [('gridF', 'grid', f), ('gridRho', 'rho', rho)], lambda: ps.DensityFinder.getPerturbedRho(dens, f, rho))
        ex('DensityFinder_getRho', [('gridF', 'grid', f), ('gridRho', 'rho', rho)], lambda: ps.DensityFinder.getRho(dens, f, rho))
        # ---- mode solve
        rho.setLayout('mode_solve')
        phi.setLayout('mode_solve')
        ex('DensityFinder_getPerturbedRho', [('gridF', 'grid', f), ('gridRho', 'rho', rho)], lambda: ps.DensityFinder.getPerturbedRho(dens, f, rho))   # refused

        def solver():
            return types.SimpleNamespace(_stiffnessMatrix=sym('self._stiffnessMatrix'), _mVals=MVals('.obj "self._mVals"'), _k2PhiPsi=sym('self._k2PhiPsi'),
                                         _stiffness_range=sym('self._stiffness_range'), _stiffness0=sym('self._stiffness0'), _coeffs=np.ones(5),
                                         _solveMode=recorder('self._solveMode', ps.DiffEqSolver._solveMode, True))
        s1, s2 = solver(), solver()
        ex('DiffEqSolver_solveEquation', [('gridPhi', 'phi', phi), ('gridRho', 'rho', rho)], lambda: ps.DiffEqSolver.solveEquation(s1, phi, rho))
        ex('QuasiNeutralitySolver_solveEquation ' + IS_ZERO, [('gridPhi', 'phi', phi), ('gridRho', 'rho', rho)],
           lambda: ps.QuasiNeutralitySolver.solveEquation(s2, phi, rho))
        if out['coords'] == [0, 0] and not (s1._coeffs[0] == 0 and s1._coeffs[-1] == 0 and list(s1._coeffs[1:-1]) == [1, 1, 1]):
            raise RuntimeError('the statements the translator skips (`self._coeffs[0] = 0`, `self._coeffs[-1] = 0`) did something else: %s' % s1._coeffs)
        rho.setLayout('v_parallel_2d')
        ex('DiffEqSolver_solveEquation', [('gridPhi', 'phi', phi), ('gridRho', 'rho', rho)], lambda: ps.DiffEqSolver.solveEquation(s1, phi, rho))     # refused
        # ---- poloidal
        f.setLayout('poloidal')
        phi.setLayout('poloidal')
        pol = types.SimpleNamespace(step=recorder('self.step', adv.PoloidalAdvection.step, True), _phiSplines=sym('self._phiSplines'),
                                    _interpolator=types.SimpleNamespace(compute_interpolant=recorder('self._interpolator.compute_interpolant')))
        ex('PoloidalAdvection_gridStep', [('gridF', 'grid', f), ('gridPhi', 'phi', phi)], lambda: adv.PoloidalAdvection.gridStep(pol, f, phi, dt))
        ex('PoloidalAdvection_gridStep_SplinesUnchanged', [('gridF', 'grid', f)], lambda: adv.PoloidalAdvection.gridStep_SplinesUnchanged(pol, f, dt))
        ex('initialise_poloidal', [('gridF', 'grid', f)], lambda: ini.initialise_poloidal(f, constants))
        f.setLayout('v_parallel')
        # (PoloidalAdvection.gridStep itself raises KeyError here: the potential has no layout NAMED 'v_parallel'; the model's getLayout is total)
        ex('PoloidalAdvection_gridStep_SplinesUnchanged', [('gridF', 'grid', f)], lambda: adv.PoloidalAdvection.gridStep_SplinesUnchanged(pol, f, dt))   # refused
        # ---- the weak assert of PoloidalAdvection.gridStep: the distribution function in 'poloidal', the potential in ANOTHER 3-D layout
        #      ('v_parallel_1d'); the assert looks at the layout the potential has under the NAME 'poloidal' and passes.  Recorded only on the
        #      process (1, 0), where the local radial extent of the potential (2) is not exceeded by the local z indices (0, 1)
        f.setLayout('poloidal')
        phi.setLayout('v_parallel_1d')
        if out['coords'] == [1, 0]:
            ex('PoloidalAdvection_gridStep', [('gridF', 'grid', f), ('gridPhi', 'phi', phi)], lambda: adv.PoloidalAdvection.gridStep(pol, f, phi, dt))
    return out


def pad(l, n):
    return list(l) + [1] * (n - len(l))


def render():
    """(text of the Lean file, None) or (None, error message)"""
    import pygyro.poisson.poisson_solver as ps
    import pygyro.initialisation.initialiser as ini
    import pygyro.initialisation.initialiser_funcs as inif
    import pygyro.poisson.poisson_tools as pt
    # the kernels the modules imported by name: replaced (for all rank threads at once) by recorders that write to the calling rank's context
    saved = (ini.init_f_flux, ini.init_f_pol, ini.init_f_vpar, ps.get_perturbed_rho, ps.get_rho)
    ini.init_f_flux = recorder('init_f_flux', inif.init_f_flux)
    ini.init_f_pol = recorder('init_f_pol', inif.init_f_pol)
    ini.init_f_vpar = recorder('init_f_vpar', inif.init_f_vpar)
    ps.get_perturbed_rho = recorder('get_perturbed_rho', pt.get_perturbed_rho)
    ps.get_rho = recorder('get_rho', pt.get_rho)
    try:
        res = MPI.run(FORCED[0] * FORCED[1], body, policy='inorder')
    finally:
        ini.init_f_flux, ini.init_f_pol, ini.init_f_vpar, ps.get_perturbed_rho, ps.get_rho = saved
    if not res.ok:
        return None, 'running the real grid-level methods with recording stand-ins raised: ' + str(res.first_error())[:400]
    vals = res.values()
    # the per-layout process coordinates / process counts the Lean definitions below assume
    for v in vals:
        c = v['coords']
        for key, L in v['layouts'].items():
            g, n = key.split(':')
            exp_np, exp_c = (list(FORCED), c) if not (g == 'phi' and n in ('v_parallel_1d', 'poloidal')) else \
                (([FORCED[0]], [c[0]]) if n == 'v_parallel_1d' else ([FORCED[1]], [c[1]]))
            if L['nprocs'] != pad(exp_np, len(L['ord'])) or L['ranks'][:len(exp_c)] != exp_c or any(L['ranks'][len(exp_c):]):
                return None, 'layout %s on process %s has nprocs %s / coordinates %s, the Lean instance assumes %s / %s' % (key, c, L['nprocs'], L['ranks'], exp_np, exp_c)
    def lay(order, npr, ext):
        return 'Layout.make %s %s %s' % (npr, order, ext)
    e4, e3 = list(NPTS), list(NPTS[:3])
    lines = ['/-',
             'WRITTEN by harness/gridops_examples.py --write — do not edit.  Concrete instances of the generated grid-level loops (Generated/GridOpsGen.lean):',
             'the call lists below were RECORDED from the real methods of /repo, run on the 4 ranks of a 2 x 2 process grid of the simulated MPI (npts %s:' % (NPTS,),
             'uneven blocks) with recording stand-ins for the kernels; `by decide` checks that the function generated from the source evaluates to exactly',
             'the recorded list (`none` = the real method raised AssertionError).  `./check C05` records again on every run and compares with this text.',
             'Layout names: ' + ', '.join('%s = %d' % (k, v) for k, v in NAMES.items()) + '.',
             '-/', 'import PygyroVerif.Generated.GridOpsGen', '', 'namespace PygyroVerif.C05Gen2.Ex', 'open PygyroVerif PygyroVerif.GridApi', '',
             '/-- the distribution function: one layout handler, process grid %s; `c` = coordinates of the process, `cur` = name of the current layout -/' % (list(FORCED),),
             'def gridF (c : List Nat) (cur : Nat) : GridV :=',
             '  { layouts := fun n => if n = 0 then %s else if n = 1 then %s else %s,' % tuple(lay(F_LAYOUTS[k], list(FORCED), e4) for k in ('flux_surface', 'v_parallel', 'poloidal')),
             '    coords := fun _ => c, state := GridSM.init true cur 0 }', '',
             '/-- the potential: a layout swapper; \'v_parallel_1d\' is distributed over the first process axis only, \'poloidal\' over the second -/',
             'def gridPhi (c : List Nat) (cur : Nat) : GridV :=',
             '  { layouts := fun n => if n = 5 then %s else if n = 2 then %s else if n = 3 then %s else %s,'
             % (lay([0, 2, 1], [FORCED[0]], e3), lay([2, 1, 0], [FORCED[1]], e3), lay([0, 2, 1], list(FORCED), e3), lay([1, 2, 0], list(FORCED), e3)),
             '    coords := fun n => if n = 5 then [c.getD 0 0] else if n = 2 then [c.getD 1 0] else c, state := GridSM.init false cur 0 }', '',
             '/-- the charge density: one layout handler -/',
             'def gridRho (c : List Nat) (cur : Nat) : GridV :=',
             '  { layouts := fun n => if n = 3 then %s else %s,' % (lay([0, 2, 1], list(FORCED), e3), lay([1, 2, 0], list(FORCED), e3)),
             '    coords := fun _ => c, state := GridSM.init false cur 0 }', '',
             'end PygyroVerif.C05Gen2.Ex', '', 'namespace PygyroVerif.C05Gen2', 'open PygyroVerif PygyroVerif.GridApi PygyroVerif.Gen.GridOps', '']
    n_ex = 0
    for v in vals:
        c = v['coords']
        lines.append('/-! process %s -/' % (c,))
        for fn, args, calls in v['ex']:
            n_ex += 1
            if calls is None:
                lines.append('example : %s %s = none := by decide' % (fn, args))
            elif not calls:
                lines.append('example : %s %s = some [] := by decide' % (fn, args))
            else:
                lines.append('example : %s %s = some [' % (fn, args))
                lines.extend('    %s%s' % (cl, ',' if i + 1 < len(calls) else '] := by decide') for i, cl in enumerate(calls))
        lines.append('')
    lines.append('end PygyroVerif.C05Gen2')
    return '\n'.join(lines) + '\n', None


def check(chk):
    """correspondence: the instances of Props/C05Gen2Examples.lean (kernel-checked against the generated functions) are what the real
    methods do NOW"""
    txt, err = render()
    case = {'npts': NPTS, 'process_grid': FORCED, 'what': 'recorded calls of the real grid-level methods vs Props/C05Gen2Examples.lean'}
    if err is not None:
        chk.fail('C05:gridops-recording', err, case)
        return
    old = OUT.read_text(encoding='utf-8') if OUT.exists() else ''
    if txt != old:
        a, b = old.split('\n'), txt.split('\n')
        k = next((i for i, (x, y) in enumerate(zip(a, b)) if x != y), min(len(a), len(b)))
        chk.diff('calls of the real grid-level methods (2 x 2 process grid) vs the kernel-checked instances', dict(case, line=k + 1),
                 (a[k] if k < len(a) else '<end of file>')[:300], (b[k] if k < len(b) else '<end of file>')[:300])
    n = txt.count('\nexample :')
    chk.count('generated-loop instances compared with the real methods', n)
    chk.case(('gridops-examples', NPTS, FORCED), nontrivial=True)
    chk.traces_validated += FORCED[0] * FORCED[1]


if __name__ == '__main__':
    t, e = render()
    if e is not None:
        print('gridops_examples: ' + e)
        sys.exit(1)
    if '--write' in sys.argv:
        OUT.write_text(t, encoding='utf-8')
        print('gridops_examples: wrote %s (%d examples, %d lines)' % (OUT, t.count('\nexample :'), t.count('\n')))
    else:
        old = OUT.read_text(encoding='utf-8') if OUT.exists() else ''
        print('gridops_examples: %s' % ('recorded calls agree with ' + str(OUT) if old == t else 'DIFFERENT from ' + str(OUT)))
        sys.exit(0 if old == t else 1)
