"""Emulation of h5py's 'mpio' driver on top of the serial h5py of this sandbox, for thread-simulated ranks.

`h5py.File(name, mode, driver='mpio', comm=comm)` is redirected to ONE shared serial h5py.File per file name;
the collective operations of parallel HDF5 (open, create_dataset, attribute creation, close: everything that changes
the structure of the file) are NAMED rendezvous points on `comm` — members that issue different operations at the same
point are reported by the simulated MPI as a mismatch, members that skip one leave the others blocked —, hyperslab
writes go through unchanged.  Files are real HDF5 files.  Importing this module patches h5py.File."""
import threading

import h5py

_real_File = h5py.File


def _rendezvous(comm, what, name):
    if hasattr(comm, '_collective'):
        comm._collective(('h5py.' + what, name), None)
    else:
        comm.Barrier()
_lock = threading.RLock()
_open = {}   # filename -> [file, refcount]


class _SharedFile:
    def __init__(self, name, mode, comm):
        self._name = name
        self._comm = comm
        import os
        _rendezvous(comm, 'File', os.path.basename(name))
        with _lock:
            if name not in _open:
                _open[name] = [_real_File(name, mode), 0]
            _open[name][1] += 1
            self._f = _open[name][0]
        comm.Barrier()

    def create_dataset(self, name, shape, dtype=None, **kw):
        # object creation is collective WITH identical arguments on every member
        _rendezvous(self._comm, 'create_dataset', (name, tuple(int(x) for x in shape), str(dtype)))
        with _lock:
            if name not in self._f:
                self._f.create_dataset(name, shape, dtype=dtype, **kw)
        self._comm.Barrier()
        return _SharedDset(self._f[name], self._comm)

    def __getitem__(self, k):
        return self._f[k]

    def __contains__(self, k):
        return k in self._f

    def close(self):
        _rendezvous(self._comm, 'close', '')
        with _lock:
            ent = _open[self._name]
            ent[1] -= 1
            if ent[1] == 0:
                ent[0].close()
                del _open[self._name]
        self._comm.Barrier()


class _SharedDset:
    def __init__(self, d, comm=None):
        self._d = d
        self.attrs = _Attrs(d, comm)

    def __setitem__(self, k, v):
        with _lock:
            self._d[k] = v

    def __getitem__(self, k):
        with _lock:
            return self._d[k]

    @property
    def shape(self):
        return self._d.shape

    @property
    def dtype(self):
        return self._d.dtype


class _Attrs:
    def __init__(self, d, comm=None):
        self._d = d
        self._comm = comm

    def create(self, name, data, shape=None, dtype=None):
        if self._comm is not None:
            _rendezvous(self._comm, 'attrs.create', name)
        with _lock:
            if name not in self._d.attrs:
                self._d.attrs.create(name, data, shape, dtype)

    def __getitem__(self, k):
        return self._d.attrs[k]


def File(name, mode='r', driver=None, comm=None, **kw):
    if driver == 'mpio':
        return _SharedFile(name, mode, comm)
    return _real_File(name, mode, **kw)


h5py.File = File
