"""Common machinery of the /verif checks (see DESIGN.md section 3).

A check is a Python module harness/props/cXX.py exposing `run(chk)`; `./check CXX` builds a `Check`
object, runs the proof side (lake build + hygiene grep + axiom audit of the property theorems), then
the module's correspondence / oracle cases, then `chk.finish()` which applies the violation protocol
and writes evidence/<id>.json.
"""
import json
import os
import random
import re
import subprocess
import sys
import tempfile
import time
import traceback
from fractions import Fraction
from pathlib import Path

VERIF = Path(__file__).resolve().parent.parent
REPO = Path(os.environ.get('PYGYRO_REPO', '/repo'))
LEAN = VERIF / 'lean'
SIMMPI = VERIF / 'harness' / 'simmpi'
ALLOWED_AXIOMS = {'propext', 'Classical.choice', 'Quot.sound'}
FORBIDDEN = re.compile(r'\bsorry\b|\badmit\b|^\s*axiom\s|native_decide|bv_decide|implemented_by|\bunsafe\s|maxHeartbeats\s+0\b')

os.environ.setdefault('PYTHONDONTWRITEBYTECODE', '1')
sys.dont_write_bytecode = True


def use_repo(sim_mpi=True, h5=False):
    """Put the simulated mpi4py (optionally) and /repo's working tree in front of sys.path."""
    paths = ([str(SIMMPI)] if sim_mpi else []) + [str(REPO)]
    for p in reversed(paths):
        if p in sys.path:
            sys.path.remove(p)
        sys.path.insert(0, p)
    import warnings
    warnings.simplefilter('ignore')
    if h5:
        sys.path.insert(0, str(VERIF / 'harness'))
        import h5shim  # noqa: F401  (patches h5py.File)


# ----------------------------------------------------------------------------------------------
# rationals <-> floats

def rat(x):
    """exact rational string of a Python/numpy float or int ("num/den")"""
    if isinstance(x, (int,)) or (hasattr(x, 'dtype') and getattr(x.dtype, 'kind', '') in 'iu'):
        return str(int(x))
    f = Fraction(float(x))
    return '%d/%d' % (f.numerator, f.denominator) if f.denominator != 1 else str(f.numerator)


def rats(xs):
    return [rat(x) for x in xs]


def unrat(s):
    return Fraction(s)


def unrats(xs):
    return [Fraction(s) for s in xs]


EPS = 2.0 ** -53


def close(impl, exact, scale, factor=64.0):
    """|impl - exact| <= factor * eps * scale, with exact/scale rationals (Fractions)"""
    x = float(impl)
    if x != x or x in (float('inf'), float('-inf')):
        return False                    # a non-finite result is never close to an exact rational
    d = abs(Fraction(x) - exact)
    return d <= Fraction(factor) * Fraction(EPS) * scale


# ----------------------------------------------------------------------------------------------
# Lean side

_build_cache = {}


def lean_build(targets=(), extra_env=None):
    """`lake build [targets]` in /verif/lean; returns (ok, log, seconds)."""
    t0 = time.time()
    env = dict(os.environ)
    if extra_env:
        env.update(extra_env)
    p = subprocess.run(['lake', 'build'] + list(targets), cwd=LEAN, capture_output=True, text=True, env=env)
    log = (p.stdout + p.stderr)[-6000:]
    return p.returncode == 0, log, time.time() - t0


def strip_comments(src):
    src = re.sub(r'/-.*?-/', lambda m: '\n' * m.group(0).count('\n'), src, flags=re.S)
    return '\n'.join(l.split('--')[0] for l in src.split('\n'))


def import_closure(modules):
    """files of the PygyroVerif library reachable through `import` from the given modules"""
    seen, todo = set(), list(modules)
    while todo:
        m = todo.pop()
        if m in seen or not m.startswith('PygyroVerif'):
            continue
        f = LEAN / (m.replace('.', '/') + '.lean')
        if not f.exists():
            continue
        seen.add(m)
        for l in f.read_text().split('\n'):
            mm = re.match(r'\s*import\s+(PygyroVerif[\w.]*)', l)
            if mm:
                todo.append(mm.group(1))
    return {LEAN / (m.replace('.', '/') + '.lean') for m in seen}


def lean_hygiene(only=None):
    """grep the Lean tree (or only the given files) for forbidden constructs (comments stripped)."""
    bad = []
    for f in sorted(LEAN.rglob('*.lean')):
        if '.lake' in f.parts:
            continue
        if only is not None and f not in only:
            continue
        for i, l in enumerate(strip_comments(f.read_text()).split('\n'), 1):
            if FORBIDDEN.search(l):
                bad.append('%s:%d: %s' % (f.relative_to(LEAN), i, l.strip()))
    return bad


def props_theorems(pid, extra=()):
    """Names of the property theorems stated in lean/PygyroVerif/Props/<pid>.lean (and in the extra Props files)."""
    out = []
    for name in (pid,) + tuple(extra):
        out += _props_theorems_file(LEAN / 'PygyroVerif' / 'Props' / (name + '.lean'))
    return out


def _props_theorems_file(f):
    if not f.exists():
        return []
    ns, out = [], []
    for l in strip_comments(f.read_text()).split('\n'):
        m = re.match(r'\s*namespace\s+(\S+)', l)
        if m:
            ns.append(m.group(1))
            continue
        m = re.match(r'\s*end\s+(\S+)', l)
        if m and ns and ns[-1].split('.')[-1] == m.group(1).split('.')[-1]:
            ns.pop()
            continue
        m = re.match(r'\s*(?:protected\s+|private\s+)?theorem\s+([^\s:({\[]+)', l)
        if m:
            out.append('.'.join(ns + [m.group(1)]))
    return out


def lean_audit(pid, extra_imports=(), extra_props=()):
    """#print axioms for every property theorem; returns {theorem: sorted axioms | None if missing}."""
    names = props_theorems(pid, extra_props)
    if not names:
        return {}, 'no Props file / no theorems'
    src = 'import PygyroVerif.Props.%s\n' % pid + ''.join('import %s\n' % i for i in extra_imports)
    src += ''.join('import PygyroVerif.Props.%s\n' % e for e in extra_props)
    src += ''.join('#print axioms %s\n' % n for n in names)
    with tempfile.TemporaryDirectory(prefix='pgaudit') as d:
        fn = os.path.join(d, 'Audit_%s.lean' % pid)
        open(fn, 'w').write(src)
        p = subprocess.run(['lake', 'env', 'lean', fn], cwd=LEAN, capture_output=True, text=True)
    out = p.stdout + p.stderr
    res = {n: None for n in names}
    for m in re.finditer(r"'([^']+)' depends on axioms: \[([^\]]*)\]", out, flags=re.S):
        res[m.group(1)] = sorted(a.strip() for a in m.group(2).replace('\n', ' ').split(',') if a.strip())
    for m in re.finditer(r"'([^']+)' does not depend on any axioms", out):
        res[m.group(1)] = []
    return res, out[-3000:]


class LeanDriver:
    """JSON-lines conversation with `lake env lean --run Drivers/<file>`."""

    def __init__(self, driver):
        self.driver = driver
        self.p = subprocess.Popen(['lake', 'env', 'lean', '--run', 'Drivers/' + driver], cwd=LEAN,
                                  stdin=subprocess.PIPE, stdout=subprocess.PIPE, stderr=subprocess.PIPE,
                                  text=True, bufsize=1)
        self.calls = 0

    def call(self, obj):
        self.p.stdin.write(json.dumps(obj) + '\n')
        self.p.stdin.flush()
        line = self.p.stdout.readline()
        if not line:
            err = self.p.stderr.read()
            raise RuntimeError('Lean driver %s died: %s' % (self.driver, err[-2000:]))
        self.calls += 1
        return json.loads(line)

    def batch(self, objs):
        """send all requests, then read all replies (a writer thread avoids pipe dead-lock)"""
        import threading
        objs = list(objs)

        def w():
            for o in objs:
                self.p.stdin.write(json.dumps(o) + '\n')
            self.p.stdin.flush()
        t = threading.Thread(target=w)
        t.start()
        out = []
        for _ in objs:
            line = self.p.stdout.readline()
            if not line:
                raise RuntimeError('Lean driver %s died: %s' % (self.driver, self.p.stderr.read()[-2000:]))
            out.append(json.loads(line))
        t.join()
        self.calls += len(objs)
        return out

    def close(self):
        try:
            self.p.stdin.close()
            self.p.wait(timeout=20)
        except Exception:
            self.p.kill()


# ----------------------------------------------------------------------------------------------
# known findings

def known_findings(pid):
    f = VERIF / 'KNOWN_FINDINGS.json'
    if not f.exists():
        return []
    return [e for e in json.load(open(f))['findings'] if e['property'] == pid]


# ----------------------------------------------------------------------------------------------
# the check object

TRUSTED_BASE = [
    'Lean 4.33 kernel; axioms propext, Classical.choice, Quot.sound only (audited by #print axioms on every run)',
    'hand-written Lean model tied to /repo by the correspondence check of this run (differential testing; strength bounded by its generators)',
    'simulated mpi4py (harness/simmpi) stands in for a real MPI library; serial h5py + shim stands in for parallel HDF5',
    'CPython/numpy semantics of slicing, reshape, transpose; IEEE rounding bounded empirically against exact rational model values',
]


_scratch_gen = []


def generated_dir(chk):
    """where the translators write: lean/PygyroVerif/Generated when the run builds the Lean modules; a scratch directory when it does
    not (--no-build: nothing reads the generated modules, a refusal of the translator is still detected, and concurrent runs against
    other trees do not overwrite each other's generated files)"""
    if not getattr(chk, 'no_build', False):
        return str(LEAN / 'PygyroVerif' / 'Generated')
    if not _scratch_gen:
        import tempfile
        _scratch_gen.append(tempfile.mkdtemp(prefix='pggen'))
    return _scratch_gen[0]


def cleanup_scratch():
    import shutil
    while _scratch_gen:
        shutil.rmtree(_scratch_gen.pop(), ignore_errors=True)


def run_translator(chk, script, *args):
    """runs a source->Lean translator of harness/ against the repo under test; a refusal is a broken proof obligation"""
    import subprocess
    tr = subprocess.run(['/venv/bin/python', str(VERIF / 'harness' / script), '--repo', str(REPO), '--quiet', '--out', generated_dir(chk)] + list(args),
                        capture_output=True, text=True)
    if tr.returncode != 0:
        chk.proof_broken.append({'theorem': 'translator (harness/%s %s) refused the source' % (script, ' '.join(args)),
                                 'log': (tr.stdout + tr.stderr)[-800:]})
    return tr.returncode == 0


class Check:
    def __init__(self, pid, tier='quick', seed=0, level='proof', replay=None):
        self.pid, self.tier, self.seed, self.level, self.replay = pid, tier, seed, level, replay
        self.rng = random.Random((seed * 1000003) ^ hash_str(pid))
        self.t0 = time.time()
        self.evaluations = 0
        self.keys = set()
        self.samples = []
        self.hist = {}
        self.diffs = []          # model vs implementation differences (correspondence)
        self.failures = []       # property fails on the real code (oracle), dict with 'signature'
        self.proof_broken = []   # theorem names / build failures
        self.obligations = 0
        self.discharged = 0
        self.audit = {}
        self.notes = {}
        self.rule = ''
        self.assumptions = []
        self.trusted = list(TRUSTED_BASE)
        self.explanation = ''
        self.exhaustive = None
        self.traces_validated = 0
        self.known_printed = set()
        self.extra_cov = {}

    # ---- bookkeeping
    def quick(self):
        return self.tier == 'quick'

    def n(self, quick, thorough):
        return quick if self.tier == 'quick' else thorough

    def count(self, what, k=1):
        self.hist[what] = self.hist.get(what, 0) + k

    def case(self, key, nontrivial=True, sample=None):
        self.evaluations += 1
        if nontrivial:
            self.keys.add(key if isinstance(key, (str, int, tuple)) else json.dumps(key, sort_keys=True, default=str))
        if sample is not None and len(self.samples) < 6:
            self.samples.append(sample)

    def diff(self, what, case, model=None, impl=None):
        self.diffs.append({'what': what, 'case': case, 'model': model, 'impl': impl})
        self.count('DIFF ' + what)

    def fail(self, signature, what, case, expected=None, actual=None):
        """the property fails on the real code for `case` (decided by a model-independent oracle)"""
        self.failures.append({'signature': signature, 'what': what, 'case': case,
                              'expected': expected, 'actual': actual})
        self.count('FAIL ' + signature)

    # ---- proof side
    def proof_side(self, build=True, extra_imports=(), targets=None, extra_props=()):
        """build this property's theorem module (and what it imports) from the current sources, grep the Lean tree
        for forbidden constructs, and audit the axioms of every property theorem"""
        if build:
            if targets is None:
                targets = ['PygyroVerif.Props.' + self.pid] if (LEAN / 'PygyroVerif' / 'Props' / (self.pid + '.lean')).exists() else []
                targets += ['PygyroVerif.Props.' + e for e in extra_props]
            ok, log, dt = lean_build(targets)
            self.notes['lake_build_s'] = round(dt, 2)
            if not ok:
                self.proof_broken.append({'theorem': 'lake build', 'log': log})
        # forbidden constructs: decisive for this property when they occur in a file its theorems depend on (import closure of its
        # Props modules and its driver); occurrences elsewhere in the tree are recorded in the evidence but belong to other properties
        mods = ['PygyroVerif.Props.' + self.pid] + ['PygyroVerif.Props.' + e for e in extra_props]
        closure = import_closure(mods)
        bad = lean_hygiene(only=closure)
        if bad:
            self.proof_broken.append({'theorem': 'hygiene', 'log': bad[:20]})
        elsewhere = [b for b in lean_hygiene() if b not in bad]
        if elsewhere:
            self.notes['forbidden_constructs_outside_this_property'] = elsewhere[:10]
        self.notes['lean_files_in_closure'] = len(closure)
        if not self.quick() and not self.proof_broken:
            # thorough tier: the toolchain's independent checker replays the declarations of every compiled module of this
            # property's import closure in a fresh kernel environment
            rel = sorted(str(f.relative_to(LEAN))[:-5].replace('/', '.') for f in closure)
            t0 = time.time()
            p = subprocess.run(['lake', 'env', 'leanchecker'] + rel, cwd=str(LEAN), capture_output=True, text=True)
            self.notes['leanchecker'] = {'modules': len(rel), 'seconds': round(time.time() - t0, 1), 'exit': p.returncode}
            if p.returncode != 0:
                self.proof_broken.append({'theorem': 'leanchecker', 'log': (p.stdout + p.stderr)[-800:]})
        names = props_theorems(self.pid, extra_props)
        self.obligations = len(names)
        if not self.proof_broken:
            res, out = lean_audit(self.pid, extra_imports, extra_props)
            self.audit = res
            for n in names:
                ax = res.get(n)
                if ax is None:
                    self.proof_broken.append({'theorem': n, 'log': 'not found in compiled library: ' + out[-500:]})
                elif not set(ax) <= ALLOWED_AXIOMS:
                    self.proof_broken.append({'theorem': n, 'log': 'axioms ' + str(ax)})
                else:
                    self.discharged += 1
        return not self.proof_broken

    # ---- evidence
    def write_evidence(self, violations):
        cov = {
            'evaluations': self.evaluations,
            'distinct_nontrivial': len(self.keys),
            'rule': self.rule,
            'samples': self.samples or ['(no correspondence case ran)'],
            'obligations': self.obligations,
            'discharged': self.discharged,
            'checker_cmd': 'cd /verif/lean && lake build && lake env lean <generated #print axioms file for Props/%s.lean>' % self.pid,
            'trusted_base': self.trusted,
            'theorems': {k: v for k, v in self.audit.items()},
            'branch_histogram': self.hist,
            'correspondence_differences': len(self.diffs),
            'oracle_failures': len(self.failures),
            'traces_validated_against_impl': self.traces_validated,
            'notes': self.notes,
        }
        if self.level == 'translation_validation':
            cov['programs'] = self.extra_cov.get('programs', max(1, len(self.keys)))
            cov['disagreements_checked'] = len(self.diffs)
        if self.explanation or self.level == 'other':
            cov['explanation'] = self.explanation or 'partial proof + correspondence, see DESIGN.md'
        if self.exhaustive is not None:
            cov['exhaustive'] = bool(self.exhaustive)
        cov.update(self.extra_cov)
        ev = {
            'property_id': self.pid, 'tier': self.tier, 'seed': int(self.seed), 'level': self.level,
            'coverage': cov, 'assumptions': self.assumptions, 'wall_s': round(time.time() - self.t0, 2),
            'violations': violations,
        }
        # experiments against a patched scratch tree (tools/eval_seeded.sh) must not overwrite the committed evidence
        d = Path(os.environ['VERIF_EVIDENCE_DIR']) if os.environ.get('VERIF_EVIDENCE_DIR') else VERIF / 'evidence'
        d.mkdir(exist_ok=True)
        json.dump(ev, open(d / (self.pid + '.json'), 'w'), indent=1, default=str)

    def write_replay(self, payload, tag):
        d = Path(os.environ['VERIF_REPLAY_DIR']) if os.environ.get('VERIF_REPLAY_DIR') else VERIF / 'replays'
        d.mkdir(exist_ok=True)
        fn = d / ('%s_%s_seed%d.json' % (self.pid, tag, self.seed))
        payload = dict(payload)
        payload.update({'property': self.pid, 'seed': self.seed, 'tier': self.tier,
                        'how_to_rerun': './check %s --replay %s' % (self.pid, fn)})
        json.dump(payload, open(fn, 'w'), indent=1, default=str)
        return fn

    # ---- violation protocol (DESIGN.md 3.4)
    def finish(self, search=None):
        known = [e for e in known_findings(self.pid) if e.get('status') == 'known']
        ksig = {e['signature']: e for e in known}
        new = []
        for f in self.failures:
            e = ksig.get(f['signature'])
            if e is not None:
                if f['signature'] not in self.known_printed:
                    self.known_printed.add(f['signature'])
                    print('KNOWN-FINDING: property=%s %s' % (self.pid, e['what']))
            else:
                new.append(f)
        code = 0
        if new:
            fn = self.write_replay({'kind': 'failing-input', **new[0], 'other_failures': len(new) - 1}, 'fail')
            print('VIOLATION property=%s replay=%s' % (self.pid, fn))
            code = 1
        elif self.proof_broken or self.diffs:
            found = None
            if search is not None:
                try:
                    found = search()
                except Exception:
                    traceback.print_exc()
            if found is not None and found.get('signature') in ksig:
                found = None
            if found is not None:
                fn = self.write_replay({'kind': 'failing-input', **found,
                                        'broken': self.proof_broken[:3], 'diffs': self.diffs[:3]}, 'fail')
                print('VIOLATION property=%s replay=%s' % (self.pid, fn))
            else:
                fn = self.write_replay({'kind': 'no-longer-checks',
                                        'theorems_or_build': self.proof_broken[:5],
                                        'correspondence': self.diffs[:5]}, 'broken')
                print('VIOLATION property=%s replay=%s no-failing-input-found' % (self.pid, fn))
            code = 1
        self.write_evidence(1 if code else 0)
        dt = time.time() - self.t0
        print('%s %s tier=%s seed=%d: evaluations=%d distinct_nontrivial=%d theorems=%d/%d diffs=%d failures=%d (%.1fs)' % (
            'FAIL' if code else 'ok', self.pid, self.tier, self.seed, self.evaluations, len(self.keys),
            self.discharged, self.obligations, len(self.diffs), len(self.failures), dt))
        return code


def hash_str(s):
    h = 0
    for ch in s:
        h = (h * 131 + ord(ch)) & 0x7fffffff
    return h
