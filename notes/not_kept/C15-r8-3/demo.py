"""C15 demo 3: the solver is built without the optional argument B (documented
default: 1) from constants whose B0 (field used by the advection operators) is
1 or not 1.
usage: python demo.py <checkout>"""
import os, sys
from types import SimpleNamespace
import numpy as np
here = os.path.dirname(os.path.abspath(__file__))
sys.path[:0] = [here, os.path.abspath(sys.argv[1])]
import qnlib

bad = []
for B0, passB in ((1.0, False), (1.7, True), (1.7, False), (0.6, False)):
    for chi, ad in ((0, True), (1, True), (0, False)):
        qnlib.B = 1.3 if passB else 1.0     # field strength of the reference solution
        rs = qnlib.make_rspline(0.5, 3.0, 40, 3)
        eta = [rs.greville.copy(), np.linspace(0, 2*np.pi, 8, endpoint=False),
               np.linspace(0, 1, 3, endpoint=False)]
        s = qnlib.make_solver(eta, rs, chi, ad, constants=SimpleNamespace(B0=B0), pass_B=passB)
        phi, ex, rt = qnlib.run_pipeline(s, eta, {0: 1.0, 1: 0.5, 3: -0.7})
        err = np.abs(phi-ex).max()
        what = "B=1.3 given" if passB else "B not given (default 1)"
        print("constants.B0 %.1f, %-24s chi %d adiabatic %-5s: |phi - exact| = %.2e"
              % (B0, what, chi, ad, err))
        if err > 1e-4:
            bad.append("constants.B0 %.1f, %s, chi %d adiabatic %s: potential differs from the "
                       "mode-by-mode solution by %.2e" % (B0, what, chi, ad, err))
if bad:
    print("FAIL")
    for b in bad:
        print("  " + b)
    sys.exit(1)
print("OK: without B the solver uses field strength 1 whatever constants.B0 is; exit 0")
