"""C11 demo 2: 'fEq' edge after the profile constants were (re)set on the Constants
object the operator holds (e.g. parameters read from a file / restart after set-up).

Feet outside [vMin, vMax] must take the equilibrium distribution of the constants
object at (r, foot) -- with the values it has when the step is made.
"""
import sys
import os
import numpy as np
sys.path.insert(0, os.path.dirname(os.path.abspath(__file__)))
sys.path.insert(0, os.path.abspath(sys.argv[1]))

from pygyro.splines.splines import BSplines, Spline1D                 # noqa: E402
from pygyro.splines.spline_interpolators import SplineInterpolator1D  # noqa: E402
from pygyro.initialisation.constants import Constants                 # noqa: E402
from pygyro.advection.advection import VParallelAdvection             # noqa: E402


def f_eq(c, r, v):
    n0 = c.CN0*np.exp(-c.kN0*c.deltaRN0*np.tanh((r - c.rp)/c.deltaRN0))
    ti = c.CTi*np.exp(-c.kTi*c.deltaRTi*np.tanh((r - c.rp)/c.deltaRTi))
    return n0*np.exp(-0.5*v*v/ti)/np.sqrt(2*np.pi*ti)


def reference(bspl, pts, f_old, shift, consts, r):
    spl = Spline1D(bspl)
    SplineInterpolator1D(bspl).compute_interpolant(f_old, spl)
    feet = pts - shift
    out = np.empty_like(f_old)
    for i, x in enumerate(feet):
        out[i] = spl.eval(x) if pts[0] <= x <= pts[-1] else f_eq(consts, r, x)
    return out


def main():
    degree = 3
    breaks = np.linspace(-3.0, 3.0, 25)
    knots = np.r_[[breaks[0]]*degree, breaks, [breaks[-1]]*degree]
    bspl = BSplines(knots, degree, False, True)
    pts = bspl.greville
    dv = pts[1] - pts[0]
    msgs = []
    worst = 0.0

    def check(tag, adv, consts):
        nonlocal worst
        for r in (0.2, 9.0, 14.3):
            for shift in (3.5*dv, -2.25*dv, 0.0, 30*dv):
                f_old = f_eq(consts, r, pts)*(1 + 0.1*np.sin(pts))
                f = f_old.copy()
                adv.step(f, 0.25, shift/0.25, r)
                ref = reference(bspl, pts, f_old, shift, consts, r)
                err = np.max(np.abs(f - ref))
                worst = max(worst, err)
                if err > 1e-12:
                    msgs.append("%s: r=%.1f shift=%+.3f: max |step - expected| = %.3e (values ~ %.1e)"
                                % (tag, r, shift, err, np.max(np.abs(ref))))

    # 1. operator used with the constants it was built with
    consts = Constants()
    adv = VParallelAdvection([None, None, None, pts], bspl, consts)
    check("as built", adv, consts)
    # 2. profile parameters set afterwards on the same object (flatter density, hotter core)
    consts.kN0 = 0.02
    consts.deltaRN0 = 7.0
    consts.CTi = 2.5
    consts.kTi = 0.11
    consts.deltaRTi = 3.0
    consts.rp = 8.0
    consts.getCN0()
    check("constants updated after construction", adv, consts)

    if msgs:
        print("FAIL: value given to feet outside the domain is not f_eq(r, foot) of the constants in force")
        for m in msgs[:6]:
            print("  " + m)
        sys.exit(1)
    print("OK: fEq edge values follow the constants object (max err %.2e); exit 0" % worst)
    sys.exit(0)


main()
