"""C11 demo 3: the constants object handed to VParallelAdvection is modified
AFTER the operator has been built (a new radial domain -> new rp and CN0, a new
temperature profile), as in a parameter scan which keeps its operators.

With the default 'fEq' edge every foot outside [vMin,vMax] must receive the
equilibrium distribution at (r, foot) of the constants object the operator
refers to -- i.e. its current content, which is also what the initialisation
and every other operator of the library read.
"""
import sys
import numpy as np
from common import setup_path, make_space, reference_step

setup_path(sys.argv)
from pygyro.advection.advection import VParallelAdvection  # noqa: E402
from pygyro.initialisation.constants import Constants  # noqa: E402

rng = np.random.default_rng(113)
bad = []

breaks = np.linspace(-3.0, 3.0, 25)
space, knots = make_space(breaks, 3, True)
pts = np.array(space.greville, dtype=float)


def check(adv, constants, label):
    for r in (1.0, 6.0, 11.0):
        for c, dt in ((0.0, 2.0), (0.31, 2.0), (-0.45, 1.0), (2.2, 1.0), (-1.3, 2.0)):
            f_old = np.exp(-0.5*pts**2)*(1+0.1*rng.standard_normal(pts.size))
            f = f_old.copy()
            adv.step(f, dt, c, r)
            ref = reference_step(pts, knots, 3, f_old, c*dt, 'fEq', r, constants)
            err = np.abs(f-ref)
            if err.max() > 1e-10:
                i = int(err.argmax())
                bad.append("%s: r=%g, c*dt=%g: node %d (foot %.6g) gives %.10g, f_eq(r, foot) with the "
                           "current constants = %.10g" % (label, r, c*dt, i, pts[i]-c*dt, f[i], ref[i]))


constants = Constants()
adv = VParallelAdvection([None, None, None, pts], space, constants)
check(adv, constants, "constants as at construction")

# new radial domain: the setters move rp to the new centre; the density is renormalised
constants.rMin = 0.5
constants.rMax = 11.5
constants.getCN0()
check(adv, constants, "after rMin/rMax/getCN0")

# steeper temperature profile
constants.kTi = 0.45
constants.deltaRTi = 1.1
check(adv, constants, "after kTi/deltaRTi")

# an operator built now and the old one must agree
adv_new = VParallelAdvection([None, None, None, pts], space, constants)
f1 = np.exp(-0.5*pts**2)
f2 = f1.copy()
adv.step(f1, 1.0, 1.9, 3.0)
adv_new.step(f2, 1.0, 1.9, 3.0)
if np.abs(f1-f2).max() > 1e-12:
    i = int(np.abs(f1-f2).argmax())
    bad.append("two operators referring to the same constants object disagree: node %d: %.10g (built before "
               "the change) vs %.10g (built after)" % (i, f1[i], f2[i]))

if bad:
    print("FAIL: the 'fEq' boundary value is not the equilibrium of the constants the operator refers to:")
    for b in bad[:10]:
        print("  "+b)
    print("  (%d failing cases in total)" % len(bad))
    sys.exit(1)
print("OK: 'fEq' boundary values follow the constants object (exit 0)")
sys.exit(0)
