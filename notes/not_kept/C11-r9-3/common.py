"""Shared helpers of the C11 demonstrations (independent reference for one
v-parallel advection step)."""
import os
import sys
import math
import numpy as np

HERE = os.path.dirname(os.path.abspath(__file__))


def setup_path(argv):
    if len(argv) != 2:
        print("usage: demo.py <path-to-a-checkout-of-the-repo>")
        sys.exit(2)
    repo = os.path.abspath(argv[1])
    sys.path.insert(0, repo)
    sys.path.insert(0, HERE)       # the mpi4py stand-in comes first
    os.chdir(HERE)
    return repo


class Consts:
    """Plain container with the attributes VParallelAdvection reads."""

    def __init__(self, **kw):
        self.CN0 = 0.9
        self.kN0 = 0.055
        self.deltaRN0 = 2.9
        self.rp = 7.3
        self.CTi = 1.0
        self.kTi = 0.27586
        self.deltaRTi = 1.45
        for k, v in kw.items():
            setattr(self, k, v)


def f_eq_ref(r, v, c):
    """Equilibrium distribution, written out independently of the library."""
    n0 = c.CN0*math.exp(-c.kN0*c.deltaRN0*math.tanh((r-c.rp)/c.deltaRN0))
    Ti = c.CTi*math.exp(-c.kTi*c.deltaRTi*math.tanh((r-c.rp)/c.deltaRTi))
    return n0*math.exp(-0.5*v*v/Ti)/math.sqrt(2.0*math.pi*Ti)


def make_space(breaks, degree, uniform):
    """Clamped spline space on the given break points + its full knot vector."""
    from pygyro.splines.splines import make_knots, BSplines
    knots = make_knots(breaks, degree, False)
    return BSplines(knots, degree, False, uniform), np.array(knots, dtype=float)


def reference_step(points, knots, degree, f_old, shift, mode, r, consts):
    """Value at v - shift of the spline interpolating f_old (scipy), with the
    boundary rule of the chosen mode applied to the feet outside [vMin,vMax]."""
    from scipy.interpolate import make_interp_spline
    spl = make_interp_spline(points, f_old, k=degree, t=knots)
    vMin, vMax = points[0], points[-1]
    width = vMax-vMin
    out = np.empty_like(f_old)
    for i, p in enumerate(points):
        v = p-shift
        if mode == 'periodic':
            while v < vMin:
                v += width
            while v > vMax:
                v -= width
            out[i] = spl(v)
        elif v < vMin or v > vMax:
            out[i] = f_eq_ref(r, v, consts) if mode == 'fEq' else 0.0
        else:
            out[i] = spl(v)
    return out
