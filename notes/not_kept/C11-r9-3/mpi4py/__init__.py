# Minimal serial stand-in for mpi4py: only what is needed to IMPORT the pygyro
# modules (pygyro.model.layout / grid are imported by pygyro.advection.advection).
