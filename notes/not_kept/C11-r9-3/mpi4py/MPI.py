# Minimal serial stand-in for mpi4py.MPI (import-time names only).


class Comm:
    def Get_rank(self):
        return 0

    def Get_size(self):
        return 1


COMM_WORLD = Comm()
DOUBLE = 'DOUBLE'
MIN = 'MIN'
MAX = 'MAX'
SUM = 'SUM'
