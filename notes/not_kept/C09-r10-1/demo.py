"""C09 demo 1: the points handed out by BSplines.greville must not be the basis' own storage.

Run as: python demo.py <path-to-checkout>
"""
import os
import sys

repo = os.path.abspath(sys.argv[1])
here = os.path.dirname(os.path.abspath(__file__))
sys.path.insert(0, here)
sys.path.insert(0, repo)

import numpy as np
from ref import greville_points, reference_weights
from pygyro.splines.splines import make_knots, BSplines
from pygyro.splines.spline_interpolators import SplineInterpolator1D

fails = []
for degree, periodic in [(3, True), (2, True), (4, False)]:
    breaks = np.array([0.5, 0.9, 1.0, 1.6, 1.8, 2.7, 3.0, 3.1, 3.9])
    a, b = breaks[0], breaks[-1]
    knots = make_knots(breaks, degree, periodic)
    basis = BSplines(knots, degree, periodic, False)

    x_true = greville_points(knots, degree, periodic, a, b)
    w_true, _ = reference_weights(knots, degree, periodic, a, b, x_true)

    interp = SplineInterpolator1D(basis)
    w = interp.get_quadrature_coefficients()

    # --- user code: distance of every interpolation point from the first one (e.g. for a plot)
    x = basis.greville
    x -= x[0]
    # ---

    # data are sampled at the interpolation points of the space, as the test-suite does
    xg = basis.greville

    f = np.cos(xg) + 0.3*xg**2
    e_pts = np.abs(xg - x_true).max()
    e_w = np.abs(w - w_true).max()
    e_int = abs(w @ f - w_true @ (np.cos(x_true) + 0.3*x_true**2))
    print("degree %d periodic %-5s: |greville - true| = %.2e   |weights - reference| = %.2e   "
          "|quadrature - exact integral of the interpolant| = %.2e" % (degree, periodic, e_pts, e_w, e_int))
    if max(e_pts, e_w, e_int) > 1e-12:
        fails.append((degree, periodic))

if fails:
    print("FAIL: after a caller modified the array returned by basis.greville, basis.greville no longer gives the "
          "interpolation points, so the quadrature coefficients applied to data sampled there do not give the "
          "integral of the interpolant:", fails)
    sys.exit(1)
print("OK: quadrature coefficients integrate the interpolant exactly (exit 0)")
sys.exit(0)
