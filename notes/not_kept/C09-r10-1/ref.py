"""Independent reference for spline basis integrals / quadrature weights."""
import numpy as np


def cox(T, p, j, x):
    """Value at x (array) of the B-spline of degree p on knots T[j..j+p+1] (half-open cells, last cell closed at T[-1])."""
    x = np.asarray(x, dtype=float)
    if p == 0:
        return np.where((T[j] <= x) & (x < T[j+1]), 1.0, 0.0)
    out = np.zeros_like(x)
    d1 = T[j+p] - T[j]
    d2 = T[j+p+1] - T[j+1]
    if d1 > 0:
        out = out + (x - T[j]) / d1 * cox(T, p-1, j, x)
    if d2 > 0:
        out = out + (T[j+p+1] - x) / d2 * cox(T, p-1, j+1, x)
    return out


def basis_integrals(T, p, a, b):
    """Integral over [a,b] of every B-spline j = 0..len(T)-p-2 (Gauss-Legendre on each knot interval inside [a,b])."""
    T = np.asarray(T, dtype=float)
    nb = len(T) - p - 1
    xg, wg = np.polynomial.legendre.leggauss(p//2 + 2)
    pts = np.unique(np.clip(T, a, b))
    res = np.zeros(nb)
    for lo, hi in zip(pts[:-1], pts[1:]):
        xs = 0.5*(hi+lo) + 0.5*(hi-lo)*xg
        for j in range(nb):
            res[j] += 0.5*(hi-lo)*np.dot(wg, cox(T, p, j, xs))
    return res


def greville_points(T, p, periodic, a, b):
    n = len(T) - 2*p - 1 if periodic else len(T) - p - 1
    s = 1 + p//2 if periodic else 1
    x = np.array([np.sum(T[i:i+p])/p for i in range(s, s+n)])
    if periodic:
        x = (x - a) % (b - a) + a
    return x


def reference_weights(T, p, periodic, a, b, xg):
    """Weights w with sum_i w_i u_i = integral over [a,b] of the spline interpolating u at xg."""
    T = np.asarray(T, dtype=float)
    nb_all = len(T) - p - 1
    n = len(xg)
    M = np.zeros((n, n))
    xe = np.where(xg >= b, np.nextafter(b, a), xg)   # evaluate the closed right end from the left
    for j in range(nb_all):
        M[:, j % n] += cox(T, p, j, xe)
    I = basis_integrals(T, p, a, b)
    If = I[:n].copy()
    if periodic:
        If[:p] += I[n:]
    return np.linalg.solve(M.T, If), I
