"""
C08 demo 3: the caller keeps the array of interpolation points he obtained from
basis.greville and later converts *his* array to other units in place (radians
to degrees for a plot, metres to millimetres ...).  Spaces which are not uniform
cubic ones hand out a new array at every access, so this is harmless there.

usage: python demo.py <path-to-checkout>
exit 0 if the interpolants reproduce their data, 1 otherwise
"""
import sys
import numpy as np

sys.path.insert(0, sys.argv[1])

from pygyro.splines.splines import make_knots, BSplines, Spline1D, Spline2D  # noqa: E402
from pygyro.splines.spline_interpolators import SplineInterpolator1D, SplineInterpolator2D  # noqa: E402

TOL = 1e-12
failures = []


def space(breaks, degree, periodic):
    return BSplines(make_knots(breaks, degree, periodic), degree, periodic, False)


def report(name, err):
    print("%-66s %.3e" % (name, err))
    if not err < TOL:
        failures.append(name)


def f(t): return 1.0 + np.sin(t) + 0.3*np.cos(2*t)
def poly(r): return 2.0 - r + 3*r**2 - 0.7*r**3


rng = np.random.default_rng(5)
br_t = np.sort(np.concatenate([[0.0, 2*np.pi], rng.uniform(0.2, 6.0, 9)]))
br_r = np.array([0.1, 0.25, 0.3, 0.5, 0.55, 0.8, 1.0, 1.3, 1.45])

# ---------------------------------------------------------------- 1-D, periodic
theta_space = space(br_t, 2, True)
theta = theta_space.greville            # the caller's array of points
ug = f(theta)
interp = SplineInterpolator1D(theta_space)
spl = Spline1D(theta_space)
interp.compute_interpolant(ug, spl)
report("periodic: S(greville) - u right after the interpolation",
       np.max(np.abs(spl.eval(theta_space.greville) - ug)))

theta *= 180.0/np.pi                     # degrees, for the plot (the caller's array)
report("periodic: S(greville) - u after the caller converted his points",
       np.max(np.abs(spl.eval(theta_space.greville) - ug)))

# the points of the space as reported afterwards
pts = theta_space.greville
a, b = theta_space.domain
report("periodic: the points of the space lie in the domain",
       max(0.0, a - pts.min(), pts.max() - b))
# a second interpolator / spline on the same space, data at the points of the space
try:
    interp2 = SplineInterpolator1D(theta_space)
    spl2 = Spline1D(theta_space)
    ug2 = rng.standard_normal(theta_space.nbasis)
    interp2.compute_interpolant(ug2, spl2)
    report("periodic: second interpolator built later, S(greville) - u",
           np.max(np.abs(spl2.eval(theta_space.greville) - ug2)))
except RuntimeError as e:
    print("periodic: second interpolator built later raises:", e)
    failures.append("periodic: second interpolator cannot be built any more")

# ---------------------------------------------------------------- 1-D, clamped
r_space = space(br_r, 3, False)
r = r_space.greville
r *= 1000.0                              # millimetres (the caller's array)
rg = r_space.greville
a, b = r_space.domain
report("clamped: the points of the space lie in the domain",
       max(0.0, a - rg.min(), rg.max() - b))
interp = SplineInterpolator1D(r_space)
spl = Spline1D(r_space)
# Greville points of the clamped cubic space, computed independently
T = r_space.knots
xg = np.array([(T[i+1] + T[i+2] + T[i+3])/3 for i in range(r_space.nbasis)])
ug = rng.standard_normal(r_space.nbasis)
interp.compute_interpolant(ug, spl)
report("clamped: S(x_i) - u_i at the Greville points of the knot vector",
       np.max(np.abs(spl.eval(xg) - ug)))
interp.compute_interpolant(poly(xg), spl)
xt = np.linspace(a, b, 101)
report("clamped: cubic polynomial reproduced everywhere",
       np.max(np.abs(spl.eval(xt) - poly(xt))))

# ---------------------------------------------------------------- 2-D
theta_space = space(br_t, 2, True)
r_space = space(br_r, 3, False)
th, rr = theta_space.greville, r_space.greville
ug = f(th)[:, None]*poly(rr)[None, :]
interp = SplineInterpolator2D(theta_space, r_space)
spl = Spline2D(theta_space, r_space)
interp.compute_interpolant(ug, spl)
np.degrees(th, out=th)                   # polar plot wants degrees
report("2-D periodic x clamped: S(greville) - u",
       np.max(np.abs(spl.eval(theta_space.greville, r_space.greville) - ug)))

if failures:
    print("FAIL:")
    for name in failures:
        print("   -", name)
    sys.exit(1)
print("OK: all interpolants reproduce their data (exit 0)")
sys.exit(0)
