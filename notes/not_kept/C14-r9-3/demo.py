"""C14 demo 3: the solution is wanted on radial nodes which are not the Greville points.

Usage: python demo.py <path-to-a-checkout-of-the-repo>

The right hand side is a function of r (solveEquationForFunction), so nothing ties
the radial nodes of the output grid to the interpolation points of the spline. The
output grid has as many radial nodes as there are basis functions, but equally
spaced (np.linspace) instead of the Greville points. The result must be the Galerkin
solution spline evaluated AT THE NODES OF THE GRID: it is compared with an independent
dense Galerkin solve, and, for a manufactured solution of the spline space, with the
exact solution at the nodes. The same is done on the Greville points as a control.
"""
import os
import sys
here = os.path.dirname(os.path.abspath(__file__))
sys.path[:0] = [here, os.path.abspath(sys.argv[1])]

import numpy as np                                                  # noqa: E402
from pygyro.poisson.poisson_solver import DiffEqSolver              # noqa: E402
from pygyro.splines.splines import BSplines, make_knots            # noqa: E402
from c14ref import FakeGrid, reference                              # noqa: E402

bad = False
p, nTheta, nz = 3, 6, 2
a, b = 0.2, 1.4
for uniform, breaks in ((True, np.linspace(a, b, 9)),
                        (False, a+(b-a)*np.array([0, 0.1, 0.25, 0.3, 0.5, 0.6, 0.85, 1.0]))):
    knots = make_knots(breaks, p, False)
    bs = BSplines(knots, p, False, uniform)
    co = dict(B=lambda r: -1/r, C=lambda r: 1+r*r, D=lambda r: -1/r**2, E=lambda r: np.exp(-r))
    lN, uN = [0], [1, -1]
    modes = list(range(nTheta))
    mTable = np.rint(np.fft.fftfreq(nTheta, 1/nTheta))
    for name, r in (('Greville points', bs.greville), ('equally spaced nodes', np.linspace(a, b, bs.nbasis))):
        solver = DiffEqSolver(2*p+1, bs, r.size, nTheta, lNeumannIdx=lN, uNeumannIdx=uN, drFactor=co['B'],
                              rFactor=co['C'], ddThetaFactor=co['D'], rhoFactor=co['E'])

        def rhs(x): return np.cos(3*x)+1j*x
        phi = FakeGrid(r, nz, modes)
        solver.solveEquationForFunction(phi, rhs)
        ref = reference(knots, p, 2*p+1, nTheta, modes, lN, uN, r, rhoFunc=rhs, nz=nz, **co)
        err = np.abs(phi._f-ref).max()/np.abs(ref).max()
        ok = err < 1e-10
        bad |= not ok
        print("%s cubic spline, %-20s: rel. deviation from the Galerkin solution at the nodes = %.2e%s"
              % ('uniform' if uniform else 'general', name, err, '' if ok else '   <-- WRONG'))

    # manufactured solution of the spline space: phi = (r-a)(r-b) r is a cubic which vanishes at
    # both ends, and -phi'' = -(6 r - 2 (a+b))
    r = np.linspace(a, b, bs.nbasis)
    solver = DiffEqSolver(2*p+1, bs, r.size, nTheta, ddThetaFactor=lambda r: 0)
    phi = FakeGrid(r, 1, [0, 1])
    solver.solveEquationForFunction(phi, lambda x: -(6*x-2*(a+b)))
    exact = (r-a)*(r-b)*r
    err = np.abs(phi._f-exact).max()
    ok = err < 1e-11
    bad |= not ok
    print("%s cubic spline, manufactured cubic solution on equally spaced nodes: max error = %.2e%s"
          % ('uniform' if uniform else 'general', err, '' if ok else '   <-- WRONG'))

if bad:
    print("FAIL: on radial nodes other than the Greville points the returned values are not the values of the "
          "Galerkin solution at those nodes (they are its values at the Greville points)")
    sys.exit(1)
print("OK: the solution is evaluated at the radial nodes of the output grid (exit 0)")
sys.exit(0)
