"""Helpers shared by the C14 demonstrations: a duck-typed serial grid and an
independent dense Galerkin reference for DiffEqSolver."""
import numpy as np
from scipy.interpolate import BSpline
from numpy.polynomial.legendre import leggauss


class _Layout:
    dims_order = (1, 2, 0)      # (theta, z, r): r is the last (contiguous) dimension


class FakeGrid:
    """Serial stand-in offering what DiffEqSolver uses of pygyro.model.grid.Grid."""
    currentLayout = 'mode_solve'

    def __init__(self, r, nz, modeIdx, dtype=complex):
        self.r = np.asarray(r, dtype=float)
        self.modeIdx = list(modeIdx)
        self.z = np.linspace(0, 1, nz, endpoint=False)
        self._f = np.zeros((len(self.modeIdx), nz, self.r.size), dtype=dtype)

    def getLayout(self, name):
        return _Layout()

    def getGlobalIdxVals(self, dim):
        assert dim == 0
        return self.modeIdx

    def getCoords(self, dim):
        assert dim == 1
        return enumerate(self.z)

    def getCoordVals(self, dim):
        assert dim == 2
        return self.r

    def get1DSlice(self, i, j):
        return self._f[i, j]


def greville(knots, p):
    nb = len(knots)-p-1
    return np.array([np.sum(knots[i+1:i+p+1])/p for i in range(nb)])


def reference(knots, p, quadDegree, nTheta, modeIdx, lN, uN, r_nodes,
              A=lambda r: -1+0*r, B=lambda r: 0*r, C=lambda r: 0*r, D=lambda r: -1+0*r,
              E=lambda r: 1+0*r, rhoVals=None, rhoFunc=None, nz=1):
    """Dense Galerkin solution, mode by mode. rhoVals[mode, z, greville point] or rhoFunc(r)."""
    knots = np.asarray(knots, dtype=float)
    nb = len(knots)-p-1
    breaks = knots[p:len(knots)-p]
    basis = BSpline(knots, np.eye(nb), p)
    dbasis = basis.derivative()
    n = quadDegree//2+1
    x, w = leggauss(n)
    h = 0.5*(breaks[1:]-breaks[:-1])
    c = 0.5*(breaks[1:]+breaks[:-1])
    pts = (c[:, None]+h[:, None]*x[None, :]).ravel()
    wts = (h[:, None]*w[None, :]).ravel()
    P = basis(pts)          # [point, basis]
    dP = dbasis(pts)
    a, b, cc, d, e = (np.asarray(f(pts), dtype=float)*np.ones_like(pts) for f in (A, B, C, D, E))

    def form(coef, test, trial):
        return np.einsum('q,qi,qj->ij', wts*coef, test, trial)
    K0 = form(-a*pts, dP, dP)+form(-a, P, dP)+form(b*pts, P, dP)+form(cc*pts, P, P)
    KD = form(d*pts, P, P)
    M = form(e*pts, P, P)
    mVals = np.rint(np.fft.fftfreq(nTheta, 1/nTheta))
    Pn = basis(np.asarray(r_nodes, dtype=float))
    Pg = basis(greville(knots, p))
    out = np.zeros((len(modeIdx), nz, len(r_nodes)), dtype=complex)
    for i, I in enumerate(modeIdx):
        m = mVals[I]
        lo = 0 if m in lN else 1
        hi = nb-(0 if m in uN else 1)
        K = (K0-m*m*KD)[lo:hi, lo:hi]
        for j in range(nz):
            if rhoFunc is not None:
                load = P.T.dot(wts*pts*e*rhoFunc(pts))
            else:
                load = M.dot(np.linalg.solve(Pg, rhoVals[i, j]))
            coeffs = np.zeros(nb, dtype=complex)
            coeffs[lo:hi] = np.linalg.solve(K, load[lo:hi])
            out[i, j] = Pn.dot(coeffs)
    return out
