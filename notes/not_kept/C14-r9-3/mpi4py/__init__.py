"""Minimal serial stand-in for mpi4py (only what is needed to import pygyro)."""
from . import MPI  # noqa: F401
