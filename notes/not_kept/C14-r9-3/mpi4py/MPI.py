"""Minimal serial stand-in for mpi4py.MPI: enough for the pygyro modules to be imported."""


class Comm:
    def Get_rank(self):
        return 0

    def Get_size(self):
        return 1

    def Barrier(self):
        pass


COMM_WORLD = Comm()
DOUBLE = 'DOUBLE'
MIN = 'MIN'
MAX = 'MAX'
SUM = 'SUM'
