"""
C11 demo 2: with the 'fEq' edge the feet outside [vMin,vMax] take the equilibrium
distribution at (r, foot) -- the equilibrium described by the Constants object which was
handed to the operator.  A parameter scan re-uses the operator and the Constants object and
changes the profile parameters between runs (rMax -> rp moves, kTi, kN0 + getCN0()).
Every step is compared with an independent evaluation: spline through the old nodal values
at v - c*dt, f_eq(r, foot) with the CURRENT values of the constants outside the domain.
"""
import sys
import os
here = os.path.dirname(os.path.abspath(__file__))
repo = os.path.abspath(sys.argv[1])
sys.path.insert(0, repo)
sys.path.insert(0, here)

import numpy as np                                                    # noqa: E402
from pygyro.splines import splines as spl                             # noqa: E402
from pygyro.splines.spline_interpolators import SplineInterpolator1D  # noqa: E402
from pygyro.initialisation.constants import Constants                 # noqa: E402
from pygyro.initialisation.initialiser_funcs import f_eq              # noqa: E402
from pygyro.advection.advection import VParallelAdvection             # noqa: E402

rng = np.random.default_rng(11)
failures = []


def reference(basis, x, f, shift, r, constants, edge):
    interp = SplineInterpolator1D(basis)
    s = spl.Spline1D(basis)
    interp.compute_interpolant(f, s)
    out = np.empty_like(f)
    for i, foot in enumerate(x - shift):
        if foot < x[0] or foot > x[-1]:
            if edge == 'fEq':
                out[i] = f_eq(r, foot, constants.CN0, constants.kN0, constants.deltaRN0,
                              constants.rp, constants.CTi, constants.kTi, constants.deltaRTi)
            else:
                out[i] = 0.0
        else:
            out[i] = s.eval(foot)
    return out


def run(name, basis):
    x = basis.greville
    constants = Constants()
    op = VParallelAdvection([0, 0, 0, x], basis, constants, 'fEq')
    opNull = VParallelAdvection([0, 0, 0, x], basis, constants, 'null')

    def trial(label):
        worst = 0.0
        for c, dt, r in [(1.3, 0.4, 3.7), (-0.9, 0.5, 9.1), (2.0, 3.0, 12.4), (0.0, 0.1, 5.0), (-7.0, 1.0, 7.3)]:
            for theOp, edge in ((op, 'fEq'), (opNull, 'null')):
                f = rng.random(x.size)
                expect = reference(basis, x, f, c*dt, r, constants, edge)
                theOp.step(f, dt, c, r)
                worst = max(worst, np.abs(f-expect).max())
        status = 'ok' if worst < 1e-10 else 'WRONG'
        print("%-26s %-52s max error %.3e %s" % (name, label, worst, status))
        if worst >= 1e-10:
            failures.append((name, label))

    trial("constants as at construction")
    constants.rMax = 18.0                  # the setter moves rp to the middle of [rMin, rMax]
    trial("after constants.rMax = 18 (rp moved)")
    constants.kTi = 0.2
    constants.deltaRTi = 2.5
    trial("after a new temperature profile (kTi, deltaRTi)")
    constants.kN0 = 0.1
    constants.getCN0()
    trial("after a new density profile (kN0, getCN0())")
    fresh = VParallelAdvection([0, 0, 0, x], basis, constants, 'fEq')
    f = rng.random(x.size)
    expect = reference(basis, x, f, 0.7, 6.0, constants, 'fEq')
    fresh.step(f, 0.5, 1.4, 6.0)
    assert np.abs(f-expect).max() < 1e-10, "an operator built after the changes must agree"


breaks = np.linspace(-2.0, 2.0, 14)
run("uniform cubic (clamped)", spl.BSplines(spl.make_knots(breaks, 3, False), 3, False, True))
run("general cubic (clamped)", spl.BSplines(spl.make_knots(breaks, 3, False), 3, False, False))
nb = np.sort(np.concatenate(([-2.0, 2.0], rng.uniform(-2.0, 2.0, 12))))
run("non-uniform degree 4", spl.BSplines(spl.make_knots(nb, 4, False), 4, False, False))

if failures:
    print("FAIL: feet outside the domain did not take f_eq(r, foot) of the constants object:", failures)
    sys.exit(1)
print("PASS: every step agreed with the independent evaluation (exit 0)")
sys.exit(0)
