"""Minimal serial stand-in for mpi4py (one process)."""
from . import MPI  # noqa: F401
