"""Serial stand-in for mpi4py.MPI: a communicator with exactly one process."""
import numpy as np

DOUBLE = 'DOUBLE'
MIN = 'MIN'
MAX = 'MAX'
SUM = 'SUM'


def _arr(x):
    return x[0] if isinstance(x, (tuple, list)) else x


class Comm:
    def Get_rank(self):
        return 0

    def Get_size(self):
        return 1

    def Create_cart(self, dims, periods=None, reorder=False):
        return Cartcomm(list(np.atleast_1d(dims)))

    def Split(self, color=0, key=0):
        return Comm()

    def Barrier(self):
        pass

    def Alltoall(self, send, recv):
        s, r = _arr(send), _arr(recv)
        r[:s.size] = s[:r.size] if s.size >= r.size else s
    def Allgather(self, send, recv):
        s, r = _arr(send), _arr(recv)
        r.reshape(-1)[:s.size] = s.reshape(-1)

    def reduce(self, x, op=None, root=0):
        return x

    def allreduce(self, x, op=None):
        return x

    def bcast(self, x, root=0):
        return x


class Cartcomm(Comm):
    def __init__(self, dims):
        self._dims = dims

    def Get_coords(self, rank):
        return [0]*len(self._dims)

    def Sub(self, remain):
        return Comm()


class Intracomm(Comm):
    pass


COMM_WORLD = Comm()
