"""
C14 demo 3: the returned grid holds the Galerkin spline evaluated at the radial nodes OF THE OUTPUT GRID phi.

usage: python demo.py <path-to-a-checkout-of-the-repo>

What is needed: an output grid phi whose radial coordinates are not the Greville abscissae of the radial spline basis
(same number of points, e.g. equidistant radial points for plotting / post-processing).  Nothing in the solver ties the
output nodes to the Greville points: the number of output nodes `nr` is a separate constructor argument and the
spline is evaluated at phi.getCoordVals(2).

Check A  right-hand side given as a function: -phi'' = 1, phi(a)=phi(b)=0 (D=0): the exact solution is a parabola,
         it lies in the spline space (degree >= 2), so the Galerkin solution is exact up to round-off at ANY set of
         output nodes.
Check B  right-hand side given as grid data (rho on the Greville grid, as the interpolation requires; phi on the
         equidistant grid): (1+m^2) phi_m = rho_m with Neumann conditions, rho_m a quadratic in r.
Check C  Dirichlet boundary: the equidistant grid also contains the end points, phi must vanish there (trivially
         true) and the values on the Greville grid and on the equidistant grid must be samples of ONE function:
         they are compared with the exact parabola on both grids.
"""
import os
import sys

here = os.path.dirname(os.path.abspath(__file__))
repo = os.path.abspath(sys.argv[1])
sys.path.insert(0, repo)
sys.path.insert(0, here)          # serial mpi4py stand-in

import numpy as np                                              # noqa: E402
from mpi4py import MPI                                          # noqa: E402
from pygyro.model.layout import getLayoutHandler                # noqa: E402
from pygyro.model.grid import Grid                              # noqa: E402
from pygyro.splines import splines as spl                       # noqa: E402
from pygyro.poisson.poisson_solver import DiffEqSolver          # noqa: E402

problems = []
comm = MPI.COMM_WORLD

for deg, uniform in [(3, True), (3, False), (2, False), (4, False)]:
    npts = [10, 8, 4]
    domain = [[1, 5], [0, 2*np.pi], [0, 1]]
    degree = [deg, 3, 3]
    period = [False, True, False]
    nkts = [n+1+d*(int(p)-1) for (n, d, p) in zip(npts, degree, period)]
    breaks = [np.linspace(*lims, num=num) for (lims, num) in zip(domain, nkts)]
    knots = [spl.make_knots(b, d, p) for (b, d, p) in zip(breaks, degree, period)]
    bsplines = [spl.BSplines(k, d, p, uniform) for (k, d, p) in zip(knots, degree, period)]

    grev_grid = [b.greville for b in bsplines]
    # output grid: same theta and z, equidistant points in r (same number of points as the Greville grid)
    out_grid = [np.linspace(domain[0][0], domain[0][1], npts[0]), grev_grid[1], grev_grid[2]]

    layouts = {'mode_solve': [1, 2, 0]}
    remap_g = getLayoutHandler(comm, layouts, [comm.Get_size()], grev_grid)
    remap_o = getLayoutHandler(comm, layouts, [comm.Get_size()], out_grid)

    def mk(which):
        if which == 'greville':
            g = Grid(grev_grid, bsplines, remap_g, 'mode_solve', comm, dtype=np.complex128)
        else:
            g = Grid(out_grid, bsplines, remap_o, 'mode_solve', comm, dtype=np.complex128)
        g._f[:] = 0
        return g

    a, b = domain[0]

    def parabola(r):
        return -0.5*r**2+0.5*(a+b)*r-a*b*0.5

    tag = "deg=%d %s" % (deg, "uniform-cubic" if bsplines[0].cubic_uniform else "general")

    # ------------------------------------------------------------ check A / C
    ps = DiffEqSolver(2*deg, bsplines[0], npts[0], npts[1], ddThetaFactor=lambda r: 0)
    for which, grid in (('greville', grev_grid), ('equidistant', out_grid)):
        phi = mk(which)
        ps.solveEquationForFunction(phi, lambda x: np.ones_like(x))
        assert np.array_equal(phi.getCoordVals(2), grid[0])
        err = np.max(np.abs(phi._f - parabola(grid[0])[None, None, :]))
        if err > 1e-10:
            problems.append("check A %s: phi on the %s radial grid differs from the exact (spline-space) solution "
                            "at its own nodes by %.3e" % (tag, which, err))

    # ------------------------------------------------------------ check B
    mVals = np.fft.fftfreq(npts[1], 1/npts[1])
    ps = DiffEqSolver(2*deg, bsplines[0], npts[0], npts[1],
                      ddrFactor=lambda r: 0, drFactor=lambda r: 0, rFactor=lambda r: 1,
                      ddThetaFactor=lambda r: -1, lNeumannIdx=mVals, uNeumannIdx=mVals)
    rho = mk('greville')
    rg = grev_grid[0]
    rho._f[:] = ((2-1j)*(1+0.3*rg-0.05*rg**2))[None, None, :]
    phi = mk('equidistant')
    ps.solveEquation(phi, rho)
    ro = out_grid[0]
    worst = 0
    for i, I in enumerate(phi.getGlobalIdxVals(0)):
        expected = (2-1j)*(1+0.3*ro-0.05*ro**2)/(1+mVals[I]**2)
        worst = max(worst, np.max(np.abs(phi.get1DSlice(i, 0)-expected)))
    if worst > 1e-10:
        problems.append("check B %s: discrete rhs, phi on the equidistant radial grid: |phi_m - rho_m/(1+m^2)| up to "
                        "%.3e at phi's own nodes" % (tag, worst))

if problems:
    print("C14 BROKEN: the values stored in phi are not the Galerkin spline evaluated at phi's radial nodes")
    for p in problems:
        print("  ", p)
    sys.exit(1)
print("OK: the solution is evaluated at the radial nodes of the output grid (Greville or not); exit 0")
sys.exit(0)
