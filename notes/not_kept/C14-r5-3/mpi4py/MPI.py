"""Serial (one process) stand-in for mpi4py.MPI: just what pygyro.model needs."""
import numpy as np

DOUBLE = 'DOUBLE'
DOUBLE_COMPLEX = 'DOUBLE_COMPLEX'
INT = 'INT'
MIN = 'MIN'
MAX = 'MAX'
SUM = 'SUM'
ANY_SOURCE = -1
ANY_TAG = -1


def _buf(x):
    if isinstance(x, (tuple, list)):
        x = x[0]
    return np.asarray(x)


class Comm(object):
    def Get_rank(self):
        return 0

    def Get_size(self):
        return 1

    rank = property(Get_rank)
    size = property(Get_size)

    def Barrier(self):
        pass

    barrier = Barrier

    def Create_cart(self, dims, periods=None, reorder=False):
        return Cartcomm(list(dims))

    def Split(self, color=0, key=0):
        return Comm()

    def Dup(self):
        return Comm()

    def Free(self):
        pass

    # object (pickle) collectives
    def bcast(self, obj, root=0):
        return obj

    def gather(self, obj, root=0):
        return [obj]

    def allgather(self, obj):
        return [obj]

    def reduce(self, obj, op=SUM, root=0):
        return obj

    def allreduce(self, obj, op=SUM):
        return obj

    # buffer collectives
    def Alltoall(self, sendbuf, recvbuf):
        r = _buf(recvbuf)
        s = _buf(sendbuf)
        r.reshape(-1)[:s.size] = s.reshape(-1)

    Allgather = Alltoall

    def Gatherv(self, sendbuf, recvbuf, root=0):
        self.Alltoall(sendbuf, recvbuf)

    def Bcast(self, buf, root=0):
        pass

    def Reduce(self, sendbuf, recvbuf, op=SUM, root=0):
        self.Alltoall(sendbuf, recvbuf)

    Allreduce = Reduce


class Intracomm(Comm):
    pass


class Cartcomm(Intracomm):
    def __init__(self, dims):
        self._dims = dims

    def Get_coords(self, rank):
        return [0]*len(self._dims)

    def Sub(self, remain_dims):
        return Comm()


COMM_WORLD = Intracomm()
COMM_SELF = Intracomm()


def Wtime():
    import time
    return time.time()
