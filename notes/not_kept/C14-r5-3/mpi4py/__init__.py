"""Minimal serial stand-in for mpi4py (single process), sufficient for pygyro's Grid / LayoutHandler."""
from . import MPI  # noqa: F401
