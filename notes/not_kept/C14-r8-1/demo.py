"""C14 demo 1: the solution must be returned at the radial coordinates of the grid phi
that the caller hands in (here: cell mid-points and end points, not the Greville
points of the spline).  Manufactured solution phi = (r-a)(b-r), -phi'' = 2."""
import os
import sys

here = os.path.dirname(os.path.abspath(__file__))
sys.path[:0] = [here, os.path.abspath(sys.argv[1])]

import numpy as np                                                  # noqa: E402
from pygyro.splines.splines import BSplines, make_knots             # noqa: E402
from pygyro.poisson.poisson_solver import DiffEqSolver              # noqa: E402
from fakegrid import FakeGrid                                       # noqa: E402

a, b, ncells, deg = 1.0, 3.0, 6, 3
breaks = np.linspace(a, b, ncells+1)
bspl = BSplines(make_knots(breaks, deg, False), deg, False, False)
nb = bspl.nbasis


def exact(r): return (r-a)*(b-r)


bad = []
# (i) function right-hand side, output wanted on a non-Greville radial grid of the same size
mid = 0.5*(breaks[1:]+breaks[:-1])
rOut = np.sort(np.concatenate([[a, b], mid, [a+0.1]]))
assert rOut.size == nb
solver = DiffEqSolver(2*deg, bspl, nb, 4)
phi = FakeGrid([0, 1], [0.0], rOut)
solver.solveEquationForFunction(phi, lambda r: 2.0+0*r)
err = np.abs(phi._f[0, 0]-exact(rOut)).max()
print("function rhs, output on cell mid-points: max error %.3e" % err)
if err > 1e-10:
    bad.append("values returned for mode 0 are not the solution at phi's radial points")

# (ii) control: the usual Greville grid
phiG = FakeGrid([0], [0.0], bspl.greville)
solver.solveEquationForFunction(phiG, lambda r: 2.0+0*r)
errG = np.abs(phiG._f[0, 0]-exact(bspl.greville)).max()
print("function rhs, output on Greville points: max error %.3e" % errG)
if errG > 1e-10:
    bad.append("wrong on the Greville grid")

if bad:
    print("FAIL: " + "; ".join(bad))
    sys.exit(1)
print("OK: solution is evaluated at the radial coordinates of the output grid (exit 0)")
sys.exit(0)
