-- Root of the `PygyroVerif` library: every module that `lake build` must check.
import PygyroVerif.DriverUtil
import PygyroVerif.Model.Blocks
import PygyroVerif.Model.Layout
import PygyroVerif.Lemmas.Blocks
import PygyroVerif.Props.C02
import PygyroVerif.Model.BSpline
