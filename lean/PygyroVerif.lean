-- Root of the `PygyroVerif` library: every module that `lake build` must check.
import PygyroVerif.DriverUtil
import PygyroVerif.Model.Blocks
import PygyroVerif.Model.Layout
import PygyroVerif.Lemmas.Blocks
import PygyroVerif.Props.C02
import PygyroVerif.Model.BSpline
import PygyroVerif.Model.CubicUniform
import PygyroVerif.Lemmas.BSpline
import PygyroVerif.Props.C07
import PygyroVerif.Model.Density
import PygyroVerif.Lemmas.Poisson
import PygyroVerif.Props.C16
import PygyroVerif.Model.NDView
import PygyroVerif.Model.Handler
import PygyroVerif.Lemmas.TransposeCore
import PygyroVerif.Lemmas.Route
import PygyroVerif.Props.C01
