/-
Model of the balanced block split of `Layout.__init__` (pygyro/model/layout.py:71-97).

  small_size = n // nRanks ; nBig = n % nRanks
  starts = small_size*ranks + nBig*ranks // nRanks          (ranks = 0 .. nRanks)
  mpi_starts = starts[:-1] ; mpi_lengths = starts[1:] - starts[:-1]
  max_shape = small_size+1 if nBig > 0 else small_size

Core Lean only (this file is imported by the drivers).
-/
namespace PygyroVerif

/-- `starts[k]` for extent `n` split over `p` ranks (layout.py:87). -/
def blockStart (n p k : Nat) : Nat := (n / p) * k + (n % p) * k / p

/-- `mpi_lengths[k] = starts[k+1] - starts[k]` (layout.py:91). -/
def blockLen (n p k : Nat) : Nat := blockStart n p (k + 1) - blockStart n p k

/-- `max_shape` (layout.py:97). -/
def maxBlock (n p : Nat) : Nat := if n % p > 0 then n / p + 1 else n / p

/-- `mpi_starts` as a list over ranks `0..p-1`. -/
def mpiStarts (n p : Nat) : List Nat := (List.range p).map (blockStart n p)

/-- `mpi_lengths` as a list over ranks `0..p-1`. -/
def mpiLengths (n p : Nat) : List Nat := (List.range p).map (blockLen n p)

/-- owner of global index `g`: the rank `k < p` with `start k ≤ g < start (k+1)`, by linear search
(specification device; the code never computes it). -/
def ownerOf (n p g : Nat) : Option Nat :=
  (List.range p).find? (fun k => blockStart n p k ≤ g ∧ g < blockStart n p (k + 1))

end PygyroVerif
