/-
Abstract machine for blocking, per-communicator matched collectives (DESIGN.md C06).

A *global event list* `E` lists the collective operations of a run; event `i` is performed by the ranks
`members i` (one communicator instance).  Rank `r` executes, in order, the events that contain it (its
*program* is the projection of `E` on `r`); a rank is always blocked in the first event of its program that has
not completed yet (`head`).  An event can complete (`Enabled`) when every member is blocked in it.  The
simulated MPI of the harness implements exactly this machine (and records `E` as its completion log).
Core Lean only.
-/
namespace PygyroVerif.Coll

structure Event where
  members : List Nat       -- world ranks of the communicator instance
  tag : Nat                -- the call all members issue (operation, root, count, datatype), opaque here
deriving Repr, DecidableEq

/-- rank `r` takes part in event `i` -/
def takesPart (E : List Event) (r i : Nat) : Bool :=
  match E[i]? with
  | some e => e.members.contains r
  | none => false

/-- the event rank `r` is blocked in: the first event of its program that is not done -/
def head (E : List Event) (done : Nat → Bool) (r : Nat) : Option Nat :=
  (List.range E.length).find? (fun i => takesPart E r i && !done i)

/-- program of rank `r`: the events it takes part in, in order -/
def program (E : List Event) (r : Nat) : List Nat := (List.range E.length).filter (takesPart E r)

/-- event `i` can complete: it is not done and every member is blocked in it -/
def Enabled (E : List Event) (done : Nat → Bool) (i : Nat) : Prop :=
  i < E.length ∧ done i = false ∧ ∀ r, takesPart E r i = true → head E done r = some i

/-- completing event `i` -/
def fire (done : Nat → Bool) (i : Nat) : Nat → Bool := fun j => done j || j == i

/-- number of events still to be done -/
def remaining (E : List Event) (done : Nat → Bool) : Nat := ((List.range E.length).filter (fun i => !done i)).length

end PygyroVerif.Coll
