/-
Which collectives every rank issues: construction of `LayoutHandler` / `LayoutSwapper` and every transpose path
(pygyro/model/layout.py).  A call is (communicator family, operation, send count, receive count) with counts in
array elements; the family of the k-th `Sub` of the Cartesian topology is "sub k".  Core Lean only.
-/
import PygyroVerif.Model.Swapper

namespace PygyroVerif.Traces
open PygyroVerif PygyroVerif.Handler

structure Call where
  comm : String
  op : String
  send : Nat
  recv : Nat
deriving Repr, DecidableEq

/-- `getLayoutHandler` / the swapper constructor: `Create_cart` then one `Sub` per process axis -/
def constructTrace (nAxes : Nat) : List Call :=
  { comm := "world", op := "Create_cart", send := 0, recv := 0 } ::
    (List.range nAxes).map (fun _ => { comm := "cart", op := "Sub", send := 0, recv := 0 })

/-- one direct step of a handler on the rank with handler coordinates `c`; `axisName a` names the communicator of
    the handler's process axis `a` -/
def directTrace (h : Handler) (c : List Nat) (axisName : Nat → String) (iS iD : Nat) : List Call :=
  let LS := h.layoutAt iS; let LD := h.layoutAt iD
  let axis := swapAxes h.nprocs LS.ord LD.ord
  if axis.length = 0 then [] else
    let a0 := axis.getD 0 0
    let p := h.nprocs.getD a0 1
    let n := prodL (exchangeShape LS LD c axis p)
    [{ comm := axisName a0, op := "Alltoall", send := n, recv := n }]

/-- the early exit of `LayoutHandler.transpose` (:515-518).  `fixed = true` is the code after the repair of defect F15: a
    handler set up with an empty coordinate grid (the plot-only process) holds no data on ANY rank — a rank-independent
    test; `fixed = false` is the earlier test `self._buffer_size == 0` on the rank's own buffer size, which can differ
    between members of one sub-communicator when two process axes are over-decomposed. -/
def earlyExit (fixed : Bool) (h : Handler) (c : List Nat) : Bool :=
  if fixed then h.ext.any (· == 0) else h.bufferSize c == 0

/-- `LayoutHandler.transpose` -/
def handlerTraceF (fixed : Bool) (h : Handler) (rm : RouteMap) (c : List Nat) (axisName : Nat → String) (iS iD : Nat) :
    List Call :=
  if earlyExit fixed h c then [] else
  if iS = iD then [] else
  let steps := rm.r iS iD
  (steps.foldl (fun (st : List Call × Nat) next => (st.1 ++ directTrace h c axisName st.2 next, next)) ([], iS)).1

/-- `LayoutHandler.transpose` of the current (repaired) code -/
def handlerTrace (h : Handler) (rm : RouteMap) (c : List Nat) (axisName : Nat → String) (iS iD : Nat) : List Call :=
  handlerTraceF true h rm c axisName iS iD

/-- `LayoutHandler.transpose` before the repair of F15 -/
def handlerTraceOld (h : Handler) (rm : RouteMap) (c : List Nat) (axisName : Nat → String) (iS iD : Nat) : List Call :=
  if h.bufferSize c = 0 then [] else
  if iS = iD then [] else
  let steps := rm.r iS iD
  (steps.foldl (fun (st : List Call × Nat) next => (st.1 ++ directTrace h c axisName st.2 next, next)) ([], iS)).1

/-- one direct step between layouts of different handlers of a swapper -/
def crossTrace (S : Swapper) (rank : Nat) (kS kD : Nat) : List Call :=
  let (hS, _) := S.locate kS; let (hD, _) := S.locate kD
  let LS := S.layoutOf kS; let LD := S.layoutOf kD
  let sN := Swapper.nDistributed (S.handlerNprocs hS); let dN := Swapper.nDistributed (S.handlerNprocs hD)
  if dN ≥ sN then [] else
    let (_, idxS) := S.getAxes hD hS LD LS
    let p := (S.handlerNprocs hS).getD idxS 1
    let cS := (S.topo hS).coords rank
    let blockSize := prodL ((LS.shape cS).set idxS (LS.maxShape.getD idxS 0))
    let ax := ((S.commAxes hS).getD []).getD idxS 0
    [{ comm := s!"sub{ax}", op := "Allgather", send := blockSize, recv := blockSize * p }]

/-- `LayoutSwapper.transpose` on world rank `rank` -/
def swapperTrace (S : Swapper) (rm : RouteMap) (hrm : Nat → RouteMap) (rank : Nat) (kS kD : Nat) : List Call :=
  -- :1259 since the repair of F16: `not any(m.hasData for m in self._managers)`, the same on every rank (before: the rank's own
  -- `_buffer_size == 0`, see `C06.swapper_early_exit_inconsistent`)
  if S.ext.any (· == 0) then [] else
  let (hS, jS) := S.locate kS; let (hD, jD) := S.locate kD
  let name := fun (h : Nat) (a : Nat) => s!"sub{((S.commAxes h).getD []).getD a 0}"
  let one := fun (a b : Nat) =>
    let (ha, ja) := S.locate a; let (hb, jb) := S.locate b
    if ha = hb then handlerTrace (S.handler ha) (hrm ha) ((S.topo ha).coords rank) (name ha) ja jb
    else crossTrace S rank a b
  if hS = hD then handlerTrace (S.handler hS) (hrm hS) ((S.topo hS).coords rank) (name hS) jS jD
  else
    let steps := rm.r kS kD
    (steps.foldl (fun (st : List Call × Nat) next => (st.1 ++ one st.2 next, next)) ([], kS)).1

/-! ### checkpoints: the collectives of parallel HDF5 (`Grid.writeH5Dataset`, grid.py:202-221) -/

/-- a collective of parallel HDF5 with the arguments that must agree on every member of the communicator -/
structure H5Call where
  op : String
  name : String
  shape : List Nat
deriving Repr, DecidableEq

/-- `Grid.writeH5Dataset` on one process: file creation, dataset creation with its shape, attribute creation, close.
    `nGlobal` = numbers of points of the coordinates the GRID was given (the same on every member, also on a plot-only process);
    `layoutExt` = the extents the current LAYOUT knows (all zero on a plot-only process, whose handler was built from empty coordinate
    lists); `ord` = the ordering of the current layout.  `fixed = true` is the code after the repair of F30 (shape from the grid),
    `fixed = false` the earlier one (shape = `layout.fullShape`). -/
def checkpointTrace (fixed : Bool) (nGlobal layoutExt ord : List Nat) (file : String) : List H5Call :=
  let src := if fixed then nGlobal else layoutExt
  [{ op := "File", name := file, shape := [] },
   { op := "create_dataset", name := "dset", shape := ord.map (fun d => src.getD d 0) },
   { op := "attrs.create", name := "Layout", shape := [ord.length] },
   { op := "close", name := "", shape := [] }]

end PygyroVerif.Traces
