/-
Model of the diagnostics of pygyro (C17):

  pygyro/diagnostics/norms.py    l2 (:7-72), l1 (:75-136), nParticles (:139-196)
  pygyro/diagnostics/energy.py   KineticEnergy (:7-66)
  pygyro/diagnostics/diagnostic_collector.py   collect (:39-74), reduce (:76-97)
  pygyro/model/grid.py           getMin (:335-368), getMax (:370-404)

Conventions
  * a local block is enumerated in memory (C) order as a list of *tagged points*: for every axis of the
    layout the pair (physical dimension stored on that axis, global index).  `_f[i0,i1,i2,i3]` of the rank
    with block starts `s` is the global element whose index along dimension `ord[k]` is `s[k] + i_k`
    (C02 / C01); the local index is recovered as `global − start`.
  * 1-D arrays are functions `ℕ → K`; a slice `a[s:e]` is `fun j => a (s + j)` with `e - s` entries.
  * the global field is a function of the physical index `[i_r, i_θ, i_z, i_v]` (or `[i_r, i_θ, i_z]`)
    with values in `K × K` = (real part, imaginary part).
Numerical definitions are over an arbitrary field `K` with a linear order; the driver runs them at `ℚ`.
-/
import PygyroVerif.Model.Blocks
import Mathlib.Algebra.Order.Field.Basic
import Mathlib.Algebra.BigOperators.Group.List.Basic

namespace PygyroVerif.Diag

/-! ### blocks as lists of tagged points -/

/-- axis of a block: (physical dimension held on the axis, first global index, number of points) -/
abbrev Axis := ℕ × ℕ × ℕ
/-- a point of a block: one (dimension, global index) pair per axis, in axis order -/
abbrev Pt := List (ℕ × ℕ)

/-- all points of a block, in C (memory) order -/
def boxA : List Axis → List Pt
  | [] => [[]]
  | (d, s, n) :: rest => (List.range n).flatMap fun j => (boxA rest).map ((d, s + j) :: ·)

/-- global index of the point along dimension `d` (sum of the entries tagged `d`: there is exactly one
    for the axes of a layout, none for a dimension the array does not have) -/
def Pt.get (a : Pt) (d : ℕ) : ℕ := ((a.filter (fun x => x.1 = d)).map (·.2)).sum

/-- the physical index `[i_0, …, i_{nd-1}]` of the point -/
def Pt.toIdx (a : Pt) (nd : ℕ) : List ℕ := (List.range nd).map a.get

/-- first global index / number of points of the axis that holds dimension `d` -/
def axStart (axes : List Axis) (d : ℕ) : ℕ := ((axes.filter (fun x => x.1 = d)).map (·.2.1)).sum
def axLen (axes : List Axis) (d : ℕ) : ℕ := ((axes.filter (fun x => x.1 = d)).map (·.2.2)).sum

/-- axes of the block owned by the process with coordinates `c` in the layout with `dims_order = ds`,
    process counts `ps` (shorter lists are padded: one process, coordinate 0 — layout.py:57-61) and global
    extents `ext` (by physical dimension): `starts[k]:ends[k]` of layout.py:87-96 -/
def localAxes (ext : List ℕ) : (ds ps c : List ℕ) → List Axis
  | [], _, _ => []
  | d :: ds, ps, c =>
    (d, blockStart (ext.getD d 0) (ps.headD 1) (c.headD 0), blockLen (ext.getD d 0) (ps.headD 1) (c.headD 0))
      :: localAxes ext ds ps.tail c.tail

/-- axes of the whole array stored in the order `ds` -/
def globalAxes (ext : List ℕ) : List ℕ → List Axis
  | [] => []
  | d :: ds => (d, 0, ext.getD d 0) :: globalAxes ext ds

/-- coordinates of all processes of the (padded) process grid -/
def coordsBox : (ds ps : List ℕ) → List (List ℕ)
  | [], _ => [[]]
  | _ :: ds, ps => (List.range (ps.headD 1)).flatMap fun k => (coordsBox ds ps.tail).map (k :: ·)

/-- `Σ_{x ∈ l} f x` -/
def sumL {α : Type*} {M : Type*} [AddCommMonoid M] (l : List α) (f : α → M) : M := (l.map f).sum

/-! ### quadrature weights -/

section field
variable {K : Type} [Field K] [LinearOrder K]

/-- entry `i` of `np.array([dx[0]*0.5, *((dx[1:] + dx[:-1])*0.5), dx[-1]*0.5])` with `dx = x[1:] - x[:-1]`
    for a grid `x` of `n ≥ 2` points (norms.py:22-25, :31-34, energy.py:22-28) -/
def trapMult (x : ℕ → K) (n i : ℕ) : K :=
  let dx : ℕ → K := fun k => x (k + 1) - x k
  if i = 0 then dx 0 * (1/2)
  else if i + 1 = n then dx (n - 2) * (1/2)
  else (dx i + dx (i - 1)) * (1/2)

/-- the coordinate arrays `eta_grid` and their lengths -/
structure Grids (K : Type) where
  r : ℕ → K
  q : ℕ → K
  z : ℕ → K
  v : ℕ → K
  nr : ℕ
  nq : ℕ
  nz : ℕ
  nv : ℕ

/-- extents by physical dimension of an `nd`-dimensional grid (3: phi, 4: distribution function) -/
def Grids.ext (e : Grids K) (nd : ℕ) : List ℕ := [e.nr, e.nq, e.nz, e.nv].take nd

inductive Kind | l2 | l1 | nPart | ke
deriving DecidableEq, Repr

/-- the integrand per point: `np.real(f*f.conj())`, `np.abs(np.real(f))`, `np.real(f)`, `np.real(f)` -/
def gOf : Kind → K × K → K
  | .l2, (a, b) => a * a - b * (-b)
  | .l1, (a, _) => |a|
  | .nPart, (a, _) => a
  | .ke, (a, _) => a

/-- global radial weight at radial index `i`: `drMult[i] * r[i]` -/
def rWeight (e : Grids K) (i : ℕ) : K := trapMult e.r e.nr i * e.r i

/-- global velocity weight at index `i`: `dvMult[i]` (norms) or `dvMult[i] * v[i]**2` (kinetic energy) -/
def vWeight (kind : Kind) (e : Grids K) (i : ℕ) : K :=
  match kind with
  | .ke => trapMult e.v e.nv i * (e.v i) ^ 2
  | _ => trapMult e.v e.nv i

/-- `_factor2`: `dq*dz` (norms.py:66) resp. `0.5*dq*dz` (energy.py:56); `dq = q[2]-q[1]`, `dz = z[2]-z[1]` -/
def fac2 (kind : Kind) (e : Grids K) : K :=
  match kind with
  | .ke => (1/2) * (e.q 2 - e.q 1) * (e.z 2 - e.z 1)
  | _ => (e.q 2 - e.q 1) * (e.z 2 - e.z 1)

/-- the three asserts of the constructors that do not involve π: `dq > 0`, `dz > 0` -/
def gridsAccepted (e : Grids K) : Prop := 0 < e.q 2 - e.q 1 ∧ 0 < e.z 2 - e.z 1

/--
`_factor1.flat[k]` as the constructors fill it (norms.py:36-48, :100-110, :163-173, energy.py:35-46).
`sR, nrl` / `sV, nvl`: start and local length of the axes holding r and v (`layout.starts/ends[idx_r]`, `[idx_v]`);
`mydrMult = drMult[sR:sR+nrl]`, `my_r = r[sR:sR+nrl]`, `mydvMult = dvMult[sV:sV+nvl]` (`my_v` likewise).
-/
def factor1Flat (kind : Kind) (e : Grids K) (idxR idxV sR nrl sV nvl : ℕ) (k : ℕ) : K :=
  let wr : ℕ → K := fun j => trapMult e.r e.nr (sR + j) * e.r (sR + j)         -- (mydrMult*my_r)[j]
  let wv : ℕ → K := fun j => match kind with                                   -- mydvMult[j]  or (mydvMult*my_v**2)[j]
    | .ke => trapMult e.v e.nv (sV + j) * (e.v (sV + j)) ^ 2
    | _ => trapMult e.v e.nv (sV + j)
  if idxR < idxV then wr (k / nvl) * wv (k % nvl)       -- (wr[:, None] * wv[None, :]).flat
  else wr (k % nrl) * wv (k / nrl)                      -- (wr[None, :] * wv[:, None]).flat

/-- offset in `_factor1.flat` of the entry that numpy broadcasting pairs with the local element whose local
    indices along the r- and v-axes are `iR`, `iV`: `_factor1` has shape 1 everywhere except `nrl` at `idxR`,
    `nvl` at `idxV` (C order) -/
def bcastOffset (idxR idxV nrl nvl iR iV : ℕ) : ℕ :=
  if idxR < idxV then iR * nvl + iV else iV * nrl + iR

/-- the local diagnostic of one process (`l2NormSquared`, `l1Norm`, `getN`, `getKE`):
    `np.sum(g(f._f) * _factor1) * _factor2` -/
def localDiag (kind : Kind) (ord ps c : List ℕ) (e : Grids K) (G : List ℕ → K × K) : K :=
  let nd := ord.length
  let axes := localAxes (e.ext nd) ord ps c
  let idxR := ord.idxOf 0
  let sR := axStart axes 0
  let nrl := axLen axes 0
  if nd = 4 then
    let idxV := ord.idxOf 3
    let sV := axStart axes 3
    let nvl := axLen axes 3
    sumL (boxA axes) (fun a =>
        gOf kind (G (a.toIdx 4)) *
          factor1Flat kind e idxR idxV sR nrl sV nvl (bcastOffset idxR idxV nrl nvl (a.get 0 - sR) (a.get 3 - sV)))
      * fac2 kind e
  else
    -- 3-D (phi): `_factor1.flat = mydrMult * my_r` (norms.py:49-54)
    sumL (boxA axes) (fun a => gOf kind (G (a.toIdx nd)) * (trapMult e.r e.nr (sR + (a.get 0 - sR)) * e.r (sR + (a.get 0 - sR))))
      * fac2 kind e

/-- the same quadrature evaluated on the whole field by one process, in physical index order:
    trapezoidal rule in r (with Jacobian r) and v, rectangle rule in θ and z -/
def serialQuad (kind : Kind) (nd : ℕ) (e : Grids K) (G : List ℕ → K × K) : K :=
  sumL (boxA (globalAxes (e.ext nd) (List.range nd))) (fun a =>
      gOf kind (G (a.toIdx nd)) * (rWeight e (a.get 0) * (if nd = 4 then vWeight kind e (a.get 3) else 1)))
    * fac2 kind e

end field

/-! ### minimum / maximum -/

section order
variable {α : Type} {K : Type}

/-- `zip(np.atleast_1d(axis), np.atleast_1d(fixValue))`: does this block cover global index `fix` of dimension `ax`
    (grid.py:355-356, :390-391) -/
def owned (axes : List Axis) (s : ℕ × ℕ) : Bool :=
  decide (axStart axes s.1 ≤ s.2 ∧ s.2 < axStart axes s.1 + axLen axes s.1)

/-- `idx[dim] = (fix - starts[dim],)`: the axis holding dimension `ax` is cut down to the single index `fix` -/
def fixAxis (axes : List Axis) (s : ℕ × ℕ) : List Axis :=
  axes.map fun x => if x.1 = s.1 then (x.1, s.2, 1) else x

def applySel (axes : List Axis) : List (ℕ × ℕ) → List Axis
  | [] => axes
  | s :: rest => applySel (fixAxis axes s) rest

/-- reduction of the values of the field over a block with the operation `op` (min or max) -/
def blockFold (op : α → α → α) (neutral : α) (inj : K → α) (nd : ℕ) (axes : List Axis) (G : List ℕ → K) : α :=
  ((boxA axes).map (fun a => inj (G (a.toIdx nd)))).foldr op neutral

/-- number of elements of the block (`self._f.size`) -/
def blockSize (axes : List Axis) : ℕ := (axes.map (·.2.2)).foldr (· * ·) 1

/--
What one process hands to `global_comm.reduce(…, op=MIN|MAX, root=drawingRank)` in `Grid.getMin/getMax`
called with a drawing rank (grid.py:341-368, :376-404).  `sel` = the (axis, fixValue) pairs (empty: whole grid).
Branches: empty block → neutral; whole grid → block extremum; every fixed index owned → extremum of the slice;
otherwise → neutral (`np.inf` / `-np.inf`).
-/
def contribution (op : α → α → α) (neutral : α) (inj : K → α) (nd : ℕ) (axes : List Axis)
    (sel : List (ℕ × ℕ)) (G : List ℕ → K) : α :=
  if blockSize axes = 0 then neutral
  else if sel = [] then blockFold op neutral inj nd axes G
  else if sel.all (owned axes) then blockFold op neutral inj nd (applySel axes sel) G
  else neutral

/-- `comm.reduce(value, op)` over the values of all processes -/
def reduceAll (op : α → α → α) (neutral : α) (vals : List α) : α := vals.foldr op neutral

variable [LinearOrder K]

/-- `Grid.getMin(drawingRank, axis, fixValue)` as seen from the process grid: contribution per process and result -/
def minContribution (nd : ℕ) (axes : List Axis) (sel : List (ℕ × ℕ)) (G : List ℕ → K) : WithTop K :=
  contribution min ⊤ (fun (x : K) => (x : WithTop K)) nd axes sel G

def maxContribution (nd : ℕ) (axes : List Axis) (sel : List (ℕ × ℕ)) (G : List ℕ → K) : WithBot K :=
  contribution max ⊥ (fun (x : K) => (x : WithBot K)) nd axes sel G

/-- `Grid.getMin()` without drawing rank: `self._f.min()` — numpy raises on an empty block (`none`) -/
def localMin (nd : ℕ) (axes : List Axis) (G : List ℕ → K) : Option (WithTop K) :=
  if blockSize axes = 0 then none else some (blockFold min ⊤ (fun (x : K) => (x : WithTop K)) nd axes G)

def localMax (nd : ℕ) (axes : List Axis) (G : List ℕ → K) : Option (WithBot K) :=
  if blockSize axes = 0 then none else some (blockFold max ⊥ (fun (x : K) => (x : WithBot K)) nd axes G)

end order

/-! ### the collector's time slot (diagnostic_collector.py:62-66) -/

/-- a Python number as the driver may pass it -/
inductive PyNum
  | int (i : Int)
  | float (x : Rat)
deriving Repr

/-- `ti = t//self.dt ; idx = ti % self.saveStep ; self.diagnostics[0, idx] = t`:
    with Python ints `//` and `%` are floor division and floor modulus and `idx` is an int;
    as soon as `t` or `dt` is a float, `idx` is a float and numpy refuses it as an index (`IndexError`): `none`.
    A negative `idx ≥ -saveStep` would address from the end as numpy does (never happens for `saveStep > 0`). -/
def collectSlot (t dt : PyNum) (saveStep : Int) : Option Int :=
  match t, dt with
  | .int t, .int dt => if dt = 0 then none else some (Int.fmod (Int.fdiv t dt) saveStep)
  | _, _ => none

end PygyroVerif.Diag
