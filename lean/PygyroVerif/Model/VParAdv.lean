/-
Model of the v-parallel advection kernel.

  pygyro/advection/accelerated_advection_steps.py
      general_v_parallel_advection_eval_step  :145-176   `evalNode` (one iteration of the `for i, v in enumerate(vPts)` body,
                                                          the three `bound` branches), `wrapUp`/`wrapDown` (the two `while` loops)
      v_parallel_advection_eval_step          :179-190   dispatch on the spline path: both paths evaluate *the* spline, see `cuKnot`
  pygyro/advection/advection.py
      VParallelAdvection.step                 :345-374   `step`  (`vPts = self._points - c*dt`, `vMin = self._points[0]`,
                                                          `vMax = self._points[-1]`)

Conventions
  * `S : K → K` is the interpolant computed by `compute_interpolant` (contract: the real interpolator's coefficients are
    handed to the model, `splineEval` evaluates them exactly with `BSpline.evalSpline1D`).
  * `f_eq` (exp/tanh) is never evaluated: the branch returns the tag `Val.feq r v`; the harness compares the code's number
    with the real `f_eq(r, v, …)`.
  * the `while` loops of the periodic mode take fuel = maximal number of iterations; `none` = fuel exhausted.
    `Props/C11.vpar_wrap_terminates` shows that for `vMin < vMax` a finite fuel always suffices and that the result does
    not depend on the fuel.
-/
import Mathlib.Algebra.Order.Field.Basic
import PygyroVerif.Model.BSpline

namespace PygyroVerif.VParAdv

variable {K : Type*} [Field K] [LinearOrder K]

/-- a value stored into `f[...]`: a number, or "the equilibrium distribution at (r, v)" -/
inductive Val (K : Type*) where
  | num (x : K)
  | feq (r v : K)
deriving DecidableEq, Repr

/-- `self._edgeType`: 0 = 'fEq', 1 = 'null', 2 = 'periodic' (advection.py:333-338) -/
inductive Edge where
  | fEq | null | periodic
deriving DecidableEq, Repr

/-- `while (v < vMin): v += vDiff` (:172-173) -/
def wrapUp (vMin vDiff : K) : ℕ → K → Option K
  | 0, v => if v < vMin then none else some v
  | fuel+1, v => if v < vMin then wrapUp vMin vDiff fuel (v + vDiff) else some v

/-- `while (v > vMax): v -= vDiff` (:174-175) -/
def wrapDown (vMax vDiff : K) : ℕ → K → Option K
  | 0, v => if v > vMax then none else some v
  | fuel+1, v => if v > vMax then wrapDown vMax vDiff fuel (v - vDiff) else some v

/-- both loops, `vDiff = vMax - vMin` (:170) -/
def periodicImage (vMin vMax : K) (fuel : ℕ) (v : K) : Option K :=
  (wrapUp vMin (vMax - vMin) fuel v).bind (wrapDown vMax (vMax - vMin) fuel)

/-- body of `for i, v in enumerate(vPts)` for the three values of `bound` (:156-176) -/
def evalNode (S : K → K) (edge : Edge) (vMin vMax r : K) (fuel : ℕ) (v : K) : Option (Val K) :=
  match edge with
  | .fEq => some (if v < vMin ∨ v > vMax then .feq r v else .num (S v))
  | .null => some (if v < vMin ∨ v > vMax then .num 0 else .num (S v))
  | .periodic => (periodicImage vMin vMax fuel v).map (fun w => .num (S w))

/-- the point at which the interpolant is evaluated (`none`: not evaluated / fuel exhausted) -/
def evalPoint (edge : Edge) (vMin vMax : K) (fuel : ℕ) (v : K) : Option K :=
  match edge with
  | .fEq => if v < vMin ∨ v > vMax then none else some v
  | .null => if v < vMin ∨ v > vMax then none else some v
  | .periodic => periodicImage vMin vMax fuel v

/-- `VParallelAdvection.step(f, dt, c, r)`: `pts = self._points` (`n` nodes), `S` = interpolant of the old `f` -/
def step (S : K → K) (edge : Edge) (pts : ℕ → K) (n : ℕ) (dt c r : K) (fuel : ℕ) : List (Option (Val K)) :=
  (List.range n).map (fun i => evalNode S edge (pts 0) (pts (n - 1)) r fuel (pts i - c * dt))

/-- knot `i` of the knot vector the cubic-uniform kernels implicitly use (`cu_find_span`, `cu_basis_funs`):
    equidistant, three cells beyond either end; `knots = [xmin, xmax, dx, ncells]` (splines.py:109) -/
def cuKnot (xmin dx : K) (i : ℕ) : K := xmin + dx * ((i : K) - 3)

/-- the spline with coefficients `c`, evaluated by the C07 model (0 if the span search fails — never for sorted knots) -/
def splineEval (t : ℕ → K) (nk degree : ℕ) (c : ℕ → K) (x : K) : K :=
  (BSpline.evalSpline1D t nk degree c x false).getD 0

/-- running condition number of the evaluation: `Σ_j |c_j|·|B_j(x)|` (used by the harness as comparison scale) -/
def absEval (t : ℕ → K) (nk degree : ℕ) (c : ℕ → K) (x : K) (der : Bool) : K :=
  match BSpline.findSpan t nk degree x with
  | some span => BSpline.dotFrom (fun j => |c j|) (span - degree)
      ((BSpline.basisOrDer t degree x span der).map (fun b => |b|))
  | none => 0

end PygyroVerif.VParAdv
