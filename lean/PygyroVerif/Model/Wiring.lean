/-
Model of the grid-level loops that wire local slices to physical parameters (C05):
  FluxSurfaceAdvection.gridStep            advection.py:295-299
  VParallelAdvection.gridStep / KeepGradient  :376-390   (with ParallelGradient.parallel_gradient per radius)
  PoloidalAdvection.gridStep               :521-532
  DensityFinder.getPerturbedRho            poisson_solver.py:44-65   (`fEq[rIndices]`)
  DiffEqSolver.solveEquation               poisson_solver.py:352-358 (`mVals[I]`, `stiffness_range[I]`)
  initialise_flux_surface / _poloidal / _v_parallel   initialiser.py

Every operator is "for each local slice: call a kernel with parameters looked up by indices".  A `Call` records, as
GLOBAL indices, which slice is processed and at which global indices the parameter tables are read; tables built
in a constructor from the local range `starts:ends` of a layout are read at `start + local index`.
`fixed = false` reproduces the index expressions before the `fix:` commits e17f3f9 / aa36cd2.  Core Lean only.
-/
import PygyroVerif.Model.Layout

namespace PygyroVerif.Wiring
open PygyroVerif

structure Call where
  op : String
  slice : List Nat      -- global indices of the processed slice along the looped axes
  params : List Nat     -- global indices at which parameters / table rows are taken
deriving Repr, DecidableEq

def sh (L : Layout) (c : List Nat) (k : Nat) : Nat := (L.shape c).getD k 0

/-- flux-surface step, layout (r, v, θ, z): `self.step(grid.get2DSlice(i, j), j, i)`; the tables `_shifts`,
    `_thetaShifts`, `_lagrangeCoeffs` are built for the local r and v ranges of the same layout -/
def fluxGridStep (fixed : Bool) (L : Layout) (c : List Nat) : List Call :=
  (List.range (sh L c 0)).flatMap (fun i => (List.range (sh L c 1)).map (fun j =>
    { op := "flux.step", slice := [L.startAt c 0 + i, L.startAt c 1 + j],
      params := [L.startAt c 0 + (if fixed then i else 0), L.startAt c 1 + j] }))

/-- v-parallel step, layout (r, z, θ, v); `Lp`, `cp`: layout/coordinates of the potential (r, z, θ) whose r range
    fills the rows of `parGradVals`; the table covers all z and θ -/
def vparGridStep (fixed : Bool) (keepGradient : Bool) (L : Layout) (c : List Nat) (Lp : Layout) (cp : List Nat) : List Call :=
  (List.range (sh L c 0)).flatMap (fun i =>
    (if keepGradient then [] else
      [{ op := "pargrad", slice := [Lp.startAt cp 0 + i], params := [Lp.startAt cp 0 + i] }]) ++
    (List.range (sh L c 1)).flatMap (fun j => (List.range (sh L c 2)).map (fun k =>
      { op := "vpar.step", slice := [L.startAt c 0 + i, L.startAt c 1 + j, L.startAt c 2 + k],
        -- gradient row (radius of the potential block), z index into the all-z table, θ index, radius value
        params := [Lp.startAt cp 0 + i, (if fixed then L.startAt c 1 + j else j), k, L.startAt c 0 + i] })))

/-- poloidal step, layout (v, z, θ, r); potential layout (z, θ, r): `self._phiSplines[j]` is the interpolant of
    the potential's local z slice `j` -/
def polGridStep (L : Layout) (c : List Nat) (Lp : Layout) (cp : List Nat) : List Call :=
  (List.range (sh L c 1)).map (fun j =>
    { op := "pol.interp", slice := [Lp.startAt cp 0 + j], params := [Lp.startAt cp 0 + j] }) ++
  (List.range (sh L c 0)).flatMap (fun i => (List.range (sh L c 1)).map (fun j =>
    { op := "pol.step", slice := [L.startAt c 0 + i, L.startAt c 1 + j],
      params := [L.startAt c 0 + i, Lp.startAt cp 0 + j] }))

/-- density: `fEq[rIndices]` with `rIndices = grid.getGlobalIdxVals(0)` -/
def densityRows (L : Layout) (c : List Nat) : List Call :=
  (L.globalIdxVals c 0).zipIdx.map (fun (p : Nat × Nat) =>
    { op := "density.row", slice := [L.startAt c 0 + p.2], params := [p.1] })

/-- `solveEquation`: `for i, I in enumerate(rho.getGlobalIdxVals(0))` uses `mVals[I]`, `stiffness_range[I]` -/
def solveModes (L : Layout) (c : List Nat) : List Call :=
  (L.globalIdxVals c 0).zipIdx.map (fun (p : Nat × Nat) =>
    { op := "solve.mode", slice := [L.startAt c 0 + p.2], params := [p.1] })

/-- the initialisers: coordinates come from `grid.getCoords(k)` = `eta[ord k][start k + local]` -/
def initialise (L : Layout) (c : List Nat) : List Call :=
  (List.range (sh L c 0)).flatMap (fun i => (List.range (sh L c 1)).map (fun j =>
    { op := "init", slice := [L.startAt c 0 + i, L.startAt c 1 + j], params := [L.startAt c 0 + i, L.startAt c 1 + j] }))

/-! decomposition independence, abstractly: one distributed axis of extent `n`, `p` ranks; each rank applies the
kernel to its slices with the parameter it looks up -/

/-- what rank `k` computes: local slice `i` is global slice `start k + i`; `pidx i` is the table index the code
    passes; the table was built from the local range, so entry `t` is the parameter of global index `start k + t` -/
def localRun {β σ : Type} (n p k : Nat) (T : Nat → β) (kern : β → σ → σ) (F : Nat → σ) (pidx : Nat → Nat) : List σ :=
  (List.range (blockLen n p k)).map (fun i => kern (T (blockStart n p k + pidx i)) (F (blockStart n p k + i)))

end PygyroVerif.Wiring
