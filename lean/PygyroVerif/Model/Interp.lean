/-
Model of spline interpolation and spline quadrature,
pygyro/splines/spline_interpolators.py and pygyro/splines/splines.py (C08, C09).

  make_knots                                   splines.py:17-65      `makeKnots`
  BSplines.greville (general branch)           splines.py:186-198    `grevilleRaw`, `pyMod`, `greville`
  BSplines.__init__ (uniform-cubic points)     splines.py:117-126    `linspace`, `cuPoints`
  SplineInterpolator1D.collocation_matrix      interp.py:122-178     `colIdx`, `rowOf`, `collocRow`, `cuCollocRow`
  SplineInterpolator1D.__init__ (band storage) interp.py:32-38       `bandRow`, `bandInv`, `InBand`, `bandedStore`, `bandwidths`
  _solve_system_periodic / _nonperiodic        interp.py:77-100      `storeSolution`, `wrapCoeffs`, `computeInterpolant1D`
  SplineInterpolator2D.compute_interpolant     interp.py:204-252     `interpolate2D`
  BSplines._build_integrals                    splines.py:238-290    `extKnots`, `partialSum`, `integralGeneral`,
                                                                      `integralsGeneral`, `cuValues`, `cuIntegrals`
  get_quadrature_coefficients                  interp.py:103-120     `basisQuads` (+ the transposed solve = contract)

External solvers (LAPACK `dgbtrf/dgbtrs`, `zgbtr*`, SuperLU `splu`) are *contracts*: the model takes the vector the
solver returned (`sol`) as an input; the theorems quantify over every `sol` with `M sol = u`, the driver reports the exact
residual of what the real solver returned.

REPAIRED behaviour (patches in /verif/notes/patch_C08_*.diff, patch_C09_*.diff); the behaviour of the unpatched code is
kept under the names `rowOfLastWins`, `integralsGeneralOld`, `cuIntegralsClampedOld`:
  * `rowOf` accumulates `mat[i, j] += basis[s]`.  The code assigns `mat[i, js(span)] = basis` with a *list* of column
    indices; for a periodic space with `ncells = degree` (admitted by `make_knots`) the first and last column index
    coincide and numpy keeps only the last value.
  * `integralsGeneral` (periodic): `integrals[n+i] = (t_{i+d+1}-t_i)/(d+1) - integrals[i]`; the code mirrors
    `integrals[d-i-1]`, which is right only for knots symmetric about the seam.
  * `cuIntegrals` (clamped): every entry starts from `dx` and loses the part of its support that sticks out at either
    end; the code assigns the three end values from both sides, which collide for 1 or 2 cells.

`np.around(x, decimals=15)` in `greville` is not modelled (identity here); the check compares the real points with the
model's up to that rounding and feeds the *real* points to `collocRow` (they are an argument of `collocation_matrix`).
`int(·)` / `floor` are parameters `trunc`/`floor : K → ℤ` (the driver passes the rational floor).
-/
import PygyroVerif.Model.BSpline
import PygyroVerif.Model.CubicUniform
import Mathlib.Algebra.BigOperators.Group.Finset.Basic

namespace PygyroVerif.Interp
open PygyroVerif.BSpline PygyroVerif.CubicUniform Finset

variable {K : Type*} [Field K] [LinearOrder K]

/-! ### spline spaces -/

/-- what `BSplines(knots, degree, periodic, uniform=False)` stores: `t = knots`, `nk = len(knots)` -/
structure Space (K : Type*) where
  t : ℕ → K
  nk : ℕ
  degree : ℕ
  periodic : Bool

/-- `self._ncells = len(knots)-2*degree-1` (splines.py:104) -/
def Space.ncells (S : Space K) : ℕ := S.nk - 2 * S.degree - 1
/-- `self._nbasis` (splines.py:105) -/
def Space.nbasis (S : Space K) : ℕ := if S.periodic then S.ncells else S.ncells + S.degree
/-- length of `Spline1D.coeffs` and of `BSplines.integrals`: `ncells + degree` -/
def Space.ncoeffs (S : Space K) : ℕ := S.ncells + S.degree
/-- `breaks[0] = knots[p]` -/
def Space.xmin (S : Space K) : K := S.t S.degree
/-- `breaks[-1] = knots[-p-1]` -/
def Space.xmax (S : Space K) : K := S.t (S.nk - S.degree - 1)
/-- what `make_knots` asserts (at least one cell, `degree > 0`, `len(breaks) > degree` if periodic) -/
def Space.Admissible (S : Space K) : Prop :=
  0 < S.degree ∧ 2 * S.degree + 2 ≤ S.nk ∧ (S.periodic = true → S.degree ≤ S.ncells)

/-- `make_knots(breaks, degree, periodic)`; `nbr = len(breaks)` (splines.py:53-65) -/
def makeKnots (breaks : ℕ → K) (nbr p : ℕ) (periodic : Bool) : ℕ → K := fun i =>
  let period := breaks (nbr - 1) - breaks 0
  if i < p then (if periodic then breaks (nbr - 1 - p + i) - period else breaks 0)
  else if i < p + nbr then breaks (i - p)
  else (if periodic then breaks (i - p - nbr + 1) + period else breaks (nbr - 1))

/-! ### interpolation points -/

/-- `np.sum(T[i:i+p])/p` for the `i`-th point, `i` counted from `s` (splines.py:191) -/
def grevilleRaw (t : ℕ → K) (p s i : ℕ) : K := (∑ k ∈ range p, t (s + i + k)) / (p : K)

/-- Python's float `x % y` for `y > 0` -/
def pyMod (floor : K → ℤ) (x y : K) : K := x - ((floor (x / y) : ℤ) : K) * y

/-- `BSplines.greville`, general branch (splines.py:187-198) without the two `np.around(…, 15)` -/
def greville (floor : K → ℤ) (S : Space K) (i : ℕ) : K :=
  let p := S.degree
  let s := if S.periodic then 1 + p / 2 else 1
  let x := grevilleRaw S.t p s i
  if S.periodic then
    let a := S.xmin
    let b := S.xmax
    pyMod floor (x - a) (b - a) + a
  else x

/-- `np.linspace(start, stop, num)[k]` (endpoint included) -/
def linspace (start stop : K) (num k : ℕ) : K :=
  if num ≤ 1 then start
  else if k = num - 1 then stop
  else (k : K) * ((stop - start) / ((num - 1 : ℕ) : K)) + start

/-- interpolation points of the uniform-cubic spaces (splines.py:117-126) -/
def cuPoints (xmin xmax dx : K) (ncells : ℕ) (periodic : Bool) (i : ℕ) : K :=
  if periodic then (i : K) * ((xmax - xmin) / (ncells : K)) + xmin      -- linspace(…, endpoint=False)
  else
    let nb := ncells + 3
    if i = 0 then xmin
    else if i = 1 then xmin + dx / 3
    else if i = nb - 2 then xmax - dx / 3
    else if i = nb - 1 then xmax
    else linspace (xmin + dx) (xmax - dx) (nb - 4) (i - 2)

/-! ### collocation matrix -/

/-- `js(span)[s]` (interp.py:155-159) -/
def colIdx (periodic : Bool) (nb degree span s : ℕ) : ℕ :=
  if periodic then (span - degree + s) % nb else span - degree + s

/-- row `i` of the collocation matrix as a function of the column (REPAIRED: values falling on one column add up) -/
def rowOf (periodic : Bool) (nb degree span : ℕ) (basis : List K) : ℕ → K := fun j =>
  (basis.zipIdx.map (fun bs : K × ℕ => if colIdx periodic nb degree span bs.2 = j then bs.1 else 0)).sum

/-- the unpatched code: `mat[i, js(span)] = basis`, for a repeated column the last value wins -/
def rowOfLastWins (periodic : Bool) (nb degree span : ℕ) (basis : List K) : ℕ → K := fun j =>
  basis.zipIdx.foldl (fun acc (bs : K × ℕ) => if colIdx periodic nb degree span bs.2 = j then bs.1 else acc) 0

/-- one row of `collocation_matrix(nb, knots, degree, xgrid, periodic, False)` for the point `x` (interp.py:173-176) -/
def collocRow (S : Space K) (x : K) : Option (ℕ → K) :=
  (findSpan S.t S.nk S.degree x).map
    (fun span => rowOf S.periodic S.nbasis S.degree span (basisFuns S.t S.degree x span))

/-- `collocation_matrix(…)`: row `i` is the row of the point `xgrid[i]` -/
def collocationMatrix (S : Space K) (xgrid : ℕ → K) : ℕ → Option (ℕ → K) := fun i => collocRow S (xgrid i)

/-- `nbasis` of a uniform-cubic space (degree 3) -/
def cuNb (ncells : ℕ) (periodic : Bool) : ℕ := if periodic then ncells else ncells + 3

/-- one row on the uniform-cubic path (interp.py:167-170) -/
def cuCollocRow (trunc : K → ℤ) (xmin dx : K) (ncells nb : ℕ) (periodic : Bool) (x : K) : ℕ → K :=
  let so := cuFindSpan trunc xmin dx x (ncells : ℤ)
  rowOf periodic nb 3 so.1.toNat (cuBasisFuns so.2)

/-- `M c` restricted to the first `n` columns -/
def matVec (M : ℕ → ℕ → K) (n : ℕ) (c : ℕ → K) (i : ℕ) : K := ∑ j ∈ range n, M i j * c j
/-- `Mᵀ w` -/
def matTVec (M : ℕ → ℕ → K) (n : ℕ) (w : ℕ → K) (j : ℕ) : K := ∑ i ∈ range n, M i j * w i
/-- `Σ_j |M_ij| |c_j|` (scale of the backward-error bound of the solver contract) -/
def absRow (M : ℕ → ℕ → K) (n : ℕ) (c : ℕ → K) (i : ℕ) : K := ∑ j ∈ range n, |M i j| * |c j|

/-! ### banded storage handed to LAPACK -/

/-- row of `bmat` holding `M[i,j]`: `bmat[u+l+i-j, j] = cmat[i,j]` (interp.py:38) -/
def bandRow (u l i j : ℕ) : ℕ := u + l + i - j
/-- the matrix row stored at `bmat[r, j]` -/
def bandInv (u l r j : ℕ) : ℕ := r + j - (u + l)
/-- `(i,j)` lies within `l` sub- and `u` super-diagonals -/
def InBand (u l i j : ℕ) : Prop := j ≤ i + u ∧ i ≤ j + l
/-- `(r,j)` is a cell of `bmat` (`1+u+2l` rows) that holds a matrix entry of an `n × n` matrix -/
def InStore (n u l r j : ℕ) : Prop := l ≤ r ∧ r ≤ u + 2 * l ∧ j < n ∧ u + l ≤ r + j ∧ r + j - (u + l) < n

/-- contents of `bmat` before factorisation -/
def bandedStore (M : ℕ → ℕ → K) (n u l : ℕ) : ℕ → ℕ → K := fun r j =>
  if l ≤ r ∧ r ≤ u + 2 * l ∧ j < n ∧ u + l ≤ r + j ∧ r + j - (u + l) < n then M (r + j - (u + l)) j else 0

/-- `(l, u)` = (`abs(dmat.offsets.min())`, `dmat.offsets.max()`) of the non-zero diagonals (interp.py:32-34) -/
def bandwidths (M : ℕ → ℕ → K) (n : ℕ) : ℕ × ℕ :=
  let idx := (List.range n).flatMap (fun i => (List.range n).filterMap (fun j => if M i j = 0 then none else some (i, j)))
  (idx.foldl (fun m ij => max m (ij.1 - ij.2)) 0, idx.foldl (fun m ij => max m (ij.2 - ij.1)) 0)

/-! ### storing the solution, periodic wrap -/

/-- `c[0:n] = solution` -/
def storeSolution (n : ℕ) (sol c0 : ℕ → K) : ℕ → K := fun k => if k < n then sol k else c0 k
/-- `c[n:n+p] = c[0:p]` (interp.py:87) -/
def wrapCoeffs (n p : ℕ) (c : ℕ → K) : ℕ → K := fun k => if n ≤ k ∧ k < n + p then c (k - n) else c k

/-- `SplineInterpolator1D.compute_interpolant`: `sol` is what the solver returned, `c0` the previous content of
    `spl.coeffs` -/
def computeInterpolant1D (periodic : Bool) (n p : ℕ) (sol c0 : ℕ → K) : ℕ → K :=
  if periodic then wrapCoeffs n p (storeSolution n sol c0) else storeSolution n sol c0

/-- coefficient arrays that satisfy the periodic wrap -/
def Wrapped (periodic : Bool) (n p : ℕ) (c : ℕ → K) : Prop := periodic = true → ∀ i, i < p → c (n + i) = c i

/-! ### 2-D: two sweeps of 1-D solves (interp.py:225-252) -/

/-- first sweep (interp.py:230-232): `w[i1, :] = spline2.coeffs` after interpolating the data row `ug[i1, :]` along
    direction 2; `sol2 i1` is what the solver of direction 2 returned for that row; rows `≥ n1` keep their content -/
def sweepFirst (n1 : ℕ) (per2 : Bool) (n2 p2 : ℕ) (sol2 w0 : ℕ → ℕ → K) : ℕ → ℕ → K := fun k1 k2 =>
  if k1 < n1 then computeInterpolant1D per2 n2 p2 (sol2 k1) (fun _ => 0) k2 else w0 k1 k2

/-- second sweep on the transposed array (interp.py:239-241): `wt[i2, :] = spline1.coeffs` after interpolating
    `wt[i2, :n1]` along direction 1; `sol1 i2` is what the solver of direction 1 returned for that row -/
def sweepSecond (per1 : Bool) (n1 p1 n2 : ℕ) (sol1 wt : ℕ → ℕ → K) : ℕ → ℕ → K := fun k2 k1 =>
  if k2 < n2 then computeInterpolant1D per1 n1 p1 (sol1 k2) (fun _ => 0) k1 else wt k2 k1

/-- `a[n:n+p, :] = a[:p, :]` if periodic (interp.py:244-245, :251-252) -/
def wrapRows (per : Bool) (n p : ℕ) (a : ℕ → ℕ → K) : ℕ → ℕ → K := fun r c =>
  if per = true ∧ n ≤ r ∧ r < n + p then a (r - n) c else a r c

/-- `a.transpose()` -/
def transpose (a : ℕ → ℕ → K) : ℕ → ℕ → K := fun i j => a j i

/-- `SplineInterpolator2D.compute_interpolant` (interp.py:225-252); `w0` = previous content of `spl.coeffs` -/
def interpolate2D (per1 : Bool) (n1 p1 : ℕ) (per2 : Bool) (n2 p2 : ℕ) (sol2 sol1 : ℕ → ℕ → K) (w0 : ℕ → ℕ → K) :
    ℕ → ℕ → K :=
  let w1 := sweepFirst n1 per2 n2 p2 sol2 w0                  -- first sweep, works on spl.coeffs
  let wt := transpose w1                                       -- wt[:, :] = w.transpose()
  let wt2 := sweepSecond per1 n1 p1 n2 sol1 wt                 -- second sweep, works on self._bwork
  let wt3 := wrapRows per2 n2 p2 wt2                           -- wt[n2:n2+p2, :] = wt[:p2, :]
  let w4 := transpose wt3                                      -- w[:, :] = wt.transpose()
  wrapRows per1 n1 p1 w4                                       -- w[n1:n1+p1, :] = w[:p1, :]

/-- the data handed to the second sweep: `wt[i2, :n1]` after the first sweep -/
def sweep1Data (sol2 : ℕ → ℕ → K) : ℕ → ℕ → K := fun i2 i1 => sol2 i1 i2

/-! ### basis integrals (splines.py:238-290) -/

/-- `np.array([knots[0], *knots, knots[-1]])` -/
def extKnots (t : ℕ → K) (nk : ℕ) : ℕ → K := fun i =>
  if i = 0 then t 0 else if i ≤ nk then t (i - 1) else t (nk - 1)

/-- `np.sum(values[k:])` -/
def sumFrom (l : List K) (k : ℕ) : K := (l.drop k).sum

/-- `np.sum(values[min_idx:])` at the point `x` for basis function `i`: degree-raised basis on the extended knots,
    `min_idx = (i+1) - (span - (d+1))` (splines.py:270-283) -/
def partialSum (kn : ℕ → K) (nk' d i : ℕ) (x : K) : Option K :=
  (findSpan kn nk' (d + 1) x).map (fun span => sumFrom (basisFuns kn (d + 1) x span) (i + 1 - (span - (d + 1))))

/-- `(knots[d+2+i] - knots[i+1]) * inv_deg`: the integral over ℝ of basis function `i` -/
def fullIntegral (S : Space K) (i : ℕ) : K :=
  let kn := extKnots S.t S.nk
  (kn (S.degree + 2 + i) - kn (i + 1)) * (1 / ((S.degree : K) + 1))

/-- body of the loop `for i in range(n)` (splines.py:266-286) -/
def integralGeneral (S : Space K) (i : ℕ) : Option K :=
  let d := S.degree
  let kn := extKnots S.t S.nk
  let lbound := max S.xmin (kn (i + 1))
  let ubound := min S.xmax (kn (d + 2 + i))
  match partialSum kn (S.nk + 2) d i lbound, partialSum kn (S.nk + 2) d i ubound with
  | some l, some u => some ((kn (d + 2 + i) - kn (i + 1)) * (1 / ((d : K) + 1)) * (u - l))
  | _, _ => none

/-- `BSplines.integrals[k]`, general branch, REPAIRED periodic tail: the part of `B_{n+i}` inside the domain is what
    `B_i` is missing -/
def integralsGeneral (S : Space K) (k : ℕ) : Option K :=
  if k < S.nbasis then integralGeneral S k
  else if S.periodic = true ∧ k < S.ncoeffs then
    (integralGeneral S (k - S.nbasis)).map (fun Ii => fullIntegral S (k - S.nbasis) - Ii)
  else none

/-- the unpatched code: `integrals[n+i] = integrals[d-i-1]` (splines.py:288-290) -/
def integralsGeneralOld (S : Space K) (k : ℕ) : Option K :=
  if k < S.nbasis then integralGeneral S k
  else if S.periodic = true ∧ k < S.ncoeffs then integralGeneral S (S.degree - (k - S.nbasis) - 1)
  else none

/-- degree-4 uniform basis at a knot (splines.py:252-256): `[1/24, 11/24, 11/24, 1/24, 0]` -/
def cuValues (xmin dx : K) : Option (List K) :=
  let kn : ℕ → K := fun k => (k : K) * dx + xmin          -- np.linspace(xmin, xmin+dx*11, 12)
  let testPt := xmin + 4 * dx
  (findSpan kn 12 4 testPt).map (fun span => basisFuns kn 4 testPt span)

/-- `sum(values[:k])` -/
def sumTo (l : List K) (k : ℕ) : K := (l.take k).sum

/-- `BSplines.integrals[k]`, uniform-cubic branch; clamped part REPAIRED: `dx` minus what sticks out on either side -/
def cuIntegrals (xmin dx : K) (ncells : ℕ) (periodic : Bool) (k : ℕ) : Option K :=
  let len := ncells + 3
  if periodic then (if k < ncells then some dx else if k < len then some 0 else none)
  else if len ≤ k then none
  else (cuValues xmin dx).map (fun values =>
    dx - (if k < 3 then dx * sumTo values (3 - k) else 0)
       - (if len - 1 - k < 3 then dx * sumTo values (3 - (len - 1 - k)) else 0))

/-- array update -/
def setAt (f : ℕ → K) (k : ℕ) (v : K) : ℕ → K := fun m => if m = k then v else f m

/-- the unpatched clamped uniform-cubic code (splines.py:251-261): `integrals[d:-d] = dx`, then for `i = 0,1,2`
    `integrals[i] = integrals[-i-1] = dx*(1 - sum(values[:3-i]))` in this order -/
def cuIntegralsClampedOld (xmin dx : K) (ncells : ℕ) : Option (ℕ → K) :=
  let len := ncells + 3
  (cuValues xmin dx).map (fun values =>
    let init : ℕ → K := fun k => if 3 ≤ k ∧ k + 3 < len then dx else 0
    [0, 1, 2].foldl (fun (f : ℕ → K) i =>
      let step := dx * (1 - sumTo values (3 - i))
      setAt (setAt f i step) (len - i - 1) step) init)

/-! ### quadrature coefficients (interp.py:103-120) -/

/-- right-hand side of the transposed solve: `integrals[:n]` with `basis_quads[:p] += integrals[n:]` if periodic -/
def basisQuads (periodic : Bool) (n p : ℕ) (integrals : ℕ → K) : ℕ → K := fun j =>
  if periodic = true ∧ j < p then integrals j + integrals (n + j) else integrals j

/-- `coeffs @ ug` -/
def dot (n : ℕ) (w u : ℕ → K) : K := ∑ i ∈ range n, w i * u i

end PygyroVerif.Interp
