/-
Model of the poloidal advection kernels.

  pygyro/advection/accelerated_advection_steps.py
      general_poloidal_advection_step_expl  :10-120    `explFoot` (Heun predictor/corrector, :57-93), `finalVal` (:96-120),
                                                       `explStep`
      general_poloidal_advection_step_impl  :239-370   `implInit` (:282-289), `implNode` (body of the double loop :298-343),
                                                       `sweep` (one pass of the `while`, carries `norm`), `implLoop`
                                                       (`while (norm > tol)`, fuel), `implStep` (+ final evaluation :345-370)
  pygyro/advection/advection.py
      PoloidalAdvection.step                :454-511   dispatch on `explicitTrap`; `rMin = rPts[0]`, `rMax = rPts[nPts_r-1]`

Conventions
  * the splines are abstract evaluators (`Evals`): `drPhi q r` = `eval_spline_2d_scalar(q, r, …Phi…, 0, 1)` (and the
    `eval_spline_2d_cross` table at the nodes — C07 `entrypoints_agree`), `dqPhi` = `(…, 1, 0)`, `fhat` = the interpolant of the
    old `f` (contract, as in C11).  The drivers instantiate them with `BSpline.evalSpline2D` on the real coefficients.
  * `wrap x` = `x % (2*pi)`.  The theorems need only the stated properties of `wrap`; the driver uses `pmod period` with
    `period` = the double `2*pi` as a rational, which is what Python's float `%` computes (exactly for x ≥ 0, to one rounding
    for x < 0).  `half` = the double `pi`.
  * `f_eq` is a tag (`VParAdv.Val.feq r v`), as in C11.
  * the fixed-point iteration takes fuel (maximal number of sweeps); `none` = not converged within the fuel.  Termination for
    arbitrary data is *not* a theorem (it is false without a contraction hypothesis).
  * `0.5` is `1/2`; `multFactor_half = 0.5*multFactor` (expl) and `multFactor *= 0.5` (impl) are kept as written.
-/
import Mathlib.Algebra.Order.Field.Basic
import Mathlib.Algebra.Order.Floor.Defs
import PygyroVerif.Model.BSpline
import PygyroVerif.Model.VParAdv

namespace PygyroVerif.PolAdv

open PygyroVerif.VParAdv (Val)

variable {K : Type*} [Field K] [LinearOrder K]

/-- the three spline evaluators and the angle reduction -/
structure Evals (K : Type*) where
  drPhi : K → K → K
  dqPhi : K → K → K
  fhat : K → K → K
  wrap : K → K

/-- scalar arguments of the kernels (`rMin = rPts[0]`, `rMax = rPts[nPts_r-1]`) -/
structure Params (K : Type*) where
  dt : K
  B0 : K
  v : K
  rMin : K
  rMax : K
  nul : Bool

/-- `multFactor = dt / B0` -/
def multFactor (P : Params K) : K := P.dt / P.B0

/-- derivatives of phi divided by the radius at an intermediate point, zero outside the radial domain
    (:69-85 and :301-316) -/
def velAt (E : Evals K) (P : Params K) (q r : K) : K × K :=
  if ¬ (r < P.rMin ∨ r > P.rMax) then (E.drPhi q r / r, E.dqPhi q r / r) else (0, 0)

/-- predictor of the explicit scheme (:61-67): `(endPts_k1_q, endPts_k1_r)` -/
def predictor (E : Evals K) (P : Params K) (q r : K) : K × K :=
  (E.wrap (q - E.drPhi q r / r * multFactor P), r + E.dqPhi q r / r * multFactor P)

/-- `(endPts_k2_q, endPts_k2_r)` of the explicit scheme at the node `(q, r)` (:57-93) -/
def explFoot (E : Evals K) (P : Params K) (q r : K) : K × K :=
  let mh := (1 / 2 : K) * multFactor P
  let dr0 := E.drPhi q r / r
  let dq0 := E.dqPhi q r / r
  let k1 := predictor E P q r
  let dk := velAt E P k1.1 k1.2
  (E.wrap (q - (dr0 + dk.1) * mh), r + (dq0 + dk.2) * mh)

/-- "Find value at the determined point" (:96-120 and :346-370), both values of `nulBound` -/
def finalVal (E : Evals K) (P : Params K) (foot : K × K) : Val K :=
  if foot.2 < P.rMin then (if P.nul then .num 0 else .feq P.rMin P.v)
  else if foot.2 > P.rMax then (if P.nul then .num 0 else .feq foot.2 P.v)
  else .num (E.fhat (E.wrap foot.1) foot.2)

/-- parameters as `PoloidalAdvection.step` passes them -/
def mkParams (dt B0 v : K) (rPts : ℕ → K) (nr : ℕ) (nul : Bool) : Params K :=
  { dt := dt, B0 := B0, v := v, rMin := rPts 0, rMax := rPts (nr - 1), nul := nul }

/-- `poloidal_advection_step_expl`: new `f[i][j]`, `i` over theta, `j` over r -/
def explStep (E : Evals K) (P : Params K) (qPts rPts : ℕ → K) (nq nr : ℕ) : List (List (Val K)) :=
  (List.range nq).map (fun i => (List.range nr).map (fun j => finalVal E P (explFoot E P (qPts i) (rPts j))))

/-! ### implicit trapezoidal rule -/

/-- first loop (:282-289): Euler predictor, not yet reduced modulo 2π -/
def implInit (E : Evals K) (P : Params K) (q r : K) : K × K :=
  (q - E.drPhi q r / r * multFactor P, r + E.dqPhi q r / r * multFactor P)

/-- clipping (:329-332) -/
def clip (P : Params K) (r : K) : K :=
  if r < P.rMin then P.rMin else if r > P.rMax then P.rMax else r

/-- body of the double loop of one sweep for the node `(q, r)` with current `(endPts_k1_q, endPts_k1_r) = k1`:
    returns the new end point and the two `diff`s (:298-343) -/
def implNode (E : Evals K) (P : Params K) (period half : K) (q r : K) (k1 : K × K) : (K × K) × (K × K) :=
  let mh := multFactor P * (1 / 2 : K)
  let k1q := E.wrap k1.1
  let dk := velAt E P k1q k1.2
  let k2q := E.wrap (q - (E.drPhi q r / r + dk.1) * mh)
  let k2r := clip P (r + (E.dqPhi q r / r + dk.2) * mh)
  let d := |k2q - k1q|
  let d1 := if d > half then period - d else d
  let d2 := |k2r - k1.2|
  ((k2q, k2r), (d1, d2))

/-- `if (diff > norm): norm = diff`, twice -/
def normUpd (norm : K) (d : K × K) : K :=
  let n1 := if d.1 > norm then d.1 else norm
  if d.2 > n1 then d.2 else n1

/-- one pass of the `while` body over all nodes (row-major list): new end points and `norm` -/
def sweep (E : Evals K) (P : Params K) (period half : K) (nodes state : List (K × K)) : List (K × K) × K :=
  let res := (nodes.zip state).map (fun ns => implNode E P period half ns.1.1 ns.1.2 ns.2)
  (res.map Prod.fst, (res.map Prod.snd).foldl normUpd 0)

/-- `norm = tol+1; while (norm > tol): …` — returns the final end points, the number of sweeps and the norms seen.
    `rnd` is applied to the end points carried from one sweep to the next: `rnd = id` is the iteration of the code in exact
    arithmetic (all theorems); the driver uses `round2 80` (nearest-below multiple of 2^-80) so that the rationals stay of
    bounded size — the carried points then differ from the exact iterates by < 2^-80 per sweep, 2^27 times less than
    the rounding of the double-precision code itself. -/
def implLoop (E : Evals K) (P : Params K) (period half tol : K) (rnd : K → K) (nodes : List (K × K)) :
    ℕ → List (K × K) → ℕ → List K → Option (List (K × K) × ℕ × List K)
  | 0, _, _, _ => none
  | fuel+1, state, cnt, norms =>
    let sn := sweep E P period half nodes state
    let st := sn.1.map (fun p => (rnd p.1, rnd p.2))
    if sn.2 > tol then implLoop E P period half tol rnd nodes fuel st (cnt + 1) (norms ++ [sn.2])
    else some (st, cnt + 1, norms ++ [sn.2])

/-- nodes in the order of the loops: `i` (theta) outer, `j` (r) inner -/
def nodeList (qPts rPts : ℕ → K) (nq nr : ℕ) : List (K × K) :=
  (List.range nq).flatMap (fun i => (List.range nr).map (fun j => (qPts i, rPts j)))

/-- `poloidal_advection_step_impl`: the new `f` (row-major), the converged feet, the number of sweeps, the norms -/
def implStep (E : Evals K) (P : Params K) (period half tol : K) (rnd : K → K) (fuel : ℕ) (qPts rPts : ℕ → K)
    (nq nr : ℕ) : Option (List (Val K) × List (K × K) × ℕ × List K) :=
  let nodes := nodeList qPts rPts nq nr
  let init := nodes.map (fun n => let p := implInit E P n.1 n.2; (rnd p.1, rnd p.2))
  (implLoop E P period half tol rnd nodes fuel init 0 []).map
    (fun r => (r.1.map (finalVal E P), r.1, r.2.1, r.2.2))

/-! ### concrete instances used by the driver and by the non-vacuity examples -/

/-- `x % period` for `period > 0` (Python float `%` takes the sign of the divisor) -/
def pmod [FloorRing K] (period x : K) : K := x - period * (⌊x / period⌋ : ℤ)

/-- round down to a multiple of `2^-bits` (driver only, see `implLoop`) -/
def round2 [FloorRing K] (bits : ℕ) (x : K) : K := ((⌊x * 2 ^ bits⌋ : ℤ) : K) / 2 ^ bits

/-- 2-D spline evaluator (0 if a span search fails — never for sorted knots) -/
def spline2D (t1 : ℕ → K) (nk1 deg1 : ℕ) (t2 : ℕ → K) (nk2 deg2 : ℕ) (c : ℕ → ℕ → K)
    (der1 der2 : Bool) (x y : K) : K :=
  (BSpline.evalSpline2D t1 nk1 deg1 t2 nk2 deg2 c x y der1 der2).getD 0

end PygyroVerif.PolAdv
