/-
Model of `LayoutSwapper` (pygyro/model/layout.py:868-1576): construction (handler ordering, choice of the
sub-communicators incl. the ambiguous case :989-1023), `_compatibleLayout` (:1128), `getAxes` (:1555),
buffer size (:1029-1103), and `transpose` with its equal / scatter / gather steps and redirects (:1212-1553),
executed on all ranks at once.  Communicators are modelled as process-axis ids of the largest handler's
topology.  Core Lean only.
-/
import PygyroVerif.Model.Handler

namespace PygyroVerif

structure Swapper where
  groups : List (List (String × List Nat))   -- layouts of every handler (dict order)
  nprocsRaw : List (List Nat)                -- `nprocs` argument, every entry `np.atleast_1d`
  ext : List Nat
deriving Repr

namespace Swapper
open Handler

/-- `len(x) - x.count(1)` -/
def nDistributed (n : List Nat) : Nat := n.length - n.count 1

/-- `self._nDims` (:926) -/
def nDims (S : Swapper) : List Nat := S.nprocsRaw.map (fun x => max (nDistributed x) 1)
def maxDims (S : Swapper) : Nat := (S.nprocsRaw.map List.length).foldl max 0

/-- `sorted(range(n), key=nDims.__getitem__, reverse=True)`: descending, stable -/
def sortOrder (S : Swapper) : List Nat :=
  let nd := S.nDims
  let mx := nd.foldl max 0
  (List.range (mx + 1)).reverse.flatMap (fun k => (List.range nd.length).filter (fun i => nd.getD i 0 = k))

def maxIdx (S : Swapper) : Nat := S.sortOrder.getD 0 0

/-- `self._nprocs[i]`: padded with 1 to `maxDims` (:942-949) -/
def nprocsPadded (S : Swapper) (i : Nat) : List Nat := padTo (S.nprocsRaw.getD i []) S.maxDims 1

/-- the world topology: `Create_cart(self._nprocs[max_idx])` -/
def dims (S : Swapper) : List Nat := S.nprocsPadded S.maxIdx

def ordersOf (S : Swapper) (i : Nat) : List (List Nat) := (S.groups.getD i []).map (·.2)

/-- choice of the communicator for the `i`-th distributed direction (`n` processes) of a smaller handler
    (:991-1016): `avail` = `availableSubcomms` (`none` = already used), `ordersMax`/`ordersIdx` = the dims_orders
    of the largest handler's / this handler's layouts.  `none` = the `assert len(res) > 0` fails. -/
def chooseAxis (avail : List (Option Nat)) (ordersMax ordersIdx : List (List Nat)) (i n : Nat) : Option Nat :=
  if (avail.filter (· = some n)).length = 1 then some (avail.idxOf (some n))
  else
    let poss := (List.range avail.length).filter (fun a => avail.getD a none = some n)
    let res := poss.filterMap (fun axis =>
      let dimInPos := ordersMax.map (fun d => d.getD axis 0)
      let dimToPos := ordersIdx.map (fun d => d.getD i 0)
      let nPoss : Nat := (dimToPos.map (fun d => dimInPos.count d)).foldl (· + ·) 0
      if nPoss > 0 then some (axis, nPoss) else none)
    -- max(res, key=...) : first maximal
    (res.foldl (fun (best : Option (Nat × Nat)) x => match best with
      | none => some x
      | some b => if x.2 > b.2 then some x else some b) none).map (·.1)

/-- one round of the loop `for i, n in enumerate(np.atleast_1d(nprocs[idx]))` (:989-1023) -/
def chooseStep (ordersMax ordersIdx : List (List Nat)) (raw : List Nat)
    (st : Option (List (Option Nat) × List Nat)) (i : Nat) : Option (List (Option Nat) × List Nat) :=
  match st with
  | none => none
  | some (avail, chosen) =>
    match chooseAxis avail ordersMax ordersIdx i (raw.getD i 0) with
    | none => none
    | some axis => some (avail.set axis none, chosen ++ [axis])

/-- choice of the communicators (process axes of the world topology) of handler `idx` (:984-1023) -/
def chooseAxes (S : Swapper) (idx : Nat) : Option (List Nat) :=
  let raw := S.nprocsRaw.getD idx []
  ((List.range raw.length).foldl (chooseStep (S.ordersOf S.maxIdx) (S.ordersOf idx) raw)
    (some (S.dims.map some, []))).map (·.2)

/-- communicators (world process axes) of every handler -/
def commAxes (S : Swapper) (i : Nat) : Option (List Nat) :=
  if i = S.maxIdx then some (List.range S.maxDims) else S.chooseAxes i

/-- nprocs list handed to the `LayoutHandler` of group `i` -/
def handlerNprocs (S : Swapper) (i : Nat) : List Nat :=
  if i = S.maxIdx then S.nprocsPadded i else S.nprocsRaw.getD i []

def handler (S : Swapper) (i : Nat) : Handler :=
  { nprocs := S.handlerNprocs i, ext := S.ext,
    names := (S.groups.getD i []).map (·.1), orders := S.ordersOf i }

/-- topology of handler `i` inside the world -/
def topo (S : Swapper) (i : Nat) : Topo :=
  let axes := (S.commAxes i).getD []
  { nRanks := prodL S.dims,
    coords := fun r => axes.map (fun a => (coordsOf S.dims r).getD a 0),
    partner := fun r a q => rankOf S.dims ((coordsOf S.dims r).set (axes.getD a 0) q) }

/-- all layout names in the order of `self._handlers` / `self._layouts` -/
def allNames (S : Swapper) : List String := S.groups.flatMap (fun g => g.map (·.1))

/-- handler index and index inside the handler of global layout number `k` -/
def locate (S : Swapper) (k : Nat) : Nat × Nat :=
  let rec go (gs : List (List (String × List Nat))) (i k : Nat) : Nat × Nat :=
    match gs with
    | [] => (0, 0)
    | g :: rest => if k < g.length then (i, k) else go rest (i + 1) (k - g.length)
  go S.groups 0 k

def layoutOf (S : Swapper) (k : Nat) : Layout :=
  let (i, j) := S.locate k
  (S.handler i).layoutAt j

/-- `getAxes(layout_gathered, layout_scattered)` (:1555-1576) on handler indices / layouts -/
def getAxes (S : Swapper) (hG hS : Nat) (LG LS : Layout) : Nat × Nat :=
  let cG := (S.commAxes hG).getD []
  let cS := (S.commAxes hS).getD []
  -- remove from the scattered handler's list every communicator of the gathered handler
  let poss := cG.foldl (fun (p : List (Option Nat)) c =>
    let i := p.idxOf (some c)
    if i < p.length then p.set i none else p) (cS.map some)
  let idxS := (List.range poss.length).find? (fun i => (poss.getD i none).isSome) |>.getD 0
  let idxG := LG.ord.idxOf (LS.ord.getD idxS 0)
  (idxG, idxS)

/-- `_compatibleLayout(layout1, layout2)` (:1128-1196) on global layout numbers.  `fixed = false` is the code
    before the `fix:` commit for finding F9 (equal axis counts: only communicator membership was compared). -/
def compatibleLayoutF (fixed : Bool) (S : Swapper) (k1 k2 : Nat) : Bool :=
  let (i1, j1) := S.locate k1
  let (i2, j2) := S.locate k2
  if i1 = i2 then
    Handler.compatible (S.handlerNprocs i1) ((S.ordersOf i1).getD j1 []) ((S.ordersOf i1).getD j2 [])
  else
    let nDim1 := (S.handlerNprocs i1).length
    let nDim2 := (S.handlerNprocs i2).length
    if (if nDim1 > nDim2 then nDim1 - nDim2 else nDim2 - nDim1) > 1 then false
    else if nDim1 = nDim2 then
      let c1 := (S.commAxes i1).getD []
      let c2 := (S.commAxes i2).getD []
      let dims1 := (S.ordersOf i1).getD j1 []
      let dims2 := (S.ordersOf i2).getD j2 []
      c2.all (fun c => c1.contains c) &&
      (!fixed || (List.range c2.length).all (fun j =>
        let c := c2.getD j 0
        decide (S.dims.getD c 1 = 1) || decide (dims1.getD (c1.idxOf c) 0 = dims2.getD j 0)))
    else
      -- handler 1 := the smaller one
      let (a1, b1, a2, b2) := if nDim1 > nDim2 then (i2, j2, i1, j1) else (i1, j1, i2, j2)
      let dims1 := (S.ordersOf a1).getD b1 []
      let dims2 := (S.ordersOf a2).getD b2 []
      let c1 := (S.commAxes a1).getD []
      let c2 := (S.commAxes a2).getD []
      let poss := (List.range c1.length).foldl (fun (p : List (Option Nat)) i =>
        let c := c1.getD i 0
        let j := p.idxOf (some c)
        if j < p.length then (if dims1.getD i 0 = dims2.getD j 0 then p.set j none else p) else p) (c2.map some)
      (poss.filter Option.isSome).length = 1

def compatibleLayout (S : Swapper) (k1 k2 : Nat) : Bool := compatibleLayoutF true S k1 k2

/-- direct connections over all layouts (:1044-1054) -/
def connections (S : Swapper) : List (List Nat) :=
  Handler.connectionsOf S.allNames.length (fun hi lo => S.compatibleLayout hi lo)

def routes (S : Swapper) (order : List Nat) : RouteMap × Bool := routeMap S.allNames S.connections order

/-- `bufferSize` of the swapper on world rank `r` (:1029-1103) -/
def bufferSize (S : Swapper) (r : Nat) : Nat :=
  let nH := S.groups.length
  let init := (List.range nH).foldl (fun acc i => max acc ((S.handler i).bufferSize ((S.topo i).coords r))) 0
  let n := S.allNames.length
  (List.range n).foldl (fun acc n' =>
    (List.range n').foldl (fun acc i =>
      if !S.compatibleLayout n' i then acc else
      let (h1, _) := S.locate n'; let (h2, _) := S.locate i
      if h1 = h2 then acc else
      let l1 := S.layoutOf n'; let l2 := S.layoutOf i
      let n1 := nDistributed (S.handlerNprocs h1); let n2 := nDistributed (S.handlerNprocs h2)
      if n1 = n2 then acc else
      let (idx1, idx2) := if n1 > n2 then (let (g, s) := S.getAxes h2 h1 l2 l1; (s, g)) else S.getAxes h1 h2 l1 l2
      let c1 := (S.topo h1).coords r; let c2 := (S.topo h2).coords r
      let bs1 := prodL ((l1.shape c1).set idx1 (l1.maxShape.getD idx1 0))
      let bs2 := prodL ((l2.shape c2).set idx2 (l2.maxShape.getD idx2 0))
      -- :1101 since the repair of F16 the communicator of the MORE distributed handler is chosen by `n1 < n2`; the earlier
      -- test `blockSize1 > blockSize2` took the wrong handler (IndexError on that rank only) when both blocks are equally
      -- small, i.e. on ranks owning empty blocks
      if n1 < n2 then
        let p := (S.handlerNprocs h2).getD idx2 1
        max acc (bs2 * p)
      else
        let p := (S.handlerNprocs h1).getD idx1 1
        max acc (bs1 * p)) acc) init

section World
variable {α : Type} [Inhabited α]

/-- one direct step between layouts of *different* handlers (`_transpose` :1280-1385 when `z = x`,
    `_transpose_source_intact` :1387-1488 otherwise); reading role `x`, writing role `y`, scratch `z` -/
def crossStep (S : Swapper) (kS kD : Nat) (x y z : Nat) (w : World α) : Except String (World α) := do
  let (hS, _) := S.locate kS; let (hD, _) := S.locate kD
  let LS := S.layoutOf kS; let LD := S.layoutOf kD
  let sN := nDistributed (S.handlerNprocs hS); let dN := nDistributed (S.handlerNprocs hD)
  let n := prodL S.dims
  let tr := LD.ord.map (fun d => LS.ord.idxOf d)
  if dN = sN then
    (List.range n).foldlM (fun (acc : World α) rank => do
      let cS := (S.topo hS).coords rank; let cD := (S.topo hD).coords rank
      let src := acc.get x rank; let dst := acc.get y rank
      let some sv := View.chunk src.size 0 (LS.shape cS) | throw "value-error: source reshape"
      let some dv := View.chunk dst.size 0 (LD.shape cD) | throw "value-error: dest reshape"
      match assignView dst dv src (sv.transpose tr) with
      | none => throw "value-error: could not broadcast (equal)"
      | some d => pure (acc.set y rank d)) w
  else if dN > sN then
    -- scatter: every rank already has what it needs
    let (idxS, idxD) := S.getAxes hS hD LS LD
    (List.range n).foldlM (fun (acc : World α) rank => do
      let cS := (S.topo hS).coords rank; let cD := (S.topo hD).coords rank
      let src := acc.get x rank; let dst := acc.get y rank
      let some sv := View.chunk src.size 0 (LS.shape cS) | throw "value-error: source reshape"
      let some dv := View.chunk dst.size 0 (LD.shape cD) | throw "value-error: dest reshape"
      let myRank := cD.getD idxD 0
      let start := (LD.mpiStartsAt idxD).getD myRank 0
      let len := (LD.mpiLengthsAt idxD).getD myRank 0
      match assignView dst dv src ((sv.slice idxS start (start + len)).transpose tr) with
      | none => throw "value-error: could not broadcast (scatter)"
      | some d => pure (acc.set y rank d)) w
  else do
    -- gather: Allgather of padded blocks, then per-rank unpack
    let (idxD, idxS) := S.getAxes hD hS LD LS
    let p := (S.handlerNprocs hS).getD idxS 1
    let rcvRole := if z = x then y else z           -- Allgather into dest (no buffer) or into buf
    let outRole := if z = x then x else y           -- unpack into source (then copied to dest) or into dest
    -- Allgather
    let w1 ← (List.range n).foldlM (fun (acc : World α) rank => do
      let cS := (S.topo hS).coords rank
      let blockSize := prodL ((LS.shape cS).set idxS (LS.maxShape.getD idxS 0))
      let rcv0 := acc.get rcvRole rank
      if rcv0.size < blockSize * p then throw "value-error: gather buffer too small"
      let rcv := (List.range p).foldl (fun (rb : Array α) q =>
        let other := (S.topo hS).partner rank idxS q
        let sb := w.get x other
        (List.range blockSize).foldl (fun rb j => rb.setIfInBounds (q * blockSize + j) (sb.getD j default)) rb) rcv0
      pure (acc.set rcvRole rank rcv)) w
    -- unpack
    let w2 ← (List.range n).foldlM (fun (acc : World α) rank => do
      let cS := (S.topo hS).coords rank; let cD := (S.topo hD).coords rank
      let blockSize := prodL ((LS.shape cS).set idxS (LS.maxShape.getD idxS 0))
      let rcv := acc.get rcvRole rank
      let out0 := acc.get outRole rank
      let some dv := View.chunk out0.size 0 (LD.shape cD) | throw "value-error: dest reshape"
      let out ← (List.range p).foldlM (fun (o : Array α) i => do
        let len := (LS.mpiLengthsAt idxS).getD i 0
        let st := (LS.mpiStartsAt idxS).getD i 0
        let bshape := (LS.shape cS).set idxS len
        let some bv := View.chunk rcv.size (i * blockSize) bshape | throw "value-error: block reshape"
        match assignView o (dv.slice idxD st (st + len)) rcv (bv.transpose tr) with
        | none => throw "value-error: could not broadcast (gather)"
        | some o' => pure o') out0
      pure (acc.set outRole rank out)) w1
    -- `dest[:] = source[:]` (:1385)
    pure (if z = x then copyWhole n w2 x y else w2)

/-- `LayoutSwapper.transpose` (:1212-1278) with explicit roles; `fuel` bounds the recursion through redirects
    (a redirect only issues direct steps, so depth 2 suffices) -/
def transposeRoles (S : Swapper) (rm : RouteMap) (hrm : Nat → RouteMap) : Nat → Nat → Nat → Bool → Nat → Nat → Nat →
    World α → Except String (World α)
  | 0, _, _, _, _, _, _, _ => throw "recursion"
  | fuel+1, kS, kD, useBuf, x, y, z, w => do
    let (hS, jS) := S.locate kS; let (hD, jD) := S.locate kD
    let n := prodL S.dims
    for rank in List.range n do
      let bs := S.bufferSize rank
      if (w.get x rank).size ≠ bs ∨ (w.get y rank).size ≠ bs then throw "assert: buffer size differs from bufferSize"
    if hS = hD then
      transposeWorldT true (S.topo hS) (S.handler hS) (hrm hS) jS jD useBuf x y z w
    else
      let steps := rm.r kS kD
      let nSteps := steps.length
      if nSteps = 1 then
        crossStep S kS kD x y (if useBuf then z else x) w
      else if nSteps = 0 then throw "index-error: empty route"
      else if !useBuf then do
        let (w', _, _, _) ← steps.foldlM (fun (st : World α × Nat × Nat × Nat) next => do
          let (w, now, fromB, toB) := st
          let w' ← transposeRoles S rm hrm fuel now next false fromB toB fromB w
          pure (w', next, toB, fromB)) (w, kS, x, y)
        pure (if nSteps % 2 = 0 then copyWhole n w' x y else w')
      else do
        let first := steps.getD 0 0
        let (w1, fromB, toB) ← (if nSteps % 2 = 0 then do
            let w1 ← transposeRoles S rm hrm fuel kS first true x z y w
            pure (w1, z, y)
          else do
            let w1 ← transposeRoles S rm hrm fuel kS first true x y z w
            pure (w1, y, z) : Except String (World α × Nat × Nat))
        let (w', _, _, _) ← (steps.drop 1).foldlM (fun (st : World α × Nat × Nat × Nat) next => do
          let (w, now, fromB, toB) := st
          let w' ← transposeRoles S rm hrm fuel now next false fromB toB fromB w
          pure (w', next, toB, fromB)) (w1, first, fromB, toB)
        pure w'

end World
end Swapper
end PygyroVerif
