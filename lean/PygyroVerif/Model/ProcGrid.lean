/-
Model of pygyro/model/process_grid.py (both functions, statement by statement) and of the two facts of
pygyro/initialisation/setups.py + pygyro/model/layout.py that the process grid must serve: the three
standard layouts and `LayoutHandler.compatible`.

  compute_2d_process_grid(npts, size)      = compute_2d_process_grid_from_max(min(npts[0],npts[3]), min(npts[2],npts[3]), size)
  compute_2d_process_grid_from_max(m1, m2, size):
      nprocs1, nprocs2 = 1, size
      while nprocs2 > m2:                                            -- `search1`
          nprocs1 += 1
          while nprocs1 <= min(size, m1) and size % nprocs1 != 0:   -- `inner1`
              nprocs1 += 1
          if nprocs1 > min(size, m1): raise RuntimeError             -- `Outcome.noGrid`
          nprocs2 = size // nprocs1
      ratio = max(m1/nprocs1, m2/nprocs2) / min(m1/nprocs1, m2/nprocs2)
      while True:                                                    -- `search2`
          new_n1 = nprocs1 + 1
          while new_n1 < m1 and size % new_n1 != 0: new_n1 += 1      -- `inner2`
          new_n2 = size // new_n1
          if new_n1 > min(size, m1): break
          if new_n2 <= m2:
              new_ratio = ...
              if new_ratio < ratio: nprocs1, nprocs2, ratio = new_n1, new_n2, new_ratio
              else: break
          (else: nothing changes and the loop repeats for ever — modelled by burning fuel)
      return nprocs1, nprocs2

Loops are structural recursions on a fuel counter; running out of fuel is the distinguished outcome
`outOfFuel`, and Props/C20 `procgrid_terminates` proves it never happens for fuel ≥ m1 + 2 and that the
outcome does not depend on the fuel.

Ratios.  The code computes d1 = m1/n1, d2 = m2/n2, ratio = max(d1,d2)/min(d1,d2) in binary64 and
compares `new_ratio < ratio`.  The model keeps the exact value as a fraction of naturals
  d1/d2 = (m1*n2)/(m2*n1)      ratio = max(m1*n2, m2*n1) / min(m1*n2, m2*n1)
and compares by cross-multiplication.  The float comparison can differ from the exact one only when the two
exact ratios are equal or agree to a few ulp (relative gap ≲ 2⁻⁵¹; the gap of two different ratios is at
least 1/(den·den'), so this needs m·n products beyond 2²⁵); the correspondence check discards and counts
such near-ties.  The validity theorem does not depend on which way a comparison goes, except for the
non-divisor candidate `new_n1 = m1`, where the exact new ratio is strictly worse (Lemmas/ProcGrid
`nondivisor_not_better`), and never better even when `m1` divides the size.

Core Lean only (imported by Drivers/C20.lean).
-/
namespace PygyroVerif.ProcGrid

/-- what a call does: returns `(nprocs1, nprocs2)`, raises `RuntimeError("There is no valid combination …")`,
    or (model artefact) exhausts the loop fuel -/
inductive Outcome where
  | grid (n1 n2 : Nat)
  | noGrid
  | outOfFuel
deriving Repr, DecidableEq

/-- process_grid.py:71-72  `while (nprocs1 <= min(mpi_size, max_proc1) and mpi_size % nprocs1 != 0): nprocs1 += 1` -/
def inner1 (s m1 : Nat) : Nat → Nat → Option Nat
  | 0, _ => none
  | f+1, n1 => if n1 ≤ min s m1 ∧ s % n1 ≠ 0 then inner1 s m1 f (n1+1) else some n1

/-- process_grid.py:67-80, carried variables `(nprocs1, nprocs2)`; `fi` is the fuel handed to the inner loop.
    `grid n1 n2` here means: the first loop is left with these values. -/
def search1 (s m1 m2 fi : Nat) : Nat → Nat → Nat → Outcome
  | 0, _, _ => .outOfFuel
  | f+1, n1, n2 =>
    if n2 > m2 then
      match inner1 s m1 fi (n1+1) with
      | none => .outOfFuel
      | some k =>
        if k > min s m1 then .noGrid
        else search1 s m1 m2 fi f k (s / k)
    else .grid n1 n2

/-- numerator of the exact `max(d1,d2)/min(d1,d2)`, `d1 = m1/n1`, `d2 = m2/n2` (process_grid.py:85-87, 106-109) -/
def ratioNum (m1 m2 n1 n2 : Nat) : Nat := max (m1 * n2) (m2 * n1)
/-- denominator of the same fraction -/
def ratioDen (m1 m2 n1 n2 : Nat) : Nat := min (m1 * n2) (m2 * n1)

/-- process_grid.py:94-95  `while (new_n1 < max_proc1 and mpi_size % new_n1 != 0): new_n1 += 1` -/
def inner2 (s m1 : Nat) : Nat → Nat → Option Nat
  | 0, _ => none
  | f+1, k => if k < m1 ∧ s % k ≠ 0 then inner2 s m1 f (k+1) else some k

/-- process_grid.py:89-118, carried variables `(nprocs1, nprocs2, ratio = rn/rd)` -/
def search2 (s m1 m2 fi : Nat) : Nat → Nat → Nat → Nat → Nat → Outcome
  | 0, _, _, _, _ => .outOfFuel
  | f+1, n1, n2, rn, rd =>
    match inner2 s m1 fi (n1+1) with
    | none => .outOfFuel
    | some k =>
      let k2 := s / k
      if k > min s m1 then .grid n1 n2                      -- line 100-101: break
      else if k2 ≤ m2 then
        let rn' := ratioNum m1 m2 k k2
        let rd' := ratioDen m1 m2 k k2
        if rn' * rd < rn * rd' then                         -- new_ratio < ratio
          search2 s m1 m2 fi f k k2 rn' rd'
        else .grid n1 n2                                    -- line 118: break
      else search2 s m1 m2 fi f n1 n2 rn rd                 -- line 103 false: state unchanged, loop again

/-- the whole of `compute_2d_process_grid_from_max` with fuel `F` for every loop -/
def runWith (F m1 m2 s : Nat) : Outcome :=
  match search1 s m1 m2 F F 1 s with
  | .grid n1 n2 => search2 s m1 m2 F F n1 n2 (ratioNum m1 m2 n1 n2) (ratioDen m1 m2 n1 n2)
  | o => o

/-- `compute_2d_process_grid_from_max(max_proc1, max_proc2, mpi_size)` -/
def procGridFromMax (m1 m2 s : Nat) : Outcome := runWith (m1 + 2) m1 m2 s

/-- process_grid.py:31-32 -/
def maxProc1 (npts : List Nat) : Nat := min (npts.getD 0 0) (npts.getD 3 0)
def maxProc2 (npts : List Nat) : Nat := min (npts.getD 2 0) (npts.getD 3 0)

/-- `compute_2d_process_grid(npts, mpi_size)` -/
def procGrid (npts : List Nat) (s : Nat) : Outcome := procGridFromMax (maxProc1 npts) (maxProc2 npts) s

/-- what the property calls a valid factorisation -/
def Valid (m1 m2 s a b : Nat) : Prop := a * b = s ∧ a ≤ m1 ∧ b ≤ m2

/-! ### setups.py:102-104 / 193-195 and layout.py:844-870 -/

def fluxSurface : List Nat := [0, 3, 1, 2]
def vParallel : List Nat := [0, 2, 1, 3]
def poloidal : List Nat := [3, 2, 1, 0]
/-- in the order of the dictionary in setups.py -/
def standardLayouts : List (List Nat) := [fluxSurface, vParallel, poloidal]

/-- `LayoutHandler.compatible(l1, l2)`: fewer than two process axes `i` with `nprocs[i] > 1` whose dimension
    differs between the two orders -/
def compatible (nprocs o1 o2 : List Nat) : Bool :=
  ((List.range nprocs.length).filter
    (fun i => decide (nprocs.getD i 1 > 1) && decide (o1.getD i 0 ≠ o2.getD i 0))).length < 2

end PygyroVerif.ProcGrid
