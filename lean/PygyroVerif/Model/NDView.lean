/-
numpy views as (offset, shape, strides) over a flat `Array α`, with exactly the operations the layout
code uses: 1-D chunk + reshape (C order), `transpose(order)`, basic slicing `[a:b]` on one axis
(clamped like numpy), and the assignment `dstView[:] = srcView` with numpy's broadcasting of length-1
source axes and its `ValueError` on any other shape mismatch (`none`).
Core Lean only.
-/
namespace PygyroVerif

def prodL (l : List Nat) : Nat := l.foldl (· * ·) 1

/-- row-major (C order) strides of a contiguous array of the given shape -/
def cStrides : List Nat → List Nat
  | [] => []
  | _ :: ns => prodL ns :: cStrides ns

structure View where
  off : Nat
  shape : List Nat
  strides : List Nat
deriving Repr, DecidableEq

namespace View

/-- `buf[off : off+prod shape].reshape(shape)`; `none` when the chunk does not fit (numpy: reshape error) -/
def chunk (bufLen off : Nat) (shape : List Nat) : Option View :=
  if off + prodL shape ≤ bufLen then some { off := off, shape := shape, strides := cStrides shape } else none

def size (v : View) : Nat := prodL v.shape

/-- `v.transpose(order)`: axis k of the result is axis `order[k]` of `v` -/
def transpose (v : View) (order : List Nat) : View :=
  { off := v.off, shape := order.map (fun k => v.shape.getD k 1), strides := order.map (fun k => v.strides.getD k 0) }

/-- `v[..., a:b, ...]` on `axis`, clamped like numpy (`b` beyond the extent is cut, `a ≥ b` gives length 0) -/
def slice (v : View) (axis a b : Nat) : View :=
  let n := v.shape.getD axis 0
  let b' := min b n
  let a' := min a b'
  { off := v.off + a' * v.strides.getD axis 0,
    shape := v.shape.set axis (b' - a'),
    strides := v.strides }

/-- flat address of a multi-index -/
def addr (v : View) (idx : List Nat) : Nat :=
  v.off + ((idx.zip v.strides).foldl (fun acc (p : Nat × Nat) => acc + p.1 * p.2) 0)

end View

/-- broadcast the source strides to the destination shape: equal extents keep the stride, a source
    extent of 1 gets stride 0, anything else is numpy's "could not broadcast" error -/
def broadcastStrides : List Nat → List Nat → List Nat → Option (List Nat)
  | [], [], [] => some []
  | d :: ds, s :: ss, st :: sts =>
    match broadcastStrides ds ss sts with
    | none => none
    | some r => if s = d then some (st :: r) else if s = 1 then some (0 :: r) else none
  | _, _, _ => none

/-- the copy loop: for every index of the box, `dst[od + idx·sd] := src[os + idx·ss]` -/
def copyBox {α} [Inhabited α] : List Nat → List Nat → List Nat → Nat → Nat → Array α → Array α → Array α
  | [], _, _, od, os, dst, src => dst.setIfInBounds od (src.getD os default)
  | n :: ns, d :: ds, s :: ss, od, os, dst, src =>
    (List.range n).foldl (fun acc i => copyBox ns ds ss (od + i * d) (os + i * s) acc src) dst
  | _ :: _, _, _, _, _, dst, _ => dst

/-- `dst[dv] = src[sv]` (numpy assignment between views of two different arrays) -/
def assignView {α} [Inhabited α] (dst : Array α) (dv : View) (src : Array α) (sv : View) : Option (Array α) :=
  if dv.shape.length ≠ sv.shape.length then none else
  match broadcastStrides dv.shape sv.shape sv.strides with
  | none => none
  | some ss => some (copyBox dv.shape dv.strides ss dv.off sv.off dst src)

/-- `dst[:n] = src[:n]` on flat arrays -/
def copyPrefix {α} [Inhabited α] (dst src : Array α) (n : Nat) : Array α :=
  (List.range n).foldl (fun acc i => acc.setIfInBounds i (src.getD i default)) dst

end PygyroVerif
