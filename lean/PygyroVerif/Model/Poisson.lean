/-
Model of `DiffEqSolver` / `QuasiNeutralitySolver`, pygyro/poisson/poisson_solver.py (properties C14, C15).

  mode numbers            :162, :217     `mVal`, `m2`                 (np.fft.fftfreq(nTheta, 1/nTheta), squared in place)
  refusal                 :187-194       `poorlyDefined`, `refuses` (`refusesOld`: before F33), `funcIsNull` (:315-323)
  boundary slices         :190-215       `startRange`, `endRange`, `exclEnd`, `nUnknowns`, `coeffRange`, `stiffRange`
  diagonal storage        :222-237       `aliasIdx` (the `extend(...[-2::-1])` reference sharing), `symRow`, `fullRow`
  assembly loops          :239-274       `overlap`, `quadSum`, `massTerm` … `dPhiPsiLo`, `assemble`
  sparse.diags + slicing  :280-298       `diagsEntry`, `sliceSq`, `sliceRows`, `stiffnessMatrix`
  per-mode system         :361-372,:406-431  `modeMatrix`, `modeRhs`, `coeffsAfter`, `evalAt`
  function right-hand side:433-452       `rhoVec`, `modeRhsFunc`
  QN: m = 0 selection     :573-600,:623-638  `Electrons`, `qnStiffness0`, `qnModeMatrix`, `qnConfig`

Third-party numerics are parameters with a recorded contract:
  * `leggauss(n)`: points/weights enter through `Quad` (`w`, the per-cell half-widths `mult c` and the evaluation
    points `x c q`; `evalPt` is the affine image the code computes, `startPoints[c] + points[q]*multFactor[c]`;
    `evalPtOld` / `Quad.withUniformMult` keep the behaviour before fix F17, one `multFactor` for all cells);
  * coefficient functions (`ddrFactor` … `rhoFactor`; for the QN solver they contain `exp`/`tanh` profiles) enter
    as tables of their values at the evaluation points (`Coefs`);
  * B-spline values `P j c q = B_j(x c q)`, `dP j c q = B_j'(x c q)` (`unitSplineVal` ties them to the model of the
    evaluation kernels, Model/BSpline.lean);
  * `spsolve(A, b)` is "any `x` with `A x = b`" (`IsSol`); `compute_interpolant` is "any `c` with `M c = u`";
  * `scipy.sparse.diags(diagonals, offsets, shape)`: entry `(r, c)` is `diagonals[c - r + d][min r c]`.
-/
import PygyroVerif.Model.BSpline

namespace PygyroVerif.Poisson

/-! ### mode numbers and boundary slices (integers) -/

/-- `np.fft.fftfreq(N, 1/N)[k]`: `results[:(N-1)//2+1] = arange(0, (N-1)//2+1)`, `results[(N-1)//2+1:] = arange(-(N//2), 0)` -/
def mVal (N k : ℕ) : ℤ :=
  if k < (N - 1) / 2 + 1 then (k : ℤ) else -((N / 2 : ℕ) : ℤ) + ((k - ((N - 1) / 2 + 1) : ℕ) : ℤ)

/-- `self._mVals *= self._mVals` -/
def m2Int (N k : ℕ) : ℤ := mVal N k * mVal N k

/-- constructor arguments that decide the boundary treatment -/
structure BCConfig where
  nb : ℕ            -- `rspline.nbasis`
  N : ℕ             -- `nTheta`
  lNeu : List ℤ     -- `lNeumannIdx` (mode *numbers*)
  uNeu : List ℤ     -- `uNeumannIdx`

/-- `start_range` (:190-195) -/
def startRange (c : BCConfig) : ℕ := if c.lNeu.length = 0 then 1 else 0
/-- `end_range` (:196-203) -/
def endRange (c : BCConfig) : ℕ := if c.uNeu.length = 0 then c.nb - 1 else c.nb
/-- `excluded_end_pts` -/
def exclEnd (c : BCConfig) : ℕ := if c.uNeu.length = 0 then 1 else 0
/-- `self._nUnknowns = end_range - start_range` -/
def nUnknowns (c : BCConfig) : ℕ := endRange c - startRange c

/-- `i in lNeumannIdx` for `i = self._mVals[I]` (before squaring) -/
def lNeumann (c : BCConfig) (I : ℕ) : Bool := decide (mVal c.N I ∈ c.lNeu)
def uNeumann (c : BCConfig) (I : ℕ) : Bool := decide (mVal c.N I ∈ c.uNeu)

/-- `self._coeff_range[I] = slice(0 if m in lNeumannIdx else 1, nbasis - (0 if m in uNeumannIdx else 1))` -/
def coeffRange (c : BCConfig) (I : ℕ) : ℕ × ℕ :=
  ((if lNeumann c I then 0 else 1), c.nb - (if uNeumann c I then 0 else 1))

/-- `self._stiffness_range[I] = slice(0 if m in lNeumannIdx else (1-start_range),
                                       nUnknowns - (0 if m in uNeumannIdx else (1-excluded_end_pts)))` -/
def stiffRange (c : BCConfig) (I : ℕ) : ℕ × ℕ :=
  ((if lNeumann c I then 0 else 1 - startRange c),
   nUnknowns c - (if uNeumann c I then 0 else 1 - exclEnd c))

/-- `poorlyDefined = [b for b in lNeumannIdx if b in uNeumannIdx and self.funcIsNull(lambda r: rFactor(r)-b*b*ddThetaFactor(r))]`;
    `null b` stands for that test for the number `b`: the reaction term of mode `b`, `C − b² D`, vanishes at every quadrature
    point (finding F33: before, the test was `funcIsNull(rFactor)`, the same for every `b`) -/
def poorlyDefined (c : BCConfig) (null : ℤ → Bool) : List ℤ := c.lNeu.filter (fun b => decide (b ∈ c.uNeu) && null b)

/-- `if len(poorlyDefined) != 0: raise ValueError` -/
def refuses (c : BCConfig) (null : ℤ → Bool) : Bool := (poorlyDefined c null).length != 0

/-- the test before the repair F33: `if len([b for b in lNeumannIdx if b in uNeumannIdx]) != 0 and self.funcIsNull(rFactor)` -/
def refusesOld (c : BCConfig) (rFactorNull : Bool) : Bool :=
  (c.lNeu.filter (fun b => decide (b ∈ c.uNeu))).length != 0 && rFactorNull

/-! ### assembly (numerical, over a field) -/

variable {K : Type*} [Field K]

/-- Gauss–Legendre data on the cells: `weights`, `multFactor[c]` (half-width of cell `c`; `weights2d[c][q] =
    weights[q]*multFactor[c]`), `evalPts[c][q]` -/
structure Quad (K : Type*) where
  ncells : ℕ
  nq : ℕ
  w : ℕ → K
  mult : ℕ → K
  x : ℕ → ℕ → K

/-- `startPoints[c] + points[q]*multFactor[c]` with `multFactor = (breaks[1:]-breaks[:-1])*0.5`,
    `startPoints = (breaks[1:]+breaks[:-1])*0.5` (after fix F17) -/
def evalPt (breaks pts : ℕ → K) (c q : ℕ) : K :=
  (breaks (c + 1) + breaks c) * (1 / 2) + pts q * ((breaks (c + 1) - breaks c) * (1 / 2))

/-- **behaviour before fix F17**: `startPoints[c] + points[q]*multFactor` with the single
    `multFactor = (breaks[1]-breaks[0])*0.5` of the first cell used for every cell -/
def evalPtOld (breaks pts : ℕ → K) (c q : ℕ) : K :=
  (breaks (c + 1) + breaks c) * (1 / 2) + pts q * ((breaks 1 - breaks 0) * (1 / 2))

/-- **behaviour before fix F17**: the rule with the half-width of the first cell for every cell and the old
    evaluation points -/
def Quad.withUniformMult (Q : Quad K) (breaks pts : ℕ → K) : Quad K :=
  { Q with mult := fun _ => (breaks 1 - breaks 0) * (1 / 2), x := evalPtOld breaks pts }

/-- values of the five coefficient functions at the evaluation points -/
structure Coefs (K : Type*) where
  A : ℕ → ℕ → K   -- ddrFactor
  B : ℕ → ℕ → K   -- drFactor
  C : ℕ → ℕ → K   -- rFactor
  D : ℕ → ℕ → K   -- ddThetaFactor
  E : ℕ → ℕ → K   -- rhoFactor

/-- `funcIsNull(f)`: `(f(self._evalPts) == 0).all()` -/
def funcIsNull [DecidableEq K] (f : ℕ → ℕ → K) (ncells nq : ℕ) : Bool :=
  (List.range ncells).all (fun c => (List.range nq).all (fun q => decide (f c q = 0)))

/-- cells where splines `i` and `s` overlap (:242-250): `start = max(start_i, start_j)`, `end = min(end_i, end_j)` -/
def overlap (d ncells i s : ℕ) : ℕ × ℕ :=
  (max (max 0 (i - d)) (max 0 (s - d)), min (min ncells (i + 1)) (min ncells (s + 1)))

/-- `np.sum(weights2d[start:end].flatten() * g(evalPts[start:end].flatten()))`, `weights2d[c][q] = weights[q]*multFactor[c]` -/
def quadSum (Q : Quad K) (se : ℕ × ℕ) (g : ℕ → ℕ → K) : K :=
  ((List.range' se.1 (se.2 - se.1)).flatMap
    (fun c => (List.range Q.nq).map (fun q => Q.w q * Q.mult c * g c q))).sum

section terms
variable (d : ℕ) (Q : Quad K) (co : Coefs K) (P dP : ℕ → ℕ → ℕ → K)

/-- `massCoeffs[j][i]` (:257) with `s = s_j` -/
def massTerm (i s : ℕ) : K :=
  quadSum Q (overlap d Q.ncells i s) (fun c q => co.E c q * P s c q * P i c q * Q.x c q)
/-- `k2PhiPsiCoeffs[j][i]` (:259) -/
def k2Term (i s : ℕ) : K :=
  quadSum Q (overlap d Q.ncells i s) (fun c q => co.D c q * P s c q * P i c q * Q.x c q)
/-- `PhiPsiCoeffs[j][i]` (:261) -/
def phiPsiTerm (i s : ℕ) : K :=
  quadSum Q (overlap d Q.ncells i s) (fun c q => co.C c q * P s c q * P i c q * Q.x c q)
/-- `dPhidPsi` (:263) -/
def dPhidPsi0 (i s : ℕ) : K :=
  quadSum Q (overlap d Q.ncells i s) (fun c q => -(co.A c q) * dP s c q * dP i c q * Q.x c q)
/-- `dPhidPsiCoeffs[j][i]` (:265-267) -/
def dPhidPsiUp (i s : ℕ) : K :=
  dPhidPsi0 d Q co dP i s + quadSum Q (overlap d Q.ncells i s) (fun c q => -(co.A c q) * dP s c q * P i c q)
/-- `dPhidPsiCoeffs[degree*2-j][i]` (:268-270) -/
def dPhidPsiLo (i s : ℕ) : K :=
  dPhidPsi0 d Q co dP i s + quadSum Q (overlap d Q.ncells i s) (fun c q => -(co.A c q) * P s c q * dP i c q)
/-- `dPhiPsiCoeffs[j][i]` (:271) -/
def dPhiPsiUp (i s : ℕ) : K :=
  quadSum Q (overlap d Q.ncells i s) (fun c q => co.B c q * dP s c q * P i c q * Q.x c q)
/-- `dPhiPsiCoeffs[degree*2-j][i]` (:273) -/
def dPhiPsiLo (i s : ℕ) : K :=
  quadSum Q (overlap d Q.ncells i s) (fun c q => co.B c q * P s c q * dP i c q * Q.x c q)

end terms

/-- `massCoeffs.extend(massCoeffs[-2::-1])`: list entry `li` (0..2d) *is* the array created at position
    `li` (if `li ≤ d`) resp. `2d - li` (the same object, not a copy) -/
def aliasIdx (d li : ℕ) : ℕ := if li ≤ d then li else 2 * d - li

/-- the number of iterations of `for j, s_j in enumerate(range(i, min(i+degree+1, nbasis)), degree)` -/
def innerCount (d nb i : ℕ) : ℕ := min (i + d + 1) nb - i

/-- Inner loop of row `i` on a symmetric (reference-shared) storage: position `i` of the `d+1` physical arrays
    (a list indexed by the array number) after the statements `coeffs[j][i] = term(i, s_j)`, `j = d + k`,
    `s_j = i + k`.  Arrays start at zero (`np.zeros`); an assignment is `List.set`. -/
def symRow (d nb : ℕ) (term : ℕ → ℕ → K) (i : ℕ) : List K :=
  (List.range (innerCount d nb i)).foldl (fun st k => st.set (aliasIdx d (d + k)) (term i (i + k)))
    (List.replicate (d + 1) 0)

/-- `coeffs[li][i]` of a reference-shared storage after the loops -/
def symDiag (d nb : ℕ) (term : ℕ → ℕ → K) (li i : ℕ) : K := (symRow d nb term i).getD (aliasIdx d li) 0

/-- Inner loop of row `i` on a full storage (`2d+1` independent arrays): the two statements
    `coeffs[j][i] = up(i, s_j)` and then `coeffs[degree*2-j][i] = lo(i, s_j)` (for `j = d` the second overwrites
    the first). -/
def fullRow (d nb : ℕ) (up lo : ℕ → ℕ → K) (i : ℕ) : List K :=
  (List.range (innerCount d nb i)).foldl
    (fun st k => (st.set (d + k) (up i (i + k))).set (d * 2 - (d + k)) (lo i (i + k)))
    (List.replicate (2 * d + 1) 0)

def fullDiag (d nb : ℕ) (up lo : ℕ → ℕ → K) (li i : ℕ) : K := (fullRow d nb up lo i).getD li 0

/-- `sparse.diags(coeffs, range(-d, d+1), (nb, nb))[r, c]` -/
def diagsEntry (d : ℕ) (diag : ℕ → ℕ → K) (r c : ℕ) : K :=
  if c + d < r ∨ r + d < c then 0 else diag (c + d - r) (min r c)

/-- the five `nb × nb` matrices before slicing -/
structure Assembled (K : Type*) where
  mass : ℕ → ℕ → K
  k2 : ℕ → ℕ → K
  phiPsi : ℕ → ℕ → K
  dPhidPsi : ℕ → ℕ → K
  dPhiPsi : ℕ → ℕ → K

def assemble (d nb : ℕ) (Q : Quad K) (co : Coefs K) (P dP : ℕ → ℕ → ℕ → K) : Assembled K where
  mass := diagsEntry d (symDiag d nb (massTerm d Q co P))
  k2 := diagsEntry d (symDiag d nb (k2Term d Q co P))
  phiPsi := diagsEntry d (symDiag d nb (phiPsiTerm d Q co P))
  dPhidPsi := diagsEntry d (fullDiag d nb (dPhidPsiUp d Q co P dP) (dPhidPsiLo d Q co P dP))
  dPhiPsi := diagsEntry d (fullDiag d nb (dPhiPsiUp d Q co P dP) (dPhiPsiLo d Q co P dP))

/-- `M[range_slice, range_slice]` with `range_slice = slice(start_range, end_range)`: entry `(a, b)` -/
def sliceSq (M : ℕ → ℕ → K) (s : ℕ) : ℕ → ℕ → K := fun a b => M (s + a) (s + b)
/-- `M[range_slice, :]` -/
def sliceRows (M : ℕ → ℕ → K) (s : ℕ) : ℕ → ℕ → K := fun a b => M (s + a) b

/-- `self._stiffnessMatrix = self._dPhidPsi + self._dPhiPsi + self._PhiPsi` (all `[range_slice, range_slice]`) -/
def stiffnessMatrix (A : Assembled K) (s : ℕ) : ℕ → ℕ → K :=
  fun a b => sliceSq A.dPhidPsi s a b + sliceSq A.dPhiPsi s a b + sliceSq A.phiPsi s a b

/-- squared mode number as a field element -/
def m2 (N I : ℕ) : K := ((m2Int N I : ℤ) : K)

/-- `(self._stiffnessMatrix - self._mVals[I]*self._k2PhiPsi)[self._stiffness_range[I], self._stiffness_range[I]]` -/
def modeMatrix (A : Assembled K) (c : BCConfig) (I : ℕ) : ℕ → ℕ → K :=
  fun a b => sliceSq (fun a b => stiffnessMatrix A (startRange c) a b - m2 c.N I * sliceSq A.k2 (startRange c) a b)
    (stiffRange c I).1 a b

/-- size of the mode-`I` system -/
def modeSize (c : BCConfig) (I : ℕ) : ℕ := (stiffRange c I).2 - (stiffRange c I).1

/-- `massMat.dot(self._spline.coeffs)` with `massMat = self._massMatrix[self._stiffness_range[I], :]` -/
def modeRhs (A : Assembled K) (c : BCConfig) (I : ℕ) (rhoCoeffs : ℕ → K) : ℕ → K :=
  fun a => ((List.range c.nb).map (fun j => sliceRows A.mass (startRange c) ((stiffRange c I).1 + a) j * rhoCoeffs j)).sum

/-- `rhoVec[j]` of `_solveModeFunc` (:441-446) **as repaired** (see notes/patch_C14_funcrhs_rhofactor.diff):
    quadrature over *all* cells of `E · B_j · r · rho(r)`, so that both entry points solve `… = E rho` -/
def rhoVec (Q : Quad K) (co : Coefs K) (P : ℕ → ℕ → ℕ → K) (rhoAt : ℕ → ℕ → K) (j : ℕ) : K :=
  quadSum Q (0, Q.ncells) (fun c q => P j c q * Q.x c q * rhoAt c q * co.E c q)

/-- `rhoVec[j]` as the unrepaired code computes it: `rhoFactor` is ignored for function right-hand sides
    (kept under a separate name for the negative witness and for classifying the known finding) -/
def rhoVecNoE (Q : Quad K) (P : ℕ → ℕ → ℕ → K) (rhoAt : ℕ → ℕ → K) (j : ℕ) : K :=
  quadSum Q (0, Q.ncells) (fun c q => P j c q * Q.x c q * rhoAt c q)

/-- `rhoVec[self._coeff_range[I]]` -/
def modeRhsFunc (vec : ℕ → K) (c : BCConfig) (I : ℕ) : ℕ → K :=
  fun a => vec ((coeffRange c I).1 + a)

/-- `(A x)_a` for an `n × n` system -/
def matVec (n : ℕ) (A : ℕ → ℕ → K) (x : ℕ → K) (a : ℕ) : K :=
  ((List.range n).map (fun j => A a j * x j)).sum

/-- contract of `spsolve(A, b)` -/
def IsSol (n : ℕ) (A : ℕ → ℕ → K) (b x : ℕ → K) : Prop := ∀ a, a < n → matVec n A x a = b a

/-- the shared buffer `self._coeffs` after `self._coeffs[0] = 0; self._coeffs[-1] = 0` (per mode) and
    `coeffs[:] = x` with `coeffs = self._coeffs[self._coeff_range[I]]` (a view), starting from any content `buf` -/
def coeffsAfter (buf : ℕ → K) (nb : ℕ) (cr : ℕ × ℕ) (x : ℕ → K) : ℕ → K :=
  fun p => if cr.1 ≤ p ∧ p < cr.2 then x (p - cr.1) else if p = 0 ∨ p = nb - 1 then 0 else buf p

/-- `eval_vector(phi.getCoordVals(2), …)`: value at radial node `i` of the spline with coefficients `cf`;
    `V i j = B_j(r_i)` -/
def evalAt (nb : ℕ) (V : ℕ → ℕ → K) (cf : ℕ → K) (i : ℕ) : K :=
  ((List.range nb).map (fun j => cf j * V i j)).sum

/-- value (`der = false`) or derivative of the basis spline `self._rspline[j]` (a `Spline1D` with the single
    coefficient `coeffs[j] = 1.0`) at `x`, through the evaluation kernel of Model/BSpline.lean -/
def unitSplineVal [LinearOrder K] (t : ℕ → K) (nk d j : ℕ) (x : K) (der : Bool) : Option K :=
  BSpline.evalSpline1D t nk d (fun m => if m = j then 1 else 0) x der

/-! ### quasi-neutrality solver -/

/-- `adiabaticElectrons` / `chi` constructor arguments -/
inductive Electrons where
  | kinetic
  | adiabatic (chi : ℤ)

/-- `QuasiNeutralitySolver.__init__` always passes `lNeumannIdx=[0]` and no `uNeumannIdx` -/
def qnConfig (nb N : ℕ) : BCConfig := { nb := nb, N := N, lNeu := [0], uNeu := [] }

/-- `self._stiffness0` (:581, :595-600); `none` = `ValueError("The argument chi must be either 0 or 1")` -/
def qnStiffness0 (e : Electrons) (A : Assembled K) (s : ℕ) : Option (ℕ → ℕ → K) :=
  match e with
  | .kinetic => some (stiffnessMatrix A s)
  | .adiabatic chi =>
    if chi = 0 then some (stiffnessMatrix A s)
    else if chi = 1 then some (fun a b => sliceSq A.dPhidPsi s a b + sliceSq A.dPhiPsi s a b)
    else none

/-- the matrix handed to `_solveMode` by `QuasiNeutralitySolver.solveEquation` (:626-630): for `m² = 0` the
    *unsliced* `_stiffness0`, else the sliced `stiffness - m² k2` -/
def qnModeMatrix (stiff0 : ℕ → ℕ → K) (A : Assembled K) (c : BCConfig) (I : ℕ) : ℕ → ℕ → K :=
  if m2Int c.N I = 0 then stiff0 else modeMatrix A c I

end PygyroVerif.Poisson
