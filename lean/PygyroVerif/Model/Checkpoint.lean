/-
Model of checkpointing and restart (C18).  Core Lean only (imported by the driver and by the generated time loop).

  1. `Grid.writeH5Dataset` / `Grid.loadFromFile` / `setupFromFile`   (grid.py:202-237, setups.py:202-240):
     an HDF5 dataset is an array store; every process writes / reads the hyperslab `starts:ends` of its layout.
  2. file names `"{folder}/{name}_{time:06}.h5"`, `max(glob(...), key=<parsed time>)` (since fix F10; before: plain `max`),
     `int(name.split('_')[-1].split('.')[0])`
     (grid.py:206, :222-225, setups.py:202-209).
  3. the driver's time loop (fullSimulation.py): a small statement language; the *script* itself is generated from the
     source by harness/translate_driver.py into PygyroVerif/Generated/TimeLoop.lean; here are the two interpreters
     (counters + outputs, and symbolic data flow) that give it a meaning.
  4. `get_constants` (constants.py:121-156): dependency-ordered evaluation of a parameter file.
-/
import PygyroVerif.Model.Blocks

namespace PygyroVerif.Ckpt

/-! ## 1. the array store -/

/-- is the index inside the block given per axis as (start, length) -/
def inB : List (Nat × Nat) → List Nat → Bool
  | [], [] => true
  | (s, n) :: bs, x :: xs => decide (s ≤ x ∧ x < s + n) && inB bs xs
  | _, _ => false

/-- contents of the dataset: `none` = never written (whatever `create_dataset` leaves there) -/
abbrev Store (α : Type) := List Nat → Option α

def subIdx (x starts : List Nat) : List Nat := List.zipWith (· - ·) x starts
def addIdx (starts i : List Nat) : List Nat := List.zipWith (· + ·) starts i

/-- `dset[slices] = self._f[:]` with `slices = starts:ends`: local element `i` goes to `starts + i` -/
def writeBlock {α : Type} (st : Store α) (blk : List (Nat × Nat)) (loc : List Nat → α) : Store α :=
  fun x => if inB blk x then some (loc (subIdx x (blk.map (·.1)))) else st x

/-- `self._f[:] = dataset[slices]`: local element `i` comes from `starts + i` -/
def readBlock {α : Type} (st : Store α) (blk : List (Nat × Nat)) (i : List Nat) : Option α :=
  st (addIdx (blk.map (·.1)) i)

/-- the block of the process with coordinates `c`; per axis (extent, process count) of the balanced split -/
def blockOf : List (Nat × Nat) → List Nat → List (Nat × Nat)
  | [], _ => []
  | (n, p) :: ds, c => (blockStart n p (c.headD 0), blockLen n p (c.headD 0)) :: blockOf ds c.tail

/-- all process coordinates -/
def coords : List Nat → List (List Nat)
  | [] => [[]]
  | p :: ps => (List.range p).flatMap fun k => (coords ps).map (k :: ·)

/-- the local array of a process that holds its block of the global array `G` (indexed in the stored axis order) -/
def localOf {α : Type} (G : List Nat → α) (blk : List (Nat × Nat)) : List Nat → α :=
  fun i => G (addIdx (blk.map (·.1)) i)

/-- all processes of the writing run write their hyperslab, in the order `order` (any interleaving) -/
def writeAll {α : Type} (G : List Nat → α) (dims : List (Nat × Nat)) (order : List (List Nat)) (st0 : Store α) : Store α :=
  order.foldl (fun st c => writeBlock st (blockOf dims c) (localOf G (blockOf dims c))) st0

/-- is the local index inside the local shape -/
def inShape (blk : List (Nat × Nat)) (i : List Nat) : Bool := inB (blk.map (fun b => (0, b.2))) i

/-- `setupFromFile`: the layout whose `dims_order` equals the stored attribute (the loop keeps the *last* match) -/
def findLayout (table : List (String × List Nat)) (order : List Nat) : Option String :=
  table.foldl (fun acc e => if e.2 = order then some e.1 else acc) none

/-! ## 2. file names -/

/-- the `w` least significant decimal digits of `t`, most significant first -/
def padDigits : Nat → Nat → List Nat
  | 0, _ => []
  | w + 1, t => (t / 10 ^ w % 10) :: padDigits w t

/-- number of decimal digits of `t` (at least one) -/
def numWidthAux : Nat → Nat → Nat
  | 0, _ => 1
  | fuel + 1, t => if t < 10 then 1 else 1 + numWidthAux fuel (t / 10)
def numWidth (t : Nat) : Nat := numWidthAux t t

/-- `"{:06}".format(t)` as code points: zero padded to width 6, never truncated -/
def fmt06 (t : Nat) : List Nat := (padDigits (max 6 (numWidth t)) t).map (· + 48)

def codes (s : String) : List Nat := s.toList.map Char.toNat
def uncodes (l : List Nat) : String := String.ofList (l.map Char.ofNat)

/-- `"{0}/{1}_{2:06}.h5".format(foldername, nameConvention, time)` -/
def fileName (folder conv : List Nat) (t : Nat) : List Nat :=
  folder ++ [47] ++ conv ++ [95] ++ fmt06 t ++ [46, 104, 53]        -- '/', '_', ".h5"

/-- the name convention of the distribution function's checkpoints, `"grid"` -/
def gridConv : List Nat := [103, 114, 105, 100]
/-- `"phi"` -/
def phiConv : List Nat := [112, 104, 105]

/-- **behaviour before fix F10** (kept as the description of the old code, no longer used by the restart):
Python's `max(list_of_files)` of a non-empty list of strings: lexicographic by code point; the first maximal element is
kept.  Equals the file of the largest time only while every time has at most six digits
(`C18.padded_lex_order_fails_beyond_six_digits`, `C18.latestLex_wrong_beyond_six_digits`). -/
def latestLex : List (List Nat) → Option (List Nat)
  | [] => none
  | x :: xs => some (xs.foldl (fun m y => if m < y then y else m) x)

/-- `s.split(sep)[-1]`: what follows the last separator (the whole string if there is none) -/
def lastField (sep : Nat) : List Nat → List Nat
  | [] => []
  | x :: xs => if sep ∈ xs then lastField sep xs else (if x = sep then xs else x :: xs)

/-- `s.split(sep)[0]`: what precedes the first separator -/
def firstField (sep : Nat) (l : List Nat) : List Nat := l.takeWhile (· ≠ sep)

/-- `int(s)` for a string of ASCII digits (`none`: `int` would raise or the string has other characters) -/
def parseNat (l : List Nat) : Option Nat :=
  if l = [] then none
  else l.foldl (fun acc ch => match acc with
    | none => none
    | some a => if 48 ≤ ch ∧ ch ≤ 57 then some (a * 10 + (ch - 48)) else none) (some 0)

/-- `t = int(filename.split('_')[-1].split('.')[0])` (setups.py:205) -/
def parseTime (filename : List Nat) : Option Nat := parseNat (firstField 46 (lastField 95 filename))

/-- one step of Python's `max(iterable, key=…)`: the key of the next element is computed (`none`: `int` raises, and so
does the whole `max`); the element kept so far is replaced only if the new key is *strictly* larger -/
def keyStep (acc : Option (List Nat × Nat)) (y : List Nat) : Option (List Nat × Nat) :=
  match acc, parseTime y with
  | some (m, tm), some ty => if tm < ty then some (y, ty) else some (m, tm)
  | _, _ => none

/-- `max(list_of_files, key=lambda f: int(f.split('_')[-1].split('.')[0]))` together with the key of the result -/
def latestWithTime : List (List Nat) → Option (List Nat × Nat)
  | [] => none
  | x :: xs => xs.foldl keyStep ((parseTime x).map (fun tx => (x, tx)))

/-- **the repaired selection (fix F10)**, grid.py `loadFromFile` and setups.py `setupFromFile`:
`max(list_of_files, key=lambda f: int(f.split('_')[-1].split('.')[0]))` = the *first* file, in list order, whose parsed
time is maximal.  `none` stands for an exception: `max` of an empty list raises ValueError (`setupFromFile` tests
`len(list_of_files) > 0` first, `loadFromFile` does not), and if the time of *any* listed name cannot be parsed
`int(…)` raises ValueError inside `max` whatever the other names are — so the whole selection is `none` then. -/
def latestByTime (files : List (List Nat)) : Option (List Nat) := (latestWithTime files).map (·.1)

/-- `setupFromFile` without `timepoint`: the file chosen (`latestByTime`) and the time resumed from
(`t = int(filename.split('_')[-1].split('.')[0])`, parsed again from the chosen name as the code does) -/
def restartChoice (files : List (List Nat)) : Option (List Nat × Nat) :=
  match latestByTime files with
  | none => none
  | some f => (parseTime f).map (fun t => (f, t))

/-! ## 3. the driver's time loop -/

/-- integer variables of the driver that matter for the bookkeeping -/
inductive Var | t | ti | tN | nLoops | startPrint | saveStep | saveStepCut | tEnd | dt
deriving DecidableEq, Repr

/-- integer expressions (Python semantics: `//` floors, `%` has the sign of the divisor) -/
inductive Expr
  | var (v : Var)
  | lit (n : Int)
  | add (a b : Expr)
  | sub (a b : Expr)
  | mul (a b : Expr)
  | fdiv (a b : Expr)
  | fmod (a b : Expr)
  | min (a b : Expr)
  | max (a b : Expr)
deriving DecidableEq, Repr

inductive Cond
  | lt (a b : Expr)
  | eq (a b : Expr)
  | ne (a b : Expr)
  | loadable
  | notLoadable
  | timeForLoop
  | and (a b : Cond)
deriving DecidableEq, Repr

/-- the objects of the simulation the loop works on -/
inductive Obj | distribFunc | phi | rho
deriving DecidableEq, Repr

/-- layout names (`poloidal` exists for the distribution function and for the potential) -/
inductive Lay | flux_surface | v_parallel | poloidal | v_parallel_2d | mode_solve | v_parallel_1d
deriving DecidableEq, Repr

inductive Stp | halfStep | fullStep
deriving DecidableEq, Repr

/-- the calls of the driver that touch the simulation state or produce output.  The translator resolves the receiver
(`fluxAdv`, `vParAdv`, …) through the constructor it was built with, so a renamed variable does not matter but a call of a
different operator does. -/
inductive Call
  | setLayout (g : Obj) (l : Lay)                 -- g.setLayout('l')
  | saveGridValues (g : Obj)                      -- g.saveGridValues()
  | restoreGridValues (g : Obj)                   -- g.restoreGridValues()
  | fluxStep (g : Obj)                            -- FluxSurfaceAdvection.gridStep(g)
  | vParStep (g p : Obj) (d : Stp)                -- VParallelAdvection.gridStep(g, p, parGrad, parGradVals, d)
  | vParStepKeep (g : Obj) (d : Stp)              -- VParallelAdvection.gridStepKeepGradient(g, parGradVals, d)
  | polStep (g p : Obj) (d : Stp)                 -- PoloidalAdvection.gridStep(g, p, d)
  | perturbedRho (g r : Obj)                      -- DensityFinder.getPerturbedRho(g, r)
  | getModes (r : Obj)                            -- QuasiNeutralitySolver.getModes(r)
  | solveEquation (p r : Obj)                     -- QuasiNeutralitySolver.solveEquation(p, r)
  | findPotential (p : Obj)                       -- QuasiNeutralitySolver.findPotential(p)
  | collect (g p : Obj)                           -- diagnostics.collect(g, p, t)
  | reduce                                        -- diagnostics.reduce()
  | writeH5 (g : Obj) (isPhi : Bool)              -- g.writeH5Dataset(foldername, t[, "phi"])
deriving DecidableEq, Repr

/-- statements without nesting -/
inductive Simple
  | assign (v : Var) (e : Expr)
  | call (c : Call)
  | printLines (lo hi : Expr)      -- rank 0: for i in range(lo, hi): print(diagnostics.getLine(i), file=…)
  | pollTime                        -- timeForLoop = comm.allreduce(… < stopTime, op=MPI.LAND)
  | divBy (e : Expr)                -- a timing statement divides by `e` (ZeroDivisionError if it is 0)
  | setupFromFile                   -- distribFunc, constants, t = setupFromFile(foldername, …, layout='v_parallel')
  | setupNew                        -- distribFunc, constants, t = setupCylindricalGrid(…, layout='v_parallel'); setupSave
  | allocPhi                        -- phi = Grid(…, remapperPhi, 'mode_solve', …)   (np.empty contents)
  | allocRho                        -- rho = Grid(…, remapperRho, 'v_parallel_2d', …)
  | allocParGradVals                -- parGradVals = np.empty(…)
deriving DecidableEq, Repr

inductive Stmt
  | s (x : Simple)
  | ifc (c : Cond) (body : List Simple)
deriving Repr

/-- the driver: everything before the loop, the loop, everything after it -/
structure Program where
  pre : List Stmt
  cond : Cond
  body : List Stmt
  post : List Stmt
deriving Repr

/-! ### 3a. counters and outputs -/

/-- what the run writes: checkpoints and diagnostic lines -/
inductive Event
  | ckpt (isPhi : Bool) (t : Int)
  | collect (t : Int)
  | reduce
  | lines (lo hi : Int)
deriving DecidableEq, Repr

/-- Python `//` and `%` on ints -/
def pyDiv (a b : Int) : Int := Int.fdiv a b
def pyMod (a b : Int) : Int := Int.fmod a b

structure CState where
  t : Int
  ti : Int
  tN : Int
  nLoops : Int
  startPrint : Int
  saveStep : Int
  saveStepCut : Int
  tEnd : Int
  dt : Int
  loadable : Bool
  timeForLoop : Bool
  /-- the future answers of the wall-clock test `time < stopTime` (not a function of the state) -/
  clock : List Bool
  /-- time of the checkpoint `setupFromFile` finds (if any) -/
  fileTime : Int
  events : List Event
  /-- a timing statement divided by zero (the run dies with ZeroDivisionError) -/
  crashed : Bool
deriving Repr

def CState.get (s : CState) : Var → Int
  | .t => s.t | .ti => s.ti | .tN => s.tN | .nLoops => s.nLoops | .startPrint => s.startPrint
  | .saveStep => s.saveStep | .saveStepCut => s.saveStepCut | .tEnd => s.tEnd | .dt => s.dt

def CState.set (s : CState) (v : Var) (x : Int) : CState :=
  match v with
  | .t => { s with t := x } | .ti => { s with ti := x } | .tN => { s with tN := x }
  | .nLoops => { s with nLoops := x } | .startPrint => { s with startPrint := x }
  | .saveStep => { s with saveStep := x } | .saveStepCut => { s with saveStepCut := x }
  | .tEnd => { s with tEnd := x } | .dt => { s with dt := x }

def Expr.eval (s : CState) : Expr → Int
  | .var v => s.get v
  | .lit n => n
  | .add a b => a.eval s + b.eval s
  | .sub a b => a.eval s - b.eval s
  | .mul a b => a.eval s * b.eval s
  | .fdiv a b => pyDiv (a.eval s) (b.eval s)
  | .fmod a b => pyMod (a.eval s) (b.eval s)
  | .min a b => Min.min (a.eval s) (b.eval s)
  | .max a b => Max.max (a.eval s) (b.eval s)

def Cond.eval (s : CState) : Cond → Bool
  | .lt a b => decide (a.eval s < b.eval s)
  | .eq a b => decide (a.eval s = b.eval s)
  | .ne a b => decide (a.eval s ≠ b.eval s)
  | .loadable => s.loadable
  | .notLoadable => !s.loadable
  | .timeForLoop => s.timeForLoop
  | .and a b => a.eval s && b.eval s

def CState.emit (s : CState) (e : Event) : CState := { s with events := s.events ++ [e] }

def execSimpleC (s : CState) : Simple → CState
  | .assign v e => s.set v (e.eval s)
  | .call (.collect _ _) => s.emit (.collect s.t)
  | .call .reduce => s.emit .reduce
  | .call (.writeH5 _ isPhi) => s.emit (.ckpt isPhi s.t)
  | .call _ => s
  | .printLines lo hi => s.emit (.lines (lo.eval s) (hi.eval s))
  | .pollTime => { s with timeForLoop := s.clock.headD true, clock := s.clock.tail }
  | .divBy e => { s with crashed := s.crashed || decide (e.eval s = 0) }
  | .setupFromFile => { s with t := s.fileTime }
  | .setupNew => { s with t := 0 }
  | .allocPhi | .allocRho | .allocParGradVals => s

def execSimplesC (s : CState) (l : List Simple) : CState := l.foldl execSimpleC s

def execStmtC (s : CState) : Stmt → CState
  | .s x => execSimpleC s x
  | .ifc c body => if c.eval s then execSimplesC s body else s

def execStmtsC (s : CState) (l : List Stmt) : CState := l.foldl execStmtC s

/-- `while cond: body`, at most `fuel` iterations -/
def whileC (cond : Cond) (body : List Stmt) : Nat → CState → CState
  | 0, s => s
  | fuel + 1, s => if cond.eval s then whileC cond body fuel (execStmtsC s body) else s

def runC (p : Program) (fuel : Nat) (s : CState) : CState :=
  execStmtsC (whileC p.cond p.body fuel (execStmtsC s p.pre)) p.post

/-! ### 3b. symbolic data flow -/

/-- uninterpreted operations on fields -/
inductive Op
  | flux | vpar (d : Stp) | pol (d : Stp) | grad | rhoOf | modes | solve | potential
deriving DecidableEq, Repr

/-- symbolic field contents: free terms over named unknowns -/
inductive Term
  | sym (n : Nat)
  | unit
  | ap (o : Op) (a b : Term)
deriving DecidableEq, Repr

structure SGrid where
  field : Term
  lay : Lay
deriving DecidableEq, Repr

/-- the numerical state the loop works on: the three grids, the saved copy of `distribFunc`, the gradient table, and
    the checkpoints written so far -/
structure Sim where
  f : SGrid
  fsave : Option SGrid
  phi : SGrid
  rho : SGrid
  pgv : Term
  files : List (Bool × SGrid)
deriving DecidableEq, Repr

def layoutOk : Obj → Lay → Bool
  | .distribFunc, l => l = .flux_surface ∨ l = .v_parallel ∨ l = .poloidal
  | .phi, l => l = .v_parallel_2d ∨ l = .mode_solve ∨ l = .v_parallel_1d ∨ l = .poloidal
  | .rho, l => l = .v_parallel_2d ∨ l = .mode_solve

/--
Meaning of the calls on the symbolic state; `none` = the real code raises (layout assert, unknown layout, save/restore
protocol) or the call is not one the operators are defined for.  Contracts used (trusted, C04/C10-C16):
`setLayout` keeps the global field; `saveGridValues`/`restoreGridValues` copy field and layout; an advection step
rewrites the whole distribution function from its old value and the listed inputs; `VParallelAdvection.gridStep`
*overwrites* the gradient table from `phi` before using it; `getPerturbedRho` overwrites `rho`; `solveEquation`
overwrites `phi` from `rho`; `getModes`/`findPotential` transform in place.
-/
def execCallS (s : Sim) : Call → Option Sim
  | .setLayout .distribFunc l => if layoutOk .distribFunc l then some { s with f := { s.f with lay := l } } else none
  | .setLayout .phi l => if layoutOk .phi l then some { s with phi := { s.phi with lay := l } } else none
  | .setLayout .rho l => if layoutOk .rho l then some { s with rho := { s.rho with lay := l } } else none
  | .saveGridValues .distribFunc => match s.fsave with
    | none => some { s with fsave := some s.f }
    | some _ => none
  | .restoreGridValues .distribFunc => match s.fsave with
    | some g => some { s with f := g, fsave := none }
    | none => none
  | .fluxStep .distribFunc =>
    if s.f.lay = .flux_surface then some { s with f := { s.f with field := .ap .flux s.f.field .unit } } else none
  | .vParStep .distribFunc .phi d =>
    if s.f.lay = .v_parallel ∧ s.phi.lay = .v_parallel_1d then
      let g := Term.ap .grad s.phi.field .unit
      some { s with pgv := g, f := { s.f with field := .ap (.vpar d) s.f.field g } }
    else none
  | .vParStepKeep .distribFunc d =>
    if s.f.lay = .v_parallel then some { s with f := { s.f with field := .ap (.vpar d) s.f.field s.pgv } } else none
  | .polStep .distribFunc .phi d =>
    if s.f.lay = .poloidal ∧ s.phi.lay = .poloidal then
      some { s with f := { s.f with field := .ap (.pol d) s.f.field s.phi.field } }
    else none
  | .perturbedRho .distribFunc .rho =>
    if s.f.lay = .v_parallel ∧ s.rho.lay = .v_parallel_2d then
      some { s with rho := { s.rho with field := .ap .rhoOf s.f.field .unit } }
    else none
  | .getModes .rho =>
    if s.rho.lay = .v_parallel_2d then some { s with rho := { s.rho with field := .ap .modes s.rho.field .unit } } else none
  | .solveEquation .phi .rho =>
    if s.rho.lay = .mode_solve ∧ s.phi.lay = .mode_solve then
      some { s with phi := { s.phi with field := .ap .solve s.rho.field .unit } }
    else none
  | .findPotential .phi =>
    if s.phi.lay = .v_parallel_2d then some { s with phi := { s.phi with field := .ap .potential s.phi.field .unit } } else none
  | .collect .distribFunc .phi => if s.f.lay = .v_parallel ∧ s.phi.lay = .v_parallel_2d then some s else none
  | .reduce => some s
  | .writeH5 .distribFunc false => some { s with files := s.files ++ [(false, s.f)] }
  | .writeH5 .phi true => some { s with files := s.files ++ [(true, s.phi)] }
  | _ => none

/-- unknown contents of freshly allocated arrays (`np.empty`): each allocation gets its own symbol from `junk` -/
def execSimpleS (junk : Nat → Term) (loaded : SGrid) (fresh : Term) (s : Sim) : Simple → Option Sim
  | .assign _ _ => some s
  | .call c => execCallS s c
  | .printLines _ _ => some s
  | .pollTime => some s
  | .divBy _ => some s
  /- `setupFromFile(…, layout='v_parallel')`: the stored field in the stored layout, then `setLayout('v_parallel')` -/
  | .setupFromFile => if layoutOk .distribFunc loaded.lay then some { s with f := { loaded with lay := .v_parallel }, fsave := none } else none
  | .setupNew => some { s with f := { field := fresh, lay := .v_parallel }, fsave := none }
  | .allocPhi => some { s with phi := { field := junk 0, lay := .mode_solve } }
  | .allocRho => some { s with rho := { field := junk 1, lay := .v_parallel_2d } }
  | .allocParGradVals => some { s with pgv := junk 2 }

def execSimplesS (junk : Nat → Term) (loaded : SGrid) (fresh : Term) : Sim → List Simple → Option Sim
  | s, [] => some s
  | s, x :: xs => match execSimpleS junk loaded fresh s x with
    | none => none
    | some s' => execSimplesS junk loaded fresh s' xs

/-- is the statement free of effects on the numerical state (so that a branch on counters cannot change it) -/
def Simple.dataPure : Simple → Bool
  | .assign _ _ | .printLines _ _ | .pollTime | .divBy _ => true
  | .call (.collect _ _) | .call .reduce => true
  | _ => false

/-- a branch whose condition is `loadable`/`notLoadable` is resolved; a branch on counters is executed (it may only write
    checkpoints) when `takeSaves`, skipped otherwise -/
def execStmtsS (junk : Nat → Term) (loaded : SGrid) (fresh : Term) (loadable takeSaves : Bool) :
    Sim → List Stmt → Option Sim
  | s, [] => some s
  | s, .s x :: rest => match execSimpleS junk loaded fresh s x with
    | none => none
    | some s' => execStmtsS junk loaded fresh loadable takeSaves s' rest
  | s, .ifc c body :: rest =>
    let go : Bool := match c with
      | .loadable => loadable
      | .notLoadable => !loadable
      | _ => takeSaves
    if go then
      match execSimplesS junk loaded fresh s body with
      | none => none
      | some s' => execStmtsS junk loaded fresh loadable takeSaves s' rest
    else execStmtsS junk loaded fresh loadable takeSaves s rest

/-- the only things a counter-controlled branch may do to the numerical state: write checkpoints -/
def Stmt.savesOnly : Stmt → Bool
  | .s _ => true
  | .ifc .loadable _ | .ifc .notLoadable _ => true
  | .ifc _ body => body.all (fun x => x.dataPure || match x with | .call (.writeH5 _ _) => true | _ => false)

/-- forget the checkpoint list -/
def Sim.core (s : Sim) : SGrid × Option SGrid × SGrid × SGrid × Term := (s.f, s.fsave, s.phi, s.rho, s.pgv)

/-! ## 4. the parameter file -/

/-- a value of the parameter file: a JSON number / list (opaque literal) or a string expression over other keys -/
inductive PVal (V : Type)
  | lit (v : V)
  | expr (deps : List String) (f : (String → Option V) → V)

/-- `eval_expr`: `None` as long as one of the referenced constants is still unset -/
def evalP {V : Type} (env : String → Option V) : PVal V → Option V
  | .lit v => some v
  | .expr deps f => if deps.all (fun k => (env k).isSome) then some (f env) else none

def setEnv {V : Type} (env : String → Option V) (k : String) (v : V) : String → Option V :=
  fun k' => if k' = k then some v else env k'

/-- one sweep of the inner `while`: `popitem()` takes the *last* entry; unresolved entries go to `unmatched`
    (a dict: later insertions come later) -/
def sweep {V : Type} : List (String × PVal V) → (String → Option V) → List (String × PVal V) →
    (String → Option V) × List (String × PVal V)
  | [], env, unmatched => (env, unmatched)
  | (k, pv) :: rest, env, unmatched =>
    match evalP env pv with
    | some v => sweep rest (setEnv env k v) unmatched
    | none => sweep rest env (unmatched ++ [(k, pv)])

/-- `get_constants` up to `set_defaults`: sweeps until nothing is left; `none` = the progress assertion fails.
    `data` is in file order; `popitem` pops from the end, hence the `reverse`. -/
def getConstants {V : Type} : Nat → List (String × PVal V) → (String → Option V) → Option (String → Option V)
  | _, [], env => some env
  | 0, _ :: _, _ => none
  | fuel + 1, data, env =>
    let (env', unmatched) := sweep data.reverse env []
    if unmatched.length < data.length then getConstants fuel unmatched env' else none

/-! ## 4b. the setters of `rMin` / `rMax` and a value of `rp` given in the file

`Constants.rMin` / `Constants.rMax` are properties: their setters also assign `rp = 0.5*(rMin + rMax)` as soon as both ends
are known (constants.py:45-63), also when `set_defaults` assigns them.  `get_constants` therefore keeps an `rp` of the file apart
(findings F25, F29): while the file is read `rp` stays unset until its own entry has been read and keeps that value afterwards, and
it is assigned once more after the defaults.  `mid` stands for `fun a b => 0.5*(a + b)`. -/

/-- `setattr(constants, k, v)` -/
def setAttr {V : Type} (mid : V → V → V) (env : String → Option V) (k : String) (v : V) : String → Option V :=
  if k = "rMin" then
    match env "rMax" with
    | some b => setEnv (setEnv env "rMin" v) "rp" (mid v b)
    | none => setEnv env "rMin" v
  else if k = "rMax" then
    match env "rMin" with
    | some a => setEnv (setEnv env "rMax" v) "rp" (mid a v)
    | none => setEnv env "rMax" v
  else setEnv env k v

/-- `sweep` with the real setters -/
def sweepA {V : Type} (mid : V → V → V) : List (String × PVal V) → (String → Option V) → List (String × PVal V) →
    (String → Option V) × List (String × PVal V)
  | [], env, unmatched => (env, unmatched)
  | (k, pv) :: rest, env, unmatched =>
    match evalP env pv with
    | some v => sweepA mid rest (setAttr mid env k v) unmatched
    | none => sweepA mid rest env (unmatched ++ [(k, pv)])

/-- the sweeps of `get_constants` with the real setters (the parser before F25 stops here) -/
def getConstantsA {V : Type} (mid : V → V → V) : Nat → List (String × PVal V) → (String → Option V) → Option (String → Option V)
  | _, [], env => some env
  | 0, _ :: _, _ => none
  | fuel + 1, data, env =>
    let (env', unmatched) := sweepA mid data.reverse env []
    if unmatched.length < data.length then getConstantsA mid fuel unmatched env' else none

/-- `set_defaults`: `for key, val in defaults.items(): if getattr(self, key) is None: setattr(self, key, val)`; `set` is the
    assignment (`setAttr mid` for the real class, `setEnv` for a class without setters) -/
def applyDefaults {V : Type} (set : (String → Option V) → String → V → (String → Option V)) (defaults : List (String × V))
    (env : String → Option V) : String → Option V :=
  defaults.foldl (fun e kv => if (e kv.1).isNone then set e kv.1 kv.2 else e) env

/-- `assign(key, val)` of `get_constants` (finding F29): `setattr`, and — when the file gives `rp` — after an assignment of `rMin` or
    `rMax` (whose setters move `rp`) `rp` is put back to what it was: unset until the value of the file has been read, that value
    afterwards -/
def assignB {V : Type} (mid : V → V → V) (given : Bool) (env : String → Option V) (k : String) (v : V) : String → Option V :=
  if given && (k == "rMin" || k == "rMax") then
    fun k' => if k' = "rp" then env "rp" else setAttr mid env k v k'
  else setAttr mid env k v

def sweepB {V : Type} (mid : V → V → V) (given : Bool) : List (String × PVal V) → (String → Option V) → List (String × PVal V) →
    (String → Option V) × List (String × PVal V)
  | [], env, unmatched => (env, unmatched)
  | (k, pv) :: rest, env, unmatched =>
    match evalP env pv with
    | some v => sweepB mid given rest (assignB mid given env k v) unmatched
    | none => sweepB mid given rest env (unmatched ++ [(k, pv)])

def getConstantsB {V : Type} (mid : V → V → V) (given : Bool) : Nat → List (String × PVal V) → (String → Option V) →
    Option (String → Option V)
  | _, [], env => some env
  | 0, _ :: _, _ => none
  | fuel + 1, data, env =>
    let (env', unmatched) := sweepB mid given data.reverse env []
    if unmatched.length < data.length then getConstantsB mid given fuel unmatched env' else none

/-- `get_constants` up to `getCN0` as it is now: the sweeps with `assign`, `set_defaults` (through the setters), and — when the file
    gives `rp` — `constants.rp = rp[0]` once more (the defaults of `rMin` / `rMax` may have moved it) -/
def getConstantsRp {V : Type} (mid : V → V → V) (defaults : List (String × V)) (fuel : Nat) (data : List (String × PVal V)) :
    Option (String → Option V) :=
  let given := (data.lookup "rp").isSome
  match getConstantsB mid given fuel data (fun _ => none) with
  | none => none
  | some env =>
    let env' := applyDefaults (setAttr mid) defaults env
    if given then some (fun k => if k = "rp" then env "rp" else env' k) else some env'

/-- the parser before the fix F25: sweeps and defaults only -/
def getConstantsOld {V : Type} (mid : V → V → V) (defaults : List (String × V)) (fuel : Nat) (data : List (String × PVal V)) :
    Option (String → Option V) :=
  (getConstantsA mid fuel data (fun _ => none)).map (applyDefaults (setAttr mid) defaults)

/-- the parser between the fixes F25 and F29: sweeps with the plain setters, defaults, then the ENTRY of `rp` evaluated once more -/
def getConstantsF25 {V : Type} (mid : V → V → V) (defaults : List (String × V)) (fuel : Nat) (data : List (String × PVal V)) :
    Option (String → Option V) :=
  match getConstantsA mid fuel data (fun _ => none) with
  | none => none
  | some env =>
    let env' := applyDefaults (setAttr mid) defaults env
    match data.lookup "rp" with
    | none => some env'
    | some pv => some (fun k => if k = "rp" then evalP env' pv else env' k)

/-! ## 5. the folder of a run (`setupSave`, savingTools.py:11-19)

`i = 0; while os.path.isdir("simulation_i"): i += 1` — `isdir` is the state of the working directory. -/

/-- the search for the first unused folder name, with fuel -/
def firstFree (isdir : Nat → Bool) : Nat → Nat → Option Nat
  | 0, _ => none
  | fuel + 1, i => if isdir i then firstFree isdir fuel (i + 1) else some i

/-- "the runs are numbered consecutively, so the next index is the number of existing ones" (seeded change C18-21): not the code -/
def countFree (existing : List Nat) : Nat := existing.length

end PygyroVerif.Ckpt
