/-
Model of the density integration (property C16).

  pygyro/poisson/poisson_tools.py   get_perturbed_rho :6-34   `pertLoop`, `getPerturbedRhoKernel`
                                    get_rho           :37-61  `rhoLoop`,  `getRhoKernel`
  pygyro/poisson/poisson_solver.py  DensityFinder.getPerturbedRho :44-65  `getPerturbedRhoLocal`
                                    DensityFinder.getRho          :67-85  `getRhoLocal`

Arrays are functions of their indices (`grid[i,j,k,l]` is `g i j k l`).  The quadrature coefficients
`quad_coeffs` (solution of `Mᵀ w = I`, LAPACK, property C09) and the equilibrium table `_fEq`
(`exp`/`tanh`, property C19) are *inputs* of the model.

The distributed call: in layout `v_parallel` (dims order (0,2,1,3)) a rank owns the block
`[rStart, rStart+nrLoc) × [zStart, zStart+nzLoc) × all θ × all v` of the global field `F r z θ v`.
`DensityFinder.getPerturbedRho` passes `self._fEq[rIndices]` with
`rIndices = grid.getGlobalIdxVals(0) = range(starts[0], ends[0])`, i.e. row `i` of the table handed to the
kernel is row `rStart + i` of the global table.
-/
import Mathlib.Algebra.Order.Field.Basic

namespace PygyroVerif.Density

variable {K : Type*} [Field K]

/-- `rho[i,j,k] = 0.0; for l in range(nc): rho[i,j,k] += quad_coeffs[l]*(grid[i,j,k,l] - feq[i,l])` -/
def pertLoop (q g fe : ℕ → K) (nc : ℕ) : K :=
  (List.range nc).foldl (fun acc l => acc + q l * (g l - fe l)) 0

/-- `rho[i,j,k] = 0.0; for l in range(nc): rho[i,j,k] += quad_coeffs[l]*grid[i,j,k,l]` -/
def rhoLoop (q g : ℕ → K) (nc : ℕ) : K :=
  (List.range nc).foldl (fun acc l => acc + q l * g l) 0

/-- `get_perturbed_rho(rho, feq, grid, quad_coeffs)`: the value written to `rho[i,j,k]` -/
def getPerturbedRhoKernel (q : ℕ → K) (nc : ℕ) (feq : ℕ → ℕ → K) (grid : ℕ → ℕ → ℕ → ℕ → K)
    (i j k : ℕ) : K :=
  pertLoop q (grid i j k) (feq i) nc

/-- `get_rho(rho, grid, quad_coeffs)` -/
def getRhoKernel (q : ℕ → K) (nc : ℕ) (grid : ℕ → ℕ → ℕ → ℕ → K) (i j k : ℕ) : K :=
  rhoLoop q (grid i j k) nc

/-- `self._fEq[rIndices]` with `rIndices = range(rStart, rEnd)`: fancy indexing by the global radial indices -/
def feqRows (fEq : ℕ → ℕ → K) (rStart : ℕ) : ℕ → ℕ → K := fun i => fEq (rStart + i)

/-- the block of the global field owned by a rank in layout `v_parallel` -/
def localBlock (F : ℕ → ℕ → ℕ → ℕ → K) (rStart zStart : ℕ) : ℕ → ℕ → ℕ → ℕ → K :=
  fun i j k l => F (rStart + i) (zStart + j) k l

/-- `DensityFinder.getPerturbedRho(grid, rho)` on the rank whose block starts at `(rStart, zStart)` -/
def getPerturbedRhoLocal (q : ℕ → K) (nc : ℕ) (fEq : ℕ → ℕ → K) (F : ℕ → ℕ → ℕ → ℕ → K)
    (rStart zStart : ℕ) : ℕ → ℕ → ℕ → K :=
  getPerturbedRhoKernel q nc (feqRows fEq rStart) (localBlock F rStart zStart)

/-- `DensityFinder.getRho(grid, rho)` on the rank whose block starts at `(rStart, zStart)` -/
def getRhoLocal (q : ℕ → K) (nc : ℕ) (F : ℕ → ℕ → ℕ → ℕ → K) (rStart zStart : ℕ) : ℕ → ℕ → ℕ → K :=
  getRhoKernel q nc (localBlock F rStart zStart)

/-- running condition number returned by the driver: `Σ_l |q_l (g_l - fe_l)|` -/
def pertScale [LinearOrder K] (q g fe : ℕ → K) (nc : ℕ) : K :=
  (List.range nc).foldl (fun acc l => acc + |q l * (g l - fe l)|) 0

def rhoScale [LinearOrder K] (q g : ℕ → K) (nc : ℕ) : K :=
  (List.range nc).foldl (fun acc l => acc + |q l * g l|) 0

end PygyroVerif.Density
