/-
Model of `LayoutHandler` (pygyro/model/layout.py:380-863) and `LayoutManager._makeConnectionMap` (:241-329):
compatibility, swap axes, buffer size, route map, and the transposes (same layout / local / direct with
Alltoall / multi-step redirect, with and without spare buffer) executed on *all ranks at once*.

Statement-by-statement transcription; numpy views are `View`s (Model/NDView.lean).  The flag `fixed`
selects the code after `fix:` commit c48bf2a (`split_axis`) or the original code (kept for the negative
witness `transpose_defect_a1_zero`).  Core Lean only.
-/
import PygyroVerif.Model.Layout
import PygyroVerif.Model.NDView

namespace PygyroVerif

structure Handler where
  nprocs : List Nat            -- as passed to the constructor (one entry per process axis)
  ext : List Nat               -- extent of every physical dimension
  names : List String          -- layout names in dict (insertion) order
  orders : List (List Nat)     -- dims_order of every layout
deriving Repr

namespace Handler

def nLayouts (h : Handler) : Nat := h.names.length
def layoutAt (h : Handler) (i : Nat) : Layout := Layout.make h.nprocs (h.orders.getD i []) h.ext
def indexOf (h : Handler) (name : String) : Option Nat :=
  let i := h.names.idxOf name
  if i < h.names.length then some i else none
def nRanks (h : Handler) : Nat := prodL h.nprocs

/-- `topology.Get_coords(rank)` of `Create_cart(nprocs)`: row-major unravel -/
def coordsOf (dims : List Nat) (rank : Nat) : List Nat :=
  match dims with
  | [] => []
  | _ :: ds => (rank / prodL ds) :: coordsOf ds (rank % prodL ds)

def rankOf (dims : List Nat) (coords : List Nat) : Nat :=
  match dims, coords with
  | _ :: ds, c :: cs => c * prodL ds + rankOf ds cs
  | _, _ => 0

/-- process axes on which the two orderings put different dimensions (layout.py:694-701, :855-859) -/
def diffAxes (nprocs : List Nat) (o1 o2 : List Nat) : List Nat :=
  (List.range nprocs.length).filter (fun i => decide (nprocs.getD i 1 > 1) && decide (o1.getD i 0 ≠ o2.getD i 0))

/-- `LayoutHandler.compatible` (:837-863) -/
def compatible (nprocs : List Nat) (o1 o2 : List Nat) : Bool := (diffAxes nprocs o1 o2).length < 2

/-- `_get_swap_axes` (:688-709): `[a0, a1, a2]` per differing axis -/
def swapAxes (nprocs : List Nat) (oS oD : List Nat) : List Nat :=
  (diffAxes nprocs oS oD).flatMap (fun i => [i, oS.idxOf (oD.getD i 0), oD.idxOf (oS.getD i 0)])

/-- direct connections as the constructors build them (:436-441, :1044-1054): the pair loop
    `for n', l1 in enumerate(L): for i, l2 in enumerate(L[:n']): if compat(l1, l2): conn[i].append(n'); conn[n'].append(i)`
    appends to `conn[a]` first every compatible `i < a` (when `n' = a`, ascending) and then every compatible `n' > a`
    (ascending): `conn[a]` is the ascending list of all partners.  `compat hi lo` is always asked with `hi > lo`. -/
def connectionsOf (n : Nat) (compat : Nat → Nat → Bool) : List (List Nat) :=
  (List.range n).map (fun a => (List.range n).filter (fun b => decide (b ≠ a) && compat (max a b) (min a b)))

def connections (h : Handler) : List (List Nat) :=
  connectionsOf h.nLayouts (fun hi lo => compatible h.nprocs (h.orders.getD hi []) (h.orders.getD lo []))

/-- `bufferSize` on the rank with coordinates `c` (:431-462) -/
def bufferSize (h : Handler) (c : List Nat) : Nat :=
  let n := h.nLayouts
  let init := (h.layoutAt 0).size c
  (List.range n).foldl (fun acc n' =>
    (List.range n').foldl (fun acc i =>
      let l1 := h.layoutAt n'; let l2 := h.layoutAt i
      if compatible h.nprocs l1.ord l2.ord then
        let axis := swapAxes h.nprocs l1.ord l2.ord
        let bs :=
          if axis.length ≠ 0 then
            let a0 := axis.getD 0 0; let a1 := axis.getD 1 0
            let blockshape := ((l1.shape c).set a0 (l1.maxShape.getD a0 0)).set a1 (l2.maxShape.getD a0 0)
            if a0 < h.nprocs.length then prodL blockshape * h.nprocs.getD a0 1 else prodL blockshape
          else prodL (l1.shape c)
        if bs > acc then bs else acc
      else acc) acc) init

/-! ### route map (`_makeConnectionMap`) -/

structure RouteMap where
  dist : Nat → Nat → Nat            -- distanceMap[a][b]   (layouts are numbered in dict order)
  route : Nat → Nat → List Nat      -- self._route_map[a][b]

namespace RouteMap
def d (m : RouteMap) (a b : Nat) : Nat := m.dist a b
def r (m : RouteMap) (a b : Nat) : List Nat := m.route a b
def setD (m : RouteMap) (a b v : Nat) : RouteMap :=
  { m with dist := fun x y => if x = a ∧ y = b then v else m.dist x y }
def setR (m : RouteMap) (a b : Nat) (v : List Nat) : RouteMap :=
  { m with route := fun x y => if x = a ∧ y = b then v else m.route x y }
end RouteMap

/-- Python's list-of-str `<` -/
def lexLt : List String → List String → Bool
  | [], [] => false
  | [], _ :: _ => true
  | _ :: _, [] => false
  | a :: as, b :: bs => if a < b then true else if b < a then false else lexLt as bs

/-- `min(unvisited, key=dist[source][·])`: first minimal element in the iteration order `order` -/
def pickMin (order unvisited : List Nat) (key : Nat → Nat) : Option Nat :=
  (order.filter (fun x => unvisited.contains x)).foldl (fun best x =>
    match best with
    | none => some x
    | some b => if key x < key b then some x else some b) none

/-- the body of `for aim in DirectConnections[via]` (:296-326) -/
def relax (names : List String) (source via : Nat) (unvisited : List Nat) (m : RouteMap) (aim : Nat) : RouteMap :=
  if !unvisited.contains aim then m else
  let nm := fun (l : List Nat) => l.map (fun i => names.getD i "")
  if m.d source via + m.d via aim < m.d source aim then
    let m := m.setD source aim (m.d source via + m.d via aim)
    let m := m.setD aim source (m.d via source + m.d aim via)
    let m := m.setR source aim (m.r source via ++ m.r via aim)
    m.setR aim source (m.r aim via ++ m.r via source)
  else if m.d source via + m.d via aim = m.d source aim then
    if lexLt (nm (m.r source via ++ m.r via aim)) (nm (m.r source aim)) then
      let m := m.setR source aim (m.r source via ++ m.r via aim)
      m.setR aim source (m.r aim via ++ m.r via source)
    else m
  else m

/-- the `while len(unvisitedNodes) > 0` loop; fuel = number of nodes (each round removes one) -/
def dijkstra (names : List String) (conn : List (List Nat)) (order : List Nat) (source : Nat) :
    Nat → List Nat → RouteMap → RouteMap
  | 0, _, m => m
  | fuel+1, unvisited, m =>
    match pickMin order unvisited (fun x => m.d source x) with
    | none => m
    | some via =>
      let unvisited := unvisited.filter (· ≠ via)
      let m := (conn.getD via []).foldl (relax names source via unvisited) m
      dijkstra names conn order source fuel unvisited m

/-- initialisation of the maps where a direct connection is known (:257-279) -/
def initRoutes (conn : List (List Nat)) (n : Nat) : RouteMap :=
  (List.range n).foldl (fun m a => (conn.getD a []).foldl (fun m b => (m.setD a b 1).setR a b (m.r a b ++ [b])) m)
    { dist := fun _ _ => n + 1, route := fun _ _ => [] }

/-- `for source in DirectConnections.keys(): …` (:281-326) -/
def relaxAll (names : List String) (conn : List (List Nat)) (order : List Nat) (n : Nat) (m : RouteMap) : RouteMap :=
  (List.range n).foldl (fun m s => dijkstra names conn order s n ((List.range n).filter (· ≠ s)) m) m

/-- `max(max(distanceMap.values(), …).values())` (:329) -/
def maxDist (m : RouteMap) (n : Nat) : Nat :=
  (List.range n).foldl (fun acc a => (List.range n).foldl (fun acc b => if a ≠ b ∧ m.d a b > acc then m.d a b else acc) acc) 0

/-- `_makeConnectionMap`; `order` = iteration order of Python's set of names (tie-break oracle).
    Returns the map and the "all connected" flag. -/
def routeMap (names : List String) (conn : List (List Nat)) (order : List Nat) : RouteMap × Bool :=
  let n := names.length
  if n = 1 then ({ dist := fun _ _ => 0, route := fun _ _ => [] }, true) else
  let m2 := relaxAll names conn order n (initRoutes conn n)
  (m2, maxDist m2 n ≠ n + 1)

def routes (h : Handler) (order : List Nat) : RouteMap × Bool := routeMap h.names h.connections order

/-! ### transposes on the whole world -/

section World
variable {α : Type} [Inhabited α]

/-- bufs[role][rank]; roles: 0 = `source`, 1 = `dest`, 2 = `buf` -/
abbrev World (α : Type) := Array (Array (Array α))

def World.get (w : World α) (role rank : Nat) : Array α := (w.getD role #[]).getD rank #[]
def World.set (w : World α) (role rank : Nat) (a : Array α) : World α :=
  w.setIfInBounds role ((w.getD role #[]).setIfInBounds rank a)

def swapL (l : List Nat) (i j : Nat) : List Nat := (l.set i (l.getD j 0)).set j (l.getD i 0)

/-- apply `[0:ub_k]` on every axis -/
def sliceAll (v : View) (ubs : List Nat) : View :=
  (List.range ubs.length).foldl (fun v k => v.slice k 0 (ubs.getD k 0)) v

def sliceRanges (v : View) (rs : List (Nat × Nat)) : View :=
  (List.range rs.length).foldl (fun v k => v.slice k (rs.getD k (0,0)).1 (rs.getD k (0,0)).2) v

/-- position of the split axis inside a block (repaired code) or `axis[1]` (original code) -/
def splitAxis (fixed : Bool) (a0 a1 : Nat) : Nat := if fixed then (if a1 = 0 then a0 else a1) else a1

/-- `_extract_from_source` (:711-765) on one rank -/
def extractFromSource (fixed : Bool) (LS LD : Layout) (c : List Nat) (axis : List Nat)
    (src tobuf : Array α) : Except String (Array α) := do
  let a0 := axis.getD 0 0; let a1 := axis.getD 1 0
  let shapeS := LS.shape c
  let shape0 := (shapeS.set a0 (LS.maxShape.getD a0 0)).set a1 (LD.maxShape.getD a0 0)
  let size := prodL shape0
  let order := if a0 ≠ 0 then swapL (List.range LS.ndims) 0 a0 else List.range LS.ndims
  let shape := if a0 ≠ 0 then swapL shape0 0 a0 else shape0
  let ranges0 := if a0 ≠ 0 then swapL shapeS 0 a0 else shapeS
  let sp := splitAxis fixed a0 a1
  let some sourceView := View.chunk src.size 0 shapeS | throw "value-error: source reshape"
  let blocks := (LD.mpiLengthsAt a0).zip (LD.mpiStartsAt a0)
  let (out, _, _) ← blocks.foldlM (fun (st : Array α × Nat × List Nat) (blk : Nat × Nat) => do
    let (tb, start, ranges) := st
    let (len, mpiStart) := blk
    -- numpy clamps `tobuffer[start:start+size]`; a short chunk makes `reshape` fail
    let some arr := View.chunk tb.size start shape | throw "value-error: block does not fit in buffer"
    let ranges := ranges.set sp len
    let arrView := sliceAll arr ranges
    let srcRange := ((List.range LS.ndims).map (fun k => (0, shapeS.getD k 0))).set a1 (mpiStart, mpiStart + len)
    let sv := (sliceRanges sourceView srcRange).transpose order
    match assignView tb arrView src sv with
    | none => throw "value-error: could not broadcast (extract)"
    | some tb' => pure (tb', start + size, ranges)) (tobuf, 0, ranges0)
  pure out

/-- where the ranks of a handler live: `coords r` = the handler's `mpi_coords` on world rank `r`,
    `partner r a q` = the world rank whose coordinate on the handler's process axis `a` is `q` and which agrees
    with `r` elsewhere (= rank `q` of `r`'s sub-communicator for that axis) -/
structure Topo where
  nRanks : Nat
  coords : Nat → List Nat
  partner : Nat → Nat → Nat → Nat

/-- the topology `getLayoutHandler` builds: `Create_cart(nprocs)` + one `Sub` per axis -/
def cartTopo (dims : List Nat) : Topo :=
  { nRanks := prodL dims, coords := coordsOf dims,
    partner := fun r a q => rankOf dims ((coordsOf dims r).set a q) }

/-- `comm.Alltoall(sendBuf, rcvBuf)` on the sub-communicators of process axis `a0` (size `p`), all ranks at once:
    rank `c` receives chunk `c[a0]` of rank `c[a0 := q]` into chunk `q` -/
def alltoallAxis (T : Topo) (p a0 : Nat) (sizeOf : Nat → Nat) (w : World α) (sendRole rcvRole : Nat) :
    Except String (World α) := do
  (List.range T.nRanks).foldlM (fun (acc : World α) rank => do
    let c := T.coords rank
    let size := sizeOf rank
    if size % p ≠ 0 then throw "value-error: Alltoall count not divisible"
    let cs := size / p
    let me := c.getD a0 0
    let rcv0 := acc.get rcvRole rank
    if rcv0.size < size then throw "value-error: receive buffer too small"
    let rcv := (List.range p).foldl (fun (rb : Array α) q =>
      let other := T.partner rank a0 q
      let sb := w.get sendRole other
      (List.range cs).foldl (fun rb j => rb.setIfInBounds (q * cs + j) (sb.getD (me * cs + j) default)) rb) rcv0
    pure (acc.set rcvRole rank rcv)) w

/-- shape of the exchanged block (:773-778) -/
def exchangeShape (LS LD : Layout) (c : List Nat) (axis : List Nat) (p : Nat) : List Nat :=
  let a0 := axis.getD 0 0; let a1 := axis.getD 1 0
  ((LS.shape c).set a1 (LD.maxShape.getD a0 0)).set a0 (LS.maxShape.getD a0 0 * p)

/-- `_rearrange_from_buffer` after the Alltoall (:790-838) on one rank; `data` = destination, `buf` = received -/
def rearrangeFromBuffer (fixed : Bool) (LS LD : Layout) (c : List Nat) (axis : List Nat) (p : Nat)
    (data buf : Array α) : Except String (Array α) := do
  let a0 := axis.getD 0 0; let a1 := axis.getD 1 0; let a2 := axis.getD 2 0
  let sshape0 := exchangeShape LS LD c axis p
  let sorder := if a0 ≠ 0 then swapL LS.ord 0 a0 else LS.ord
  let sshape := if a0 ≠ 0 then swapL sshape0 0 a0 else sshape0
  let transposition := LD.ord.map (fun d => sorder.idxOf d)
  let sp := splitAxis fixed a0 a1
  let some destView := View.chunk data.size 0 (LD.shape c) | throw "value-error: dest reshape"
  let some bufView := View.chunk buf.size 0 sshape | throw "value-error: buffer reshape"
  if (LD.shape c).getD a2 0 % p = 0 ∧ (LS.shape c).getD a1 0 % p = 0 then
    match assignView data destView buf (bufView.transpose transposition) with
    | none => throw "value-error: could not broadcast (fast path)"
    | some d => pure d
  else
    (List.range p).foldlM (fun (d : Array α) r => do
      let start := LS.maxShape.getD a0 0 * r
      let len := (LS.mpiLengthsAt a0).getD r 0
      let st := (LS.mpiStartsAt a0).getD r 0
      let bufRanges := ((sshape.map (fun x => (0, x))).set sp (0, (LD.shape c).getD a0 0)).set 0 (start, start + len)
      let destRanges := ((LD.shape c).map (fun x => (0, x))).set a2 (st, st + len)
      match assignView d (sliceRanges destView destRanges) buf ((sliceRanges bufView bufRanges).transpose transposition) with
      | none => throw "value-error: could not broadcast (block loop)"
      | some d' => pure d') data

/-- one direct change of layout on all ranks: `_transpose(X, Y)` is `directStepT … X Y X`,
    `_transpose_source_intact(X, Y, Z)` is `directStepT … X Y Z` (:627-686) -/
def directStepT (fixed : Bool) (T : Topo) (h : Handler) (iS iD : Nat) (x y z : Nat) (w : World α) : Except String (World α) := do
  let LS := h.layoutAt iS; let LD := h.layoutAt iD
  let axis := swapAxes h.nprocs LS.ord LD.ord
  let n := T.nRanks
  if axis.length = 0 then
    -- both swapped axes undistributed: local transpose
    (List.range n).foldlM (fun (acc : World α) rank => do
      let c := T.coords rank
      let src := acc.get x rank; let dst := acc.get y rank
      let some sv := View.chunk src.size 0 (LS.shape c) | throw "value-error: source reshape"
      let some dv := View.chunk dst.size 0 (LD.shape c) | throw "value-error: dest reshape"
      let tr := LD.ord.map (fun d => LS.ord.idxOf d)
      match assignView dst dv src (sv.transpose tr) with
      | none => throw "value-error: could not broadcast (local)"
      | some d => pure (acc.set y rank d)) w
  else do
    let a0 := axis.getD 0 0
    let p := h.nprocs.getD a0 1
    let w1 ← (List.range n).foldlM (fun (acc : World α) rank => do
      let c := T.coords rank
      let out ← extractFromSource fixed LS LD c axis (acc.get x rank) (acc.get y rank)
      pure (acc.set y rank out)) w
    let w2 ← alltoallAxis T p a0 (fun rank => prodL (exchangeShape LS LD (T.coords rank) axis p)) w1 y z
    (List.range n).foldlM (fun (acc : World α) rank => do
      let c := T.coords rank
      let out ← rearrangeFromBuffer fixed LS LD c axis p (acc.get y rank) (acc.get z rank)
      pure (acc.set y rank out)) w2

/-- the direct step of a stand-alone handler (`getLayoutHandler`) -/
def directStep (fixed : Bool) (h : Handler) (iS iD : Nat) (x y z : Nat) (w : World α) : Except String (World α) :=
  directStepT fixed (cartTopo h.nprocs) h iS iD x y z w

/-- `dest[:] = source` on every rank (the blocks of the `n` ranks are independent of each other) -/
def copyWhole (n : Nat) (w : World α) (fromRole toRole : Nat) : World α :=
  w.setIfInBounds toRole (((List.range n).map (fun rank =>
    let s := w.get fromRole rank
    copyPrefix (w.get toRole rank) s s.size)).toArray)

/-- the body of the `for i in range(nSteps)` loops of both redirect functions:
    `self._transpose(fromBuf, toBuf, nowLayout, nextLayout)` then `fromBuf, toBuf = toBuf, fromBuf` -/
def loopBody (step : Nat → Nat → Nat → Nat → Nat → World α → Except String (World α))
    (st : World α × Nat × Nat × Nat) (next : Nat) : Except String (World α × Nat × Nat × Nat) := do
  let (w, now, fromB, toB) := st
  let w' ← step now next fromB toB fromB w
  pure (w', next, toB, fromB)

/-- the route-following part of `transpose` (:534-625) over an arbitrary direct step
    `step iS iD x y z` (= `_transpose(X,Y)` when `z = x`, `_transpose_source_intact(X,Y,Z)` otherwise).
    Roles: 0 source, 1 dest, 2 buf. -/
def followRoute (step : Nat → Nat → Nat → Nat → Nat → World α → Except String (World α))
    (n : Nat) (steps : List Nat) (iS : Nat) (useBuf : Bool) (w : World α) : Except String (World α) := do
  let nSteps := steps.length
  match steps with
  | [] => throw "index-error: empty route"
  | [iD] => if useBuf then step iS iD 0 1 2 w else step iS iD 0 1 0 w
  | first :: rest =>
    if !useBuf then do
      -- _transposeRedirect (:553-582)
      let (w', _, _, _) ← steps.foldlM (loopBody step) (w, iS, 0, 1)
      pure (if nSteps % 2 = 0 then copyWhole n w' 0 1 else w')
    else do
      -- _transposeRedirect_source_intact (:584-625)
      let (w1, fromB, toB) ← (if nSteps % 2 = 0 then do
          let w1 ← step iS first 0 2 1 w
          pure (w1, 2, 1)
        else do
          let w1 ← step iS first 0 1 2 w
          pure (w1, 1, 2) : Except String (World α × Nat × Nat))
      let (w', _, _, _) ← rest.foldlM (loopBody step) (w1, first, fromB, toB)
      pure w'

/-- `LayoutHandler.transpose(source, dest, source_name, dest_name, buf)` on all ranks (:485-625), reading role
    `x`, writing role `y`, spare buffer role `z` (used iff `useBuf`).
    `rm.r iS iD` = `self._route_map[source_name][dest_name]` (indices). -/
def transposeWorldT (fixed : Bool) (T : Topo) (h : Handler) (rm : RouteMap) (iS iD : Nat) (useBuf : Bool)
    (x y z : Nat) (w : World α) : Except String (World α) := do
  let n := T.nRanks
  -- asserts :521-524
  for rank in List.range n do
    let bs := h.bufferSize (T.coords rank)
    if (w.get x rank).size < bs ∨ (w.get y rank).size < bs then throw "assert: buffer smaller than bufferSize"
  if iS = iD then
    pure <| (List.range n).foldl (fun acc rank =>
      let sz := (h.layoutAt iD).size (T.coords rank)
      acc.set y rank (copyPrefix (acc.get y rank) (acc.get x rank) sz)) w
  else
    if x = 0 ∧ y = 1 ∧ z = 2 then followRoute (directStepT fixed T h) n (rm.r iS iD) iS useBuf w
    else do
      -- general roles: run followRoute on a world whose roles 0/1/2 are x/y/z, then put the blocks back
      let perm : World α := #[w.getD x #[], w.getD y #[], w.getD z #[]]
      let out ← followRoute (directStepT fixed T h) n (rm.r iS iD) iS useBuf perm
      let w' := (w.setIfInBounds x (out.getD 0 #[])).setIfInBounds y (out.getD 1 #[])
      pure (if useBuf then w'.setIfInBounds z (out.getD 2 #[]) else w')

def transposeWorld (fixed : Bool) (h : Handler) (rm : RouteMap) (iS iD : Nat) (useBuf : Bool) (w : World α) :
    Except String (World α) :=
  transposeWorldT fixed (cartTopo h.nprocs) h rm iS iD useBuf 0 1 2 w

end World
end Handler
end PygyroVerif
