/-
Model of the flux-surface advection kernel.

  pygyro/advection/advection.py
    FluxSurfaceAdvection._getLagrangePts   :204-258   `stencilStart`, `shifts`, `thetaShifts`, `zPts`, `lagrangeCoeffs`
    FluxSurfaceAdvection.step              :260-293   `fluxStep`
  pygyro/advection/accelerated_advection_steps.py
    general_get_lagrange_vals              :193-211   `getLagrangeVals`   (the `for j, s in enumerate(shifts)` loop)
    flux_advection                         :227-236   `fluxAdvection`

Shared with the parallel gradient (Model/ParGrad.lean): Python's `%` with a positive modulus (`pmod`), list-range sums
and the closed form `fieldSum` (a weighted sum of theta-splines of the rows met by the field line through a node).

Conventions.  Arrays are functions `ℕ → _`; a loop `for k in range(n)` is a `foldl` over `List.range n`, in the
same order and with the same carried array as the Python.  Everything is over an arbitrary field `K` with a decidable
linear order (`FloorRing K` where the code calls `np.floor`); the driver instantiates `K := ℚ`.

External contracts (inputs of the model, never evaluated by it):
 * `S i x`   : the theta-spline that `compute_interpolant(f[:, i])` produced for row (z index) `i`, evaluated at `x`
               (driver: `BSpline.evalSpline1D` with the coefficients the real interpolator returned);
 * `pts j q` : the evaluation point `(qVals[q] + thetaShifts[j]) % (2*pi)` (a float reduced by the code; `pi` is not
               modelled — `fieldPts` gives the shape of the points for an abstract reduction `wrap`);
 * `bz`, `dtheta = dz*iota/R0` (a square root / the rotational transform) enter through `zDist` and `dtheta`.
-/
import PygyroVerif.Model.BSpline
import Mathlib.Algebra.Order.Field.Basic
import Mathlib.Algebra.Order.Floor.Defs
import Mathlib.Algebra.BigOperators.Group.List.Basic

namespace PygyroVerif.FieldLine

variable {K : Type*}

/-- Python's `a % n` for an integer `a` and a positive size `n` (result in `[0, n)`), as an array index -/
def pmod (a : ℤ) (n : ℕ) : ℕ := (a % (n : ℤ)).toNat

/-- `sum(f(k) for k in range(n))` -/
def sumRange [AddMonoid K] (n : ℕ) (f : ℕ → K) : K := ((List.range n).map f).sum

/-- `prod(f(k) for k in range(n))` (`np.prod(..., axis)`) -/
def prodRange [Monoid K] (n : ℕ) (f : ℕ → K) : K := ((List.range n).map f).prod

/-- The closed form shared by both operators: at output row `a` and theta index `q`,
    `Σ_{j<n} c_j · S_{(a + s_j) mod nz}(pts j q)` — the weighted sum, over the stencil, of the theta-splines of the
    rows met by the field line through node `(q, a)` -/
def fieldSum [Field K] (nz n : ℕ) (S : ℕ → K → K) (pts : ℕ → ℕ → K) (sh : ℕ → ℤ) (c : ℕ → K) (a q : ℕ) : K :=
  sumRange n (fun j => c j * S (pmod ((a : ℤ) + sh j) nz) (pts j q))

/-- shape of the evaluation points: `(theta_q + dtheta * s_j) % (2 pi)` with the reduction abstract -/
def fieldPts [Field K] (wrap : K → K) (theta : ℕ → K) (dtheta : K) (sh : ℕ → ℤ) : ℕ → ℕ → K :=
  fun j q => wrap (theta q + dtheta * (sh j : K))

end PygyroVerif.FieldLine

namespace PygyroVerif.FluxAdv
open PygyroVerif.FieldLine

variable {K : Type*} [Field K] [LinearOrder K]

/-- first element of `np.arange(-nL//2+1, nL//2+1)` (:228; Python parses `-nL//2` as `(-nL)//2`, floor division) -/
def stencilStart (nL : ℕ) : ℤ := (-(nL : ℤ)) / 2 + 1

/-- one past the last element of that `arange` -/
def stencilStop (nL : ℕ) : ℤ := (nL : ℤ) / 2 + 1

/-- `self._shifts[rIdx, cIdx, k] = floor(zDist/dz) + arange(-nL//2+1, nL//2+1)[k]` (:226-229) -/
def shifts [FloorRing K] (zDist dz : K) (nL : ℕ) : ℕ → ℤ :=
  fun k => ⌊zDist / dz⌋ + (stencilStart nL + (k : ℤ))

/-- index of the stencil node at or just below the foot (`Props/C10.stencil_centred`): `nL//2 - 1` for even `nL`
    (node 2 of 0..5 for the default 6 points) -/
def centre (nL : ℕ) : ℕ := (nL - 1) / 2

/-- `self._thetaShifts = dtheta*self._shifts` (:232) -/
def thetaShifts (dtheta : K) (sh : ℕ → ℤ) : ℕ → K := fun k => dtheta * (sh k : K)

/-- `zPts = z + dz*shifts` (:235, :244) -/
def zPts (z dz : K) (sh : ℕ → ℤ) : ℕ → K := fun k => z + dz * (sh k : K)

/-- `self._lagrangeCoeffs[rIdx, cIdx, j]` (:245-258): first barycentric formula
    `omega * lambda_j / (zPos - zPts_j)` with `omega = prod_k (zPos - zPts_k)`,
    `lambda_j = 1/prod_k (zPts_j - zPts_k + eye[j,k])`, and the `np.where(zPts == zPos, 1, ...)` branch -/
def lagrangeCoeffs (z dz zDist : K) (nL : ℕ) (sh : ℕ → ℤ) : ℕ → K :=
  let zP := zPts z dz sh
  let zPos := z + zDist
  let zDiff : ℕ → K := fun k => zPos - zP k
  let omega := prodRange nL zDiff
  fun j =>
    let lam := 1 / prodRange nL (fun k => zP j - zP k + (if j = k then 1 else 0))
    if zP j = zPos then 1 else omega * lam / zDiff j

/-- `vals[idx, :, j] = ...` : assignment of a whole theta line of the scratch array `self._LagrangeVals` -/
def setLine (vals : ℕ → ℕ → ℕ → K) (idx j : ℕ) (line : ℕ → K) : ℕ → ℕ → ℕ → K :=
  fun a q k => if a = idx ∧ k = j then line q else vals a q k

/-- `general_get_lagrange_vals(i, shifts, vals, qVals, thetaShifts, ...)`:
    `for j, s in enumerate(shifts): idx = (i - s) % nz; vals[idx, k, j] = spline_i(new_q[k])` -/
def getLagrangeVals (nz nL : ℕ) (S : ℕ → K → K) (pts : ℕ → ℕ → K) (sh : ℕ → ℤ) (i : ℕ)
    (vals : ℕ → ℕ → ℕ → K) : ℕ → ℕ → ℕ → K :=
  (List.range nL).foldl (fun v j => setLine v (pmod ((i : ℤ) - sh j) nz) j (fun q => S i (pts j q))) vals

/-- the loop `for i in range(nz): compute_interpolant(f[:, i]); get_lagrange_vals(i, ...)` of `step` (:280-289) -/
def allLagrangeVals (nz nL : ℕ) (S : ℕ → K → K) (pts : ℕ → ℕ → K) (sh : ℕ → ℤ)
    (vals0 : ℕ → ℕ → ℕ → K) : ℕ → ℕ → ℕ → K :=
  (List.range nz).foldl (fun v i => getLagrangeVals nz nL S pts sh i v) vals0

/-- `flux_advection`: `f[j, i] = coeffs[0]*vals[i, j, 0]; for k in range(1, len(coeffs)): f[j, i] += coeffs[k]*vals[i, j, k]` -/
def fluxAdvection (nL : ℕ) (c : ℕ → K) (vals : ℕ → ℕ → ℕ → K) : ℕ → ℕ → K :=
  fun q i => (List.range' 1 (nL - 1)).foldl (fun acc k => acc + c k * vals i q k) (c 0 * vals i q 0)

/-- the theta-spline as a function of the evaluation point: `eval_spline_1d_scalar(x, knots, degree, coeffs, 0)`
    (general kernel of Model/BSpline; `0` if the span search failed, which `Props/C07` excludes for sorted knots).
    The uniform-cubic kernel `cu_eval_spline_1d_scalar` represents the same function. -/
def splineFn (t : ℕ → K) (nk degree : ℕ) (c : ℕ → K) (x : K) : K :=
  (BSpline.evalSpline1D t nk degree c x false).getD 0

/-- `FluxSurfaceAdvection.step`: result `f'[q, i]` (theta index `q`, z index `i`).
    `vals0` is the previous content of the scratch array `self._LagrangeVals` (uninitialised at the first call) -/
def fluxStep (nz nL : ℕ) (S : ℕ → K → K) (pts : ℕ → ℕ → K) (sh : ℕ → ℤ) (c : ℕ → K)
    (vals0 : ℕ → ℕ → ℕ → K) : ℕ → ℕ → K :=
  fluxAdvection nL c (allLagrangeVals nz nL S pts sh vals0)

end PygyroVerif.FluxAdv
