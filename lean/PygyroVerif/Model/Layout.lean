/-
Model of `Layout` (pygyro/model/layout.py:9-194) and of the local-to-global accessors of `Grid`
(pygyro/model/grid.py:66-95) as functions of (layout, rank coordinates).

A layout is given by
  * `ord`    : dims_order, numpy axis k of the local block holds physical dimension `ord[k]`
  * `nprocs` : process counts per axis, padded with 1 up to `ord.length` (layout.py:57-61)
  * `ext`    : global extent of every physical dimension (`len(eta_grids[d])`)
and a process by its coordinates `c` (padded with 0).
Core Lean only.
-/
import PygyroVerif.Model.Blocks

namespace PygyroVerif

structure Layout where
  ord : List Nat
  nprocs : List Nat
  ext : List Nat
deriving Repr, DecidableEq

/-- pad a list with `d` up to length `n` (layout.py:57-61: `[1]*ndims` then overwrite). -/
def padTo (l : List Nat) (n d : Nat) : List Nat := l ++ List.replicate (n - l.length) d

/-- constructor as the code calls it: `Layout(name, nprocs, dims_order, eta_grids, myRank)` -/
def Layout.make (nprocsRaw ord ext : List Nat) : Layout :=
  { ord := ord, nprocs := padTo nprocsRaw ord.length 1, ext := ext }

namespace Layout

def ndims (L : Layout) : Nat := L.ord.length

/-- extent of the dimension stored at axis `i` -/
def extAt (L : Layout) (i : Nat) : Nat := L.ext.getD (L.ord.getD i 0) 0

def procsAt (L : Layout) (i : Nat) : Nat := L.nprocs.getD i 1

/-- `inv_dims_order` (layout.py:50-54) -/
def invOrd (L : Layout) : List Nat :=
  (List.range L.ndims).map (fun d => L.ord.idxOf d)

def startAt (L : Layout) (c : List Nat) (i : Nat) : Nat :=
  blockStart (L.extAt i) (L.procsAt i) (c.getD i 0)

def endAt (L : Layout) (c : List Nat) (i : Nat) : Nat :=
  blockStart (L.extAt i) (L.procsAt i) (c.getD i 0 + 1)

def starts (L : Layout) (c : List Nat) : List Nat := (List.range L.ndims).map (L.startAt c)
def ends (L : Layout) (c : List Nat) : List Nat := (List.range L.ndims).map (L.endAt c)

/-- `shape` (layout.py:96) -/
def shape (L : Layout) (c : List Nat) : List Nat :=
  (List.range L.ndims).map (fun i => L.endAt c i - L.startAt c i)

/-- `max_block_shape` (layout.py:97) -/
def maxShape (L : Layout) : List Nat :=
  (List.range L.ndims).map (fun i => maxBlock (L.extAt i) (L.procsAt i))

def fullShape (L : Layout) : List Nat := (List.range L.ndims).map L.extAt

def size (L : Layout) (c : List Nat) : Nat := (L.shape c).foldl (· * ·) 1
def maxSize (L : Layout) : Nat := L.maxShape.foldl (· * ·) 1

def mpiStartsAt (L : Layout) (i : Nat) : List Nat := mpiStarts (L.extAt i) (L.procsAt i)
def mpiLengthsAt (L : Layout) (i : Nat) : List Nat := mpiLengths (L.extAt i) (L.procsAt i)

/-- global index (by physical dimension id) of local index `idx` (by axis):
    `Grid.getGlobalIndices` (grid.py:89-95): `result[dims_order[i]] = indices[i] + starts[i]` -/
def toGlobal (L : Layout) (c : List Nat) (idx : List Nat) : List Nat :=
  (List.range L.ndims).map (fun d =>
    let i := L.ord.idxOf d
    idx.getD i 0 + L.startAt c i)

/-- `Grid.getGlobalIdxVals(i)`: `range(starts[i], ends[i])` -/
def globalIdxVals (L : Layout) (c : List Nat) (i : Nat) : List Nat :=
  (List.range (L.endAt c i - L.startAt c i)).map (· + L.startAt c i)

end Layout

/-- `Grid.getEta(i)` *as written* (grid.py:72-77) indexes with the inverse permutation:
   global indices of physical dimension `d` held locally. -/
def Layout.etaIdx (L : Layout) (c : List Nat) (d : Nat) : List Nat :=
  L.globalIdxVals c (L.ord.idxOf d)

end PygyroVerif
