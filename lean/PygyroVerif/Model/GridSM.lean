/-
Model of the buffer-rotation state machine of `Grid` (pygyro/model/grid.py:15-45, :134-200):
three (or two) memory blocks addressed through `_dataIdx`, `_buffIdx`, `_saveIdx`; `setLayout`,
user writes through `getAllData()`, `saveGridValues`, `restoreGridValues`, `freeGridSave`.

The layout manager's `transpose` enters through its *contract* (C01/C03): the destination block receives the
field in the new layout; the source block is left intact only when a spare buffer is passed; the spare buffer
is scratch.  A block is therefore either `garbage` or `holds field layout`.
Core Lean only.
-/
namespace PygyroVerif.GridSM

inductive Cell where
  | garbage
  | holds (field : Nat) (layout : Nat)
deriving Repr, DecidableEq, Inhabited

structure GState where
  dataIdx : Nat
  buffIdx : Nat
  saveIdx : Nat
  hasSave : Bool            -- allocateSaveMemory
  notSaved : Bool
  savedLayout : Nat         -- meaningful only while `notSaved = false`
  current : Nat             -- _current_layout_name
  cells : List Cell         -- _my_data (3 blocks with save memory, else 2)
deriving Repr, DecidableEq

inductive Op where
  | setLayout (l : Nat)
  | write (v : Nat)         -- the user overwrites the values through getAllData()
  | save
  | restore
  | free
deriving Repr, DecidableEq

/-- `Grid.__init__` followed by the user filling the grid with field `f` -/
def init (hasSave : Bool) (layout f : Nat) : GState :=
  { dataIdx := 0, buffIdx := 1, saveIdx := 2, hasSave := hasSave, notSaved := true, savedLayout := 0,
    current := layout,
    cells := if hasSave then [.holds f layout, .garbage, .garbage] else [.holds f layout, .garbage] }

def cellAt (s : GState) (i : Nat) : Cell := s.cells.getD i .garbage

/-- contract of `LayoutManager.transpose(source, dest, from, to, buf)` on cells -/
def transposeCells (cells : List Cell) (src dst : Nat) (buf : Option Nat) (newLayout : Nat) : List Cell :=
  let moved : Cell := match cells.getD src .garbage with
    | .holds f _ => .holds f newLayout
    | .garbage => .garbage
  match buf with
  | some b => (cells.set b .garbage).set dst moved          -- source intact, spare buffer is scratch
  | none => (cells.set src .garbage).set dst moved          -- source is used as scratch

/-- one operation; `none` = refused (AssertionError), state unchanged -/
def step (s : GState) : Op → Option GState
  | .setLayout l =>
    let cells := if s.hasSave && s.notSaved
      then transposeCells s.cells s.dataIdx s.buffIdx (some s.saveIdx) l       -- grid.py:138-144
      else transposeCells s.cells s.dataIdx s.buffIdx none l                   -- grid.py:146-150
    some { s with cells := cells, dataIdx := s.buffIdx, buffIdx := s.dataIdx, current := l }   -- :151-155
  | .write v => some { s with cells := s.cells.set s.dataIdx (.holds v s.current) }
  | .save =>                                                                     -- :168-178
    if s.hasSave && s.notSaved then
      some { s with cells := s.cells.set s.saveIdx (cellAt s s.dataIdx), savedLayout := s.current, notSaved := false }
    else none
  | .free =>                                                                     -- :180-186
    if s.hasSave && !s.notSaved then some { s with notSaved := true } else none
  | .restore =>                                                                  -- :188-200
    if s.hasSave && !s.notSaved then
      some { s with dataIdx := s.saveIdx, saveIdx := s.dataIdx, notSaved := true, current := s.savedLayout }
    else none

/-- run a history; refused operations leave the state unchanged and are recorded as `false` -/
def run (s : GState) : List Op → GState × List Bool
  | [] => (s, [])
  | op :: ops =>
    match step s op with
    | some s' => let (f, l) := run s' ops; (f, true :: l)
    | none => let (f, l) := run s ops; (f, false :: l)

/-! the specification: one undistributed array -/

structure Spec where
  field : Nat
  layout : Nat
  saved : Option (Nat × Nat)
  hasSave : Bool
deriving Repr, DecidableEq

def Spec.step (t : Spec) : Op → Option Spec
  | .setLayout l => some { t with layout := l }
  | .write v => some { t with field := v }
  | .save => if t.hasSave && t.saved.isNone then some { t with saved := some (t.field, t.layout) } else none
  | .free => if t.hasSave && t.saved.isSome then some { t with saved := none } else none
  | .restore => match t.saved with
    | some (f, l) => if t.hasSave then some { t with field := f, layout := l, saved := none } else none
    | none => none

def Spec.run (t : Spec) : List Op → Spec × List Bool
  | [] => (t, [])
  | op :: ops =>
    match t.step op with
    | some t' => let (f, l) := Spec.run t' ops; (f, true :: l)
    | none => let (f, l) := Spec.run t ops; (f, false :: l)

end PygyroVerif.GridSM
