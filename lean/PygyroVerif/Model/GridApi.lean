/-
Model of the READ-ONLY accessors of `Grid` (pygyro/model/grid.py:66-131, :157-166) that the grid-level loops of the operators go through,
in terms of the layout model of Model/Layout.lean (the definitions the C02 theorems are about) and the name state of Model/GridSM.lean.
`harness/translate_gridops.py` emits `Generated/GridOpsGen.lean` against this interface and REFUSES when the body of one of these
accessors in grid.py is no longer the text quoted below.

  grid.currentLayout               = self._current_layout_name                    ↦ `GridV.currentLayout` = `GridSM.GState.current`
  grid.getLayout(name)             = self._layout_manager.getLayout(name)          ↦ `GridV.getLayout name`  (a `Layout` of Model/Layout.lean)
  <layout>.dims_order                                                              ↦ `Layout.ord`
  self._layout (what the accessors below read)                                     ↦ `GridV.lay` = the layout of the current name
                                                                                      (`C04Gen.View.layout`: kept by every history of the source's methods)
  self._layout.starts / .ends / .shape                                             ↦ `Layout.starts` / `Layout.ends` / `Layout.shape` at the rank coordinates `GridV.crd`
  grid.getCoords(k)     = enumerate(self._Vals[dims_order[k]][starts[k]:ends[k]])  ↦ `GridV.getCoords k`   : pairs (local index, coordinate)
  grid.getCoordVals(k)  = self._Vals[dims_order[k]][starts[k]:ends[k]]             ↦ `GridV.getCoordVals k`: the value `Arg.coordVals dim lo hi`
  grid.getGlobalIdxVals(k) = range(starts[k], ends[k])                             ↦ `GridV.getGlobalIdxVals k` = `Layout.globalIdxVals` (C02.globalIdxVals_spec)
  grid.get2DSlice(i, j) / get1DSlice(i, j, k)  = self._f[i, j, :, :] / self._f[i, j, k, :]   after `assert len(slices) == nDims-2 / -1`
                                                                                   ↦ `GridV.get2DSlice tag [i, j]` / `get1DSlice`: the value `Arg.view tag [i, j]`,
                                                                                      `Arg.invalid` when the assert fails
  grid.getAllData()     = self._f                                                  ↦ `GridV.getAllData tag` = `Arg.view tag []`
  enumerate(l)                                                                     ↦ `enumerate l`

A coordinate VALUE `eta_grid[d][g]` is represented by the pair `(d, g)` (which physical dimension, which GLOBAL index); the slice of the local
block at the leading LOCAL indices `[i, j]` by `Arg.view tag [i, j]` (tag = the Python name of the grid).  Reading `starts[k]` / `ends[k]` for an
axis `k` ≥ the number of dimensions raises IndexError in Python; here `List.getD` gives 0 (an empty range) for `getCoords` / `getCoordVals`, and
`Layout.globalIdxVals` is whatever the layout arithmetic gives: the tie theorems state `k < ndims` where it matters.
Core Lean only.
-/
import PygyroVerif.Model.Layout
import PygyroVerif.Model.GridSM

namespace PygyroVerif.GridApi
open PygyroVerif

/-- the value `eta_grid[dim][gidx]`: (physical dimension, global index) -/
abbrev Coord := Nat × Nat

/-- what an argument of a kernel call is, as far as the grid-level loop determines it -/
inductive Arg where
  | idx (n : Nat)                        -- an integer (an index), with the value the loop gives it
  | idxs (l : List Nat)                  -- a `range` / list of indices used for fancy indexing
  | coord (dim gidx : Nat)               -- the coordinate value eta_grid[dim][gidx]
  | coordVals (dim lo hi : Nat)          -- the coordinate vector eta_grid[dim][lo:hi]
  | view (grid : String) (lidx : List Nat)   -- grid._f[lidx…, :, …]: the slice of the local block at the leading local indices
  | obj (name : String)                  -- an object the loop does not look into: `dt`, `self._quad_coeffs`, `constants.m`, a grid itself
  | un (f : String) (a : Arg)            -- `np.real(a)`
  | bin (f : String) (a b : Arg)         -- `a - b`, `a * b`
  | sub1 (a i : Arg)                     -- `a[i]`
  | sub2 (a i j : Arg)                   -- `a[i, j]`
  | sub3 (a i j k : Arg)                 -- `a[i, j, k]`
  | invalid                              -- the Python expression raises (failed assert of get2DSlice / get1DSlice)
deriving DecidableEq, Repr, Inhabited

/-- one call made by a grid-level loop: the callee as written in the source and its arguments bound to the callee's parameter names
    (`arg0`, `arg1`, … when the callee's definition is not in the repository sources the translator reads) -/
structure RawCall where
  callee : String
  args : List (String × Arg)
deriving DecidableEq, Repr

/-- what a method can read of a `Grid` through the accessors: the layouts of its layout manager by name, the coordinates of this process in
    the process grid of each layout, and the name state (Model/GridSM.lean) -/
structure GridV where
  layouts : Nat → Layout
  coords : Nat → List Nat
  state : GridSM.GState

namespace GridV

def currentLayout (g : GridV) : Nat := g.state.current
def getLayout (g : GridV) (name : Nat) : Layout := g.layouts name
/-- `self._layout` -/
def lay (g : GridV) : Layout := g.layouts g.state.current
def crd (g : GridV) : List Nat := g.coords g.state.current

def lo (g : GridV) (k : Nat) : Nat := (g.lay.starts g.crd).getD k 0
def hi (g : GridV) (k : Nat) : Nat := (g.lay.ends g.crd).getD k 0

def getCoords (g : GridV) (k : Nat) : List (Nat × Coord) :=
  (List.range (g.hi k - g.lo k)).map (fun i => (i, (g.lay.ord.getD k 0, g.lo k + i)))

def getCoordVals (g : GridV) (k : Nat) : Arg := .coordVals (g.lay.ord.getD k 0) (g.lo k) (g.hi k)

def getGlobalIdxVals (g : GridV) (k : Nat) : List Nat := g.lay.globalIdxVals g.crd k

def get2DSlice (g : GridV) (tag : String) (lidx : List Nat) : Arg :=
  if lidx.length + 2 = g.lay.ndims then .view tag lidx else .invalid

def get1DSlice (g : GridV) (tag : String) (lidx : List Nat) : Arg :=
  if lidx.length + 1 = g.lay.ndims then .view tag lidx else .invalid

def getAllData (_g : GridV) (tag : String) : Arg := .view tag []

end GridV

/-- Python's `enumerate` -/
def enumerate {α : Type} (l : List α) : List (Nat × α) := l.zipIdx.map (fun p => (p.2, p.1))

/-- `for a, b in <pairs>: <body>`: the calls of the body for every pair, in order -/
def forEnum {α β : Type} (l : List (Nat × α)) (f : Nat → α → List β) : List β := l.flatMap (fun p => f p.1 p.2)

end PygyroVerif.GridApi
