/-
Model of the uniform-cubic fast path, pygyro/splines/cubic_uniform_spline_eval_funcs.py.

  cu_find_span              :7-49     `cuFindSpan`   (`int(·)` is the parameter `trunc`; the drivers pass truncation
                                                       toward zero of a rational, the theorems assume `trunc q = ⌊q⌋` for `q ≥ 0`)
  cu_basis_funs             :53-88    `cuBasisFuns`  (closed forms, same association as the code)
  cu_basis_funs_1st_der     :92-130   `cuBasisFunsDer`
  cu_eval_spline_1d_scalar  :135-152  `cuEvalSpline1D`
  cu_eval_spline_2d_scalar  :186-220  `cuEvalSpline2D` (incl. the `theCoeffs` contraction order)

The "knot vector" handed to these kernels is the 4-array `[xmin, xmax, dx, ncells]` built in
`BSplines.__init__` (splines.py:109-111); `xmax` is never used by the kernels.  The knot vector the path *means*
is `uniformKnots xmin dx i = xmin + (i-3)·dx` (`Props/C07.cubic_eq_general`).
Span indices are integers (`int(normalised_pos)` is negative left of the domain); coefficient rows are addressed
through `Int.toNat`, which agrees with Python for every `x ≥ xmin` (the domain of the property).
-/
import PygyroVerif.Model.BSpline

namespace PygyroVerif.CubicUniform
open PygyroVerif.BSpline

variable {K : Type*} [Field K] [LinearOrder K]

/-- the uniform knot vector of the cubic path: `t_i = xmin + (i-3)·dx`, `i = 0 … ncells+6` -/
def uniformKnots (xmin dx : K) : ℕ → K := fun i => xmin + ((i : K) - 3) * dx

/-- `cu_find_span(xmin, xmax, dx, x, ncells)` → `(span, offset)` (:41-49) -/
def cuFindSpan (trunc : K → ℤ) (xmin dx x : K) (ncells : ℤ) : ℤ × K :=
  let normalisedPos := (x - xmin) / dx
  let span := trunc normalisedPos
  let offset := normalisedPos - (span : K)
  if span = ncells then (span + 2, 1) else (span + 3, offset)

/-- `cu_basis_funs(span, offset, values)` (:81-88) -/
def cuBasisFuns (offset : K) : List K :=
  let b := 1 - offset
  let o := offset
  let tmp := (1/2) * (1 + b * o)
  [b * b * b / 6, 1/6 + b * tmp, 1/6 + o * tmp, o * o * o / 6]

/-- `cu_basis_funs_1st_der(span, offset, dx, ders)` (:122-130) -/
def cuBasisFunsDer (offset dx : K) : List K :=
  let b := 1 - offset
  let o := offset
  let coeff := (1/2) / dx
  [-coeff * b * b, -coeff * (1 + 2 * b - 3 * b * b), coeff * (1 + 2 * o - 3 * o * o), coeff * o * o]

/-- basis (der = false) or first derivatives (der = true) -/
def cuBasisOrDer (offset dx : K) (der : Bool) : List K :=
  if der then cuBasisFunsDer offset dx else cuBasisFuns offset

/-- `cu_eval_spline_1d_scalar(x, [xmin, xmax, dx, ncells], 3, coeffs, der)` (:139-152) -/
def cuEvalSpline1D (trunc : K → ℤ) (xmin dx : K) (ncells : ℤ) (c : ℕ → K) (x : K) (der : Bool) : K :=
  let so := cuFindSpan trunc xmin dx x ncells
  dotFrom c (so.1 - 3).toNat (cuBasisOrDer so.2 dx der)

/-- `cu_eval_spline_2d_scalar` (:191-220): `z = Σ_i (Σ_j coeffs[s1-3+i, s2-3+j]·basis2[j])·basis1[i]` -/
def cuEvalSpline2D (trunc : K → ℤ) (xmin dx : K) (ncx : ℤ) (ymin dy : K) (ncy : ℤ) (c : ℕ → ℕ → K)
    (x y : K) (der1 der2 : Bool) : K :=
  let so1 := cuFindSpan trunc xmin dx x ncx
  let so2 := cuFindSpan trunc ymin dy y ncy
  let b1 := cuBasisOrDer so1.2 dx der1
  let b2 := cuBasisOrDer so2.2 dy der2
  b1.zipIdx.foldl (fun z (bi : K × ℕ) =>
    z + dotFrom (c ((so1.1 - 3).toNat + bi.2)) (so2.1 - 3).toNat b2 * bi.1) 0

end PygyroVerif.CubicUniform
