/-
Model of the parallel gradient, pygyro/advection/advection.py

  ParallelGradient.getCoeffsFirstDeriv   :78-97     `fdStart`, `fdShift`, `fwdSteps`, `bkwdSteps`, `MomentSystem`
  ParallelGradient._getThetaVals         :99-107    (positions = `FieldLine.fieldPts`; passed already reduced as `pts`)
  ParallelGradient.parallel_gradient     :109-160   `loopBody`, `loops`, `parallelGradient`, `numpyIdx`

The finite-difference weights are the output of `numpy.linalg.solve(A, b)` with `A[i, j] = (j+start)**i`, `b = e_1`:
an input `c` of the model with the contract `MomentSystem` (the harness measures the residual of what the real
solver returned).  `S i x` (theta-spline of row `i` of `phi_r`) and `pts j q` (`thetaVals[i, j, q]`, which does not
depend on the row `i`) are the same contracts as in Model/FluxAdv.lean.

`der` is `Option`-valued: `none` stands for numpy's `IndexError` in the middle loop (which addresses `der[i-s]`
without `% nz`, relying on numpy's wrap of negative indices); `Props/C13.pargrad_regimes_eq_mod` shows it never happens.
-/
import PygyroVerif.Model.FluxAdv

namespace PygyroVerif.ParGrad
open PygyroVerif.FieldLine

variable {K : Type*} [Field K]

/-- `start = 1-(n+1)//2` with `n = order+1` points (:82) -/
def fdStart (order : ℕ) : ℤ := 1 - (((order : ℤ) + 1 + 1) / 2)

/-- `self._shifts[j] = j + start` (:84) -/
def fdShift (order : ℕ) : ℕ → ℤ := fun j => (j : ℤ) + fdStart order

/-- `self._fwdSteps = -start` (:87) -/
def fwdSteps (order : ℕ) : ℕ := (-(fdStart order)).toNat

/-- `self._bkwdSteps = self._shifts[-1]` (:88) -/
def bkwdSteps (order : ℕ) : ℕ := (fdShift order order).toNat

/-- contract of `solve(A, b)` (:91-97): `Σ_j (j+start)^i · c_j = δ_{i,1}` for `i = 0..order` -/
def MomentSystem (order : ℕ) (c : ℕ → K) : Prop :=
  ∀ i, i ≤ order → sumRange (order + 1) (fun j => ((fdShift order j : ℤ) : K) ^ i * c j) = if i = 1 then 1 else 0

/-- numpy's resolution of an integer index `a` on an axis of length `n`: negative indices count from the end,
    anything outside `[-n, n)` is an `IndexError` (`none`) -/
def numpyIdx (n : ℕ) (a : ℤ) : Option ℕ :=
  if 0 ≤ a ∧ a < (n : ℤ) then some a.toNat
  else if -(n : ℤ) ≤ a ∧ a < 0 then some (a + (n : ℤ)).toNat
  else none

/-- row addressed by `der[(i-s) % self._nz, :]` (first and third loop, :142, :156) -/
def modRow (nz : ℕ) (i : ℕ) (s : ℤ) : Option ℕ := some (pmod ((i : ℤ) - s) nz)

/-- row addressed by `der[(i-s), :]` (second loop, :149) -/
def rawRow (nz : ℕ) (i : ℕ) (s : ℤ) : Option ℕ := numpyIdx nz ((i : ℤ) - s)

/-- row addressed for input row `i` and shift `s`, by the loop that handles `i` -/
def regimeRow (nz order : ℕ) (i : ℕ) (s : ℤ) : Option ℕ :=
  if i < fwdSteps order then modRow nz i s
  else if i < nz - bkwdSteps order then rawRow nz i s
  else modRow nz i s

/-- `der[row, :] += c*tmp` -/
def addRow (der : Option (ℕ → ℕ → K)) (row : Option ℕ) (c : K) (tmp : ℕ → K) : Option (ℕ → ℕ → K) :=
  match der, row with
  | some d, some r => some (fun a q => if a = r then d a q + c * tmp q else d a q)
  | _, _ => none

/-- body of each of the three loops for input row `i`:
    `compute_interpolant(phi_r[i, :]); for j, (s, c) in enumerate(zip(shifts, coeffs)): tmp = spline(thetaVals[i, j, :]); der[row(i, s), :] += c*tmp` -/
def loopBody (row : ℕ → ℤ → Option ℕ) (order : ℕ) (S : ℕ → K → K) (pts : ℕ → ℕ → K) (c : ℕ → K)
    (der : Option (ℕ → ℕ → K)) (i : ℕ) : Option (ℕ → ℕ → K) :=
  (List.range (order + 1)).foldl
    (fun d j => addRow d (row i (fdShift order j)) (c j) (fun q => S i (pts j q))) der

/-- the three loops (:137-156): `range(fwd)`, `range(fwd, nz-bkwd)`, `range(nz-bkwd, nz)`, starting from `der[:] = 0` -/
def loops (nz order : ℕ) (S : ℕ → K → K) (pts : ℕ → ℕ → K) (c : ℕ → K) : Option (ℕ → ℕ → K) :=
  let fwd := fwdSteps order
  let bk := bkwdSteps order
  let d0 : Option (ℕ → ℕ → K) := some (fun _ _ => 0)
  let d1 := (List.range fwd).foldl (loopBody (modRow nz) order S pts c) d0
  let d2 := (List.range' fwd (nz - bk - fwd)).foldl (loopBody (rawRow nz) order S pts c) d1
  (List.range' (nz - bk) (nz - (nz - bk))).foldl (loopBody (modRow nz) order S pts c) d2

/-- `ParallelGradient.parallel_gradient(phi_r, i, der)`: `der *= bz * inv_dz` with `inv_dz = 1.0/dz` (:57, :158);
    result `der[a][q]` (z index `a`, theta index `q`); refused (`assert self._nz > order`, :50) unless `order < nz` -/
def parallelGradient (nz order : ℕ) (S : ℕ → K → K) (pts : ℕ → ℕ → K) (c : ℕ → K) (bz dz : K) :
    Option (ℕ → ℕ → K) :=
  if order < nz then
    (loops nz order S pts c).map (fun d a q => d a q * (bz * (1 / dz)))
  else none

end PygyroVerif.ParGrad
