/-
Model of the general (non-uniform) B-spline kernels, pygyro/splines/spline_eval_funcs.py.

  nu_find_span              :7-57     `findSpan`  (binary search; `while` = recursion with fuel `high-low+1`,
                                                    `Props/C07.findSpan_some_correct` shows the fuel suffices for sorted knots)
  nu_basis_funs             :64-111   `basisFuns` (Algorithm A2.2 with the `saved/temp` inner loop, same order of operations)
  nu_basis_funs_1st_der     :116-166  `basisFunsDer`
  nu_eval_spline_1d_scalar  :171-187  `evalSpline1D`
  nu_eval_spline_2d_scalar  :216-246  `evalSpline2D` (incl. the `theCoeffs` contraction order)

Knots and coefficients are accessed through functions `ℕ → K` (a Python array `a` is `fun i => a[i]`);
the drivers build them from lists with `List.getD · · 0`.  All definitions are over an arbitrary field with a
decidable linear order; the drivers instantiate `K := ℚ` (every IEEE double is a rational).
-/
import Mathlib.Algebra.Order.Field.Basic

namespace PygyroVerif.BSpline

variable {K : Type*} [Field K] [LinearOrder K]

/-- the `while x < knots[span] or x >= knots[span+1]` loop of `nu_find_span` (:45-51) -/
def findSpanLoop (t : ℕ → K) (x : K) : ℕ → ℕ → ℕ → Option ℕ
  | 0, _, _ => none
  | fuel+1, low, high =>
    let span := (low + high) / 2
    if x < t span ∨ t (span+1) ≤ x then
      if x < t span then findSpanLoop t x fuel low span
      else findSpanLoop t x fuel span high
    else some span

/-- `nu_find_span(knots, degree, x)`; `nk = len(knots)` -/
def findSpan (t : ℕ → K) (nk degree : ℕ) (x : K) : Option ℕ :=
  let low := degree
  let high := nk - 1 - degree
  if x ≤ t low then some low
  else if t high ≤ x then some (high - 1)
  else findSpanLoop t x (high - low + 1) low high

/-- inner loop of A2.2 (:103-107): consumes `values[r..]`, carries `saved`; returns the new `values[r..j+1]` -/
def innerLoop (left right : ℕ → K) (j : ℕ) : ℕ → List K → K → List K
  | _, [], saved => [saved]
  | r, v :: vs, saved =>
      let temp := v / (right r + left (j - r))
      (saved + right r * temp) :: innerLoop left right j (r+1) vs (left (j - r) * temp)

/-- `values[0..j]` after `j` sweeps of the outer loop -/
def levels (left right : ℕ → K) : ℕ → List K
  | 0 => [1]
  | j+1 => innerLoop left right j 0 (levels left right j) 0

/-- `left[k] = x - knots[span-k]` (:99) -/
def leftOf (t : ℕ → K) (span : ℕ) (x : K) : ℕ → K := fun k => x - t (span - k)
/-- `right[k] = knots[span+1+k] - x` (:100) -/
def rightOf (t : ℕ → K) (span : ℕ) (x : K) : ℕ → K := fun k => t (span + 1 + k) - x

/-- `nu_basis_funs(knots, degree, x, span, values)`: the `degree+1` values -/
def basisFuns (t : ℕ → K) (degree : ℕ) (x : K) (span : ℕ) : List K :=
  levels (leftOf t span x) (rightOf t span x) degree

/-- `saved` of step `j` in `nu_basis_funs_1st_der` (:153,:159) -/
def derSaved (t : ℕ → K) (degree : ℕ) (span : ℕ) (values : List K) (j : ℕ) : K :=
  (degree : K) * values.getD j 0 / (t (span + j + 1) - t (span + j + 1 - degree))

/-- `nu_basis_funs_1st_der(knots, degree, x, span, ders)` for `degree ≥ 1`:
    `ders[j] = saved_{j-1} - saved_j` with `saved_{-1} = saved_{degree} = 0` -/
def basisFunsDer (t : ℕ → K) (degree : ℕ) (x : K) (span : ℕ) : List K :=
  let values := basisFuns t (degree - 1) x span
  (List.range (degree + 1)).map (fun j =>
    (if j = 0 then 0 else derSaved t degree span values (j - 1)) -
    (if j < degree then derSaved t degree span values j else 0))

/-- basis (der = false) or first derivatives (der = true) -/
def basisOrDer (t : ℕ → K) (degree : ℕ) (x : K) (span : ℕ) (der : Bool) : List K :=
  if der then basisFunsDer t degree x span else basisFuns t degree x span

/-- the accumulation loop `y += coeffs[span-degree+j]*basis[j]` (:184-186), left to right from 0 -/
def dotFrom (c : ℕ → K) (start : ℕ) (basis : List K) : K :=
  (basis.zipIdx.foldl (fun acc (bj : K × ℕ) => acc + c (start + bj.2) * bj.1) 0)

/-- `nu_eval_spline_1d_scalar(x, knots, degree, coeffs, der)`; `none` iff the span search runs out of fuel -/
def evalSpline1D (t : ℕ → K) (nk degree : ℕ) (c : ℕ → K) (x : K) (der : Bool) : Option K :=
  (findSpan t nk degree x).map (fun span => dotFrom c (span - degree) (basisOrDer t degree x span der))

/-- `nu_eval_spline_2d_scalar`: `z = Σ_i (Σ_j coeffs[s1-d1+i, s2-d2+j]·basis2[j])·basis1[i]` (:237-245) -/
def evalSpline2D (t1 : ℕ → K) (nk1 deg1 : ℕ) (t2 : ℕ → K) (nk2 deg2 : ℕ) (c : ℕ → ℕ → K)
    (x y : K) (der1 der2 : Bool) : Option K :=
  match findSpan t1 nk1 deg1 x, findSpan t2 nk2 deg2 y with
  | some s1, some s2 =>
    let b1 := basisOrDer t1 deg1 x s1 der1
    let b2 := basisOrDer t2 deg2 y s2 der2
    some (b1.zipIdx.foldl (fun z (bi : K × ℕ) =>
      z + dotFrom (c (s1 - deg1 + bi.2)) (s2 - deg2) b2 * bi.1) 0)
  | _, _ => none

/-- Cox–de Boor recursion with the 0/0 := 0 convention made explicit (the specification) -/
def N (t : ℕ → K) : ℕ → ℕ → K → K
  | 0, i, x => if t i ≤ x ∧ x < t (i+1) then 1 else 0
  | p+1, i, x =>
      (if t (i+p+1) - t i = 0 then 0 else (x - t i) / (t (i+p+1) - t i) * N t p i x) +
      (if t (i+p+2) - t (i+1) = 0 then 0 else (t (i+p+2) - x) / (t (i+p+2) - t (i+1)) * N t p (i+1) x)

end PygyroVerif.BSpline
