/-
JSON-lines plumbing shared by all model drivers (`lake env lean --run Drivers/<X>.lean`).
Core Lean only.  One request per line on stdin, one reply per line on stdout.
Rationals travel as strings "num/den" (or a plain integer string), never as floats.
-/
import Lean.Data.Json

namespace PygyroVerif.DriverUtil
open Lean

abbrev R := Except String

def field (j : Json) (k : String) : R Json :=
  match j.getObjVal? k with
  | .ok v => .ok v
  | .error _ => .error s!"missing field {k}"

def natOf (j : Json) : R Nat :=
  match j.getNat? with
  | .ok v => .ok v
  | .error e => .error s!"nat expected: {e}"

def intOf (j : Json) : R Int :=
  match j.getInt? with
  | .ok v => .ok v
  | .error e => .error s!"int expected: {e}"

def strOf (j : Json) : R String :=
  match j.getStr? with
  | .ok v => .ok v
  | .error e => .error s!"string expected: {e}"

def boolOf (j : Json) : R Bool :=
  match j.getBool? with
  | .ok v => .ok v
  | .error e => .error s!"bool expected: {e}"

def arrOf (j : Json) : R (Array Json) :=
  match j.getArr? with
  | .ok v => .ok v
  | .error e => .error s!"array expected: {e}"

def listOf {α} (f : Json → R α) (j : Json) : R (List α) := do
  let a ← arrOf j
  a.toList.mapM f

def natList (j : Json) : R (List Nat) := listOf natOf j
def intList (j : Json) : R (List Int) := listOf intOf j

def fNat (j : Json) (k : String) : R Nat := do natOf (← field j k)
def fInt (j : Json) (k : String) : R Int := do intOf (← field j k)
def fStr (j : Json) (k : String) : R String := do strOf (← field j k)
def fBool (j : Json) (k : String) : R Bool := do boolOf (← field j k)
def fNatList (j : Json) (k : String) : R (List Nat) := do natList (← field j k)
def fIntList (j : Json) (k : String) : R (List Int) := do intList (← field j k)
def fList {α} (f : Json → R α) (j : Json) (k : String) : R (List α) := do listOf f (← field j k)

/-- parse "num/den" or "num" -/
def ratOfString (s : String) : R Rat :=
  match s.splitOn "/" with
  | [n] => match n.toInt? with
    | some k => .ok (k : Rat)
    | none => .error s!"bad rational {s}"
  | [n, d] => match n.toInt?, d.toNat? with
    | some k, some m => if m = 0 then .error s!"zero denominator {s}" else .ok (mkRat k m)
    | _, _ => .error s!"bad rational {s}"
  | _ => .error s!"bad rational {s}"

def ratOf (j : Json) : R Rat := do ratOfString (← strOf j)
def ratList (j : Json) : R (List Rat) := listOf ratOf j
def fRat (j : Json) (k : String) : R Rat := do ratOf (← field j k)
def fRatList (j : Json) (k : String) : R (List Rat) := do ratList (← field j k)

def ratToString (q : Rat) : String :=
  if q.den = 1 then toString q.num else s!"{q.num}/{q.den}"

def jRat (q : Rat) : Json := Json.str (ratToString q)
def jRats (l : List Rat) : Json := Json.arr (l.map jRat).toArray
def jNat (n : Nat) : Json := toJson n
def jInt (n : Int) : Json := toJson n
def jNats (l : List Nat) : Json := Json.arr (l.map jNat).toArray
def jInts (l : List Int) : Json := Json.arr (l.map jInt).toArray
def jList {α} (f : α → Json) (l : List α) : Json := Json.arr (l.map f).toArray
def jOptNat : Option Nat → Json
  | some n => jNat n
  | none => Json.null
def obj (kvs : List (String × Json)) : Json := Json.mkObj kvs

partial def loop (hin hout : IO.FS.Stream) (handle : Json → R Json) : IO Unit := do
  let line ← hin.getLine
  if line.isEmpty then return ()
  if line.trimAscii.isEmpty then
    loop hin hout handle
  else
    let r : R Json := match Json.parse line with
      | .ok j => handle j
      | .error e => .error s!"parse: {e}"
    match r with
    | .ok j => hout.putStrLn j.compress
    | .error e => hout.putStrLn (Json.mkObj [("error", Json.str e)]).compress
    hout.flush
    loop hin hout handle

def serve (handle : Json → R Json) : IO Unit := do
  loop (← IO.getStdin) (← IO.getStdout) handle

end PygyroVerif.DriverUtil
