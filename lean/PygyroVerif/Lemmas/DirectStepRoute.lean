/-
Bridge theorem of C01, routes: the step contract of `Lemmas/Route.lean` with bounded roles (the executable step can
only be correct for roles that exist in the world), the route-following theorems for it, and the executable
`directStepT` as an instance.
-/
import PygyroVerif.Lemmas.DirectStep

namespace PygyroVerif.DS
open PygyroVerif PygyroVerif.Handler PygyroVerif.Route

variable {α : Type}

/-- `Route.StepOK` for the roles `< nr` only.  (`Route.StepOK` quantifies over *all* role numbers; no executable step
    can satisfy it, because writing to a role the world does not have is a no-op.) -/
def StepOKR (nr : Nat) (step : Step α) (P : Nat → Array (Array α) → Prop) (conn : Nat → Nat → Prop)
    (I : World α → Prop) : Prop :=
  ∀ iS iD x y z (w : World α), x < nr → y < nr → z < nr → I w → conn iS iD → y ≠ x → y ≠ z → P iS (w.getD x #[]) →
    ∃ w', step iS iD x y z w = .ok w' ∧ P iD (w'.getD y #[]) ∧ I w' ∧
      ∀ r, r ≠ y → r ≠ z → w'.getD r #[] = w.getD r #[]

theorem fold_steps_R (nr : Nat) (step : Step α) (P : Nat → Array (Array α) → Prop) (conn : Nat → Nat → Prop)
    (I : World α → Prop) (hstep : StepOKR nr step P conn I) :
    ∀ (steps : List Nat) (now fromB toB : Nat) (w : World α), fromB < nr → toB < nr → I w → fromB ≠ toB →
      IsPath conn now steps → P now (w.getD fromB #[]) →
      ∃ w' a b, steps.foldlM (loopBody step) (w, now, fromB, toB) = .ok (w', lastOf now steps, a, b) ∧
        P (lastOf now steps) (w'.getD a #[]) ∧ I w' ∧
        ((steps.length % 2 = 0 ∧ a = fromB ∧ b = toB) ∨ (steps.length % 2 = 1 ∧ a = toB ∧ b = fromB)) ∧
        ∀ r, r ≠ fromB → r ≠ toB → w'.getD r #[] = w.getD r #[] := by
  intro steps
  induction steps with
  | nil =>
    intro now fromB toB w _ _ hI _ _ hP
    exact ⟨w, fromB, toB, rfl, hP, hI, Or.inl ⟨rfl, rfl, rfl⟩, fun _ _ _ => rfl⟩
  | cons next rest ih =>
    intro now fromB toB w hf ht hI hne hpath hP
    obtain ⟨hc, hrest⟩ := hpath
    obtain ⟨w1, h1, hP1, hI1, hfr1⟩ := hstep now next fromB toB fromB w hf ht hf hI hc (Ne.symm hne) (Ne.symm hne) hP
    obtain ⟨w', a, b, h2, hP2, hI2, hpar, hfr2⟩ := ih next toB fromB w1 ht hf hI1 (Ne.symm hne) hrest hP1
    refine ⟨w', a, b, ?_, hP2, hI2, ?_, ?_⟩
    · rw [List.foldlM_cons]
      simp only [loopBody, h1]
      exact h2
    · rcases hpar with ⟨hl, ha, hb⟩ | ⟨hl, ha, hb⟩
      · right; refine ⟨?_, ha, hb⟩; simp only [List.length_cons]; omega
      · left; refine ⟨?_, ha, hb⟩; simp only [List.length_cons]; omega
    · intro r hr1 hr2
      rw [hfr2 r hr2 hr1, hfr1 r hr2 hr1]

variable [Inhabited α]

/-- following a route without spare buffer (`_transposeRedirect`), for a step correct on the roles `0, 1` -/
theorem route_nobuf_R (nr : Nat) (hnr : 2 ≤ nr) (step : Step α) (P : Nat → Array (Array α) → Prop)
    (conn : Nat → Nat → Prop) (I : World α → Prop) (n : Nat)
    (hI : ∀ w, I w → 1 < w.size ∧ (w.getD 0 #[]).size = n ∧ ∀ r, r < n → (World.get w 1 r).size = (World.get w 0 r).size)
    (hstep : StepOKR nr step P conn I) (steps : List Nat) (iS : Nat) (w : World α) (hw : I w)
    (hne : steps ≠ []) (hpath : IsPath conn iS steps) (hP : P iS (w.getD 0 #[])) :
    ∃ w', followRoute step n steps iS false w = .ok w' ∧ P (lastOf iS steps) (w'.getD 1 #[]) := by
  match steps, hne, hpath with
  | [iD], _, hpath =>
    obtain ⟨w', h1, hP1, _⟩ := hstep iS iD 0 1 0 w (by omega) (by omega) (by omega) hw hpath.1 (by decide) (by decide) hP
    exact ⟨w', by simp [followRoute, h1], hP1⟩
  | first :: second :: rest, _, hpath =>
    obtain ⟨w', a, b, hf, hPa, hI', hpar, _⟩ :=
      fold_steps_R nr step P conn I hstep (first :: second :: rest) iS 0 1 w (by omega) (by omega) hw (by decide) hpath hP
    rcases hpar with ⟨hl, ha, _⟩ | ⟨hl, ha, _⟩
    · subst ha
      refine ⟨copyWhole n w' 0 1, ?_, ?_⟩
      · simp only [followRoute, Bool.not_false, ↓reduceIte, hf, hl]
        rfl
      · obtain ⟨i1, i2, i3⟩ := hI w' hI'
        rw [(Buffers.copyWhole_spec n w' i1 i2 i3).1]; exact hPa
    · subst ha
      refine ⟨w', ?_, hPa⟩
      simp only [followRoute, Bool.not_false, ↓reduceIte, hf]
      have : ¬ ((first :: second :: rest).length % 2 = 0) := by omega
      simp only [this, ↓reduceIte]
      rfl

/-- following a route with a spare buffer (`_transposeRedirect_source_intact`), for a step correct on the roles
    `0, 1, 2`: the field arrives in role 1 and role 0 is untouched -/
theorem route_buf_R (nr : Nat) (hnr : 3 ≤ nr) (step : Step α) (P : Nat → Array (Array α) → Prop)
    (conn : Nat → Nat → Prop) (I : World α → Prop) (hstep : StepOKR nr step P conn I) (n : Nat) (steps : List Nat)
    (iS : Nat) (w : World α) (hw : I w)
    (hne : steps ≠ []) (hpath : IsPath conn iS steps) (hP : P iS (w.getD 0 #[])) :
    ∃ w', followRoute step n steps iS true w = .ok w' ∧ P (lastOf iS steps) (w'.getD 1 #[]) ∧
      w'.getD 0 #[] = w.getD 0 #[] := by
  match steps, hne, hpath with
  | [iD], _, hpath =>
    obtain ⟨w', h1, hP1, _, hfr⟩ := hstep iS iD 0 1 2 w (by omega) (by omega) (by omega) hw hpath.1 (by decide) (by decide) hP
    exact ⟨w', by simp [followRoute, h1], hP1, hfr 0 (by decide) (by decide)⟩
  | first :: second :: rest, _, hpath =>
    obtain ⟨hc, hrest⟩ := hpath
    by_cases hev : (first :: second :: rest).length % 2 = 0
    · obtain ⟨w1, h1, hP1, hI1, hfr1⟩ := hstep iS first 0 2 1 w (by omega) (by omega) (by omega) hw hc (by decide) (by decide) hP
      obtain ⟨w', a, b, hf, hPa, _, hpar, hfr2⟩ :=
        fold_steps_R nr step P conn I hstep (second :: rest) first 2 1 w1 (by omega) (by omega) hI1 (by decide) hrest hP1
      have hlen : (second :: rest).length % 2 = 1 := by simp only [List.length_cons] at hev ⊢; omega
      rcases hpar with ⟨hl, _, _⟩ | ⟨_, ha, _⟩
      · omega
      · subst ha
        refine ⟨w', ?_, hPa, ?_⟩
        · simp only [followRoute, Bool.not_true, Bool.false_eq_true, ↓reduceIte, hev, h1, bind, Except.bind]
          simp only [pure, Except.pure, hf]
        · rw [hfr2 0 (by decide) (by decide), hfr1 0 (by decide) (by decide)]
    · obtain ⟨w1, h1, hP1, hI1, hfr1⟩ := hstep iS first 0 1 2 w (by omega) (by omega) (by omega) hw hc (by decide) (by decide) hP
      obtain ⟨w', a, b, hf, hPa, _, hpar, hfr2⟩ :=
        fold_steps_R nr step P conn I hstep (second :: rest) first 1 2 w1 (by omega) (by omega) hI1 (by decide) hrest hP1
      have hlen : (second :: rest).length % 2 = 0 := by simp only [List.length_cons] at hev ⊢; omega
      rcases hpar with ⟨_, ha, _⟩ | ⟨hl, _, _⟩
      · subst ha
        refine ⟨w', ?_, hPa, ?_⟩
        · simp only [followRoute, Bool.not_true, Bool.false_eq_true, ↓reduceIte, hev, h1, bind, Except.bind]
          simp only [pure, Except.pure, hf]
        · rw [hfr2 0 (by decide) (by decide), hfr1 0 (by decide) (by decide)]
      · omega

/-! ### the executable step as an instance -/

/-- shape of the memory of a grid: at least `nr` roles, every role has one buffer per rank, every buffer has at least
    `B rank` cells, and `dest` (role 1) is as long as `source` (role 0) -/
def WorldOK (nr n : Nat) (B : Nat → Nat) (w : World α) : Prop :=
  nr ≤ w.size ∧
  (∀ role, role < nr → (w.getD role #[]).size = n ∧ ∀ rank, rank < n → B rank ≤ (World.get w role rank).size) ∧
  (∀ rank, rank < n → (World.get w 1 rank).size = (World.get w 0 rank).size)

/-- a direct connection the buffers are large enough for -/
def ConnB (h : Handler) (T : Topo) (B : Nat → Nat) (iS iD : Nat) : Prop :=
  PairOK h.nprocs (h.orders.getD iS []) (h.orders.getD iD []) h.ext ∧
  compatible h.nprocs (h.orders.getD iS []) (h.orders.getD iD []) = true ∧
  ∀ rank, rank < T.nRanks → needSize h.nprocs (h.orders.getD iS []) (h.orders.getD iD []) h.ext (T.coords rank) ≤ B rank

/-- the executable direct step satisfies the (role-bounded) step contract -/
theorem directStepT_stepOK (nr : Nat) (T : Topo) (h : Handler) (hT : TopoOK T h.nprocs) (B : Nat → Nat) (G : List Nat → α) :
    StepOKR nr (directStepT true T h) (fun i arrs => HoldsWorld T (h.layoutAt i) G arrs) (ConnB h T B)
      (WorldOK nr T.nRanks B) := by
  intro iS iD x y z w hx hy hz hI hconn hyx hyz hP
  obtain ⟨i1, i2, i3⟩ := hI
  obtain ⟨c1, c2, c3⟩ := hconn
  obtain ⟨w', h1, h2, h3, h4, h5, h6⟩ := directStepT_correct T h iS iD x y z w G c1 c2 hT hyx hyz (by omega) (by omega)
    (by rw [(i2 y hy).1]) (by rw [(i2 z hz).1])
    (fun rank hr => Nat.le_trans (c3 rank hr) ((i2 y hy).2 rank hr))
    (fun rank hr => Nat.le_trans (c3 rank hr) ((i2 z hz).2 rank hr)) hP
  refine ⟨w', h1, h2, ⟨by rw [h4]; exact i1, ?_, ?_⟩, h3⟩
  · intro role hr
    refine ⟨by rw [h5 role]; exact (i2 role hr).1, ?_⟩
    intro rank hrk
    rw [h6 role rank]; exact (i2 role hr).2 rank hrk
  · intro rank hrk
    rw [h6 1 rank, h6 0 rank]; exact i3 rank hrk

/-! ### `transpose`: the asserts, the same-layout copy, the stored routes -/

/-- a `for` loop of asserts none of which fires -/
theorem forIn_asserts_ok (l : List Nat) (f : Nat → PUnit → Except String (ForInStep PUnit))
    (hf : ∀ r, r ∈ l → f r PUnit.unit = .ok (ForInStep.yield PUnit.unit)) :
    forIn l PUnit.unit f = .ok PUnit.unit := by
  induction l with
  | nil => rfl
  | cons a t ih =>
    rw [List.forIn_cons, hf a (by simp)]
    simp only [bind, Except.bind]
    exact ih (fun r hr => hf r (by simp [hr]))

omit [Inhabited α] in
/-- a pure loop over the ranks whose iteration `rank` only replaces the buffer of role `y` on that rank -/
theorem foldRanks_pure (y : Nat) (body : World α → Nat → World α) (w : World α) (out : Nat → Array α)
    (hy : y < w.size) :
    ∀ n, n ≤ (w.getD y #[]).size →
      (∀ acc rank, rank < n → (∀ role, role ≠ y → acc.getD role #[] = w.getD role #[]) →
        World.get acc y rank = World.get w y rank → body acc rank = World.set acc y rank (out rank)) →
      (List.range n).foldl body w = setAll n y out w := by
  intro n
  induction n with
  | zero => intro _ _; rfl
  | succ n ih =>
    intro hn hbody
    rw [List.range_succ, List.foldl_append, ih (by omega) (fun acc rank hr => hbody acc rank (by omega))]
    obtain ⟨_, h2, _, h4⟩ := setAll_spec y out w hy n (by omega)
    have := hbody (setAll n y out w) n (by omega) h2 (by rw [h4 n]; simp)
    simp only [List.foldl_cons, List.foldl_nil, this]
    rw [setAll_succ]

/-- `dest[:size] = source[:size]` keeps a block that the source holds -/
theorem holdsBlock_copyPrefix (L : Layout) (c : List Nat) (G : List Nat → α) (src dst : Array α)
    (hsrc : HoldsBlock L c G src) (hsz : dst.size = src.size) :
    HoldsBlock L c G (copyPrefix dst src (L.size c)) := by
  intro idx hidx
  have hlt := Addr.ravel_lt idx (L.shape c) ((inBox_iff_addr _ _).mp hidx)
  have hfit := holdsBlock_size L c G src hsrc
  rw [Buffers.copyPrefix_eq, Buffers.writeRange_get?, size_eq_prod, if_pos ⟨hlt, by omega⟩, Array.getD_eq_getD_getElem?,
    hsrc idx hidx, Option.getD_some]

theorem diffAxes_symm (np o1 o2 : List Nat) : diffAxes np o1 o2 = diffAxes np o2 o1 := by
  unfold diffAxes
  apply List.filter_congr
  intro i _
  have : (o1.getD i 0 ≠ o2.getD i 0) = (o2.getD i 0 ≠ o1.getD i 0) := propext ⟨Ne.symm, Ne.symm⟩
  simp only [this]

theorem compatible_symm (np o1 o2 : List Nat) : compatible np o1 o2 = compatible np o2 o1 := by
  unfold compatible; rw [diffAxes_symm]

/-- transport a path along an implication that may use that the current layout index is in range -/
theorem isPath_of_bounded (c1 c2 : Nat → Nat → Prop) (n : Nat)
    (hc : ∀ a b, a < n → c1 a b → b < n ∧ c2 a b) :
    ∀ (route : List Nat) (a : Nat), a < n → IsPath c1 a route → IsPath c2 a route
  | [], _, _, _ => trivial
  | b :: rest, a, ha, hp => by
    obtain ⟨hb, hcb⟩ := hc a b ha hp.1
    exact ⟨hcb, isPath_of_bounded c1 c2 n hc rest b hb hp.2⟩

/-- the multi-indices of a 2-D box (used to exhibit concrete instances of `HoldsBlock`) -/
theorem inBox_two (idx : List Nat) (a b : Nat) (h : CopyBox.InBox idx [a, b]) :
    ∃ i j, idx = [i, j] ∧ i < a ∧ j < b := by
  match idx, h with
  | [i, j], h => exact ⟨i, j, rfl, h.1, h.2.1⟩
  | [], h => exact absurd h (by simp [CopyBox.InBox])
  | [_], h => exact absurd h.2 (by simp [CopyBox.InBox])
  | _ :: _ :: _ :: _, h => exact absurd h.2.2 (by simp [CopyBox.InBox])

end PygyroVerif.DS
