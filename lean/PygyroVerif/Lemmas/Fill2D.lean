/-
A generic lemma for the tie theorems of Props/C05Gen.lean: two nested `for … in enumerate(…)` loops that write `a[i, j] = <value at (i, j)>`, as
harness/translate_pure.py emits them (structurally recursive functions over a record `S` of all locals).  Stated once, for ANY state type, result type and
pair of loop functions that satisfy the recursion equations (`Fill2`); every generated filler instantiates it, each field by unfolding (`rfl`).

  `L`  the inner loop: `L (n+1) j σ = L n (j+1) (step σ j)`; `step` writes `a[row, j] = w σ j` (`w` = the value in terms of the locals of the current row)
  `O`  the outer loop: one iteration = `pre` (the loop variables of the row), the inner loop over `ncols` columns, next iteration
  `g`  the value in terms of the PARAMETERS only (`g σ i j`, not changed by `step` / `pre`); `w (pre σ i) j = g σ i j`
Conclusion (`fill2_outer`): after `n` rows from `i0`, `a[i, j] = g σ i j` for `i0 ≤ i < i0+n`, `j < ncols`, every other entry is what it was.
-/
import Mathlib.Data.Rat.Defs
import Mathlib.Tactic.Ring

namespace PygyroVerif.Fill2D

structure Fill2 {S R : Type} (ok : S → R) (get g : S → ℕ → ℕ → ℚ) (w : S → ℕ → ℚ) (row ncols : S → ℕ) (O L : ℕ → ℕ → S → R) (pre step : S → ℕ → S) : Prop where
  L0 : ∀ j σ, L 0 j σ = ok σ
  Ls : ∀ n j σ, L (n + 1) j σ = L n (j + 1) (step σ j)
  O0 : ∀ i σ, O 0 i σ = ok σ
  Os : ∀ n i σ σ', L (ncols σ) 0 (pre σ i) = ok σ' → O (n + 1) i σ = O n (i + 1) σ'
  step_get : ∀ σ j a b, get (step σ j) a b = if a = row σ ∧ b = j then w σ j else get σ a b
  step_w : ∀ σ j, w (step σ j) = w σ
  step_g : ∀ σ j, g (step σ j) = g σ
  step_row : ∀ σ j, row (step σ j) = row σ
  step_nc : ∀ σ j, ncols (step σ j) = ncols σ
  pre_get : ∀ σ i, get (pre σ i) = get σ
  pre_w : ∀ σ i b, w (pre σ i) b = g σ i b
  pre_g : ∀ σ i, g (pre σ i) = g σ
  pre_row : ∀ σ i, row (pre σ i) = i
  pre_nc : ∀ σ i, ncols (pre σ i) = ncols σ

variable {S R : Type} {ok : S → R} {get g : S → ℕ → ℕ → ℚ} {w : S → ℕ → ℚ} {row ncols : S → ℕ} {O L : ℕ → ℕ → S → R} {pre step : S → ℕ → S}

/-- the inner loop started at column `j0` with `n` iterations left: `a[row, j0 .. j0+n)` receive `w σ j`, nothing else of `a` changes, the row, the
    number of columns and the value functions are kept -/
theorem fill2_inner (h : Fill2 ok get g w row ncols O L pre step) : ∀ (n j0 : ℕ) (σ : S),
    ∃ σ', L n j0 σ = ok σ' ∧ w σ' = w σ ∧ g σ' = g σ ∧ row σ' = row σ ∧ ncols σ' = ncols σ ∧
      ∀ a b, get σ' a b = if a = row σ ∧ j0 ≤ b ∧ b < j0 + n then w σ b else get σ a b := by
  intro n
  induction n with
  | zero =>
    intro j0 σ
    exact ⟨σ, h.L0 j0 σ, rfl, rfl, rfl, rfl, fun a b => by rw [if_neg (by omega)]⟩
  | succ n ih =>
    intro j0 σ
    obtain ⟨σ', hrun, hw, hg, hr, hn, hget⟩ := ih (j0 + 1) (step σ j0)
    refine ⟨σ', by rw [h.Ls, hrun], by rw [hw, h.step_w], by rw [hg, h.step_g], by rw [hr, h.step_row], by rw [hn, h.step_nc], fun a b => ?_⟩
    rw [hget a b, h.step_row, h.step_w, h.step_get]
    by_cases h1 : a = row σ ∧ j0 + 1 ≤ b ∧ b < j0 + 1 + n
    · rw [if_pos h1, if_pos ⟨h1.1, by omega, by omega⟩]
    · rw [if_neg h1]
      by_cases h2 : a = row σ ∧ b = j0
      · rw [if_pos h2, if_pos ⟨h2.1, by omega, by omega⟩, h2.2]
      · rw [if_neg h2, if_neg (by omega)]

/-- the outer loop started at row `i0` with `n` iterations left: `a[i, j] = g σ i j` for `i0 ≤ i < i0+n`, `j < ncols σ`; every other entry is what it was -/
theorem fill2_outer (h : Fill2 ok get g w row ncols O L pre step) : ∀ (n i0 : ℕ) (σ : S),
    ∃ σ', O n i0 σ = ok σ' ∧
      ∀ a b, get σ' a b = if (i0 ≤ a ∧ a < i0 + n) ∧ b < ncols σ then g σ a b else get σ a b := by
  intro n
  induction n with
  | zero =>
    intro i0 σ
    exact ⟨σ, h.O0 i0 σ, fun a b => by rw [if_neg (by omega)]⟩
  | succ n ih =>
    intro i0 σ
    obtain ⟨σ1, hrun1, -, hg1, -, hn1, hget1⟩ := fill2_inner h (ncols σ) 0 (pre σ i0)
    obtain ⟨σ', hrun, hget⟩ := ih (i0 + 1) σ1
    refine ⟨σ', by rw [h.Os n i0 σ σ1 hrun1, hrun], fun a b => ?_⟩
    rw [hget a b, hn1, h.pre_nc, hg1, h.pre_g, hget1 a b, h.pre_row, h.pre_get]
    by_cases h1 : (i0 + 1 ≤ a ∧ a < i0 + 1 + n) ∧ b < ncols σ
    · rw [if_pos h1, if_pos ⟨⟨by omega, by omega⟩, h1.2⟩]
    · rw [if_neg h1]
      by_cases h2 : a = i0 ∧ 0 ≤ b ∧ b < 0 + ncols σ
      · rw [if_pos h2, if_pos ⟨⟨by omega, by omega⟩, by omega⟩, h.pre_w, h2.1]
      · rw [if_neg h2, if_neg (by omega)]

end PygyroVerif.Fill2D
