/-
Helper lemmas for property C07 about the model `PygyroVerif.Model.BSpline`
(`innerLoop` / `levels` / `basisFuns` / `findSpanLoop` / `N`).

  * `N_support`, `N_nonneg`                  support and sign of the Cox–de Boor functions
  * `innerLoop_length/_getD/_sum/_nonneg`    element-wise description of the `saved/temp` loop of A2.2
  * `levels_length/_eq_N/_sum/_nonneg`       A2.2 computes Cox–de Boor on the cell; partition of unity
  * `findSpanLoop_correct`                   the binary search terminates within its fuel and brackets `x`
  * `dotFrom_eq_sum`, `foldl_zipIdx_eq_sum`  the accumulation loops are finite sums
  * `U`, `P`, `Q`, `U_eq`, `U_deriv`         degree-lowering derivative identity in an abstract differential ring
-/
import PygyroVerif.Model.BSpline
import PygyroVerif.Model.CubicUniform
import Mathlib.Tactic.Ring
import Mathlib.Tactic.FieldSimp
import Mathlib.Tactic.Linarith
import Mathlib.Tactic.LinearCombination
import Mathlib.Algebra.Order.Ring.Nat
import Mathlib.Algebra.BigOperators.Group.List.Basic
import Mathlib.Algebra.Polynomial.Derivative
import Mathlib.Algebra.Polynomial.Eval.Defs

set_option linter.unusedSectionVars false

namespace PygyroVerif.BSpline

section field
variable {K : Type*} [Field K] [LinearOrder K] [IsStrictOrderedRing K]

/-- support: `N_{i,p}(x) = 0` outside `[t_i, t_{i+p+1})` -/
theorem N_support (t : ℕ → K) (ht : Monotone t) :
    ∀ (p i : ℕ) (x : K), (x < t i ∨ t (i+p+1) ≤ x) → N t p i x = 0
  | 0, i, x, h => by
    simp only [N]
    rcases h with h | h
    · rw [if_neg]; intro ⟨h1, _⟩; exact absurd h (not_lt.mpr h1)
    · rw [if_neg]; intro ⟨_, h2⟩; exact absurd h2 (not_lt.mpr (by simpa using h))
  | p+1, i, x, h => by
    simp only [N]
    have e1 : (if t (i+p+1) - t i = 0 then 0 else (x - t i) / (t (i+p+1) - t i) * N t p i x) = 0 := by
      split_ifs with hz
      · rfl
      · rcases h with h | h
        · rw [N_support t ht p i x (Or.inl h)]; ring
        · have : t (i+p+1) ≤ x := le_trans (ht (by omega)) h
          rw [N_support t ht p i x (Or.inr this)]; ring
    have e2 : (if t (i+p+2) - t (i+1) = 0 then 0
        else (t (i+p+2) - x) / (t (i+p+2) - t (i+1)) * N t p (i+1) x) = 0 := by
      split_ifs with hz
      · rfl
      · rcases h with h | h
        · have : x < t (i+1) := lt_of_lt_of_le h (ht (by omega))
          rw [N_support t ht p (i+1) x (Or.inl this)]; ring
        · have : t (i+1+p+1) ≤ x := by
            have e : i+1+p+1 = i+(p+1)+1 := by omega
            rw [e]; exact h
          rw [N_support t ht p (i+1) x (Or.inr this)]; ring
    rw [e1, e2]; ring

/-- the Cox–de Boor functions are non-negative (for sorted knots) -/
theorem N_nonneg (t : ℕ → K) (ht : Monotone t) : ∀ (p i : ℕ) (x : K), 0 ≤ N t p i x
  | 0, i, x => by
    simp only [N]; split_ifs <;> simp
  | p+1, i, x => by
    simp only [N]
    apply add_nonneg
    · split_ifs with hz
      · exact le_refl _
      · by_cases hx : x < t i
        · rw [N_support t ht p i x (Or.inl hx)]; simp
        · have h1 : 0 ≤ x - t i := by linarith [not_lt.mp hx]
          have h2 : 0 ≤ t (i+p+1) - t i := by
            have : t i ≤ t (i+p+1) := ht (by omega)
            linarith
          exact mul_nonneg (div_nonneg h1 h2) (N_nonneg t ht p i x)
    · split_ifs with hz
      · exact le_refl _
      · by_cases hx : t (i+p+2) ≤ x
        · have : t (i+1+p+1) ≤ x := by
            have e : i+1+p+1 = i+p+2 := by omega
            rw [e]; exact hx
          rw [N_support t ht p (i+1) x (Or.inr this)]; simp
        · have h1 : 0 ≤ t (i+p+2) - x := by linarith [not_le.mp hx]
          have h2 : 0 ≤ t (i+p+2) - t (i+1) := by
            have : t (i+1) ≤ t (i+p+2) := ht (by omega)
            linarith
          exact mul_nonneg (div_nonneg h1 h2) (N_nonneg t ht p (i+1) x)

/-! ### the inner loop -/

theorem innerLoop_length (left right : ℕ → K) (j r : ℕ) (vs : List K) (s : K) :
    (innerLoop left right j r vs s).length = vs.length + 1 := by
  induction vs generalizing r s with
  | nil => rfl
  | cons v vs ih => simp [innerLoop, ih]

/-- element-wise description of the inner loop -/
theorem innerLoop_getD (left right : ℕ → K) (j : ℕ) : ∀ (vs : List K) (r : ℕ) (s : K) (k : ℕ),
    (innerLoop left right j r vs s).getD k 0 =
      if k = 0 then s + (if vs.length = 0 then 0 else right r * (vs.getD 0 0 / (right r + left (j - r))))
      else if k ≤ vs.length then
        left (j - (r+k-1)) * (vs.getD (k-1) 0 / (right (r+k-1) + left (j - (r+k-1)))) +
        (if k < vs.length then right (r+k) * (vs.getD k 0 / (right (r+k) + left (j - (r+k)))) else 0)
      else 0
  | [], r, s, k => by
    cases k with
    | zero => simp [innerLoop]
    | succ k => simp [innerLoop]
  | v :: vs, r, s, k => by
    cases k with
    | zero => simp [innerLoop]
    | succ k =>
      simp only [innerLoop, List.getD_cons_succ]
      rw [innerLoop_getD left right j vs (r+1) _ k]
      cases k with
      | zero =>
        simp
        cases vs with
        | nil => simp
        | cons w ws => simp
      | succ k =>
        simp only [Nat.add_eq_zero_iff, one_ne_zero, and_false, if_false, List.length_cons,
          Nat.add_le_add_iff_right, Nat.add_lt_add_iff_right, List.getD_cons_succ, Nat.add_sub_cancel]
        have e1 : r + 1 + (k + 1) - 1 = r + (k + 1 + 1) - 1 := by omega
        have e2 : r + 1 + (k + 1) = r + (k + 1 + 1) := by omega
        rw [e1, e2]

theorem innerLoop_sum (left right : ℕ → K) (j : ℕ) (r : ℕ) (vs : List K) (saved : K)
    (h : ∀ i, r ≤ i → i < r + vs.length → right i + left (j - i) ≠ 0) :
    (innerLoop left right j r vs saved).sum = saved + vs.sum := by
  induction vs generalizing r saved with
  | nil => simp [innerLoop]
  | cons v vs ih =>
    have h0 : right r + left (j - r) ≠ 0 := h r (le_refl _) (by simp)
    simp only [innerLoop, List.sum_cons]
    rw [ih (r+1) _ (fun i hi hlt => h i (by omega) (by simp at hlt ⊢; omega))]
    field_simp
    ring

/-- the inner loop keeps non-negativity when `left`, `right` are non-negative on the indices it reads -/
theorem innerLoop_nonneg (left right : ℕ → K) (j : ℕ) (r : ℕ) (vs : List K) (saved : K)
    (hl : ∀ i, r ≤ i → i < r + vs.length → 0 ≤ left (j - i))
    (hr : ∀ i, r ≤ i → i < r + vs.length → 0 ≤ right i)
    (hv : ∀ v ∈ vs, 0 ≤ v) (hs : 0 ≤ saved) :
    ∀ v ∈ innerLoop left right j r vs saved, 0 ≤ v := by
  induction vs generalizing r saved with
  | nil => intro v hv'; simp [innerLoop] at hv'; rw [hv']; exact hs
  | cons w ws ih =>
    have hl0 := hl r (le_refl _) (by simp)
    have hr0 := hr r (le_refl _) (by simp)
    have hw : 0 ≤ w := hv w (by simp)
    have htemp : 0 ≤ w / (right r + left (j - r)) := div_nonneg hw (add_nonneg hr0 hl0)
    intro v hv'
    simp only [innerLoop, List.mem_cons] at hv'
    rcases hv' with hv' | hv'
    · rw [hv']; exact add_nonneg hs (mul_nonneg hr0 htemp)
    · refine ih (r+1) _ (fun i hi hlt => hl i (by omega) (by simp at hlt ⊢; omega))
        (fun i hi hlt => hr i (by omega) (by simp at hlt ⊢; omega))
        (fun v hv'' => hv v (by simp [hv''])) (mul_nonneg hl0 htemp) v hv'

/-! ### the triangle -/

theorem levels_length (left right : ℕ → K) (j : ℕ) : (levels left right j).length = j + 1 := by
  induction j with
  | zero => rfl
  | succ j ih => simp only [levels]; rw [innerLoop_length, ih]

theorem basisFuns_length (t : ℕ → K) (p : ℕ) (x : K) (span : ℕ) :
    (basisFuns t p x span).length = p + 1 := levels_length _ _ _

theorem levels_sum (left right : ℕ → K) (p : ℕ)
    (h : ∀ j i, j < p → i ≤ j → right i + left (j - i) ≠ 0) :
    (levels left right p).sum = 1 := by
  induction p with
  | zero => simp [levels]
  | succ p ih =>
    simp only [levels]
    rw [innerLoop_sum]
    · rw [ih (fun j i hj hi => h j i (by omega) hi)]; ring
    · intro i _ hi
      rw [levels_length] at hi
      exact h p i (by omega) (by omega)

theorem levels_nonneg (left right : ℕ → K) (p : ℕ)
    (hl : ∀ k, k < p → 0 ≤ left k) (hr : ∀ k, k < p → 0 ≤ right k) :
    ∀ v ∈ levels left right p, 0 ≤ v := by
  induction p with
  | zero => intro v hv; simp [levels] at hv; rw [hv]; exact zero_le_one
  | succ p ih =>
    simp only [levels]
    apply innerLoop_nonneg
    · intro i _ hi; rw [levels_length] at hi; exact hl _ (by omega)
    · intro i _ hi; rw [levels_length] at hi; exact hr _ (by omega)
    · exact ih (fun k hk => hl k (by omega)) (fun k hk => hr k (by omega))
    · exact le_refl _

/-- The Cox–de Boor two-term recursion at a fixed `x`, for a table `M p i` (`= N_{i,p}(x)` in the applications) -/
def IsCoxDeBoorTable (t : ℕ → K) (x : K) (M : ℕ → ℕ → K) : Prop :=
  ∀ p i, M (p+1) i =
    (if t (i+p+1) - t i = 0 then 0 else (x - t i) / (t (i+p+1) - t i) * M p i) +
    (if t (i+p+2) - t (i+1) = 0 then 0 else (t (i+p+2) - x) / (t (i+p+2) - t (i+1)) * M p (i+1))

/-- A2.2 computes any table that satisfies the Cox–de Boor recursion at `x`, is `1` at `(0, span)` and vanishes
    just outside the triangle below it.  No condition on `x`: on a non-empty cell the denominators of A2.2 are
    differences of knots, so the identity is polynomial in `x`.  (Used for `N` on `[t_span, t_{span+1})` and for
    the left-continuous variant `Nleft` on `(t_span, t_{span+1}]`, i.e. the right end point of the domain.) -/
theorem levels_eq_table (t : ℕ → K) (ht : Monotone t) (span : ℕ) (x : K)
    (hcell : t span < t (span+1)) (M : ℕ → ℕ → K) (hrec : IsCoxDeBoorTable t x M)
    (h0 : M 0 span = 1) (hL : ∀ j, j + 1 ≤ span → M j (span - (j+1)) = 0) (hR : ∀ j, M j (span+1) = 0) :
    ∀ j, j ≤ span → ∀ r, r ≤ j →
      (levels (leftOf t span x) (rightOf t span x) j).getD r 0 = M j (span - j + r) := by
  intro j
  induction j with
  | zero =>
    intro _ r hr
    have : r = 0 := by omega
    subst this
    simp [levels, h0]
  | succ j ih =>
    intro hj r hr
    have ihj := ih (by omega)
    simp only [levels]
    rw [innerLoop_getD, levels_length]
    simp only [leftOf, rightOf] at ihj ⊢
    -- positivity of the denominators
    have hden : ∀ m, m ≤ j → (t (span+1+m) - x) + (x - t (span - (j - m))) ≠ 0 := by
      intro m _
      have h1 : t (span - (j - m)) ≤ t span := ht (by omega)
      have h2 : t (span+1) ≤ t (span+1+m) := ht (by omega)
      have : 0 < (t (span+1+m) - x) + (x - t (span - (j - m))) := by linarith
      exact ne_of_gt this
    by_cases hr0 : r = 0
    · subst hr0
      simp only [if_true, Nat.add_eq_zero_iff, one_ne_zero, and_false, if_false, zero_add, Nat.sub_zero,
        Nat.add_zero]
      rw [ihj 0 (by omega), hrec]
      have hs : M j (span - (j+1)) = 0 := hL j hj
      have e1 : span - (j+1) + j + 2 = span + 1 := by omega
      have e2 : span - (j+1) + 1 = span - j := by omega
      rw [hs, e1, e2]
      have hd := hden 0 (by omega)
      simp only [Nat.add_zero, Nat.sub_zero] at hd
      have hd' : t (span+1) - t (span - j) ≠ 0 := by
        intro h; apply hd; linarith
      rw [if_neg hd']
      have e3 : t (span + 1) - x + (x - t (span - j)) = t (span+1) - t (span - j) := by ring
      rw [e3]
      simp only [Nat.add_zero, mul_zero, ite_self, zero_add]
      field_simp
    · rw [if_neg hr0, if_pos (by omega)]
      simp only [zero_add]
      have hr1 : r - 1 ≤ j := by omega
      rw [ihj (r-1) hr1, hrec]
      have ea : span - (j+1) + r = span - j + (r - 1) := by omega
      have eb : span - j + (r-1) + j + 1 = span + 1 + (r-1) := by omega
      have ec : span - j + (r-1) + j + 2 = span + 1 + r := by omega
      have ed : span - j + (r-1) + 1 = span - j + r := by omega
      have ee : span - (j - (r-1)) = span - j + (r-1) := by omega
      rw [ea, eb, ec, ed, ee]
      have hd1 := hden (r-1) hr1
      rw [ee] at hd1
      have hd1' : t (span + 1 + (r-1)) - t (span - j + (r-1)) ≠ 0 := by
        intro h; apply hd1; linarith
      rw [if_neg hd1']
      have e4 : t (span + 1 + (r-1)) - x + (x - t (span - j + (r-1)))
          = t (span + 1 + (r-1)) - t (span - j + (r-1)) := by ring
      rw [e4]
      by_cases hrj : r < j + 1
      · have ef : span - (j - r) = span - j + r := by omega
        rw [if_pos hrj, ihj r (by omega), ef]
        have hd2 := hden r (by omega)
        rw [ef] at hd2
        have hd2' : t (span + 1 + r) - t (span - j + r) ≠ 0 := by
          intro h; apply hd2; linarith
        rw [if_neg hd2']
        have e5 : t (span + 1 + r) - x + (x - t (span - j + r)) = t (span + 1 + r) - t (span - j + r) := by ring
        rw [e5]
        field_simp
      · rw [if_neg hrj]
        have hr' : r = j + 1 := by omega
        have hs : M j (span - j + r) = 0 := by
          have : span - j + r = span + 1 := by omega
          rw [this]; exact hR j
        rw [hs]
        simp only [mul_zero, ite_self, add_zero]
        field_simp

/-- A2.2 computes the Cox–de Boor basis: `values[r] = N_{span-j+r,j}(x)` after `j` sweeps -/
theorem levels_eq_N (t : ℕ → K) (ht : Monotone t) (span : ℕ) (x : K)
    (hx1 : t span ≤ x) (hx2 : x < t (span+1)) :
    ∀ j, j ≤ span → ∀ r, r ≤ j →
      (levels (leftOf t span x) (rightOf t span x) j).getD r 0 = N t j (span - j + r) x := by
  apply levels_eq_table t ht span x (lt_of_le_of_lt hx1 hx2) (fun p i => N t p i x)
  · intro p i; simp only [N]
  · simp [N, hx1, hx2]
  · intro j hj
    apply N_support t ht
    right
    have : span - (j+1) + j + 1 = span := by omega
    rw [this]; exact hx1
  · intro j
    exact N_support t ht j (span+1) x (Or.inl hx2)

/-! ### finite sums -/

theorem sum_map_sub (f g : ℕ → K) (l : List ℕ) :
    (l.map (fun j => f j - g j)).sum = (l.map f).sum - (l.map g).sum := by
  induction l with
  | nil => simp
  | cons a l ih => simp only [List.map_cons, List.sum_cons, ih]; ring

/-- a sum over `i < n` of a function supported in `[a, a+m)` is the sum over the `m` active indices -/
theorem sum_range_support (f : ℕ → K) : ∀ (n a m : ℕ), a + m ≤ n →
    (∀ i, i < n → (i < a ∨ a + m ≤ i) → f i = 0) →
    ((List.range n).map f).sum = ((List.range m).map (fun j => f (a + j))).sum
  | 0, a, m, h, _ => by
    have : m = 0 := by omega
    subst this; simp
  | n+1, a, m, h, hz => by
    rw [List.range_succ, List.map_append, List.sum_append]
    simp only [List.map_cons, List.map_nil, List.sum_cons, List.sum_nil, add_zero]
    rcases Nat.lt_or_ge (a + m) (n + 1) with hlt | hge
    · rw [sum_range_support f n a m (by omega) (fun i hi hc => hz i (by omega) hc),
        hz n (by omega) (Or.inr (by omega))]
      ring
    · cases m with
      | zero =>
        rw [sum_range_support f n 0 0 (by omega) (fun i hi _ => hz i (by omega) (Or.inl (by omega))),
          hz n (by omega) (Or.inl (by omega))]
        simp
      | succ m' =>
        have hn : a + m' = n := by omega
        rw [sum_range_support f n a m' (by omega)
          (fun i hi hc => hz i (by omega) (by rcases hc with hc | hc; exact Or.inl hc; omega))]
        rw [List.range_succ, List.map_append, List.sum_append]
        simp only [List.map_cons, List.map_nil, List.sum_cons, List.sum_nil, add_zero, hn]

/-- the `p+1` active terms are the whole B-spline sum: `Σ_j c[span-p+j]·values[j] = Σ_{i<n} c_i·N_{i,p}(x)`
    for any `n > span` (support lemma) -/
theorem dot_basis_eq_sum_N (t : ℕ → K) (ht : Monotone t) (p span : ℕ) (x : K)
    (hp : p ≤ span) (hx1 : t span ≤ x) (hx2 : x < t (span + 1)) (n : ℕ) (hn : span + 1 ≤ n) (c : ℕ → K) :
    ((List.range (p + 1)).map (fun j => c (span - p + j) * (basisFuns t p x span).getD j 0)).sum
      = ((List.range n).map (fun i => c i * N t p i x)).sum := by
  rw [sum_range_support (fun i => c i * N t p i x) n (span - p) (p + 1) (by omega)]
  · apply congrArg
    apply List.map_congr_left
    intro j hj
    have hj' : j ≤ p := by have := List.mem_range.mp hj; omega
    show c (span - p + j) * (levels (leftOf t span x) (rightOf t span x) p).getD j 0 = _
    rw [levels_eq_N t ht span x hx1 hx2 p hp j hj']
  · intro i _ hi
    rcases hi with hi | hi
    · have : t (i + p + 1) ≤ x := le_trans (ht (by omega)) hx1
      rw [N_support t ht p i x (Or.inr this)]; ring
    · have : x < t i := lt_of_lt_of_le hx2 (ht (by omega))
      rw [N_support t ht p i x (Or.inl this)]; ring

theorem basisOrDer_length (t : ℕ → K) (p : ℕ) (x : K) (span : ℕ) (der : Bool) :
    (basisOrDer t p x span der).length = p + 1 := by
  unfold basisOrDer
  cases der
  · simp [basisFuns_length]
  · simp [basisFunsDer]

/-! ### the left-continuous convention (right end point of the domain) -/

/-- left-continuous Cox–de Boor functions (cells `(t_i, t_{i+1}]`): the convention that gives the value of the
    spline at the right end point of the domain (limit from inside) -/
def Nleft (t : ℕ → K) : ℕ → ℕ → K → K
  | 0, i, x => if t i < x ∧ x ≤ t (i+1) then 1 else 0
  | p+1, i, x =>
      (if t (i+p+1) - t i = 0 then 0 else (x - t i) / (t (i+p+1) - t i) * Nleft t p i x) +
      (if t (i+p+2) - t (i+1) = 0 then 0 else (t (i+p+2) - x) / (t (i+p+2) - t (i+1)) * Nleft t p (i+1) x)

theorem Nleft_support (t : ℕ → K) (ht : Monotone t) :
    ∀ (p i : ℕ) (x : K), (x ≤ t i ∨ t (i+p+1) < x) → Nleft t p i x = 0
  | 0, i, x, h => by
    simp only [Nleft]
    rcases h with h | h
    · rw [if_neg]; intro ⟨h1, _⟩; exact absurd h (not_le.mpr h1)
    · rw [if_neg]; intro ⟨_, h2⟩; exact absurd h2 (not_le.mpr (by simpa using h))
  | p+1, i, x, h => by
    simp only [Nleft]
    have e1 : (if t (i+p+1) - t i = 0 then 0 else (x - t i) / (t (i+p+1) - t i) * Nleft t p i x) = 0 := by
      split_ifs with hz
      · rfl
      · rcases h with h | h
        · rw [Nleft_support t ht p i x (Or.inl h)]; ring
        · have : t (i+p+1) < x := lt_of_le_of_lt (ht (by omega)) h
          rw [Nleft_support t ht p i x (Or.inr this)]; ring
    have e2 : (if t (i+p+2) - t (i+1) = 0 then 0
        else (t (i+p+2) - x) / (t (i+p+2) - t (i+1)) * Nleft t p (i+1) x) = 0 := by
      split_ifs with hz
      · rfl
      · rcases h with h | h
        · have : x ≤ t (i+1) := le_trans h (ht (by omega))
          rw [Nleft_support t ht p (i+1) x (Or.inl this)]; ring
        · have : t (i+1+p+1) < x := by
            have e : i+1+p+1 = i+(p+1)+1 := by omega
            rw [e]; exact h
          rw [Nleft_support t ht p (i+1) x (Or.inr this)]; ring
    rw [e1, e2]; ring

/-- away from the knots the two conventions coincide -/
theorem Nleft_eq_N (t : ℕ → K) (x : K) (hx : ∀ i, x ≠ t i) : ∀ (p i : ℕ), Nleft t p i x = N t p i x
  | 0, i => by
    simp only [Nleft, N]
    have h1 := hx i
    have h2 := hx (i+1)
    congr 1
    apply propext
    constructor
    · intro ⟨a, b⟩; exact ⟨le_of_lt a, lt_of_le_of_ne b h2⟩
    · intro ⟨a, b⟩; exact ⟨lt_of_le_of_ne a (Ne.symm h1), le_of_lt b⟩
  | p+1, i => by
    simp only [Nleft, N]
    rw [Nleft_eq_N t x hx p i, Nleft_eq_N t x hx p (i+1)]

/-- A2.2 on the half-open cell `(t_span, t_{span+1}]` computes the left-continuous functions -/
theorem levels_eq_Nleft (t : ℕ → K) (ht : Monotone t) (span : ℕ) (x : K)
    (hx1 : t span < x) (hx2 : x ≤ t (span+1)) :
    ∀ j, j ≤ span → ∀ r, r ≤ j →
      (levels (leftOf t span x) (rightOf t span x) j).getD r 0 = Nleft t j (span - j + r) x := by
  apply levels_eq_table t ht span x (lt_of_lt_of_le hx1 hx2) (fun p i => Nleft t p i x)
  · intro p i; simp only [Nleft]
  · simp [Nleft, hx1, hx2]
  · intro j hj
    apply Nleft_support t ht
    right
    have : span - (j+1) + j + 1 = span := by omega
    rw [this]; exact hx1
  · intro j
    exact Nleft_support t ht j (span+1) x (Or.inl hx2)

theorem dot_basis_eq_sum_Nleft (t : ℕ → K) (ht : Monotone t) (p span : ℕ) (x : K)
    (hp : p ≤ span) (hx1 : t span < x) (hx2 : x ≤ t (span + 1)) (n : ℕ) (hn : span + 1 ≤ n) (c : ℕ → K) :
    ((List.range (p + 1)).map (fun j => c (span - p + j) * (basisFuns t p x span).getD j 0)).sum
      = ((List.range n).map (fun i => c i * Nleft t p i x)).sum := by
  rw [sum_range_support (fun i => c i * Nleft t p i x) n (span - p) (p + 1) (by omega)]
  · apply congrArg
    apply List.map_congr_left
    intro j hj
    have hj' : j ≤ p := by have := List.mem_range.mp hj; omega
    show c (span - p + j) * (levels (leftOf t span x) (rightOf t span x) p).getD j 0 = _
    rw [levels_eq_Nleft t ht span x hx1 hx2 p hp j hj']
  · intro i _ hi
    rcases hi with hi | hi
    · have : t (i + p + 1) < x := lt_of_le_of_lt (ht (by omega)) hx1
      rw [Nleft_support t ht p i x (Or.inr this)]; ring
    · have : x ≤ t i := le_trans hx2 (ht (by omega))
      rw [Nleft_support t ht p i x (Or.inl this)]; ring

/-! ### continuity at a simple knot -/

theorem N_succ (t : ℕ → K) (p i : ℕ) (x : K) : N t (p+1) i x =
    (if t (i+p+1) - t i = 0 then 0 else (x - t i) / (t (i+p+1) - t i) * N t p i x) +
    (if t (i+p+2) - t (i+1) = 0 then 0 else (t (i+p+2) - x) / (t (i+p+2) - t (i+1)) * N t p (i+1) x) := by
  simp only [N]

theorem Nleft_succ (t : ℕ → K) (p i : ℕ) (x : K) : Nleft t (p+1) i x =
    (if t (i+p+1) - t i = 0 then 0 else (x - t i) / (t (i+p+1) - t i) * Nleft t p i x) +
    (if t (i+p+2) - t (i+1) = 0 then 0 else (t (i+p+2) - x) / (t (i+p+2) - t (i+1)) * Nleft t p (i+1) x) := by
  simp only [Nleft]

/-- continuity at a simple knot: for degree ≥ 1 the right- and left-continuous Cox–de Boor functions agree at a knot
    `t_{s+1}` with `t_s < t_{s+1} < t_{s+2}` -/
theorem N_eq_Nleft_at_simple_knot (t : ℕ → K) (ht : Monotone t) (s : ℕ) (h1 : t s < t (s+1)) (h2 : t (s+1) < t (s+2)) :
    ∀ p, 1 ≤ p → ∀ i, N t p i (t (s+1)) = Nleft t p i (t (s+1)) := by
  have hN0 : ∀ i, N t 0 i (t (s+1)) = if i = s+1 then 1 else 0 := by
    intro i
    simp only [N]
    by_cases hi : i = s+1
    · subst hi; rw [if_pos ⟨le_refl _, h2⟩, if_pos rfl]
    · rw [if_neg hi, if_neg]
      intro ⟨a, b⟩
      rcases Nat.lt_or_ge i (s+1) with h | h
      · exact absurd (ht (by omega : i + 1 ≤ s + 1)) (not_le.mpr b)
      · have : t (s+2) ≤ t i := ht (by omega)
        exact absurd (lt_of_lt_of_le h2 this) (not_lt.mpr a)
  have hL0 : ∀ i, Nleft t 0 i (t (s+1)) = if i = s then 1 else 0 := by
    intro i
    simp only [Nleft]
    by_cases hi : i = s
    · subst hi; rw [if_pos ⟨h1, le_refl _⟩, if_pos rfl]
    · rw [if_neg hi, if_neg]
      intro ⟨a, b⟩
      rcases Nat.lt_or_ge i s with h | h
      · have : t (i+1) ≤ t s := ht (by omega)
        exact absurd (lt_of_le_of_lt this h1) (not_lt.mpr b)
      · exact absurd (ht (by omega : s + 1 ≤ i)) (not_le.mpr a)
  have hd1 : t (s+1) - t s ≠ 0 := ne_of_gt (by linarith)
  have hd2 : t (s+2) - t (s+1) ≠ 0 := ne_of_gt (by linarith)
  have base : ∀ i, N t 1 i (t (s+1)) = Nleft t 1 i (t (s+1)) := by
    intro i
    rw [N_succ, Nleft_succ, hN0, hN0, hL0, hL0]
    simp only [Nat.add_zero]
    by_cases hi : i = s
    · subst hi
      simp [hd1, hd2]
    · by_cases hi2 : i = s + 1
      · subst hi2
        simp
        intro _ h; omega
      · by_cases hi3 : i + 1 = s
        · subst hi3
          simp
          intro _ h; omega
        · simp [hi, hi2, hi3]
  intro p hp
  induction p with
  | zero => omega
  | succ p ih =>
    intro i
    rcases Nat.eq_zero_or_pos p with h0 | hpos
    · subst h0; exact base i
    · rw [N_succ, Nleft_succ, ih hpos i, ih hpos (i+1)]
/-! ### translation invariance (periodic knots) -/

theorem innerLoop_congr (l l' r r' : ℕ → K) (j : ℕ) : ∀ (vs : List K) (r0 : ℕ) (s : K),
    (∀ i, r0 ≤ i → i < r0 + vs.length → r i = r' i ∧ l (j - i) = l' (j - i)) →
    innerLoop l r j r0 vs s = innerLoop l' r' j r0 vs s
  | [], _, _, _ => rfl
  | v :: vs, r0, s, h => by
    obtain ⟨h1, h2⟩ := h r0 (le_refl _) (by simp)
    simp only [innerLoop, h1, h2]
    rw [innerLoop_congr l l' r r' j vs (r0+1) _ (fun i hi hlt => h i (by omega) (by simp at hlt ⊢; omega))]

/-- the triangle only reads `left[k]`, `right[k]` for `k < p` -/
theorem levels_congr (l l' r r' : ℕ → K) (p : ℕ) (hl : ∀ k, k < p → l k = l' k) (hr : ∀ k, k < p → r k = r' k) :
    levels l r p = levels l' r' p := by
  induction p with
  | zero => rfl
  | succ p ih =>
    simp only [levels]
    rw [ih (fun k hk => hl k (by omega)) (fun k hk => hr k (by omega))]
    apply innerLoop_congr
    intro i _ hi
    rw [levels_length] at hi
    exact ⟨hr i (by omega), hl _ (by omega)⟩

/-- translation invariance: on knots with `t_{i+n} = t_i + L` the basis values of cell `span+n` at `x+L` are those of
    cell `span` at `x` (A2.2 only uses differences `x - t_i`) -/
theorem basisFuns_shift (t : ℕ → K) (n : ℕ) (L : K) (hper : ∀ i, t (i + n) = t i + L) (p span : ℕ)
    (hp : p ≤ span + 1) (x : K) : basisFuns t p (x + L) (span + n) = basisFuns t p x span := by
  unfold basisFuns
  apply levels_congr
  · intro k hk
    simp only [leftOf]
    have : span + n - k = span - k + n := by omega
    rw [this, hper]; ring
  · intro k _
    simp only [rightOf]
    have : span + n + 1 + k = span + 1 + k + n := by omega
    rw [this, hper]; ring

theorem basisFunsDer_shift (t : ℕ → K) (n : ℕ) (L : K) (hper : ∀ i, t (i + n) = t i + L) (p span : ℕ)
    (hp : p ≤ span + 1) (x : K) : basisFunsDer t p (x + L) (span + n) = basisFunsDer t p x span := by
  unfold basisFunsDer
  simp only
  rw [basisFuns_shift t n L hper (p - 1) span (by omega) x]
  have hs : ∀ j, derSaved t p (span + n) (basisFuns t (p - 1) x span) j
      = derSaved t p span (basisFuns t (p - 1) x span) j := by
    intro j
    simp only [derSaved]
    have e1 : span + n + j + 1 = span + j + 1 + n := by omega
    have e2 : span + j + 1 + n - p = span + j + 1 - p + n := by omega
    rw [e1, e2, hper, hper]
    congr 1
    ring
  simp only [hs]

/-! ### continuity of the local value lists across a simple knot -/

/-- two lists of `p+1` local values on neighbouring cells that describe functions continuous across the common knot:
    the active sets overlap with a shift of one and the two outer entries vanish -/
def ShiftCont (A B : List K) (p : ℕ) : Prop :=
  (∀ j, j < p → A.getD (j+1) 0 = B.getD j 0) ∧ A.getD 0 0 = 0 ∧ B.getD p 0 = 0

/-- values at a simple knot `t_{s+1}` computed in the cell on its left (`span = s`) and on its right (`span = s+1`) -/
theorem basis_continuous_at_knot (t : ℕ → K) (ht : Monotone t) (s p : ℕ) (hp1 : 1 ≤ p) (hps : p ≤ s)
    (h1 : t s < t (s+1)) (h2 : t (s+1) < t (s+2)) :
    ShiftCont (basisFuns t p (t (s+1)) s) (basisFuns t p (t (s+1)) (s+1)) p := by
  have hC := N_eq_Nleft_at_simple_knot t ht s h1 h2 p hp1
  have hL := levels_eq_Nleft t ht s (t (s+1)) h1 (le_refl _) p hps
  have hR := levels_eq_N t ht (s+1) (t (s+1)) (le_refl _) h2 p (by omega)
  refine ⟨?_, ?_, ?_⟩
  · intro j hj
    show (levels _ _ p).getD (j+1) 0 = (levels _ _ p).getD j 0
    rw [hL (j+1) (by omega), hR j (by omega), ← hC]
    congr 1; omega
  · show (levels _ _ p).getD 0 0 = 0
    rw [hL 0 (by omega), ← hC]
    apply N_support t ht
    right
    have : s - p + 0 + p + 1 = s + 1 := by omega
    rw [this]
  · show (levels _ _ p).getD p 0 = 0
    rw [hR p (le_refl _), hC]
    apply Nleft_support t ht
    left
    have : s + 1 - p + p = s + 1 := by omega
    rw [this]

theorem getD_map_range' (f : ℕ → K) (n r : ℕ) : ((List.range n).map f).getD r 0 = if r < n then f r else 0 := by
  by_cases h : r < n <;> simp [List.getD_eq_getElem?_getD, h]

/-- slopes at a simple knot from the left and from the right cell (degree ≥ 2) -/
theorem ders_continuous_at_knot (t : ℕ → K) (ht : Monotone t) (s p : ℕ) (hp2 : 2 ≤ p) (hps : p ≤ s)
    (h1 : t s < t (s+1)) (h2 : t (s+1) < t (s+2)) :
    ShiftCont (basisFunsDer t p (t (s+1)) s) (basisFunsDer t p (t (s+1)) (s+1)) p := by
  obtain ⟨c1, c2, c3⟩ := basis_continuous_at_knot t ht s (p-1) (by omega) (by omega) h1 h2
  set VL := basisFuns t (p-1) (t (s+1)) s with hVL
  set VR := basisFuns t (p-1) (t (s+1)) (s+1) with hVR
  -- shifted `saved` terms
  have hS : ∀ j, j < p - 1 → derSaved t p s VL (j+1) = derSaved t p (s+1) VR j := by
    intro j hj
    simp only [derSaved]
    rw [c1 j hj]
    have e1 : s + (j + 1) + 1 = s + 1 + j + 1 := by omega
    rw [e1]
  have hS0 : derSaved t p s VL 0 = 0 := by simp only [derSaved]; rw [c2]; simp
  have hSp : derSaved t p (s+1) VR (p-1) = 0 := by simp only [derSaved]; rw [c3]; simp
  unfold ShiftCont basisFunsDer
  simp only [← hVL, ← hVR, getD_map_range']
  refine ⟨?_, ?_, ?_⟩
  · intro j hj
    have f1 : j + 1 < p + 1 := by omega
    have f2 : j < p + 1 := by omega
    have f3 : ¬ (j + 1 = 0) := by omega
    simp only [f1, f2, f3, hj, if_true, if_false, Nat.add_sub_cancel]
    have hA : derSaved t p s VL j = if j = 0 then 0 else derSaved t p (s+1) VR (j-1) := by
      by_cases hj0 : j = 0
      · subst hj0; rw [if_pos rfl, hS0]
      · rw [if_neg hj0]
        have e : j = (j - 1) + 1 := by omega
        conv_lhs => rw [e]
        exact hS (j-1) (by omega)
    have hB : (if j + 1 < p then derSaved t p s VL (j+1) else 0) = derSaved t p (s+1) VR j := by
      by_cases hjp : j + 1 < p
      · rw [if_pos hjp, hS j (by omega)]
      · rw [if_neg hjp]
        have : j = p - 1 := by omega
        rw [this, hSp]
    rw [hA, hB]
  · have f1 : 0 < p + 1 := by omega
    have f2 : 0 < p := by omega
    simp only [f1, f2, if_true, hS0]; ring
  · have f1 : p < p + 1 := by omega
    have f2 : ¬ (p = 0) := by omega
    have f3 : ¬ (p < p) := by omega
    simp only [f1, f2, f3, if_true, if_false, hSp]; ring

/-! ### uniform knots: closed forms of the triangle (uniform-cubic fast path) -/

open PygyroVerif.CubicUniform

theorem levels_uniform3 (left right : ℕ → K) (o dx : K) (hdx : dx ≠ 0)
    (hl0 : left 0 = o * dx) (hl1 : left 1 = (o + 1) * dx) (hl2 : left 2 = (o + 2) * dx)
    (hr0 : right 0 = (1 - o) * dx) (hr1 : right 1 = (2 - o) * dx) (hr2 : right 2 = (3 - o) * dx) :
    levels left right 3 = cuBasisFuns o := by
  simp only [levels, innerLoop, Nat.reduceAdd, Nat.reduceSub, Nat.sub_zero, Nat.sub_self, zero_add,
    hl0, hl1, hl2, hr0, hr1, hr2, cuBasisFuns]
  have d1 : (1 - o) * dx + o * dx = dx := by ring
  have d2a : (1 - o) * dx + (o + 1) * dx = 2 * dx := by ring
  have d2b : (2 - o) * dx + o * dx = 2 * dx := by ring
  have d3a : (1 - o) * dx + (o + 2) * dx = 3 * dx := by ring
  have d3b : (2 - o) * dx + (o + 1) * dx = 3 * dx := by ring
  have d3c : (3 - o) * dx + o * dx = 3 * dx := by ring
  simp only [d1, d2a, d2b, d3a, d3b, d3c, List.cons.injEq, and_true]
  refine ⟨?_, ?_, ?_, ?_⟩
  all_goals field_simp
  all_goals try ring

theorem levels_uniform2 (left right : ℕ → K) (o dx : K) (hdx : dx ≠ 0)
    (hl0 : left 0 = o * dx) (hl1 : left 1 = (o + 1) * dx)
    (hr0 : right 0 = (1 - o) * dx) (hr1 : right 1 = (2 - o) * dx) :
    levels left right 2 = [(1 - o) * (1 - o) / 2, (1 + 2 * o - 2 * o * o) / 2, o * o / 2] := by
  simp only [levels, innerLoop, Nat.sub_zero, Nat.sub_self, zero_add, hl0, hl1, hr0, hr1]
  have d1 : (1 - o) * dx + o * dx = dx := by ring
  have d2a : (1 - o) * dx + (o + 1) * dx = 2 * dx := by ring
  have d2b : (2 - o) * dx + o * dx = 2 * dx := by ring
  simp only [d1, d2a, d2b, List.cons.injEq, and_true]
  refine ⟨?_, ?_, ?_⟩
  all_goals field_simp
  all_goals try ring

/-- `left`/`right` of the uniform knot vector in terms of the offset of the cubic path -/
theorem uniform_left_right (xmin dx : K) (hdx : dx ≠ 0) (s : ℕ) (x : K) (k : ℕ) (hk : k ≤ 3) :
    leftOf (uniformKnots xmin dx) (s + 3) x k = ((x - xmin) / dx - (s : K) + (k : K)) * dx ∧
    rightOf (uniformKnots xmin dx) (s + 3) x k = ((k : K) + 1 - ((x - xmin) / dx - (s : K))) * dx := by
  simp only [leftOf, rightOf, uniformKnots]
  have : ((s + 3 - k : ℕ) : K) = (s : K) + 3 - (k : K) := by
    rw [Nat.cast_sub (by omega)]; push_cast; ring
  rw [this]
  push_cast
  constructor <;> (field_simp; ring)

theorem uniformKnots_strictMono (xmin dx : K) (hdx : 0 < dx) : StrictMono (uniformKnots xmin dx) := by
  intro a b hab
  simp only [uniformKnots]
  have : (a : K) < (b : K) := by exact_mod_cast hab
  nlinarith


/-! ### the span search -/

/-- Invariant of the `while` loop of `nu_find_span`: with `t low ≤ x < t high`, `low < high` and fuel
    `≥ high - low`, the loop returns (does not run out of fuel) a span in `[low, high)` whose cell contains `x`. -/
theorem findSpanLoop_correct (t : ℕ → K) (x : K) :
    ∀ (fuel low high : ℕ), low < high → high - low ≤ fuel → t low ≤ x → x < t high →
      ∃ s, findSpanLoop t x fuel low high = some s ∧ low ≤ s ∧ s < high ∧ t s ≤ x ∧ x < t (s+1)
  | 0, low, high, hlh, hf, _, _ => by omega
  | fuel+1, low, high, hlh, hf, hlo, hhi => by
    have hs1 : low ≤ (low + high) / 2 := by omega
    have hs2 : (low + high) / 2 < high := by omega
    unfold findSpanLoop
    simp only
    by_cases hc : x < t ((low + high) / 2) ∨ t ((low + high) / 2 + 1) ≤ x
    · rw [if_pos hc]
      by_cases hlt : x < t ((low + high) / 2)
      · rw [if_pos hlt]
        -- high := span ; needs low < span (otherwise span = low and x < t low, contradiction)
        have hne : low < (low + high) / 2 := by
          rcases Nat.lt_or_ge low ((low + high) / 2) with h | h
          · exact h
          · have : (low + high) / 2 = low := by omega
            rw [this] at hlt
            exact absurd hlo (not_le.mpr hlt)
        obtain ⟨s, hs, h1, h2, h3, h4⟩ :=
          findSpanLoop_correct t x fuel low ((low + high) / 2) hne (by omega) hlo hlt
        exact ⟨s, hs, h1, by omega, h3, h4⟩
      · rw [if_neg hlt]
        have hge : t ((low + high) / 2 + 1) ≤ x := by
          rcases hc with h | h
          · exact absurd h hlt
          · exact h
        have hle : t ((low + high) / 2) ≤ x := not_lt.mp hlt
        -- low := span ; the range shrinks because span+1 < high (otherwise x ≥ t high)
        have hne : (low + high) / 2 + 1 < high := by
          rcases Nat.lt_or_ge ((low + high) / 2 + 1) high with h | h
          · exact h
          · have : (low + high) / 2 + 1 = high := by omega
            rw [this] at hge
            exact absurd hhi (not_lt.mpr hge)
        obtain ⟨s, hs, h1, h2, h3, h4⟩ :=
          findSpanLoop_correct t x fuel ((low + high) / 2) high (by omega) (by omega) hle hhi
        exact ⟨s, hs, by omega, h2, h3, h4⟩
    · rw [if_neg hc]
      have hc' := not_or.mp hc
      exact ⟨_, rfl, hs1, hs2, not_lt.mp hc'.1, not_le.mp hc'.2⟩

end field

/-! ### accumulation loops as finite sums -/

section sums
variable {K : Type*} [Field K] [LinearOrder K]

theorem foldl_zipIdx_eq_sum (f : ℕ → K → K) (l : List K) (k : ℕ) (a : K) :
    (l.zipIdx k).foldl (fun acc (bj : K × ℕ) => acc + f bj.2 bj.1) a
      = a + ((List.range l.length).map (fun j => f (k + j) (l.getD j 0))).sum := by
  induction l generalizing k a with
  | nil => simp
  | cons v vs ih =>
    simp only [List.zipIdx_cons, List.foldl_cons, List.length_cons]
    rw [ih, List.range_succ_eq_map]
    simp only [List.map_cons, List.sum_cons, List.map_map, List.getD_cons_zero, Nat.add_zero]
    have : ((fun j => f (k + j) ((v :: vs).getD j 0)) ∘ Nat.succ) = (fun j => f (k + 1 + j) (vs.getD j 0)) := by
      funext j
      simp only [Function.comp, Nat.succ_eq_add_one, List.getD_cons_succ]
      congr 1
      omega
    rw [this]
    ring

/-- `dotFrom c start basis = Σ_j c[start+j]·basis[j]` -/
theorem dotFrom_eq_sum (c : ℕ → K) (start : ℕ) (basis : List K) :
    dotFrom c start basis
      = ((List.range basis.length).map (fun j => c (start + j) * basis.getD j 0)).sum := by
  unfold dotFrom
  have := foldl_zipIdx_eq_sum (fun j b => c (start + j) * b) basis 0 0
  simp only [zero_add] at this
  exact this

end sums

section shiftdot
variable {K : Type*} [Field K] [LinearOrder K] [IsStrictOrderedRing K]

theorem shiftCont_dot (A B : List K) (p : ℕ) (h : ShiftCont A B p) (hA : A.length = p + 1) (hB : B.length = p + 1)
    (c c' : ℕ → K) (a a' : ℕ) (hc : ∀ j, j < p → c (a + (j + 1)) = c' (a' + j)) :
    dotFrom c a A = dotFrom c' a' B := by
  obtain ⟨h1, h2, h3⟩ := h
  rw [dotFrom_eq_sum, dotFrom_eq_sum, hA, hB]
  have e1 : ((List.range (p + 1)).map (fun j => c (a + j) * A.getD j 0)).sum
      = ((List.range p).map (fun j => c' (a' + j) * B.getD j 0)).sum := by
    rw [List.range_succ_eq_map]
    simp only [List.map_cons, List.sum_cons, List.map_map, h2, mul_zero, zero_add]
    apply congrArg
    apply List.map_congr_left
    intro j hj
    have hj' := List.mem_range.mp hj
    simp only [Function.comp, Nat.succ_eq_add_one]
    rw [hc j hj', h1 j hj']
  have e2 : ((List.range (p + 1)).map (fun j => c' (a' + j) * B.getD j 0)).sum
      = ((List.range p).map (fun j => c' (a' + j) * B.getD j 0)).sum := by
    rw [List.range_succ]
    simp only [List.map_append, List.sum_append, List.map_cons, List.map_nil, List.sum_cons, List.sum_nil, h3,
      mul_zero, add_zero]
  rw [e1, e2]

end shiftdot

/-! ### derivative of the A2.2 triangle in an abstract differential ring

 `a k` plays `x - t_{span-k}` (`left[k]`), `b m` plays `t_{span+1+m} - x` (`right[m]`),
 `e k m` is the inverse of the constant `a k + b m`.
 `U k m` is the level-`(k+m)` value at position `m`, i.e. `values[m]` after `k+m` sweeps. -/

section deriv
variable {R : Type*} [CommRing R]

def U (a b : ℕ → R) (e : ℕ → ℕ → R) : ℕ → ℕ → R
  | 0, 0 => 1
  | 0, m+1 => a 0 * (U a b e 0 m * e 0 m)
  | k+1, 0 => b 0 * (U a b e k 0 * e k 0)
  | k+1, m+1 => a (k+1) * (U a b e (k+1) m * e (k+1) m) + b (m+1) * (U a b e k (m+1) * e k (m+1))

/-- contribution of the left parent -/
def P (a b : ℕ → R) (e : ℕ → ℕ → R) (k : ℕ) : ℕ → R
  | 0 => 0
  | m+1 => U a b e k m * e k m
/-- contribution of the right parent -/
def Q (a b : ℕ → R) (e : ℕ → ℕ → R) : ℕ → ℕ → R
  | 0, _ => 0
  | k+1, m => U a b e k m * e k m

theorem U_eq (a b : ℕ → R) (e : ℕ → ℕ → R) : ∀ k m, k + m ≠ 0 →
    U a b e k m = a k * P a b e k m + b m * Q a b e k m
  | 0, 0, h => by omega
  | 0, m+1, _ => by simp [U, P, Q]
  | k+1, 0, _ => by simp [U, P, Q]
  | k+1, m+1, _ => by simp [U, P, Q]

/-- degree-lowering derivative formula: `D U(k,m) = (k+m)·(P − Q)` -/
theorem U_deriv (D : R → R) (hadd : ∀ u v, D (u + v) = D u + D v)
    (hmul : ∀ u v, D (u * v) = D u * v + u * D v)
    (a b : ℕ → R) (e : ℕ → ℕ → R)
    (ha : ∀ k, D (a k) = 1) (hb : ∀ m, D (b m) = -1) (he : ∀ k m, D (e k m) = 0)
    (hinv : ∀ k m, e k m * (a k + b m) = 1) (h1 : D 1 = 0) :
    ∀ k m, D (U a b e k m) = ((k + m : ℕ) : R) * (P a b e k m - Q a b e k m)
  | 0, 0 => by simp [U, P, Q, h1]
  | 0, m+1 => by
    have ih := U_deriv D hadd hmul a b e ha hb he hinv h1 0 m
    simp only [U, P, Q]
    rw [hmul, hmul, ha, he, ih]
    cases m with
    | zero => simp [P, Q]
    | succ m' =>
      simp only [P, Q, U]
      push_cast
      ring
  | k+1, 0 => by
    have ih := U_deriv D hadd hmul a b e ha hb he hinv h1 k 0
    simp only [U, P, Q]
    rw [hmul, hmul, hb, he, ih]
    cases k with
    | zero => simp [P, Q]
    | succ k' =>
      simp only [P, Q, U]
      push_cast
      ring
  | k+1, m+1 => by
    have ih1 := U_deriv D hadd hmul a b e ha hb he hinv h1 (k+1) m
    have ih2 := U_deriv D hadd hmul a b e ha hb he hinv h1 k (m+1)
    simp only [U, P, Q]
    rw [hadd, hmul, hmul, hmul, hmul, ha, hb, he, he, ih1, ih2]
    have e1 := U_eq a b e (k+1) m (by omega)
    have e2 := U_eq a b e k (m+1) (by omega)
    simp only [P, Q] at e1 e2 ⊢
    rw [e1, e2]
    push_cast
    linear_combination
      (((k:R) + m + 1) * (U a b e k m * e k m)) * (hinv k (m+1)) -
      (((k:R) + m + 1) * (U a b e k m * e k m)) * (hinv (k+1) m)

end deriv

/-! ### A2.2 in `K[X]`: the cell polynomials and their derivatives -/

section poly
open Polynomial
variable {K : Type*} [Field K] [LinearOrder K] [IsStrictOrderedRing K]

theorem levels_getD_eq_U (left right : ℕ → K) :
    ∀ (j k m : ℕ), k + m = j →
      (levels left right j).getD m 0 = U left right (fun k m => (left k + right m)⁻¹) k m := by
  intro j
  induction j with
  | zero =>
    intro k m h
    have hk : k = 0 := by omega
    have hm : m = 0 := by omega
    subst hk; subst hm
    simp [levels, U]
  | succ j ih =>
    intro k m h
    simp only [levels]
    rw [innerLoop_getD, levels_length]
    cases m with
    | zero =>
      have hk : k = j + 1 := by omega
      subst hk
      simp only [if_true, Nat.add_eq_zero_iff, one_ne_zero, and_false, if_false, zero_add, Nat.sub_zero]
      rw [ih j 0 (by omega)]
      simp only [U]
      rw [div_eq_mul_inv, add_comm (right 0) (left j)]
    | succ m =>
      rw [if_neg (by omega), if_pos (by omega)]
      simp only [zero_add, Nat.add_sub_cancel]
      cases k with
      | zero =>
        have hm : m = j := by omega
        subst hm
        rw [if_neg (by omega), add_zero, ih 0 m (by omega)]
        simp only [U, Nat.sub_self]
        rw [div_eq_mul_inv, add_comm (right m) (left 0)]
      | succ k =>
        have hj : j = k + 1 + m := by omega
        subst hj
        rw [if_pos (by omega), ih (k+1) m (by omega), ih k (m+1) (by omega)]
        have e1 : k + 1 + m - m = k + 1 := by omega
        have e2 : k + 1 + m - (m + 1) = k := by omega
        simp only [U, e1, e2]
        rw [div_eq_mul_inv, div_eq_mul_inv, add_comm (right m) (left (k+1)), add_comm (right (m+1)) (left k)]

section
variable {R S : Type*} [CommRing R] [CommRing S]
theorem U_map (φ : R →+* S) (a b : ℕ → R) (e : ℕ → ℕ → R) :
    ∀ k m, φ (U a b e k m) = U (fun k => φ (a k)) (fun m => φ (b m)) (fun k m => φ (e k m)) k m
  | 0, 0 => by simp [U]
  | 0, m+1 => by simp only [U, map_mul]; rw [U_map φ a b e 0 m]
  | k+1, 0 => by simp only [U, map_mul]; rw [U_map φ a b e k 0]
  | k+1, m+1 => by
    simp only [U, map_mul, map_add]
    rw [U_map φ a b e (k+1) m, U_map φ a b e k (m+1)]
end

/-- `left[k]`, `right[m]` and the (constant) reciprocal denominators of A2.2 as polynomials in `x` -/
noncomputable def aX (t : ℕ → K) (span : ℕ) : ℕ → K[X] := fun k => X - C (t (span - k))
noncomputable def bX (t : ℕ → K) (span : ℕ) : ℕ → K[X] := fun m => C (t (span + 1 + m)) - X
noncomputable def eX (t : ℕ → K) (span : ℕ) : ℕ → ℕ → K[X] := fun k m => C ((t (span + 1 + m) - t (span - k))⁻¹)

/-- the polynomial of basis function `r` (of the `p+1` active ones) on the cell `span`: A2.2 run in `K[X]` -/
noncomputable def cellPoly (t : ℕ → K) (span p r : ℕ) : K[X] := U (aX t span) (bX t span) (eX t span) (p - r) r

/-- evaluation of the triangle in `K[X]` = the triangle of the model at `x` -/
theorem U_poly_eval (t : ℕ → K) (span : ℕ) (x : K) (k m : ℕ) :
    (U (aX t span) (bX t span) (eX t span) k m).eval x = (levels (leftOf t span x) (rightOf t span x) (k + m)).getD m 0 := by
  rw [levels_getD_eq_U _ _ (k + m) k m rfl]
  have h := U_map (evalRingHom x) (aX t span) (bX t span) (eX t span) k m
  simp only [coe_evalRingHom] at h
  rw [h]
  have ha : (fun k => eval x (aX t span k)) = leftOf t span x := by
    funext k; simp [aX, leftOf]
  have hb : (fun m => eval x (bX t span m)) = rightOf t span x := by
    funext m; simp [bX, rightOf]
  have he : (fun k m => eval x (eX t span k m)) = (fun k m => (leftOf t span x k + rightOf t span x m)⁻¹) := by
    funext k m
    simp only [eX, eval_C, leftOf, rightOf]
    congr 1; ring
  rw [ha, hb, he]

theorem cellPoly_eval (t : ℕ → K) (span p r : ℕ) (hr : r ≤ p) (x : K) :
    (cellPoly t span p r).eval x = (basisFuns t p x span).getD r 0 := by
  unfold cellPoly basisFuns
  rw [U_poly_eval, Nat.sub_add_cancel hr]

theorem getD_map_range (f : ℕ → K) (n r : ℕ) (hr : r < n) : ((List.range n).map f).getD r 0 = f r := by
  simp [List.getD_eq_getElem?_getD, hr]

/-- the degree-lowering output is the derivative of the cell polynomial -/
theorem cellPoly_derivative_eval (t : ℕ → K) (ht : Monotone t) (span p r : ℕ) (hcell : t span < t (span + 1))
    (hr : r ≤ p) (x : K) :
    (derivative (cellPoly t span p r)).eval x = (basisFunsDer t p x span).getD r 0 := by
  have hinv : ∀ k m, eX t span k m * (aX t span k + bX t span m) = 1 := by
    intro k m
    simp only [eX, aX, bX]
    have h1 : t (span - k) ≤ t span := ht (by omega)
    have h2 : t (span + 1) ≤ t (span + 1 + m) := ht (by omega)
    have hne : t (span + 1 + m) - t (span - k) ≠ 0 := ne_of_gt (by linarith)
    have : X - C (t (span - k)) + (C (t (span + 1 + m)) - X) = C (t (span + 1 + m) - t (span - k)) := by
      rw [C_sub]; ring
    rw [this, ← C_mul, inv_mul_cancel₀ hne, C_1]
  have hd := U_deriv (fun q : K[X] => derivative q) (fun u v => derivative_add) (fun u v => derivative_mul)
    (aX t span) (bX t span) (eX t span)
    (fun k => by simp [aX]) (fun m => by simp [bX]) (fun k m => by simp [eX]) hinv (by simp) (p - r) r
  unfold cellPoly
  rw [hd, Nat.sub_add_cancel hr, basisFunsDer, getD_map_range _ _ _ (by omega)]
  simp only [eval_mul, eval_sub, eval_natCast]
  have hP : (p : K) * eval x (P (aX t span) (bX t span) (eX t span) (p - r) r)
      = if r = 0 then 0 else derSaved t p span (basisFuns t (p - 1) x span) (r - 1) := by
    cases r with
    | zero => simp [P]
    | succ r' =>
      rw [if_neg (by omega)]
      simp only [P, eval_mul, U_poly_eval, Nat.add_sub_cancel, derSaved, basisFuns, eX, eval_C]
      have e1 : p - (r' + 1) + r' = p - 1 := by omega
      have e2 : span - (p - (r' + 1)) = span + r' + 1 - p := by omega
      have e3 : span + 1 + r' = span + r' + 1 := by omega
      rw [e1, e2, e3, div_eq_mul_inv]; ring
  have hQ : (p : K) * eval x (Q (aX t span) (bX t span) (eX t span) (p - r) r)
      = if r < p then derSaved t p span (basisFuns t (p - 1) x span) r else 0 := by
    by_cases hlt : r < p
    · rw [if_pos hlt]
      obtain ⟨k', hk'⟩ : ∃ k', p - r = k' + 1 := ⟨p - r - 1, by omega⟩
      rw [hk']
      simp only [Q, eval_mul, U_poly_eval, derSaved, basisFuns, eX, eval_C]
      have e1 : k' + r = p - 1 := by omega
      have e2 : span - k' = span + r + 1 - p := by omega
      have e3 : span + 1 + r = span + r + 1 := by omega
      rw [e1, e2, e3, div_eq_mul_inv]; ring
    · rw [if_neg hlt]
      have : p - r = 0 := by omega
      rw [this]; simp [Q]
  rw [mul_sub, hP, hQ]


end poly

end PygyroVerif.BSpline
