/-
Helper lemmas for C18 (parameter file): the dependency-ordered parser `getConstants` (Model/Checkpoint.lean, transcription of
`get_constants` in pygyro/initialisation/constants.py) does not depend on the order of the keys.

Route.  `Res D k` ("`k` is resolvable in the file `D`") is the order-independent least fixed point: `k` is the key of an entry all
of whose referenced constants are resolvable.  The state of the parser (pending entries, constants set so far) satisfies the
invariant `Inv`:
  * pending entries are entries of the file, with distinct keys, and their constants are still unset;
  * every entry of the file that is no longer pending has been given the value of its expression (`evalP env pv = env k`), and
    this stays true later because an expression only reads the constants it names (`Local`) and a constant is set once;
  * everything that is set is resolvable.
A sweep keeps `Inv` (whatever the order of the entries), and it makes progress as soon as one pending entry can be evaluated.
Hence: a run that succeeds has made every key resolvable and returns a `Solution`; a run on a file all of whose keys are resolvable
never hits the progress assertion (with `length ≤ fuel` it does not run out of fuel either).  Resolvability only looks at
membership in the file, so it is the same for all orderings.
-/
import PygyroVerif.Lemmas.Reductions
import Mathlib.Data.List.Perm.Basic
import Mathlib.Data.List.Nodup
import Mathlib.Logic.Basic
import Mathlib.Tactic.ByContra

namespace PygyroVerif.Ckpt
open List

section constantsOrder
variable {V : Type}

/-- the constants an entry refers to -/
def PVal.deps : PVal V → List String
  | .lit _ => []
  | .expr d _ => d

/-- `eval_expr` returns a value exactly when all the referenced constants are set -/
theorem evalP_isSome_iff (env : String → Option V) (pv : PVal V) :
    (evalP env pv).isSome = true ↔ ∀ d ∈ pv.deps, (env d).isSome = true := by
  cases pv with
  | lit v => simp [evalP, PVal.deps]
  | expr deps f =>
    simp only [evalP, PVal.deps]
    by_cases h : deps.all (fun k => (env k).isSome) = true
    · rw [if_pos h]
      simpa using List.all_eq_true.1 h
    · rw [if_neg h]
      constructor
      · intro h'; simp at h'
      · intro h'; exact absurd (List.all_eq_true.2 h') h

/-- setting a constant that was unset does not change the value of an expression that could already be evaluated -/
theorem evalP_setEnv (env : String → Option V) (pv : PVal V) (hloc : pv.Local) (k : String) (v w : V)
    (hk : env k = none) (he : evalP env pv = some w) : evalP (setEnv env k v) pv = some w := by
  cases pv with
  | lit v0 => simpa [evalP] using he
  | expr deps f =>
    simp only [evalP] at he ⊢
    by_cases h : deps.all (fun k => (env k).isSome) = true
    · rw [if_pos h] at he
      have hall := List.all_eq_true.1 h
      have hne : ∀ d ∈ deps, d ≠ k := by
        intro d hd hdk
        have := hall d hd
        rw [hdk, hk] at this
        simp at this
      have hagree : ∀ d ∈ deps, setEnv env k v d = env d := by
        intro d hd; unfold setEnv; rw [if_neg (hne d hd)]
      have h' : deps.all (fun k' => (setEnv env k v k').isSome) = true := by
        rw [List.all_eq_true]; intro d hd; rw [hagree d hd]; exact hall d hd
      rw [if_pos h', hloc (setEnv env k v) env hagree]
      exact he
    · rw [if_neg h] at he; exact absurd he (by simp)

/-- **resolvable keys** (order independent): the key of an entry all of whose referenced constants are resolvable -/
inductive Res (D : List (String × PVal V)) : String → Prop
  | mk (k : String) (pv : PVal V) (hmem : (k, pv) ∈ D) (hdeps : ∀ d ∈ pv.deps, Res D d) : Res D k

theorem Res.mono {D D' : List (String × PVal V)} (hsub : ∀ kp ∈ D, kp ∈ D') {k : String} (h : Res D k) : Res D' k := by
  induction h with
  | mk k pv hmem _ ih => exact Res.mk k pv (hsub _ hmem) ih

theorem Res.perm {D D' : List (String × PVal V)} (hp : D ~ D') (k : String) : Res D k ↔ Res D' k :=
  ⟨Res.mono (fun _ h => hp.mem_iff.1 h), Res.mono (fun _ h => hp.mem_iff.2 h)⟩

/-- the invariant of the parser: file `D`, pending entries `pend`, constants `env` -/
structure Inv (D pend : List (String × PVal V)) (env : String → Option V) : Prop where
  sub : ∀ kp ∈ pend, kp ∈ D
  nodup : (pend.map (·.1)).Nodup
  unset : ∀ kp ∈ pend, env kp.1 = none
  done : ∀ kp ∈ D, kp ∉ pend → evalP env kp.2 = env kp.1 ∧ (env kp.1).isSome = true
  sound : ∀ k, (env k).isSome = true → Res D k

/-- the start: everything pending, nothing set (needs distinct keys) -/
theorem Inv.init (D : List (String × PVal V)) (hnd : (D.map (·.1)).Nodup) : Inv D D (fun _ => none) where
  sub := fun _ h => h
  nodup := hnd
  unset := fun _ _ => rfl
  done := fun kp h h' => absurd h h'
  sound := fun k h => by simp at h

/-- the invariant does not look at the order of the pending entries -/
theorem Inv.perm {D pend pend' : List (String × PVal V)} {env : String → Option V} (hp : pend ~ pend')
    (h : Inv D pend env) : Inv D pend' env where
  sub := fun kp hk => h.sub kp (hp.mem_iff.2 hk)
  nodup := (hp.map _).nodup_iff.1 h.nodup
  unset := fun kp hk => h.unset kp (hp.mem_iff.2 hk)
  done := fun kp hk hn => h.done kp hk (fun hc => hn (hp.mem_iff.1 hc))
  sound := h.sound

/-- one entry is evaluated and its constant set -/
theorem Inv.step {D pend : List (String × PVal V)} {env : String → Option V} (hloc : ∀ kp ∈ D, kp.2.Local)
    (k : String) (pv : PVal V) (v : V) (h : Inv D ((k, pv) :: pend) env) (he : evalP env pv = some v) :
    Inv D pend (setEnv env k v) := by
  have hkD : (k, pv) ∈ D := h.sub _ (by simp)
  have hk0 : env k = none := h.unset (k, pv) (by simp)
  have hnd := h.nodup
  simp only [List.map_cons, List.nodup_cons] at hnd
  refine ⟨fun kp hk => h.sub kp (List.mem_cons_of_mem _ hk), hnd.2, ?_, ?_, ?_⟩
  · intro kp hk
    have hne : kp.1 ≠ k := fun e => hnd.1 (e ▸ List.mem_map_of_mem (f := (·.1)) hk)
    unfold setEnv; rw [if_neg hne]
    exact h.unset kp (List.mem_cons_of_mem _ hk)
  · intro kp hkD' hn
    by_cases hkp : kp = (k, pv)
    · subst hkp
      refine ⟨?_, by simp [setEnv]⟩
      rw [evalP_setEnv env pv (hloc _ hkD) k v v hk0 he]
      simp [setEnv]
    · have hn' : kp ∉ (k, pv) :: pend := by
        intro hc; rcases List.mem_cons.1 hc with hc | hc
        · exact hkp hc
        · exact hn hc
      obtain ⟨d1, d2⟩ := h.done kp hkD' hn'
      have hne : kp.1 ≠ k := by
        intro e; rw [e, hk0] at d2; simp at d2
      obtain ⟨w, hw⟩ := Option.isSome_iff_exists.1 d2
      have hset : setEnv env k v kp.1 = env kp.1 := by unfold setEnv; rw [if_neg hne]
      rw [hset]
      refine ⟨?_, d2⟩
      rw [evalP_setEnv env kp.2 (hloc _ hkD') k v w hk0 (by rw [d1, hw]), hw]
  · intro k' hk'
    by_cases e : k' = k
    · subst e
      refine Res.mk k' pv hkD (fun d hd => h.sound d ?_)
      have : (evalP env pv).isSome = true := by rw [he]; rfl
      exact (evalP_isSome_iff env pv).1 this d hd
    · unfold setEnv at hk'; rw [if_neg e] at hk'
      exact h.sound k' hk'

/-- **a sweep keeps the invariant**, whatever the order of the entries it is given -/
theorem sweep_Inv {D : List (String × PVal V)} (hloc : ∀ kp ∈ D, kp.2.Local) :
    ∀ (items : List (String × PVal V)) (env : String → Option V) (um : List (String × PVal V)),
      Inv D (um ++ items) env → Inv D (sweep items env um).2 (sweep items env um).1
  | [], env, um, h => by simpa [sweep] using h
  | (k, pv) :: rest, env, um, h => by
    cases he : evalP env pv with
    | some v =>
      simp only [sweep, he]
      exact sweep_Inv hloc rest (setEnv env k v) um (Inv.step hloc k pv v (h.perm List.perm_middle) he)
    | none =>
      simp only [sweep, he]
      refine sweep_Inv hloc rest env (um ++ [(k, pv)]) ?_
      rw [List.append_assoc]
      exact h

/-- a sweep never lengthens the list of pending entries -/
theorem sweep_length_le : ∀ (items : List (String × PVal V)) (env : String → Option V) (um : List (String × PVal V)),
    (sweep items env um).2.length ≤ um.length + items.length
  | [], _, _ => by simp [sweep]
  | (k, pv) :: rest, env, um => by
    cases he : evalP env pv with
    | some v =>
      simp only [sweep, he, List.length_cons]
      have := sweep_length_le rest (setEnv env k v) um
      omega
    | none =>
      simp only [sweep, he, List.length_cons]
      have := sweep_length_le rest env (um ++ [(k, pv)])
      simp only [List.length_append, List.length_cons, List.length_nil] at this
      omega

/-- **progress**: if one of the entries can be evaluated at the start of the sweep, the sweep resolves at least one -/
theorem sweep_length_lt : ∀ (items : List (String × PVal V)) (env : String → Option V) (um : List (String × PVal V)),
    (∃ kp ∈ items, (evalP env kp.2).isSome = true) → (sweep items env um).2.length < um.length + items.length
  | [], _, _, h => by obtain ⟨_, h, _⟩ := h; simp at h
  | (k, pv) :: rest, env, um, h => by
    cases he : evalP env pv with
    | some v =>
      simp only [sweep, he, List.length_cons]
      have := sweep_length_le rest (setEnv env k v) um
      omega
    | none =>
      simp only [sweep, he, List.length_cons]
      have hex : ∃ kp ∈ rest, (evalP env kp.2).isSome = true := by
        obtain ⟨kp, hk, hs⟩ := h
        rcases List.mem_cons.1 hk with hk | hk
        · subst hk; rw [he] at hs; simp at hs
        · exact ⟨kp, hk, hs⟩
      have := sweep_length_lt rest env (um ++ [(k, pv)]) hex
      simp only [List.length_append, List.length_cons, List.length_nil] at this
      omega

/-- in a file all of whose keys are resolvable the parser is never stuck: some pending entry can be evaluated -/
theorem Inv.not_stuck {D pend : List (String × PVal V)} {env : String → Option V} (h : Inv D pend env)
    (hres : ∀ kp ∈ D, Res D kp.1) (hne : pend ≠ []) : ∃ kp ∈ pend, (evalP env kp.2).isSome = true := by
  by_contra hno
  have hall : ∀ k, Res D k → (env k).isSome = true := by
    intro k hk
    induction hk with
    | mk k pv hmem _ ih =>
      have hev : (evalP env pv).isSome = true := (evalP_isSome_iff env pv).2 ih
      by_cases hp : (k, pv) ∈ pend
      · exact absurd ⟨(k, pv), hp, hev⟩ hno
      · exact (h.done (k, pv) hmem hp).2
  obtain ⟨kp, hkp⟩ := List.exists_mem_of_ne_nil pend hne
  have h1 := hall kp.1 (hres kp (h.sub kp hkp))
  rw [h.unset kp hkp] at h1
  simp at h1

/-- a successful run ends with the invariant for "nothing pending" -/
theorem getConstants_Inv {D : List (String × PVal V)} (hloc : ∀ kp ∈ D, kp.2.Local) :
    ∀ (fuel : Nat) (pend : List (String × PVal V)) (env res : String → Option V), Inv D pend env →
      getConstants fuel pend env = some res → Inv D [] res
  | fuel, [], env, res, h, hg => by
    cases fuel <;> (simp only [getConstants] at hg; cases hg; exact h)
  | 0, _ :: _, _, _, _, hg => by simp [getConstants] at hg
  | fuel + 1, d :: ds, env, res, h, hg => by
    simp only [getConstants] at hg
    have hs : Inv D (sweep (d :: ds).reverse env []).2 (sweep (d :: ds).reverse env []).1 :=
      sweep_Inv hloc _ env [] (by rw [List.nil_append]; exact h.perm (List.reverse_perm _).symm)
    by_cases hlt : (sweep (d :: ds).reverse env []).2.length < (d :: ds).length
    · rw [if_pos hlt] at hg
      exact getConstants_Inv hloc fuel _ _ res hs hg
    · rw [if_neg hlt] at hg; exact absurd hg (by simp)

/-- if all keys are resolvable, a run with `length ≤ fuel` succeeds -/
theorem getConstants_isSome {D : List (String × PVal V)} (hloc : ∀ kp ∈ D, kp.2.Local) (hres : ∀ kp ∈ D, Res D kp.1) :
    ∀ (fuel : Nat) (pend : List (String × PVal V)) (env : String → Option V), Inv D pend env → pend.length ≤ fuel →
      (getConstants fuel pend env).isSome = true
  | fuel, [], env, _, _ => by cases fuel <;> simp [getConstants]
  | 0, _ :: _, _, _, hl => by simp at hl
  | fuel + 1, d :: ds, env, h, hl => by
    simp only [getConstants]
    have hs : Inv D (sweep (d :: ds).reverse env []).2 (sweep (d :: ds).reverse env []).1 :=
      sweep_Inv hloc _ env [] (by rw [List.nil_append]; exact h.perm (List.reverse_perm _).symm)
    have hlt : (sweep (d :: ds).reverse env []).2.length < (d :: ds).length := by
      obtain ⟨kp, hk, he⟩ := h.not_stuck hres (by simp)
      have := sweep_length_lt (d :: ds).reverse env [] ⟨kp, List.mem_reverse.2 hk, he⟩
      simpa using this
    rw [if_pos hlt]
    exact getConstants_isSome hloc hres fuel _ _ hs (by omega)

/-- **success = all keys resolvable** (distinct keys, local expressions, enough fuel): the criterion does not mention the
order of the keys -/
theorem getConstants_isSome_iff (D : List (String × PVal V)) (hnd : (D.map (·.1)).Nodup) (hloc : ∀ kp ∈ D, kp.2.Local)
    (fuel : Nat) (hf : D.length ≤ fuel) :
    (getConstants fuel D (fun _ => none)).isSome = true ↔ ∀ kp ∈ D, Res D kp.1 := by
  constructor
  · intro hs kp hk
    obtain ⟨res, hres⟩ := Option.isSome_iff_exists.1 hs
    have hI := getConstants_Inv hloc fuel D _ res (Inv.init D hnd) hres
    exact hI.sound kp.1 (hI.done kp hk (by simp)).2
  · intro hres
    exact getConstants_isSome hloc hres fuel D _ (Inv.init D hnd) hf

/-- **a successful run returns a solution of the file**: every key has the value of its entry -/
theorem getConstants_Solution (D : List (String × PVal V)) (hnd : (D.map (·.1)).Nodup) (hloc : ∀ kp ∈ D, kp.2.Local)
    (fuel : Nat) (res : String → Option V) (h : getConstants fuel D (fun _ => none) = some res) : Solution D res := by
  have hI := getConstants_Inv hloc fuel D _ res (Inv.init D hnd) h
  exact fun kp hk => hI.done kp hk (by simp)

end constantsOrder

end PygyroVerif.Ckpt
