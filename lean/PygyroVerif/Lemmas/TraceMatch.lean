/-
Helper lemmas for Props/C06Traces.lean: the per-rank traces of collective calls that Model/Traces.lean predicts for
`LayoutHandler.transpose` (pygyro/model/layout.py:485-686) are the projections of ONE global event list.

  * A  members of one instance of the `Sub` communicator of a direct step predict the same `Alltoall`
  * B  `bufferSize c = 0` (the early exit of `transpose`) in terms of the first layout and of the compatible pairs
  * C  transfer of `bufferSize = 0` between two ranks along a process axis
  * D  event lists with calls attached, projection on a rank, link with `Coll.program`
  * E  rank <-> coordinates, the instances of a `Sub` communicator
  * F  the event list of a direct step / a route / a sequence of transposes and its projection
-/
import PygyroVerif.Model.Traces
import PygyroVerif.Model.Collectives
import PygyroVerif.Lemmas.BufferSize
import PygyroVerif.Lemmas.DirectStepRoute
import Mathlib.Algebra.BigOperators.GroupWithZero.Finset
import Mathlib.Tactic.ByContra
import Mathlib.Logic.Basic

namespace PygyroVerif.TraceMatch
open PygyroVerif PygyroVerif.Handler PygyroVerif.Traces PygyroVerif.BufferSize

/-! ### A. one direct step: the call of a rank and its dependence on the coordinates -/

/-- `c` and `c'` differ at most in the coordinate of process axis `a`: the two ranks belong to the same instance of
    the `Sub` communicator that keeps axis `a` -/
def AgreeOff (a : Nat) (c c' : List Nat) : Prop := ∀ k, k ≠ a → c.getD k 0 = c'.getD k 0

theorem AgreeOff.symm {a : Nat} {c c' : List Nat} (h : AgreeOff a c c') : AgreeOff a c' c :=
  fun k hk => (h k hk).symm

theorem AgreeOff.refl (a : Nat) (c : List Nat) : AgreeOff a c c := fun _ _ => rfl

/-- the process axis whose `Sub` communicator the direct step `iS → iD` uses (`axis[0]` of `_get_swap_axes`) -/
def stepAxis (h : Handler) (iS iD : Nat) : Nat :=
  (swapAxes h.nprocs (h.layoutAt iS).ord (h.layoutAt iD).ord).getD 0 0

/-- the direct step `iS → iD` communicates (`len(axis) != 0`) -/
def stepComm (h : Handler) (iS iD : Nat) : Prop :=
  (swapAxes h.nprocs (h.layoutAt iS).ord (h.layoutAt iD).ord).length ≠ 0

instance (h : Handler) (iS iD : Nat) : Decidable (stepComm h iS iD) := by unfold stepComm; infer_instance

/-- number of array elements a rank passes to `Alltoall` in the direct step `iS → iD` -/
def stepCount (h : Handler) (c : List Nat) (iS iD : Nat) : Nat :=
  prodL (exchangeShape (h.layoutAt iS) (h.layoutAt iD) c (swapAxes h.nprocs (h.layoutAt iS).ord (h.layoutAt iD).ord)
    (h.nprocs.getD (stepAxis h iS iD) 1))

/-- the one call of a communicating direct step -/
def directCall (h : Handler) (c : List Nat) (axisName : Nat → String) (iS iD : Nat) : Call :=
  { comm := axisName (stepAxis h iS iD), op := "Alltoall", send := stepCount h c iS iD, recv := stepCount h c iS iD }

theorem directTrace_eq (h : Handler) (c : List Nat) (axisName : Nat → String) (iS iD : Nat) :
    directTrace h c axisName iS iD = if stepComm h iS iD then [directCall h c axisName iS iD] else [] := by
  unfold directTrace stepComm directCall stepCount stepAxis
  by_cases hl : (swapAxes h.nprocs (h.layoutAt iS).ord (h.layoutAt iD).ord).length = 0
  · simp only [hl, ↓reduceIte, ne_eq, not_true_eq_false]
  · simp only [hl, ↓reduceIte, ne_eq, not_false_eq_true]

theorem shp_agree (L : Layout) {a : Nat} {c c' : List Nat} (h : AgreeOff a c c') (k : Nat) (hk : k ≠ a) :
    shp L c k = shp L c' k := by
  unfold shp; rw [h k hk]

/-- the shape with entries `a0` and `a1` overwritten, as a map over the axes -/
theorem shape_set_set (L : Layout) (c : List Nat) (a0 a1 x y : Nat) :
    ((L.shape c).set a1 y).set a0 x =
      (List.range L.ndims).map (fun k => if k = a0 then x else if k = a1 then y else shp L c k) := by
  rw [shape_eq, map_range_set, map_range_set]

/-- the exchanged block does not depend on the coordinate on process axis `a0` -/
theorem exchangeShape_agree (LS LD : Layout) (axis : List Nat) (p : Nat) {c c' : List Nat}
    (h : AgreeOff (axis.getD 0 0) c c') : exchangeShape LS LD c axis p = exchangeShape LS LD c' axis p := by
  unfold exchangeShape
  simp only []
  rw [shape_set_set, shape_set_set]
  apply List.map_congr_left
  intro k _
  by_cases h0 : k = axis.getD 0 0
  · simp only [h0, ↓reduceIte]
  · simp only [h0, ↓reduceIte, shp_agree LS h k h0]

theorem stepCount_agree (h : Handler) (iS iD : Nat) {c c' : List Nat} (hcc : AgreeOff (stepAxis h iS iD) c c') :
    stepCount h c iS iD = stepCount h c' iS iD := by
  unfold stepCount
  rw [exchangeShape_agree _ _ _ _ hcc]

theorem directCall_agree (h : Handler) (axisName : Nat → String) (iS iD : Nat) {c c' : List Nat}
    (hcc : AgreeOff (stepAxis h iS iD) c c') : directCall h c axisName iS iD = directCall h c' axisName iS iD := by
  unfold directCall
  rw [stepCount_agree h iS iD hcc]

theorem directTrace_agree (h : Handler) (axisName : Nat → String) (iS iD : Nat) {c c' : List Nat}
    (hcc : AgreeOff (stepAxis h iS iD) c c') : directTrace h c axisName iS iD = directTrace h c' axisName iS iD := by
  rw [directTrace_eq, directTrace_eq, directCall_agree h axisName iS iD hcc]

/-- a communicating step uses a genuine, distributed process axis on which the two orderings differ -/
theorem stepAxis_mem (h : Handler) (iS iD : Nat) (hs : stepComm h iS iD) :
    stepAxis h iS iD ∈ diffAxes h.nprocs (h.layoutAt iS).ord (h.layoutAt iD).ord := by
  unfold stepComm at hs
  unfold stepAxis
  rcases hd : diffAxes h.nprocs (h.layoutAt iS).ord (h.layoutAt iD).ord with _ | ⟨a, rest⟩
  · rw [swapAxes_nil _ _ _ hd] at hs; exact absurd rfl hs
  · rw [(swapAxes_cons _ _ _ _ _ hd).2.1]; exact List.mem_cons_self

theorem stepAxis_lt (h : Handler) (iS iD : Nat) (hs : stepComm h iS iD) : stepAxis h iS iD < h.nprocs.length :=
  (mem_diffAxes.1 (stepAxis_mem h iS iD hs)).1

theorem stepAxis_procs (h : Handler) (iS iD : Nat) (hs : stepComm h iS iD) : 1 < h.nprocs.getD (stepAxis h iS iD) 1 :=
  (mem_diffAxes.1 (stepAxis_mem h iS iD hs)).2.1

theorem stepComm_symm (h : Handler) (iS iD : Nat) : stepComm h iS iD ↔ stepComm h iD iS := by
  have key : ∀ a b, stepComm h a b → stepComm h b a := by
    intro a b hs
    have hm := stepAxis_mem h a b hs
    rw [DS.diffAxes_symm] at hm
    unfold stepComm
    intro hl
    rcases hd : diffAxes h.nprocs (h.layoutAt b).ord (h.layoutAt a).ord with _ | ⟨x, rest⟩
    · rw [hd] at hm; cases hm
    · exact (swapAxes_cons _ _ _ _ _ hd).1 hl
  exact ⟨key iS iD, key iD iS⟩

/-- for a compatible pair the communicating axis is the only differing one, whatever the direction -/
theorem diffAxes_of_compatible (h : Handler) (iS iD : Nat)
    (hc : compatible h.nprocs (h.layoutAt iS).ord (h.layoutAt iD).ord = true) (hs : stepComm h iS iD) :
    diffAxes h.nprocs (h.layoutAt iS).ord (h.layoutAt iD).ord = [stepAxis h iS iD] ∧
    diffAxes h.nprocs (h.layoutAt iD).ord (h.layoutAt iS).ord = [stepAxis h iS iD] := by
  have hm := stepAxis_mem h iS iD hs
  unfold compatible at hc
  simp only [decide_eq_true_eq] at hc
  have h1 : diffAxes h.nprocs (h.layoutAt iS).ord (h.layoutAt iD).ord = [stepAxis h iS iD] := by
    rcases hd : diffAxes h.nprocs (h.layoutAt iS).ord (h.layoutAt iD).ord with _ | ⟨a, rest⟩
    · rw [hd] at hm; cases hm
    · rw [hd] at hc hm
      have hr : rest = [] := List.eq_nil_of_length_eq_zero (by simp only [List.length_cons] at hc; omega)
      subst hr
      rw [List.mem_singleton] at hm
      rw [hm]
  exact ⟨h1, by rw [DS.diffAxes_symm]; exact h1⟩

/-- the `Alltoall` count is a multiple of the size of the sub-communicator: every pair of members exchanges the same
    number `stepCount / p` of elements -/
theorem stepCount_dvd (h : Handler) (c : List Nat) (iS iD : Nat) (hs : stepComm h iS iD)
    (hnd : h.nprocs.length ≤ (h.layoutAt iS).ndims) :
    h.nprocs.getD (stepAxis h iS iD) 1 ∣ stepCount h c iS iD := by
  have ha := stepAxis_lt h iS iD hs
  unfold stepCount exchangeShape
  simp only []
  rw [shape_set_set, prodL_map_range]
  have hmem : stepAxis h iS iD ∈ Finset.range (h.layoutAt iS).ndims := Finset.mem_range.2 (by omega)
  refine Dvd.dvd.trans ?_ (Finset.dvd_prod_of_mem _ hmem)
  have e : (swapAxes h.nprocs (h.layoutAt iS).ord (h.layoutAt iD).ord).getD 0 0 = stepAxis h iS iD := rfl
  simp only [e, ↓reduceIte]
  exact Dvd.intro_left _ rfl

/-! ### B. when is the advertised buffer size zero -/

theorem foldl_inv {β : Type} (g : Nat → β → Nat) (P : Nat → Prop) :
    ∀ (l : List β) (a : Nat), P a → (∀ acc x, x ∈ l → P acc → P (g acc x)) → P (l.foldl g a) := by
  intro l
  induction l with
  | nil => intro a ha _; exact ha
  | cons x l ih =>
    intro a ha hstep
    exact ih (g a x) (hstep a x List.mem_cons_self ha) (fun acc y hy => hstep acc y (List.mem_cons_of_mem _ hy))

/-- the buffer size is zero as soon as the first layout's block and the `buffsize` of every compatible pair are -/
theorem bufferSize_eq_zero_of (h : Handler) (c : List Nat) (h0 : (h.layoutAt 0).size c = 0)
    (hp : ∀ n' i, i < n' → n' < h.nLayouts → pairCompat h n' i = true → pairBs h c n' i = 0) :
    h.bufferSize c = 0 := by
  rw [bufferSize_eq, h0]
  apply foldl_inv (outerStep h c) (fun v => v = 0) _ _ rfl
  intro acc n' hn' hacc
  subst hacc
  unfold outerStep
  apply foldl_inv (innerStep h c n') (fun v => v = 0) _ _ rfl
  intro acc i hi hacc
  subst hacc
  unfold innerStep
  by_cases hc : pairCompat h n' i = true
  · rw [if_pos hc, hp n' i (List.mem_range.1 hi) (List.mem_range.1 hn') hc]; simp
  · rw [if_neg hc]

theorem size_zero_of_bufferSize (h : Handler) (c : List Nat) (hz : h.bufferSize c = 0) :
    (h.layoutAt 0).size c = 0 := by
  have := bufferSize_ge_init h c; omega

theorem pairBs_zero_of_bufferSize (h : Handler) (c : List Nat) (hz : h.bufferSize c = 0) (n' i : Nat) (hi : i < n')
    (hn : n' < h.nLayouts) (hc : pairCompat h n' i = true) : pairBs h c n' i = 0 := by
  have := bufferSize_ge_pairBs h c n' i hi hn hc; omega

/-! ### C. transfer of `bufferSize = 0` along a process axis -/

theorem prodL_map_range_eq_zero (n : Nat) (f : Nat → Nat) :
    prodL ((List.range n).map f) = 0 ↔ ∃ k, k < n ∧ f k = 0 := by
  rw [prodL_map_range, Finset.prod_eq_zero_iff]
  constructor
  · rintro ⟨k, hk, h0⟩; exact ⟨k, Finset.mem_range.1 hk, h0⟩
  · rintro ⟨k, hk, h0⟩; exact ⟨k, Finset.mem_range.2 hk, h0⟩

/-- every axis that is empty on `c` in some layout is empty on `c'` as well -/
def ZeroIncl (h : Handler) (c c' : List Nat) : Prop :=
  ∀ i k, k < (h.layoutAt i).ndims → shp (h.layoutAt i) c k = 0 → shp (h.layoutAt i) c' k = 0

theorem size_zero_transfer (h : Handler) {c c' : List Nat} (hz : ZeroIncl h c c') (i : Nat)
    (h0 : (h.layoutAt i).size c = 0) : (h.layoutAt i).size c' = 0 := by
  rw [size_eq, shape_eq, prodL_map_range_eq_zero] at h0 ⊢
  obtain ⟨k, hk, hk0⟩ := h0
  exact ⟨k, hk, hz i k hk hk0⟩

theorem pairBs_zero_transfer (h : Handler) {c c' : List Nat} (hz : ZeroIncl h c c') (n' i : Nat)
    (h0 : pairBs h c n' i = 0) : pairBs h c' n' i = 0 := by
  unfold pairBs at h0 ⊢
  simp only [] at h0 ⊢
  by_cases hl : (swapAxes h.nprocs (h.layoutAt n').ord (h.layoutAt i).ord).length ≠ 0
  · rw [if_pos hl] at h0 ⊢
    rw [shape_set_set] at h0 ⊢
    have key : ∀ x y a0 a1, prodL ((List.range (h.layoutAt n').ndims).map
          (fun k => if k = a1 then y else if k = a0 then x else shp (h.layoutAt n') c k)) = 0 →
        prodL ((List.range (h.layoutAt n').ndims).map
          (fun k => if k = a1 then y else if k = a0 then x else shp (h.layoutAt n') c' k)) = 0 := by
      intro x y a0 a1 hh
      rw [prodL_map_range_eq_zero] at hh ⊢
      obtain ⟨k, hk, hk0⟩ := hh
      refine ⟨k, hk, ?_⟩
      by_cases e1 : k = a1
      · simpa only [e1, ↓reduceIte] using hk0
      · by_cases e0 : k = a0
        · simpa only [e1, e0, ↓reduceIte] using hk0
        · simp only [e1, e0, ↓reduceIte] at hk0 ⊢
          exact hz n' k hk hk0
    split at h0
    · rename_i hlt
      rw [if_pos hlt]
      rcases Nat.mul_eq_zero.1 h0 with hh | hh
      · rw [key _ _ _ _ hh, Nat.zero_mul]
      · rw [hh, Nat.mul_zero]
    · rename_i hlt
      rw [if_neg hlt]
      exact key _ _ _ _ h0
  · rw [if_neg hl] at h0 ⊢
    exact size_zero_transfer h hz n' h0

/-- **transfer**: if every block that is empty on `c` is empty on `c'`, an empty buffer on `c` means an empty buffer
    on `c'` -/
theorem bufferSize_zero_transfer (h : Handler) {c c' : List Nat} (hz : ZeroIncl h c c')
    (h0 : h.bufferSize c = 0) : h.bufferSize c' = 0 := by
  apply bufferSize_eq_zero_of
  · exact size_zero_transfer h hz 0 (size_zero_of_bufferSize h c h0)
  · intro n' i hi hn hc
    exact pairBs_zero_transfer h hz n' i (pairBs_zero_of_bufferSize h c h0 n' i hi hn hc)

/-- process axis `a` is not over-decomposed: every rank index of the axis owns a non-empty block of the dimension
    that any layout stores there -/
def AxisNonEmpty (h : Handler) (a : Nat) : Prop :=
  ∀ i, i < h.nLayouts → ∀ q, q < h.nprocs.getD a 1 →
    0 < blockLen ((h.layoutAt i).extAt a) (h.nprocs.getD a 1) q

instance (h : Handler) (a : Nat) : Decidable (AxisNonEmpty h a) := by unfold AxisNonEmpty; infer_instance

theorem ndims_zero_of_ge (h : Handler) (horders : h.orders.length = h.nLayouts) (i : Nat) (hi : ¬ i < h.nLayouts) :
    (h.layoutAt i).ndims = 0 := by
  unfold Handler.layoutAt Layout.ndims Layout.make
  simp only [List.getD_eq_getElem?_getD]
  rw [List.getElem?_eq_none (by omega)]
  rfl

/-- two ranks of the same `Sub` instance along an axis that is not over-decomposed have the same empty blocks -/
theorem zeroIncl_of_axisNonEmpty (h : Handler) (horders : h.orders.length = h.nLayouts) (a : Nat)
    (hne : AxisNonEmpty h a) {c c' : List Nat} (hcc : AgreeOff a c c') (hc : c.getD a 0 < h.nprocs.getD a 1) :
    ZeroIncl h c c' := by
  intro i k hk h0
  by_cases hka : k = a
  · subst hka
    by_cases hi : i < h.nLayouts
    · have hpos := hne i hi _ hc
      unfold shp at h0
      rw [procsAt_layoutAt] at h0
      omega
    · rw [ndims_zero_of_ge h horders i hi] at hk; omega
  · rw [← shp_agree _ hcc k hka]; exact h0

/-- over-decomposition (ranks with an empty block) occurs on process axis `aStar` at most, and no dimension of the
    array is empty.  `aStar ≥ nprocs.length` says: no process axis is over-decomposed. -/
structure OneAxisOver (h : Handler) (aStar : Nat) : Prop where
  ext_pos : ∀ d, d < h.ext.length → 0 < h.ext.getD d 0
  nonEmpty : ∀ a, a < h.nprocs.length → a ≠ aStar → AxisNonEmpty h a

theorem maxBlock_pos (n p : Nat) (hn : 0 < n) (hp : 0 < p) : 0 < maxBlock n p := by
  have := le_maxBlock_mul n p hp
  rcases Nat.eq_zero_or_pos (maxBlock n p) with h0 | h0
  · rw [h0, Nat.zero_mul] at this; omega
  · exact h0

theorem extAt_pos (h : Handler) (hw : WellFormed h) (hext : ∀ d, d < h.ext.length → 0 < h.ext.getD d 0)
    (i : Nat) (hi : i < h.nLayouts) (k : Nat) (hk : k < (h.layoutAt i).ndims) : 0 < (h.layoutAt i).extAt k := by
  have p1 := hw.perm i hi
  have hn : (h.layoutAt i).ndims = h.ext.length := perm_length p1
  unfold Layout.extAt
  exact hext _ (perm_getD_lt p1 (by omega))

theorem getD_procs_ge (np : List Nat) (a : Nat) (h : ¬ a < np.length) : np.getD a 1 = 1 := by
  rw [List.getD_eq_getElem?_getD, List.getElem?_eq_none (by omega)]; rfl

/-- outside the over-decomposed axis every rank of the grid owns a non-empty block along every axis -/
theorem shp_pos (h : Handler) (hw : WellFormed h) (aStar : Nat) (ho : OneAxisOver h aStar)
    (i : Nat) (hi : i < h.nLayouts) (c : List Nat) (hc : DS.CoordsOK h.nprocs c) (k : Nat)
    (hk : k < (h.layoutAt i).ndims) (hka : k < h.nprocs.length → k ≠ aStar) : 0 < shp (h.layoutAt i) c k := by
  unfold shp
  rw [procsAt_layoutAt]
  by_cases hkn : k < h.nprocs.length
  · exact ho.nonEmpty k hkn (hka hkn) i hi _ (hc.2 k hkn)
  · rw [getD_procs_ge _ _ hkn, blockLen_one]
    exact extAt_pos h hw ho.ext_pos i hi k hk

/-- without over-decomposition every rank of the grid has a non-empty buffer: the early exit is never taken -/
theorem bufferSize_pos (h : Handler) (hw : WellFormed h) (hn : 0 < h.nLayouts) (aStar : Nat)
    (ho : OneAxisOver h aStar) (hstar : ¬ aStar < h.nprocs.length) (c : List Nat)
    (hc : DS.CoordsOK h.nprocs c) : 0 < h.bufferSize c := by
  refine Nat.lt_of_lt_of_le (Nat.pos_of_ne_zero ?_) (bufferSize_ge_init h c)
  intro h0
  rw [size_eq, shape_eq, prodL_map_range_eq_zero] at h0
  obtain ⟨k, hk, hk0⟩ := h0
  have := shp_pos h hw aStar ho 0 hn c hc k hk (fun hkn e => hstar (e ▸ hkn))
  omega

/-- the compatible pair, in the order in which the constructor's double loop visits it, behind a direct step -/
theorem pair_of_step (h : Handler) (iS iD : Nat) (hiS : iS < h.nLayouts) (hiD : iD < h.nLayouts)
    (hcomp : compatible h.nprocs (h.layoutAt iS).ord (h.layoutAt iD).ord = true) (hs : stepComm h iS iD) :
    ∃ n' i, i < n' ∧ n' < h.nLayouts ∧ pairCompat h n' i = true ∧
      diffAxes h.nprocs (h.layoutAt n').ord (h.layoutAt i).ord = [stepAxis h iS iD] := by
  obtain ⟨d1, d2⟩ := diffAxes_of_compatible h iS iD hcomp hs
  rcases Nat.lt_trichotomy iS iD with hlt | heq | hgt
  · refine ⟨iD, iS, hlt, hiD, ?_, d2⟩
    unfold pairCompat; rw [DS.compatible_symm]; exact hcomp
  · subst heq
    have hm := stepAxis_mem h iS iS hs
    exact absurd rfl (mem_diffAxes.1 hm).2.2
  · exact ⟨iS, iD, hgt, hiS, hcomp, d1⟩

/-- **early exit, sufficient condition**: if ranks with empty blocks occur on one process axis at most, then for every
    direct step between compatible layouts, a rank whose buffer is empty shares the step's `Sub` communicator only
    with ranks whose buffer is empty too -/
theorem bufferSize_zero_along_step (h : Handler) (hw : WellFormed h) (horders : h.orders.length = h.nLayouts)
    (aStar : Nat) (ho : OneAxisOver h aStar) (iS iD : Nat) (hiS : iS < h.nLayouts) (hiD : iD < h.nLayouts)
    (hcomp : compatible h.nprocs (h.layoutAt iS).ord (h.layoutAt iD).ord = true) (hs : stepComm h iS iD)
    {c c' : List Nat} (hc : DS.CoordsOK h.nprocs c) (hcc : AgreeOff (stepAxis h iS iD) c c')
    (hz : h.bufferSize c = 0) : h.bufferSize c' = 0 := by
  have ha := stepAxis_lt h iS iD hs
  have hp := stepAxis_procs h iS iD hs
  have hne : stepAxis h iS iD ≠ aStar := by
    intro e
    obtain ⟨n', i, hi, hn, hpc, hd⟩ := pair_of_step h iS iD hiS hiD hcomp hs
    have h0 := pairBs_zero_of_bufferSize h c hz n' i hi hn hpc
    rw [pairBs_cons h c n' i _ [] hd] at h0
    have hi' : i < h.nLayouts := by omega
    have hnd1 : (h.layoutAt n').ndims = h.ext.length := perm_length (hw.perm n' hn)
    have hnd2 : (h.layoutAt i).ndims = h.ext.length := perm_length (hw.perm i hi')
    have hale := hw.nprocs_le
    rcases Nat.mul_eq_zero.1 h0 with hh | hh
    · rw [shape_set_set, prodL_map_range_eq_zero] at hh
      obtain ⟨k, hk, hk0⟩ := hh
      by_cases e1 : k = (h.layoutAt n').ord.idxOf ((h.layoutAt i).ord.getD (stepAxis h iS iD) 0)
      · simp only [e1, ↓reduceIte] at hk0
        rw [maxShape_getD _ _ (by omega), procsAt_layoutAt] at hk0
        have := maxBlock_pos _ _ (extAt_pos h hw ho.ext_pos i hi' (stepAxis h iS iD) (by omega))
          (show 0 < h.nprocs.getD (stepAxis h iS iD) 1 by omega)
        omega
      · by_cases e0 : k = stepAxis h iS iD
        · have e1' : ¬ stepAxis h iS iD =
              (h.layoutAt n').ord.idxOf ((h.layoutAt i).ord.getD (stepAxis h iS iD) 0) := fun hh => e1 (e0.trans hh)
          simp only [e0, e1', ↓reduceIte] at hk0
          rw [maxShape_getD _ _ (by omega), procsAt_layoutAt] at hk0
          have := maxBlock_pos _ _ (extAt_pos h hw ho.ext_pos n' hn (stepAxis h iS iD) (by omega))
            (show 0 < h.nprocs.getD (stepAxis h iS iD) 1 by omega)
          omega
        · simp only [e1, e0, ↓reduceIte] at hk0
          have := shp_pos h hw aStar ho n' hn c hc k hk (fun _ => by rw [← e]; exact e0)
          omega
    · omega
  have hz' := zeroIncl_of_axisNonEmpty h horders _ (ho.nonEmpty _ ha hne) hcc (hc.2 _ ha)
  exact bufferSize_zero_transfer h hz' hz

/-! ### D. event lists with calls, projection on a rank -/

/-- an event of the global list: the world ranks of one communicator instance and the call all of them issue -/
abbrev GEvent := List Nat × Call

/-- the event list of the abstract machine (Model/Collectives.lean); `tagOf` encodes a call as an opaque tag -/
def toEvents (tagOf : Call → Nat) (G : List GEvent) : List Coll.Event := G.map (fun g => ⟨g.1, tagOf g.2⟩)

def noCall : Call := { comm := "", op := "", send := 0, recv := 0 }

/-- the call attached to event number `i` -/
def callAt (G : List GEvent) (i : Nat) : Call := (G.getD i ([], noCall)).2

/-- projection of the global list on rank `r`: the calls of the events it is a member of, in order -/
def proj (G : List GEvent) (r : Nat) : List Call := (G.filter (fun g => g.1.contains r)).map (·.2)

theorem proj_nil (r : Nat) : proj [] r = [] := rfl

theorem proj_append (G1 G2 : List GEvent) (r : Nat) : proj (G1 ++ G2) r = proj G1 r ++ proj G2 r := by
  unfold proj; rw [List.filter_append, List.map_append]

theorem proj_flatMap {β : Type} (f : β → List GEvent) (r : Nat) :
    ∀ l : List β, proj (l.flatMap f) r = l.flatMap (fun x => proj (f x) r)
  | [] => rfl
  | x :: l => by rw [List.flatMap_cons, List.flatMap_cons, proj_append, proj_flatMap f r l]

theorem filter_range_map {β γ : Type} (d : β) (p : β → Bool) (f : β → γ) :
    ∀ (l : List β) (q : Nat → Bool), (∀ i (hi : i < l.length), q i = p l[i]) →
      ((List.range l.length).filter q).map (fun i => f (l.getD i d)) = (l.filter p).map f := by
  intro l
  induction l using List.reverseRecOn with
  | nil => intro q _; rfl
  | append_singleton l x ih =>
    intro q hq
    have hq' : ∀ i (hi : i < l.length), q i = p l[i] := by
      intro i hi
      rw [hq i (by rw [List.length_append]; simp; omega), List.getElem_append_left hi]
    have hqn : q l.length = p x := by
      rw [hq l.length (by rw [List.length_append]; simp)]
      simp
    rw [List.length_append, List.length_singleton, List.range_succ, List.filter_append, List.map_append,
      List.filter_append, List.map_append, ← ih q hq']
    congr 1
    · apply List.map_congr_left
      intro i hi
      have hil : i < l.length := List.mem_range.1 (List.mem_filter.1 hi).1
      simp only [List.getD_eq_getElem?_getD]
      rw [List.getElem?_append_left hil]
    · simp only [List.filter_cons, List.filter_nil, hqn]
      cases p x
      · rfl
      · simp [List.getD_eq_getElem?_getD]

theorem takesPart_toEvents (tagOf : Call → Nat) (G : List GEvent) (r i : Nat) (hi : i < G.length) :
    Coll.takesPart (toEvents tagOf G) r i = G[i].1.contains r := by
  unfold Coll.takesPart toEvents
  rw [List.getElem?_map, List.getElem?_eq_getElem hi]
  rfl

/-- the program of rank `r` in the abstract machine, read through the calls of the events, is the projection -/
theorem program_toEvents (tagOf : Call → Nat) (G : List GEvent) (r : Nat) :
    (Coll.program (toEvents tagOf G) r).map (callAt G) = proj G r := by
  unfold Coll.program proj
  have hl : (toEvents tagOf G).length = G.length := by unfold toEvents; rw [List.length_map]
  rw [hl]
  exact filter_range_map ([], noCall) (fun g => g.1.contains r) (·.2) G _
    (fun i hi => takesPart_toEvents tagOf G r i hi)

/-- the same through the opaque tags of the machine's events -/
theorem program_tags (tagOf : Call → Nat) (G : List GEvent) (r : Nat) :
    (Coll.program (toEvents tagOf G) r).map (fun i => ((toEvents tagOf G).getD i ⟨[], tagOf noCall⟩).tag) =
      (proj G r).map tagOf := by
  rw [← program_toEvents tagOf G r, List.map_map]
  apply List.map_congr_left
  intro i _
  unfold toEvents callAt
  simp only [List.getD_eq_getElem?_getD, List.getElem?_map, Function.comp]
  cases G[i]? <;> rfl

theorem remaining_init (E : List Coll.Event) : Coll.remaining E (fun _ => false) = E.length := by
  unfold Coll.remaining
  simp

/-! ### E. ranks, coordinates, instances of a `Sub` communicator -/

theorem rankOf_coordsOf : ∀ (dims : List Nat) (r : Nat), r < prodL dims → rankOf dims (coordsOf dims r) = r
  | [], r, hr => by
    have : r = 0 := by simp [prodL] at hr; omega
    subst this; rfl
  | d :: ds, r, hr => by
    rw [DS.prodL_cons] at hr
    have hP : 0 < prodL ds := by
      rcases Nat.eq_zero_or_pos (prodL ds) with h | h
      · rw [h] at hr; omega
      · exact h
    simp only [coordsOf, rankOf]
    rw [rankOf_coordsOf ds (r % prodL ds) (Nat.mod_lt _ hP)]
    exact Nat.div_add_mod' r (prodL ds)

/-- world ranks of the instance of the `Sub` communicator keeping axis `a` that contains the rank with coordinates
    `c0`, in the order of the sub-communicator's ranks -/
def instMembers (dims : List Nat) (a : Nat) (c0 : List Nat) : List Nat :=
  (List.range (dims.getD a 1)).map (fun q => rankOf dims (c0.set a q))

theorem getD_set_self (c : List Nat) (a q : Nat) (ha : a < c.length) : (c.set a q).getD a 0 = q := by
  simp [List.getD_eq_getElem?_getD, ha]

theorem getD_set_ne (c : List Nat) (a q k : Nat) (hk : k ≠ a) : (c.set a q).getD k 0 = c.getD k 0 := by
  simp only [List.getD_eq_getElem?_getD]
  rw [List.getElem?_set_ne (fun e => hk e.symm)]

theorem set_getD_self (c : List Nat) (a : Nat) (ha : a < c.length) : c.set a (c.getD a 0) = c := by
  apply List.ext_getElem
  · simp
  · intro k h1 h2
    rw [List.getElem_set]
    split
    · rename_i e; subst e
      rw [List.getD_eq_getElem?_getD, List.getElem?_eq_getElem ha]; rfl
    · rfl

theorem agreeOff_set (c : List Nat) (a q : Nat) : AgreeOff a c (c.set a q) :=
  fun k hk => (getD_set_ne c a q k hk).symm

theorem mem_instMembers (dims : List Nat) (a : Nat) (c0 : List Nat) (hc0 : DS.CoordsOK dims c0)
    (ha : a < dims.length) (r : Nat) (hr : r < prodL dims) :
    r ∈ instMembers dims a c0 ↔ ∃ q, q < dims.getD a 1 ∧ coordsOf dims r = c0.set a q := by
  unfold instMembers
  rw [List.mem_map]
  constructor
  · rintro ⟨q, hq, rfl⟩
    refine ⟨q, List.mem_range.1 hq, ?_⟩
    exact (DS.coordsOf_rankOf dims _ (DS.coordsOK_set dims c0 hc0 a q ha (List.mem_range.1 hq))).2
  · rintro ⟨q, hq, e⟩
    refine ⟨q, List.mem_range.2 hq, ?_⟩
    rw [← e, rankOf_coordsOf dims r hr]

/-! ### F. the global event list of a step, a route, a sequence of transposes -/

theorem earlyExit_fixed (h : Handler) (c : List Nat) : earlyExit true h c = h.ext.any (· == 0) := rfl

theorem earlyExit_old (h : Handler) (c : List Nat) : earlyExit false h c = true ↔ h.bufferSize c = 0 := by
  unfold earlyExit; simp

theorem handlerTraceOld_eq (h : Handler) (rm : RouteMap) (c : List Nat) (axisName : Nat → String) (iS iD : Nat) :
    handlerTraceOld h rm c axisName iS iD = handlerTraceF false h rm c axisName iS iD := by
  unfold handlerTraceOld handlerTraceF
  by_cases hz : h.bufferSize c = 0
  · rw [if_pos hz, if_pos ((earlyExit_old h c).2 hz)]
  · rw [if_neg hz, if_neg (fun e => hz ((earlyExit_old h c).1 e))]

/-- the event of the instance of the step's `Sub` communicator whose member with coordinate 0 on the step's axis is
    world rank `r0`; no event when that member takes the early exit -/
def stepEventAt (fixed : Bool) (h : Handler) (axisName : Nat → String) (iS iD r0 : Nat) : Option GEvent :=
  if (coordsOf h.nprocs r0).getD (stepAxis h iS iD) 0 = 0 ∧ earlyExit fixed h (coordsOf h.nprocs r0) = false then
    some (instMembers h.nprocs (stepAxis h iS iD) (coordsOf h.nprocs r0),
      directCall h (coordsOf h.nprocs r0) axisName iS iD)
  else none

/-- events of the direct step `iS → iD`: one `Alltoall` per instance of the `Sub` communicator of the step's axis -/
def stepEvents (fixed : Bool) (h : Handler) (axisName : Nat → String) (iS iD : Nat) : List GEvent :=
  if stepComm h iS iD then (List.range (prodL h.nprocs)).filterMap (stepEventAt fixed h axisName iS iD) else []

/-- the early exit is taken by all members of an instance of the step's `Sub` communicator or by none -/
def StepUniform (fixed : Bool) (h : Handler) (iS iD : Nat) : Prop :=
  stepComm h iS iD → ∀ c c', DS.CoordsOK h.nprocs c → DS.CoordsOK h.nprocs c' →
    AgreeOff (stepAxis h iS iD) c c' → earlyExit fixed h c = true → earlyExit fixed h c' = true

/-- the repaired test does not look at the rank -/
theorem stepUniform_fixed (h : Handler) (iS iD : Nat) : StepUniform true h iS iD := by
  intro _ c c' _ _ _ he
  rw [earlyExit_fixed] at he ⊢; exact he

theorem filterMap_range_single {γ : Type} (g : Nat → Option γ) (x0 : Nat) :
    ∀ N, x0 < N → (∀ x, x < N → x ≠ x0 → g x = none) → (List.range N).filterMap g = (g x0).toList := by
  intro N
  induction N with
  | zero => intro h; omega
  | succ N ih =>
    intro hx hoth
    rw [List.range_succ, List.filterMap_append]
    by_cases hlt : x0 < N
    · rw [ih hlt (fun x hx' hne => hoth x (by omega) hne)]
      have : g N = none := hoth N (by omega) (by omega)
      simp [this]
    · have e : x0 = N := by omega
      subst e
      have hnil : (List.range x0).filterMap g = [] := by
        rw [List.filterMap_eq_nil_iff]
        intro x hx'
        have := List.mem_range.1 hx'
        exact hoth x (by omega) (by omega)
      rw [hnil]
      cases hg : g x0 <;> simp [hg]

/-- the call of an event if rank `r` is one of its members -/
def sel (r : Nat) (g : GEvent) : Option Call := if g.1.contains r then some g.2 else none

theorem proj_cons (g : GEvent) (G : List GEvent) (r : Nat) : proj (g :: G) r = (sel r g).toList ++ proj G r := by
  unfold proj sel
  rw [List.filter_cons]
  cases g.1.contains r <;> simp

theorem proj_filterMap {β : Type} (F : β → Option GEvent) (r : Nat) :
    ∀ l : List β, proj (l.filterMap F) r = l.filterMap (fun x => (F x).bind (sel r))
  | [] => rfl
  | x :: l => by
    rw [List.filterMap_cons, List.filterMap_cons]
    cases hF : F x with
    | none => simp only [Option.bind_none]; exact proj_filterMap F r l
    | some g =>
      simp only [Option.bind_some]
      rw [proj_cons, proj_filterMap F r l]
      cases sel r g <;> rfl

theorem earlyExit_eq_of_uniform (fixed : Bool) (h : Handler) (iS iD : Nat) (hU : StepUniform fixed h iS iD)
    (hs : stepComm h iS iD) {c c' : List Nat} (hc : DS.CoordsOK h.nprocs c) (hc' : DS.CoordsOK h.nprocs c')
    (hcc : AgreeOff (stepAxis h iS iD) c c') : earlyExit fixed h c = earlyExit fixed h c' := by
  cases h1 : earlyExit fixed h c <;> cases h2 : earlyExit fixed h c'
  · rfl
  · have := hU hs c' c hc' hc hcc.symm h2; rw [h1] at this; cases this
  · have := hU hs c c' hc hc' hcc h1; rw [h2] at this; cases this
  · rfl

/-- **projection of one step**: the events of a direct step that contain world rank `r` are exactly the calls the
    model predicts for `r` -/
theorem proj_stepEvents (fixed : Bool) (h : Handler) (axisName : Nat → String) (iS iD : Nat)
    (hU : StepUniform fixed h iS iD) (r : Nat) (hr : r < prodL h.nprocs) :
    proj (stepEvents fixed h axisName iS iD) r =
      if earlyExit fixed h (coordsOf h.nprocs r) then [] else directTrace h (coordsOf h.nprocs r) axisName iS iD := by
  by_cases hs : stepComm h iS iD
  · have ha := stepAxis_lt h iS iD hs
    have hp := stepAxis_procs h iS iD hs
    have hc := DS.coordsOf_ok h.nprocs r hr
    generalize hcdef : coordsOf h.nprocs r = c at hc ⊢
    have hcl : stepAxis h iS iD < c.length := by rw [hc.1]; exact ha
    have hc0 : DS.CoordsOK h.nprocs (c.set (stepAxis h iS iD) 0) :=
      DS.coordsOK_set h.nprocs c hc _ 0 ha (by omega)
    obtain ⟨hx0, hcx0⟩ := DS.coordsOf_rankOf h.nprocs _ hc0
    have hagree : AgreeOff (stepAxis h iS iD) (c.set (stepAxis h iS iD) 0) c := (agreeOff_set c _ 0).symm
    have hee := earlyExit_eq_of_uniform fixed h iS iD hU hs hc0 hc hagree
    unfold stepEvents
    rw [if_pos hs, proj_filterMap, filterMap_range_single _ (rankOf h.nprocs (c.set (stepAxis h iS iD) 0)) _ hx0]
    · -- the event of `r`'s own instance
      unfold stepEventAt
      rw [hcx0, getD_set_self c _ 0 hcl, hee]
      cases he : earlyExit fixed h c
      · have hmem : r ∈ instMembers h.nprocs (stepAxis h iS iD) (c.set (stepAxis h iS iD) 0) := by
          rw [mem_instMembers h.nprocs _ _ hc0 ha r hr]
          refine ⟨c.getD (stepAxis h iS iD) 0, hc.2 _ ha, ?_⟩
          rw [hcdef, List.set_set, set_getD_self c _ hcl]
        have hcont : (instMembers h.nprocs (stepAxis h iS iD) (c.set (stepAxis h iS iD) 0)).contains r = true :=
          List.contains_iff_mem.2 hmem
        simp only [and_self, ↓reduceIte, Option.bind_some, sel, hcont, Option.toList_some, Bool.false_eq_true]
        rw [directTrace_eq, if_pos hs, directCall_agree h axisName iS iD hagree]
      · simp
    · -- no other instance contains `r`
      intro x hx hne
      unfold stepEventAt
      split
      · rename_i hcond
        simp only [Option.bind_some, sel]
        rw [if_neg]
        intro hcont
        apply hne
        have hxc := DS.coordsOf_ok h.nprocs x hx
        have hmem := List.contains_iff_mem.1 hcont
        rw [mem_instMembers h.nprocs _ _ hxc ha r hr] at hmem
        obtain ⟨q, _, hq⟩ := hmem
        rw [hcdef] at hq
        have hxl : stepAxis h iS iD < (coordsOf h.nprocs x).length := by rw [hxc.1]; exact ha
        have : c.set (stepAxis h iS iD) 0 = coordsOf h.nprocs x := by
          rw [hq, List.set_set]
          have := set_getD_self (coordsOf h.nprocs x) _ hxl
          rw [hcond.1] at this
          exact this
        rw [this, rankOf_coordsOf h.nprocs x hx]
      · rfl
  · unfold stepEvents
    rw [if_neg hs, directTrace_eq, if_neg hs, proj_nil]
    split <;> rfl

/-- **the events of a step are communicator instances whose members agree**: every event is the complete instance of
    the step's `Sub` communicator through some rank `r0`; every member is a rank of the grid, differs from `r0` on the
    step's axis only, does not take the early exit when `r0` does not, and predicts exactly the event's call -/
theorem stepEvents_spec (fixed : Bool) (h : Handler) (axisName : Nat → String) (iS iD : Nat) (g : GEvent)
    (hg : g ∈ stepEvents fixed h axisName iS iD) :
    stepComm h iS iD ∧ ∃ r0, r0 < prodL h.nprocs ∧ earlyExit fixed h (coordsOf h.nprocs r0) = false ∧
      g.1 = instMembers h.nprocs (stepAxis h iS iD) (coordsOf h.nprocs r0) ∧
      ∀ r ∈ g.1, r < prodL h.nprocs ∧ AgreeOff (stepAxis h iS iD) (coordsOf h.nprocs r0) (coordsOf h.nprocs r) ∧
        directTrace h (coordsOf h.nprocs r) axisName iS iD = [g.2] := by
  unfold stepEvents at hg
  by_cases hs : stepComm h iS iD
  · rw [if_pos hs, List.mem_filterMap] at hg
    obtain ⟨r0, hr0, he⟩ := hg
    have hr0' := List.mem_range.1 hr0
    have ha := stepAxis_lt h iS iD hs
    have hc0 := DS.coordsOf_ok h.nprocs r0 hr0'
    unfold stepEventAt at he
    split at he
    · rename_i hcond
      have hg' := Option.some.inj he
      subst hg'
      refine ⟨hs, r0, hr0', hcond.2, rfl, ?_⟩
      intro r hr
      simp only [instMembers, List.mem_map, List.mem_range] at hr
      obtain ⟨q, hq, rfl⟩ := hr
      obtain ⟨h1, h2⟩ := DS.coordsOf_rankOf h.nprocs _ (DS.coordsOK_set h.nprocs _ hc0 _ q ha hq)
      refine ⟨h1, ?_, ?_⟩
      · rw [h2]; exact agreeOff_set _ _ _
      · rw [h2, directTrace_eq, if_pos hs, directCall_agree h axisName iS iD (agreeOff_set _ _ q).symm]
    · cases he
  · rw [if_neg hs] at hg; cases hg

/-- the calls of a rank along a route (the loop of `_transposeRedirect…`, or the single direct step) -/
def routeTrace (h : Handler) (c : List Nat) (axisName : Nat → String) : Nat → List Nat → List Call
  | _, [] => []
  | now, next :: rest => directTrace h c axisName now next ++ routeTrace h c axisName next rest

/-- the global events of a route: the events of its steps, in order -/
def routeEvents (fixed : Bool) (h : Handler) (axisName : Nat → String) : Nat → List Nat → List GEvent
  | _, [] => []
  | now, next :: rest => stepEvents fixed h axisName now next ++ routeEvents fixed h axisName next rest

theorem foldl_trace_eq (h : Handler) (c : List Nat) (axisName : Nat → String) :
    ∀ (steps : List Nat) (acc : List Call) (now : Nat),
      (steps.foldl (fun (st : List Call × Nat) next => (st.1 ++ directTrace h c axisName st.2 next, next))
        (acc, now)).1 = acc ++ routeTrace h c axisName now steps
  | [], acc, now => by simp [routeTrace]
  | next :: rest, acc, now => by
    rw [List.foldl_cons, foldl_trace_eq h c axisName rest _ next]
    simp only [routeTrace, List.append_assoc]

theorem handlerTraceF_eq (fixed : Bool) (h : Handler) (rm : RouteMap) (c : List Nat) (axisName : Nat → String)
    (iS iD : Nat) :
    handlerTraceF fixed h rm c axisName iS iD =
      if earlyExit fixed h c then [] else if iS = iD then [] else routeTrace h c axisName iS (rm.r iS iD) := by
  unfold handlerTraceF
  simp only []
  rw [foldl_trace_eq, List.nil_append]

theorem proj_routeEvents (fixed : Bool) (h : Handler) (axisName : Nat → String) (r : Nat) (hr : r < prodL h.nprocs) :
    ∀ (steps : List Nat) (now : Nat), Route.IsPath (StepUniform fixed h) now steps →
      proj (routeEvents fixed h axisName now steps) r =
        if earlyExit fixed h (coordsOf h.nprocs r) then []
        else routeTrace h (coordsOf h.nprocs r) axisName now steps
  | [], now, _ => by simp [routeEvents, routeTrace, proj_nil]
  | next :: rest, now, hp => by
    simp only [routeEvents, routeTrace]
    rw [proj_append, proj_stepEvents fixed h axisName now next hp.1 r hr,
      proj_routeEvents fixed h axisName r hr rest next hp.2]
    split <;> rfl

/-- the global events of one call of `LayoutHandler.transpose` -/
def handlerEvents (fixed : Bool) (h : Handler) (rm : RouteMap) (axisName : Nat → String) (iS iD : Nat) : List GEvent :=
  if iS = iD then [] else routeEvents fixed h axisName iS (rm.r iS iD)

theorem proj_handlerEvents (fixed : Bool) (h : Handler) (rm : RouteMap) (axisName : Nat → String) (iS iD : Nat)
    (hp : iS ≠ iD → Route.IsPath (StepUniform fixed h) iS (rm.r iS iD)) (r : Nat) (hr : r < prodL h.nprocs) :
    proj (handlerEvents fixed h rm axisName iS iD) r =
      handlerTraceF fixed h rm (coordsOf h.nprocs r) axisName iS iD := by
  rw [handlerTraceF_eq]
  unfold handlerEvents
  by_cases he : iS = iD
  · rw [if_pos he, if_pos he, proj_nil]; split <;> rfl
  · rw [if_neg he, if_neg he, proj_routeEvents fixed h axisName r hr _ _ (hp he)]

/-- the global events of a sequence of calls of `transpose` (pairs source layout, destination layout) -/
def seqEvents (fixed : Bool) (h : Handler) (rm : RouteMap) (axisName : Nat → String) (seq : List (Nat × Nat)) :
    List GEvent :=
  seq.flatMap (fun p => handlerEvents fixed h rm axisName p.1 p.2)

theorem proj_seqEvents (fixed : Bool) (h : Handler) (rm : RouteMap) (axisName : Nat → String) (seq : List (Nat × Nat))
    (hp : ∀ p ∈ seq, p.1 ≠ p.2 → Route.IsPath (StepUniform fixed h) p.1 (rm.r p.1 p.2))
    (r : Nat) (hr : r < prodL h.nprocs) :
    proj (seqEvents fixed h rm axisName seq) r =
      seq.flatMap (fun p => handlerTraceF fixed h rm (coordsOf h.nprocs r) axisName p.1 p.2) := by
  unfold seqEvents
  rw [proj_flatMap]
  apply List.flatMap_congr
  intro p hpm
  exact proj_handlerEvents fixed h rm axisName p.1 p.2 (hp p hpm) r hr

theorem isPath_mono {c1 c2 : Nat → Nat → Prop} (hm : ∀ a b, c1 a b → c2 a b) :
    ∀ (steps : List Nat) (now : Nat), Route.IsPath c1 now steps → Route.IsPath c2 now steps
  | [], _, _ => trivial
  | next :: rest, now, hp => ⟨hm now next hp.1, isPath_mono hm rest next hp.2⟩

theorem isPath_fixed (h : Handler) : ∀ (steps : List Nat) (now : Nat), Route.IsPath (StepUniform true h) now steps
  | [], _ => trivial
  | next :: rest, now => ⟨stepUniform_fixed h now next, isPath_fixed h rest next⟩

/-! ### routes along direct connections -/

/-- `iS → iD` is a direct connection of the handler: two of its layouts that `compatible` accepts -/
def StepConn (h : Handler) (a b : Nat) : Prop :=
  a < h.nLayouts ∧ b < h.nLayouts ∧ compatible h.nprocs (h.layoutAt a).ord (h.layoutAt b).ord = true

instance (h : Handler) (a b : Nat) : Decidable (StepConn h a b) := by unfold StepConn; infer_instance

theorem stepConn_of_adj (h : Handler) (a b : Nat) (ha : a < h.nLayouts) (hadj : RouteValid.Adj h.connections a b) :
    StepConn h a b := by
  obtain ⟨hb, _, hc⟩ := (mem_connections h a b ha).1 hadj
  refine ⟨ha, hb, ?_⟩
  rcases Nat.le_total a b with hab | hab
  · rw [Nat.max_eq_right hab, Nat.min_eq_left hab, DS.compatible_symm] at hc; exact hc
  · rw [Nat.max_eq_left hab, Nat.min_eq_right hab] at hc; exact hc

theorem isPath_stepConn_of_adj (h : Handler) : ∀ (steps : List Nat) (now : Nat), now < h.nLayouts →
    Route.IsPath (RouteValid.Adj h.connections) now steps → Route.IsPath (StepConn h) now steps
  | [], _, _, _ => trivial
  | next :: rest, now, hn, hp =>
    have hs := stepConn_of_adj h now next hn hp.1
    ⟨hs, isPath_stepConn_of_adj h rest next hs.2.1 hp.2⟩

/-- the routes `_makeConnectionMap` stores for an accepted handler follow direct connections -/
theorem accepted_routes_stepConn (h : Handler) (order : List Nat) (hfull : (h.routes order).2 = true)
    (iS iD : Nat) (hiS : iS < h.nLayouts) (hiD : iD < h.nLayouts) (hne : iS ≠ iD) :
    Route.IsPath (StepConn h) iS ((h.routes order).1.r iS iD) := by
  have hiS' : iS < h.names.length := hiS
  have hiD' : iD < h.names.length := hiD
  have hn : h.names.length ≠ 1 := by omega
  have hc : RouteValid.ConnOK h.connections h.names.length := by
    unfold Handler.connections Handler.nLayouts
    exact RouteValid.connectionsOf_ok _ _
  have hv := (RouteValid.routes_valid_of_connected h.names h.connections order hc hn hfull iS iD hiS' hiD' hne).1
  exact isPath_stepConn_of_adj h _ iS hiS hv.2.1

/-- under the one-axis condition the old early exit is uniform on the `Sub` instances of every direct connection -/
theorem stepUniform_old (h : Handler) (hw : WellFormed h) (horders : h.orders.length = h.nLayouts)
    (aStar : Nat) (ho : OneAxisOver h aStar) (a b : Nat) (hconn : StepConn h a b) : StepUniform false h a b := by
  intro hs c c' hc _ hcc he
  exact (earlyExit_old h c').2
    (bufferSize_zero_along_step h hw horders aStar ho a b hconn.1 hconn.2.1 hconn.2.2 hs hc hcc
      ((earlyExit_old h c).1 he))

end PygyroVerif.TraceMatch
