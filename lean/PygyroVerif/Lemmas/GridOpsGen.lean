/-
Helper lemmas and ADAPTERS for the tie of the generated grid-level loops (Generated/GridOpsGen.lean, harness/translate_gridops.py) to the
call lists of Model/Wiring.lean (Props/C05Gen2.lean).

1. The loops over the `Grid` accessors of Model/GridApi.lean in closed form over `List.range (shape[k])`.
2. The TABLE CONVENTIONS: how a raw call (callee + arguments as the source passes them) is read as a `Wiring.Call`
   (operator, GLOBAL indices of the slice, GLOBAL indices at which parameters / table rows are taken).  They are the conventions stated in
   the comments of Model/Wiring.lean, now definitions:
     * a slice `grid._f[i, j, …]` of a grid in layout `L` on the process with coordinates `c` is the global slice `L.startAt c k + …` per axis;
     * `FluxSurfaceAdvection.step(f, cIdx, rIdx)` reads `_shifts[rIdx, cIdx]`, `_lagrangeCoeffs[rIdx, cIdx]`, built for the LOCAL r and v
       ranges of the flux layout: global parameter indices `start 0 + rIdx`, `start 1 + cIdx`;
     * row `a` of `parGradVals` is written by `parallel_gradient(phi slice, a, parGradVals[a])` from the potential's local radial slice `a`
       (global radius `phi start 0 + a`); columns are GLOBAL z and θ indices;
     * `self._phiSplines[n]` is the interpolant of the potential's local z slice `n` (global `phi start 0 + n`);
     * `get_perturbed_rho(rho, feq, grid, …)` pairs row `l` of `feq` with the local radial index `l` of the block (C16Gen: the kernel);
     * `_solveMode(phi, rho, M, i, I)` solves the local mode `i` with the tables at `I`; every table index inside `M` is collected.
   A raw call that does not have the expected shape is read as `junk` (operator "?"), which is in no call list of the model.
Core Lean only.
-/
import PygyroVerif.Model.GridApi
import PygyroVerif.Model.Wiring

namespace PygyroVerif.GridApi
open PygyroVerif PygyroVerif.Wiring

/-! ### 1. the accessors in closed form -/

theorem lo_eq (g : GridV) (k : Nat) (hk : k < g.lay.ndims) : g.lo k = g.lay.startAt g.crd k := by
  simp [GridV.lo, Layout.starts, hk]

theorem hi_eq (g : GridV) (k : Nat) (hk : k < g.lay.ndims) : g.hi k = g.lay.endAt g.crd k := by
  simp [GridV.hi, Layout.ends, hk]

theorem lo_hi_out (g : GridV) (k : Nat) (hk : ¬ k < g.lay.ndims) : g.hi k - g.lo k = 0 := by
  simp [GridV.hi, GridV.lo, Layout.ends, Layout.starts, hk]

theorem sh_eq (L : Layout) (c : List Nat) (k : Nat) (hk : k < L.ndims) : sh L c k = L.endAt c k - L.startAt c k := by
  simp [sh, Layout.shape, hk]

theorem sh_out (L : Layout) (c : List Nat) (k : Nat) (hk : ¬ k < L.ndims) : sh L c k = 0 := by
  simp [sh, Layout.shape, hk]

/-- `for i, x in grid.getCoords(k)`: the local indices `0 .. shape[k]-1`, each with the coordinate of ITS OWN global index
    (for an axis beyond the layout both sides are empty; Python raises IndexError there) -/
theorem forEnum_getCoords {β : Type} (g : GridV) (k : Nat) (f : Nat → Coord → List β) :
    forEnum (g.getCoords k) f =
      (List.range (sh g.lay g.crd k)).flatMap (fun i => f i (g.lay.ord.getD k 0, g.lay.startAt g.crd k + i)) := by
  unfold forEnum GridV.getCoords
  rw [List.flatMap_map]
  by_cases hk : k < g.lay.ndims
  · rw [lo_eq g k hk, hi_eq g k hk, sh_eq _ _ _ hk]
  · rw [lo_hi_out g k hk, sh_out _ _ _ hk]; rfl

theorem forEnum_enumerate {α β : Type} (l : List α) (f : Nat → α → List β) :
    forEnum (enumerate l) f = l.zipIdx.flatMap (fun p => f p.2 p.1) := by
  unfold forEnum enumerate
  rw [List.flatMap_map]

theorem zipIdx_globalIdxVals (L : Layout) (c : List Nat) (k : Nat) :
    (L.globalIdxVals c k).zipIdx = (List.range (L.endAt c k - L.startAt c k)).map (fun j => (L.startAt c k + j, j)) := by
  unfold Layout.globalIdxVals
  apply List.ext_getElem
  · simp
  · intro i h1 h2
    simp [Nat.add_comm]

/-- `for j, J in enumerate(grid.getGlobalIdxVals(k))`: `J` is the global index of the local index `j` (axis inside the layout) -/
theorem forEnum_enumerate_globalIdxVals {β : Type} (g : GridV) (k : Nat) (hk : k < g.lay.ndims) (f : Nat → Nat → List β) :
    forEnum (enumerate (g.getGlobalIdxVals k)) f =
      (List.range (sh g.lay g.crd k)).flatMap (fun j => f j (g.lay.startAt g.crd k + j)) := by
  rw [forEnum_enumerate, GridV.getGlobalIdxVals, zipIdx_globalIdxVals, List.flatMap_map, sh_eq _ _ _ hk]

theorem getCoordVals_eq (g : GridV) (k : Nat) (hk : k < g.lay.ndims) :
    g.getCoordVals k = .coordVals (g.lay.ord.getD k 0) (g.lay.startAt g.crd k) (g.lay.endAt g.crd k) := by
  simp [GridV.getCoordVals, lo_eq g k hk, hi_eq g k hk]

/-! ### 2. table conventions: raw call ↦ `Wiring.Call` -/

/-- global indices of the leading local indices of a slice: axes `k`, `k+1`, … -/
def globalFrom (L : Layout) (c : List Nat) : Nat → List Nat → List Nat
  | _, [] => []
  | k, i :: is => (L.startAt c k + i) :: globalFrom L c (k + 1) is

/-- the argument bound to the parameter `name` -/
def argOf (rc : RawCall) (name : String) : Arg := (rc.args.lookup name).getD .invalid

/-- what a raw call of an unexpected shape is read as: in no call list of the model -/
def junk : Call := { op := "?", slice := [], params := [] }

/-- every integer index occurring in a value (the table entries an expression like `(A - m[I]*B)[R[I], R[I]]` selects) -/
def Arg.indices : Arg → List Nat
  | .idx n => [n]
  | .un _ a => a.indices
  | .bin _ a b => a.indices ++ b.indices
  | .sub1 a i => a.indices ++ i.indices
  | .sub2 a i j => a.indices ++ i.indices ++ j.indices
  | .sub3 a i j k => a.indices ++ i.indices ++ j.indices ++ k.indices
  | _ => []

/-- `FluxSurfaceAdvection.step(f, cIdx, rIdx)` -/
def fluxConv (grid : GridV) (rc : RawCall) : Call :=
  match argOf rc "f", argOf rc "cIdx", argOf rc "rIdx" with
  | .view tag lidx, .idx cI, .idx rI =>
    if rc.callee = "self.step" ∧ tag = "grid" then
      { op := "flux.step", slice := globalFrom grid.lay grid.crd 0 lidx,
        params := [grid.lay.startAt grid.crd 0 + rI, grid.lay.startAt grid.crd 1 + cI] }
    else junk
  | _, _, _ => junk

/-- `ParallelGradient.parallel_gradient(phi_r, i, der)` and `VParallelAdvection.step(f, dt, c, r)`; `phi` is the potential whose radial
    slices fill the rows of `parGradVals` -/
def vparConv (grid phi : GridV) (rc : RawCall) : Call :=
  if rc.callee = "parGrad.parallel_gradient" then
    match argOf rc "phi_r", argOf rc "i", argOf rc "der" with
    | .un f (.view tag lidx), .idx n, .sub1 (.obj tbl) (.idx row) =>
      if f = "np.real" ∧ tag = "phi" ∧ tbl = "parGradVals" ∧ row = n then
        { op := "pargrad", slice := globalFrom phi.lay phi.crd 0 lidx, params := [phi.lay.startAt phi.crd 0 + n] }
      else junk
    | _, _, _ => junk
  else if rc.callee = "self.step" then
    match argOf rc "f", argOf rc "c", argOf rc "r" with
    | .view tag lidx, .sub3 (.obj tbl) (.idx a) (.idx b) (.idx c), .coord _ g =>
      if tag = "grid" ∧ tbl = "parGradVals" then
        { op := "vpar.step", slice := globalFrom grid.lay grid.crd 0 lidx,
          params := [phi.lay.startAt phi.crd 0 + a, b, c, g] }
      else junk
    | _, _, _ => junk
  else junk

/-- `SplineInterpolator2D.compute_interpolant(values, spline)` and `PoloidalAdvection.step(f, dt, phi, v)`; the coordinate `v` must be a
    value of dimension 3 (the parallel velocity) -/
def polConv (grid phi : GridV) (rc : RawCall) : Call :=
  if rc.callee = "self._interpolator.compute_interpolant" then
    match argOf rc "arg0", argOf rc "arg1" with
    | .un f (.view tag lidx), .sub1 (.obj tbl) (.idx n) =>
      if f = "np.real" ∧ tag = "phi" ∧ tbl = "self._phiSplines" then
        { op := "pol.interp", slice := globalFrom phi.lay phi.crd 0 lidx, params := [phi.lay.startAt phi.crd 0 + n] }
      else junk
    | _, _ => junk
  else if rc.callee = "self.step" then
    match argOf rc "f", argOf rc "phi", argOf rc "v" with
    | .view tag lidx, .sub1 (.obj tbl) (.idx n), .coord d g =>
      if tag = "grid" ∧ tbl = "self._phiSplines" ∧ d = 3 then
        { op := "pol.step", slice := globalFrom grid.lay grid.crd 0 lidx, params := [g, phi.lay.startAt phi.crd 0 + n] }
      else junk
    | _, _, _ => junk
  else junk

/-- `get_perturbed_rho(rho, feq, grid, quad_coeffs)` on the whole local blocks: one table row per local radial index -/
def densityConv (grid : GridV) (rc : RawCall) : List Call :=
  match argOf rc "rho", argOf rc "feq", argOf rc "grid" with
  | .view trho [], .sub1 (.obj tbl) (.idxs l), .view tgrid [] =>
    if rc.callee = "get_perturbed_rho" ∧ trho = "rho" ∧ tbl = "self._fEq" ∧ tgrid = "grid" then
      l.zipIdx.map (fun (p : Nat × Nat) =>
        { op := "density.row", slice := [grid.lay.startAt grid.crd 0 + p.2], params := [p.1] })
    else [junk]
  | _, _, _ => [junk]

/-- `DiffEqSolver._solveMode(phi, rho, stiffnessMatrix, i, I)`: the parameters are `[I]` when every table index inside the matrix
    expression is `I`, otherwise all of them are listed -/
def solveConv (rho : GridV) (rc : RawCall) : Call :=
  match argOf rc "phi", argOf rc "rho", argOf rc "i", argOf rc "I" with
  | .obj p, .obj r, .idx i, .idx I =>
    if rc.callee = "self._solveMode" ∧ p = "phi" ∧ r = "rho" then
      { op := "solve.mode", slice := [rho.lay.startAt rho.crd 0 + i],
        params := if (argOf rc "stiffnessMatrix").indices.all (fun n => n == I) then [I] else I :: (argOf rc "stiffnessMatrix").indices }
    else junk
  | _, _, _, _ => junk

/-- `init_f_flux` / `init_f_pol` / `init_f_vpar`: `a0`, `a1` are the names of the kernel's two SCALAR coordinate parameters, in the order of
    the layout's first two axes -/
def initConv (grid : GridV) (kernel a0 a1 : String) (rc : RawCall) : Call :=
  match argOf rc "surface", argOf rc a0, argOf rc a1 with
  | .view tag lidx, .coord _ g0, .coord _ g1 =>
    if rc.callee = kernel ∧ tag = "grid" then
      { op := "init", slice := globalFrom grid.lay grid.crd 0 lidx, params := [g0, g1] }
    else junk
  | _, _, _ => junk

theorem junk_not_flux (L : Layout) (c : List Nat) : junk ∉ fluxGridStep true L c := by
  simp [fluxGridStep, junk]

end PygyroVerif.GridApi
