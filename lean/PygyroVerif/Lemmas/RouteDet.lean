/-
Determinism of the route map computed by `_makeConnectionMap` (Model/Handler.lean `routeMap`): the stored distances and
routes do not depend on the iteration order of Python's `set` of unvisited layout names (the only place where the
interpreter's string-hash seed enters).

What the algorithm computes (layouts numbered in dict order, `hi > lo`):
  * `distanceMap[a][b]` = graph distance (or `n + 1` when not connected),
  * `route_map[hi][lo]` = the shortest path `hi → lo` whose list of names is lexicographically least,
  * `route_map[lo][hi]` = the same path walked backwards.
The proof does not use the extraction order of Dijkstra's algorithm beyond "labels of extracted nodes are not larger
than labels of waiting nodes": at the end of the loop for `source` every edge `(v, x)` is *relaxed*
(`d[s][x] ≤ d[s][v] + 1`, and in case of equality `route[s][x]` is not lexicographically after `route[s][v] ++ [x]`),
and this local certificate implies minimality and lexicographic minimality by induction along an arbitrary path.
-/
import PygyroVerif.Model.Handler
import PygyroVerif.Lemmas.Route
import PygyroVerif.Lemmas.RouteValid
import Mathlib.Data.String.Basic
import Mathlib.Data.List.Induction
import Mathlib.Data.List.Perm.Basic
import Mathlib.Tactic.ByContra
import Mathlib.Logic.Basic

namespace PygyroVerif.RouteDet
open PygyroVerif PygyroVerif.Handler PygyroVerif.Route PygyroVerif.RouteValid

/-! ### Python's list-of-str `<` is a strict order, total on lists of equal length -/

theorem lexLt_irrefl : ∀ l : List String, lexLt l l = false
  | [] => rfl
  | a :: as => by
    have := lexLt_irrefl as
    simp [lexLt, this]

theorem lexLt_nil_right : ∀ l : List String, lexLt l [] = false
  | [] => rfl
  | _ :: _ => rfl

theorem lexLt_trans : ∀ l1 l2 l3 : List String, lexLt l1 l2 = true → lexLt l2 l3 = true → lexLt l1 l3 = true
  | [], [], _, h, _ => by simp [lexLt] at h
  | [], _ :: _, [], _, h => by simp [lexLt] at h
  | [], _ :: _, _ :: _, _, _ => rfl
  | _ :: _, [], _, h, _ => by simp [lexLt] at h
  | _ :: _, _ :: _, [], _, h => by simp [lexLt] at h
  | a :: as, b :: bs, c :: cs, h1, h2 => by
    unfold lexLt at h1 h2 ⊢
    by_cases hab : a < b
    · by_cases hbc : b < c
      · simp [lt_trans hab hbc]
      · by_cases hcb : c < b
        · simp [hbc, hcb] at h2
        · have : b = c := le_antisymm (not_lt.mp hcb) (not_lt.mp hbc)
          subst this; simp [hab]
    · by_cases hba : b < a
      · simp [hab, hba] at h1
      · have : a = b := le_antisymm (not_lt.mp hba) (not_lt.mp hab)
        subst this
        simp only [hab, ↓reduceIte] at h1
        by_cases hac : a < c
        · simp [hac]
        · by_cases hca : c < a
          · simp [hac, hca] at h2
          · simp only [hac, hca, ↓reduceIte] at h2 ⊢
            exact lexLt_trans as bs cs h1 h2

theorem lexLt_total : ∀ l1 l2 : List String, l1.length = l2.length → lexLt l1 l2 = false → lexLt l2 l1 = false → l1 = l2
  | [], [], _, _, _ => rfl
  | [], _ :: _, h, _, _ => by simp at h
  | _ :: _, [], h, _, _ => by simp at h
  | a :: as, b :: bs, hl, h1, h2 => by
    unfold lexLt at h1 h2
    by_cases hab : a < b
    · simp [hab] at h1
    · by_cases hba : b < a
      · simp [hba] at h2
      · have : a = b := le_antisymm (not_lt.mp hba) (not_lt.mp hab)
        subst this
        simp only [hab, ↓reduceIte] at h1 h2
        rw [lexLt_total as bs (by simpa using hl) h1 h2]

theorem lexLt_append : ∀ l1 l2 t1 t2 : List String, l1.length = l2.length → lexLt l1 l2 = true →
    lexLt (l1 ++ t1) (l2 ++ t2) = true
  | [], [], _, _, _, h => by simp [lexLt] at h
  | [], _ :: _, _, _, h, _ => by simp at h
  | _ :: _, [], _, _, h, _ => by simp at h
  | a :: as, b :: bs, t1, t2, hl, h => by
    simp only [List.cons_append]
    unfold lexLt at h ⊢
    by_cases hab : a < b
    · simp [hab]
    · by_cases hba : b < a
      · simp [hab, hba] at h
      · simp only [hab, hba, ↓reduceIte] at h ⊢
        exact lexLt_append as bs t1 t2 (by simpa using hl) h

/-- the list of names of a route, as compared by the tie-break (layout.py:321) -/
def nm (names : List String) (l : List Nat) : List String := l.map (fun i => names.getD i "")

theorem nm_length (names : List String) (l : List Nat) : (nm names l).length = l.length := by simp [nm]

theorem nm_append (names : List String) (l1 l2 : List Nat) : nm names (l1 ++ l2) = nm names l1 ++ nm names l2 := by
  simp [nm]

theorem getD_inj (names : List String) (hnd : names.Nodup) (i j : Nat) (hi : i < names.length) (hj : j < names.length)
    (h : names.getD i "" = names.getD j "") : i = j := by
  exact (List.getD_inj hi hj hnd).mp h

/-- dict keys are distinct: a route is determined by its list of names -/
theorem nm_inj (names : List String) (hnd : names.Nodup) : ∀ l1 l2 : List Nat,
    (∀ x ∈ l1, x < names.length) → (∀ x ∈ l2, x < names.length) → nm names l1 = nm names l2 → l1 = l2
  | [], [], _, _, _ => rfl
  | [], _ :: _, _, _, h => by simp [nm] at h
  | _ :: _, [], _, _, h => by simp [nm] at h
  | a :: as, b :: bs, h1, h2, h => by
    simp only [nm, List.map_cons, List.cons.injEq] at h
    have e := getD_inj names hnd a b (h1 a (by simp)) (h2 b (by simp)) h.1
    have := nm_inj names hnd as bs (fun x hx => h1 x (by simp [hx])) (fun x hx => h2 x (by simp [hx])) h.2
    rw [e, this]

/-! ### paths -/

theorem isPath_snoc (c : Nat → Nat → Prop) : ∀ (q : List Nat) (a x : Nat),
    IsPath c a (q ++ [x]) ↔ IsPath c a q ∧ c (lastOf a q) x
  | [], a, x => by simp [IsPath, lastOf]
  | y :: q, a, x => by
    simp only [List.cons_append, IsPath, lastOf]
    rw [isPath_snoc c q y x, and_assoc]

theorem lastOf_snoc (q : List Nat) (a x : Nat) : lastOf a (q ++ [x]) = x := by
  rw [lastOf_append]; rfl

theorem lastOf_mem : ∀ (q : List Nat) (a : Nat), q ≠ [] → lastOf a q ∈ q
  | [], _, h => absurd rfl h
  | [x], _, _ => by simp [lastOf]
  | x :: y :: q, _, _ => by
    have := lastOf_mem (y :: q) x (by simp)
    simp only [lastOf] at this ⊢
    exact List.mem_cons_of_mem _ this

/-- all nodes of a path that starts at a layout are layouts -/
theorem path_lt (conn : List (List Nat)) (n : Nat) (hc : ConnOK conn n) : ∀ (q : List Nat) (a : Nat), a < n →
    IsPath (Adj conn) a q → ∀ x ∈ q, x < n
  | [], _, _, _, x, hx => by simp at hx
  | y :: q, a, ha, hp, x, hx => by
    have hy : y < n := (hc.sym a y ha hp.1).1
    rcases List.mem_cons.mp hx with rfl | hx
    · exact hy
    · exact path_lt conn n hc q y hy hp.2 x hx

theorem lastOf_lt (conn : List (List Nat)) (n : Nat) (hc : ConnOK conn n) (q : List Nat) (a : Nat) (ha : a < n)
    (hp : IsPath (Adj conn) a q) : lastOf a q < n := by
  cases q with
  | nil => exact ha
  | cons y q => exact path_lt conn n hc (y :: q) a ha hp _ (lastOf_mem (y :: q) a (by simp))

/-! ### one guarded relaxation, in closed form -/

/-- the two symmetric entries `(s, aim)` and `(aim, s)` are overwritten -/
def upd (m : RouteMap) (s aim dv : Nat) (r1 r2 : List Nat) : RouteMap :=
  { dist := fun x y => if (x = s ∧ y = aim) ∨ (x = aim ∧ y = s) then dv else m.dist x y,
    route := fun x y => if x = s ∧ y = aim then r1 else if x = aim ∧ y = s then r2 else m.route x y }

theorem upd_d_sa (m : RouteMap) (s aim dv : Nat) (r1 r2 : List Nat) : (upd m s aim dv r1 r2).d s aim = dv := by
  simp [upd, RouteMap.d]

theorem upd_d_as (m : RouteMap) (s aim dv : Nat) (r1 r2 : List Nat) : (upd m s aim dv r1 r2).d aim s = dv := by
  simp [upd, RouteMap.d]

theorem upd_d_other (m : RouteMap) (s aim dv : Nat) (r1 r2 : List Nat) (x y : Nat)
    (h1 : ¬ (x = s ∧ y = aim)) (h2 : ¬ (x = aim ∧ y = s)) : (upd m s aim dv r1 r2).d x y = m.d x y := by
  simp [upd, RouteMap.d, h1, h2]

theorem upd_r_sa (m : RouteMap) (s aim dv : Nat) (r1 r2 : List Nat) : (upd m s aim dv r1 r2).r s aim = r1 := by
  simp [upd, RouteMap.r]

theorem upd_r_as (m : RouteMap) (s aim dv : Nat) (r1 r2 : List Nat) (h : s ≠ aim) :
    (upd m s aim dv r1 r2).r aim s = r2 := by
  have : ¬ (aim = s ∧ s = aim) := fun ⟨_, e⟩ => h e
  simp [upd, RouteMap.r, this]

theorem upd_r_other (m : RouteMap) (s aim dv : Nat) (r1 r2 : List Nat) (x y : Nat)
    (h1 : ¬ (x = s ∧ y = aim)) (h2 : ¬ (x = aim ∧ y = s)) : (upd m s aim dv r1 r2).r x y = m.r x y := by
  simp [upd, RouteMap.r, h1, h2]

theorem relax_skip (names : List String) (s via aim : Nat) (U : List Nat) (m : RouteMap) (h : aim ∉ U) :
    relax names s via U m aim = m := by
  unfold relax
  have : U.contains aim = false := by simpa using h
  simp only [this, Bool.not_false, ↓reduceIte]

/-- the body of the loop over `DirectConnections[via]` when `aim` is still unvisited and the entries between `via`
    and `aim` are those of a direct connection -/
theorem relax_eq (names : List String) (s via aim : Nat) (U : List Nat) (m : RouteMap)
    (hs : s ≠ aim) (hv : via ≠ aim) (hsv : s ≠ via) (haim : aim ∈ U)
    (hsym1 : m.d via s = m.d s via) (hsym2 : m.d aim s = m.d s aim)
    (e1 : m.d via aim = 1) (e2 : m.d aim via = 1) (e3 : m.r via aim = [aim]) (e4 : m.r aim via = [via]) :
    relax names s via U m aim =
      if m.d s via + 1 < m.d s aim then upd m s aim (m.d s via + 1) (m.r s via ++ [aim]) (via :: m.r via s)
      else if m.d s via + 1 = m.d s aim ∧ lexLt (nm names (m.r s via ++ [aim])) (nm names (m.r s aim)) = true then
        upd m s aim (m.d s aim) (m.r s via ++ [aim]) (via :: m.r via s)
      else m := by
  unfold relax
  have hc : U.contains aim = true := by simpa using haim
  simp only [hc, Bool.not_true, Bool.false_eq_true, ↓reduceIte]
  have q1 : ∀ v, (m.setD s aim v).d via s = m.d via s := by
    intro v; simp [RouteMap.setD, RouteMap.d, Ne.symm hsv]
  have q2 : ∀ v, (m.setD s aim v).d aim via = m.d aim via := by
    intro v; simp [RouteMap.setD, RouteMap.d, Ne.symm hs]
  have q3 : ∀ l, (m.setR s aim l).r aim via = m.r aim via := by
    intro l; simp [RouteMap.setR, RouteMap.r, Ne.symm hs]
  have q4 : ∀ l, (m.setR s aim l).r via s = m.r via s := by
    intro l; simp [RouteMap.setR, RouteMap.r, Ne.symm hsv]
  have q5 : ∀ (m' : RouteMap) l, (m'.setR s aim l).r aim via = m'.r aim via := by
    intro m' l; simp [RouteMap.setR, RouteMap.r, Ne.symm hs]
  have q6 : ∀ (m' : RouteMap) l, (m'.setR s aim l).r via s = m'.r via s := by
    intro m' l; simp [RouteMap.setR, RouteMap.r, Ne.symm hsv]
  have q7 : ∀ (m' : RouteMap) a b v, (m'.setD a b v).r = m'.r := by
    intro m' a b v; rfl
  have hroute : ∀ A B : List Nat,
      (fun x y => if x = aim ∧ y = s then A else if x = s ∧ y = aim then B else m.route x y) =
      fun x y => if x = s ∧ y = aim then B else if x = aim ∧ y = s then A else m.route x y := by
    intro A B
    funext x y
    by_cases h1 : x = s ∧ y = aim
    · obtain ⟨rfl, rfl⟩ := h1
      have : ¬ (x = y ∧ y = x) := fun ⟨e, _⟩ => hs e
      simp [this]
    · simp [h1]
  rw [e1]
  by_cases c1 : m.d s via + 1 < m.d s aim
  · simp only [c1, ↓reduceIte]
    rw [q5, q6, q1, q2, q7, q7, e2, e3, e4, hsym1]
    simp only [upd, RouteMap.setD, RouteMap.setR, RouteMap.d, RouteMap.r, List.singleton_append]
    congr 1
    · funext x y
      by_cases h1 : x = s ∧ y = aim
      · obtain ⟨rfl, rfl⟩ := h1
        have : ¬ (x = y ∧ y = x) := fun ⟨e, _⟩ => hs e
        simp [this]
      · by_cases h2 : x = aim ∧ y = s
        · simp [h2]
        · simp [h1, h2]
    · exact hroute _ _
  · simp only [c1, ↓reduceIte]
    by_cases c2 : m.d s via + 1 = m.d s aim
    · simp only [c2, true_and, ↓reduceIte]
      rw [e3]
      by_cases c3 : lexLt (nm names (m.r s via ++ [aim])) (nm names (m.r s aim)) = true
      · have c3' := c3
        unfold nm at c3'
        simp only [c3, c3', ↓reduceIte]
        rw [q3, q4, e4]
        simp only [upd, RouteMap.setR, RouteMap.d, RouteMap.r, List.singleton_append]
        congr 1
        · funext x y
          by_cases h1 : x = s ∧ y = aim
          · obtain ⟨rfl, rfl⟩ := h1; simp
          · by_cases h2 : x = aim ∧ y = s
            · obtain ⟨rfl, rfl⟩ := h2
              simp only [RouteMap.d] at hsym2
              simp [hsym2]
            · simp [h1, h2]
        · exact hroute _ _
      · have c3' := c3
        unfold nm at c3'
        simp only [c3, c3']
        simp
    · simp only [c2, false_and, ↓reduceIte]

/-- a relaxation touches only the entries `(source, aim)` and `(aim, source)` -/
theorem relax_frame (names : List String) (s via aim : Nat) (U : List Nat) (m : RouteMap) (x y : Nat)
    (h1 : ¬ (x = s ∧ y = aim)) (h2 : ¬ (x = aim ∧ y = s)) :
    (relax names s via U m aim).d x y = m.d x y ∧ (relax names s via U m aim).r x y = m.r x y := by
  unfold relax
  split
  · exact ⟨rfl, rfl⟩
  · split
    · simp [RouteMap.setD, RouteMap.setR, RouteMap.d, RouteMap.r, h1, h2]
    · split
      · dsimp only
        split
        · simp [RouteMap.setR, RouteMap.d, RouteMap.r, h1, h2]
        · exact ⟨rfl, rfl⟩
      · exact ⟨rfl, rfl⟩

/-! ### facts kept by every relaxation, beyond `RouteValid.Inv` -/

structure Extra (conn : List (List Nat)) (n : Nat) (m : RouteMap) : Prop where
  /-- no distance is 0 -/
  pos : ∀ a b, 1 ≤ m.d a b
  /-- the entries of direct connections stay as initialised -/
  edge : ∀ a b, a < n → b ∈ nbrs conn a → m.d a b = 1 ∧ m.r a b = [b]
  /-- `route[b][a]` is `route[a][b]` walked backwards -/
  sync : ∀ a b, m.d a b < n + 1 → b :: m.r b a = (a :: m.r a b).reverse
  /-- the (non-existing) diagonal entries are never written -/
  diag : ∀ a, m.d a a = n + 1 ∧ m.r a a = []

theorem upd_extra (conn : List (List Nat)) (n : Nat) (m : RouteMap) (s aim dv : Nat) (r1 r2 : List Nat)
    (hs : s ≠ aim) (hI : Inv conn n m) (hE : Extra conn n m) (hdv : 1 ≤ dv) (hold : 2 ≤ m.d s aim)
    (hsync : aim :: r2 = (s :: r1).reverse) : Extra conn n (upd m s aim dv r1 r2) := by
  have hold' : 2 ≤ m.d aim s := by rw [hI.sym aim s]; exact hold
  constructor
  · intro a b
    by_cases h1 : a = s ∧ b = aim
    · obtain ⟨rfl, rfl⟩ := h1; rw [upd_d_sa]; exact hdv
    · by_cases h2 : a = aim ∧ b = s
      · obtain ⟨rfl, rfl⟩ := h2; rw [upd_d_as]; exact hdv
      · rw [upd_d_other _ _ _ _ _ _ _ _ h1 h2]; exact hE.pos a b
  · intro a b ha hb
    have := hE.edge a b ha hb
    by_cases h1 : a = s ∧ b = aim
    · obtain ⟨rfl, rfl⟩ := h1; omega
    · by_cases h2 : a = aim ∧ b = s
      · obtain ⟨rfl, rfl⟩ := h2; omega
      · rw [upd_d_other _ _ _ _ _ _ _ _ h1 h2, upd_r_other _ _ _ _ _ _ _ _ h1 h2]; exact this
  · intro a b hab
    by_cases h1 : a = s ∧ b = aim
    · obtain ⟨rfl, rfl⟩ := h1
      rw [upd_r_sa, upd_r_as _ _ _ _ _ _ hs]; exact hsync
    · by_cases h2 : a = aim ∧ b = s
      · obtain ⟨rfl, rfl⟩ := h2
        rw [upd_r_sa, upd_r_as _ _ _ _ _ _ hs, hsync, List.reverse_reverse]
      · have h1' : ¬ (b = aim ∧ a = s) := fun ⟨x, y⟩ => h1 ⟨y, x⟩
        have h2' : ¬ (b = s ∧ a = aim) := fun ⟨x, y⟩ => h2 ⟨y, x⟩
        rw [upd_d_other _ _ _ _ _ _ _ _ h1 h2] at hab
        rw [upd_r_other _ _ _ _ _ _ _ _ h1 h2, upd_r_other _ _ _ _ _ _ _ _ h2' h1']
        exact hE.sync a b hab
  · intro a
    have h1 : ¬ (a = s ∧ a = aim) := fun ⟨x, y⟩ => hs (x ▸ y)
    have h2 : ¬ (a = aim ∧ a = s) := fun ⟨x, y⟩ => hs (y ▸ x)
    rw [upd_d_other _ _ _ _ _ _ _ _ h1 h2, upd_r_other _ _ _ _ _ _ _ _ h1 h2]; exact hE.diag a

/-- `route[s][x]` cannot be improved through the direct connection `v — x` -/
def RelaxedAt (names : List String) (m : RouteMap) (s v x : Nat) : Prop :=
  m.d s x ≤ m.d s v + 1 ∧
    (m.d s x = m.d s v + 1 → lexLt (nm names (m.r s v ++ [x])) (nm names (m.r s x)) = false)

/-- the two outcomes of one relaxation of an unvisited direct connection `aim` of `via` -/
theorem relax_cases (names : List String) (conn : List (List Nat)) (n : Nat) (hc : ConnOK conn n)
    (s via aim : Nat) (U : List Nat) (m : RouteMap) (hI : Inv conn n m) (hE : Extra conn n m)
    (hvn : via < n) (hadj : aim ∈ nbrs conn via) (hsv : s ≠ via) (hsU : s ∉ U) (hvU : via ∉ U) (haim : aim ∈ U) :
    (relax names s via U m aim = m ∧ RelaxedAt names m s via aim) ∨
    (∃ dv, relax names s via U m aim = upd m s aim dv (m.r s via ++ [aim]) (via :: m.r via s) ∧
      dv = m.d s via + 1 ∧ dv ≤ m.d s aim ∧
      (dv = m.d s aim → lexLt (nm names (m.r s via ++ [aim])) (nm names (m.r s aim)) = true) ∧
      2 ≤ m.d s aim ∧ m.d s via < n + 1) := by
  have hs : s ≠ aim := fun e => hsU (e ▸ haim)
  have hv : via ≠ aim := fun e => hvU (e ▸ haim)
  obtain ⟨han, hadj'⟩ := hc.sym via aim hvn hadj
  obtain ⟨e1, e3⟩ := hE.edge via aim hvn hadj
  obtain ⟨e2, e4⟩ := hE.edge aim via han hadj'
  rw [relax_eq names s via aim U m hs hv hsv haim (hI.sym via s) (hI.sym aim s) e1 e2 e3 e4]
  have hp := hE.pos s via
  have hle := hI.le s aim
  by_cases c1 : m.d s via + 1 < m.d s aim
  · right
    refine ⟨m.d s via + 1, by rw [if_pos c1], rfl, by omega, ?_, by omega, by omega⟩
    intro h; omega
  · by_cases c2 : m.d s via + 1 = m.d s aim ∧ lexLt (nm names (m.r s via ++ [aim])) (nm names (m.r s aim)) = true
    · right
      refine ⟨m.d s via + 1, ?_, rfl, by omega, fun _ => c2.2, by omega, by omega⟩
      rw [if_neg c1, if_pos c2, c2.1]
    · left
      refine ⟨by rw [if_neg c1, if_neg c2], by omega, ?_⟩
      intro h
      by_contra hcon
      exact c2 ⟨h.symm, by simpa using hcon⟩

theorem relax_extra (names : List String) (conn : List (List Nat)) (n : Nat) (hc : ConnOK conn n)
    (s via aim : Nat) (U : List Nat) (m : RouteMap) (hI : Inv conn n m) (hE : Extra conn n m)
    (hvn : via < n) (hadj : aim ∈ nbrs conn via) (hsv : s ≠ via) (hsU : s ∉ U) (hvU : via ∉ U) :
    Extra conn n (relax names s via U m aim) := by
  by_cases haim : aim ∈ U
  · have hs : s ≠ aim := fun e => hsU (e ▸ haim)
    rcases relax_cases names conn n hc s via aim U m hI hE hvn hadj hsv hsU hvU haim with ⟨h, _⟩ | ⟨dv, h, hdv, _, _, h2, hfin⟩
    · rw [h]; exact hE
    · rw [h]
      apply upd_extra conn n m s aim dv _ _ hs hI hE (by omega) h2
      have := hE.sync s via hfin
      rw [this]
      simp
  · rw [relax_skip names s via aim U m haim]; exact hE

/-! ### the loop over `DirectConnections[via]` -/

/-- what holds while the direct connections of the extracted node `via` are relaxed (`U` = still unvisited) -/
structure FInv (conn : List (List Nat)) (n : Nat) (s via : Nat) (U : List Nat) (m : RouteMap) : Prop where
  inv : Inv conn n m
  extra : Extra conn n m
  /-- extracted nodes are not farther than waiting nodes -/
  f1 : ∀ v, v < n → v ≠ s → v ∉ U → ∀ u ∈ U, m.d s v ≤ m.d s u
  /-- `via` is the farthest extracted node -/
  f3 : ∀ v, v < n → v ≠ s → v ∉ U → m.d s v ≤ m.d s via

theorem relax_finv (names : List String) (conn : List (List Nat)) (n : Nat) (hc : ConnOK conn n)
    (s via aim : Nat) (U : List Nat) (m : RouteMap) (h : FInv conn n s via U m)
    (hvn : via < n) (hadj : aim ∈ nbrs conn via) (hsv : s ≠ via) (hsU : s ∉ U) (hvU : via ∉ U) :
    FInv conn n s via U (relax names s via U m aim) ∧
    (∀ v x, v < n → v ∉ U → v ≠ s → RelaxedAt names m s v x → RelaxedAt names (relax names s via U m aim) s v x) ∧
    (aim ∈ U → RelaxedAt names (relax names s via U m aim) s via aim) := by
  by_cases haim : aim ∈ U
  · have hs : s ≠ aim := fun e => hsU (e ▸ haim)
    have hI' := relax_inv names conn n s via aim U m h.inv hsv hsU hvU
    have hE' := relax_extra names conn n hc s via aim U m h.inv h.extra hvn hadj hsv hsU hvU
    rcases relax_cases names conn n hc s via aim U m h.inv h.extra hvn hadj hsv hsU hvU haim with
      ⟨he, hr⟩ | ⟨dv, he, hdv, hle, hlex, _, _⟩
    · rw [he]; exact ⟨h, fun _ _ _ _ _ hr' => hr', fun _ => hr⟩
    · rw [he] at hI' hE' ⊢
      -- entries `(s, v)` with `v` visited are not touched
      have hfix : ∀ v, v ∉ U →
          (upd m s aim dv (m.r s via ++ [aim]) (via :: m.r via s)).d s v = m.d s v ∧
          (upd m s aim dv (m.r s via ++ [aim]) (via :: m.r via s)).r s v = m.r s v := by
        intro v hv
        have hva : v ≠ aim := fun e => hv (e ▸ haim)
        have n1 : ¬ (s = s ∧ v = aim) := fun ⟨_, e⟩ => hva e
        have n2 : ¬ (s = aim ∧ v = s) := fun ⟨e, _⟩ => hs e
        exact ⟨upd_d_other _ _ _ _ _ _ _ _ n1 n2, upd_r_other _ _ _ _ _ _ _ _ n1 n2⟩
      have hother : ∀ x, x ≠ aim →
          (upd m s aim dv (m.r s via ++ [aim]) (via :: m.r via s)).d s x = m.d s x ∧
          (upd m s aim dv (m.r s via ++ [aim]) (via :: m.r via s)).r s x = m.r s x := by
        intro x hx
        have n1 : ¬ (s = s ∧ x = aim) := fun ⟨_, e⟩ => hx e
        have n2 : ¬ (s = aim ∧ x = s) := fun ⟨e, _⟩ => hs e
        exact ⟨upd_d_other _ _ _ _ _ _ _ _ n1 n2, upd_r_other _ _ _ _ _ _ _ _ n1 n2⟩
      refine ⟨⟨hI', hE', ?_, ?_⟩, ?_, ?_⟩
      · intro v hv hvs hvU' u hu
        rw [(hfix v hvU').1]
        by_cases hua : u = aim
        · subst hua; rw [upd_d_sa]
          have := h.f3 v hv hvs hvU'; omega
        · rw [(hother u hua).1]; exact h.f1 v hv hvs hvU' u hu
      · intro v hv hvs hvU'
        rw [(hfix v hvU').1, (hfix via hvU).1]; exact h.f3 v hv hvs hvU'
      · intro v x _ hvU' hvs hr
        unfold RelaxedAt at hr ⊢
        rw [(hfix v hvU').1, (hfix v hvU').2]
        by_cases hxa : x = aim
        · subst hxa
          rw [upd_d_sa, upd_r_sa]
          refine ⟨by omega, ?_⟩
          intro hd
          have hold : m.d s x = m.d s v + 1 := by omega
          have h1 := hr.2 hold
          have h2 := hlex (by omega)
          by_contra hcon
          have h3 : lexLt (nm names (m.r s v ++ [x])) (nm names (m.r s via ++ [x])) = true := by simpa using hcon
          rw [lexLt_trans _ _ _ h3 h2] at h1
          exact absurd h1 (by simp)
        · rw [(hother x hxa).1, (hother x hxa).2]; exact hr
      · intro _
        unfold RelaxedAt
        rw [(hfix via hvU).1, (hfix via hvU).2, upd_d_sa, upd_r_sa]
        exact ⟨by omega, fun _ => lexLt_irrefl _⟩
  · rw [relax_skip names s via aim U m haim]
    exact ⟨h, fun _ _ _ _ _ hr => hr, fun ha => absurd ha haim⟩

theorem relax_fold_finv (names : List String) (conn : List (List Nat)) (n : Nat) (hc : ConnOK conn n)
    (s via : Nat) (U : List Nat) (hvn : via < n) (hsv : s ≠ via) (hsU : s ∉ U) (hvU : via ∉ U) :
    ∀ (L : List Nat) (m : RouteMap), (∀ x ∈ L, x ∈ nbrs conn via) → FInv conn n s via U m →
      FInv conn n s via U (L.foldl (relax names s via U) m) ∧
      (∀ v x, v < n → v ∉ U → v ≠ s → RelaxedAt names m s v x →
        RelaxedAt names (L.foldl (relax names s via U) m) s v x) ∧
      (∀ x ∈ L, x ∈ U → RelaxedAt names (L.foldl (relax names s via U) m) s via x) := by
  intro L
  induction L with
  | nil => intro m _ h; exact ⟨h, fun _ _ _ _ _ hr => hr, fun x hx => by simp at hx⟩
  | cons a t ih =>
    intro m hL h
    obtain ⟨h1, p1, e1⟩ := relax_finv names conn n hc s via a U m h hvn (hL a (by simp)) hsv hsU hvU
    obtain ⟨h2, p2, e2⟩ := ih (relax names s via U m a) (fun x hx => hL x (by simp [hx])) h1
    simp only [List.foldl_cons]
    refine ⟨h2, fun v x hv hvU' hvs hr => p2 v x hv hvU' hvs (p1 v x hv hvU' hvs hr), ?_⟩
    intro x hx hxU
    rcases List.mem_cons.mp hx with rfl | hx
    · exact p2 via x hvn hvU (Ne.symm hsv) (e1 hxU)
    · exact e2 x hx hxU

/-! ### `min(unvisitedNodes, key=…)` -/

theorem pickFold_spec (key : Nat → Nat) : ∀ (l : List Nat) (best : Option Nat),
    (∀ v, l.foldl (fun best x => match best with
        | none => some x
        | some b => if key x < key b then some x else some b) best = some v →
      (∀ b, best = some b → key v ≤ key b) ∧ ∀ x ∈ l, key v ≤ key x) ∧
    (l.foldl (fun best x => match best with
        | none => some x
        | some b => if key x < key b then some x else some b) best = none → best = none ∧ l = []) := by
  intro l
  induction l with
  | nil =>
    intro best
    refine ⟨?_, fun h => ⟨h, rfl⟩⟩
    intro v hv
    refine ⟨?_, fun x hx => by simp at hx⟩
    intro b hb
    simp only [List.foldl_nil] at hv
    rw [hv] at hb; cases hb; exact Nat.le_refl _
  | cons y t ih =>
    intro best
    simp only [List.foldl_cons]
    cases best with
    | none =>
      obtain ⟨i1, i2⟩ := ih (some y)
      refine ⟨?_, ?_⟩
      · intro v hv
        obtain ⟨a1, a2⟩ := i1 v hv
        refine ⟨fun b hb => by (cases hb), ?_⟩
        intro x hx
        rcases List.mem_cons.mp hx with rfl | hx
        · exact a1 x rfl
        · exact a2 x hx
      · intro h; have := (i2 h).1; cases this
    | some b0 =>
      by_cases hlt : key y < key b0
      · obtain ⟨i1, i2⟩ := ih (some y)
        simp only [hlt, ↓reduceIte]
        refine ⟨?_, ?_⟩
        · intro v hv
          obtain ⟨a1, a2⟩ := i1 v hv
          have := a1 y rfl
          refine ⟨fun b hb => by (cases hb; omega), ?_⟩
          intro x hx
          rcases List.mem_cons.mp hx with rfl | hx
          · exact this
          · exact a2 x hx
        · intro h; have := (i2 h).1; cases this
      · obtain ⟨i1, i2⟩ := ih (some b0)
        simp only [hlt, ↓reduceIte]
        refine ⟨?_, ?_⟩
        · intro v hv
          obtain ⟨a1, a2⟩ := i1 v hv
          have := a1 b0 rfl
          refine ⟨fun b hb => by (cases hb; exact this), ?_⟩
          intro x hx
          rcases List.mem_cons.mp hx with rfl | hx
          · omega
          · exact a2 x hx
        · intro h; have := (i2 h).1; cases this

/-- the extracted node is nearest among the unvisited ones (that occur in the iteration order) -/
theorem pickMin_min (order U : List Nat) (key : Nat → Nat) (via : Nat) (h : pickMin order U key = some via) :
    ∀ u ∈ U, u ∈ order → key via ≤ key u := by
  intro u hu ho
  unfold pickMin at h
  apply ((pickFold_spec key _ none).1 via h).2 u
  simp only [List.mem_filter]
  exact ⟨ho, by simpa using hu⟩

theorem pickMin_none (order U : List Nat) (key : Nat → Nat) (h : pickMin order U key = none) :
    ∀ u ∈ U, u ∉ order := by
  intro u hu ho
  unfold pickMin at h
  have := ((pickFold_spec key _ none).2 h).2
  have hm : u ∈ order.filter (fun x => U.contains x) := by
    simp only [List.mem_filter]; exact ⟨ho, by simpa using hu⟩
  rw [this] at hm; simp at hm

/-! ### the `while` loop for one source -/

/-- invariant of the `while len(unvisitedNodes) > 0` loop (`U` = `unvisitedNodes`) -/
structure DInv (conn : List (List Nat)) (n : Nat) (names : List String) (s : Nat) (U : List Nat) (m : RouteMap) : Prop where
  /-- extracted nodes are not farther than waiting nodes -/
  lo : ∀ v, v < n → v ≠ s → v ∉ U → ∀ u ∈ U, m.d s v ≤ m.d s u
  /-- every direct connection of an extracted node is relaxed -/
  rel : ∀ v, v < n → v ≠ s → v ∉ U → ∀ x ∈ nbrs conn v, x ≠ s → RelaxedAt names m s v x

theorem mem_filter_ne (U : List Nat) (via u : Nat) : u ∈ U.filter (· ≠ via) ↔ u ∈ U ∧ u ≠ via := by
  simp [List.mem_filter]

/-- when the loop for `s` ends, every direct connection `v — x` (`v, x ≠ s`) is relaxed -/
theorem dijkstra_final (names : List String) (conn : List (List Nat)) (n : Nat) (hc : ConnOK conn n)
    (order : List Nat) (s : Nat) (hord : ∀ x, x < n → x ∈ order) :
    ∀ (fuel : Nat) (U : List Nat) (m : RouteMap), U.length ≤ fuel → (∀ u ∈ U, u < n) → s ∉ U →
      Inv conn n m → Extra conn n m → DInv conn n names s U m →
      Extra conn n (dijkstra names conn order s fuel U m) ∧
      ∀ v, v < n → v ≠ s → ∀ x ∈ nbrs conn v, x ≠ s →
        RelaxedAt names (dijkstra names conn order s fuel U m) s v x := by
  intro fuel
  induction fuel with
  | zero =>
    intro U m hlen _ _ _ hE hD
    have : U = [] := List.eq_nil_of_length_eq_zero (by omega)
    subst this
    exact ⟨hE, fun v hv hvs x hx hxs => hD.rel v hv hvs (by simp) x hx hxs⟩
  | succ fuel ih =>
    intro U m hlen hUn hsU hI hE hD
    unfold dijkstra
    split
    · rename_i hnone
      have : U = [] := by
        apply List.eq_nil_iff_forall_not_mem.mpr
        intro u hu
        exact pickMin_none order U _ hnone u hu (hord u (hUn u hu))
      subst this
      exact ⟨hE, fun v hv hvs x hx hxs => hD.rel v hv hvs (by simp) x hx hxs⟩
    · rename_i via hpick
      have hvia : via ∈ U := pickMin_mem order U _ via hpick
      have hvn : via < n := hUn via hvia
      have hsv : s ≠ via := fun e => hsU (e ▸ hvia)
      have hmin := pickMin_min order U _ via hpick
      have hsU' : s ∉ U.filter (· ≠ via) := fun hm => hsU ((mem_filter_ne U via s).mp hm).1
      have hvU' : via ∉ U.filter (· ≠ via) := fun hm => ((mem_filter_ne U via via).mp hm).2 rfl
      have hlen' : (U.filter (· ≠ via)).length ≤ fuel := by
        have : (U.filter (· ≠ via)).length < U.length := by
          apply List.length_filter_lt_length_iff_exists.mpr
          exact ⟨via, hvia, by simp⟩
        omega
      have hUn' : ∀ u ∈ U.filter (· ≠ via), u < n := fun u hu => hUn u ((mem_filter_ne U via u).mp hu).1
      -- a node outside the new unvisited set is `via` or was outside the old one
      have hout : ∀ v, v ∉ U.filter (· ≠ via) → v = via ∨ v ∉ U := by
        intro v hv
        by_cases e : v = via
        · exact Or.inl e
        · exact Or.inr (fun hm => hv ((mem_filter_ne U via v).mpr ⟨hm, e⟩))
      have hF : FInv conn n s via (U.filter (· ≠ via)) m := by
        refine ⟨hI, hE, ?_, ?_⟩
        · intro v hv hvs hvU u hu
          have huU := ((mem_filter_ne U via u).mp hu).1
          rcases hout v hvU with rfl | hvU
          · exact hmin u huU (hord u (hUn u huU))
          · exact hD.lo v hv hvs hvU u huU
        · intro v hv hvs hvU
          rcases hout v hvU with rfl | hvU
          · exact Nat.le_refl _
          · exact hD.lo v hv hvs hvU via hvia
      obtain ⟨hF2, pres, est⟩ := relax_fold_finv names conn n hc s via (U.filter (· ≠ via)) hvn hsv hsU' hvU'
        (conn.getD via []) m (fun x hx => hx) hF
      apply ih _ _ hlen' hUn' hsU' hF2.inv hF2.extra
      refine ⟨hF2.f1, ?_⟩
      intro v hv hvs hvU x hx hxs
      rcases hout v hvU with rfl | hvU0
      · by_cases hxU : x ∈ U.filter (· ≠ v)
        · exact est x hx hxU
        · have hxn : x < n := (hc.sym v x hv hx).1
          have := hF2.f3 x hxn hxs hxU
          exact ⟨by omega, fun e => by omega⟩
      · exact pres v x hv hvU hvs (hD.rel v hv hvs hvU0 x hx hxs)

/-- a relaxation loop for `s` touches only entries of the row and the column of `s` -/
theorem dijkstra_frame (names : List String) (conn : List (List Nat)) (order : List Nat) (s : Nat) :
    ∀ (fuel : Nat) (U : List Nat) (m : RouteMap) (a b : Nat), a ≠ s → b ≠ s →
      (dijkstra names conn order s fuel U m).d a b = m.d a b ∧ (dijkstra names conn order s fuel U m).r a b = m.r a b := by
  intro fuel
  induction fuel with
  | zero => intro U m a b _ _; exact ⟨rfl, rfl⟩
  | succ fuel ih =>
    intro U m a b ha hb
    unfold dijkstra
    split
    · exact ⟨rfl, rfl⟩
    · rename_i via _
      have hfold : ∀ (L : List Nat) (m : RouteMap),
          (L.foldl (relax names s via (U.filter (· ≠ via))) m).d a b = m.d a b ∧
          (L.foldl (relax names s via (U.filter (· ≠ via))) m).r a b = m.r a b := by
        intro L
        induction L with
        | nil => intro m; exact ⟨rfl, rfl⟩
        | cons y t iht =>
          intro m
          simp only [List.foldl_cons]
          obtain ⟨h1, h2⟩ := iht (relax names s via (U.filter (· ≠ via)) m y)
          obtain ⟨g1, g2⟩ := relax_frame names s via y (U.filter (· ≠ via)) m a b
            (fun ⟨e, _⟩ => ha e) (fun ⟨_, e⟩ => hb e)
          exact ⟨h1.trans g1, h2.trans g2⟩
      obtain ⟨h1, h2⟩ := ih (U.filter (· ≠ via)) ((conn.getD via []).foldl (relax names s via (U.filter (· ≠ via))) m) a b ha hb
      obtain ⟨g1, g2⟩ := hfold (conn.getD via []) m
      exact ⟨h1.trans g1, h2.trans g2⟩

/-! ### the local certificate implies minimality along every path -/

/-- `distanceMap[a][b]` is not larger than the length of any path `a → b` -/
def MinAt (conn : List (List Nat)) (m : RouteMap) (a b : Nat) : Prop :=
  ∀ q, IsPath (Adj conn) a q → lastOf a q = b → m.d a b ≤ q.length

/-- no path `a → b` of the stored length has a list of names lexicographically before that of `route_map[a][b]` -/
def LexAt (conn : List (List Nat)) (names : List String) (m : RouteMap) (a b : Nat) : Prop :=
  ∀ q, IsPath (Adj conn) a q → lastOf a q = b → q.length = m.d a b →
    lexLt (nm names q) (nm names (m.r a b)) = false

theorem cert_path (names : List String) (conn : List (List Nat)) (n : Nat) (hc : ConnOK conn n)
    (s : Nat) (hs : s < n) (m : RouteMap) (hI : Inv conn n m) (hE : Extra conn n m)
    (hrel : ∀ v, v < n → v ≠ s → ∀ x ∈ nbrs conn v, x ≠ s → RelaxedAt names m s v x) :
    ∀ q, IsPath (Adj conn) s q → lastOf s q ≠ s →
      m.d s (lastOf s q) ≤ q.length ∧
      (q.length = m.d s (lastOf s q) → lexLt (nm names q) (nm names (m.r s (lastOf s q))) = false) := by
  intro q
  induction q using List.reverseRecOn with
  | nil => intro _ h; exact absurd rfl h
  | append_singleton q' x ih =>
    intro hp hl
    rw [lastOf_snoc] at hl ⊢
    obtain ⟨hp', hadj⟩ := (isPath_snoc (Adj conn) q' s x).mp hp
    have hvn : lastOf s q' < n := lastOf_lt conn n hc q' s hs hp'
    simp only [List.length_append, List.length_cons, List.length_nil, Nat.zero_add]
    by_cases hv : lastOf s q' = s
    · rw [hv] at hadj
      obtain ⟨e1, e2⟩ := hE.edge s x hs hadj
      refine ⟨by omega, ?_⟩
      intro hlen
      have : q' = [] := List.eq_nil_of_length_eq_zero (by omega)
      subst this
      rw [e2]; exact lexLt_irrefl _
    · obtain ⟨ih1, ih2⟩ := ih hp' hv
      obtain ⟨r1, r2⟩ := hrel (lastOf s q') hvn hv x hadj hl
      refine ⟨by omega, ?_⟩
      intro hlen
      have hle := hI.le s x
      have hdv : q'.length = m.d s (lastOf s q') := by omega
      have hc1 := r2 (by omega)
      have hc2 := ih2 hdv
      have hlenr : (m.r s (lastOf s q')).length = q'.length := by
        rw [(hI.fin s (lastOf s q') (by omega)).2]; exact hdv.symm
      by_contra hcon
      have hcon' : lexLt (nm names (q' ++ [x])) (nm names (m.r s x)) = true := by simpa using hcon
      by_cases hlt : lexLt (nm names (m.r s (lastOf s q'))) (nm names q') = true
      · have := lexLt_append _ _ (nm names [x]) (nm names [x]) (by rw [nm_length, nm_length, hlenr]) hlt
        rw [← nm_append, ← nm_append] at this
        rw [lexLt_trans _ _ _ this hcon'] at hc1
        exact absurd hc1 (by simp)
      · have heq := lexLt_total _ _ (by rw [nm_length, nm_length, hlenr]) (by simpa using hlt) hc2
        rw [nm_append, heq, ← nm_append, hcon'] at hc1
        exact absurd hc1 (by simp)

theorem cert_min_lex (names : List String) (conn : List (List Nat)) (n : Nat) (hc : ConnOK conn n)
    (s : Nat) (hs : s < n) (m : RouteMap) (hI : Inv conn n m) (hE : Extra conn n m)
    (hrel : ∀ v, v < n → v ≠ s → ∀ x ∈ nbrs conn v, x ≠ s → RelaxedAt names m s v x)
    (b : Nat) (hb : b ≠ s) : MinAt conn m s b ∧ LexAt conn names m s b := by
  constructor
  · intro q hp hl
    have := (cert_path names conn n hc s hs m hI hE hrel q hp (by rw [hl]; exact hb)).1
    rw [hl] at this; exact this
  · intro q hp hl hlen
    have := (cert_path names conn n hc s hs m hI hE hrel q hp (by rw [hl]; exact hb)).2
    rw [hl] at this; exact this hlen

/-! ### the loop over the sources -/

/-- state after the loops for the sources `< k`: the row of every processed source `a` is settled towards the smaller
    layouts and towards the layouts not yet processed (the entries towards larger processed layouts have been rewritten
    as reversed routes in the loops of those layouts) -/
structure Settled (conn : List (List Nat)) (names : List String) (n k : Nat) (m : RouteMap) : Prop where
  inv : Inv conn n m
  extra : Extra conn n m
  done : ∀ a b, a < n → b < n → a < k → (b < a ∨ k ≤ b) → MinAt conn m a b ∧ LexAt conn names m a b

theorem initMap_extra (conn : List (List Nat)) (n : Nat) (hc : ConnOK conn n) : Extra conn n (initMap conn n) := by
  obtain ⟨hd, hr⟩ := initMap_spec conn n hc
  constructor
  · intro a b; rw [hd a b]; split <;> omega
  · intro a b ha hb
    rw [hd a b, hr a b]
    simp [ha, hb]
  · intro a b hab
    rw [hd a b] at hab
    by_cases h1 : a < n ∧ b ∈ nbrs conn a
    · have h2 := hc.sym a b h1.1 h1.2
      rw [hr a b, hr b a]
      simp [h1, h2]
    · simp [h1] at hab
  · intro a
    rw [hd a a, hr a a]
    simp [hc.irr a]

theorem settled_step (names : List String) (conn : List (List Nat)) (n : Nat) (hc : ConnOK conn n)
    (order : List Nat) (hord : ∀ x, x < n → x ∈ order) (k : Nat) (hk : k < n) (m : RouteMap)
    (h : Settled conn names n k m) :
    Settled conn names n (k + 1) (dijkstra names conn order k n ((List.range n).filter (· ≠ k)) m) := by
  have hkU : k ∉ (List.range n).filter (· ≠ k) := fun hm => ((mem_filter_ne _ k k).mp hm).2 rfl
  have hI' := dijkstra_inv names conn n order k n _ m hkU h.inv
  have hlen : ((List.range n).filter (· ≠ k)).length ≤ n := by
    have := List.length_filter_le (· ≠ k) (List.range n)
    simpa using this
  have hUn : ∀ u ∈ (List.range n).filter (· ≠ k), u < n := by
    intro u hu; simpa using ((mem_filter_ne _ k u).mp hu).1
  have hD : DInv conn n names k ((List.range n).filter (· ≠ k)) m := by
    constructor
    · intro v hv hvs hvU; exact absurd ((mem_filter_ne _ k v).mpr ⟨by simpa using hv, hvs⟩) hvU
    · intro v hv hvs hvU; exact absurd ((mem_filter_ne _ k v).mpr ⟨by simpa using hv, hvs⟩) hvU
  obtain ⟨hE', hrel⟩ := dijkstra_final names conn n hc order k hord n _ m hlen hUn hkU h.inv h.extra hD
  refine ⟨hI', hE', ?_⟩
  intro a b ha hb hak hab
  by_cases e : a = k
  · subst e
    exact cert_min_lex names conn n hc a ha _ hI' hE' hrel b (by omega)
  · have hbk : b ≠ k := by omega
    obtain ⟨f1, f2⟩ := dijkstra_frame names conn order k n ((List.range n).filter (· ≠ k)) m a b e hbk
    obtain ⟨g1, g2⟩ := h.done a b ha hb (by omega) (by omega)
    constructor
    · intro q hp hl; rw [f1]; exact g1 q hp hl
    · intro q hp hl hlen'; rw [f1] at hlen'; rw [f2]; exact g2 q hp hl hlen'

theorem settled_sources (names : List String) (conn : List (List Nat)) (n : Nat) (hc : ConnOK conn n)
    (order : List Nat) (hord : ∀ x, x < n → x ∈ order) (m : RouteMap) (h : Settled conn names n 0 m) :
    ∀ k, k ≤ n → Settled conn names n k
      ((List.range k).foldl (fun m s => dijkstra names conn order s n ((List.range n).filter (· ≠ s)) m) m) := by
  intro k
  induction k with
  | zero => intro _; exact h
  | succ k ih =>
    intro hk
    rw [List.range_succ, List.foldl_append]
    simp only [List.foldl_cons, List.foldl_nil]
    exact settled_step names conn n hc order hord k (by omega) _ (ih (by omega))

/-- the map stored by `_makeConnectionMap` is settled for every source, whatever the tie-break order -/
theorem routeMap_settled (names : List String) (conn : List (List Nat)) (order : List Nat)
    (hc : ConnOK conn names.length) (hn : names.length ≠ 1) (hord : ∀ x, x < names.length → x ∈ order) :
    Settled conn names names.length names.length (routeMap names conn order).1 := by
  unfold routeMap
  simp only [hn, ↓reduceIte]
  unfold relaxAll
  rw [initMap_eq]
  apply settled_sources names conn names.length hc order hord _ _ names.length (Nat.le_refl _)
  exact ⟨initMap_inv conn names.length hc, initMap_extra conn names.length hc, fun a b _ _ h0 => by omega⟩

/-! ### a settled map is unique -/

theorem min_le_of_fin (conn : List (List Nat)) (n : Nat) (m1 m2 : RouteMap) (a b : Nat) (h1 : Inv conn n m1)
    (hfin : m1.d a b < n + 1) (hmin : MinAt conn m2 a b) : m2.d a b ≤ m1.d a b := by
  obtain ⟨⟨_, hp, hl⟩, hlen⟩ := h1.fin a b hfin
  rw [← hlen]; exact hmin _ hp hl

theorem settled_unique_hi (names : List String) (hnd : names.Nodup) (conn : List (List Nat))
    (hc : ConnOK conn names.length) (m1 m2 : RouteMap)
    (h1 : Settled conn names names.length names.length m1) (h2 : Settled conn names names.length names.length m2)
    (a b : Nat) (ha : a < names.length) (hb : b < a) :
    m1.d a b = m2.d a b ∧ m1.r a b = m2.r a b := by
  obtain ⟨min1, lex1⟩ := h1.done a b ha (by omega) ha (Or.inl hb)
  obtain ⟨min2, lex2⟩ := h2.done a b ha (by omega) ha (Or.inl hb)
  have l1 := h1.inv.le a b
  have l2 := h2.inv.le a b
  have hd : m1.d a b = m2.d a b := by
    by_cases f1 : m1.d a b < names.length + 1
    · have := min_le_of_fin conn _ m1 m2 a b h1.inv f1 min2
      have := min_le_of_fin conn _ m2 m1 a b h2.inv (by omega) min1
      omega
    · by_cases f2 : m2.d a b < names.length + 1
      · have := min_le_of_fin conn _ m2 m1 a b h2.inv f2 min1
        omega
      · omega
  refine ⟨hd, ?_⟩
  by_cases f1 : m1.d a b < names.length + 1
  · obtain ⟨⟨_, p1, e1⟩, len1⟩ := h1.inv.fin a b f1
    obtain ⟨⟨_, p2, e2⟩, len2⟩ := h2.inv.fin a b (by omega)
    have c1 := lex1 _ p2 e2 (by omega)
    have c2 := lex2 _ p1 e1 (by omega)
    have := lexLt_total _ _ (by rw [nm_length, nm_length]; omega) c2 c1
    exact nm_inj names hnd _ _ (path_lt conn _ hc _ a ha p1) (path_lt conn _ hc _ a ha p2) this
  · rw [h1.inv.inf a b (by omega), h2.inv.inf a b (by omega)]

/-- two maps that are settled for every source coincide on all pairs of layouts -/
theorem settled_unique (names : List String) (hnd : names.Nodup) (conn : List (List Nat))
    (hc : ConnOK conn names.length) (m1 m2 : RouteMap)
    (h1 : Settled conn names names.length names.length m1) (h2 : Settled conn names names.length names.length m2)
    (a b : Nat) (ha : a < names.length) (hb : b < names.length) :
    m1.d a b = m2.d a b ∧ m1.r a b = m2.r a b := by
  rcases Nat.lt_trichotomy b a with hlt | heq | hgt
  · exact settled_unique_hi names hnd conn hc m1 m2 h1 h2 a b ha hlt
  · subst heq
    rw [(h1.extra.diag b).1, (h1.extra.diag b).2, (h2.extra.diag b).1, (h2.extra.diag b).2]
    exact ⟨rfl, rfl⟩
  · obtain ⟨hd, hr⟩ := settled_unique_hi names hnd conn hc m1 m2 h1 h2 b a hb hgt
    have hd' : m1.d a b = m2.d a b := by rw [h1.inv.sym a b, h2.inv.sym a b, hd]
    refine ⟨hd', ?_⟩
    by_cases f1 : m1.d b a < names.length + 1
    · have s1 := h1.extra.sync b a f1
      have s2 := h2.extra.sync b a (by omega)
      rw [hr] at s1
      rw [← s2] at s1
      exact (List.cons.inj s1).2
    · have l1 := h1.inv.le b a
      have e1 : m1.d a b = names.length + 1 := by rw [h1.inv.sym a b]; omega
      rw [h1.inv.inf a b e1, h2.inv.inf a b (by omega)]

/-! ### the "all connected" flag -/

theorem foldl_congr_mem {α : Type} (f g : α → Nat → α) : ∀ (l : List Nat) (i : α),
    (∀ acc, ∀ x ∈ l, f acc x = g acc x) → l.foldl f i = l.foldl g i := by
  intro l
  induction l with
  | nil => intro _ _; rfl
  | cons y t ih =>
    intro i h
    simp only [List.foldl_cons]
    rw [h i y (by simp)]
    exact ih _ (fun acc x hx => h acc x (by simp [hx]))

theorem maxDist_congr (m1 m2 : RouteMap) (n : Nat) (h : ∀ a b, a < n → b < n → m1.d a b = m2.d a b) :
    maxDist m1 n = maxDist m2 n := by
  unfold maxDist
  apply foldl_congr_mem
  intro acc a ha
  apply foldl_congr_mem
  intro acc' b hb
  rw [h a b (by simpa using ha) (by simpa using hb)]

/-! ### determinism -/

/-- the maps computed with two tie-break orders (each listing all layouts) coincide, and so does the flag -/
theorem routeMap_deterministic (names : List String) (hnd : names.Nodup) (conn : List (List Nat))
    (hc : ConnOK conn names.length) (o1 o2 : List Nat)
    (h1 : ∀ x, x < names.length → x ∈ o1) (h2 : ∀ x, x < names.length → x ∈ o2) :
    (∀ a b, a < names.length → b < names.length →
      (routeMap names conn o1).1.d a b = (routeMap names conn o2).1.d a b ∧
      (routeMap names conn o1).1.r a b = (routeMap names conn o2).1.r a b) ∧
    (routeMap names conn o1).2 = (routeMap names conn o2).2 := by
  by_cases hn : names.length = 1
  · unfold routeMap
    simp only [hn, ↓reduceIte]
    simp
  · have s1 := routeMap_settled names conn o1 hc hn h1
    have s2 := routeMap_settled names conn o2 hc hn h2
    have key := settled_unique names hnd conn hc _ _ s1 s2
    refine ⟨key, ?_⟩
    have hmax := maxDist_congr _ _ names.length (fun a b ha hb => (key a b ha hb).1)
    unfold routeMap at hmax ⊢
    simp only [hn, ↓reduceIte] at hmax ⊢
    rw [hmax]

/-- an iteration order of the set of all layouts lists every layout -/
theorem mem_of_perm_range (order : List Nat) (n : Nat) (h : order.Perm (List.range n)) :
    ∀ x, x < n → x ∈ order := by
  intro x hx
  exact (h.mem_iff).mpr (by simpa using hx)

end PygyroVerif.RouteDet
