/-
Helper lemmas for C17 / C18: finite sums (in any commutative monoid) over blocks of the balanced split,
over boxes of tagged multi-indices, and the min/max instances (tropical monoids).

  * `sum_blocks`        Σ_{k<p} Σ_{j<len k} φ(start k + j) = Σ_{g<n} φ g          (1-D partition)
  * `sumBox_perm`       a box sum does not depend on the order of the axes
  * `sumBox_ranks`      Σ over all rank coordinates of the sums over their blocks = sum over the global box
  * `sumL_boxA_sel`     restriction of a box to fixed indices = sum with an indicator
  * `MinM`, `MaxM`      (min, ⊤) and (max, ⊥) as commutative monoids, so that the same lemmas serve getMin/getMax
  * `trap_sum`          trapezoidal weights: Σ_i w_i φ_i = Σ_cells (x_{i+1}-x_i)(φ_i+φ_{i+1})/2
-/
import PygyroVerif.Model.Diagnostics
import PygyroVerif.Model.Checkpoint
import PygyroVerif.Lemmas.Blocks
import Mathlib.Algebra.BigOperators.Group.List.Basic
import Mathlib.Tactic.LinearCombination
import Mathlib.Tactic.FieldSimp
import Mathlib.Tactic.Ring
import Mathlib.Tactic.Linarith
import Mathlib.Tactic.Abel

namespace PygyroVerif.Diag
open List

section monoid
variable {M : Type*} [AddCommMonoid M]

@[simp] theorem sumL_nil {α : Type*} (f : α → M) : sumL ([] : List α) f = 0 := rfl
@[simp] theorem sumL_cons {α : Type*} (a : α) (l : List α) (f : α → M) : sumL (a :: l) f = f a + sumL l f := by
  simp [sumL]
theorem sumL_append {α : Type*} (l₁ l₂ : List α) (f : α → M) : sumL (l₁ ++ l₂) f = sumL l₁ f + sumL l₂ f := by
  simp [sumL]
theorem sumL_map {α β : Type*} (l : List α) (h : α → β) (f : β → M) : sumL (l.map h) f = sumL l (f ∘ h) := by
  simp [sumL, Function.comp_def]
theorem sumL_flatMap {α β : Type*} (l : List α) (h : α → List β) (f : β → M) :
    sumL (l.flatMap h) f = sumL l (fun a => sumL (h a) f) := by
  induction l with
  | nil => rfl
  | cons a l ih => simp [List.flatMap_cons, sumL_append, ih]
theorem sumL_congr {α : Type*} (l : List α) {f g : α → M} (h : ∀ a ∈ l, f a = g a) : sumL l f = sumL l g := by
  unfold sumL; rw [List.map_congr_left h]
theorem sumL_zero {α : Type*} (l : List α) : sumL l (fun _ => (0 : M)) = 0 := by
  induction l with
  | nil => rfl
  | cons a l ih => simp [ih]
theorem sumL_add {α : Type*} (l : List α) (f g : α → M) : sumL l (fun a => f a + g a) = sumL l f + sumL l g := by
  induction l with
  | nil => simp
  | cons a l ih => simp only [sumL_cons, ih]; exact add_add_add_comm _ _ _ _
theorem sumL_perm {α : Type*} {l₁ l₂ : List α} (h : l₁ ~ l₂) (f : α → M) : sumL l₁ f = sumL l₂ f :=
  (h.map f).sum_eq
theorem sumL_comm {α β : Type*} (l : List α) (m : List β) (f : α → β → M) :
    sumL l (fun a => sumL m (fun b => f a b)) = sumL m (fun b => sumL l (fun a => f a b)) := by
  induction l with
  | nil => simp [sumL_zero]
  | cons a l ih => simp only [sumL_cons, ih, sumL_add]
theorem sumL_range_succ (n : ℕ) (f : ℕ → M) : sumL (range (n+1)) f = sumL (range n) f + f n := by
  simp [sumL, List.range_succ]
theorem sumL_range_add (a b : ℕ) (f : ℕ → M) :
    sumL (range (a + b)) f = sumL (range a) f + sumL (range b) (fun j => f (a + j)) := by
  induction b with
  | zero => simp
  | succ b ih => rw [← Nat.add_assoc, sumL_range_succ, ih, sumL_range_succ, add_assoc]
theorem sumL_replicate {α : Type*} (n : ℕ) (a : α) (f : α → M) : sumL (replicate n a) f = n • f a := by
  simp [sumL]

/-- 1-D partition: the blocks of the balanced split, taken in rank order, add up to the whole range -/
theorem sum_blocks_upto (n p : ℕ) (hp : 0 < p) (φ : ℕ → M) (m : ℕ) :
    sumL (range m) (fun k => sumL (range (blockLen n p k)) (fun j => φ (blockStart n p k + j)))
      = sumL (range (blockStart n p m)) φ := by
  induction m with
  | zero => simp [blockStart_zero']
  | succ m ih =>
    rw [sumL_range_succ, ih]
    have hc : blockStart n p (m+1) = blockStart n p m + blockLen n p m := by
      have := blockStart_le_succ n p m hp
      unfold blockLen; omega
    rw [hc, sumL_range_add]

theorem sum_blocks (n p : ℕ) (hp : 0 < p) (φ : ℕ → M) :
    sumL (range p) (fun k => sumL (range (blockLen n p k)) (fun j => φ (blockStart n p k + j)))
      = sumL (range n) φ := by
  rw [sum_blocks_upto n p hp φ p, blockStart_last' n p hp]

/-! ### boxes of tagged points -/

theorem sumL_boxA_nil (F : Pt → M) : sumL (boxA []) F = F [] := by simp [boxA]

theorem sumL_boxA_cons (d s n : ℕ) (rest : List Axis) (F : Pt → M) :
    sumL (boxA ((d, s, n) :: rest)) F
      = sumL (range n) (fun j => sumL (boxA rest) (fun a => F ((d, s + j) :: a))) := by
  simp only [boxA, sumL_flatMap, sumL_map, Function.comp_def]

/-- `F` only looks at a point through its tagged coordinates, not at the order of the axes -/
def PermInv {M : Type*} (F : Pt → M) : Prop := ∀ a b : Pt, a ~ b → F a = F b

omit [AddCommMonoid M] in
theorem PermInv.cons {F : Pt → M} (h : PermInv F) (x : ℕ × ℕ) : PermInv (fun a => F (x :: a)) :=
  fun _ _ hab => h _ _ (hab.cons x)

/-- a box sum does not depend on the order in which the axes are listed -/
theorem sumBox_perm {ax₁ ax₂ : List Axis} (h : ax₁ ~ ax₂) :
    ∀ (F : Pt → M), PermInv F → sumL (boxA ax₁) F = sumL (boxA ax₂) F := by
  induction h with
  | nil => intro F _; rfl
  | cons x _ ih =>
    intro F hF
    obtain ⟨d, s, n⟩ := x
    rw [sumL_boxA_cons, sumL_boxA_cons]
    exact sumL_congr _ (fun j _ => ih _ (hF.cons _))
  | swap x y l =>
    intro F hF
    obtain ⟨d, s, n⟩ := x
    obtain ⟨d', s', n'⟩ := y
    simp only [sumL_boxA_cons]
    rw [sumL_comm]
    refine sumL_congr _ (fun j _ => sumL_congr _ (fun k _ => sumL_congr _ (fun a _ => ?_)))
    exact hF _ _ (List.Perm.swap _ _ _)
  | trans _ _ ih₁ ih₂ => intro F hF; rw [ih₁ F hF, ih₂ F hF]

theorem Pt.get_perm {a b : Pt} (h : a ~ b) (d : ℕ) : Pt.get a d = Pt.get b d := by
  unfold Pt.get
  exact ((h.filter _).map _).sum_eq

theorem Pt.toIdx_perm {a b : Pt} (h : a ~ b) (nd : ℕ) : Pt.toIdx a nd = Pt.toIdx b nd := by
  unfold Pt.toIdx
  exact List.map_congr_left (fun d _ => Pt.get_perm h d)

omit [AddCommMonoid M] in
/-- anything computed from the tagged coordinates only is order independent -/
theorem permInv_of_get {β : Type*} (Φ : (ℕ → ℕ) → β) (f : β → M) : PermInv (fun a => f (Φ (Pt.get a))) := by
  intro a b h
  have : Pt.get a = Pt.get b := funext (Pt.get_perm h)
  simp only [this]

/-- Σ over all rank coordinates of the sums over the rank's block = the sum over the global box
    (induction over the axes; each axis is the 1-D partition `sum_blocks`) -/
theorem sumBox_ranks (ext : List ℕ) :
    ∀ (ds ps : List ℕ), (∀ p ∈ ps, 0 < p) → ∀ (F : Pt → M),
      sumL (coordsBox ds ps) (fun c => sumL (boxA (localAxes ext ds ps c)) F)
        = sumL (boxA (globalAxes ext ds)) F := by
  intro ds
  induction ds with
  | nil => intro ps _ F; simp [coordsBox, localAxes, globalAxes]
  | cons d ds ih =>
    intro ps hps F
    have hp : 0 < ps.headD 1 := by
      cases ps with
      | nil => simp
      | cons p ps => exact hps p (by simp)
    have htl : ∀ p ∈ ps.tail, 0 < p := fun p hp' => hps p (List.mem_of_mem_tail hp')
    simp only [coordsBox, sumL_flatMap, sumL_map, Function.comp_def, localAxes, globalAxes, List.headD_cons,
      List.tail_cons, sumL_boxA_cons]
    -- Σ_k Σ_cs Σ_j …  →  Σ_k Σ_j Σ_cs …
    have : ∀ k, sumL (coordsBox ds ps.tail) (fun cs =>
        sumL (range (blockLen (ext.getD d 0) (ps.headD 1) k)) (fun j =>
          sumL (boxA (localAxes ext ds ps.tail cs)) (fun a => F ((d, blockStart (ext.getD d 0) (ps.headD 1) k + j) :: a))))
        = sumL (range (blockLen (ext.getD d 0) (ps.headD 1) k)) (fun j =>
          sumL (boxA (globalAxes ext ds)) (fun a => F ((d, blockStart (ext.getD d 0) (ps.headD 1) k + j) :: a))) := by
      intro k
      rw [sumL_comm]
      exact sumL_congr _ (fun j _ => ih ps.tail htl _)
    simp only [this]
    have h1 := sum_blocks (ext.getD d 0) (ps.headD 1) hp
      (fun g => sumL (boxA (globalAxes ext ds)) (fun a => F ((d, g) :: a)))
    simpa using h1

end monoid

/-! ### points of a box: coordinates stay inside the axes -/

theorem mem_boxA_cons {d s n : ℕ} {rest : List Axis} {a : Pt} :
    a ∈ boxA ((d, s, n) :: rest) ↔ ∃ j, j < n ∧ ∃ a', a' ∈ boxA rest ∧ a = (d, s + j) :: a' := by
  simp only [boxA, List.mem_flatMap, List.mem_range, List.mem_map]
  constructor
  · rintro ⟨j, hj, a', ha', rfl⟩; exact ⟨j, hj, a', ha', rfl⟩
  · rintro ⟨j, hj, a', ha', rfl⟩; exact ⟨j, hj, a', ha', rfl⟩

theorem Pt.get_cons (x : ℕ × ℕ) (a : Pt) (d : ℕ) :
    Pt.get (x :: a) d = (if x.1 = d then x.2 else 0) + Pt.get a d := by
  unfold Pt.get
  by_cases h : x.1 = d <;> simp [h]

theorem axStart_cons (x : Axis) (axes : List Axis) (d : ℕ) :
    axStart (x :: axes) d = (if x.1 = d then x.2.1 else 0) + axStart axes d := by
  unfold axStart
  by_cases h : x.1 = d <;> simp [h]

theorem axLen_cons (x : Axis) (axes : List Axis) (d : ℕ) :
    axLen (x :: axes) d = (if x.1 = d then x.2.2 else 0) + axLen axes d := by
  unfold axLen
  by_cases h : x.1 = d <;> simp [h]

theorem get_of_not_mem : ∀ (axes : List Axis) (a : Pt), a ∈ boxA axes → ∀ d, d ∉ axes.map (·.1) → Pt.get a d = 0
  | [], a, ha, d, _ => by
    simp only [boxA, List.mem_singleton] at ha; subst ha; rfl
  | (d', s, n) :: rest, a, ha, d, hd => by
    obtain ⟨j, _, a', ha', rfl⟩ := mem_boxA_cons.1 ha
    simp only [List.map_cons, List.mem_cons, not_or] at hd
    rw [Pt.get_cons, get_of_not_mem rest a' ha' d hd.2]
    simp [Ne.symm hd.1]

theorem ax_of_not_mem (axes : List Axis) (d : ℕ) (hd : d ∉ axes.map (·.1)) :
    axStart axes d = 0 ∧ axLen axes d = 0 := by
  induction axes with
  | nil => exact ⟨rfl, rfl⟩
  | cons x axes ih =>
    simp only [List.map_cons, List.mem_cons, not_or] at hd
    rw [axStart_cons, axLen_cons, (ih hd.2).1, (ih hd.2).2]
    simp [Ne.symm hd.1]

/-- along every dimension of the block a point lies in `[start, start + len)` -/
theorem get_bounds : ∀ (axes : List Axis), (axes.map (·.1)).Nodup → ∀ (a : Pt), a ∈ boxA axes →
    ∀ d, d ∈ axes.map (·.1) → axStart axes d ≤ Pt.get a d ∧ Pt.get a d < axStart axes d + axLen axes d
  | [], _, _, _, d, hd => by simp at hd
  | (d', s, n) :: rest, hnd, a, ha, d, hd => by
    obtain ⟨j, hj, a', ha', rfl⟩ := mem_boxA_cons.1 ha
    simp only [List.map_cons, List.nodup_cons] at hnd
    rw [Pt.get_cons, axStart_cons, axLen_cons]
    by_cases h : d' = d
    · subst h
      have h0 := get_of_not_mem rest a' ha' d' hnd.1
      have h1 := ax_of_not_mem rest d' hnd.1
      simp only [if_true, h0, h1.1, h1.2]
      omega
    · have hd' : d ∈ rest.map (·.1) := by
        simp only [List.map_cons, List.mem_cons] at hd
        rcases hd with hd | hd
        · exact absurd hd.symm h
        · exact hd
      have := get_bounds rest hnd.2 a' ha' d hd'
      simp only [h, if_false, Nat.zero_add]
      exact this

theorem localAxes_dims (ext : List ℕ) : ∀ (ds ps c : List ℕ), (localAxes ext ds ps c).map (·.1) = ds
  | [], _, _ => rfl
  | d :: ds, ps, c => by simp [localAxes, localAxes_dims ext ds]

theorem globalAxes_dims (ext : List ℕ) : ∀ (ds : List ℕ), (globalAxes ext ds).map (·.1) = ds
  | [] => rfl
  | d :: ds => by simp [globalAxes, globalAxes_dims ext ds]

theorem globalAxes_ax (ext : List ℕ) : ∀ (ds : List ℕ), ds.Nodup → ∀ d ∈ ds,
    axStart (globalAxes ext ds) d = 0 ∧ axLen (globalAxes ext ds) d = ext.getD d 0
  | [], _, d, hd => by simp at hd
  | d' :: ds, hnd, d, hd => by
    simp only [List.nodup_cons] at hnd
    rw [globalAxes, axStart_cons, axLen_cons]
    by_cases h : d' = d
    · subst h
      have := ax_of_not_mem (globalAxes ext ds) d' (by rw [globalAxes_dims]; exact hnd.1)
      simp [this.1, this.2]
    · have hd' : d ∈ ds := by
        rcases List.mem_cons.1 hd with hd | hd
        · exact absurd hd.symm h
        · exact hd
      have := globalAxes_ax ext ds hnd.2 d hd'
      simp [h, this.1, this.2]

theorem globalAxes_perm (ext : List ℕ) {ds₁ ds₂ : List ℕ} (h : ds₁ ~ ds₂) :
    globalAxes ext ds₁ ~ globalAxes ext ds₂ := by
  have e : ∀ ds, globalAxes ext ds = ds.map (fun d => (d, 0, ext.getD d 0)) := by
    intro ds; induction ds with
    | nil => rfl
    | cons d ds ih => simp [globalAxes, ih]
  rw [e, e]; exact h.map _

/-! ### restriction to fixed indices -/

section select
variable {M : Type*} [AddCommMonoid M]

theorem sumL_range_indicator (n s fix : ℕ) (X : ℕ → M) :
    sumL (range n) (fun j => if s + j = fix then X j else 0)
      = if s ≤ fix ∧ fix < s + n then X (fix - s) else 0 := by
  induction n with
  | zero => simp
  | succ n ih =>
    rw [sumL_range_succ, ih]
    by_cases h1 : s ≤ fix ∧ fix < s + n
    · have h2 : ¬ (s + n = fix) := by omega
      have h3 : s ≤ fix ∧ fix < s + (n + 1) := by omega
      simp [h1, h2, h3]
    · by_cases h2 : s + n = fix
      · have h3 : s ≤ fix ∧ fix < s + (n + 1) := by omega
        have h4 : fix - s = n := by omega
        simp [h2, h3, h4]
      · have h3 : ¬ (s ≤ fix ∧ fix < s + (n + 1)) := by omega
        simp [h1, h2, h3]

theorem fixAxis_dims (axes : List Axis) (s : ℕ × ℕ) : (fixAxis axes s).map (·.1) = axes.map (·.1) := by
  unfold fixAxis
  rw [List.map_map]
  apply List.map_congr_left
  intro x _
  by_cases h : x.1 = s.1 <;> simp [h]

theorem fixAxis_of_not_mem (axes : List Axis) (s : ℕ × ℕ) (h : s.1 ∉ axes.map (·.1)) : fixAxis axes s = axes := by
  unfold fixAxis
  conv_rhs => rw [← List.map_id axes]
  apply List.map_congr_left
  intro x hx
  have : x.1 ≠ s.1 := fun e => h (e ▸ List.mem_map_of_mem hx)
  simp [this]

/-- one fixed index: the sum of the matching points is the sum over the cut-down block if the block covers the
    index and empty otherwise -/
theorem sumL_boxA_fix : ∀ (axes : List Axis), (axes.map (·.1)).Nodup → ∀ (s : ℕ × ℕ), s.1 ∈ axes.map (·.1) →
    ∀ (F : Pt → M), sumL (boxA axes) (fun a => if Pt.get a s.1 = s.2 then F a else 0)
      = if owned axes s then sumL (boxA (fixAxis axes s)) F else 0
  | [], _, s, hs, _ => by simp at hs
  | (d, s0, n) :: rest, hnd, s, hs, F => by
    simp only [List.map_cons, List.nodup_cons] at hnd
    rw [sumL_boxA_cons]
    by_cases h : d = s.1
    · have hnot : s.1 ∉ rest.map (·.1) := h ▸ hnd.1
      have h1 := ax_of_not_mem rest s.1 hnot
      have e1 : ∀ j, sumL (boxA rest) (fun a => if Pt.get ((d, s0 + j) :: a) s.1 = s.2 then F ((d, s0 + j) :: a) else 0)
          = if s0 + j = s.2 then sumL (boxA rest) (fun a => F ((d, s0 + j) :: a)) else 0 := by
        intro j
        by_cases hj : s0 + j = s.2
        · rw [if_pos hj]
          refine sumL_congr _ (fun a ha => ?_)
          rw [Pt.get_cons, get_of_not_mem rest a ha s.1 hnot]
          simp [h, hj]
        · rw [if_neg hj]
          refine (sumL_congr _ (fun a ha => ?_)).trans (sumL_zero _)
          rw [Pt.get_cons, get_of_not_mem rest a ha s.1 hnot]
          simp [h, hj]
      simp only [e1]
      rw [sumL_range_indicator]
      have hown : owned ((d, s0, n) :: rest) s = decide (s0 ≤ s.2 ∧ s.2 < s0 + n) := by
        unfold owned; rw [axStart_cons, axLen_cons, h1.1, h1.2]; simp [h]
      have hfix : fixAxis ((d, s0, n) :: rest) s = (d, s.2, 1) :: rest := by
        have := fixAxis_of_not_mem rest s hnot
        unfold fixAxis at this ⊢
        simp [h, this]
      rw [hown, hfix, sumL_boxA_cons]
      by_cases hc : s0 ≤ s.2 ∧ s.2 < s0 + n
      · have : s0 + (s.2 - s0) = s.2 := by omega
        simp [hc, this, sumL, List.range_succ]
      · simp [hc]
    · have hs' : s.1 ∈ rest.map (·.1) := by
        simp only [List.map_cons, List.mem_cons] at hs
        rcases hs with hs | hs
        · exact absurd hs.symm h
        · exact hs
      have e1 : ∀ j, sumL (boxA rest) (fun a => if Pt.get ((d, s0 + j) :: a) s.1 = s.2 then F ((d, s0 + j) :: a) else 0)
          = if owned rest s then sumL (boxA (fixAxis rest s)) (fun a => F ((d, s0 + j) :: a)) else 0 := by
        intro j
        rw [← sumL_boxA_fix rest hnd.2 s hs' (fun a => F ((d, s0 + j) :: a))]
        refine sumL_congr _ (fun a _ => ?_)
        rw [Pt.get_cons]; simp [h]
      simp only [e1]
      have hown : owned ((d, s0, n) :: rest) s = owned rest s := by
        unfold owned; rw [axStart_cons, axLen_cons]; simp [h]
      have hfix : fixAxis ((d, s0, n) :: rest) s = (d, s0, n) :: fixAxis rest s := by
        unfold fixAxis; simp [h]
      rw [hown, hfix, sumL_boxA_cons]
      by_cases hc : owned rest s = true
      · simp [hc]
      · simp [hc, sumL_zero]

theorem axStart_fixAxis_ne (axes : List Axis) (s : ℕ × ℕ) (d : ℕ) (h : d ≠ s.1) :
    axStart (fixAxis axes s) d = axStart axes d ∧ axLen (fixAxis axes s) d = axLen axes d := by
  induction axes with
  | nil => exact ⟨rfl, rfl⟩
  | cons x axes ih =>
    have e : fixAxis (x :: axes) s = (if x.1 = s.1 then (x.1, s.2, 1) else x) :: fixAxis axes s := by
      unfold fixAxis; simp
    rw [e, axStart_cons, axLen_cons, axStart_cons, axLen_cons, ih.1, ih.2]
    by_cases hx : x.1 = s.1
    · have h1 : ¬ (x.1 = d) := fun e' => h (e' ▸ hx)
      have h2 : ¬ (s.1 = d) := fun e' => h e'.symm
      simp [hx, h2]
    · simp [hx]

theorem owned_fixAxis_ne (axes : List Axis) (s t : ℕ × ℕ) (h : t.1 ≠ s.1) :
    owned (fixAxis axes s) t = owned axes t := by
  unfold owned
  rw [(axStart_fixAxis_ne axes s t.1 h).1, (axStart_fixAxis_ne axes s t.1 h).2]

theorem all_congr_mem {α : Type*} (l : List α) {p q : α → Bool} (h : ∀ a ∈ l, p a = q a) : l.all p = l.all q := by
  induction l with
  | nil => rfl
  | cons a l ih =>
    simp only [List.all_cons, h a (by simp), ih (fun b hb => h b (List.mem_cons_of_mem _ hb))]

/-- the selector of `getMin/getMax`: does the point have index `fix` along `ax` for every pair -/
def selMatch (sel : List (ℕ × ℕ)) (a : Pt) : Bool := sel.all (fun s => decide (Pt.get a s.1 = s.2))

/-- several fixed indices (distinct axes) -/
theorem sumL_boxA_sel : ∀ (sel : List (ℕ × ℕ)), (sel.map (·.1)).Nodup →
    ∀ (axes : List Axis), (axes.map (·.1)).Nodup → (∀ s ∈ sel, s.1 ∈ axes.map (·.1)) →
    ∀ (F : Pt → M), sumL (boxA axes) (fun a => if selMatch sel a then F a else 0)
      = if sel.all (owned axes) then sumL (boxA (applySel axes sel)) F else 0
  | [], _, axes, _, _, F => by simp [selMatch, applySel]
  | s :: rest, hsel, axes, hnd, hin, F => by
    simp only [List.map_cons, List.nodup_cons] at hsel
    have e0 : ∀ a, (if selMatch (s :: rest) a then F a else 0)
        = if Pt.get a s.1 = s.2 then (if selMatch rest a then F a else 0) else 0 := by
      intro a
      by_cases h1 : Pt.get a s.1 = s.2
      · have : decide (Pt.get a s.1 = s.2) = true := decide_eq_true h1
        simp only [selMatch, List.all_cons, this, Bool.true_and, if_pos h1]
        rfl
      · have : decide (Pt.get a s.1 = s.2) = false := decide_eq_false h1
        simp only [selMatch, List.all_cons, this, Bool.false_and, if_neg h1]
        simp
    simp only [e0]
    rw [sumL_boxA_fix axes hnd s (hin s (by simp))]
    have hnd' : ((fixAxis axes s).map (·.1)).Nodup := by rw [fixAxis_dims]; exact hnd
    have hin' : ∀ t ∈ rest, t.1 ∈ (fixAxis axes s).map (·.1) := by
      intro t ht; rw [fixAxis_dims]; exact hin t (List.mem_cons_of_mem _ ht)
    rw [sumL_boxA_sel rest hsel.2 (fixAxis axes s) hnd' hin' F]
    have hall : rest.all (owned (fixAxis axes s)) = rest.all (owned axes) := by
      apply all_congr_mem rest
      intro t ht
      exact owned_fixAxis_ne axes s t (fun e => hsel.1 (e ▸ List.mem_map_of_mem ht))
    rw [hall]
    by_cases h1 : owned axes s = true <;> by_cases h2 : rest.all (owned axes) = true <;>
      simp [h1, h2, applySel]

end select

/-! ### (min, ⊤) and (max, ⊥) as commutative monoids -/

/-- `R` with `min` as addition and `⊤` as zero -/
structure MinM (R : Type*) where
  val : R

/-- `R` with `max` as addition and `⊥` as zero -/
structure MaxM (R : Type*) where
  val : R

theorem MinM.ext' {R : Type*} : ∀ {a b : MinM R}, a.val = b.val → a = b
  | ⟨_⟩, ⟨_⟩, rfl => rfl
theorem MaxM.ext' {R : Type*} : ∀ {a b : MaxM R}, a.val = b.val → a = b
  | ⟨_⟩, ⟨_⟩, rfl => rfl

instance {R : Type*} [LinearOrder R] [OrderTop R] : Zero (MinM R) := ⟨⟨⊤⟩⟩
instance {R : Type*} [LinearOrder R] : Add (MinM R) := ⟨fun a b => ⟨min a.val b.val⟩⟩
instance {R : Type*} [LinearOrder R] [OrderBot R] : Zero (MaxM R) := ⟨⟨⊥⟩⟩
instance {R : Type*} [LinearOrder R] : Add (MaxM R) := ⟨fun a b => ⟨max a.val b.val⟩⟩

instance {R : Type*} [LinearOrder R] [OrderTop R] : AddCommMonoid (MinM R) where
  add_assoc a b c := MinM.ext' (min_assoc a.val b.val c.val)
  zero_add a := MinM.ext' (min_eq_right le_top)
  add_zero a := MinM.ext' (min_eq_left le_top)
  add_comm a b := MinM.ext' (min_comm a.val b.val)
  nsmul := nsmulRec

instance {R : Type*} [LinearOrder R] [OrderBot R] : AddCommMonoid (MaxM R) where
  add_assoc a b c := MaxM.ext' (max_assoc a.val b.val c.val)
  zero_add a := MaxM.ext' (max_eq_right bot_le)
  add_zero a := MaxM.ext' (max_eq_left bot_le)
  add_comm a b := MaxM.ext' (max_comm a.val b.val)
  nsmul := nsmulRec

theorem MinM.val_add {R : Type*} [LinearOrder R] [OrderTop R] (a b : MinM R) : (a + b).val = min a.val b.val := rfl
theorem MinM.val_zero {R : Type*} [LinearOrder R] [OrderTop R] : (0 : MinM R).val = ⊤ := rfl
theorem MaxM.val_add {R : Type*} [LinearOrder R] [OrderBot R] (a b : MaxM R) : (a + b).val = max a.val b.val := rfl
theorem MaxM.val_zero {R : Type*} [LinearOrder R] [OrderBot R] : (0 : MaxM R).val = ⊥ := rfl

theorem foldr_min_eq_sumL {R : Type*} [LinearOrder R] [OrderTop R] {α : Type*} (l : List α) (f : α → R) :
    (l.map f).foldr min ⊤ = (sumL l (fun a => (⟨f a⟩ : MinM R))).val := by
  induction l with
  | nil => rfl
  | cons a l ih =>
    rw [sumL_cons, List.map_cons, List.foldr_cons, ih, MinM.val_add]

theorem foldr_max_eq_sumL {R : Type*} [LinearOrder R] [OrderBot R] {α : Type*} (l : List α) (f : α → R) :
    (l.map f).foldr max ⊥ = (sumL l (fun a => (⟨f a⟩ : MaxM R))).val := by
  induction l with
  | nil => rfl
  | cons a l ih =>
    rw [sumL_cons, List.map_cons, List.foldr_cons, ih, MaxM.val_add]

theorem boxA_eq_nil_of_size_zero : ∀ (axes : List Axis), blockSize axes = 0 → boxA axes = []
  | [], h => by simp [blockSize] at h
  | (d, s, n) :: rest, h => by
    have h' : n * blockSize rest = 0 := by simpa [blockSize] using h
    rcases Nat.mul_eq_zero.1 h' with h0 | h0
    · subst h0; simp [boxA]
    · simp [boxA, boxA_eq_nil_of_size_zero rest h0]

/-! ### trapezoidal weights -/

section trap
variable {K : Type} [Field K]

/-- summation by cells: the weights `trapMult` are the composite trapezoidal rule on the (possibly non-uniform) grid -/
theorem trap_sum (x φ : ℕ → K) : ∀ m : ℕ,
    sumL (range (m + 2)) (fun i => trapMult x (m + 2) i * φ i)
      = sumL (range (m + 1)) (fun i => (x (i + 1) - x i) * ((φ i + φ (i + 1)) * (1/2)))
  | 0 => by
    simp [sumL, List.range_succ, trapMult]; ring
  | m + 1 => by
    have ih := trap_sum x φ m
    have hpre : sumL (range (m + 1)) (fun i => trapMult x (m + 1 + 2) i * φ i)
        = sumL (range (m + 1)) (fun i => trapMult x (m + 2) i * φ i) := by
      refine sumL_congr _ (fun i hi => ?_)
      have hi' : i < m + 1 := List.mem_range.1 hi
      unfold trapMult
      by_cases h0 : i = 0
      · simp [h0]
      · have h1 : ¬ (i = m + 2) := by omega
        have h2 : ¬ (i = m + 1) := by omega
        simp [h0, h1, h2]
    rw [sumL_range_succ (m + 1 + 1), sumL_range_succ (m + 1), hpre, sumL_range_succ (m + 1)]
    rw [sumL_range_succ (m + 1)] at ih
    have a1 : trapMult x (m + 1 + 2) (m + 1) = ((x (m + 2) - x (m + 1)) + (x (m + 1) - x m)) * (1/2) := by
      unfold trapMult; simp
    have a2 : trapMult x (m + 1 + 2) (m + 1 + 1) = (x (m + 2) - x (m + 1)) * (1/2) := by
      unfold trapMult; simp
    have a3 : trapMult x (m + 2) (m + 1) = (x (m + 1) - x m) * (1/2) := by
      unfold trapMult; simp
    rw [a1, a2]; rw [a3] at ih
    linear_combination ih

theorem telescope {A : Type*} [AddCommGroup A] (y : ℕ → A) (m : ℕ) :
    sumL (range m) (fun i => y (i + 1) - y i) = y m - y 0 := by
  induction m with
  | zero => simp
  | succ m ih => rw [sumL_range_succ, ih]; abel

end trap

/-! ### the contribution of one process to `getMin/getMax`, in any commutative monoid -/

section contrib
variable {M : Type*} [AddCommMonoid M]

/-- `contribution` (Model/Diagnostics.lean) with the reduction written as a monoid sum -/
def contribM (nd : ℕ) (axes : List Axis) (sel : List (ℕ × ℕ)) (φ : List ℕ → M) : M :=
  if blockSize axes = 0 then 0
  else if sel = [] then sumL (boxA axes) (fun a => φ (a.toIdx nd))
  else if sel.all (owned axes) then sumL (boxA (applySel axes sel)) (fun a => φ (a.toIdx nd))
  else 0

/-- all branches of `getMin/getMax` are one formula: the sum over the block of the points that match the selector -/
theorem contribM_eq_indicator (nd : ℕ) (axes : List Axis) (sel : List (ℕ × ℕ)) (φ : List ℕ → M)
    (hsel : (sel.map (·.1)).Nodup) (hnd : (axes.map (·.1)).Nodup) (hin : ∀ s ∈ sel, s.1 ∈ axes.map (·.1)) :
    contribM nd axes sel φ = sumL (boxA axes) (fun a => if selMatch sel a then φ (a.toIdx nd) else 0) := by
  unfold contribM
  by_cases h0 : blockSize axes = 0
  · rw [if_pos h0, boxA_eq_nil_of_size_zero axes h0]; rfl
  · rw [if_neg h0]
    by_cases h1 : sel = []
    · subst h1; simp [selMatch]
    · rw [if_neg h1, sumL_boxA_sel sel hsel axes hnd hin]

theorem permInv_indicator (nd : ℕ) (sel : List (ℕ × ℕ)) (φ : List ℕ → M) :
    PermInv (fun a => if selMatch sel a then φ (Pt.toIdx a nd) else 0) := by
  intro a b h
  have hg : Pt.get a = Pt.get b := funext (Pt.get_perm h)
  show (if selMatch sel a then φ (Pt.toIdx a nd) else 0) = (if selMatch sel b then φ (Pt.toIdx b nd) else 0)
  unfold selMatch Pt.toIdx
  rw [hg]

/-- Σ over all processes of their contributions = the reduction over the selected part of the global array
    (stored in physical order) -/
theorem sum_contribM (nd : ℕ) (ext ord ps : List ℕ) (sel : List (ℕ × ℕ)) (φ : List ℕ → M)
    (hord : ord ~ List.range nd) (hps : ∀ p ∈ ps, 0 < p)
    (hsel : (sel.map (·.1)).Nodup) (hin : ∀ s ∈ sel, s.1 < nd ∧ s.2 < ext.getD s.1 0) :
    sumL (coordsBox ord ps) (fun c => contribM nd (localAxes ext ord ps c) sel φ)
      = sumL (boxA (applySel (globalAxes ext (List.range nd)) sel)) (fun a => φ (a.toIdx nd)) := by
  have hnod : ord.Nodup := hord.nodup_iff.2 List.nodup_range
  have hmem : ∀ s ∈ sel, s.1 ∈ ord := fun s hs => hord.mem_iff.2 (List.mem_range.2 (hin s hs).1)
  have e1 : ∀ c, contribM nd (localAxes ext ord ps c) sel φ
      = sumL (boxA (localAxes ext ord ps c)) (fun a => if selMatch sel a then φ (a.toIdx nd) else 0) := by
    intro c
    apply contribM_eq_indicator nd _ sel φ hsel
    · rw [localAxes_dims]; exact hnod
    · rw [localAxes_dims]; exact hmem
  simp only [e1]
  rw [sumBox_ranks ext ord ps hps, sumBox_perm (globalAxes_perm ext hord) _ (permInv_indicator nd sel φ)]
  have hnodr : ((globalAxes ext (List.range nd)).map (·.1)).Nodup := by
    rw [globalAxes_dims]; exact List.nodup_range
  have hinr : ∀ s ∈ sel, s.1 ∈ (globalAxes ext (List.range nd)).map (·.1) := by
    intro s hs; rw [globalAxes_dims]; exact List.mem_range.2 (hin s hs).1
  rw [sumL_boxA_sel sel hsel _ hnodr hinr]
  have hall : sel.all (owned (globalAxes ext (List.range nd))) = true := by
    rw [List.all_eq_true]
    intro s hs
    have := globalAxes_ax ext (List.range nd) List.nodup_range s.1 (List.mem_range.2 (hin s hs).1)
    unfold owned
    rw [this.1, this.2]
    exact decide_eq_true ⟨Nat.zero_le _, by rw [Nat.zero_add]; exact (hin s hs).2⟩
  rw [if_pos hall]

end contrib

section minmax
variable {K : Type} [LinearOrder K]

theorem blockFold_min_eq (nd : ℕ) (axes : List Axis) (G : List ℕ → K) :
    blockFold min ⊤ (fun (x : K) => (x : WithTop K)) nd axes G
      = (sumL (boxA axes) (fun a => (⟨(G (a.toIdx nd) : WithTop K)⟩ : MinM (WithTop K)))).val := by
  unfold blockFold; exact foldr_min_eq_sumL _ _

theorem blockFold_max_eq (nd : ℕ) (axes : List Axis) (G : List ℕ → K) :
    blockFold max ⊥ (fun (x : K) => (x : WithBot K)) nd axes G
      = (sumL (boxA axes) (fun a => (⟨(G (a.toIdx nd) : WithBot K)⟩ : MaxM (WithBot K)))).val := by
  unfold blockFold; exact foldr_max_eq_sumL _ _

theorem minContribution_eq (nd : ℕ) (axes : List Axis) (sel : List (ℕ × ℕ)) (G : List ℕ → K) :
    minContribution nd axes sel G = (contribM nd axes sel (fun i => (⟨(G i : WithTop K)⟩ : MinM (WithTop K)))).val := by
  unfold minContribution contribution contribM
  by_cases h0 : blockSize axes = 0
  · simp only [if_pos h0]; rfl
  · simp only [if_neg h0]
    by_cases h1 : sel = []
    · simp only [if_pos h1]; exact blockFold_min_eq nd axes G
    · simp only [if_neg h1]
      by_cases h2 : sel.all (owned axes) = true
      · simp only [if_pos h2]; exact blockFold_min_eq nd _ G
      · simp only [if_neg h2]; rfl

theorem maxContribution_eq (nd : ℕ) (axes : List Axis) (sel : List (ℕ × ℕ)) (G : List ℕ → K) :
    maxContribution nd axes sel G = (contribM nd axes sel (fun i => (⟨(G i : WithBot K)⟩ : MaxM (WithBot K)))).val := by
  unfold maxContribution contribution contribM
  by_cases h0 : blockSize axes = 0
  · simp only [if_pos h0]; rfl
  · simp only [if_neg h0]
    by_cases h1 : sel = []
    · simp only [if_pos h1]; exact blockFold_max_eq nd axes G
    · simp only [if_neg h1]
      by_cases h2 : sel.all (owned axes) = true
      · simp only [if_pos h2]; exact blockFold_max_eq nd _ G
      · simp only [if_neg h2]; rfl

theorem reduceAll_min_eq {α : Type*} (l : List α) (f : α → MinM (WithTop K)) :
    reduceAll min ⊤ (l.map (fun c => (f c).val)) = (sumL l f).val := by
  unfold reduceAll; exact foldr_min_eq_sumL l (fun c => (f c).val)

theorem reduceAll_max_eq {α : Type*} (l : List α) (f : α → MaxM (WithBot K)) :
    reduceAll max ⊥ (l.map (fun c => (f c).val)) = (sumL l f).val := by
  unfold reduceAll; exact foldr_max_eq_sumL l (fun c => (f c).val)

/-- the fold with `min` is the least element (and `⊤` exactly for the empty list) -/
theorem foldr_min_le {l : List (WithTop K)} {x : WithTop K} (h : x ∈ l) : l.foldr min ⊤ ≤ x := by
  induction l with
  | nil => simp at h
  | cons a l ih =>
    rcases List.mem_cons.1 h with h | h
    · subst h; exact min_le_left _ _
    · exact le_trans (min_le_right _ _) (ih h)

theorem foldr_min_mem {l : List (WithTop K)} (h : l ≠ []) : l.foldr min ⊤ ∈ l := by
  induction l with
  | nil => exact absurd rfl h
  | cons a l ih =>
    by_cases hl : l = []
    · subst hl; simp
    · rw [List.foldr_cons]
      rcases min_choice a (l.foldr min ⊤) with h1 | h1
      · rw [h1]; exact List.mem_cons_self
      · rw [h1]; exact List.mem_cons_of_mem _ (ih hl)

theorem le_foldr_max {l : List (WithBot K)} {x : WithBot K} (h : x ∈ l) : x ≤ l.foldr max ⊥ := by
  induction l with
  | nil => simp at h
  | cons a l ih =>
    rcases List.mem_cons.1 h with h | h
    · subst h; exact le_max_left _ _
    · exact le_trans (ih h) (le_max_right _ _)

theorem foldr_max_mem {l : List (WithBot K)} (h : l ≠ []) : l.foldr max ⊥ ∈ l := by
  induction l with
  | nil => exact absurd rfl h
  | cons a l ih =>
    by_cases hl : l = []
    · subst hl; simp
    · rw [List.foldr_cons]
      rcases max_choice a (l.foldr max ⊥) with h1 | h1
      · rw [h1]; exact List.mem_cons_self
      · rw [h1]; exact List.mem_cons_of_mem _ (ih hl)

end minmax

/-! ### small algebra on `sumL` in a field; coordinates of explicit points -/

section fieldsum
variable {K : Type} [Field K]

theorem sumL_mul_right {α : Type*} (l : List α) (f : α → K) (k : K) :
    sumL l (fun a => f a * k) = sumL l f * k := by
  induction l with
  | nil => simp
  | cons a l ih => simp only [sumL_cons, ih]; ring

theorem sumL_mul_left {α : Type*} (l : List α) (f : α → K) (k : K) :
    sumL l (fun a => k * f a) = k * sumL l f := by
  induction l with
  | nil => simp
  | cons a l ih => simp only [sumL_cons, ih]; ring

theorem sumL_const (n : ℕ) (k : K) : sumL (range n) (fun _ => k) = n * k := by
  induction n with
  | zero => simp
  | succ n ih => rw [sumL_range_succ, ih]; push_cast; ring

theorem get4 (ir iq iz iv : ℕ) :
    Pt.get [(0, ir), (1, iq), (2, iz), (3, iv)] 0 = ir ∧ Pt.get [(0, ir), (1, iq), (2, iz), (3, iv)] 3 = iv := by
  simp [Pt.get]

theorem get3 (ir iq iz : ℕ) : Pt.get [(0, ir), (1, iq), (2, iz)] 0 = ir := by
  simp [Pt.get]

end fieldsum

end PygyroVerif.Diag

/-! # Helper lemmas for C18 (array store, file names, loop bookkeeping) -/

namespace PygyroVerif.Ckpt
open List

/-! ### the array store -/

theorem addIdx_subIdx : ∀ (blk : List (Nat × Nat)) (x : List Nat), inB blk x = true →
    addIdx (blk.map (·.1)) (subIdx x (blk.map (·.1))) = x
  | [], [], _ => rfl
  | [], _ :: _, h => by simp [inB] at h
  | _ :: _, [], h => by simp [inB] at h
  | (s, n) :: bs, x :: xs, h => by
    simp only [inB, Bool.and_eq_true, decide_eq_true_eq] at h
    have ih := addIdx_subIdx bs xs h.2
    simp only [addIdx, subIdx, List.map_cons, List.zipWith_cons_cons] at ih ⊢
    rw [ih]
    congr 1
    omega

/-- after all hyperslab writes (in any order) an element holds the global value iff some writer's block contains it -/
theorem writeAll_get {α : Type} (G : List Nat → α) (dims : List (Nat × Nat)) :
    ∀ (order : List (List Nat)) (st : Store α) (x : List Nat),
      writeAll G dims order st x = if order.any (fun c => inB (blockOf dims c) x) then some (G x) else st x := by
  intro order
  induction order with
  | nil => intro st x; rfl
  | cons c rest ih =>
    intro st x
    have e : writeAll G dims (c :: rest) st
        = writeAll G dims rest (writeBlock st (blockOf dims c) (localOf G (blockOf dims c))) := rfl
    rw [e, ih]
    by_cases h1 : rest.any (fun c => inB (blockOf dims c) x) = true
    · simp [h1]
    · by_cases h2 : inB (blockOf dims c) x = true
      · have : localOf G (blockOf dims c) (subIdx x ((blockOf dims c).map (·.1))) = G x := by
          unfold localOf; rw [addIdx_subIdx _ _ h2]
        simp [h1, h2, writeBlock, this]
      · simp [h1, h2, writeBlock]

theorem mem_coords_cons {p : Nat} {ps : List Nat} {c : List Nat} :
    c ∈ coords (p :: ps) ↔ ∃ k, k < p ∧ ∃ cs, cs ∈ coords ps ∧ c = k :: cs := by
  simp only [coords, List.mem_flatMap, List.mem_range, List.mem_map]
  constructor
  · rintro ⟨k, hk, cs, hcs, rfl⟩; exact ⟨k, hk, cs, hcs, rfl⟩
  · rintro ⟨k, hk, cs, hcs, rfl⟩; exact ⟨k, hk, cs, hcs, rfl⟩

/-- every index of the global box lies in the block of some process (C02: the ranges tile every axis) -/
theorem cover : ∀ (dims : List (Nat × Nat)), (∀ d ∈ dims, 0 < d.2) → ∀ (x : List Nat),
    inB (dims.map (fun d => (0, d.1))) x = true → ∃ c, c ∈ coords (dims.map (·.2)) ∧ inB (blockOf dims c) x = true
  | [], _, [], _ => ⟨[], by simp [coords], rfl⟩
  | [], _, _ :: _, h => by simp [inB] at h
  | _ :: _, _, [], h => by simp [inB] at h
  | (n, p) :: ds, hp, x :: xs, h => by
    simp only [List.map_cons, inB, Bool.and_eq_true, decide_eq_true_eq] at h
    have hp0 : 0 < p := hp (n, p) (by simp)
    obtain ⟨k, hk, h1, h2⟩ := owner_exists n p hp0 x (by omega)
    obtain ⟨cs, hcs, hin⟩ := cover ds (fun d hd => hp d (List.mem_cons_of_mem _ hd)) xs h.2
    refine ⟨k :: cs, mem_coords_cons.2 ⟨k, hk, cs, hcs, rfl⟩, ?_⟩
    have hle := blockStart_le_succ n p k hp0
    simp only [blockOf, List.headD_cons, List.tail_cons, inB, Bool.and_eq_true, decide_eq_true_eq, hin, and_true, blockLen]
    omega

/-- what a reader asks for lies inside the global box -/
theorem reader_in_box : ∀ (dims : List (Nat × Nat)), (∀ d ∈ dims, 0 < d.2) → ∀ (c : List Nat),
    c ∈ coords (dims.map (·.2)) → ∀ (i : List Nat), inShape (blockOf dims c) i = true →
    inB (dims.map (fun d => (0, d.1))) (addIdx ((blockOf dims c).map (·.1)) i) = true
  | [], _, _, _, [], _ => rfl
  | [], _, _, _, _ :: _, h => by simp [inShape, blockOf, inB] at h
  | (n, p) :: ds, hp, c, hc, i, h => by
    obtain ⟨k, hk, cs, hcs, rfl⟩ := mem_coords_cons.1 hc
    have hk' : k < p := hk
    have hp0 : 0 < p := hp (n, p) (by simp)
    cases i with
    | nil => simp [inShape, blockOf, inB] at h
    | cons i is =>
      simp only [inShape, blockOf, List.headD_cons, List.tail_cons, List.map_cons, inB, Bool.and_eq_true,
        decide_eq_true_eq] at h
      have ih := reader_in_box ds (fun d hd => hp d (List.mem_cons_of_mem _ hd)) cs hcs is h.2
      have hle := blockStart_le_succ n p k hp0
      have hn := blockStart_le_n n p (k + 1) hp0 (by omega)
      simp only [blockOf, List.headD_cons, List.tail_cons, List.map_cons, addIdx, List.zipWith_cons_cons, inB,
        Bool.and_eq_true, decide_eq_true_eq]
      refine ⟨?_, ih⟩
      have := h.1
      unfold blockLen at this
      omega

/-! ### file names -/

theorem lt_irrefl_list : ∀ (l : List Nat), ¬ l < l
  | [] => List.not_lt_nil _
  | a :: l => by
    rw [List.cons_lt_cons_iff]
    rintro (h | ⟨_, h⟩)
    · exact Nat.lt_irrefl _ h
    · exact lt_irrefl_list l h

theorem append_left_lt_iff : ∀ (p a b : List Nat), p ++ a < p ++ b ↔ a < b
  | [], _, _ => Iff.rfl
  | x :: p, a, b => by
    rw [List.cons_append, List.cons_append, List.cons_lt_cons_iff, append_left_lt_iff p a b]
    constructor
    · rintro (h | ⟨_, h⟩)
      · exact absurd h (Nat.lt_irrefl _)
      · exact h
    · exact fun h => Or.inr ⟨rfl, h⟩

theorem append_right_lt_iff : ∀ (a b s : List Nat), a.length = b.length → (a ++ s < b ++ s ↔ a < b)
  | [], [], s, _ => by simp [lt_irrefl_list]
  | [], _ :: _, _, h => by simp at h
  | _ :: _, [], _, h => by simp at h
  | x :: a, y :: b, s, h => by
    rw [List.cons_append, List.cons_append, List.cons_lt_cons_iff, List.cons_lt_cons_iff,
      append_right_lt_iff a b s (by simpa using h)]

theorem map_add_lt_iff (k : Nat) : ∀ (a b : List Nat), a.map (· + k) < b.map (· + k) ↔ a < b
  | [], [] => by simp
  | [], y :: b => by simp [List.nil_lt_cons]
  | x :: a, [] => by simp [List.not_lt_nil]
  | x :: a, y :: b => by
    rw [List.map_cons, List.map_cons, List.cons_lt_cons_iff, List.cons_lt_cons_iff, map_add_lt_iff k a b]
    constructor
    · rintro (h | ⟨h1, h2⟩)
      · exact Or.inl (by omega)
      · exact Or.inr ⟨by omega, h2⟩
    · rintro (h | ⟨h1, h2⟩)
      · exact Or.inl (by omega)
      · exact Or.inr ⟨by omega, h2⟩

theorem padDigits_length (w t : Nat) : (padDigits w t).length = w := by
  induction w with
  | zero => rfl
  | succ w ih => simp [padDigits, ih]

theorem lex_step (P a b r r' : Nat) (hr : r < P) (hr' : r' < P) :
    r + P * a < r' + P * b ↔ a < b ∨ (a = b ∧ r < r') := by
  constructor
  · intro h
    rcases Nat.lt_trichotomy a b with hab | hab | hab
    · exact Or.inl hab
    · subst hab; exact Or.inr ⟨rfl, by omega⟩
    · exfalso
      have : P * (b + 1) ≤ P * a := Nat.mul_le_mul_left _ hab
      rw [Nat.mul_add, Nat.mul_one] at this
      omega
  · rintro (hab | ⟨rfl, h⟩)
    · have : P * (a + 1) ≤ P * b := Nat.mul_le_mul_left _ hab
      rw [Nat.mul_add, Nat.mul_one] at this
      omega
    · omega

/-- lexicographic order of fixed-width digit strings is numeric order (of the part that fits the width) -/
theorem padDigits_lt_iff (w : Nat) : ∀ (s t : Nat), padDigits w s < padDigits w t ↔ s % 10 ^ w < t % 10 ^ w := by
  induction w with
  | zero => intro s t; simp [padDigits, Nat.mod_one]
  | succ w ih =>
    intro s t
    rw [padDigits, padDigits, List.cons_lt_cons_iff, ih, Nat.mod_pow_succ, Nat.mod_pow_succ]
    have hP : 0 < 10 ^ w := Nat.pow_pos (by decide)
    exact (lex_step (10 ^ w) _ _ _ _ (Nat.mod_lt _ hP) (Nat.mod_lt _ hP)).symm

theorem numWidthAux_le : ∀ (fuel t w : Nat), t < 10 ^ (w + 1) → numWidthAux fuel t ≤ w + 1
  | 0, _, _, _ => by simp [numWidthAux]
  | fuel + 1, t, w, h => by
    unfold numWidthAux
    by_cases h10 : t < 10
    · simp [h10]
    · simp only [h10, if_false]
      cases w with
      | zero => simp at h; omega
      | succ w =>
        have : t / 10 < 10 ^ (w + 1) := by
          rw [Nat.div_lt_iff_lt_mul (by decide)]
          rw [Nat.pow_succ] at h; exact h
        have := numWidthAux_le fuel (t / 10) w this
        omega

theorem lt_pow_numWidthAux : ∀ (fuel t : Nat), t ≤ fuel → t < 10 ^ numWidthAux fuel t
  | 0, t, h => by
    have : t = 0 := by omega
    subst this; simp [numWidthAux]
  | fuel + 1, t, h => by
    unfold numWidthAux
    by_cases h10 : t < 10
    · simp [h10]
    · simp only [h10, if_false]
      have hle : t / 10 ≤ fuel := by omega
      have ih := lt_pow_numWidthAux fuel (t / 10) hle
      rw [Nat.add_comm, Nat.pow_succ]
      have : t < (t / 10 + 1) * 10 := by omega
      calc t < (t / 10 + 1) * 10 := this
        _ ≤ 10 ^ numWidthAux fuel (t / 10) * 10 := Nat.mul_le_mul_right _ ih

theorem numWidth_le_six (t : Nat) (h : t < 10 ^ 6) : max 6 (numWidth t) = 6 := by
  have := numWidthAux_le t t 5 h
  unfold numWidth; omega

theorem lt_pow_width (t : Nat) : t < 10 ^ max 6 (numWidth t) := by
  have h := lt_pow_numWidthAux t t (Nat.le_refl _)
  exact Nat.lt_of_lt_of_le h (Nat.pow_le_pow_right (by decide) (Nat.le_max_right _ _))

theorem padDigits_lt_ten (w t : Nat) : ∀ d ∈ padDigits w t, d < 10 := by
  induction w with
  | zero => simp [padDigits]
  | succ w ih =>
    intro d hd
    simp only [padDigits, List.mem_cons] at hd
    rcases hd with rfl | hd
    · exact Nat.mod_lt _ (by decide)
    · exact ih d hd

theorem foldl_padDigits (w t : Nat) : ∀ acc, (padDigits w t).foldl (fun a d => a * 10 + d) acc = acc * 10 ^ w + t % 10 ^ w := by
  induction w with
  | zero => intro acc; simp [padDigits, Nat.mod_one]
  | succ w ih =>
    intro acc
    rw [padDigits, List.foldl_cons, ih, Nat.mod_pow_succ, Nat.pow_succ]
    ring

theorem parseNat_digits (ds : List Nat) (hne : ds ≠ []) (hd : ∀ d ∈ ds, d < 10) :
    parseNat (ds.map (· + 48)) = some (ds.foldl (fun a d => a * 10 + d) 0) := by
  unfold parseNat
  have hne' : ds.map (· + 48) ≠ [] := by simpa using hne
  rw [if_neg hne']
  have key : ∀ (l : List Nat), (∀ d ∈ l, d < 10) → ∀ acc : Nat,
      (l.map (· + 48)).foldl (fun acc ch => match acc with
        | none => none
        | some a => if 48 ≤ ch ∧ ch ≤ 57 then some (a * 10 + (ch - 48)) else none) (some acc)
      = some (l.foldl (fun a d => a * 10 + d) acc) := by
    intro l
    induction l with
    | nil => intro _ acc; rfl
    | cons d l ih =>
      intro hl acc
      have hd10 : d < 10 := hl d (by simp)
      have hc : 48 ≤ d + 48 ∧ d + 48 ≤ 57 := by omega
      simp only [List.map_cons, List.foldl_cons, hc, and_self, if_true, Nat.add_sub_cancel]
      exact ih (fun x hx => hl x (List.mem_cons_of_mem _ hx)) _
  exact key ds hd 0

theorem lastField_append (sep : Nat) : ∀ (p s : List Nat), sep ∉ s → lastField sep (p ++ sep :: s) = s
  | [], s, h => by simp [lastField, h]
  | x :: p, s, h => by
    have : sep ∈ p ++ sep :: s := by simp
    simp only [List.cons_append, lastField, this, if_true]
    exact lastField_append sep p s h

theorem firstField_append (sep : Nat) : ∀ (a r : List Nat), sep ∉ a → firstField sep (a ++ sep :: r) = a
  | [], r, _ => by simp [firstField]
  | x :: a, r, h => by
    simp only [List.mem_cons, not_or] at h
    have ih := firstField_append sep a r h.2
    unfold firstField at ih ⊢
    have hx : x ≠ sep := fun e => h.1 e.symm
    simpa [List.takeWhile_cons, hx] using ih

theorem fmt06_mem (t d : Nat) (h : d ∈ fmt06 t) : 48 ≤ d ∧ d ≤ 57 := by
  unfold fmt06 at h
  obtain ⟨x, hx, rfl⟩ := List.mem_map.1 h
  have := padDigits_lt_ten _ _ x hx
  omega

/-- `max` of the names of a non-empty set of times, when names order like times -/
theorem foldl_latest (nm : Nat → List Nat) (P : Nat → Prop) (hnm : ∀ s t, P s → P t → (nm s < nm t ↔ s < t)) :
    ∀ (ts : List Nat) (m : Nat), P m → (∀ t ∈ ts, P t) →
      (ts.map nm).foldl (fun m y => if m < y then y else m) (nm m) = nm (ts.foldl max m) ∧ P (ts.foldl max m)
  | [], m, hm, _ => ⟨rfl, hm⟩
  | y :: ts, m, hm, hts => by
    have hy : P y := hts y (by simp)
    have hstep : (if nm m < nm y then nm y else nm m) = nm (max m y) := by
      by_cases h : m < y
      · rw [if_pos ((hnm m y hm hy).2 h), Nat.max_eq_right (Nat.le_of_lt h)]
      · rw [if_neg (fun h' => h ((hnm m y hm hy).1 h')), Nat.max_eq_left (Nat.le_of_not_lt h)]
    have hP : P (max m y) := by
      by_cases h : m ≤ y
      · rw [Nat.max_eq_right h]; exact hy
      · rw [Nat.max_eq_left (Nat.le_of_not_le h)]; exact hm
    simp only [List.map_cons, List.foldl_cons, hstep]
    exact foldl_latest nm P hnm ts (max m y) hP (fun t ht => hts t (List.mem_cons_of_mem _ ht))

theorem foldl_max_ge : ∀ (ts : List Nat) (m : Nat), m ≤ ts.foldl max m ∧ (∀ t ∈ ts, t ≤ ts.foldl max m)
    ∧ (ts.foldl max m = m ∨ ts.foldl max m ∈ ts)
  | [], m => ⟨Nat.le_refl _, by simp, Or.inl rfl⟩
  | y :: ts, m => by
    obtain ⟨h1, h2, h3⟩ := foldl_max_ge ts (max m y)
    simp only [List.foldl_cons]
    refine ⟨le_trans (Nat.le_max_left _ _) h1, ?_, ?_⟩
    · intro t ht
      rcases List.mem_cons.1 ht with rfl | ht
      · exact le_trans (Nat.le_max_right _ _) h1
      · exact h2 t ht
    · rcases h3 with h3 | h3
      · rw [h3]
        by_cases h : m ≤ y
        · rw [Nat.max_eq_right h]; exact Or.inr (by simp)
        · rw [Nat.max_eq_left (Nat.le_of_not_le h)]; exact Or.inl rfl
      · exact Or.inr (List.mem_cons_of_mem _ h3)

/-! ### the repaired selection: `max(files, key = parsed time)` -/

/-- `seen = pre ++ f :: post`, `f` has time `T`, everything before it is strictly earlier, everything after it is not later:
`f` is the first element of `seen` with maximal time -/
def FirstMax (seen : List (List Nat)) (f : List Nat) (T : Nat) : Prop :=
  ∃ pre post, seen = pre ++ f :: post ∧ parseTime f = some T
    ∧ (∀ g ∈ pre, ∃ s, parseTime g = some s ∧ s < T) ∧ (∀ g ∈ post, ∃ s, parseTime g = some s ∧ s ≤ T)

theorem foldl_keyStep_none : ∀ xs : List (List Nat), xs.foldl keyStep none = none
  | [] => rfl
  | _ :: xs => by simpa [List.foldl_cons, keyStep] using foldl_keyStep_none xs

theorem foldl_keyStep_firstMax : ∀ (xs seen : List (List Nat)) (f : List Nat) (T : Nat), FirstMax seen f T →
    (∀ g ∈ xs, ∃ s, parseTime g = some s) →
    ∃ f' T', xs.foldl keyStep (some (f, T)) = some (f', T') ∧ FirstMax (seen ++ xs) f' T'
  | [], seen, f, T, h, _ => ⟨f, T, rfl, by simpa using h⟩
  | y :: xs, seen, f, T, h, hp => by
    obtain ⟨ty, hy⟩ := hp y (by simp)
    have hp' : ∀ g ∈ xs, ∃ s, parseTime g = some s := fun g hg => hp g (List.mem_cons_of_mem _ hg)
    obtain ⟨pre, post, hs, hf, hpre, hpost⟩ := h
    have hcat : seen ++ y :: xs = (seen ++ [y]) ++ xs := by simp
    by_cases hlt : T < ty
    · have hstep : keyStep (some (f, T)) y = some (y, ty) := by simp [keyStep, hy, hlt]
      have hinv : FirstMax (seen ++ [y]) y ty := by
        refine ⟨seen, [], rfl, hy, ?_, by simp⟩
        intro g hg
        rw [hs] at hg
        rcases List.mem_append.1 hg with hg | hg
        · obtain ⟨s, e, hl⟩ := hpre g hg; exact ⟨s, e, by omega⟩
        · rcases List.mem_cons.1 hg with rfl | hg
          · exact ⟨T, hf, hlt⟩
          · obtain ⟨s, e, hl⟩ := hpost g hg; exact ⟨s, e, by omega⟩
      rw [List.foldl_cons, hstep, hcat]
      exact foldl_keyStep_firstMax xs _ y ty hinv hp'
    · have hstep : keyStep (some (f, T)) y = some (f, T) := by simp [keyStep, hy, hlt]
      have hinv : FirstMax (seen ++ [y]) f T := by
        refine ⟨pre, post ++ [y], by simp [hs], hf, hpre, ?_⟩
        intro g hg
        rcases List.mem_append.1 hg with hg | hg
        · exact hpost g hg
        · have : g = y := by simpa using hg
          subst this; exact ⟨ty, hy, by omega⟩
      rw [List.foldl_cons, hstep, hcat]
      exact foldl_keyStep_firstMax xs _ f T hinv hp'

/-- if every name parses, the repaired selection returns the first name of maximal time, and that time -/
theorem latestWithTime_firstMax (files : List (List Nat)) (hne : files ≠ [])
    (hp : ∀ g ∈ files, ∃ s, parseTime g = some s) :
    ∃ f T, latestWithTime files = some (f, T) ∧ FirstMax files f T := by
  cases files with
  | nil => exact absurd rfl hne
  | cons x xs =>
    obtain ⟨tx, hx⟩ := hp x (by simp)
    have h0 : FirstMax [x] x tx := ⟨[], [], rfl, hx, by simp, by simp⟩
    obtain ⟨f, T, h1, h2⟩ := foldl_keyStep_firstMax xs [x] x tx h0 (fun g hg => hp g (List.mem_cons_of_mem _ hg))
    exact ⟨f, T, by simpa [latestWithTime, hx] using h1, by simpa using h2⟩

/-- one unparsable name makes the selection fail (`int` raises inside `max`) -/
theorem foldl_keyStep_unparsable : ∀ (xs : List (List Nat)) (acc : Option (List Nat × Nat)),
    (∃ g ∈ xs, parseTime g = none) → xs.foldl keyStep acc = none
  | [], _, h => by obtain ⟨g, hg, _⟩ := h; simp at hg
  | y :: xs, acc, h => by
    rw [List.foldl_cons]
    by_cases hy : parseTime y = none
    · have : keyStep acc y = none := by
        unfold keyStep; rw [hy]; cases acc <;> rfl
      rw [this]; exact foldl_keyStep_none xs
    · obtain ⟨g, hg, hn⟩ := h
      rcases List.mem_cons.1 hg with rfl | hg
      · exact absurd hn hy
      · exact foldl_keyStep_unparsable xs _ ⟨g, hg, hn⟩

/-! ### the time loop: iteration -/

/-- `n` unconditional executions of the loop body -/
def iterC (body : List Stmt) : Nat → CState → CState
  | 0, s => s
  | n + 1, s => iterC body n (execStmtsC s body)

theorem iterC_add (body : List Stmt) : ∀ (n m : Nat) (s : CState), iterC body (n + m) s = iterC body m (iterC body n s)
  | 0, m, s => by simp [iterC]
  | n + 1, m, s => by
    have : n + 1 + m = (n + m) + 1 := by omega
    rw [this]; simp only [iterC]; exact iterC_add body n m _

/-- a `while` loop is some number of executions of its body: as many as the condition allowed -/
theorem whileC_eq_iter (cond : Cond) (body : List Stmt) : ∀ (fuel : Nat) (s : CState),
    ∃ k, k ≤ fuel ∧ whileC cond body fuel s = iterC body k s
      ∧ (∀ j, j < k → cond.eval (iterC body j s) = true)
      ∧ (k < fuel → cond.eval (iterC body k s) = false)
  | 0, s => ⟨0, Nat.le_refl _, rfl, by simp, by simp⟩
  | fuel + 1, s => by
    by_cases h : cond.eval s = true
    · obtain ⟨k, hk, he, hall, hstop⟩ := whileC_eq_iter cond body fuel (execStmtsC s body)
      refine ⟨k + 1, by omega, ?_, ?_, ?_⟩
      · simp only [whileC, h, if_true, iterC]; exact he
      · intro j hj
        cases j with
        | zero => exact h
        | succ j => exact hall j (by omega)
      · intro hlt; exact hstop (by omega)
    · refine ⟨0, by omega, ?_, by simp, ?_⟩
      · simp only [whileC, h]; rfl
      · intro _; simpa [iterC] using h

/-! ### the time loop: closed forms of the three parts of the driver -/

/-- everything before the loop -/
def preSpec (s : CState) : CState :=
  let t0 := if s.loadable then s.fileTime else 0
  let ti0 := pyDiv t0 s.dt
  { s with saveStepCut := s.saveStep - 1, t := t0, ti := ti0, tN := pyDiv s.tEnd s.dt, nLoops := 0,
           startPrint := max 0 (pyMod ti0 s.saveStep),
           events := s.events ++ [Event.collect t0] ++
             (if s.loadable then [] else [Event.ckpt false t0, Event.ckpt true t0, Event.reduce, Event.lines 0 (0 + 1)]) }

/-- one pass through the loop body -/
def bodySpec (s : CState) : CState :=
  let t' := s.t + s.dt
  { s with t := t', ti := s.ti + 1, nLoops := s.nLoops + 1,
           startPrint := if pyMod s.ti s.saveStep = s.saveStepCut then 0 else s.startPrint,
           crashed := s.crashed || decide (s.nLoops + 1 = 0),
           timeForLoop := s.clock.headD true, clock := s.clock.tail,
           events := s.events ++ [Event.collect t'] ++
             (if pyMod s.ti s.saveStep = s.saveStepCut then
                [Event.ckpt false t', Event.ckpt true t', Event.reduce,
                 Event.lines s.startPrint (min s.saveStep (s.ti + 1))] else []) }

/-- everything after the loop -/
def postSpec (s : CState) : CState :=
  if pyMod s.ti s.saveStep ≠ 0 then
    { s with events := s.events ++ [Event.reduce, Event.lines 0 (pyMod s.ti s.saveStep),
                                    Event.ckpt false s.t, Event.ckpt true s.t] }
  else s

def iterSpec : Nat → CState → CState
  | 0, s => s
  | n + 1, s => iterSpec n (bodySpec s)

theorem iterC_eq_iterSpec (body : List Stmt) (h : ∀ s, execStmtsC s body = bodySpec s) :
    ∀ (n : Nat) (s : CState), iterC body n s = iterSpec n s
  | 0, _ => rfl
  | n + 1, s => by simp only [iterC, iterSpec, h]; exact iterC_eq_iterSpec body h n _

theorem iterSpec_add : ∀ (n m : Nat) (s : CState), iterSpec (n + m) s = iterSpec m (iterSpec n s)
  | 0, m, s => by simp [iterSpec]
  | n + 1, m, s => by
    have : n + 1 + m = (n + m) + 1 := by omega
    rw [this]; simp only [iterSpec]; exact iterSpec_add n m _

/-- times of the grid checkpoints among the events -/
def ckptTimes : List Event → List Int
  | [] => []
  | Event.ckpt false t :: r => t :: ckptTimes r
  | _ :: r => ckptTimes r

theorem ckptTimes_append : ∀ (a b : List Event), ckptTimes (a ++ b) = ckptTimes a ++ ckptTimes b
  | [], _ => rfl
  | e :: a, b => by
    cases e with
    | ckpt p t => cases p <;> simp [ckptTimes, ckptTimes_append a b]
    | collect t => simp [ckptTimes, ckptTimes_append a b]
    | reduce => simp [ckptTimes, ckptTimes_append a b]
    | lines lo hi => simp [ckptTimes, ckptTimes_append a b]

/-- times of the phi checkpoints: always written together with the grid -/
def phiTimes : List Event → List Int
  | [] => []
  | Event.ckpt true t :: r => t :: phiTimes r
  | _ :: r => phiTimes r

theorem phiTimes_append : ∀ (a b : List Event), phiTimes (a ++ b) = phiTimes a ++ phiTimes b
  | [], _ => rfl
  | e :: a, b => by
    cases e with
    | ckpt p t => cases p <;> simp [phiTimes, phiTimes_append a b]
    | collect t => simp [phiTimes, phiTimes_append a b]
    | reduce => simp [phiTimes, phiTimes_append a b]
    | lines lo hi => simp [phiTimes, phiTimes_append a b]

/-- the in-loop checkpoint times of `n` iterations starting at step index `ti`, time `t` -/
def loopCkpts (S dt : Int) : Nat → Int → Int → List Int
  | 0, _, _ => []
  | n + 1, ti, t => (if pyMod ti S = S - 1 then [t + dt] else []) ++ loopCkpts S dt n (ti + 1) (t + dt)

theorem loopCkpts_add (S dt : Int) : ∀ (n m : Nat) (ti t : Int),
    loopCkpts S dt (n + m) ti t = loopCkpts S dt n ti t ++ loopCkpts S dt m (ti + n) (t + n * dt)
  | 0, m, ti, t => by simp [loopCkpts]
  | n + 1, m, ti, t => by
    have : n + 1 + m = (n + m) + 1 := by omega
    rw [this]
    simp only [loopCkpts, loopCkpts_add S dt n m, List.append_assoc]
    have e1 : ti + 1 + (n : Int) = ti + ((n + 1 : Nat) : Int) := by push_cast; ring
    have e2 : t + dt + (n : Int) * dt = t + ((n + 1 : Nat) : Int) * dt := by push_cast; ring
    rw [e1, e2]

theorem mem_loopCkpts (S dt : Int) : ∀ (n : Nat) (ti t x : Int),
    x ∈ loopCkpts S dt n ti t ↔ ∃ j : Nat, j < n ∧ pyMod (ti + j) S = S - 1 ∧ x = t + (j + 1) * dt
  | 0, ti, t, x => by simp [loopCkpts]
  | n + 1, ti, t, x => by
    simp only [loopCkpts, List.mem_append, mem_loopCkpts S dt n]
    constructor
    · rintro (h | ⟨j, hj, hm, hx⟩)
      · by_cases hc : pyMod ti S = S - 1
        · simp only [hc, if_true, List.mem_singleton] at h
          exact ⟨0, by omega, by simpa using hc, by simp [h]⟩
        · simp [hc] at h
      · refine ⟨j + 1, by omega, ?_, ?_⟩
        · rw [← hm]; congr 1; push_cast; ring
        · rw [hx]; push_cast; ring
    · rintro ⟨j, hj, hm, hx⟩
      cases j with
      | zero =>
        left
        have : pyMod ti S = S - 1 := by simpa using hm
        simp [this, hx]
      | succ j =>
        right
        refine ⟨j, by omega, ?_, ?_⟩
        · rw [← hm]; congr 1; push_cast; ring
        · rw [hx]; push_cast; ring

/-- the fields that the loop never changes -/
def sameParams (a b : CState) : Prop :=
  a.saveStep = b.saveStep ∧ a.saveStepCut = b.saveStepCut ∧ a.dt = b.dt ∧ a.tEnd = b.tEnd ∧ a.tN = b.tN
    ∧ a.loadable = b.loadable ∧ a.fileTime = b.fileTime

/-- closed form of `n` passes through the body -/
theorem iterSpec_closed : ∀ (n : Nat) (s : CState), s.saveStepCut = s.saveStep - 1 →
    (iterSpec n s).t = s.t + n * s.dt ∧ (iterSpec n s).ti = s.ti + n ∧ (iterSpec n s).nLoops = s.nLoops + n
    ∧ sameParams (iterSpec n s) s
    ∧ ckptTimes (iterSpec n s).events = ckptTimes s.events ++ loopCkpts s.saveStep s.dt n s.ti s.t
    ∧ phiTimes (iterSpec n s).events = phiTimes s.events ++ loopCkpts s.saveStep s.dt n s.ti s.t
    ∧ (0 ≤ s.nLoops → (iterSpec n s).crashed = s.crashed)
  | 0, s, _ => by simp [iterSpec, loopCkpts, sameParams]
  | n + 1, s, hc => by
    have hb : (bodySpec s).saveStepCut = (bodySpec s).saveStep - 1 := hc
    obtain ⟨h1, h2, h3, h4, h5, h6, h7⟩ := iterSpec_closed n (bodySpec s) hb
    simp only [iterSpec]
    refine ⟨?_, ?_, ?_, ?_, ?_, ?_, ?_⟩
    · rw [h1]; show s.t + s.dt + n * s.dt = s.t + ((n + 1 : Nat) : Int) * s.dt; push_cast; ring
    · rw [h2]; show s.ti + 1 + n = s.ti + ((n + 1 : Nat) : Int); push_cast; ring
    · rw [h3]; show s.nLoops + 1 + n = s.nLoops + ((n + 1 : Nat) : Int); push_cast; ring
    · exact h4
    · rw [h5]
      show ckptTimes (s.events ++ [Event.collect (s.t + s.dt)] ++ _) ++ loopCkpts s.saveStep s.dt n (s.ti + 1) (s.t + s.dt) = _
      rw [ckptTimes_append, ckptTimes_append, hc]
      by_cases hs : pyMod s.ti s.saveStep = s.saveStep - 1
      · simp [loopCkpts, hs, ckptTimes]
      · simp [loopCkpts, hs, ckptTimes]
    · rw [h6]
      show phiTimes (s.events ++ [Event.collect (s.t + s.dt)] ++ _) ++ loopCkpts s.saveStep s.dt n (s.ti + 1) (s.t + s.dt) = _
      rw [phiTimes_append, phiTimes_append, hc]
      by_cases hs : pyMod s.ti s.saveStep = s.saveStep - 1
      · simp [loopCkpts, hs, phiTimes]
      · simp [loopCkpts, hs, phiTimes]
    · intro h0
      have : (0 : Int) ≤ (bodySpec s).nLoops := by show 0 ≤ s.nLoops + 1; omega
      rw [h7 this]
      show (s.crashed || decide (s.nLoops + 1 = 0)) = s.crashed
      have : ¬ (s.nLoops + 1 = 0) := by omega
      simp [this]

theorem pyMod_eq (a S : Int) (h : 0 < S) : pyMod a S = a % S := Int.fmod_eq_emod_of_nonneg _ (le_of_lt h)
theorem pyDiv_eq (a d : Int) (h : 0 < d) : pyDiv a d = a / d := Int.fdiv_eq_ediv_of_nonneg _ (le_of_lt h)

theorem pyDiv_mul (k d : Int) (h : 0 < d) : pyDiv (k * d) d = k := by
  rw [pyDiv_eq _ _ h, Int.mul_ediv_cancel _ (ne_of_gt h)]

/-- if step `x` is a multiple of `S` then the previous step index is `S - 1` modulo `S`: the pass that led to `x` saved -/
theorem prev_saves (x S : Int) (hS : 0 < S) (h : pyMod x S = 0) : pyMod (x - 1) S = S - 1 := by
  rw [pyMod_eq _ _ hS] at h ⊢
  obtain ⟨q, hq⟩ := Int.dvd_of_emod_eq_zero h
  have : x - 1 = (S - 1) + S * (q - 1) := by rw [hq]; ring
  rw [this, Int.add_mul_emod_self_left, Int.emod_eq_of_lt (by omega) (by omega)]

/-! ### the time loop: symbolic data flow -/

/-- the state at the head of the loop: `distribFunc` in `v_parallel` (nothing saved), `phi` and `rho` in `v_parallel_2d` -/
def mkSim (F P R pgv : Term) (files : List (Bool × SGrid)) : Sim :=
  { f := ⟨F, .v_parallel⟩, fsave := none, phi := ⟨P, .v_parallel_2d⟩, rho := ⟨R, .v_parallel_2d⟩, pgv := pgv, files := files }

/-- `n` passes through a (partial) step function -/
def iterS (step : Sim → Option Sim) : Nat → Sim → Option Sim
  | 0, s => some s
  | n + 1, s => match step s with
    | none => none
    | some s' => iterS step n s'

/-- what a checkpoint + restart has to reproduce: the three grids (the gradient table is scratch) -/
def Sim.live (s : Sim) : SGrid × Option SGrid × SGrid × SGrid := (s.f, s.fsave, s.phi, s.rho)

/-- if one pass maps the loop-head state built on `F` to the loop-head state built on `stepOf F`, whatever the gradient
    table held, then `n` passes map it to the one built on `stepOf^[n] F` -/
theorem iterS_closed (step : Sim → Option Sim) (stepOf phiOf rhoOf pgvOf : Term → Term)
    (hstep : ∀ F pgv files, ∃ files', step (mkSim F (phiOf F) (rhoOf F) pgv files)
        = some (mkSim (stepOf F) (phiOf (stepOf F)) (rhoOf (stepOf F)) (pgvOf F) files')) :
    ∀ (n : Nat) (F pgv : Term) (files : List (Bool × SGrid)), ∃ pgv' files',
      iterS step n (mkSim F (phiOf F) (rhoOf F) pgv files)
        = some (mkSim (stepOf^[n] F) (phiOf (stepOf^[n] F)) (rhoOf (stepOf^[n] F)) pgv' files')
  | 0, F, pgv, files => ⟨pgv, files, rfl⟩
  | n + 1, F, pgv, files => by
    obtain ⟨files1, h1⟩ := hstep F pgv files
    obtain ⟨pgv', files', h2⟩ := iterS_closed step stepOf phiOf rhoOf pgvOf hstep n (stepOf F) (pgvOf F) files1
    refine ⟨pgv', files', ?_⟩
    simp only [iterS, h1, h2, Function.iterate_succ, Function.comp]

/-! ### the parameter file -/

section constants
variable {V : Type}

/-- the expression only reads the constants it names -/
def PVal.Local : PVal V → Prop
  | .lit _ => True
  | .expr deps f => ∀ e1 e2 : String → Option V, (∀ k ∈ deps, e1 k = e2 k) → f e1 = f e2

/-- `σ` gives every key of the file the value of its entry -/
def Solution (data : List (String × PVal V)) (σ : String → Option V) : Prop :=
  ∀ kp ∈ data, evalP σ kp.2 = σ kp.1 ∧ (σ kp.1).isSome = true

/-- everything `env` has assigned agrees with `σ` -/
def Below (env σ : String → Option V) : Prop := ∀ k v, env k = some v → σ k = some v

/-- what is known about a pending entry -/
def EntryOk (σ : String → Option V) (kp : String × PVal V) : Prop :=
  kp.2.Local ∧ evalP σ kp.2 = σ kp.1 ∧ (σ kp.1).isSome = true

theorem below_step (env σ : String → Option V) (kp : String × PVal V) (v : V)
    (hb : Below env σ) (hok : EntryOk σ kp) (he : evalP env kp.2 = some v) : Below (setEnv env kp.1 v) σ := by
  intro k' v' h
  unfold setEnv at h
  by_cases hk : k' = kp.1
  · rw [if_pos hk] at h
    have hv : v' = v := (Option.some.inj h).symm
    subst hv; subst hk
    obtain ⟨k, pv⟩ := kp
    obtain ⟨hloc, hsol, _⟩ := hok
    simp only at hloc hsol he ⊢
    cases pv with
    | lit v0 =>
      simp only [evalP] at he hsol
      rw [← hsol, he]
    | expr deps f =>
      simp only [evalP] at he hsol
      by_cases hall : deps.all (fun k => (env k).isSome) = true
      · rw [if_pos hall] at he
        have hagree : ∀ d ∈ deps, env d = σ d := by
          intro d hd
          have := List.all_eq_true.1 hall d hd
          obtain ⟨x, hx⟩ := Option.isSome_iff_exists.1 this
          rw [hx, hb d x hx]
        have hall' : deps.all (fun k => (σ k).isSome) = true := by
          rw [List.all_eq_true]; intro d hd
          rw [← hagree d hd]; exact List.all_eq_true.1 hall d hd
        rw [if_pos hall'] at hsol
        rw [← hsol, ← Option.some.inj he, hloc env σ hagree]
      · rw [if_neg hall] at he; exact absurd he (by simp)
  · rw [if_neg hk] at h; exact hb k' v' h

theorem setEnv_isSome (env : String → Option V) (k : String) (v : V) (k' : String) (h : (env k').isSome = true) :
    (setEnv env k v k').isSome = true := by
  unfold setEnv; by_cases hk : k' = k
  · simp [hk]
  · simp [hk, h]

/-- one sweep keeps `env` below every solution; what it defers are entries of the file; and every entry it was given is
    afterwards either assigned or deferred -/
theorem sweep_inv (σ : String → Option V) : ∀ (items : List (String × PVal V)) (env : String → Option V)
    (um : List (String × PVal V)), (∀ kp ∈ items, EntryOk σ kp) → (∀ kp ∈ um, EntryOk σ kp) → Below env σ →
    Below (sweep items env um).1 σ ∧ (∀ kp ∈ (sweep items env um).2, EntryOk σ kp)
    ∧ (∀ k, ((env k).isSome = true ∨ k ∈ um.map (·.1) ∨ k ∈ items.map (·.1)) →
          (((sweep items env um).1 k).isSome = true ∨ k ∈ (sweep items env um).2.map (·.1)))
  | [], env, um, _, hum, hb => ⟨hb, hum, fun k h => by
      rcases h with h | h | h
      · exact Or.inl h
      · exact Or.inr h
      · simp at h⟩
  | (k, pv) :: rest, env, um, hit, hum, hb => by
    have hok : EntryOk σ (k, pv) := hit (k, pv) (by simp)
    have hrest : ∀ kp ∈ rest, EntryOk σ kp := fun kp h => hit kp (List.mem_cons_of_mem _ h)
    cases he : evalP env pv with
    | some v =>
      have hb' := below_step env σ (k, pv) v hb hok he
      obtain ⟨r1, r2, r3⟩ := sweep_inv σ rest (setEnv env k v) um hrest hum hb'
      simp only [sweep, he]
      refine ⟨r1, r2, fun k' h => r3 k' ?_⟩
      rcases h with h | h | h
      · exact Or.inl (setEnv_isSome env k v k' h)
      · exact Or.inr (Or.inl h)
      · simp only [List.map_cons, List.mem_cons] at h
        rcases h with h | h
        · left; unfold setEnv; simp [h]
        · exact Or.inr (Or.inr h)
    | none =>
      have hum' : ∀ kp ∈ um ++ [(k, pv)], EntryOk σ kp := by
        intro kp h
        rcases List.mem_append.1 h with h | h
        · exact hum kp h
        · simp only [List.mem_singleton] at h; rw [h]; exact hok
      obtain ⟨r1, r2, r3⟩ := sweep_inv σ rest env (um ++ [(k, pv)]) hrest hum' hb
      simp only [sweep, he]
      refine ⟨r1, r2, fun k' h => r3 k' ?_⟩
      rcases h with h | h | h
      · exact Or.inl h
      · exact Or.inr (Or.inl (by simp [h]))
      · simp only [List.map_cons, List.mem_cons] at h
        rcases h with h | h
        · exact Or.inr (Or.inl (by simp [h]))
        · exact Or.inr (Or.inr h)

/-- a successful run of `get_constants` returns, on every key it was given, the value of the solution -/
theorem getConstants_inv (σ : String → Option V) : ∀ (fuel : Nat) (data : List (String × PVal V))
    (env res : String → Option V), (∀ kp ∈ data, EntryOk σ kp) → Below env σ →
    getConstants fuel data env = some res →
    Below res σ ∧ ∀ k, ((env k).isSome = true ∨ k ∈ data.map (·.1)) → (res k).isSome = true
  | fuel, [], env, res, _, hb, h => by
    cases fuel <;> (simp only [getConstants] at h; cases h; exact ⟨hb, fun k hk => by simpa using hk⟩)
  | 0, _ :: _, _, _, _, _, h => by simp [getConstants] at h
  | fuel + 1, d :: ds, env, res, hd, hb, h => by
    simp only [getConstants] at h
    have hrev : ∀ kp ∈ (d :: ds).reverse, EntryOk σ kp := fun kp hk => hd kp (List.mem_reverse.1 hk)
    obtain ⟨r1, r2, r3⟩ := sweep_inv σ (d :: ds).reverse env [] hrev (by simp) hb
    by_cases hlt : (sweep (d :: ds).reverse env []).2.length < (d :: ds).length
    · rw [if_pos hlt] at h
      obtain ⟨g1, g2⟩ := getConstants_inv σ fuel _ _ res r2 r1 h
      refine ⟨g1, fun k hk => g2 k ?_⟩
      apply r3 k
      rcases hk with hk | hk
      · exact Or.inl hk
      · right; right
        rw [List.map_reverse, List.mem_reverse]; exact hk
    · rw [if_neg hlt] at h; exact absurd h (by simp)

/-- a sweep leaves alone the keys it is not given -/
theorem sweep_other (k : String) : ∀ (items : List (String × PVal V)) (env : String → Option V)
    (um : List (String × PVal V)), k ∉ items.map (·.1) → (sweep items env um).1 k = env k
  | [], _, _, _ => rfl
  | (k0, pv) :: rest, env, um, h => by
    simp only [List.map_cons, List.mem_cons, not_or] at h
    cases he : evalP env pv with
    | some v =>
      simp only [sweep, he]
      rw [sweep_other k rest _ um h.2]
      unfold setEnv; simp [h.1]
    | none =>
      simp only [sweep, he]
      exact sweep_other k rest env _ h.2

/-- a file of literals only (what `Constants.__str__` prints) is read in one sweep: nothing is deferred and every key gets
    its literal -/
theorem sweep_lits : ∀ (items : List (String × PVal V)) (env : String → Option V) (um : List (String × PVal V)),
    (∀ kp ∈ items, ∃ v, kp.2 = PVal.lit v) → (items.map (·.1)).Nodup →
    (sweep items env um).2 = um ∧ ∀ k v, (k, PVal.lit v) ∈ items → (sweep items env um).1 k = some v
  | [], _, _, _, _ => ⟨rfl, fun _ _ h => by simp at h⟩
  | (k0, pv) :: rest, env, um, hl, hnd => by
    obtain ⟨v0, hv0⟩ := hl (k0, pv) (by simp)
    simp only at hv0; subst hv0
    simp only [List.map_cons, List.nodup_cons] at hnd
    obtain ⟨r1, r2⟩ := sweep_lits rest (setEnv env k0 v0) um (fun kp h => hl kp (List.mem_cons_of_mem _ h)) hnd.2
    have e : sweep ((k0, PVal.lit v0) :: rest) env um = sweep rest (setEnv env k0 v0) um := by simp [sweep, evalP]
    rw [e]
    refine ⟨r1, fun k v h => ?_⟩
    rcases List.mem_cons.1 h with h | h
    · have hk : k = k0 := congrArg Prod.fst h
      have hv : v = v0 := by
        have := congrArg Prod.snd h
        simp only at this
        exact PVal.lit.inj this
      subst hk; subst hv
      rw [sweep_other k rest _ um hnd.1]
      unfold setEnv; simp
    · exact r2 k v h

end constants

end PygyroVerif.Ckpt
