/-
Bridge theorem of C01, the communicating case: what `compatible` + a non-empty `_get_swap_axes` say about the two
layouts (`Comm`), and the list manipulations of the transposition code (`swapL`, `set`) on labelled shapes.
-/
import PygyroVerif.Lemmas.DirectStepLocal

namespace PygyroVerif.DS
open PygyroVerif PygyroVerif.Handler PygyroVerif.CopyBox

/-! ### `order[0], order[a] = order[a], order[0]` -/

theorem swapL_eq (l : List Nat) (i j : Nat) (hi : i < l.length) (hj : j < l.length) :
    swapL l i j = (l.set i l[j]).set j l[i] := by
  unfold swapL
  rw [getD_lt l j hj 0, getD_lt l i hi 0]

theorem swapL_length (l : List Nat) (i j : Nat) : (swapL l i j).length = l.length := by
  unfold swapL; simp

theorem swapL_perm (l : List Nat) (i j : Nat) (hi : i < l.length) (hj : j < l.length) : (swapL l i j).Perm l := by
  rw [swapL_eq l i j hi hj]
  exact List.set_set_perm hi hj

theorem swapL_map (lab : List Nat) (f : Nat → Nat) (i j : Nat) (hi : i < lab.length) (hj : j < lab.length) :
    swapL (lab.map f) i j = (swapL lab i j).map f := by
  unfold swapL
  rw [List.map_set, List.map_set, getD_map_lt 0 lab f j hj, getD_map_lt 0 lab f i hi]

theorem swapL_zero_zero (l : List Nat) (h : 0 < l.length) : swapL l 0 0 = l := by
  rw [swapL_eq l 0 0 h h]
  cases l with
  | nil => simp at h
  | cons a t => simp

theorem ite_swapL (l : List Nat) (a0 : Nat) (h : 0 < l.length) : (if a0 ≠ 0 then swapL l 0 a0 else l) = swapL l 0 a0 := by
  by_cases h0 : a0 = 0
  · subst h0; rw [if_neg (by simp), swapL_zero_zero l h]
  · rw [if_pos h0]

theorem swapL_getD (l : List Nat) (i j k : Nat) (hi : i < l.length) (hj : j < l.length) :
    (swapL l i j).getD k 0 = if k = j then l.getD i 0 else if k = i then l.getD j 0 else l.getD k 0 := by
  unfold swapL
  simp only [List.getD_eq_getElem?_getD, List.getElem?_set, List.length_set]
  by_cases h1 : k = j
  · subst h1; simp [hj]
  · by_cases h2 : k = i
    · subst h2; simp [hi, h1, Ne.symm h1]
    · simp [h1, h2, Ne.symm h1, Ne.symm h2]

theorem range_map_getD (l : List Nat) : (List.range l.length).map (fun k => l.getD k 0) = l := by
  apply List.ext_getElem (by simp)
  intro i h1 h2
  simp only [List.getElem_map, List.getElem_range]
  exact getD_lt l i h2 0

/-! ### the communicating case -/

/-- the two layouts of a handler differ on exactly one distributed process axis `a0` -/
structure Comm (np oS oD ext : List Nat) (a0 : Nat) : Prop where
  pair : PairOK np oS oD ext
  diff : diffAxes np oS oD = [a0]

/-- `compatible` and a non-empty list of swap axes give `Comm` -/
theorem comm_of_compatible (np oS oD ext : List Nat) (hpair : PairOK np oS oD ext)
    (hc : compatible np oS oD = true) (hne : swapAxes np oS oD ≠ []) :
    ∃ a0, Comm np oS oD ext a0 := by
  unfold compatible at hc
  simp only [decide_eq_true_eq] at hc
  cases hd : diffAxes np oS oD with
  | nil => exact absurd (by unfold swapAxes; rw [hd]; rfl) hne
  | cons a l =>
    cases l with
    | nil => exact ⟨a, hpair, hd⟩
    | cons b l' => rw [hd] at hc; simp only [List.length_cons] at hc; omega

namespace Comm
variable {np oS oD ext : List Nat} {a0 : Nat} (H : Comm np oS oD ext a0)
include H

theorem mem : a0 < np.length ∧ 1 < np.getD a0 1 ∧ oS.getD a0 0 ≠ oD.getD a0 0 := by
  have : a0 ∈ diffAxes np oS oD := by rw [H.diff]; simp
  exact (mem_diffAxes np oS oD a0).mp this

theorem not_diff (i : Nat) (h : i ≠ a0) : i ∉ diffAxes np oS oD := by
  rw [H.diff]; simpa using h

theorem swapAxes_eq : swapAxes np oS oD = [a0, oS.idxOf (oD.getD a0 0), oD.idxOf (oS.getD a0 0)] := by
  unfold swapAxes; rw [H.diff]; rfl

theorem a0_ltS : a0 < oS.length := Nat.lt_of_lt_of_le H.mem.1 H.pair.1.2.2.1
theorem a0_ltD : a0 < oD.length := Nat.lt_of_lt_of_le H.mem.1 H.pair.2.1.2.2.1
theorem ndS : oS.Nodup := H.pair.1.nodup
theorem ndD : oD.Nodup := H.pair.2.1.nodup
theorem perm : oD.Perm oS := H.pair.perm
theorem hpos : ∀ i, i < np.length → 1 ≤ np.getD i 1 := fun i hi => (H.pair.1.2.2.2 i hi).1

theorem A_memS : oS.getD a0 0 ∈ oS := by rw [getD_lt oS a0 H.a0_ltS 0]; exact List.getElem_mem _
theorem B_memD : oD.getD a0 0 ∈ oD := by rw [getD_lt oD a0 H.a0_ltD 0]; exact List.getElem_mem _
theorem A_memD : oS.getD a0 0 ∈ oD := (H.perm.mem_iff).mpr H.A_memS
theorem B_memS : oD.getD a0 0 ∈ oS := (H.perm.mem_iff).mp H.B_memD

theorem idxOf_A : oS.idxOf (oS.getD a0 0) = a0 := by
  rw [getD_lt oS a0 H.a0_ltS 0]; exact H.ndS.idxOf_getElem a0 H.a0_ltS
theorem idxOf_B : oD.idxOf (oD.getD a0 0) = a0 := by
  rw [getD_lt oD a0 H.a0_ltD 0]; exact H.ndD.idxOf_getElem a0 H.a0_ltD

theorem a1_lt : oS.idxOf (oD.getD a0 0) < oS.length := List.idxOf_lt_length_iff.mpr H.B_memS
theorem a2_lt : oD.idxOf (oS.getD a0 0) < oD.length := List.idxOf_lt_length_iff.mpr H.A_memD

theorem a1_ne : oS.idxOf (oD.getD a0 0) ≠ a0 := by
  intro e
  have := getD_idxOf oS _ H.B_memS
  rw [e] at this
  exact H.mem.2.2 this
theorem a2_ne : oD.idxOf (oS.getD a0 0) ≠ a0 := by
  intro e
  have := getD_idxOf oD _ H.A_memD
  rw [e] at this
  exact H.mem.2.2 this.symm

omit H in
/-- positions other than `a0` of dimensions other than the two swapped ones -/
theorem idxS_ne (d : Nat) (hd : d ∈ oS) (hA : d ≠ oS.getD a0 0) : oS.idxOf d ≠ a0 := by
  intro e
  have := getD_idxOf oS d hd
  rw [e] at this
  exact hA this.symm
omit H in
theorem idxD_ne (d : Nat) (hd : d ∈ oD) (hB : d ≠ oD.getD a0 0) : oD.idxOf d ≠ a0 := by
  intro e
  have := getD_idxOf oD d hd
  rw [e] at this
  exact hB this.symm

variable (c : List Nat)

/-- the dimension `A` distributed on `a0` in the source: its block on this rank -/
theorem lenS_A : lenD (Layout.make np oS ext) c (oS.getD a0 0) =
    blockStart (ext.getD (oS.getD a0 0) 0) (np.getD a0 1) (c.getD a0 0 + 1)
      - blockStart (ext.getD (oS.getD a0 0) 0) (np.getD a0 1) (c.getD a0 0) := by
  rw [lenD_make np oS ext c _ H.A_memS, H.idxOf_A]
theorem startS_A : startD (Layout.make np oS ext) c (oS.getD a0 0) =
    blockStart (ext.getD (oS.getD a0 0) 0) (np.getD a0 1) (c.getD a0 0) := by
  rw [startD_make np oS ext c _ H.A_memS, H.idxOf_A]
theorem lenD_B : lenD (Layout.make np oD ext) c (oD.getD a0 0) =
    blockStart (ext.getD (oD.getD a0 0) 0) (np.getD a0 1) (c.getD a0 0 + 1)
      - blockStart (ext.getD (oD.getD a0 0) 0) (np.getD a0 1) (c.getD a0 0) := by
  rw [lenD_make np oD ext c _ H.B_memD, H.idxOf_B]
theorem startD_B : startD (Layout.make np oD ext) c (oD.getD a0 0) =
    blockStart (ext.getD (oD.getD a0 0) 0) (np.getD a0 1) (c.getD a0 0) := by
  rw [startD_make np oD ext c _ H.B_memD, H.idxOf_B]

variable (hc : CoordsOK np c)
include hc

/-- the dimension `B` that becomes distributed is stored whole in the source -/
theorem wholeS_B : lenD (Layout.make np oS ext) c (oD.getD a0 0) = ext.getD (oD.getD a0 0) 0 ∧
    startD (Layout.make np oS ext) c (oD.getD a0 0) = 0 := by
  apply whole_of_procs_one np oS ext c hc _ H.B_memS
  apply procs_one_of_not_diff np oS oD H.hpos _ (H.not_diff _ H.a1_ne)
  rw [getD_idxOf oS _ H.B_memS]
  intro e
  -- oD holds B at position a1 as well as at a0
  have hlt : oS.idxOf (oD.getD a0 0) < oD.length := by rw [← H.pair.2.2]; exact H.a1_lt
  rw [getD_lt oD _ hlt 0] at e
  have h1 := H.ndD.idxOf_getElem _ hlt
  rw [← e, H.idxOf_B] at h1
  exact H.a1_ne h1.symm

/-- the dimension `A` that was distributed is stored whole in the destination -/
theorem wholeD_A : lenD (Layout.make np oD ext) c (oS.getD a0 0) = ext.getD (oS.getD a0 0) 0 ∧
    startD (Layout.make np oD ext) c (oS.getD a0 0) = 0 := by
  apply whole_of_procs_one np oD ext c hc _ H.A_memD
  apply procs_one_of_not_diff np oS oD H.hpos _ (H.not_diff _ H.a2_ne)
  rw [getD_idxOf oD _ H.A_memD]
  intro e
  have hlt : oD.idxOf (oS.getD a0 0) < oS.length := by rw [H.pair.2.2]; exact H.a2_lt
  rw [getD_lt oS _ hlt 0] at e
  have h1 := H.ndS.idxOf_getElem _ hlt
  rw [e, H.idxOf_A] at h1
  exact H.a2_ne h1.symm

/-- all other dimensions are stored identically in both layouts -/
theorem other (d : Nat) (hd : d ∈ oS) (hA : d ≠ oS.getD a0 0) (hB : d ≠ oD.getD a0 0) :
    lenD (Layout.make np oS ext) c d = lenD (Layout.make np oD ext) c d ∧
    startD (Layout.make np oS ext) c d = startD (Layout.make np oD ext) c d := by
  have hdD : d ∈ oD := (H.perm.mem_iff).mpr hd
  exact same_of_not_diff np oS oD ext c H.hpos hc H.ndS H.ndD H.pair.2.2 d hd hdD
    (H.not_diff _ (Comm.idxS_ne d hd hA)) (H.not_diff _ (Comm.idxD_ne d hdD hB))

end Comm

/-! ### tables of the layouts -/

theorem maxShape_getD (L : Layout) (i : Nat) (hi : i < L.ndims) :
    L.maxShape.getD i 0 = maxBlock (L.extAt i) (L.procsAt i) := by
  unfold Layout.maxShape
  rw [getD_lt _ i (by simpa using hi) 0, List.getElem_map, List.getElem_range]

theorem mpi_zip (L : Layout) (i : Nat) :
    (L.mpiLengthsAt i).zip (L.mpiStartsAt i) =
      (List.range (L.procsAt i)).map (fun k => (blockLen (L.extAt i) (L.procsAt i) k, blockStart (L.extAt i) (L.procsAt i) k)) := by
  unfold Layout.mpiLengthsAt Layout.mpiStartsAt mpiLengths mpiStarts
  exact List.zip_map'

theorem mpiLengths_getD (L : Layout) (i k : Nat) (hk : k < L.procsAt i) :
    (L.mpiLengthsAt i).getD k 0 = blockLen (L.extAt i) (L.procsAt i) k := by
  unfold Layout.mpiLengthsAt mpiLengths
  rw [getD_lt _ k (by simpa using hk) 0, List.getElem_map, List.getElem_range]

theorem mpiStarts_getD (L : Layout) (i k : Nat) (hk : k < L.procsAt i) :
    (L.mpiStartsAt i).getD k 0 = blockStart (L.extAt i) (L.procsAt i) k := by
  unfold Layout.mpiStartsAt mpiStarts
  rw [getD_lt _ k (by simpa using hk) 0, List.getElem_map, List.getElem_range]

end PygyroVerif.DS
