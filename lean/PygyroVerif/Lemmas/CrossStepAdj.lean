/-
Bridge theorem of C03, part 10: direct connections of an accepted swapper.
* `Accepted`: the constructor of the swapper and the constructors of its handlers accepted their layouts;
* a direct connection (`Adj S.connections a b`) is an accepted pair; its stored route is the single step `[b]`
  (shortest-route property of `_makeConnectionMap`);
* the constructor's `bufferSize` covers every direct connection: `CrossConn` / `ConnB` with `B = S.bufferSize`.
-/
import PygyroVerif.Lemmas.CrossStepBuffer
import PygyroVerif.Lemmas.RouteDet
import PygyroVerif.Props.C01

namespace PygyroVerif.CS
open PygyroVerif PygyroVerif.Handler PygyroVerif.DS PygyroVerif.Swapper PygyroVerif.BufferSize
open PygyroVerif.RouteValid PygyroVerif.RouteDet PygyroVerif.Route PygyroVerif.SwapperTraceMatch

/-! ### stored routes of direct connections -/

/-- the route `_makeConnectionMap` stores between two directly connected layouts is the direct step -/
theorem adj_route_single (names : List String) (conn : List (List Nat)) (order : List Nat)
    (hc : ConnOK conn names.length) (hn : names.length ≠ 1) (hord : ∀ x, x < names.length → x ∈ order)
    (a b : Nat) (ha : a < names.length) (hab : Adj conn a b) :
    (routeMap names conn order).1.r a b = [b] := by
  have hset := routeMap_settled names conn order hc hn hord
  have hinv := hset.inv
  obtain ⟨hb, hba⟩ := hc.sym a b ha hab
  have hne : a ≠ b := fun e => hc.irr a (e ▸ hab)
  have hd : (routeMap names conn order).1.d a b ≤ 1 := by
    rcases Nat.lt_or_ge b a with hlt | hge
    · exact (hset.done a b ha hb ha (Or.inl hlt)).1 [b] ⟨hab, trivial⟩ rfl
    · have hlt : a < b := by omega
      have := (hset.done b a hb ha hb (Or.inl hlt)).1 [a] ⟨hba, trivial⟩ rfl
      rw [hinv.sym a b]; exact this
  obtain ⟨⟨hrne, _, hlast⟩, hlen⟩ := hinv.fin a b (by omega)
  generalize (routeMap names conn order).1.r a b = route at hrne hlast hlen
  match route, hrne, hlast, hlen with
  | [x], _, hlast, _ => rw [show x = b from hlast]
  | x :: y :: rest, _, _, hlen => simp only [List.length_cons] at hlen; omega

/-! ### accepted swappers -/

/-- the constructor of the swapper and those of its handlers accepted the layouts; `order`, `ordH h` are the iteration
    orders of Python's sets of layout names (tie-break oracles of `_makeConnectionMap`) -/
structure Accepted (S : Swapper) (order : List Nat) (ordH : Nat → List Nat) : Prop where
  ok : SwapperOK S
  /-- `LayoutSwapper.__init__` did not raise "Not all layouts could not be connected" -/
  full : (S.routes order).2 = true
  /-- nor did any `LayoutHandler.__init__` -/
  hfull : ∀ h, h < S.groups.length → ((S.handler h).routes (ordH h)).2 = true
  ord : ∀ x, x < S.allNames.length → x ∈ order
  ordH : ∀ h, h < S.groups.length → ∀ x, x < (S.handler h).names.length → x ∈ ordH h

theorem handler_names_length (S : Swapper) (h : Nat) : (S.handler h).names.length = (S.groups.getD h []).length := by
  unfold Swapper.handler; simp

theorem handler_wellFormed (S : Swapper) (hS : SwapperOK S) (h : Nat) (hh : h < S.groups.length) :
    WellFormed (S.handler h) := by
  obtain ⟨axes, hax⟩ := hS.comm h
  refine ⟨?_, ?_, ?_⟩
  · intro i hi
    have hi' : i < (S.groups.getD h []).length := by rw [← handler_names_length]; exact hi
    have hg : S.groups.getD h [] ∈ S.groups := by
      rw [List.getD_eq_getElem?_getD, List.getElem?_eq_getElem hh, Option.getD_some]; exact List.getElem_mem hh
    have hp := hS.2.1 _ hg _ (List.getElem_mem hi')
    show ((S.ordersOf h).getD i []).Perm (List.range S.ext.length)
    unfold Swapper.ordersOf
    have : ((S.groups.getD h []).map (·.2)).getD i [] = ((S.groups.getD h [])[i]'hi').2 := by
      rw [List.getD_eq_getElem?_getD, List.getElem?_eq_getElem (by rw [List.length_map]; exact hi'), Option.getD_some,
        List.getElem_map]
    rw [this]; exact hp
  · exact Nat.le_trans (handlerNprocs_length_le S h) hS.2.2.1
  · intro p hp
    have e : (S.handler h).nprocs = S.handlerNprocs h := rfl
    rw [e, nprocs_eq_map S h axes (axesOK_of_commAxes S h axes hax)] at hp
    obtain ⟨a, _, rfl⟩ := List.mem_map.mp hp
    exact dims_pos S hS a

/-- every block of every layout of an accepted handler fits in the swapper's buffer -/
theorem block_le_bufferSize (S : Swapper) (order : List Nat) (ordH : Nat → List Nat) (hA : Accepted S order ordH)
    (k : Nat) (hk : k < S.allNames.length) (r : Nat) :
    ((S.layoutOf k).shape ((S.topo (S.locate k).1).coords r)).prod ≤ S.bufferSize r := by
  obtain ⟨h1, h2⟩ := locate_spec S k hk
  have hj : (S.locate k).2 < (S.handler (S.locate k).1).nLayouts := by
    show _ < (S.handler (S.locate k).1).names.length
    rw [handler_names_length]; exact h2
  have := size_le_bufferSize (S.handler (S.locate k).1) (handler_wellFormed S hA.ok _ h1)
    ((S.topo (S.locate k).1).coords r) (S.locate k).2 hj
    (fun h0 => connections_ne_nil_of_accepted _ (ordH (S.locate k).1) (hA.hfull _ h1) _ h0 hj)
  rw [size_eq_prod] at this
  exact Nat.le_trans this (handler_bufferSize_le S r _ h1)

/-! ### `locate` is injective -/

theorem locate_go_inv : ∀ (gs : List (List (String × List Nat))) (i k : Nat),
    k < (gs.flatMap (fun g => g.map (·.1))).length →
    k = ((gs.take ((Swapper.locate.go gs i k).1 - i)).map List.length).sum + (Swapper.locate.go gs i k).2
  | [], _, _, h => by simp at h
  | g :: rest, i, k, h => by
    unfold Swapper.locate.go
    by_cases hk : k < g.length
    · rw [if_pos hk]; simp
    · rw [if_neg hk]
      have h' : k - g.length < (rest.flatMap (fun g => g.map (·.1))).length := by
        simp only [List.flatMap_cons, List.length_append, List.length_map] at h
        omega
      have ih := locate_go_inv rest (i + 1) (k - g.length) h'
      have hle := (locate_go_spec rest (i + 1) (k - g.length) h').1
      have : (Swapper.locate.go rest (i + 1) (k - g.length)).1 - i =
          ((Swapper.locate.go rest (i + 1) (k - g.length)).1 - (i + 1)) + 1 := by omega
      rw [this, List.take_succ_cons, List.map_cons, List.sum_cons]
      omega

theorem locate_inj (S : Swapper) (a b : Nat) (ha : a < S.allNames.length) (hb : b < S.allNames.length)
    (h : S.locate a = S.locate b) : a = b := by
  have h1 := locate_go_inv S.groups 0 a ha
  have h2 := locate_go_inv S.groups 0 b hb
  have e : Swapper.locate.go S.groups 0 a = Swapper.locate.go S.groups 0 b := h
  rw [e] at h1
  omega

theorem compat_same (S : Swapper) (a b : Nat) (hh : (S.locate a).1 = (S.locate b).1) :
    S.compatibleLayout a b = compatible (S.handlerNprocs (S.locate a).1)
      ((S.ordersOf (S.locate a).1).getD (S.locate a).2 []) ((S.ordersOf (S.locate a).1).getD (S.locate b).2 []) := by
  unfold Swapper.compatibleLayout Swapper.compatibleLayoutF
  simp only []
  rw [if_pos hh]

/-! ### direct connections -/

theorem adj_spec (S : Swapper) (a b : Nat) (ha : a < S.allNames.length) :
    Adj S.connections a b ↔ b < S.allNames.length ∧ b ≠ a ∧ S.compatibleLayout (max a b) (min a b) = true := by
  unfold Adj nbrs Swapper.connections connectionsOf
  simp only [List.getD_eq_getElem?_getD, List.getElem?_map, List.getElem?_range ha, Option.map_some,
    Option.getD_some, List.mem_filter, List.mem_range, Bool.and_eq_true, decide_eq_true_eq]

theorem adj_acc (S : Swapper) (a b : Nat) (ha : a < S.allNames.length) (hab : Adj S.connections a b) :
    S.compatibleLayout a b = true ∨ S.compatibleLayout b a = true := by
  obtain ⟨_, _, hc⟩ := (adj_spec S a b ha).mp hab
  rcases Nat.le_total a b with h | h
  · rw [Nat.max_eq_right h, Nat.min_eq_left h] at hc; exact Or.inr hc
  · rw [Nat.max_eq_left h, Nat.min_eq_right h] at hc; exact Or.inl hc

/-- **`bufferSize` suffices for cross steps**: a direct connection between layouts of different handlers is a
    `CrossConn` for `B = S.bufferSize` -/
theorem crossConn_of_adj (S : Swapper) (order : List Nat) (ordH : Nat → List Nat) (hA : Accepted S order ordH)
    (a b : Nat) (ha : a < S.allNames.length) (hab : Adj S.connections a b) (hh : (S.locate a).1 ≠ (S.locate b).1) :
    CrossConn S S.bufferSize a b := by
  obtain ⟨hb, _, hc⟩ := (adj_spec S a b ha).mp hab
  refine ⟨ha, hb, hh, adj_acc S a b ha hab, ?_⟩
  intro r _
  rw [crossNeed_eq]
  apply Nat.max_le.mpr
  refine ⟨block_le_bufferSize S order ordH hA b hb r, ?_⟩
  split
  · rename_i hnd
    exact gatherTerm_le_bufferSize S a b ha hb hc hh hnd r
  · exact Nat.zero_le _

/-- a direct connection inside one handler is a `ConnB` of that handler for `B = S.bufferSize` -/
theorem connB_of_adj (S : Swapper) (order : List Nat) (ordH : Nat → List Nat) (hA : Accepted S order ordH)
    (hlay : ∀ h, h < S.groups.length → ∀ i, i < (S.handler h).names.length →
      LayoutOK (S.handlerNprocs h) ((S.ordersOf h).getD i []) S.ext)
    (a b : Nat) (ha : a < S.allNames.length) (hab : Adj S.connections a b) (hh : (S.locate a).1 = (S.locate b).1) :
    ConnB (S.handler (S.locate a).1) (S.topo (S.locate a).1) S.bufferSize (S.locate a).2 (S.locate b).2 ∧
    (S.locate a).2 ≠ (S.locate b).2 := by
  obtain ⟨hb, hne, _⟩ := (adj_spec S a b ha).mp hab
  obtain ⟨a1, a2⟩ := locate_spec S a ha
  obtain ⟨b1, b2⟩ := locate_spec S b hb
  have ja : (S.locate a).2 < (S.handler (S.locate a).1).names.length := by rw [handler_names_length]; exact a2
  have jb : (S.locate b).2 < (S.handler (S.locate a).1).names.length := by rw [handler_names_length, hh]; exact b2
  obtain ⟨axes, hax⟩ := hA.ok.comm (S.locate a).1
  -- `_compatibleLayout` inside one handler is the handler's `compatible`
  have hcomp : compatible (S.handlerNprocs (S.locate a).1) ((S.ordersOf (S.locate a).1).getD (S.locate a).2 [])
      ((S.ordersOf (S.locate a).1).getD (S.locate b).2 []) = true := by
    rcases adj_acc S a b ha hab with hc | hc
    · rw [compat_same S a b hh] at hc; exact hc
    · rw [compat_same S b a hh.symm, compatible_symm, ← hh] at hc; exact hc
  have hjne : (S.locate a).2 ≠ (S.locate b).2 := by
    intro e
    apply hne
    exact locate_inj S b a hb ha (Prod.ext hh.symm e.symm)
  refine ⟨⟨⟨hlay _ a1 _ ja, hlay _ a1 _ jb, ?_⟩, hcomp, ?_⟩, hjne⟩
  · show ((S.ordersOf (S.locate a).1).getD (S.locate a).2 []).length =
      ((S.ordersOf (S.locate a).1).getD (S.locate b).2 []).length
    rw [← (hlay _ a1 _ ja).2.1, ← (hlay _ a1 _ jb).2.1]
  · intro r hr
    have hr' : r < prodL S.dims := hr
    have hcm : compatible (S.handler (S.locate a).1).nprocs
        ((S.handler (S.locate a).1).orders.getD (max (S.locate a).2 (S.locate b).2) [])
        ((S.handler (S.locate a).1).orders.getD (min (S.locate a).2 (S.locate b).2) []) = true := by
      rcases Nat.le_total (S.locate a).2 (S.locate b).2 with hle | hle
      · rw [Nat.max_eq_right hle, Nat.min_eq_left hle, compatible_symm]; exact hcomp
      · rw [Nat.max_eq_left hle, Nat.min_eq_right hle]; exact hcomp
    exact Nat.le_trans
      (DS.bufferSize_suffices (S.handler (S.locate a).1) _ (topo_coords_ok S _ axes hax r hr') (hlay _ a1) _ _ ja jb
        hjne hcm)
      (handler_bufferSize_le S r _ a1)

end PygyroVerif.CS
