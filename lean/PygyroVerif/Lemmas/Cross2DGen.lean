/-
Loop lemmas for Props/C07Gen6.lean: the GENERATED `nu_eval_spline_2d_cross` / `cu_eval_spline_2d_cross` (Generated/Cross2DGen.lean, regenerated
from pygyro/splines/spline_eval_funcs.py and cubic_uniform_spline_eval_funcs.py on every run of `./check C07`).

The source has FOUR copies of the same four nested loops (one per `(der1, der2)` branch), differing only in the basis kernel that is called.  The
lemmas below are therefore stated once, for ANY four functions `I J K L : ℕ → ℕ → St → Res St` that satisfy the recursion equations of the
generated loops (`IsL`, `IsK`: the equations, copied from the generated file; `IsJ`, `IsI`: one iteration on the path on which no callee
raises, with the kernel call abstracted as `krun` / `kget`); Props/C07Gen6.lean instantiates them with the sixteen generated loops, each
instance being checked by unfolding the generated definition (so a changed statement in any copy of the source breaks the instance).

  * `l_loop_eq`  `for l in range(1, deg2+1): theCoeffs[k, 0] += theCoeffs[k, l]*basis2[l]`
  * `k_loop_eq`  `for k in range(deg1+1):` … `z[i, j] += theCoeffs[k, 0]*basis1[k]`: `z[i, j]` grows by the double sum over the block as it was
                 before the loop; nothing else of `z` changes
  * `j_loop_eq`  `for j, y in enumerate(Y)`: span search, kernel, slice copy (numpy's shape check), `z[i, j] = 0.0`, contraction
  * `i_loop_eq`  `for i, x in enumerate(X)`
-/
import PygyroVerif.Generated.Cross2DGen
import PygyroVerif.Props.C07Gen5

namespace PygyroVerif.Cross2DGen
open PygyroVerif PygyroVerif.BSpline PygyroVerif.C07Gen5

/-- `Z[i, j] = v` -/
def set2 (Z : ℕ → ℕ → ℚ) (i j : ℕ) (v : ℚ) : ℕ → ℕ → ℚ := fun a b => if a = i ∧ b = j then v else Z a b

theorem set2_self (Z : ℕ → ℕ → ℚ) (i j : ℕ) (v : ℚ) : set2 Z i j v i j = v := if_pos ⟨rfl, rfl⟩
theorem set2_other (Z : ℕ → ℕ → ℚ) (i j : ℕ) (v : ℚ) (a b : ℕ) (h : ¬ (a = i ∧ b = j)) : set2 Z i j v a b = Z a b := if_neg h
theorem set2_set2 (Z : ℕ → ℕ → ℚ) (i j : ℕ) (v w : ℚ) : set2 (set2 Z i j v) i j w = set2 Z i j w := by
  funext a b
  unfold set2
  by_cases h : a = i ∧ b = j
  · rw [if_pos h, if_pos h]
  · rw [if_neg h, if_neg h, if_neg h]

/-- the block copied from `coeffs` by `theCoeffs[:, :] = coeffs[s1-d1:s1+1, s2-d2:s2+1]` (as the translation writes it), contracted with the two
    basis arrays row by row, is the double sum `blockSum` -/
theorem slice_sum (c T0 : ℕ → ℕ → ℚ) (s1 d1 s2 d2 n0 n1 : ℕ) (b1 b2 : ℕ → ℚ) (hs1 : d1 ≤ s1) (hs2 : d2 ≤ s2)
    (hn0 : n0 = d1 + 1) (hn1 : n1 = d2 + 1) :
    ((List.range (d1 + 1)).map (fun m => rowDot (fun k_ l_ => if k_ < n0 ∧ l_ < n1 then
        c ((s1 - d1) + (if ((s1 + 1) - (s1 - d1)) = 1 then 0 else k_)) ((s2 - d2) + (if ((s2 + 1) - (s2 - d2)) = 1 then 0 else l_))
        else T0 k_ l_) b2 (0 + m) (d2 + 1) * b1 (0 + m))).sum = blockSum c (s1 - d1) (s2 - d2) d1 d2 b1 b2 := by
  subst hn0 hn1
  unfold blockSum
  congr 1
  apply List.map_congr_left
  intro i hi
  rw [List.mem_range] at hi
  simp only [Nat.zero_add]
  congr 1
  unfold rowDot
  congr 1
  apply List.map_congr_left
  intro j hj
  rw [List.mem_range] at hj
  have hi' : (if s1 + 1 - (s1 - d1) = 1 then 0 else i) = i := by
    split
    · omega
    · rfl
  have hj' : (if s2 + 1 - (s2 - d2) = 1 then 0 else j) = j := by
    split
    · omega
    · rfl
  show (if i < d1 + 1 ∧ j < d2 + 1 then _ else _) * _ = _
  rw [if_pos ⟨hi, hj⟩, hi', hj']

/-! ## `nu_eval_spline_2d_cross` -/
section Nu
open PygyroVerif.Gen.BasisFuns PygyroVerif.Gen.EvalSpline PygyroVerif.Gen.Cross2DNu
open PygyroVerif.Gen.Cross2DNu.nu_eval_spline_2d_cross_

abbrev Loop := ℕ → ℕ → St → Res St

/-- body of `for l in range(1, deg2+1)` (copied from the generated file) -/
def lBody (σ : St) (i : ℕ) : St :=
  let σ : St := { σ with l := i }
  { σ with theCoeffs := fun k_ l_ => if k_ = σ.k ∧ l_ = (0 : Nat) then ((σ.theCoeffs σ.k (0 : Nat)) + ((σ.theCoeffs σ.k σ.l) * (σ.basis2 σ.l))) else σ.theCoeffs k_ l_ }

structure IsL (L : Loop) : Prop where
  zero : ∀ i σ, L 0 i σ = .ok σ
  succ : ∀ n i σ, L (n + 1) i σ = L n (i + 1) (lBody σ i)

theorem l_loop_eq {L : Loop} (hL : IsL L) : ∀ (n j0 : ℕ) (σ : St), 1 ≤ j0 →
    ∃ J, L n j0 σ = .ok { σ with l := J, theCoeffs := setCol0 σ.theCoeffs σ.k (σ.theCoeffs σ.k 0 + prodSum σ.theCoeffs σ.basis2 σ.k j0 n) } := by
  intro n
  induction n with
  | zero =>
    intro j0 σ _
    refine ⟨σ.l, ?_⟩
    rw [hL.zero]
    have h : setCol0 σ.theCoeffs σ.k (σ.theCoeffs σ.k 0 + prodSum σ.theCoeffs σ.basis2 σ.k j0 0) = σ.theCoeffs := by
      funext a b
      unfold setCol0
      by_cases h : a = σ.k ∧ b = 0
      · rw [if_pos h, h.1, h.2]; simp [prodSum]
      · rw [if_neg h]
    rw [h]
  | succ n ih =>
    intro j0 σ hj
    obtain ⟨J, hrun⟩ := ih (j0 + 1) (lBody σ j0) (by omega)
    refine ⟨J, ?_⟩
    rw [hL.succ, hrun]
    congr 1
    show ({ σ with l := J, theCoeffs := setCol0 (lBody σ j0).theCoeffs σ.k ((lBody σ j0).theCoeffs σ.k 0 + prodSum (lBody σ j0).theCoeffs σ.basis2 σ.k (j0 + 1) n) } : St) = _
    congr 1
    have h0 : (lBody σ j0).theCoeffs σ.k 0 = σ.theCoeffs σ.k 0 + σ.theCoeffs σ.k j0 * σ.basis2 j0 := setCol0_self _ _ _
    have hrd : ∀ m, (lBody σ j0).theCoeffs σ.k (j0 + 1 + m) = σ.theCoeffs σ.k (j0 + 1 + m) := fun m => setCol0_col _ _ _ _ _ (by omega)
    show setCol0 (setCol0 σ.theCoeffs σ.k _) σ.k _ = _
    unfold prodSum
    rw [setCol0_setCol0, h0, List.range_succ_eq_map]
    simp only [List.map_cons, List.sum_cons, List.map_map, Nat.add_zero, hrd]
    congr 1
    have : ((fun m => σ.theCoeffs σ.k (j0 + m) * σ.basis2 (j0 + m)) ∘ Nat.succ)
        = (fun m => σ.theCoeffs σ.k (j0 + 1 + m) * σ.basis2 (j0 + 1 + m)) := by
      funext m
      simp only [Function.comp, Nat.succ_eq_add_one]
      rw [show j0 + (m + 1) = j0 + 1 + m by omega]
    rw [this]
    ring

/-- `for k in range(deg1+1)`: the statements before the inner loop … -/
def kPre (σ : St) (i : ℕ) : St :=
  let σ : St := { σ with k := i }
  { σ with theCoeffs := fun k_ l_ => if k_ = σ.k ∧ l_ = (0 : Nat) then ((σ.theCoeffs σ.k (0 : Nat)) * (σ.basis2 (0 : Nat))) else σ.theCoeffs k_ l_ }
/-- … and after it -/
def kPost (σ : St) : St :=
  { σ with z := fun k_ l_ => if k_ = σ.i ∧ l_ = σ.j then ((σ.z σ.i σ.j) + ((σ.theCoeffs σ.k (0 : Nat)) * (σ.basis1 σ.k))) else σ.z k_ l_ }

structure IsK (K L : Loop) : Prop where
  zero : ∀ i σ, K 0 i σ = .ok σ
  succ : ∀ n i σ, K (n + 1) i σ =
    match L (((kPre σ i).deg2 + (1 : Nat)) - (1 : Nat)) (1 : Nat) (kPre σ i) with
    | .ok σ => K n (i + 1) (kPost σ)
    | .done o => .done o

theorem k_loop_eq {K L : Loop} (hK : IsK K L) (hL : IsL L) : ∀ (n i0 : ℕ) (σ : St),
    ∃ K' L' T', K n i0 σ = .ok { σ with k := K', l := L', theCoeffs := T', z := (set2 σ.z σ.i σ.j
      (σ.z σ.i σ.j + ((List.range n).map (fun m => rowDot σ.theCoeffs σ.basis2 (i0 + m) (σ.deg2 + 1) * σ.basis1 (i0 + m))).sum)) } := by
  intro n
  induction n with
  | zero =>
    intro i0 σ
    refine ⟨σ.k, σ.l, σ.theCoeffs, ?_⟩
    rw [hK.zero]
    have h : set2 σ.z σ.i σ.j (σ.z σ.i σ.j + ((List.range 0).map (fun m => rowDot σ.theCoeffs σ.basis2 (i0 + m) (σ.deg2 + 1) * σ.basis1 (i0 + m))).sum) = σ.z := by
      funext a b
      unfold set2
      by_cases h : a = σ.i ∧ b = σ.j
      · rw [if_pos h, h.1, h.2]; simp
      · rw [if_neg h]
    rw [h]
  | succ n ih =>
    intro i0 σ
    obtain ⟨J, hin⟩ := l_loop_eq hL (σ.deg2 + 1 - 1) 1 (kPre σ i0) (le_refl 1)
    let T2 : ℕ → ℕ → ℚ := setCol0 (kPre σ i0).theCoeffs i0 ((kPre σ i0).theCoeffs i0 0 + prodSum (kPre σ i0).theCoeffs σ.basis2 i0 1 (σ.deg2 + 1 - 1))
    let σ2 : St := { σ with k := i0, l := J, theCoeffs := T2, z := set2 σ.z σ.i σ.j (σ.z σ.i σ.j + T2 i0 0 * σ.basis1 i0) }
    obtain ⟨K', L', T', hrun⟩ := ih (i0 + 1) σ2
    refine ⟨K', L', T', ?_⟩
    rw [hK.succ]
    have hin' : L ((kPre σ i0).deg2 + 1 - 1) 1 (kPre σ i0) = .ok { kPre σ i0 with l := J, theCoeffs := T2 } := hin
    rw [hin']
    show K n (i0 + 1) σ2 = _
    rw [hrun]
    congr 1
    show ({ σ with k := K', l := L', theCoeffs := T', z := set2 (set2 σ.z σ.i σ.j _) σ.i σ.j (set2 σ.z σ.i σ.j _ σ.i σ.j + _) } : St) = _
    congr 1
    rw [set2_set2, set2_self]
    congr 1
    rw [List.range_succ_eq_map]
    simp only [List.map_cons, List.sum_cons, List.map_map, Nat.add_zero]
    have hT2 : T2 i0 0 = rowDot σ.theCoeffs σ.basis2 i0 (σ.deg2 + 1) := by
      show setCol0 _ i0 _ i0 0 = _
      rw [setCol0_self]
      have h0 : (kPre σ i0).theCoeffs i0 0 = σ.theCoeffs i0 0 * σ.basis2 0 := setCol0_self _ _ _
      have hps : prodSum (kPre σ i0).theCoeffs σ.basis2 i0 1 (σ.deg2 + 1 - 1) = prodSum σ.theCoeffs σ.basis2 i0 1 (σ.deg2 + 1 - 1) := by
        unfold prodSum
        congr 1
        apply List.map_congr_left
        intro m _
        rw [show (kPre σ i0).theCoeffs i0 (1 + m) = σ.theCoeffs i0 (1 + m) from setCol0_col _ _ _ _ _ (by omega)]
      rw [h0, hps, Nat.add_sub_cancel, rowDot_succ]
    have hrows : ∀ m, rowDot T2 σ.basis2 (i0 + 1 + m) (σ.deg2 + 1) = rowDot σ.theCoeffs σ.basis2 (i0 + (m + 1)) (σ.deg2 + 1) := by
      intro m
      rw [show i0 + 1 + m = i0 + (m + 1) by omega]
      apply rowDot_congr
      intro j _
      show setCol0 (setCol0 σ.theCoeffs i0 _) i0 _ (i0 + (m + 1)) j = _
      rw [setCol0_row _ _ _ _ _ (by omega), setCol0_row _ _ _ _ _ (by omega)]
    show σ.z σ.i σ.j + T2 i0 0 * σ.basis1 i0 + ((List.range n).map (fun m => rowDot T2 σ.basis2 (i0 + 1 + m) (σ.deg2 + 1) * σ.basis1 (i0 + 1 + m))).sum = _
    rw [hT2]
    have : ((fun m => rowDot σ.theCoeffs σ.basis2 (i0 + m) (σ.deg2 + 1) * σ.basis1 (i0 + m)) ∘ Nat.succ)
        = (fun m => rowDot T2 σ.basis2 (i0 + 1 + m) (σ.deg2 + 1) * σ.basis1 (i0 + 1 + m)) := by
      funext m
      simp only [Function.comp, Nat.succ_eq_add_one]
      rw [hrows m, show i0 + 1 + m = i0 + (m + 1) by omega]
    rw [this]
    ring

variable (U : ℕ → ℚ) (F : ℕ)

/-- one iteration of a loop `for j, y in enumerate(Y)` of the generated file on the path on which nothing raises, the basis kernel of direction 2
    abstracted as `krun` (the call, a function of the locals) / `kget` (the array it leaves): span search, kernel, numpy's shape check of
    `theCoeffs[:, :] = coeffs[span1-deg1:span1+1, span2-deg2:span2+1]`, the copy, `z[i, j] = 0.0`, the loop over the rows, next iteration
    (each instance is proved by unfolding the generated loop: Props/C07Gen6.lean) -/
structure IsJ {KS : Type} (krun : St → Out KS) (kget : KS → ℕ → ℚ) (J K : Loop) : Prop where
  zero : ∀ i σ, J 0 i σ = .ok σ
  step : ∀ n i σ τ β σ', nu_find_span_.run U F σ.kts2 σ.kts2_len σ.deg2 (σ.Y i) = .ret τ →
    krun { σ with j := i, y := σ.Y i, span2 := τ.ret_ } = .ret β →
    ((σ.span1 + 1 - (σ.span1 - σ.deg1) = σ.theCoeffs_len0 ∨ σ.span1 + 1 - (σ.span1 - σ.deg1) = 1) ∧
      (τ.ret_ + 1 - (τ.ret_ - σ.deg2) = σ.theCoeffs_len1 ∨ τ.ret_ + 1 - (τ.ret_ - σ.deg2) = 1)) →
    K (σ.deg1 + 1 - 0) 0 { σ with j := i, y := σ.Y i, span2 := τ.ret_, basis2 := kget β, theCoeffs := (fun k_ l_ => if k_ < σ.theCoeffs_len0 ∧ l_ < σ.theCoeffs_len1 then σ.coeffs ((σ.span1 - σ.deg1) + (if σ.span1 + 1 - (σ.span1 - σ.deg1) = 1 then 0 else k_)) ((τ.ret_ - σ.deg2) + (if τ.ret_ + 1 - (τ.ret_ - σ.deg2) = 1 then 0 else l_)) else σ.theCoeffs k_ l_), z := (fun k_ l_ => if k_ = σ.i ∧ l_ = i then (0 : Rat) else σ.z k_ l_) } = .ok σ' →
    J (n + 1) i σ = J n (i + 1) σ'

/-- the value row `i` of the table receives in column `b`, in terms of what `basis1` holds -/
def rowVal (σ : St) (der2 : Bool) (s2 : ℕ → ℕ) (b : ℕ) : ℚ :=
  blockSum σ.coeffs (σ.span1 - σ.deg1) (s2 b - σ.deg2) σ.deg1 σ.deg2 σ.basis1 (fun m => (basisOrDer σ.kts2 σ.deg2 (σ.Y b) (s2 b) der2).getD m 0)

/-- `for j, y in enumerate(Y)` started at `j0` with `n` iterations left, inside iteration `i` of the loop over `X`: whenever the span search returns
    `s2 b ≥ deg2` at the points `Y[j0 .. j0+n)` (and `deg1 ≤ span1`: numpy's shape check passes), the loop ends normally, `z[i, j0 .. j0+n)` receive
    the double sums and NOTHING else changes except the scratch locals `j, y, span2, basis2, k, l, theCoeffs` — whatever `basis2`, `theCoeffs` hold on entry -/
theorem j_loop_eq {KS : Type} {krun : St → Out KS} {kget : KS → ℕ → ℚ} {J K L : Loop} (hJ : IsJ U F krun kget J K) (hK : IsK K L) (hL : IsL L)
    (der2 : Bool) (s2 : ℕ → ℕ)
    (hk : ∀ σ' : St, ∃ β, krun σ' = .ret β ∧ ∀ m, m ≤ σ'.deg2 → kget β m = (basisOrDer σ'.kts2 σ'.deg2 σ'.y σ'.span2 der2).getD m 0) :
    ∀ (n j0 : ℕ) (σ : St), σ.deg1 ≤ σ.span1 → σ.theCoeffs_len0 = σ.deg1 + 1 → σ.theCoeffs_len1 = σ.deg2 + 1 →
    (∀ b, j0 ≤ b → b < j0 + n → ∃ τ, nu_find_span_.run U F σ.kts2 σ.kts2_len σ.deg2 (σ.Y b) = .ret τ ∧ τ.ret_ = s2 b ∧ σ.deg2 ≤ s2 b) →
    ∃ J' y' sp2 B2 K' L' T', J n j0 σ = .ok { σ with j := J', y := y', span2 := sp2, basis2 := B2, k := K', l := L', theCoeffs := T', z := (fun a b => if a = σ.i ∧ j0 ≤ b ∧ b < j0 + n then rowVal σ der2 s2 b else σ.z a b) } := by
  intro n
  induction n with
  | zero =>
    intro j0 σ _ _ _ _
    refine ⟨σ.j, σ.y, σ.span2, σ.basis2, σ.k, σ.l, σ.theCoeffs, ?_⟩
    rw [hJ.zero]
    have h : (fun a b => if a = σ.i ∧ j0 ≤ b ∧ b < j0 + 0 then rowVal σ der2 s2 b else σ.z a b) = σ.z := by
      funext a b
      rw [if_neg (by omega)]
    rw [h]
  | succ n ih =>
    intro j0 σ hs1 hl0 hl1 hfs
    obtain ⟨τ, hτ, hs, hd⟩ := hfs j0 (le_refl j0) (by omega)
    obtain ⟨β, hβ, hval⟩ := hk { σ with j := j0, y := σ.Y j0, span2 := τ.ret_ }
    -- the state when the contraction starts
    let Tc : ℕ → ℕ → ℚ := fun k_ l_ => if k_ < σ.theCoeffs_len0 ∧ l_ < σ.theCoeffs_len1 then σ.coeffs ((σ.span1 - σ.deg1) + (if ((σ.span1 + 1) - (σ.span1 - σ.deg1)) = 1 then 0 else k_)) ((τ.ret_ - σ.deg2) + (if ((τ.ret_ + 1) - (τ.ret_ - σ.deg2)) = 1 then 0 else l_)) else σ.theCoeffs k_ l_
    let σc : St := { σ with j := j0, y := σ.Y j0, span2 := τ.ret_, basis2 := kget β, theCoeffs := Tc, z := set2 σ.z σ.i j0 0 }
    obtain ⟨K', L', T', hkl⟩ := k_loop_eq hK hL (σ.deg1 + 1 - 0) 0 σc
    -- the state after it
    let v : ℚ := (0 : ℚ) + ((List.range (σ.deg1 + 1 - 0)).map (fun m => rowDot σc.theCoeffs (kget β) (0 + m) (σ.deg2 + 1) * σ.basis1 (0 + m))).sum
    let σd : St := { σc with k := K', l := L', theCoeffs := T', z := set2 σ.z σ.i j0 v }
    have hkl' : K (σ.deg1 + 1 - 0) 0 σc = .ok σd := by
      rw [hkl]
      congr 1
      show ({ σc with k := K', l := L', theCoeffs := T', z := set2 (set2 σ.z σ.i j0 0) σ.i j0 (set2 σ.z σ.i j0 0 σ.i j0 + _) } : St) = _
      rw [set2_set2, set2_self]
    obtain ⟨J', y', sp2, B2, K'', L'', T'', hrun⟩ := ih (j0 + 1) σd hs1 hl0 hl1 (fun b h1 h2 => hfs b (by omega) (by omega))
    refine ⟨J', y', sp2, B2, K'', L'', T'', ?_⟩
    have hc : ((σ.span1 + 1 - (σ.span1 - σ.deg1) = σ.theCoeffs_len0 ∨ σ.span1 + 1 - (σ.span1 - σ.deg1) = 1) ∧
        (τ.ret_ + 1 - (τ.ret_ - σ.deg2) = σ.theCoeffs_len1 ∨ τ.ret_ + 1 - (τ.ret_ - σ.deg2) = 1)) := by
      rw [hs]; exact ⟨Or.inl (by omega), Or.inl (by omega)⟩
    have hstep : J (n + 1) j0 σ = J n (j0 + 1) σd := hJ.step n j0 σ τ β σd hτ hβ hc hkl'
    rw [hstep, hrun]
    congr 1
    show ({ σ with j := J', y := y', span2 := sp2, basis2 := B2, k := K'', l := L'', theCoeffs := T'', z := (fun a b => if a = σ.i ∧ j0 + 1 ≤ b ∧ b < j0 + 1 + n then rowVal σd der2 s2 b else set2 σ.z σ.i j0 v a b) } : St) = _
    congr 1
    funext a b
    have hrv : ∀ b, rowVal σd der2 s2 b = rowVal σ der2 s2 b := fun _ => rfl
    rw [hrv]
    by_cases h1 : a = σ.i ∧ j0 + 1 ≤ b ∧ b < j0 + 1 + n
    · rw [if_pos h1, if_pos ⟨h1.1, by omega, by omega⟩]
    · rw [if_neg h1]
      by_cases h2 : a = σ.i ∧ b = j0
      · rw [if_pos ⟨h2.1, by omega, by omega⟩, h2.1, h2.2, set2_self]
        show (0 : ℚ) + _ = _
        rw [zero_add, Nat.sub_zero]
        have := slice_sum σ.coeffs σ.theCoeffs σ.span1 σ.deg1 τ.ret_ σ.deg2 σ.theCoeffs_len0 σ.theCoeffs_len1 σ.basis1 (kget β) hs1 (by omega) hl0 hl1
        rw [this]
        unfold rowVal
        rw [hs]
        exact blockSum_congr _ _ _ _ _ _ _ _ _ (fun _ _ => rfl) (fun m hm => by rw [hval m hm, hs])
      · rw [set2_other _ _ _ _ _ _ h2, if_neg (by omega)]

/-- one iteration of a loop `for i, x in enumerate(X)` of the generated file on the path on which nothing raises, the basis kernel of direction 1
    abstracted: span search, kernel, the loop over `Y`, next iteration -/
structure IsI {KS : Type} (krun : St → Out KS) (kget : KS → ℕ → ℚ) (I J : Loop) : Prop where
  zero : ∀ i σ, I 0 i σ = .ok σ
  step : ∀ n i σ τ β σ', nu_find_span_.run U F σ.kts1 σ.kts1_len σ.deg1 (σ.X i) = .ret τ →
    krun { σ with i := i, x := σ.X i, span1 := τ.ret_ } = .ret β →
    J σ.Y_len 0 { σ with i := i, x := σ.X i, span1 := τ.ret_, basis1 := kget β } = .ok σ' →
    I (n + 1) i σ = I n (i + 1) σ'

/-- the value `z[a, b]` receives: the double sum over the block of `coeffs` whose corner is `(s1 a - deg1, s2 b - deg2)` with the model's basis values / derivatives -/
def nodeVal (σ : St) (der1 der2 : Bool) (s1 s2 : ℕ → ℕ) (a b : ℕ) : ℚ :=
  blockSum σ.coeffs (s1 a - σ.deg1) (s2 b - σ.deg2) σ.deg1 σ.deg2 (fun m => (basisOrDer σ.kts1 σ.deg1 (σ.X a) (s1 a) der1).getD m 0)
    (fun m => (basisOrDer σ.kts2 σ.deg2 (σ.Y b) (s2 b) der2).getD m 0)

/-- `for i, x in enumerate(X)` started at `i0` with `n` iterations left: whenever the span searches return `s1 a ≥ deg1` on `X[i0 .. i0+n)` and `s2 b ≥ deg2` on
    all of `Y`, the loop ends normally, `z[a, b]` is `nodeVal` for `i0 ≤ a < i0+n`, `b < len(Y)`, and every other entry of `z` is what it was -/
theorem i_loop_eq {KS1 KS2 : Type} {krun1 : St → Out KS1} {kget1 : KS1 → ℕ → ℚ} {krun2 : St → Out KS2} {kget2 : KS2 → ℕ → ℚ} {I J K L : Loop}
    (hI : IsI U F krun1 kget1 I J) (hJ : IsJ U F krun2 kget2 J K) (hK : IsK K L) (hL : IsL L) (der1 der2 : Bool) (s1 s2 : ℕ → ℕ)
    (hk1 : ∀ σ' : St, ∃ β, krun1 σ' = .ret β ∧ ∀ m, m ≤ σ'.deg1 → kget1 β m = (basisOrDer σ'.kts1 σ'.deg1 σ'.x σ'.span1 der1).getD m 0)
    (hk2 : ∀ σ' : St, ∃ β, krun2 σ' = .ret β ∧ ∀ m, m ≤ σ'.deg2 → kget2 β m = (basisOrDer σ'.kts2 σ'.deg2 σ'.y σ'.span2 der2).getD m 0) :
    ∀ (n i0 : ℕ) (σ : St), σ.theCoeffs_len0 = σ.deg1 + 1 → σ.theCoeffs_len1 = σ.deg2 + 1 →
    (∀ a, i0 ≤ a → a < i0 + n → ∃ τ, nu_find_span_.run U F σ.kts1 σ.kts1_len σ.deg1 (σ.X a) = .ret τ ∧ τ.ret_ = s1 a ∧ σ.deg1 ≤ s1 a) →
    (∀ b, b < σ.Y_len → ∃ τ, nu_find_span_.run U F σ.kts2 σ.kts2_len σ.deg2 (σ.Y b) = .ret τ ∧ τ.ret_ = s2 b ∧ σ.deg2 ≤ s2 b) →
    ∃ σ', I n i0 σ = .ok σ' ∧
      ∀ a b, σ'.z a b = if (i0 ≤ a ∧ a < i0 + n) ∧ b < σ.Y_len then nodeVal σ der1 der2 s1 s2 a b else σ.z a b := by
  intro n
  induction n with
  | zero =>
    intro i0 σ _ _ _ _
    exact ⟨σ, hI.zero i0 σ, fun a b => by rw [if_neg (by omega)]⟩
  | succ n ih =>
    intro i0 σ hl0 hl1 hfs1 hfs2
    obtain ⟨τ, hτ, hs, hd⟩ := hfs1 i0 (le_refl i0) (by omega)
    obtain ⟨β, hβ, hval⟩ := hk1 { σ with i := i0, x := σ.X i0, span1 := τ.ret_ }
    let σb : St := { σ with i := i0, x := σ.X i0, span1 := τ.ret_, basis1 := kget1 β }
    obtain ⟨J', y', sp2, B2, K', L', T', hj⟩ := j_loop_eq U F hJ hK hL der2 s2 hk2 σ.Y_len 0 σb (by show σ.deg1 ≤ τ.ret_; omega) hl0 hl1
      (fun b _ h => hfs2 b (by omega))
    let σe : St := { σb with j := J', y := y', span2 := sp2, basis2 := B2, k := K', l := L', theCoeffs := T', z := (fun a b => if a = i0 ∧ 0 ≤ b ∧ b < 0 + σ.Y_len then rowVal σb der2 s2 b else σ.z a b) }
    obtain ⟨σ', hrun, hz⟩ := ih (i0 + 1) σe hl0 hl1 (fun a h1 h2 => hfs1 a (by omega) (by omega)) hfs2
    have hstep : I (n + 1) i0 σ = I n (i0 + 1) σe := hI.step n i0 σ τ β σe hτ hβ hj
    refine ⟨σ', by rw [hstep, hrun], fun a b => ?_⟩
    rw [hz a b]
    show (if (i0 + 1 ≤ a ∧ a < i0 + 1 + n) ∧ b < σ.Y_len then nodeVal σ der1 der2 s1 s2 a b
      else (if a = i0 ∧ 0 ≤ b ∧ b < 0 + σ.Y_len then rowVal σb der2 s2 b else σ.z a b)) = _
    by_cases h1 : (i0 + 1 ≤ a ∧ a < i0 + 1 + n) ∧ b < σ.Y_len
    · rw [if_pos h1, if_pos ⟨⟨by omega, by omega⟩, h1.2⟩]
    · rw [if_neg h1]
      by_cases h2 : a = i0 ∧ 0 ≤ b ∧ b < 0 + σ.Y_len
      · rw [if_pos h2, if_pos ⟨⟨by omega, by omega⟩, by omega⟩, h2.1]
        unfold rowVal nodeVal
        show blockSum σ.coeffs (τ.ret_ - σ.deg1) (s2 b - σ.deg2) σ.deg1 σ.deg2 (kget1 β) _ = _
        rw [hs]
        exact blockSum_congr _ _ _ _ _ _ _ _ _ (fun m hm => by rw [hval m hm, hs]) (fun _ _ => rfl)
      · rw [if_neg h2, if_neg (by omega)]

end Nu

/-- the 4×4 block copied from `coeffs` by `theCoeffs[:, :] = coeffs[s1-d1:s1+1, s2-d2:s2+1]` with `d1 = d2 = 3` (as the translation writes it for the
    uniform-cubic kernels: `Int` spans, corner `Int.toNat (span - 3)`), contracted with the two basis arrays, is the double sum `blockSum` -/
theorem slice_sum_cu (c T0 : ℕ → ℕ → ℚ) (s1 d1 s2 d2 : ℤ) (n0 n1 : ℕ) (b1 b2 : ℕ → ℚ) (hd1 : d1 = 3) (hd2 : d2 = 3) (hn0 : n0 = 4) (hn1 : n1 = 4) :
    ((List.range 4).map (fun m => rowDot (fun k_ l_ => if k_ < n0 ∧ l_ < n1 then
        c (Int.toNat (s1 - d1) + (if Int.toNat ((s1 + 1) - (s1 - d1)) = 1 then 0 else k_)) (Int.toNat (s2 - d2) + (if Int.toNat ((s2 + 1) - (s2 - d2)) = 1 then 0 else l_))
        else T0 k_ l_) b2 (0 + m) 4 * b1 (0 + m))).sum = blockSum c (s1 - 3).toNat (s2 - 3).toNat 3 3 b1 b2 := by
  subst hd1 hd2 hn0 hn1
  unfold blockSum
  apply congrArg List.sum
  apply List.map_congr_left
  intro i hi
  rw [List.mem_range] at hi
  have hi : i < 4 := hi
  simp only [Nat.zero_add]
  congr 1
  unfold rowDot
  apply congrArg List.sum
  apply List.map_congr_left
  intro j hj
  rw [List.mem_range] at hj
  have hj : j < 4 := hj
  show (if i < 4 ∧ j < 4 then _ else _) * _ = _
  rw [if_pos ⟨hi, hj⟩, if_neg (by omega), if_neg (by omega)]

/-! ## `cu_eval_spline_2d_cross` -/
section Cu
open PygyroVerif.CubicUniform PygyroVerif.Gen.CubicUniform PygyroVerif.Gen.Cross2DCu
open PygyroVerif.Gen.Cross2DCu.cu_eval_spline_2d_cross_

abbrev LoopC := ℕ → ℕ → St → Res St

/-- body of `for l in range(1, 4)` (copied from the generated file) -/
def lBodyC (σ : St) (i : ℕ) : St :=
  let σ : St := { σ with l := i }
  { σ with theCoeffs := fun k_ l_ => if k_ = σ.k ∧ l_ = (0 : Nat) then ((σ.theCoeffs σ.k (0 : Nat)) + ((σ.theCoeffs σ.k σ.l) * (σ.basis2 σ.l))) else σ.theCoeffs k_ l_ }

structure IsLC (L : LoopC) : Prop where
  zero : ∀ i σ, L 0 i σ = .ok σ
  succ : ∀ n i σ, L (n + 1) i σ = L n (i + 1) (lBodyC σ i)

theorem l_loop_eq_cu {L : LoopC} (hL : IsLC L) : ∀ (n j0 : ℕ) (σ : St), 1 ≤ j0 →
    ∃ J, L n j0 σ = .ok { σ with l := J, theCoeffs := setCol0 σ.theCoeffs σ.k (σ.theCoeffs σ.k 0 + prodSum σ.theCoeffs σ.basis2 σ.k j0 n) } := by
  intro n
  induction n with
  | zero =>
    intro j0 σ _
    refine ⟨σ.l, ?_⟩
    rw [hL.zero]
    have h : setCol0 σ.theCoeffs σ.k (σ.theCoeffs σ.k 0 + prodSum σ.theCoeffs σ.basis2 σ.k j0 0) = σ.theCoeffs := by
      funext a b
      unfold setCol0
      by_cases h : a = σ.k ∧ b = 0
      · rw [if_pos h, h.1, h.2]; simp [prodSum]
      · rw [if_neg h]
    rw [h]
  | succ n ih =>
    intro j0 σ hj
    obtain ⟨J, hrun⟩ := ih (j0 + 1) (lBodyC σ j0) (by omega)
    refine ⟨J, ?_⟩
    rw [hL.succ, hrun]
    congr 1
    show ({ σ with l := J, theCoeffs := setCol0 (lBodyC σ j0).theCoeffs σ.k ((lBodyC σ j0).theCoeffs σ.k 0 + prodSum (lBodyC σ j0).theCoeffs σ.basis2 σ.k (j0 + 1) n) } : St) = _
    congr 1
    have h0 : (lBodyC σ j0).theCoeffs σ.k 0 = σ.theCoeffs σ.k 0 + σ.theCoeffs σ.k j0 * σ.basis2 j0 := setCol0_self _ _ _
    have hrd : ∀ m, (lBodyC σ j0).theCoeffs σ.k (j0 + 1 + m) = σ.theCoeffs σ.k (j0 + 1 + m) := fun m => setCol0_col _ _ _ _ _ (by omega)
    show setCol0 (setCol0 σ.theCoeffs σ.k _) σ.k _ = _
    unfold prodSum
    rw [setCol0_setCol0, h0, List.range_succ_eq_map]
    simp only [List.map_cons, List.sum_cons, List.map_map, Nat.add_zero, hrd]
    congr 1
    have : ((fun m => σ.theCoeffs σ.k (j0 + m) * σ.basis2 (j0 + m)) ∘ Nat.succ)
        = (fun m => σ.theCoeffs σ.k (j0 + 1 + m) * σ.basis2 (j0 + 1 + m)) := by
      funext m
      simp only [Function.comp, Nat.succ_eq_add_one]
      rw [show j0 + (m + 1) = j0 + 1 + m by omega]
    rw [this]
    ring

/-- `for k in range(4)`: the statements before the inner loop … -/
def kPreC (σ : St) (i : ℕ) : St :=
  let σ : St := { σ with k := i }
  { σ with theCoeffs := fun k_ l_ => if k_ = σ.k ∧ l_ = (0 : Nat) then ((σ.theCoeffs σ.k (0 : Nat)) * (σ.basis2 (0 : Nat))) else σ.theCoeffs k_ l_ }
/-- … and after it -/
def kPostC (σ : St) : St :=
  { σ with z := fun k_ l_ => if k_ = σ.i ∧ l_ = σ.j then ((σ.z σ.i σ.j) + ((σ.theCoeffs σ.k (0 : Nat)) * (σ.basis1 σ.k))) else σ.z k_ l_ }

structure IsKC (K L : LoopC) : Prop where
  zero : ∀ i σ, K 0 i σ = .ok σ
  succ : ∀ n i σ, K (n + 1) i σ =
    match L ((4 : Nat) - (1 : Nat)) (1 : Nat) (kPreC σ i) with
    | .ok σ => K n (i + 1) (kPostC σ)
    | .done o => .done o

theorem k_loop_eq_cu {K L : LoopC} (hK : IsKC K L) (hL : IsLC L) : ∀ (n i0 : ℕ) (σ : St),
    ∃ K' L' T', K n i0 σ = .ok { σ with k := K', l := L', theCoeffs := T', z := (set2 σ.z σ.i σ.j
      (σ.z σ.i σ.j + ((List.range n).map (fun m => rowDot σ.theCoeffs σ.basis2 (i0 + m) 4 * σ.basis1 (i0 + m))).sum)) } := by
  intro n
  induction n with
  | zero =>
    intro i0 σ
    refine ⟨σ.k, σ.l, σ.theCoeffs, ?_⟩
    rw [hK.zero]
    have h : set2 σ.z σ.i σ.j (σ.z σ.i σ.j + ((List.range 0).map (fun m => rowDot σ.theCoeffs σ.basis2 (i0 + m) 4 * σ.basis1 (i0 + m))).sum) = σ.z := by
      funext a b
      unfold set2
      by_cases h : a = σ.i ∧ b = σ.j
      · rw [if_pos h, h.1, h.2]; simp
      · rw [if_neg h]
    rw [h]
  | succ n ih =>
    intro i0 σ
    obtain ⟨J, hin⟩ := l_loop_eq_cu hL (4 - 1) 1 (kPreC σ i0) (le_refl 1)
    let T2 : ℕ → ℕ → ℚ := setCol0 (kPreC σ i0).theCoeffs i0 ((kPreC σ i0).theCoeffs i0 0 + prodSum (kPreC σ i0).theCoeffs σ.basis2 i0 1 (4 - 1))
    let σ2 : St := { σ with k := i0, l := J, theCoeffs := T2, z := set2 σ.z σ.i σ.j (σ.z σ.i σ.j + T2 i0 0 * σ.basis1 i0) }
    obtain ⟨K', L', T', hrun⟩ := ih (i0 + 1) σ2
    refine ⟨K', L', T', ?_⟩
    rw [hK.succ]
    have hin' : L (4 - 1) 1 (kPreC σ i0) = .ok { kPreC σ i0 with l := J, theCoeffs := T2 } := hin
    rw [hin']
    show K n (i0 + 1) σ2 = _
    rw [hrun]
    congr 1
    show ({ σ with k := K', l := L', theCoeffs := T', z := set2 (set2 σ.z σ.i σ.j _) σ.i σ.j (set2 σ.z σ.i σ.j _ σ.i σ.j + _) } : St) = _
    congr 1
    rw [set2_set2, set2_self]
    congr 1
    rw [List.range_succ_eq_map]
    simp only [List.map_cons, List.sum_cons, List.map_map, Nat.add_zero]
    have hT2 : T2 i0 0 = rowDot σ.theCoeffs σ.basis2 i0 4 := by
      show setCol0 _ i0 _ i0 0 = _
      rw [setCol0_self]
      have h0 : (kPreC σ i0).theCoeffs i0 0 = σ.theCoeffs i0 0 * σ.basis2 0 := setCol0_self _ _ _
      have hps : prodSum (kPreC σ i0).theCoeffs σ.basis2 i0 1 (4 - 1) = prodSum σ.theCoeffs σ.basis2 i0 1 (4 - 1) := by
        unfold prodSum
        congr 1
        apply List.map_congr_left
        intro m _
        rw [show (kPreC σ i0).theCoeffs i0 (1 + m) = σ.theCoeffs i0 (1 + m) from setCol0_col _ _ _ _ _ (by omega)]
      rw [h0, hps]
      exact rowDot_succ _ _ _ 3
    have hrows : ∀ m, rowDot T2 σ.basis2 (i0 + 1 + m) 4 = rowDot σ.theCoeffs σ.basis2 (i0 + (m + 1)) 4 := by
      intro m
      rw [show i0 + 1 + m = i0 + (m + 1) by omega]
      apply rowDot_congr
      intro j _
      show setCol0 (setCol0 σ.theCoeffs i0 _) i0 _ (i0 + (m + 1)) j = _
      rw [setCol0_row _ _ _ _ _ (by omega), setCol0_row _ _ _ _ _ (by omega)]
    show σ.z σ.i σ.j + T2 i0 0 * σ.basis1 i0 + ((List.range n).map (fun m => rowDot T2 σ.basis2 (i0 + 1 + m) 4 * σ.basis1 (i0 + 1 + m))).sum = _
    rw [hT2]
    have : ((fun m => rowDot σ.theCoeffs σ.basis2 (i0 + m) 4 * σ.basis1 (i0 + m)) ∘ Nat.succ)
        = (fun m => rowDot T2 σ.basis2 (i0 + 1 + m) 4 * σ.basis1 (i0 + 1 + m)) := by
      funext m
      simp only [Function.comp, Nat.succ_eq_add_one]
      rw [hrows m, show i0 + 1 + m = i0 + (m + 1) by omega]
    rw [this]
    ring

variable (U : ℕ → ℚ) (F : ℕ)

/-- one iteration of a loop `for j, y in enumerate(Y)` of the generated `cu_eval_spline_2d_cross` on the path on which nothing raises, the basis kernel
    of direction 2 abstracted as `krun` / `kget` -/
structure IsJC {KS : Type} (krun : St → Out KS) (kget : KS → ℕ → ℚ) (J K : LoopC) : Prop where
  zero : ∀ i σ, J 0 i σ = .ok σ
  step : ∀ n i σ τ β σ', cu_find_span_.run U F σ.ymin σ.ymax σ.dy (σ.Y i) σ.ncells_y = .ret τ →
    krun { σ with j := i, y := σ.Y i, span2 := τ.ret0_, offset2 := τ.ret1_ } = .ret β →
    ((Int.toNat (σ.span1 + 1 - (σ.span1 - σ.deg1)) = σ.theCoeffs_len0 ∨ Int.toNat (σ.span1 + 1 - (σ.span1 - σ.deg1)) = 1) ∧
      (Int.toNat (τ.ret0_ + 1 - (τ.ret0_ - σ.deg2)) = σ.theCoeffs_len1 ∨ Int.toNat (τ.ret0_ + 1 - (τ.ret0_ - σ.deg2)) = 1)) →
    K 4 0 { σ with j := i, y := σ.Y i, span2 := τ.ret0_, offset2 := τ.ret1_, basis2 := kget β, theCoeffs := (fun k_ l_ => if k_ < σ.theCoeffs_len0 ∧ l_ < σ.theCoeffs_len1 then σ.coeffs (Int.toNat (σ.span1 - σ.deg1) + (if Int.toNat (σ.span1 + 1 - (σ.span1 - σ.deg1)) = 1 then 0 else k_)) (Int.toNat (τ.ret0_ - σ.deg2) + (if Int.toNat (τ.ret0_ + 1 - (τ.ret0_ - σ.deg2)) = 1 then 0 else l_)) else σ.theCoeffs k_ l_), z := (fun k_ l_ => if k_ = σ.i ∧ l_ = i then (0 : Rat) else σ.z k_ l_) } = .ok σ' →
    J (n + 1) i σ = J n (i + 1) σ'

/-- the value row `i` of the table receives in column `b`, in terms of what `basis1` holds -/
def rowValC (σ : St) (der2 : Bool) (b : ℕ) : ℚ :=
  blockSum σ.coeffs (σ.span1 - 3).toNat ((cuFindSpan pyInt σ.ymin σ.dy (σ.Y b) σ.ncells_y).1 - 3).toNat 3 3 σ.basis1
    (fun m => (cuBasisOrDer (cuFindSpan pyInt σ.ymin σ.dy (σ.Y b) σ.ncells_y).2 σ.dy der2).getD m 0)

/-- `for j, y in enumerate(Y)` started at `j0` with `n` iterations left, inside iteration `i` of the loop over `X` (guard `deg1 = deg2 = 3`: numpy's shape
    check passes): the loop ends normally, `z[i, j0 .. j0+n)` receive the double sums and NOTHING else changes except the scratch locals -/
theorem j_loop_eq_cu {KS : Type} {krun : St → Out KS} {kget : KS → ℕ → ℚ} {J K L : LoopC} (hJ : IsJC U F krun kget J K) (hK : IsKC K L) (hL : IsLC L)
    (der2 : Bool)
    (hk : ∀ σ' : St, ∃ β, krun σ' = .ret β ∧ (List.range 4).map (kget β) = cuBasisOrDer σ'.offset2 σ'.dy der2) :
    ∀ (n j0 : ℕ) (σ : St), σ.deg1 = 3 → σ.deg2 = 3 → σ.theCoeffs_len0 = 4 → σ.theCoeffs_len1 = 4 →
    ∃ J' y' sp2 o2 B2 K' L' T', J n j0 σ = .ok { σ with j := J', y := y', span2 := sp2, offset2 := o2, basis2 := B2, k := K', l := L', theCoeffs := T', z := (fun a b => if a = σ.i ∧ j0 ≤ b ∧ b < j0 + n then rowValC σ der2 b else σ.z a b) } := by
  intro n
  induction n with
  | zero =>
    intro j0 σ _ _ _ _
    refine ⟨σ.j, σ.y, σ.span2, σ.offset2, σ.basis2, σ.k, σ.l, σ.theCoeffs, ?_⟩
    rw [hJ.zero]
    have h : (fun a b => if a = σ.i ∧ j0 ≤ b ∧ b < j0 + 0 then rowValC σ der2 b else σ.z a b) = σ.z := by
      funext a b
      rw [if_neg (by omega)]
    rw [h]
  | succ n ih =>
    intro j0 σ hd1 hd2 hl0 hl1
    obtain ⟨τ, hτ, hp⟩ := C07Gen3.gen_cu_find_span_eq U F σ.ymin σ.ymax σ.dy (σ.Y j0) σ.ncells_y
    have hp0 : τ.ret0_ = (cuFindSpan pyInt σ.ymin σ.dy (σ.Y j0) σ.ncells_y).1 := congrArg Prod.fst hp
    have hp1 : τ.ret1_ = (cuFindSpan pyInt σ.ymin σ.dy (σ.Y j0) σ.ncells_y).2 := congrArg Prod.snd hp
    obtain ⟨β, hβ, hval⟩ := hk { σ with j := j0, y := σ.Y j0, span2 := τ.ret0_, offset2 := τ.ret1_ }
    let Tc : ℕ → ℕ → ℚ := fun k_ l_ => if k_ < σ.theCoeffs_len0 ∧ l_ < σ.theCoeffs_len1 then σ.coeffs (Int.toNat (σ.span1 - σ.deg1) + (if Int.toNat (σ.span1 + 1 - (σ.span1 - σ.deg1)) = 1 then 0 else k_)) (Int.toNat (τ.ret0_ - σ.deg2) + (if Int.toNat (τ.ret0_ + 1 - (τ.ret0_ - σ.deg2)) = 1 then 0 else l_)) else σ.theCoeffs k_ l_
    let σc : St := { σ with j := j0, y := σ.Y j0, span2 := τ.ret0_, offset2 := τ.ret1_, basis2 := kget β, theCoeffs := Tc, z := set2 σ.z σ.i j0 0 }
    obtain ⟨K', L', T', hkl⟩ := k_loop_eq_cu hK hL 4 0 σc
    let v : ℚ := (0 : ℚ) + ((List.range 4).map (fun m => rowDot σc.theCoeffs (kget β) (0 + m) 4 * σ.basis1 (0 + m))).sum
    let σd : St := { σc with k := K', l := L', theCoeffs := T', z := set2 σ.z σ.i j0 v }
    have hkl' : K 4 0 σc = .ok σd := by
      rw [hkl]
      congr 1
      show ({ σc with k := K', l := L', theCoeffs := T', z := set2 (set2 σ.z σ.i j0 0) σ.i j0 (set2 σ.z σ.i j0 0 σ.i j0 + _) } : St) = _
      rw [set2_set2, set2_self]
    obtain ⟨J', y', sp2, o2, B2, K'', L'', T'', hrun⟩ := ih (j0 + 1) σd hd1 hd2 hl0 hl1
    refine ⟨J', y', sp2, o2, B2, K'', L'', T'', ?_⟩
    have hc : ((Int.toNat (σ.span1 + 1 - (σ.span1 - σ.deg1)) = σ.theCoeffs_len0 ∨ Int.toNat (σ.span1 + 1 - (σ.span1 - σ.deg1)) = 1) ∧
        (Int.toNat (τ.ret0_ + 1 - (τ.ret0_ - σ.deg2)) = σ.theCoeffs_len1 ∨ Int.toNat (τ.ret0_ + 1 - (τ.ret0_ - σ.deg2)) = 1)) :=
      ⟨Or.inl (by omega), Or.inl (by omega)⟩
    have hstep : J (n + 1) j0 σ = J n (j0 + 1) σd := hJ.step n j0 σ τ β σd hτ hβ hc hkl'
    rw [hstep, hrun]
    congr 1
    show ({ σ with j := J', y := y', span2 := sp2, offset2 := o2, basis2 := B2, k := K'', l := L'', theCoeffs := T'', z := (fun a b => if a = σ.i ∧ j0 + 1 ≤ b ∧ b < j0 + 1 + n then rowValC σd der2 b else set2 σ.z σ.i j0 v a b) } : St) = _
    congr 1
    funext a b
    have hrv : ∀ b, rowValC σd der2 b = rowValC σ der2 b := fun _ => rfl
    rw [hrv]
    by_cases h1 : a = σ.i ∧ j0 + 1 ≤ b ∧ b < j0 + 1 + n
    · rw [if_pos h1, if_pos ⟨h1.1, by omega, by omega⟩]
    · rw [if_neg h1]
      by_cases h2 : a = σ.i ∧ b = j0
      · rw [if_pos ⟨h2.1, by omega, by omega⟩, h2.1, h2.2, set2_self]
        show (0 : ℚ) + _ = _
        rw [zero_add]
        have := slice_sum_cu σ.coeffs σ.theCoeffs σ.span1 σ.deg1 τ.ret0_ σ.deg2 σ.theCoeffs_len0 σ.theCoeffs_len1 σ.basis1 (kget β) hd1 hd2 hl0 hl1
        rw [this]
        unfold rowValC
        rw [← hp0, ← hp1]
        refine blockSum_congr _ _ _ _ _ _ _ _ _ (fun _ _ => rfl) (fun m hm => ?_)
        show kget β m = _
        rw [← hval, getD_map_range', if_pos (by omega)]
      · rw [set2_other _ _ _ _ _ _ h2, if_neg (by omega)]

/-- one iteration of a loop `for i, x in enumerate(X)` of the generated `cu_eval_spline_2d_cross` on the path on which nothing raises -/
structure IsIC {KS : Type} (krun : St → Out KS) (kget : KS → ℕ → ℚ) (I J : LoopC) : Prop where
  zero : ∀ i σ, I 0 i σ = .ok σ
  step : ∀ n i σ τ β σ', cu_find_span_.run U F σ.xmin σ.xmax σ.dx (σ.X i) σ.ncells_x = .ret τ →
    krun { σ with i := i, x := σ.X i, span1 := τ.ret0_, offset1 := τ.ret1_ } = .ret β →
    J σ.Y_len 0 { σ with i := i, x := σ.X i, span1 := τ.ret0_, offset1 := τ.ret1_, basis1 := kget β } = .ok σ' →
    I (n + 1) i σ = I n (i + 1) σ'

/-- the value `z[a, b]` receives: the model's `cuEvalSpline2D` (as a double sum, `cuEvalSpline2D_eq_blockSum`) at `(X[a], Y[b])` -/
def nodeValC (σ : St) (der1 der2 : Bool) (a b : ℕ) : ℚ :=
  blockSum σ.coeffs ((cuFindSpan pyInt σ.xmin σ.dx (σ.X a) σ.ncells_x).1 - 3).toNat ((cuFindSpan pyInt σ.ymin σ.dy (σ.Y b) σ.ncells_y).1 - 3).toNat 3 3
    (fun m => (cuBasisOrDer (cuFindSpan pyInt σ.xmin σ.dx (σ.X a) σ.ncells_x).2 σ.dx der1).getD m 0)
    (fun m => (cuBasisOrDer (cuFindSpan pyInt σ.ymin σ.dy (σ.Y b) σ.ncells_y).2 σ.dy der2).getD m 0)

/-- `for i, x in enumerate(X)` started at `i0` with `n` iterations left (guard `deg1 = deg2 = 3`): the loop ends normally, `z[a, b]` is `nodeValC` for
    `i0 ≤ a < i0+n`, `b < len(Y)`, and every other entry of `z` is what it was -/
theorem i_loop_eq_cu {KS1 KS2 : Type} {krun1 : St → Out KS1} {kget1 : KS1 → ℕ → ℚ} {krun2 : St → Out KS2} {kget2 : KS2 → ℕ → ℚ} {I J K L : LoopC}
    (hI : IsIC U F krun1 kget1 I J) (hJ : IsJC U F krun2 kget2 J K) (hK : IsKC K L) (hL : IsLC L) (der1 der2 : Bool)
    (hk1 : ∀ σ' : St, ∃ β, krun1 σ' = .ret β ∧ (List.range 4).map (kget1 β) = cuBasisOrDer σ'.offset1 σ'.dx der1)
    (hk2 : ∀ σ' : St, ∃ β, krun2 σ' = .ret β ∧ (List.range 4).map (kget2 β) = cuBasisOrDer σ'.offset2 σ'.dy der2) :
    ∀ (n i0 : ℕ) (σ : St), σ.deg1 = 3 → σ.deg2 = 3 → σ.theCoeffs_len0 = 4 → σ.theCoeffs_len1 = 4 →
    ∃ σ', I n i0 σ = .ok σ' ∧
      ∀ a b, σ'.z a b = if (i0 ≤ a ∧ a < i0 + n) ∧ b < σ.Y_len then nodeValC σ der1 der2 a b else σ.z a b := by
  intro n
  induction n with
  | zero =>
    intro i0 σ _ _ _ _
    exact ⟨σ, hI.zero i0 σ, fun a b => by rw [if_neg (by omega)]⟩
  | succ n ih =>
    intro i0 σ hd1 hd2 hl0 hl1
    obtain ⟨τ, hτ, hp⟩ := C07Gen3.gen_cu_find_span_eq U F σ.xmin σ.xmax σ.dx (σ.X i0) σ.ncells_x
    have hp0 : τ.ret0_ = (cuFindSpan pyInt σ.xmin σ.dx (σ.X i0) σ.ncells_x).1 := congrArg Prod.fst hp
    have hp1 : τ.ret1_ = (cuFindSpan pyInt σ.xmin σ.dx (σ.X i0) σ.ncells_x).2 := congrArg Prod.snd hp
    obtain ⟨β, hβ, hval⟩ := hk1 { σ with i := i0, x := σ.X i0, span1 := τ.ret0_, offset1 := τ.ret1_ }
    let σb : St := { σ with i := i0, x := σ.X i0, span1 := τ.ret0_, offset1 := τ.ret1_, basis1 := kget1 β }
    obtain ⟨J', y', sp2, o2, B2, K', L', T', hj⟩ := j_loop_eq_cu U F hJ hK hL der2 hk2 σ.Y_len 0 σb hd1 hd2 hl0 hl1
    let σe : St := { σb with j := J', y := y', span2 := sp2, offset2 := o2, basis2 := B2, k := K', l := L', theCoeffs := T', z := (fun a b => if a = i0 ∧ 0 ≤ b ∧ b < 0 + σ.Y_len then rowValC σb der2 b else σ.z a b) }
    obtain ⟨σ', hrun, hz⟩ := ih (i0 + 1) σe hd1 hd2 hl0 hl1
    have hstep : I (n + 1) i0 σ = I n (i0 + 1) σe := hI.step n i0 σ τ β σe hτ hβ hj
    refine ⟨σ', by rw [hstep, hrun], fun a b => ?_⟩
    rw [hz a b]
    show (if (i0 + 1 ≤ a ∧ a < i0 + 1 + n) ∧ b < σ.Y_len then nodeValC σ der1 der2 a b
      else (if a = i0 ∧ 0 ≤ b ∧ b < 0 + σ.Y_len then rowValC σb der2 b else σ.z a b)) = _
    by_cases h1 : (i0 + 1 ≤ a ∧ a < i0 + 1 + n) ∧ b < σ.Y_len
    · rw [if_pos h1, if_pos ⟨⟨by omega, by omega⟩, h1.2⟩]
    · rw [if_neg h1]
      by_cases h2 : a = i0 ∧ 0 ≤ b ∧ b < 0 + σ.Y_len
      · rw [if_pos h2, if_pos ⟨⟨by omega, by omega⟩, by omega⟩, h2.1]
        unfold rowValC nodeValC
        show blockSum σ.coeffs (τ.ret0_ - 3).toNat _ 3 3 (kget1 β) _ = _
        rw [hp0]
        refine blockSum_congr _ _ _ _ _ _ _ _ _ (fun m hm => ?_) (fun _ _ => rfl)
        rw [← hp1]
        show kget1 β m = _
        rw [← hval, getD_map_range', if_pos (by omega)]
      · rw [if_neg h2, if_neg (by omega)]

end Cu

end PygyroVerif.Cross2DGen
