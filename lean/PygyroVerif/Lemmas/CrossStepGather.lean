/-
Bridge theorem of C03, part 2: the unpack loop of the gather step on ONE rank (`_transpose` :1332-1385,
`Swapper.crossStep` third branch): after the `Allgather` of the padded blocks, for every member `i` of the communicator
`dest.reshape(shapeD)[..., st_i:st_i+len_i, ...] = rcv[i·bs : …].reshape(shape_i).transpose(...)`, and the chain
destination cell ← received cell ← source cell of the owner = `G`.
-/
import PygyroVerif.Lemmas.CrossStepBase
import PygyroVerif.Lemmas.DirectStepBuffer

namespace PygyroVerif.CS
open PygyroVerif PygyroVerif.Handler PygyroVerif.CopyBox PygyroVerif.DS

variable {α : Type} [Inhabited α]

/-! ### one iteration and the loop, on labelled views -/

/-- one iteration of the unpack loop: block `i` of the receive buffer (shape `shS` with `len` along `A`) lands on the
    slab `[st, st+len)` of dimension `A` of the destination block -/
theorem unpack_iter_core (oD oS : List Nat) (hndD : oD.Nodup) (hndS : oS.Nodup) (hperm : oD.Perm oS) (A : Nat)
    (hAD : A ∈ oD) (shD shS : Nat → Nat) (hsh : ∀ d ∈ oD, d ≠ A → shS d = shD d)
    (rcv o : Array α) (off st len : Nat) (hblock : st + len ≤ shD A)
    (hfitD : (oD.map shD).prod ≤ o.size) :
    ∃ o', assignView o ((DView.chunkD 0 oD shD).toView.slice (oD.idxOf A) st (st + len)) rcv
        ((DView.chunkD off oS (Function.update shS A len)).toView.transpose (oD.map (fun d => oS.idxOf d))) = some o' ∧
      o'.size = o.size ∧
      (∀ u : Nat → Nat, (∀ d ∈ oD, u d < Function.update shD A len d) →
        o'[Addr.ravelD oD (Function.update u A (st + u A)) shD]? =
          some (rcv.getD (off + Addr.ravelD oS u (Function.update shS A len)) default)) ∧
      (∀ j, (∀ u : Nat → Nat, (∀ d ∈ oD, u d < Function.update shD A len d) →
          Addr.ravelD oD (Function.update u A (st + u A)) shD ≠ j) → o'[j]? = o[j]?) := by
  set shB : Nat → Nat := Function.update shS A len with hshB
  set rngD : Nat → Nat × Nat := oneRng shD A (st, st + len) with hrngD
  set rngS : Nat → Nat × Nat := fun d => (0, shB d) with hrngS
  have hbox : ∀ (u : Nat → Nat) d, d ∈ oD → (u d < (rngD d).2 - (rngD d).1 ↔ u d < Function.update shD A len d) := by
    intro u d _
    by_cases hdA : d = A
    · subst hdA; simp only [hrngD, oneRng, if_true, Function.update_self]; omega
    · simp only [hrngD, oneRng, if_neg hdA, Function.update_of_ne hdA, Nat.sub_zero]
  have haddr : ∀ (u : Nat → Nat), Addr.ravelD oD (fun d => (rngD d).1 + u d) shD =
      Addr.ravelD oD (Function.update u A (st + u A)) shD := by
    intro u
    apply Addr.ravelD_congr _ _ _ _ _ _ (fun _ _ => rfl)
    intro d _
    by_cases hdA : d = A
    · subst hdA; simp only [hrngD, oneRng, if_true, Function.update_self]
    · simp only [hrngD, oneRng, if_neg hdA, Function.update_of_ne hdA, Nat.zero_add]
  obtain ⟨o', hassign, hsize, hget, hfr⟩ := assign_sliced_chunks o rcv 0 oD shD rngD off oS shB rngS
    hndD hndS hperm
    (fun d _ => by
      by_cases hdA : d = A
      · subst hdA; simp only [hrngD, oneRng, if_true]; exact ⟨by omega, hblock⟩
      · simp only [hrngD, oneRng, if_neg hdA]; exact ⟨Nat.zero_le _, Nat.le_refl _⟩)
    (fun d _ => ⟨Nat.zero_le _, Nat.le_refl _⟩)
    (fun d hd => by
      by_cases hdA : d = A
      · subst hdA; simp only [hrngS, hrngD, hshB, oneRng, if_true, Function.update_self]; omega
      · simp only [hrngS, hrngD, hshB, oneRng, if_neg hdA, Function.update_of_ne hdA, Nat.sub_zero]; exact hsh d hd hdA)
    (by rw [Nat.zero_add]; exact hfitD)
  refine ⟨o', ?_, hsize, ?_, ?_⟩
  · have hk : oD.idxOf A < (DView.chunkD 0 oD shD).lab.length := List.idxOf_lt_length_iff.mpr hAD
    have hg : (DView.chunkD 0 oD shD).lab.getD (oD.idxOf A) 0 = A := getD_idxOf oD A hAD
    rw [toView_slice_one _ hndD _ hk, hg]
    have htr := DView.toView_transpose_idxOf (DView.chunkD off oS shB) oD (fun d hd => (hperm.mem_iff).mp hd)
    rw [show (DView.chunkD off oS shB).lab = oS from rfl] at htr
    rw [htr, ← sliceD_trivial_relabel (DView.chunkD off oS shB) oD]
    exact hassign
  · intro u hu
    have := hget u (fun d hd => (hbox u d hd).mpr (hu d hd))
    rw [Nat.zero_add, haddr] at this
    rw [this]
    congr 3
    apply Addr.ravelD_congr _ _ _ _ _ _ (fun _ _ => rfl)
    intro d _
    simp only [hrngS, Nat.zero_add]
  · intro j hj
    apply hfr
    intro u hu he
    rw [Nat.zero_add, haddr] at he
    exact hj u (fun d hd => (hbox u d hd).mp (hu d hd)) he

/-- the unpack loop over the `p` members: every received block lands on its slab of the destination block -/
theorem unpack_loop_core (oD oS : List Nat) (hndD : oD.Nodup) (hndS : oS.Nodup) (hperm : oD.Perm oS) (A : Nat)
    (hAD : A ∈ oD) (shD shS : Nat → Nat) (hsh : ∀ d ∈ oD, d ≠ A → shS d = shD d)
    (p bs : Nat) (stA lenA : Nat → Nat) (hblock : ∀ r, r < p → stA r + lenA r ≤ shD A)
    (hdis : ∀ q k, q < k → k < p → stA q + lenA q ≤ stA k)
    (rcv out0 : Array α) (hfit : (oD.map shD).prod ≤ out0.size)
    (f : Array α → Nat → Except String (Array α))
    (hf : ∀ o i, i < p → f o i =
      match assignView o ((DView.chunkD 0 oD shD).toView.slice (oD.idxOf A) (stA i) (stA i + lenA i)) rcv
        ((DView.chunkD (i * bs) oS (Function.update shS A (lenA i))).toView.transpose (oD.map (fun d => oS.idxOf d))) with
      | none => throw "value-error: could not broadcast (gather)"
      | some o' => pure o') :
    ∃ out, (List.range p).foldlM f out0 = .ok out ∧ out.size = out0.size ∧
      ∀ q, q < p → ∀ u : Nat → Nat, (∀ d ∈ oD, u d < Function.update shD A (lenA q) d) →
        out[Addr.ravelD oD (Function.update u A (stA q + u A)) shD]? =
          some (rcv.getD (q * bs + Addr.ravelD oS u (Function.update shS A (lenA q))) default) := by
  let Inv : Nat → Array α → Prop := fun k d =>
    d.size = out0.size ∧
    ∀ q, q < k → ∀ u : Nat → Nat, (∀ e ∈ oD, u e < Function.update shD A (lenA q) e) →
      d[Addr.ravelD oD (Function.update u A (stA q + u A)) shD]? =
        some (rcv.getD (q * bs + Addr.ravelD oS u (Function.update shS A (lenA q))) default)
  obtain ⟨s', hs', hinv⟩ := foldlM_range_inv f Inv p out0 ⟨rfl, fun q hq => absurd hq (Nat.not_lt_zero _)⟩
    (by
      intro k hk d hd
      obtain ⟨h1, h4⟩ := hd
      obtain ⟨d', he, hsz, hget, hfr⟩ := unpack_iter_core oD oS hndD hndS hperm A hAD shD shS hsh rcv d (k * bs) (stA k)
        (lenA k) (hblock k hk) (by rw [h1]; exact hfit)
      refine ⟨d', by rw [hf d k hk, he]; rfl, by rw [hsz, h1], ?_⟩
      intro q hq u hu
      by_cases hqk : q = k
      · subst hqk; exact hget u hu
      · have hqlt : q < k := by omega
        rw [hfr _ ?_]
        · exact h4 q hqlt u hu
        · intro u' hu' he'
          have hbq := hblock q (by omega)
          have hbk := hblock k hk
          have hin : Addr.InBoxD oD (Function.update u A (stA q + u A)) shD := by
            intro e hee
            have := hu e hee
            by_cases heA : e = A
            · subst heA; simp only [Function.update_self] at this ⊢; omega
            · simp only [Function.update_of_ne heA] at this ⊢; exact this
          have hin' : Addr.InBoxD oD (Function.update u' A (stA k + u' A)) shD := by
            intro e hee
            have := hu' e hee
            by_cases heA : e = A
            · subst heA; simp only [Function.update_self] at this ⊢; omega
            · simp only [Function.update_of_ne heA] at this ⊢; exact this
          have := Addr.ravelD_inj oD _ _ shD hin' hin he' A hAD
          simp only [Function.update_self] at this
          have h5 := hu A hAD
          simp only [Function.update_self] at h5
          have := hdis q k hqlt hk
          omega)
  exact ⟨s', hs', hinv.1, hinv.2⟩

/-! ### the unpack loop as the model writes it -/

/-- body of the loop `for i, (l, s) in enumerate(zip(mpi_lengths, mpi_starts))` of the gather step (:1369-1383) -/
def unpackIter (LS : Layout) (cS : List Nat) (idxS idxD bs : Nat) (tr : List Nat) (rcv : Array α) (dv : View)
    (o : Array α) (i : Nat) : Except String (Array α) :=
  match View.chunk rcv.size (i * bs) ((LS.shape cS).set idxS ((LS.mpiLengthsAt idxS).getD i 0)) with
  | none => throw "value-error: block reshape"
  | some bv =>
    match assignView o (dv.slice idxD ((LS.mpiStartsAt idxS).getD i 0)
        ((LS.mpiStartsAt idxS).getD i 0 + (LS.mpiLengthsAt idxS).getD i 0)) rcv (bv.transpose tr) with
    | none => throw "value-error: could not broadcast (gather)"
    | some o' => pure o'

/-- the padded block of the gather: the source block with the maximal extent along the gathered axis -/
def padSize (L : Layout) (c : List Nat) (k : Nat) : Nat := prodL ((L.shape c).set k (L.maxShape.getD k 0))

theorem padSize_eq (np o ext c : List Nat) (hnd : o.Nodup) (k : Nat) (hk : k < o.length) :
    padSize (Layout.make np o ext) c k =
      (o.map (Function.update (lenD (Layout.make np o ext) c) (o.getD k 0)
        (maxBlock (ext.getD (o.getD k 0) 0) (np.getD k 1)))).prod := by
  unfold padSize
  rw [prodL_eq_prod, shape_eq_map _ hnd c, DS.maxShape_getD (Layout.make np o ext) k hk, extAt_make, procsAt_make]
  rw [show (Layout.make np o ext).ord = o from rfl, set_map_update o hnd _ k hk]

/-- **destination less distributed, one rank** (`_transpose` :1332-1385 after the `Allgather`).  Dimension
    `A = oS[jS]` is distributed over the `p = npS[jS]` members of the gathered communicator in the source layout and held
    whole in the destination layout; every other dimension has the same extent and start in both.  If member `q`'s
    source buffer `srcs q` holds its block, and chunk `q` of this rank's receive buffer is the first `bs` cells of
    `srcs q`, the unpack loop raises nothing and leaves in `out` the block of the destination layout. -/
theorem gather_rank_correct (npS npD oS oD ext cS cD : List Nat) (hS : OrdOK oS) (hD : OrdOK oD)
    (hlen : oS.length = oD.length) (jS : Nat) (hjS : jS < oS.length) (hjc : jS < cS.length) (hp : 0 < npS.getD jS 1)
    (hsame : ∀ d ∈ oD, d ≠ oS.getD jS 0 → lenD (Layout.make npS oS ext) cS d = lenD (Layout.make npD oD ext) cD d ∧
      startD (Layout.make npS oS ext) cS d = startD (Layout.make npD oD ext) cD d)
    (hwhole : lenD (Layout.make npD oD ext) cD (oS.getD jS 0) = ext.getD (oS.getD jS 0) 0 ∧
      startD (Layout.make npD oD ext) cD (oS.getD jS 0) = 0)
    (G : List Nat → α) (srcs : Nat → Array α) (rcv out0 : Array α)
    (hsrc : ∀ q, q < npS.getD jS 1 → HoldsBlock (Layout.make npS oS ext) (cS.set jS q) G (srcs q))
    (hrcv : ∀ q, q < npS.getD jS 1 → ∀ j, j < padSize (Layout.make npS oS ext) cS jS →
      rcv[q * padSize (Layout.make npS oS ext) cS jS + j]? = some ((srcs q).getD j default))
    (hout : ((Layout.make npD oD ext).shape cD).prod ≤ out0.size) :
    ∃ dv out,
      View.chunk out0.size 0 ((Layout.make npD oD ext).shape cD) = some dv ∧
      (List.range (npS.getD jS 1)).foldlM (unpackIter (Layout.make npS oS ext) cS jS (oD.idxOf (oS.getD jS 0))
        (padSize (Layout.make npS oS ext) cS jS) (oD.map (fun d => oS.idxOf d)) rcv dv) out0 = .ok out ∧
      out.size = out0.size ∧ HoldsBlock (Layout.make npD oD ext) cD G out := by
  have hndS := hS.nodup
  have hndD := hD.nodup
  set LS := Layout.make npS oS ext with hLS
  set LD := Layout.make npD oD ext with hLD
  set A := oS.getD jS 0 with hAdef
  set p := npS.getD jS 1 with hpdef
  set nA := ext.getD A 0 with hnA
  set bs := padSize LS cS jS with hbs
  have hmemS : ∀ d, d < LS.ndims → d ∈ LS.ord := fun d hd => (hS.mem_iff d).mpr hd
  have hmemD : ∀ d, d < LD.ndims → d ∈ LD.ord := fun d hd => (hD.mem_iff d).mpr hd
  have hshS : LS.shape cS = oS.map (lenD LS cS) := shape_eq_map LS hndS cS
  have hshD : LD.shape cD = oD.map (lenD LD cD) := shape_eq_map LD hndD cD
  have hperm : oD.Perm oS := OrdOK.perm hS hD hlen
  have hAS : A ∈ oS := by rw [hAdef, getD_lt oS jS hjS 0]; exact List.getElem_mem _
  have hAD : A ∈ oD := (hperm.mem_iff).mpr hAS
  have hidxA : oS.idxOf A = jS := by rw [hAdef, getD_lt oS jS hjS 0]; exact hndS.idxOf_getElem jS hjS
  have hfitD : (oD.map (lenD LD cD)).prod ≤ out0.size := by rw [← hshD]; exact hout
  have hextAt : LS.extAt jS = nA := rfl
  have hprocs : LS.procsAt jS = p := procsAt_make npS oS ext jS
  -- blocks of the members
  have hstlen : ∀ r, r < p → blockStart nA p r + blockLen nA p r ≤ lenD LD cD A := by
    intro r hr
    rw [hwhole.1]
    have h1 := blockStart_le_succ nA p r hp
    have h2 := blockStart_le_n nA p (r+1) hp (by omega)
    unfold blockLen; omega
  have hdis : ∀ q k, q < k → k < p → blockStart nA p q + blockLen nA p q ≤ blockStart nA p k := by
    intro q k hqk _
    have h1 := blockStart_le_succ nA p q hp
    have h2 := blockStart_mono nA p hp (show q + 1 ≤ k by omega)
    unfold blockLen; omega
  have hsh : ∀ d ∈ oD, d ≠ A → lenD LS cS d = lenD LD cD d := fun d hd hdA => (hsame d hd hdA).1
  -- size of a real block
  have hblk_le : ∀ q, q < p → (oS.map (Function.update (lenD LS cS) A (blockLen nA p q))).prod ≤ bs := by
    intro q _
    rw [hbs, padSize_eq npS oS ext cS hndS jS hjS]
    apply prod_map_le
    intro d _
    by_cases hdA : d = A
    · rw [hdA, Function.update_self, Function.update_self]
      exact DS.blockLen_le_maxBlock nA p q hp
    · rw [Function.update_of_ne hdA, Function.update_of_ne hdA]
  have hdv : View.chunk out0.size 0 (LD.shape cD) = some (DView.chunkD 0 oD (lenD LD cD)).toView := by
    rw [hshD]; exact DView.chunk_toView out0.size 0 oD hndD _ (by rw [Nat.zero_add]; exact hfitD)
  -- the receive buffer is long enough for the chunks that are read
  have hrcvsize : 0 < bs → p * bs ≤ rcv.size := by
    intro hb
    have := hrcv (p - 1) (by omega) (bs - 1) (by omega)
    have hlt : (p - 1) * bs + (bs - 1) < rcv.size := by
      by_contra hc
      rw [Array.getElem?_eq_none (by omega)] at this
      cases this
    have : p * bs = (p - 1) * bs + bs := by
      have : p = (p - 1) + 1 := by omega
      conv_lhs => rw [this, Nat.add_mul, Nat.one_mul]
    omega
  obtain ⟨out, hloop, hsize, hget⟩ := unpack_loop_core oD oS hndD hndS hperm A hAD (lenD LD cD) (lenD LS cS) hsh p bs
    (blockStart nA p) (blockLen nA p) hstlen hdis rcv out0 hfitD
    (unpackIter LS cS jS (oD.idxOf A) bs (oD.map (fun d => oS.idxOf d)) rcv (DView.chunkD 0 oD (lenD LD cD)).toView)
    (by
      intro o i hi
      unfold unpackIter
      have hl : (LS.mpiLengthsAt jS).getD i 0 = blockLen nA p i := by
        rw [mpiLengths_getD LS jS i (by rw [hprocs]; exact hi), hextAt, hprocs]
      have hs : (LS.mpiStartsAt jS).getD i 0 = blockStart nA p i := by
        rw [mpiStarts_getD LS jS i (by rw [hprocs]; exact hi), hextAt, hprocs]
      rw [hl, hs, hshS, set_map_update oS hndS _ jS hjS]
      have hfitB : i * bs + (oS.map (Function.update (lenD LS cS) A (blockLen nA p i))).prod ≤ rcv.size := by
        have h1 := hblk_le i hi
        rcases Nat.eq_zero_or_pos bs with h0 | hpos
        · rw [h0] at h1 ⊢; omega
        · have h2 := hrcvsize hpos
          have h3 : (i + 1) * bs ≤ p * bs := Nat.mul_le_mul_right _ hi
          rw [Nat.add_mul, Nat.one_mul] at h3
          omega
      rw [DView.chunk_toView rcv.size (i * bs) oS hndS _ hfitB])
  refine ⟨_, out, hdv, hloop, hsize, ?_⟩
  rw [holdsBlock_iff LD hndD hmemD]
  intro v hv
  show out[Addr.ravelD oD v (lenD LD cD)]? = _
  have hvA : v A < nA := by have := hv A hAD; rwa [hwhole.1] at this
  obtain ⟨q, hq, hq1, hq2⟩ := owner_exists nA p hp (v A) hvA
  set u : Nat → Nat := Function.update v A (v A - blockStart nA p q) with hu
  have huA : u A = v A - blockStart nA p q := by simp [hu]
  have hu_ne : ∀ d, d ≠ A → u d = v d := fun d hd => by simp [hu, Function.update_of_ne hd]
  have hboxD : ∀ d ∈ oD, u d < Function.update (lenD LD cD) A (blockLen nA p q) d := by
    intro d hd
    by_cases hdA : d = A
    · rw [hdA, Function.update_self, huA]; unfold blockLen; omega
    · rw [Function.update_of_ne hdA, hu_ne d hdA]; exact hv d hd
  have hv_eq : ∀ d ∈ oD, v d = (Function.update u A (blockStart nA p q + u A)) d := by
    intro d _
    by_cases hdA : d = A
    · rw [hdA, Function.update_self, huA]; omega
    · rw [Function.update_of_ne hdA, hu_ne d hdA]
  rw [Addr.ravelD_congr oD v _ _ _ hv_eq (fun _ _ => rfl), hget q hq u hboxD]
  -- the received cell
  have hboxS : Addr.InBoxD oS u (Function.update (lenD LS cS) A (blockLen nA p q)) := by
    intro d hd
    have hdD : d ∈ oD := (hperm.mem_iff).mpr hd
    have := hboxD d hdD
    by_cases hdA : d = A
    · rw [hdA, Function.update_self] at this ⊢; exact this
    · rw [Function.update_of_ne hdA] at this ⊢; rw [hsh d hdD hdA]; exact this
  have hoff := Nat.lt_of_lt_of_le (Addr.ravelD_lt oS u _ hboxS) (hblk_le q hq)
  rw [Array.getD_eq_getD_getElem?, hrcv q hq _ hoff, Option.getD_some]
  -- the source cell of the owner
  have hcq : (cS.set jS q).getD jS 0 = q := getD_set_eq cS jS q hjc
  have hlenq : ∀ d ∈ oS, lenD LS (cS.set jS q) d = Function.update (lenD LS cS) A (blockLen nA p q) d := by
    intro d hd
    by_cases hdA : d = A
    · rw [hdA, Function.update_self, lenD_make npS oS ext _ A hAS, hidxA, hcq]; rfl
    · rw [Function.update_of_ne hdA]; exact (lenS_set npS oS ext jS cS q d hd hdA).1
  have hstq : ∀ d ∈ oS, d ≠ A → startD LS (cS.set jS q) d = startD LS cS d :=
    fun d hd hdA => (lenS_set npS oS ext jS cS q d hd hdA).2
  have hstA : startD LS (cS.set jS q) A = blockStart nA p q := by
    rw [startD_make npS oS ext _ A hAS, hidxA, hcq]
  have h2 := (holdsBlock_iff LS hndS hmemS (cS.set jS q) G (srcs q)).mp (hsrc q hq) u
    (fun d hd => by rw [hlenq d hd]; exact hboxS d hd)
  have h3 : Addr.ravelD LS.ord u (lenD LS (cS.set jS q)) =
      Addr.ravelD oS u (Function.update (lenD LS cS) A (blockLen nA p q)) :=
    Addr.ravelD_congr oS u u _ _ (fun _ _ => rfl) hlenq
  rw [h3] at h2
  rw [Array.getD_eq_getD_getElem?, h2, Option.getD_some]
  congr 2
  have hnd : LS.ndims = LD.ndims := hlen
  rw [hnd]
  apply List.map_congr_left
  intro d hd
  have hdD : d ∈ oD := hmemD d (List.mem_range.mp hd)
  have hdS : d ∈ oS := (hperm.mem_iff).mp hdD
  by_cases hdA : d = A
  · rw [hdA, hstA, hwhole.2, huA]; omega
  · rw [hstq d hdS hdA, hu_ne d hdA, (hsame d hdD hdA).2]

end PygyroVerif.CS
