/-
Helper lemmas for the route-following part of `LayoutHandler.transpose` (Model/Handler.lean `followRoute`):
the buffer-rotation fold moves the field along any path of direct connections.
-/
import PygyroVerif.Model.Handler

namespace PygyroVerif.Route
open PygyroVerif PygyroVerif.Handler

variable {α : Type}

/-- a list of layouts, each reachable from the previous one by a direct connection -/
def IsPath (conn : Nat → Nat → Prop) : Nat → List Nat → Prop
  | _, [] => True
  | a, b :: rest => conn a b ∧ IsPath conn b rest

/-- last layout of the path `now :: steps` -/
def lastOf : Nat → List Nat → Nat
  | now, [] => now
  | _, b :: rest => lastOf b rest

abbrev Step (α : Type) := Nat → Nat → Nat → Nat → Nat → World α → Except String (World α)

/-- contract of one direct change of layout with respect to a family `P i arrs` ("the per-rank arrays `arrs`
    hold the field in layout `i`"): reading role `x`, it succeeds, leaves the field in role `y`, and touches no
    role other than `y` and the scratch role `z`. -/
def StepOK (step : Step α) (P : Nat → Array (Array α) → Prop) (conn : Nat → Nat → Prop)
    (I : World α → Prop := fun _ => True) : Prop :=
  ∀ iS iD x y z (w : World α), I w → conn iS iD → y ≠ x → y ≠ z → P iS (w.getD x #[]) →
    ∃ w', step iS iD x y z w = .ok w' ∧ P iD (w'.getD y #[]) ∧ I w' ∧
      ∀ r, r ≠ y → r ≠ z → w'.getD r #[] = w.getD r #[]

theorem fold_steps (step : Step α) (P : Nat → Array (Array α) → Prop) (conn : Nat → Nat → Prop)
    (I : World α → Prop) (hstep : StepOK step P conn I) :
    ∀ (steps : List Nat) (now fromB toB : Nat) (w : World α), I w → fromB ≠ toB → IsPath conn now steps →
      P now (w.getD fromB #[]) →
      ∃ w' a b, steps.foldlM (loopBody step) (w, now, fromB, toB) = .ok (w', lastOf now steps, a, b) ∧
        P (lastOf now steps) (w'.getD a #[]) ∧ I w' ∧
        ((steps.length % 2 = 0 ∧ a = fromB ∧ b = toB) ∨ (steps.length % 2 = 1 ∧ a = toB ∧ b = fromB)) ∧
        ∀ r, r ≠ fromB → r ≠ toB → w'.getD r #[] = w.getD r #[] := by
  intro steps
  induction steps with
  | nil =>
    intro now fromB toB w hI _ _ hP
    exact ⟨w, fromB, toB, rfl, hP, hI, Or.inl ⟨rfl, rfl, rfl⟩, fun _ _ _ => rfl⟩
  | cons next rest ih =>
    intro now fromB toB w hI hne hpath hP
    obtain ⟨hc, hrest⟩ := hpath
    obtain ⟨w1, h1, hP1, hI1, hfr1⟩ := hstep now next fromB toB fromB w hI hc (Ne.symm hne) (Ne.symm hne) hP
    obtain ⟨w', a, b, h2, hP2, hI2, hpar, hfr2⟩ := ih next toB fromB w1 hI1 (Ne.symm hne) hrest hP1
    refine ⟨w', a, b, ?_, hP2, hI2, ?_, ?_⟩
    · rw [List.foldlM_cons]
      simp only [loopBody, h1]
      exact h2
    · rcases hpar with ⟨hl, ha, hb⟩ | ⟨hl, ha, hb⟩
      · right; refine ⟨?_, ha, hb⟩; simp only [List.length_cons]; omega
      · left; refine ⟨?_, ha, hb⟩; simp only [List.length_cons]; omega
    · intro r hr1 hr2
      rw [hfr2 r hr2 hr1, hfr1 r hr2 hr1]

end PygyroVerif.Route
