/-
Helper lemmas for the advection properties C11 (v-parallel) and C12 (poloidal).
-/
import Mathlib.Algebra.Order.Field.Basic
import Mathlib.Algebra.Order.Archimedean.Basic
import Mathlib.Tactic.Ring
import Mathlib.Tactic.Linarith
import Mathlib.Tactic.NormNum
import Mathlib.Algebra.Order.Field.Rat
import Mathlib.Data.Rat.Floor
import PygyroVerif.Model.VParAdv
import PygyroVerif.Model.PolAdv

namespace PygyroVerif.Advection

open PygyroVerif.VParAdv PygyroVerif.PolAdv PygyroVerif.BSpline

variable {K : Type*} [Field K] [LinearOrder K]

/-! ### the periodic wrap loops -/

theorem wrapUp_of_not_lt {vMin d v : K} (h : ¬ v < vMin) (N : ℕ) : wrapUp vMin d N v = some v := by
  cases N <;> simp [wrapUp, h]

theorem wrapDown_of_not_gt {vMax d v : K} (h : ¬ v > vMax) (N : ℕ) : wrapDown vMax d N v = some v := by
  cases N <;> simp [wrapDown, h]

/-- more fuel does not change a result -/
theorem wrapUp_fuel_le {vMin d : K} : ∀ (N : ℕ) (v w : K), wrapUp vMin d N v = some w →
    ∀ M, N ≤ M → wrapUp vMin d M v = some w
  | 0, v, w, h, M, _ => by
    by_cases hv : v < vMin
    · simp [wrapUp, hv] at h
    · rw [wrapUp_of_not_lt hv] at h ⊢; exact h
  | N+1, v, w, h, M, hM => by
    by_cases hv : v < vMin
    · obtain ⟨M', rfl⟩ : ∃ M', M = M' + 1 := ⟨M - 1, by omega⟩
      simp only [wrapUp, if_pos hv] at h ⊢
      exact wrapUp_fuel_le N _ _ h M' (by omega)
    · rw [wrapUp_of_not_lt hv] at h ⊢; exact h

theorem wrapDown_fuel_le {vMax d : K} : ∀ (N : ℕ) (v w : K), wrapDown vMax d N v = some w →
    ∀ M, N ≤ M → wrapDown vMax d M v = some w
  | 0, v, w, h, M, _ => by
    by_cases hv : v > vMax
    · simp [wrapDown, hv] at h
    · rw [wrapDown_of_not_gt hv] at h ⊢; exact h
  | N+1, v, w, h, M, hM => by
    by_cases hv : v > vMax
    · obtain ⟨M', rfl⟩ : ∃ M', M = M' + 1 := ⟨M - 1, by omega⟩
      simp only [wrapDown, if_pos hv] at h ⊢
      exact wrapDown_fuel_le N _ _ h M' (by omega)
    · rw [wrapDown_of_not_gt hv] at h ⊢; exact h

theorem periodicImage_fuel_le {vMin vMax : K} (N : ℕ) (v w : K) (h : periodicImage vMin vMax N v = some w)
    (M : ℕ) (hM : N ≤ M) : periodicImage vMin vMax M v = some w := by
  unfold periodicImage at h ⊢
  cases h1 : wrapUp vMin (vMax - vMin) N v with
  | none => simp [h1] at h
  | some u =>
    rw [h1] at h
    rw [wrapUp_fuel_le N v u h1 M hM]
    exact wrapDown_fuel_le N u w h M hM

variable [IsStrictOrderedRing K]

/-- `while v < vMin: v += d` with `d > 0` stops after `k ≤ N` additions as soon as `vMin - v ≤ N·d`;
    the result is the first `v + k·d ≥ vMin` -/
theorem wrapUp_spec {vMin d : K} (hd : 0 < d) : ∀ (N : ℕ) (v : K), vMin - v ≤ N * d →
    ∃ k : ℕ, k ≤ N ∧ wrapUp vMin d N v = some (v + k * d) ∧ vMin ≤ v + k * d ∧
      (k = 0 ∨ v + k * d < vMin + d)
  | 0, v, h => by
    have hv : ¬ v < vMin := by simp at h; exact not_lt.mpr h
    exact ⟨0, le_rfl, by simp [wrapUp, hv], by simpa using not_lt.mp hv, Or.inl rfl⟩
  | N+1, v, h => by
    by_cases hv : v < vMin
    · obtain ⟨k, hk, he, hlo, hhi⟩ := wrapUp_spec (vMin := vMin) hd N (v + d) (by push_cast at h; linarith)
      have e : v + ((k + 1 : ℕ) : K) * d = v + d + k * d := by push_cast; ring
      refine ⟨k + 1, by omega, ?_, ?_, Or.inr ?_⟩
      · simp only [wrapUp, if_pos hv]; rw [he, e]
      · rw [e]; exact hlo
      · rw [e]
        rcases hhi with rfl | h'
        · simp; exact hv
        · exact h'
    · exact ⟨0, by omega, by simp [wrapUp, hv], by simpa using not_lt.mp hv, Or.inl rfl⟩

theorem wrapDown_spec {vMax d : K} (hd : 0 < d) : ∀ (N : ℕ) (v : K), v - vMax ≤ N * d →
    ∃ k : ℕ, k ≤ N ∧ wrapDown vMax d N v = some (v - k * d) ∧ v - k * d ≤ vMax ∧
      (k = 0 ∨ vMax - d < v - k * d)
  | 0, v, h => by
    have hv : ¬ v > vMax := by simp at h; exact not_lt.mpr h
    exact ⟨0, le_rfl, by simp [wrapDown, hv], by simpa using not_lt.mp hv, Or.inl rfl⟩
  | N+1, v, h => by
    by_cases hv : v > vMax
    · obtain ⟨k, hk, he, hlo, hhi⟩ := wrapDown_spec (vMax := vMax) hd N (v - d) (by push_cast at h; linarith)
      have e : v - ((k + 1 : ℕ) : K) * d = v - d - k * d := by push_cast; ring
      refine ⟨k + 1, by omega, ?_, ?_, Or.inr ?_⟩
      · simp only [wrapDown, if_pos hv]; rw [he, e]
      · rw [e]; exact hlo
      · rw [e]
        rcases hhi with rfl | h'
        · simp; exact hv
        · exact h'
    · exact ⟨0, by omega, by simp [wrapDown, hv], by simpa using not_lt.mp hv, Or.inl rfl⟩

/-- the periodic image: with enough fuel the two loops return a point of `[vMin, vMax]` that differs from `v` by an
    integer number of widths, and `v` itself if it already lies inside -/
theorem periodicImage_spec {vMin vMax : K} (hw : vMin < vMax) (N : ℕ) (v : K)
    (h1 : vMin - v ≤ N * (vMax - vMin)) (h2 : v - vMax ≤ N * (vMax - vMin)) :
    ∃ w, periodicImage vMin vMax N v = some w ∧ vMin ≤ w ∧ w ≤ vMax ∧
      (∃ k : ℤ, w = v + k * (vMax - vMin)) ∧ (vMin ≤ v → v ≤ vMax → w = v) := by
  have hd : 0 < vMax - vMin := sub_pos.mpr hw
  obtain ⟨k1, _, e1, lo1, hi1⟩ := wrapUp_spec hd N v h1
  have hN : (0 : K) ≤ N * (vMax - vMin) := mul_nonneg (Nat.cast_nonneg N) hd.le
  have h2' : (v + k1 * (vMax - vMin)) - vMax ≤ N * (vMax - vMin) := by
    rcases hi1 with rfl | h
    · simpa using h2
    · linarith
  obtain ⟨k2, _, e2, lo2, hi2⟩ := wrapDown_spec hd N (v + k1 * (vMax - vMin)) h2'
  refine ⟨v + k1 * (vMax - vMin) - k2 * (vMax - vMin), ?_, ?_, lo2, ⟨(k1 : ℤ) - k2, by push_cast; ring⟩, ?_⟩
  · simp [periodicImage, e1, e2]
  · rcases hi2 with rfl | h
    · simpa using lo1
    · linarith
  · intro hlo hhi
    have k1z : k1 = 0 := by
      by_contra hk
      have hk1 : (1 : K) ≤ k1 := by exact_mod_cast Nat.one_le_iff_ne_zero.mpr hk
      rcases hi1 with rfl | h
      · exact hk rfl
      · nlinarith
    subst k1z
    have k2z : k2 = 0 := by
      by_contra hk
      have hk2 : (1 : K) ≤ k2 := by exact_mod_cast Nat.one_le_iff_ne_zero.mpr hk
      rcases hi2 with rfl | h
      · exact hk rfl
      · simp at h; nlinarith
    subst k2z
    simp

/-! ### linearity of the spline evaluation in the coefficients -/

omit [LinearOrder K] [IsStrictOrderedRing K] in
theorem foldl_dot_linear (c1 c2 : ℕ → K) (a : K) (start : ℕ) : ∀ (l : List (K × ℕ)) (x y : K),
    l.foldl (fun acc (bj : K × ℕ) => acc + (a * c1 (start + bj.2) + c2 (start + bj.2)) * bj.1) (a * x + y) =
      a * l.foldl (fun acc (bj : K × ℕ) => acc + c1 (start + bj.2) * bj.1) x +
        l.foldl (fun acc (bj : K × ℕ) => acc + c2 (start + bj.2) * bj.1) y
  | [], x, y => by simp
  | b :: l, x, y => by
    simp only [List.foldl_cons]
    have : a * x + y + (a * c1 (start + b.2) + c2 (start + b.2)) * b.1 =
        a * (x + c1 (start + b.2) * b.1) + (y + c2 (start + b.2) * b.1) := by ring
    rw [this]
    exact foldl_dot_linear c1 c2 a start l _ _

omit [LinearOrder K] [IsStrictOrderedRing K] in
theorem dotFrom_linear (c1 c2 : ℕ → K) (a : K) (start : ℕ) (basis : List K) :
    dotFrom (fun j => a * c1 j + c2 j) start basis = a * dotFrom c1 start basis + dotFrom c2 start basis := by
  unfold dotFrom
  have := foldl_dot_linear c1 c2 a start basis.zipIdx 0 0
  simpa using this

omit [IsStrictOrderedRing K] in
/-- the evaluated spline is linear in its coefficient vector -/
theorem splineEval_linear (t : ℕ → K) (nk degree : ℕ) (c1 c2 : ℕ → K) (a x : K) :
    splineEval t nk degree (fun j => a * c1 j + c2 j) x =
      a * splineEval t nk degree c1 x + splineEval t nk degree c2 x := by
  unfold splineEval evalSpline1D
  cases findSpan t nk degree x with
  | none => simp
  | some span => simp [dotFrom_linear]


/-! ### poloidal advection -/

section Pol

set_option linter.unusedSectionVars false

variable {K : Type*} [Field K] [LinearOrder K]

/-- the drift velocity `(-∂_r φ, ∂_θ φ)/(r·B0)` whose characteristics are traced -/
def drift (E : Evals K) (P : Params K) (q r : K) : K × K :=
  (-(E.drPhi q r) / (r * P.B0), E.dqPhi q r / (r * P.B0))

theorem velAt_in (E : Evals K) (P : Params K) (q r : K) (h1 : P.rMin ≤ r) (h2 : r ≤ P.rMax) :
    velAt E P q r = (E.drPhi q r / r, E.dqPhi q r / r) := by
  have h : ¬ (r < P.rMin ∨ r > P.rMax) := by
    rintro (h | h)
    · exact absurd h1 (not_le.mpr h)
    · exact absurd h2 (not_le.mpr h)
  simp [velAt, h]

theorem velAt_out (E : Evals K) (P : Params K) (q r : K) (h : r < P.rMin ∨ r > P.rMax) :
    velAt E P q r = (0, 0) := by
  simp [velAt, h]

theorem clip_of_mem (P : Params K) (r : K) (h1 : P.rMin ≤ r) (h2 : r ≤ P.rMax) : clip P r = r := by
  simp [clip, not_lt.mpr h1, not_lt.mpr h2]

theorem clip_mem (P : Params K) (h : P.rMin ≤ P.rMax) (r : K) : P.rMin ≤ clip P r ∧ clip P r ≤ P.rMax := by
  unfold clip
  split_ifs with h1 h2
  · exact ⟨le_rfl, h⟩
  · exact ⟨h, le_rfl⟩
  · exact ⟨not_lt.mp h1, not_lt.mp h2⟩

theorem finalVal_in (E : Evals K) (P : Params K) (foot : K × K) (h1 : P.rMin ≤ foot.2) (h2 : foot.2 ≤ P.rMax) :
    finalVal E P foot = .num (E.fhat (E.wrap foot.1) foot.2) := by
  simp [finalVal, not_lt.mpr h1, not_lt.mpr h2]

theorem normUpd_zero : normUpd (0 : K) (0, 0) = 0 := by
  simp [normUpd]

theorem foldl_normUpd_zero : ∀ l : List (K × K), (∀ d ∈ l, d = (0, 0)) → l.foldl normUpd 0 = 0
  | [], _ => rfl
  | d :: l, h => by
    have hd : d = (0, 0) := h d (by simp)
    subst hd
    rw [List.foldl_cons, normUpd_zero]
    exact foldl_normUpd_zero l (fun d hd => h d (by simp [hd]))

theorem mem_nodeList (qPts rPts : ℕ → K) (nq nr : ℕ) (n : K × K) :
    n ∈ nodeList qPts rPts nq nr ↔ ∃ i, i < nq ∧ ∃ j, j < nr ∧ n = (qPts i, rPts j) := by
  simp only [nodeList, List.mem_flatMap, List.mem_range, List.mem_map]
  constructor
  · rintro ⟨i, hi, j, hj, rfl⟩; exact ⟨i, hi, j, hj, rfl⟩
  · rintro ⟨i, hi, j, hj, rfl⟩; exact ⟨i, hi, j, hj, rfl⟩

/-- a sweep in which every node reports zero differences -/
theorem sweep_of_nodes (E : Evals K) (P : Params K) (period half : K) (init g : K × K → K × K) :
    ∀ nodes : List (K × K),
      (∀ n ∈ nodes, implNode E P period half n.1 n.2 (init n) = (g n, (0, 0))) →
      sweep E P period half nodes (nodes.map init) = (nodes.map g, 0) := by
  intro nodes h
  have hres : ∀ l : List (K × K), (∀ n ∈ l, implNode E P period half n.1 n.2 (init n) = (g n, (0, 0))) →
      (l.zip (l.map init)).map (fun ns => implNode E P period half ns.1.1 ns.1.2 ns.2) =
        l.map (fun n => (g n, ((0 : K), (0 : K)))) := by
    intro l
    induction l with
    | nil => intro _; rfl
    | cons a l ih =>
      intro hl
      simp only [List.map_cons, List.zip_cons_cons]
      rw [hl a (by simp), ih (fun n hn => hl n (by simp [hn]))]
  unfold sweep
  simp only [hres nodes h, List.map_map]
  refine Prod.ext ?_ ?_
  · simp [Function.comp_def]
  · refine foldl_normUpd_zero _ ?_
    intro d hd
    simp only [List.mem_map, Function.comp] at hd
    obtain ⟨n, _, rfl⟩ := hd
    rfl

/-- if the first sweep reports zero differences at every node the implicit iteration stops after that sweep -/
theorem implStep_one_sweep (E : Evals K) (P : Params K) (period half tol : K) (fuel : ℕ) (qPts rPts : ℕ → K)
    (nq nr : ℕ) (g : K × K → K × K) (htol : 0 ≤ tol)
    (h : ∀ n ∈ nodeList qPts rPts nq nr,
      implNode E P period half n.1 n.2 (implInit E P n.1 n.2) = (g n, (0, 0))) :
    implStep E P period half tol id (fuel + 1) qPts rPts nq nr =
      some (((nodeList qPts rPts nq nr).map g).map (finalVal E P), (nodeList qPts rPts nq nr).map g, 1, [0]) := by
  unfold implStep
  simp only [id]
  have hs := sweep_of_nodes E P period half (fun n => implInit E P n.1 n.2) g _ h
  simp only [implLoop, hs, not_lt.mpr htol, if_false]
  simp

theorem sweep_feet_in_domain (E : Evals K) (P : Params K) (period half : K) (hr : P.rMin ≤ P.rMax)
    (nodes state : List (K × K)) :
    ∀ p ∈ (sweep E P period half nodes state).1, P.rMin ≤ p.2 ∧ p.2 ≤ P.rMax := by
  intro p hp
  simp only [sweep, List.mem_map] at hp
  obtain ⟨x, ⟨ns, _, rfl⟩, rfl⟩ := hp
  exact clip_mem P hr _

theorem implLoop_feet_in_domain (E : Evals K) (P : Params K) (period half tol : K) (hr : P.rMin ≤ P.rMax)
    (nodes : List (K × K)) : ∀ (fuel : ℕ) (state : List (K × K)) (cnt : ℕ) (norms : List K)
      (res : List (K × K) × ℕ × List K),
      implLoop E P period half tol id nodes fuel state cnt norms = some res →
      ∀ p ∈ res.1, P.rMin ≤ p.2 ∧ p.2 ≤ P.rMax
  | 0, _, _, _, _, h => by simp [implLoop] at h
  | fuel+1, state, cnt, norms, res, h => by
    simp only [implLoop, id] at h
    split_ifs at h with hn
    · exact implLoop_feet_in_domain E P period half tol hr nodes fuel _ _ _ res h
    · simp only [Option.some.injEq] at h
      subst h
      intro p hp
      simp only [List.mem_map] at hp
      obtain ⟨x, hx, rfl⟩ := hp
      exact sweep_feet_in_domain E P period half hr nodes state x hx

/-- the end points after `k` sweeps of the exact iteration (`rnd = id`) -/
def iterState (E : Evals K) (P : Params K) (period half : K) (nodes : List (K × K)) (k : ℕ) (state : List (K × K)) :
    List (K × K) :=
  (fun s => (sweep E P period half nodes s).1)^[k] state

/-- if some sweep among the first `fuel` reports a norm ≤ tol, the loop returns -/
theorem implLoop_isSome_of_small_norm (E : Evals K) (P : Params K) (period half tol : K) (nodes : List (K × K)) :
    ∀ (fuel : ℕ) (state : List (K × K)) (cnt : ℕ) (norms : List K),
      (∃ k, k < fuel ∧ (sweep E P period half nodes (iterState E P period half nodes k state)).2 ≤ tol) →
      (implLoop E P period half tol id nodes fuel state cnt norms).isSome
  | 0, _, _, _, ⟨k, hk, _⟩ => by omega
  | fuel+1, state, cnt, norms, ⟨k, hk, hn⟩ => by
    simp only [implLoop, id]
    split_ifs with h
    · cases k with
      | zero => exact absurd hn (not_le.mpr h)
      | succ k' =>
        have hmap : (sweep E P period half nodes state).1.map (fun p => (p.1, p.2)) =
            (sweep E P period half nodes state).1 := by simp
        rw [hmap]
        apply implLoop_isSome_of_small_norm E P period half tol nodes fuel
        refine ⟨k', by omega, ?_⟩
        simpa [iterState, Function.iterate_succ_apply] using hn
    · simp

end Pol

/-! ### concrete instances over ℚ for the non-vacuity examples of Props/C12 -/

section Examples

/-- concrete evaluators over ℚ used by the non-vacuity examples: φ = ω r²/2 with ω = 3, f̂(θ, r) = θ + r,
    `wrap` = reduction modulo 6 -/
def exE : Evals ℚ := { drPhi := fun _ r => 3 * r, dqPhi := fun _ _ => 0, fhat := fun q r => q + r, wrap := pmod 6 }
/-- radial domain [1, 4], dt = 1/2, B0 = 2 -/
def exP (nul : Bool) : Params ℚ := { dt := 1 / 2, B0 := 2, v := 1, rMin := 1, rMax := 4, nul := nul }

/-- a constant potential over ℚ: nodes θ ∈ {0,1,2}, r ∈ {1,2,3}, `wrap` = reduction modulo 6 -/
def exE0 : Evals ℚ := { drPhi := fun _ _ => 0, dqPhi := fun _ _ => 0, fhat := fun q r => q + r, wrap := pmod 6 }

theorem pmod6_nat (i : ℕ) (hi : i < 3) : pmod (6 : ℚ) (i : ℚ) = i := by
  have : i = 0 ∨ i = 1 ∨ i = 2 := by omega
  rcases this with rfl | rfl | rfl <;> norm_num [pmod, Int.floor_eq_iff]

theorem pmod_idem (p x : ℚ) (hp : 0 < p) : pmod p (pmod p x) = pmod p x := by
  unfold pmod
  have h0 : 0 ≤ x - p * ((⌊x / p⌋ : ℤ) : ℚ) := by
    have := Int.floor_le (x / p)
    rw [le_div_iff₀ hp] at this
    linarith
  have h1 : x - p * ((⌊x / p⌋ : ℤ) : ℚ) < p := by
    have := Int.lt_floor_add_one (x / p)
    rw [div_lt_iff₀ hp] at this
    linarith
  have : ⌊(x - p * ((⌊x / p⌋ : ℤ) : ℚ)) / p⌋ = 0 := by
    rw [Int.floor_eq_iff]
    constructor
    · simpa using div_nonneg h0 hp.le
    · simpa using (div_lt_one hp).mpr h1
  rw [this]
  simp

end Examples

end PygyroVerif.Advection
