/-
Foundations for the bridge theorem of C01 (`Lemmas/DirectStep*.lean`, `Props/C01Extra.lean`):

* `prodL` (foldl) is `List.prod`; the address `Σ idx_k · stride_k` of a C-contiguous view is `Addr.ravel`;
* *dimension-labelled views* `DView`: a numpy view whose axes are labelled by (distinct) dimension ids `lab`,
  with the extent `sh d` and the stride `g d` of every labelled dimension given as functions.  The numpy operations
  the layout code uses (`reshape` of a flat chunk, `transpose`, basic slicing of every axis) act on the labelled
  form in the obvious way, and the address of the element with dimension-indexed multi-index `u` is
  `off + Σ_{d ∈ lab} u d · g d`, *independent of the order of the axes*;
* the pointwise meaning of `dstView[...] = srcView` (`assignView`) between two labelled views.
-/
import PygyroVerif.Model.NDView
import PygyroVerif.Model.Handler
import PygyroVerif.Lemmas.CopyBox
import PygyroVerif.Lemmas.TransposeCore
import Mathlib.Algebra.BigOperators.Group.List.Basic
import Mathlib.Logic.Basic
import Mathlib.Logic.Function.Basic
import Mathlib.Tactic.Ring
import Mathlib.Tactic.Linarith

namespace PygyroVerif.DS
open PygyroVerif PygyroVerif.CopyBox

/-! ### products, strides, addresses -/

theorem prodL_eq_prod (l : List Nat) : prodL l = l.prod := by
  unfold prodL; exact List.prod_eq_foldl.symm

theorem cStrides_length : ∀ (shape : List Nat), (cStrides shape).length = shape.length
  | [] => rfl
  | _ :: ns => by simp [cStrides, cStrides_length ns]

/-- the stride-weighted sum over the C-order strides is the C-order address -/
theorem dot_cStrides : ∀ (idx shape : List Nat), dot idx (cStrides shape) = Addr.ravel idx shape
  | [], _ => by cases ‹List Nat› <;> simp [dot, Addr.ravel]
  | _ :: _, [] => by simp [dot, Addr.ravel, cStrides]
  | i :: is, n :: ns => by
    simp only [cStrides, dot, Addr.ravel, prodL_eq_prod, dot_cStrides is ns]

theorem inBox_iff_addr : ∀ (idx shape : List Nat), InBox idx shape ↔ Addr.InBox idx shape
  | [], [] => Iff.rfl
  | [], _ :: _ => Iff.rfl
  | _ :: _, [] => Iff.rfl
  | i :: is, n :: ns => by
    simp only [InBox, Addr.InBox, inBox_iff_addr is ns]

theorem inBox_length : ∀ (idx shape : List Nat), InBox idx shape → idx.length = shape.length
  | [], [], _ => rfl
  | [], _ :: _, h => by simp [InBox] at h
  | _ :: _, [], h => by simp [InBox] at h
  | i :: is, n :: ns, h => by simp [inBox_length is ns h.2]

theorem inBox_map_iff (lab : List Nat) (u sh : Nat → Nat) :
    InBox (lab.map u) (lab.map sh) ↔ ∀ d ∈ lab, u d < sh d := by
  induction lab with
  | nil => simp [InBox]
  | cons a l ih => simp only [List.map_cons, InBox, ih, List.mem_cons, forall_eq_or_imp]

/-- a list as long as a duplicate-free label list is the image of the labels -/
theorem list_eq_map_idxOf {β : Type} (dflt : β) (lab : List Nat) (hnd : lab.Nodup) (l : List β)
    (hlen : l.length = lab.length) : l = lab.map (fun d => l.getD (lab.idxOf d) dflt) := by
  apply List.ext_getElem (by simp [hlen])
  intro i h1 h2
  have hi : i < lab.length := by simpa using h2
  simp only [List.getElem_map, hnd.idxOf_getElem i hi, List.getD_eq_getElem?_getD, List.getElem?_eq_getElem h1,
    Option.getD_some]

/-- every multi-index of a labelled box is the image of a dimension-indexed multi-index -/
theorem inBox_eq_map (lab : List Nat) (hnd : lab.Nodup) (sh : Nat → Nat) (idx : List Nat)
    (h : InBox idx (lab.map sh)) : idx = lab.map (fun d => idx.getD (lab.idxOf d) 0) :=
  list_eq_map_idxOf 0 lab hnd idx (by rw [inBox_length _ _ h, List.length_map])

theorem dot_map_map (lab : List Nat) (u g : Nat → Nat) :
    dot (lab.map u) (lab.map g) = (lab.map (fun d => u d * g d)).sum := by
  induction lab with
  | nil => simp [dot]
  | cons a l ih => simp only [List.map_cons, dot, ih, List.sum_cons]

theorem getD_lt {β : Type} (l : List β) (k : Nat) (hk : k < l.length) (dflt : β) : l.getD k dflt = l[k] := by
  rw [List.getD_eq_getElem?_getD, List.getElem?_eq_getElem hk, Option.getD_some]

theorem getD_map_idxOf {β : Type} (dflt : β) (lab : List Nat) (f : Nat → β) (d : Nat) (hd : d ∈ lab) :
    (lab.map f).getD (lab.idxOf d) dflt = f d := by
  have hlt : lab.idxOf d < lab.length := List.idxOf_lt_length_iff.mpr hd
  rw [List.getD_eq_getElem?_getD, List.getElem?_eq_getElem (by simpa using hlt)]
  simp [List.getElem_idxOf hlt]

theorem getD_map_lt {β : Type} (dflt : β) (lab : List Nat) (f : Nat → β) (k : Nat) (hk : k < lab.length) :
    (lab.map f).getD k dflt = f (lab.getD k 0) := by
  rw [getD_lt _ k (by simpa using hk), getD_lt _ k hk, List.getElem_map]

/-- overwriting position `k` of the image of a duplicate-free label list = updating the function at label `lab[k]` -/
theorem set_map_update {β : Type} (lab : List Nat) (hnd : lab.Nodup) (f : Nat → β) (k : Nat) (hk : k < lab.length) (x : β) :
    (lab.map f).set k x = lab.map (Function.update f (lab.getD k 0) x) := by
  apply List.ext_getElem (by simp)
  intro i h1 h2
  have hi : i < lab.length := by simpa using h2
  have hkk : lab.getD k 0 = lab[k] := getD_lt lab k hk 0
  simp only [List.getElem_set, List.getElem_map, hkk]
  by_cases hki : k = i
  · subst hki; simp
  · have : lab[i] ≠ lab[k] := fun e => hki ((List.getElem_inj hnd).mp e).symm
    simp [hki, Function.update_of_ne this]

/-! ### dimension-labelled views -/

structure DView where
  off : Nat
  lab : List Nat
  sh : Nat → Nat
  g : Nat → Nat

namespace DView

def toView (D : DView) : View := { off := D.off, shape := D.lab.map D.sh, strides := D.lab.map D.g }

/-- flat address of the element with dimension-indexed multi-index `u` -/
def addr (D : DView) (u : Nat → Nat) : Nat := D.off + (D.lab.map (fun d => u d * D.g d)).sum

/-- `u` is a multi-index of the view -/
def Box (D : DView) (u : Nat → Nat) : Prop := ∀ d ∈ D.lab, u d < D.sh d

theorem addr_congr (D : DView) (u v : Nat → Nat) (h : ∀ d ∈ D.lab, u d = v d) : D.addr u = D.addr v := by
  unfold addr
  rw [List.map_congr_left (fun d hd => by rw [h d hd])]

/-- the address does not depend on the order of the axes -/
theorem addr_perm (D : DView) (lab' : List Nat) (hp : lab'.Perm D.lab) (u : Nat → Nat) :
    ({ D with lab := lab' } : DView).addr u = D.addr u := by
  unfold addr
  exact congrArg (D.off + ·) ((hp.map _).sum_eq)

/-- `v.transpose(order)`: the axes are re-labelled -/
theorem toView_transpose (D : DView) (order : List Nat) (ho : ∀ k ∈ order, k < D.lab.length) :
    D.toView.transpose order = ({ D with lab := order.map (fun k => D.lab.getD k 0) } : DView).toView := by
  unfold toView View.transpose
  simp only [List.map_map, View.mk.injEq, true_and]
  constructor
  · apply List.map_congr_left
    intro k hk
    simp only [Function.comp_apply]
    exact getD_map_lt 1 D.lab D.sh k (ho k hk)
  · apply List.map_congr_left
    intro k hk
    simp only [Function.comp_apply]
    exact getD_map_lt 0 D.lab D.g k (ho k hk)

/-- `np.transpose(v, [lab.index(d) for d in lab'])` re-labels the axes to `lab'` -/
theorem toView_transpose_idxOf (D : DView) (lab' : List Nat) (hsub : ∀ d ∈ lab', d ∈ D.lab) :
    D.toView.transpose (lab'.map (fun d => D.lab.idxOf d)) = ({ D with lab := lab' } : DView).toView := by
  rw [toView_transpose]
  · congr 2
    rw [List.map_map]
    conv_rhs => rw [← List.map_id lab']
    apply List.map_congr_left
    intro d hd
    have hlt : D.lab.idxOf d < D.lab.length := List.idxOf_lt_length_iff.mpr (hsub d hd)
    simp [List.getD_eq_getElem?_getD, List.getElem?_eq_getElem hlt, List.getElem_idxOf hlt]
  · intro k hk
    obtain ⟨d, hd, rfl⟩ := List.mem_map.mp hk
    exact List.idxOf_lt_length_iff.mpr (hsub d hd)

/-- numpy's clamping of `[a:b]` on an axis of extent `n` -/
def cHi (n : Nat) (r : Nat × Nat) : Nat := min r.2 n
def cLo (n : Nat) (r : Nat × Nat) : Nat := min r.1 (cHi n r)

/-- slicing the axis of one labelled dimension -/
theorem toView_slice (D : DView) (hnd : D.lab.Nodup) (k : Nat) (hk : k < D.lab.length) (a b : Nat)
    (d : Nat) (hd : D.lab.getD k 0 = d) (n : Nat) (hn : D.sh d = n) :
    D.toView.slice k a b =
      ({ D with off := D.off + cLo n (a, b) * D.g d,
                sh := Function.update D.sh d (cHi n (a, b) - cLo n (a, b)) } : DView).toView := by
  subst hd hn
  unfold toView View.slice
  simp only [getD_map_lt 0 D.lab D.sh k hk, getD_map_lt 0 D.lab D.g k hk, cHi, cLo, View.mk.injEq, true_and, and_true]
  exact set_map_update D.lab hnd D.sh k hk _

/-- slicing every axis: `rng d = (a, b)` is the slice `[a:b]` applied to the axis of dimension `d` -/
def sliceD (D : DView) (rng : Nat → Nat × Nat) : DView :=
  { off := D.off + (D.lab.map (fun d => cLo (D.sh d) (rng d) * D.g d)).sum,
    lab := D.lab,
    sh := fun d => cHi (D.sh d) (rng d) - cLo (D.sh d) (rng d),
    g := D.g }

/-- state of the slicing loop after the first `k` axes -/
def slicePart (D : DView) (rng : Nat → Nat × Nat) (k : Nat) : DView :=
  { off := D.off + ((D.lab.take k).map (fun d => cLo (D.sh d) (rng d) * D.g d)).sum,
    lab := D.lab,
    sh := fun d => if D.lab.idxOf d < k then cHi (D.sh d) (rng d) - cLo (D.sh d) (rng d) else D.sh d,
    g := D.g }

theorem sliceRanges_part (D : DView) (hnd : D.lab.Nodup) (rng : Nat → Nat × Nat) :
    ∀ k, k ≤ D.lab.length →
      (List.range k).foldl (fun v j => v.slice j ((D.lab.map rng).getD j (0,0)).1 ((D.lab.map rng).getD j (0,0)).2) D.toView
        = (D.slicePart rng k).toView := by
  intro k
  induction k with
  | zero =>
    intro _
    simp [slicePart, toView]
  | succ k ih =>
    intro hk
    have hk' : k < D.lab.length := by omega
    rw [List.range_succ, List.foldl_append, ih (by omega)]
    simp only [List.foldl_cons, List.foldl_nil]
    have hlk : D.lab.getD k 0 = D.lab[k] := getD_lt D.lab k hk' 0
    have hidx : D.lab.idxOf D.lab[k] = k := hnd.idxOf_getElem k hk'
    have hrng : (D.lab.map rng).getD k (0,0) = rng D.lab[k] := by rw [getD_map_lt (0,0) D.lab rng k hk', hlk]
    rw [hrng, toView_slice (D.slicePart rng k) hnd k hk' _ _ D.lab[k] hlk (D.sh D.lab[k])
      (by simp only [slicePart, hidx, Nat.lt_irrefl, if_false])]
    unfold toView
    simp only [slicePart, View.mk.injEq, Prod.mk.eta]
    refine ⟨?_, ?_, trivial⟩
    · rw [List.take_add_one, List.getElem?_eq_getElem hk']
      simp only [Option.toList_some, List.map_append, List.map_cons, List.map_nil, List.sum_append, List.sum_cons,
        List.sum_nil]
      omega
    · apply List.map_congr_left
      intro d hd
      by_cases hdk : d = D.lab[k]
      · subst hdk
        simp only [Function.update_self, hidx, Nat.lt_succ_self, if_true]
      · rw [Function.update_of_ne hdk]
        have hne : D.lab.idxOf d ≠ k := by
          intro e
          apply hdk
          have hlt : D.lab.idxOf d < D.lab.length := List.idxOf_lt_length_iff.mpr hd
          have := List.getElem_idxOf hlt
          rw [← this]
          congr 1
        by_cases h1 : D.lab.idxOf d < k
        · have : D.lab.idxOf d < k + 1 := by omega
          simp only [h1, this, if_true]
        · have : ¬ D.lab.idxOf d < k + 1 := by omega
          simp only [h1, this, if_false]

/-- `v[tuple(slice(a_k, b_k) for k)]` on a labelled view -/
theorem sliceRanges_toView (D : DView) (hnd : D.lab.Nodup) (rng : Nat → Nat × Nat) :
    Handler.sliceRanges D.toView (D.lab.map rng) = (D.sliceD rng).toView := by
  unfold Handler.sliceRanges
  rw [List.length_map, sliceRanges_part D hnd rng D.lab.length (Nat.le_refl _)]
  unfold toView slicePart sliceD
  simp only [List.take_length, View.mk.injEq, true_and, and_true]
  apply List.map_congr_left
  intro d hd
  have : D.lab.idxOf d < D.lab.length := List.idxOf_lt_length_iff.mpr hd
  simp [this]

/-- `v[tuple(slice(ub_k) for k)]` on a labelled view -/
theorem sliceAll_toView (D : DView) (hnd : D.lab.Nodup) (ub : Nat → Nat) :
    Handler.sliceAll D.toView (D.lab.map ub) = (D.sliceD (fun d => (0, ub d))).toView := by
  rw [← sliceRanges_toView D hnd]
  unfold Handler.sliceAll Handler.sliceRanges
  simp only [List.length_map]
  apply List.foldl_ext
  intro v k hk
  have hk' : k < D.lab.length := List.mem_range.mp hk
  rw [getD_map_lt (0,0) D.lab _ k hk', getD_map_lt 0 D.lab ub k hk']

theorem sliceD_addr (D : DView) (rng : Nat → Nat × Nat) (u : Nat → Nat) :
    (D.sliceD rng).addr u = D.addr (fun d => cLo (D.sh d) (rng d) + u d) := by
  unfold sliceD addr
  simp only [Nat.add_mul, List.sum_map_add]
  omega

/-- a slice `[a:b]` with `a ≤ b ≤ n` is not clamped -/
theorem cLo_eq (n : Nat) (r : Nat × Nat) (h1 : r.1 ≤ r.2) (h2 : r.2 ≤ n) : cLo n r = r.1 := by
  unfold cLo cHi; omega
theorem cLen_eq (n : Nat) (r : Nat × Nat) (h1 : r.1 ≤ r.2) (h2 : r.2 ≤ n) : cHi n r - cLo n r = r.2 - r.1 := by
  unfold cLo cHi; omega

/-- stride of dimension `d` in a C-contiguous block whose axes are labelled `lab` with extents `sh` -/
def cg (lab : List Nat) (sh : Nat → Nat) (d : Nat) : Nat := (cStrides (lab.map sh)).getD (lab.idxOf d) 0

/-- `buf[off : off + prod(shape)].reshape(shape)` as a labelled view -/
def chunkD (off : Nat) (lab : List Nat) (sh : Nat → Nat) : DView := { off := off, lab := lab, sh := sh, g := cg lab sh }

theorem chunk_toView (len off : Nat) (lab : List Nat) (hnd : lab.Nodup) (sh : Nat → Nat)
    (hfit : off + (lab.map sh).prod ≤ len) :
    View.chunk len off (lab.map sh) = some (chunkD off lab sh).toView := by
  unfold View.chunk
  rw [prodL_eq_prod, if_pos hfit]
  unfold chunkD toView
  simp only [Option.some.injEq, View.mk.injEq, true_and]
  exact list_eq_map_idxOf 0 lab hnd _ (by rw [cStrides_length, List.length_map])

theorem chunkD_addr (off : Nat) (lab : List Nat) (hnd : lab.Nodup) (sh u : Nat → Nat) :
    (chunkD off lab sh).addr u = off + Addr.ravelD lab u sh := by
  unfold chunkD addr Addr.ravelD
  simp only
  rw [← dot_map_map, ← dot_cStrides]
  congr 2
  exact (list_eq_map_idxOf 0 lab hnd _ (by rw [cStrides_length, List.length_map])).symm

end DView

/-! ### `dstView[...] = srcView` between labelled views -/

section Assign
variable {α : Type} [Inhabited α]

/-- **pointwise meaning of a numpy assignment between labelled views** with the same axis labels and extents: if the
    destination addresses of the box are in bounds and pairwise different, numpy raises nothing, every element `u` of
    the box is copied from its source cell to its destination cell, and all other cells are unchanged. -/
theorem assign_DView (dst src : Array α) (Dd Ds : DView) (hlab : Ds.lab = Dd.lab) (hnd : Dd.lab.Nodup)
    (hsh : ∀ d ∈ Dd.lab, Ds.sh d = Dd.sh d)
    (hb : ∀ u, Dd.Box u → Dd.addr u < dst.size)
    (hinj : ∀ u u', Dd.Box u → Dd.Box u' → Dd.addr u = Dd.addr u' → ∀ d ∈ Dd.lab, u d = u' d) :
    ∃ out, assignView dst Dd.toView src Ds.toView = some out ∧ out.size = dst.size ∧
      (∀ u, Dd.Box u → out[Dd.addr u]? = some (src.getD (Ds.addr u) default)) ∧
      (∀ j, (¬ ∃ u, Dd.Box u ∧ Dd.addr u = j) → out[j]? = dst[j]?) := by
  have hshape : Dd.toView.shape = Ds.toView.shape := by
    unfold DView.toView
    simp only [hlab]
    exact (List.map_congr_left hsh).symm
  have hlenD : Dd.toView.shape.length = Dd.toView.strides.length := by simp [DView.toView]
  have hlenS : Ds.toView.shape.length = Ds.toView.strides.length := by simp [DView.toView]
  have hdotD : ∀ u : Nat → Nat, dot (Dd.lab.map u) Dd.toView.strides = (Dd.lab.map (fun d => u d * Dd.g d)).sum :=
    fun u => dot_map_map Dd.lab u Dd.g
  have hdotS : ∀ u : Nat → Nat, dot (Dd.lab.map u) Ds.toView.strides = (Ds.lab.map (fun d => u d * Ds.g d)).sum := by
    intro u
    have := dot_map_map Ds.lab u Ds.g
    unfold DView.toView
    rw [hlab] at this ⊢
    exact this
  have hbox : ∀ idx, InBox idx Dd.toView.shape →
      ∃ u : Nat → Nat, idx = Dd.lab.map u ∧ Dd.Box u := by
    intro idx hidx
    refine ⟨fun d => idx.getD (Dd.lab.idxOf d) 0, inBox_eq_map Dd.lab hnd Dd.sh idx hidx, ?_⟩
    have h2 := hidx
    rw [inBox_eq_map Dd.lab hnd Dd.sh idx hidx] at h2
    exact (inBox_map_iff _ _ _).mp h2
  refine ⟨_, assignView_same_shape dst src Dd.toView Ds.toView hshape hlenS, copyBox_size _ _ _ _ _ _ _, ?_, ?_⟩
  · intro u hu
    have hidx : InBox (Dd.lab.map u) Dd.toView.shape := (inBox_map_iff _ _ _).mpr hu
    have := copyBox_get Dd.toView.shape Dd.toView.strides Ds.toView.strides Dd.toView.off Ds.toView.off dst src
      (Dd.lab.map u) hlenD (by rw [hshape]; exact hlenS) ?_ ?_ hidx
    · rw [hdotD, hdotS] at this
      exact this
    · intro i hi
      obtain ⟨v, rfl, hv⟩ := hbox i hi
      rw [hdotD]
      exact hb v hv
    · intro i i' hi hi' he
      obtain ⟨v, rfl, hv⟩ := hbox i hi
      obtain ⟨v', rfl, hv'⟩ := hbox i' hi'
      rw [hdotD, hdotD] at he
      apply List.map_congr_left
      exact hinj v v' hv hv' (by unfold DView.addr; rw [he])
  · intro j hj
    apply copyBox_frame _ _ _ _ _ _ _ j hlenD (by rw [hshape]; exact hlenS)
    rintro ⟨idx, hidx, he⟩
    obtain ⟨v, rfl, hv⟩ := hbox idx hidx
    rw [hdotD] at he
    exact hj ⟨v, hv, he⟩

/-- an unsliced view is the view sliced with `[0:extent]` on every axis -/
theorem DView.sliceD_trivial (D : DView) : (D.sliceD (fun d => (0, D.sh d))).toView = D.toView := by
  unfold DView.sliceD DView.toView
  have h0 : (D.lab.map (fun d => DView.cLo (D.sh d) (0, D.sh d) * D.g d)).sum = 0 := by
    apply List.sum_eq_zero
    intro x hx
    obtain ⟨d, _, rfl⟩ := List.mem_map.mp hx
    simp [DView.cLo]
  simp only [h0, Nat.add_zero, View.mk.injEq, true_and, and_true]
  apply List.map_congr_left
  intro d _
  simp [DView.cHi, DView.cLo]

/-- **the assignments of the transposition code**: `chunkD[rngD] = chunkS[rngS].transpose(...)`, both sides slices
    (not clamped, of equal extents) of C-contiguous reshaped chunks of flat buffers, the source axes permuted to the
    destination's.  Every element of the sliced box is copied, everything else in `dst` is unchanged. -/
theorem assign_sliced_chunks (dst src : Array α) (offD : Nat) (labD : List Nat) (shD : Nat → Nat) (rngD : Nat → Nat × Nat)
    (offS : Nat) (labS : List Nat) (shS : Nat → Nat) (rngS : Nat → Nat × Nat)
    (hndD : labD.Nodup) (hndS : labS.Nodup) (hperm : labD.Perm labS)
    (hrD : ∀ d ∈ labD, (rngD d).1 ≤ (rngD d).2 ∧ (rngD d).2 ≤ shD d)
    (hrS : ∀ d ∈ labD, (rngS d).1 ≤ (rngS d).2 ∧ (rngS d).2 ≤ shS d)
    (hlen : ∀ d ∈ labD, (rngS d).2 - (rngS d).1 = (rngD d).2 - (rngD d).1)
    (hfit : offD + (labD.map shD).prod ≤ dst.size) :
    ∃ out, assignView dst ((DView.chunkD offD labD shD).sliceD rngD).toView src
        ({ (DView.chunkD offS labS shS).sliceD rngS with lab := labD } : DView).toView = some out ∧
      out.size = dst.size ∧
      (∀ u : Nat → Nat, (∀ d ∈ labD, u d < (rngD d).2 - (rngD d).1) →
        out[offD + Addr.ravelD labD (fun d => (rngD d).1 + u d) shD]? =
          some (src.getD (offS + Addr.ravelD labS (fun d => (rngS d).1 + u d) shS) default)) ∧
      (∀ j, (∀ u : Nat → Nat, (∀ d ∈ labD, u d < (rngD d).2 - (rngD d).1) →
          offD + Addr.ravelD labD (fun d => (rngD d).1 + u d) shD ≠ j) → out[j]? = dst[j]?) := by
  set Dd := (DView.chunkD offD labD shD).sliceD rngD with hDd
  set Ds0 := (DView.chunkD offS labS shS).sliceD rngS with hDs0
  set Ds : DView := { Ds0 with lab := labD } with hDs
  have hlabDd : Dd.lab = labD := rfl
  have hbox : ∀ u : Nat → Nat, Dd.Box u ↔ ∀ d ∈ labD, u d < (rngD d).2 - (rngD d).1 := by
    intro u
    unfold DView.Box
    rw [hlabDd]
    constructor
    · intro h d hd
      have := h d hd
      simp only [hDd, DView.sliceD, DView.chunkD] at this
      rwa [DView.cLen_eq _ _ (hrD d hd).1 (hrD d hd).2] at this
    · intro h d hd
      simp only [hDd, DView.sliceD, DView.chunkD]
      rw [DView.cLen_eq _ _ (hrD d hd).1 (hrD d hd).2]
      exact h d hd
  have haddrD : ∀ u, Dd.addr u = offD + Addr.ravelD labD (fun d => (rngD d).1 + u d) shD := by
    intro u
    rw [hDd, DView.sliceD_addr, DView.chunkD_addr offD labD hndD]
    congr 1
    apply Addr.ravelD_congr _ _ _ _ _ _ (fun _ _ => rfl)
    intro d hd
    simp only [DView.chunkD]
    rw [DView.cLo_eq _ _ (hrD d hd).1 (hrD d hd).2]
  have haddrS : ∀ u, Ds.addr u = offS + Addr.ravelD labS (fun d => (rngS d).1 + u d) shS := by
    intro u
    have hp : labD.Perm Ds0.lab := hperm
    rw [hDs, DView.addr_perm Ds0 labD hp u, hDs0, DView.sliceD_addr, DView.chunkD_addr offS labS hndS]
    congr 1
    apply Addr.ravelD_congr _ _ _ _ _ _ (fun _ _ => rfl)
    intro d hd
    have hdD : d ∈ labD := (hperm.mem_iff).mpr hd
    simp only [DView.chunkD]
    rw [DView.cLo_eq _ _ (hrS d hdD).1 (hrS d hdD).2]
  have hin : ∀ u, Dd.Box u → Addr.InBoxD labD (fun d => (rngD d).1 + u d) shD := by
    intro u hu d hd
    have := (hbox u).mp hu d hd
    have := hrD d hd
    simp only
    omega
  obtain ⟨out, hassign, hsize, hget, hframe⟩ := assign_DView dst src Dd Ds rfl hndD
    (fun d hd => by
      simp only [hDs, hDs0, hDd, DView.sliceD, DView.chunkD]
      have hdD : d ∈ labD := hd
      rw [DView.cLen_eq _ _ (hrS d hdD).1 (hrS d hdD).2, DView.cLen_eq _ _ (hrD d hdD).1 (hrD d hdD).2]
      exact hlen d hdD)
    (fun u hu => by
      rw [haddrD]
      have := Addr.ravelD_lt labD _ shD (hin u hu)
      omega)
    (fun u u' hu hu' he => by
      rw [haddrD, haddrD] at he
      have := Addr.ravelD_inj labD _ _ shD (hin u hu) (hin u' hu') (by omega)
      intro d hd
      have := this d hd
      omega)
  refine ⟨out, hassign, hsize, ?_, ?_⟩
  · intro u hu
    have := hget u ((hbox u).mpr hu)
    rwa [haddrD, haddrS] at this
  · intro j hj
    apply hframe
    rintro ⟨u, hu, he⟩
    rw [haddrD] at he
    exact hj u ((hbox u).mp hu) he

end Assign
end PygyroVerif.DS
