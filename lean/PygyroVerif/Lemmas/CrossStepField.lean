/-
Bridge theorem of C03, part 8: worlds that hold a given global field (for every field `G`, every swapper and every
layout there is a memory state satisfying the hypotheses of the bridge theorems), the stronger memory invariant
"every buffer has EXACTLY `B rank` cells" that `LayoutSwapper.transpose` asserts, and "replicas are identical".
-/
import PygyroVerif.Lemmas.CrossStepRoute

namespace PygyroVerif.CS
open PygyroVerif PygyroVerif.Handler PygyroVerif.DS PygyroVerif.Swapper PygyroVerif.Route PygyroVerif.CopyBox

variable {α : Type}

/-! ### replicas -/

/-- two ranks with the same coordinates in the layout's handler hold the same block, cell by cell -/
theorem holdsBlock_unique (L : Layout) (c : List Nat) (G : List Nat → α) (b1 b2 : Array α)
    (h1 : HoldsBlock L c G b1) (h2 : HoldsBlock L c G b2) :
    ∀ idx, InBox idx (L.shape c) → b1[Addr.ravel idx (L.shape c)]? = b2[Addr.ravel idx (L.shape c)]? := by
  intro idx hidx
  rw [h1 idx hidx, h2 idx hidx]

/-! ### the block of a field -/

/-- the block of the field `G` that layout `L` assigns to the rank with coordinates `c`, in a buffer of `m` cells -/
def blockOf (L : Layout) (c : List Nat) (G : List Nat → α) (m : Nat) : Array α :=
  ((List.range m).map (fun a => G (L.toGlobal c (Addr.unravel (L.shape c) a)))).toArray

theorem holdsBlock_blockOf (L : Layout) (c : List Nat) (G : List Nat → α) (m : Nat) (hm : (L.shape c).prod ≤ m) :
    HoldsBlock L c G (blockOf L c G m) := by
  intro idx hidx
  have hb := (inBox_iff_addr _ _).mp hidx
  have hlt := Addr.ravel_lt idx (L.shape c) hb
  unfold blockOf
  rw [List.getElem?_toArray, List.getElem?_map, List.getElem?_range (by omega), Option.map_some,
    Addr.unravel_ravel idx (L.shape c) hb]

theorem blockOf_size (L : Layout) (c : List Nat) (G : List Nat → α) (m : Nat) : (blockOf L c G m).size = m := by
  unfold blockOf; simp

variable [Inhabited α]

/-- a memory state of a swapper: role 0 holds `G` in layout `k`, roles 1 and 2 are blank; every buffer of world rank
    `r` has `B r` cells -/
def fieldWorld (S : Swapper) (k : Nat) (G : List Nat → α) (B : Nat → Nat) : World α :=
  #[((List.range (prodL S.dims)).map (fun r => blockOf (S.layoutOf k) ((S.topo (S.locate k).1).coords r) G (B r))).toArray,
    ((List.range (prodL S.dims)).map (fun r => Array.replicate (B r) default)).toArray,
    ((List.range (prodL S.dims)).map (fun r => Array.replicate (B r) default)).toArray]

theorem fieldWorld_get0 (S : Swapper) (k : Nat) (G : List Nat → α) (B : Nat → Nat) (r : Nat) (hr : r < prodL S.dims) :
    World.get (fieldWorld S k G B) 0 r = blockOf (S.layoutOf k) ((S.topo (S.locate k).1).coords r) G (B r) := by
  unfold fieldWorld World.get
  simp [hr]

theorem fieldWorld_holds (S : Swapper) (k : Nat) (G : List Nat → α) (B : Nat → Nat)
    (hB : ∀ r, r < prodL S.dims → ((S.layoutOf k).shape ((S.topo (S.locate k).1).coords r)).prod ≤ B r) :
    HoldsLayout S G k ((fieldWorld S k G B).getD 0 #[]) := by
  intro rank hr
  have hr' : rank < prodL S.dims := hr
  show HoldsBlock _ _ G (World.get (fieldWorld S k G B) 0 rank)
  rw [fieldWorld_get0 S k G B rank hr']
  exact holdsBlock_blockOf _ _ G _ (hB rank hr')

/-- every buffer of the roles `< nr` on world rank `r` has exactly `B r` cells (what `Grid.__init__` allocates and
    `LayoutSwapper.transpose` asserts) -/
def WorldEq (nr n : Nat) (B : Nat → Nat) (w : World α) : Prop :=
  nr ≤ w.size ∧ ∀ role, role < nr → (w.getD role #[]).size = n ∧ ∀ rank, rank < n → (World.get w role rank).size = B rank

omit [Inhabited α] in
theorem WorldEq.ok {nr n : Nat} {B : Nat → Nat} {w : World α} (h : WorldEq nr n B w) (h2 : 2 ≤ nr) : WorldOK nr n B w :=
  ⟨h.1, fun role hr => ⟨(h.2 role hr).1, fun rank hrk => Nat.le_of_eq ((h.2 role hr).2 rank hrk).symm⟩,
    fun rank hrk => by rw [(h.2 1 (by omega)).2 rank hrk, (h.2 0 (by omega)).2 rank hrk]⟩

omit [Inhabited α] in
theorem WorldEq.mono {nr nr' n : Nat} {B : Nat → Nat} {w : World α} (h : WorldEq nr n B w) (hle : nr' ≤ nr) :
    WorldEq nr' n B w :=
  ⟨Nat.le_trans hle h.1, fun role hr => h.2 role (by omega)⟩

theorem fieldWorld_eq (S : Swapper) (k : Nat) (G : List Nat → α) (B : Nat → Nat) :
    WorldEq 3 (prodL S.dims) B (fieldWorld S k G B) := by
  refine ⟨by simp [fieldWorld], ?_⟩
  intro role hr
  have h3 : role = 0 ∨ role = 1 ∨ role = 2 := by omega
  rcases h3 with rfl | rfl | rfl
  · refine ⟨by simp [fieldWorld], fun rank hrk => ?_⟩
    rw [fieldWorld_get0 S k G B rank hrk, blockOf_size]
  · refine ⟨by simp [fieldWorld], fun rank hrk => ?_⟩
    unfold fieldWorld World.get
    simp [hrk]
  · refine ⟨by simp [fieldWorld], fun rank hrk => ?_⟩
    unfold fieldWorld World.get
    simp [hrk]

end PygyroVerif.CS
