/-
Bridge theorem of C01: **`bufferSize` suffices** — the buffer size computed by the constructor of `LayoutHandler`
(layout.py:431-462, `Handler.bufferSize`) covers what every direct change of layout between connected layouts needs
(`needSize`: the destination block and the `p` padded blocks that are exchanged), in both directions.
-/
import PygyroVerif.Lemmas.DirectStepRoute
import PygyroVerif.Lemmas.RouteValid

namespace PygyroVerif.DS
open PygyroVerif PygyroVerif.Handler PygyroVerif.CopyBox

/-! ### the maximum over the pairs -/

theorem foldl_ge_of_mem (g : Nat → Nat → Nat) (hg : ∀ acc x, acc ≤ g acc x) (x v : Nat) (hv : ∀ acc, v ≤ g acc x) :
    ∀ (l : List Nat) (acc : Nat), x ∈ l → v ≤ l.foldl g acc := by
  intro l
  induction l with
  | nil => intro _ h; simp at h
  | cons y t ih =>
    intro acc hx
    simp only [List.foldl_cons]
    by_cases hxy : x = y
    · subst hxy
      exact Nat.le_trans (hv acc) (RouteValid.foldl_max_mono g hg t _)
    · exact ih _ (by simpa [hxy] using hx)

/-- the size the constructor computes for the pair `(n', i)` (layout.py:444-459) -/
def pairBs (h : Handler) (c : List Nat) (n' i : Nat) : Nat :=
  let l1 := h.layoutAt n'; let l2 := h.layoutAt i
  let axis := swapAxes h.nprocs l1.ord l2.ord
  if axis.length ≠ 0 then
    let a0 := axis.getD 0 0; let a1 := axis.getD 1 0
    let blockshape := ((l1.shape c).set a0 (l1.maxShape.getD a0 0)).set a1 (l2.maxShape.getD a0 0)
    if a0 < h.nprocs.length then prodL blockshape * h.nprocs.getD a0 1 else prodL blockshape
  else prodL (l1.shape c)

/-- `bufferSize` is at least the size computed for every compatible pair `i < n' < nLayouts` -/
theorem pairBs_le_bufferSize (h : Handler) (c : List Nat) (n' i : Nat) (hn : n' < h.nLayouts) (hi : i < n')
    (hc : compatible h.nprocs (h.layoutAt n').ord (h.layoutAt i).ord = true) :
    pairBs h c n' i ≤ h.bufferSize c := by
  unfold Handler.bufferSize
  let gin : Nat → Nat → Nat → Nat := fun n' acc i =>
    if compatible h.nprocs (h.layoutAt n').ord (h.layoutAt i).ord = true then
      (if pairBs h c n' i > acc then pairBs h c n' i else acc) else acc
  have hgin : ∀ n' acc x, acc ≤ gin n' acc x := by
    intro n' acc x; simp only [gin]; split
    · split <;> omega
    · exact Nat.le_refl _
  let gout : Nat → Nat → Nat := fun acc n' => (List.range n').foldl (gin n') acc
  have hgout : ∀ acc x, acc ≤ gout acc x := fun acc x => RouteValid.foldl_max_mono (gin x) (hgin x) _ acc
  show pairBs h c n' i ≤ (List.range h.nLayouts).foldl gout ((h.layoutAt 0).size c)
  apply foldl_ge_of_mem gout hgout n' _ _ _ _ (List.mem_range.mpr hn)
  intro acc
  apply foldl_ge_of_mem (gin n') (hgin n') i _ _ _ _ (List.mem_range.mpr hi)
  intro acc'
  simp only [gin, hc, if_true]
  split <;> omega

/-! ### products -/

theorem prod_map_le (l : List Nat) (f g : Nat → Nat) (h : ∀ d ∈ l, f d ≤ g d) : (l.map f).prod ≤ (l.map g).prod := by
  induction l with
  | nil => simp
  | cons a t ih =>
    simp only [List.map_cons, List.prod_cons]
    exact Nat.mul_le_mul (h a (by simp)) (ih (fun d hd => h d (by simp [hd])))

theorem le_mul_maxBlock (n p : Nat) (hp : 0 < p) : n ≤ p * maxBlock n p := by
  unfold maxBlock
  have h1 := Nat.div_add_mod n p
  have h2 := Nat.mod_lt n hp
  split
  · rw [Nat.mul_add, Nat.mul_one]; omega
  · rename_i h
    have : n % p = 0 := by omega
    omega

section CommFacts
variable {np oS oD ext : List Nat} {a0 : Nat} (H : Comm np oS oD ext a0) (c : List Nat)
include H

/-- the constructor's `blockshape` is the padded block -/
theorem blockshape_eq :
    (((Layout.make np oS ext).shape c).set a0 ((Layout.make np oS ext).maxShape.getD a0 0)).set (oS.idxOf (oD.getD a0 0))
        ((Layout.make np oD ext).maxShape.getD a0 0) = oS.map (packBlk np oS oD ext a0 c) := by
  have hndS := H.ndS
  rw [shape_eq_map (Layout.make np oS ext) hndS c, maxShape_getD (Layout.make np oS ext) a0 H.a0_ltS,
    maxShape_getD (Layout.make np oD ext) a0 H.a0_ltD, extAt_make, procsAt_make, extAt_make, procsAt_make]
  have e1 : ((Layout.make np oS ext).ord.map (lenD (Layout.make np oS ext) c)) = oS.map (lenD (Layout.make np oS ext) c) := rfl
  rw [e1, set_map_update oS hndS _ a0 H.a0_ltS, set_map_update oS hndS _ _ H.a1_lt, getD_idxOf oS _ H.B_memS]
  rfl

theorem packSize_eq_prod : packSize np oS oD ext a0 c = (oS.map (packBlk np oS oD ext a0 c)).prod := by
  have h0 : 0 < oS.length := Nat.lt_of_le_of_lt (Nat.zero_le _) H.a0_ltS
  unfold packSize
  exact ((swapL_perm oS 0 a0 h0 H.a0_ltS).map _).prod_eq

/-- the reverse pair is a communicating pair on the same axis -/
theorem Comm.symm : Comm np oD oS ext a0 :=
  ⟨⟨H.pair.2.1, H.pair.1, H.pair.2.2.symm⟩, by rw [diffAxes_symm]; exact H.diff⟩

variable (hc : CoordsOK np c)
include hc

/-- the padded block has the same extents seen from either side -/
theorem packBlk_symm (d : Nat) (hd : d ∈ oS) :
    packBlk np oD oS ext a0 c d = packBlk np oS oD ext a0 c d := by
  unfold packBlk
  by_cases hdA : d = oS.getD a0 0
  · rw [hdA, Function.update_self, Function.update_of_ne H.mem.2.2, Function.update_self]
  · rw [Function.update_of_ne hdA]
    by_cases hdB : d = oD.getD a0 0
    · rw [hdB, Function.update_self, Function.update_self]
    · rw [Function.update_of_ne hdB, Function.update_of_ne hdB, Function.update_of_ne hdA]
      exact ((H.other c hc d hd hdA hdB).1).symm

theorem packSize_symm : packSize np oD oS ext a0 c = packSize np oS oD ext a0 c := by
  rw [packSize_eq_prod H.symm c, packSize_eq_prod H c, (H.perm.map _).prod_eq,
    List.map_congr_left (fun d hd => packBlk_symm H c hc d hd)]

/-- the destination block fits into the `p` padded blocks -/
theorem destBlock_le : ((Layout.make np oD ext).shape c).prod ≤ np.getD a0 1 * packSize np oS oD ext a0 c := by
  have hp0 : 0 < np.getD a0 1 := by have := H.mem.2.1; omega
  have h0 : 0 < oS.length := Nat.lt_of_le_of_lt (Nat.zero_le _) H.a0_ltS
  have hperm : oD.Perm (swapL oS 0 a0) := H.perm.trans (swapL_perm oS 0 a0 h0 H.a0_ltS).symm
  obtain ⟨hb1, hb2, hb3⟩ := blk_facts H c
  rw [← exch_prod H c, shape_eq_map _ H.ndD c, ← (hperm.map _).prod_eq]
  apply prod_map_le
  intro d hd
  unfold exchBlk
  by_cases hdA : d = oS.getD a0 0
  · rw [hdA, Function.update_self, (H.wholeD_A c hc).1]
    exact le_mul_maxBlock _ _ hp0
  · rw [Function.update_of_ne hdA]
    by_cases hdB : d = oD.getD a0 0
    · rw [hdB, hb2, H.lenD_B c]
      exact blockLen_le_maxBlock _ _ _ hp0
    · have hdS : d ∈ oS := (H.perm.mem_iff).mp hd
      rw [← (H.other c hc d hdS hdA hdB).1]
      exact hb1 d hdS hdB

/-- what the step needs, in terms of the padded blocks only -/
theorem needSize_comm : needSize np oS oD ext c = np.getD a0 1 * packSize np oS oD ext a0 c := by
  unfold needSize
  rw [H.diff]
  exact Nat.max_eq_right (destBlock_le H c hc)

end CommFacts

/-! ### the local case: both blocks have the same number of cells -/

theorem local_blocks_same_size (np oS oD ext c : List Nat) (hpair : PairOK np oS oD ext) (hc : CoordsOK np c)
    (hdiff : diffAxes np oS oD = []) :
    ((Layout.make np oD ext).shape c).prod = ((Layout.make np oS ext).shape c).prod := by
  obtain ⟨hS, hD, hlen⟩ := hpair
  have hperm : oD.Perm oS := PairOK.perm ⟨hS, hD, hlen⟩
  have hpos : ∀ i, i < np.length → 1 ≤ np.getD i 1 := fun i hi => (hS.2.2.2 i hi).1
  rw [shape_eq_map _ hD.nodup c, shape_eq_map _ hS.nodup c]
  show (oD.map (lenD (Layout.make np oD ext) c)).prod = (oS.map (lenD (Layout.make np oS ext) c)).prod
  rw [← (hperm.map _).prod_eq]
  congr 1
  apply List.map_congr_left
  intro d hd
  have hdS : d ∈ oS := (hperm.mem_iff).mp hd
  exact ((same_of_not_diff np oS oD ext c hpos hc hS.nodup hD.nodup hlen d hdS hd (by rw [hdiff]; simp)
    (by rw [hdiff]; simp)).1).symm

/-! ### `bufferSize` suffices -/

/-- the size the constructor computes for an ordered compatible pair covers the step in both directions -/
theorem needSize_le_pairBs (h : Handler) (c : List Nat) (hi lo : Nat)
    (hpair : PairOK h.nprocs (h.orders.getD hi []) (h.orders.getD lo []) h.ext) (hc : CoordsOK h.nprocs c)
    (hcomp : compatible h.nprocs (h.orders.getD hi []) (h.orders.getD lo []) = true) :
    needSize h.nprocs (h.orders.getD hi []) (h.orders.getD lo []) h.ext c ≤ pairBs h c hi lo ∧
    needSize h.nprocs (h.orders.getD lo []) (h.orders.getD hi []) h.ext c ≤ pairBs h c hi lo := by
  have hpair' : PairOK h.nprocs (h.orders.getD lo []) (h.orders.getD hi []) h.ext := ⟨hpair.2.1, hpair.1, hpair.2.2.symm⟩
  have hord1 : (h.layoutAt hi).ord = h.orders.getD hi [] := rfl
  have hord2 : (h.layoutAt lo).ord = h.orders.getD lo [] := rfl
  by_cases hax : swapAxes h.nprocs (h.orders.getD hi []) (h.orders.getD lo []) = []
  · -- local
    have hdiff := diffAxes_nil_of_swapAxes_nil _ _ _ hax
    have hdiff' : diffAxes h.nprocs (h.orders.getD lo []) (h.orders.getD hi []) = [] := by rw [diffAxes_symm]; exact hdiff
    have hbs : pairBs h c hi lo = ((Layout.make h.nprocs (h.orders.getD hi []) h.ext).shape c).prod := by
      unfold pairBs
      simp only [hord1, hord2, hax, List.length_nil, ne_eq, not_true_eq_false, if_false]
      exact prodL_eq_prod _
    rw [hbs]
    constructor
    · unfold needSize
      rw [hdiff, local_blocks_same_size _ _ _ _ c hpair hc hdiff]
      simp
    · unfold needSize
      rw [hdiff']
      simp
  · obtain ⟨a0, H⟩ := comm_of_compatible _ _ _ _ hpair hcomp hax
    have hbs : pairBs h c hi lo =
        h.nprocs.getD a0 1 * packSize h.nprocs (h.orders.getD hi []) (h.orders.getD lo []) h.ext a0 c := by
      unfold pairBs
      have hl : (swapAxes h.nprocs (h.orders.getD hi []) (h.orders.getD lo [])).length ≠ 0 := by
        rw [H.swapAxes_eq]; simp
      simp only [hord1, hord2, hl, ne_eq, not_false_eq_true, if_true]
      rw [H.swapAxes_eq]
      simp only [List.getD_cons_zero, List.getD_cons_succ, H.mem.1, if_true]
      have := blockshape_eq H c
      have e1 : h.layoutAt hi = Layout.make h.nprocs (h.orders.getD hi []) h.ext := rfl
      have e2 : h.layoutAt lo = Layout.make h.nprocs (h.orders.getD lo []) h.ext := rfl
      rw [e1, e2, this, prodL_eq_prod, ← packSize_eq_prod H c, Nat.mul_comm]
    rw [hbs, needSize_comm H c hc, needSize_comm H.symm c hc, packSize_symm H c hc]
    exact ⟨Nat.le_refl _, Nat.le_refl _⟩

/-- **`bufferSize` suffices**: for every direct connection `a — b` of a handler with well-formed layouts, the buffer
    size computed by the constructor on the rank with coordinates `c` covers what the step `a → b` needs
    (the destination block and the `p` padded blocks exchanged by the `Alltoall`) -/
theorem bufferSize_suffices (h : Handler) (c : List Nat) (hc : CoordsOK h.nprocs c)
    (hlay : ∀ i, i < h.names.length → LayoutOK h.nprocs (h.orders.getD i []) h.ext)
    (a b : Nat) (ha : a < h.names.length) (hb : b < h.names.length) (hne : a ≠ b)
    (hcomp : compatible h.nprocs (h.orders.getD (max a b) []) (h.orders.getD (min a b) []) = true) :
    needSize h.nprocs (h.orders.getD a []) (h.orders.getD b []) h.ext c ≤ h.bufferSize c := by
  have hlen : ∀ i j, i < h.names.length → j < h.names.length →
      (h.orders.getD i []).length = (h.orders.getD j []).length := by
    intro i j hi hj; rw [← (hlay i hi).2.1, ← (hlay j hj).2.1]
  rcases Nat.lt_or_ge a b with hlt | hge
  · rw [Nat.max_eq_right (Nat.le_of_lt hlt), Nat.min_eq_left (Nat.le_of_lt hlt)] at hcomp
    have h1 := (needSize_le_pairBs h c b a ⟨hlay b hb, hlay a ha, hlen b a hb ha⟩ hc hcomp).2
    exact Nat.le_trans h1 (pairBs_le_bufferSize h c b a hb hlt hcomp)
  · have hlt : b < a := by omega
    rw [Nat.max_eq_left hge, Nat.min_eq_right hge] at hcomp
    have h1 := (needSize_le_pairBs h c a b ⟨hlay a ha, hlay b hb, hlen a b ha hb⟩ hc hcomp).1
    exact Nat.le_trans h1 (pairBs_le_bufferSize h c a b ha hlt hcomp)

end PygyroVerif.DS
