/-
The driver's time loop as a composition of abstract global operators (C15 "equilibrium is a fixed point of the complete
time step", C05 "complete Strang-split time step").  Core Lean only.

`Model/Checkpoint.lean` gives the statement language of the driver (`Call`, `Simple`, `Stmt`, `Program`; the script itself
is regenerated from fullSimulation.py into `Generated/TimeLoop.lean`) and a *symbolic* interpreter `execCallS` on free terms.
Here the same statements are interpreted over an arbitrary algebra of operators (`Operators F P R G`): `F` = contents of the
distribution function, `P` = of the potential, `R` = of the density, `G` = of the parallel-gradient table.

  * `execCallA`, `execSimpleA`, `execStmtsA` : the interpreter (same accept / refuse rules as `execCallS`; the layout
    changes, the save and the restore are explicit operators instead of being the identity by definition);
  * `termOps`, `execCallA_termOps`           : at the free term algebra the interpreter *is* `execCallS` (C18);
  * `OpsRel`, `execStmtsA_rel`               : the abstraction theorem — a relation between two algebras that every
    operator respects is respected by every statement list (structural recursion over the list, nothing about a
    particular script);
  * `boolOps`, `Preds`, `EquilibriumContracts`, `flagRels` : the Boolean algebra "is this grid known to hold the
    equilibrium / zero" and the contracts that make it a sound abstraction of an operator algebra;
  * `stmts_sound`, `passes_sound`            : soundness of the Boolean run for any statement list / any number of passes;
  * `AtEquilibrium`, `headFlags`             : the state at the head of the driver's loop, as predicates and as flags;
  * `execStmtsA_termOps`                     : whole statement lists at the term algebra.
The operators built from the kernel models and their contracts: `Lemmas/TimeStepKernels.lean`; the theorems about the
generated script: `Props/C15Extra.lean`.
-/
import PygyroVerif.Model.Checkpoint

namespace PygyroVerif.TimeStep
open PygyroVerif.Ckpt

/-! ### 1. states and operators -/

/-- a grid object: its (global) contents and the name of its current layout -/
structure AGrid (α : Type) where
  val : α
  lay : Lay
deriving DecidableEq, Repr

/-- the numerical state the loop works on: `distribFunc`, its saved copy (if a save is held), `phi`, `rho`, `parGradVals` -/
structure AState (F P R G : Type) where
  f : AGrid F
  fsave : Option (AGrid F)
  phi : AGrid P
  rho : AGrid R
  pgv : G
deriving DecidableEq, Repr

/-- the operators the driver's calls stand for, as maps on global contents -/
structure Operators (F P R G : Type) where
  /-- `distribFunc.setLayout(b)` while in layout `a` -/
  relayoutF : Lay → Lay → F → F
  /-- `phi.setLayout(b)` while in layout `a` -/
  relayoutP : Lay → Lay → P → P
  /-- `rho.setLayout(b)` while in layout `a` -/
  relayoutR : Lay → Lay → R → R
  /-- what `saveGridValues` stores -/
  saveF : F → F
  /-- what `restoreGridValues` makes current, from what was stored -/
  restoreF : F → F
  /-- `FluxSurfaceAdvection.gridStep` -/
  flux : F → F
  /-- `ParallelGradient.parallel_gradient` for every radius (first half of `VParallelAdvection.gridStep`) -/
  grad : P → G
  /-- the advection loop of `VParallelAdvection.gridStep` / `gridStepKeepGradient` -/
  vpar : Stp → F → G → F
  /-- `PoloidalAdvection.gridStep` -/
  pol : Stp → F → P → F
  /-- `DensityFinder.getPerturbedRho` -/
  rhoOf : F → R
  /-- `QuasiNeutralitySolver.getModes` -/
  modes : R → R
  /-- `QuasiNeutralitySolver.solveEquation` (overwrites `phi` from `rho`) -/
  solve : R → P
  /-- `QuasiNeutralitySolver.findPotential` -/
  potential : P → P

variable {F P R G : Type}

/-! ### 2. the interpreter -/

/-- Meaning of a call; `none` = the real code raises (layout assert, unknown layout, save/restore protocol) or the call is
    not one the operators are defined for.  Clause by clause the rules of `Ckpt.execCallS`. -/
def execCallA (o : Operators F P R G) (s : AState F P R G) : Call → Option (AState F P R G)
  | .setLayout .distribFunc l =>
    if layoutOk .distribFunc l then some { s with f := ⟨o.relayoutF s.f.lay l s.f.val, l⟩ } else none
  | .setLayout .phi l =>
    if layoutOk .phi l then some { s with phi := ⟨o.relayoutP s.phi.lay l s.phi.val, l⟩ } else none
  | .setLayout .rho l =>
    if layoutOk .rho l then some { s with rho := ⟨o.relayoutR s.rho.lay l s.rho.val, l⟩ } else none
  | .saveGridValues .distribFunc => match s.fsave with
    | none => some { s with fsave := some ⟨o.saveF s.f.val, s.f.lay⟩ }
    | some _ => none
  | .restoreGridValues .distribFunc => match s.fsave with
    | some g => some { s with f := ⟨o.restoreF g.val, g.lay⟩, fsave := none }
    | none => none
  | .fluxStep .distribFunc =>
    if s.f.lay = .flux_surface then some { s with f := ⟨o.flux s.f.val, s.f.lay⟩ } else none
  | .vParStep .distribFunc .phi d =>
    if s.f.lay = .v_parallel ∧ s.phi.lay = .v_parallel_1d then
      some { s with pgv := o.grad s.phi.val, f := ⟨o.vpar d s.f.val (o.grad s.phi.val), s.f.lay⟩ }
    else none
  | .vParStepKeep .distribFunc d =>
    if s.f.lay = .v_parallel then some { s with f := ⟨o.vpar d s.f.val s.pgv, s.f.lay⟩ } else none
  | .polStep .distribFunc .phi d =>
    if s.f.lay = .poloidal ∧ s.phi.lay = .poloidal then
      some { s with f := ⟨o.pol d s.f.val s.phi.val, s.f.lay⟩ }
    else none
  | .perturbedRho .distribFunc .rho =>
    if s.f.lay = .v_parallel ∧ s.rho.lay = .v_parallel_2d then
      some { s with rho := ⟨o.rhoOf s.f.val, s.rho.lay⟩ }
    else none
  | .getModes .rho =>
    if s.rho.lay = .v_parallel_2d then some { s with rho := ⟨o.modes s.rho.val, s.rho.lay⟩ } else none
  | .solveEquation .phi .rho =>
    if s.rho.lay = .mode_solve ∧ s.phi.lay = .mode_solve then
      some { s with phi := ⟨o.solve s.rho.val, s.phi.lay⟩ }
    else none
  | .findPotential .phi =>
    if s.phi.lay = .v_parallel_2d then some { s with phi := ⟨o.potential s.phi.val, s.phi.lay⟩ } else none
  | .collect .distribFunc .phi => if s.f.lay = .v_parallel ∧ s.phi.lay = .v_parallel_2d then some s else none
  | .reduce => some s
  | .writeH5 .distribFunc false => some s
  | .writeH5 .phi true => some s
  | _ => none

/-- what the set-up statements put into the state: contents of the freshly allocated arrays (`np.empty`), the grid read
    from a checkpoint, the grid built by `setupCylindricalGrid` -/
structure Env (F P R G : Type) where
  junkP : P
  junkR : R
  junkG : G
  loaded : AGrid F
  fresh : F

/-- clause by clause `Ckpt.execSimpleS` -/
def execSimpleA (o : Operators F P R G) (e : Env F P R G) (s : AState F P R G) : Simple → Option (AState F P R G)
  | .assign _ _ => some s
  | .call c => execCallA o s c
  | .printLines _ _ => some s
  | .pollTime => some s
  | .divBy _ => some s
  | .setupFromFile =>
    if layoutOk .distribFunc e.loaded.lay then
      some { s with f := ⟨o.relayoutF e.loaded.lay .v_parallel e.loaded.val, .v_parallel⟩, fsave := none }
    else none
  | .setupNew => some { s with f := ⟨e.fresh, .v_parallel⟩, fsave := none }
  | .allocPhi => some { s with phi := ⟨e.junkP, .mode_solve⟩ }
  | .allocRho => some { s with rho := ⟨e.junkR, .v_parallel_2d⟩ }
  | .allocParGradVals => some { s with pgv := e.junkG }

def execSimplesA (o : Operators F P R G) (e : Env F P R G) : AState F P R G → List Simple → Option (AState F P R G)
  | s, [] => some s
  | s, x :: xs => match execSimpleA o e s x with
    | none => none
    | some s' => execSimplesA o e s' xs

/-- is the branch taken: `loadable` / `notLoadable` are resolved, a branch on counters is taken iff `takeSaves` -/
def branchTaken (loadable takeSaves : Bool) : Cond → Bool
  | .loadable => loadable
  | .notLoadable => !loadable
  | _ => takeSaves

/-- clause by clause `Ckpt.execStmtsS` -/
def execStmtsA (o : Operators F P R G) (e : Env F P R G) (loadable takeSaves : Bool) :
    AState F P R G → List Stmt → Option (AState F P R G)
  | s, [] => some s
  | s, .s x :: rest => match execSimpleA o e s x with
    | none => none
    | some s' => execStmtsA o e loadable takeSaves s' rest
  | s, .ifc c body :: rest =>
    if branchTaken loadable takeSaves c then
      match execSimplesA o e s body with
      | none => none
      | some s' => execStmtsA o e loadable takeSaves s' rest
    else execStmtsA o e loadable takeSaves s rest

/-- `n` repetitions of a partial step -/
def iterA {σ : Type} (step : σ → Option σ) : Nat → σ → Option σ
  | 0, s => some s
  | n + 1, s => match step s with
    | none => none
    | some s' => iterA step n s'

/-! ### 3. the free term algebra: the interpreter is C18's symbolic one -/

/-- the operators of `Ckpt.execCallS`: free terms; layout changes, save and restore keep the term -/
def termOps : Operators Term Term Term Term where
  relayoutF := fun _ _ t => t
  relayoutP := fun _ _ t => t
  relayoutR := fun _ _ t => t
  saveF := fun t => t
  restoreF := fun t => t
  flux := fun t => .ap .flux t .unit
  grad := fun t => .ap .grad t .unit
  vpar := fun d t g => .ap (.vpar d) t g
  pol := fun d t p => .ap (.pol d) t p
  rhoOf := fun t => .ap .rhoOf t .unit
  modes := fun t => .ap .modes t .unit
  solve := fun t => .ap .solve t .unit
  potential := fun t => .ap .potential t .unit

def gridOfS (g : SGrid) : AGrid Term := ⟨g.field, g.lay⟩

/-- forget the list of checkpoint files -/
def ofSim (s : Sim) : AState Term Term Term Term :=
  { f := gridOfS s.f, fsave := s.fsave.map gridOfS, phi := gridOfS s.phi, rho := gridOfS s.rho, pgv := s.pgv }

theorem execCallA_termOps (s : Sim) (c : Call) :
    execCallA termOps (ofSim s) c = (execCallS s c).map ofSim := by
  cases c with
  | setLayout g l => cases g <;> simp only [execCallA, execCallS] <;> split <;> rfl
  | saveGridValues g =>
    cases g <;> simp only [execCallA, execCallS, Option.map_none]
    cases h : s.fsave <;> simp [ofSim, h, gridOfS, termOps]
  | restoreGridValues g =>
    cases g <;> simp only [execCallA, execCallS, Option.map_none]
    cases h : s.fsave <;> simp [ofSim, h, gridOfS, termOps]
  | fluxStep g => cases g <;> simp only [execCallA, execCallS, Option.map_none] <;> (show ite (s.f.lay = _) _ _ = _) <;> split <;> rfl
  | vParStep g p d =>
    cases g <;> cases p <;> simp only [execCallA, execCallS, Option.map_none]
    show ite (s.f.lay = _ ∧ s.phi.lay = _) _ _ = _
    split <;> rfl
  | vParStepKeep g d =>
    cases g <;> simp only [execCallA, execCallS, Option.map_none]
    show ite (s.f.lay = _) _ _ = _
    split <;> rfl
  | polStep g p d =>
    cases g <;> cases p <;> simp only [execCallA, execCallS, Option.map_none]
    show ite (s.f.lay = _ ∧ s.phi.lay = _) _ _ = _
    split <;> rfl
  | perturbedRho g r =>
    cases g <;> cases r <;> simp only [execCallA, execCallS, Option.map_none]
    show ite (s.f.lay = _ ∧ s.rho.lay = _) _ _ = _
    split <;> rfl
  | getModes r =>
    cases r <;> simp only [execCallA, execCallS, Option.map_none]
    show ite (s.rho.lay = _) _ _ = _
    split <;> rfl
  | solveEquation p r =>
    cases p <;> cases r <;> simp only [execCallA, execCallS, Option.map_none]
    show ite (s.rho.lay = _ ∧ s.phi.lay = _) _ _ = _
    split <;> rfl
  | findPotential p =>
    cases p <;> simp only [execCallA, execCallS, Option.map_none]
    show ite (s.phi.lay = _) _ _ = _
    split <;> rfl
  | collect g p =>
    cases g <;> cases p <;> simp only [execCallA, execCallS, Option.map_none]
    show ite (s.f.lay = _ ∧ s.phi.lay = _) _ _ = _
    split <;> rfl
  | reduce => rfl
  | writeH5 g b => cases g <;> cases b <;> rfl

/-! ### 4. the abstraction theorem -/

section rel
variable {F₁ P₁ R₁ G₁ F₂ P₂ R₂ G₂ : Type}

/-- a relation between the carriers of two operator algebras, sort by sort -/
structure Rels (F₁ P₁ R₁ G₁ F₂ P₂ R₂ G₂ : Type) where
  rF : F₁ → F₂ → Prop
  rP : P₁ → P₂ → Prop
  rR : R₁ → R₂ → Prop
  rG : G₁ → G₂ → Prop

/-- every operator maps related arguments to related results -/
structure OpsRel (o₁ : Operators F₁ P₁ R₁ G₁) (o₂ : Operators F₂ P₂ R₂ G₂) (ρ : Rels F₁ P₁ R₁ G₁ F₂ P₂ R₂ G₂) : Prop where
  relayoutF : ∀ a b x y, ρ.rF x y → ρ.rF (o₁.relayoutF a b x) (o₂.relayoutF a b y)
  relayoutP : ∀ a b x y, ρ.rP x y → ρ.rP (o₁.relayoutP a b x) (o₂.relayoutP a b y)
  relayoutR : ∀ a b x y, ρ.rR x y → ρ.rR (o₁.relayoutR a b x) (o₂.relayoutR a b y)
  saveF : ∀ x y, ρ.rF x y → ρ.rF (o₁.saveF x) (o₂.saveF y)
  restoreF : ∀ x y, ρ.rF x y → ρ.rF (o₁.restoreF x) (o₂.restoreF y)
  flux : ∀ x y, ρ.rF x y → ρ.rF (o₁.flux x) (o₂.flux y)
  grad : ∀ x y, ρ.rP x y → ρ.rG (o₁.grad x) (o₂.grad y)
  vpar : ∀ d x y g h, ρ.rF x y → ρ.rG g h → ρ.rF (o₁.vpar d x g) (o₂.vpar d y h)
  pol : ∀ d x y p q, ρ.rF x y → ρ.rP p q → ρ.rF (o₁.pol d x p) (o₂.pol d y q)
  rhoOf : ∀ x y, ρ.rF x y → ρ.rR (o₁.rhoOf x) (o₂.rhoOf y)
  modes : ∀ x y, ρ.rR x y → ρ.rR (o₁.modes x) (o₂.modes y)
  solve : ∀ x y, ρ.rR x y → ρ.rP (o₁.solve x) (o₂.solve y)
  potential : ∀ x y, ρ.rP x y → ρ.rP (o₁.potential x) (o₂.potential y)

/-- related contents, same layout -/
def GridRel {α β : Type} (r : α → β → Prop) (g₁ : AGrid α) (g₂ : AGrid β) : Prop := r g₁.val g₂.val ∧ g₁.lay = g₂.lay

/-- both refused, or both accepted with related results -/
def ORel {α β : Type} (r : α → β → Prop) : Option α → Option β → Prop
  | none, none => True
  | some a, some b => r a b
  | _, _ => False

structure StateRel (ρ : Rels F₁ P₁ R₁ G₁ F₂ P₂ R₂ G₂) (s₁ : AState F₁ P₁ R₁ G₁) (s₂ : AState F₂ P₂ R₂ G₂) : Prop where
  f : GridRel ρ.rF s₁.f s₂.f
  fsave : ORel (GridRel ρ.rF) s₁.fsave s₂.fsave
  phi : GridRel ρ.rP s₁.phi s₂.phi
  rho : GridRel ρ.rR s₁.rho s₂.rho
  pgv : ρ.rG s₁.pgv s₂.pgv

structure EnvRel (ρ : Rels F₁ P₁ R₁ G₁ F₂ P₂ R₂ G₂) (e₁ : Env F₁ P₁ R₁ G₁) (e₂ : Env F₂ P₂ R₂ G₂) : Prop where
  junkP : ρ.rP e₁.junkP e₂.junkP
  junkR : ρ.rR e₁.junkR e₂.junkR
  junkG : ρ.rG e₁.junkG e₂.junkG
  loaded : GridRel ρ.rF e₁.loaded e₂.loaded
  fresh : ρ.rF e₁.fresh e₂.fresh

variable {o₁ : Operators F₁ P₁ R₁ G₁} {o₂ : Operators F₂ P₂ R₂ G₂} {ρ : Rels F₁ P₁ R₁ G₁ F₂ P₂ R₂ G₂}

theorem ORel_ite {α β : Type} (r : α → β → Prop) (c : Prop) [Decidable c] (a : α) (b : β) (h : c → r a b) :
    ORel r (if c then some a else none) (if c then some b else none) := by
  by_cases hc : c
  · rw [if_pos hc, if_pos hc]; exact h hc
  · rw [if_neg hc, if_neg hc]; exact True.intro

/-- **one call**: related states are both refused or both accepted with related results -/
theorem execCallA_rel (ho : OpsRel o₁ o₂ ρ) (s₁ : AState F₁ P₁ R₁ G₁) (s₂ : AState F₂ P₂ R₂ G₂) (h : StateRel ρ s₁ s₂)
    (c : Call) : ORel (StateRel ρ) (execCallA o₁ s₁ c) (execCallA o₂ s₂ c) := by
  obtain ⟨⟨hf, hfl⟩, hsv, ⟨hp, hpl⟩, ⟨hr, hrl⟩, hg⟩ := h
  cases c with
  | setLayout g l =>
    cases g <;> simp only [execCallA]
    · exact ORel_ite _ _ _ _ fun _ => ⟨⟨ho.relayoutF _ _ _ _ hf |> (hfl ▸ ·), rfl⟩, hsv, ⟨hp, hpl⟩, ⟨hr, hrl⟩, hg⟩
    · exact ORel_ite _ _ _ _ fun _ => ⟨⟨hf, hfl⟩, hsv, ⟨ho.relayoutP _ _ _ _ hp |> (hpl ▸ ·), rfl⟩, ⟨hr, hrl⟩, hg⟩
    · exact ORel_ite _ _ _ _ fun _ => ⟨⟨hf, hfl⟩, hsv, ⟨hp, hpl⟩, ⟨ho.relayoutR _ _ _ _ hr |> (hrl ▸ ·), rfl⟩, hg⟩
  | saveGridValues g =>
    cases g <;> simp only [execCallA] <;> try exact True.intro
    cases h1 : s₁.fsave <;> cases h2 : s₂.fsave <;> rw [h1, h2] at hsv <;>
      first | exact hsv.elim | exact True.intro | skip
    exact ⟨⟨hf, hfl⟩, ⟨ho.saveF _ _ hf, hfl⟩, ⟨hp, hpl⟩, ⟨hr, hrl⟩, hg⟩
  | restoreGridValues g =>
    cases g <;> simp only [execCallA] <;> try exact True.intro
    cases h1 : s₁.fsave <;> cases h2 : s₂.fsave <;> rw [h1, h2] at hsv <;>
      first | exact hsv.elim | exact True.intro | skip
    exact ⟨⟨ho.restoreF _ _ hsv.1, hsv.2⟩, True.intro, ⟨hp, hpl⟩, ⟨hr, hrl⟩, hg⟩
  | fluxStep g =>
    cases g <;> simp only [execCallA] <;> try exact True.intro
    rw [hfl]
    exact ORel_ite _ _ _ _ fun _ => ⟨⟨ho.flux _ _ hf, rfl⟩, hsv, ⟨hp, hpl⟩, ⟨hr, hrl⟩, hg⟩
  | vParStep g p d =>
    cases g <;> cases p <;> simp only [execCallA] <;> try exact True.intro
    rw [hfl, hpl]
    exact ORel_ite _ _ _ _ fun _ =>
      ⟨⟨ho.vpar _ _ _ _ _ hf (ho.grad _ _ hp), rfl⟩, hsv, ⟨hp, hpl⟩, ⟨hr, hrl⟩, ho.grad _ _ hp⟩
  | vParStepKeep g d =>
    cases g <;> simp only [execCallA] <;> try exact True.intro
    rw [hfl]
    exact ORel_ite _ _ _ _ fun _ => ⟨⟨ho.vpar _ _ _ _ _ hf hg, rfl⟩, hsv, ⟨hp, hpl⟩, ⟨hr, hrl⟩, hg⟩
  | polStep g p d =>
    cases g <;> cases p <;> simp only [execCallA] <;> try exact True.intro
    rw [hfl, hpl]
    exact ORel_ite _ _ _ _ fun _ => ⟨⟨ho.pol _ _ _ _ _ hf hp, rfl⟩, hsv, ⟨hp, hpl⟩, ⟨hr, hrl⟩, hg⟩
  | perturbedRho g r =>
    cases g <;> cases r <;> simp only [execCallA] <;> try exact True.intro
    rw [hfl, hrl]
    exact ORel_ite _ _ _ _ fun _ => ⟨⟨hf, hfl⟩, hsv, ⟨hp, hpl⟩, ⟨ho.rhoOf _ _ hf, rfl⟩, hg⟩
  | getModes r =>
    cases r <;> simp only [execCallA] <;> try exact True.intro
    rw [hrl]
    exact ORel_ite _ _ _ _ fun _ => ⟨⟨hf, hfl⟩, hsv, ⟨hp, hpl⟩, ⟨ho.modes _ _ hr, rfl⟩, hg⟩
  | solveEquation p r =>
    cases p <;> cases r <;> simp only [execCallA] <;> try exact True.intro
    rw [hrl, hpl]
    exact ORel_ite _ _ _ _ fun _ => ⟨⟨hf, hfl⟩, hsv, ⟨ho.solve _ _ hr, rfl⟩, ⟨hr, hrl⟩, hg⟩
  | findPotential p =>
    cases p <;> simp only [execCallA] <;> try exact True.intro
    rw [hpl]
    exact ORel_ite _ _ _ _ fun _ => ⟨⟨hf, hfl⟩, hsv, ⟨ho.potential _ _ hp, rfl⟩, ⟨hr, hrl⟩, hg⟩
  | collect g p =>
    cases g <;> cases p <;> simp only [execCallA] <;> try exact True.intro
    rw [hfl, hpl]
    exact ORel_ite _ _ _ _ fun _ => ⟨⟨hf, hfl⟩, hsv, ⟨hp, hpl⟩, ⟨hr, hrl⟩, hg⟩
  | reduce => exact ⟨⟨hf, hfl⟩, hsv, ⟨hp, hpl⟩, ⟨hr, hrl⟩, hg⟩
  | writeH5 g b =>
    cases g <;> cases b <;> simp only [execCallA] <;> first | exact True.intro | exact ⟨⟨hf, hfl⟩, hsv, ⟨hp, hpl⟩, ⟨hr, hrl⟩, hg⟩

/-- **one simple statement** -/
theorem execSimpleA_rel (ho : OpsRel o₁ o₂ ρ) (e₁ : Env F₁ P₁ R₁ G₁) (e₂ : Env F₂ P₂ R₂ G₂) (he : EnvRel ρ e₁ e₂)
    (s₁ : AState F₁ P₁ R₁ G₁) (s₂ : AState F₂ P₂ R₂ G₂) (h : StateRel ρ s₁ s₂) (x : Simple) :
    ORel (StateRel ρ) (execSimpleA o₁ e₁ s₁ x) (execSimpleA o₂ e₂ s₂ x) := by
  cases x with
  | call c => exact execCallA_rel ho s₁ s₂ h c
  | setupFromFile =>
    simp only [execSimpleA]
    rw [he.loaded.2]
    exact ORel_ite _ _ _ _ fun _ =>
      ⟨⟨ho.relayoutF _ _ _ _ he.loaded.1, rfl⟩, True.intro, h.phi, h.rho, h.pgv⟩
  | setupNew => exact ⟨⟨he.fresh, rfl⟩, True.intro, h.phi, h.rho, h.pgv⟩
  | allocPhi => exact ⟨h.f, h.fsave, ⟨he.junkP, rfl⟩, h.rho, h.pgv⟩
  | allocRho => exact ⟨h.f, h.fsave, h.phi, ⟨he.junkR, rfl⟩, h.pgv⟩
  | allocParGradVals => exact ⟨h.f, h.fsave, h.phi, h.rho, he.junkG⟩
  | assign v e => exact h
  | printLines lo hi => exact h
  | pollTime => exact h
  | divBy e => exact h

theorem execSimplesA_rel (ho : OpsRel o₁ o₂ ρ) (e₁ : Env F₁ P₁ R₁ G₁) (e₂ : Env F₂ P₂ R₂ G₂) (he : EnvRel ρ e₁ e₂)
    (l : List Simple) : ∀ (s₁ : AState F₁ P₁ R₁ G₁) (s₂ : AState F₂ P₂ R₂ G₂), StateRel ρ s₁ s₂ →
    ORel (StateRel ρ) (execSimplesA o₁ e₁ s₁ l) (execSimplesA o₂ e₂ s₂ l) := by
  induction l with
  | nil => intro s₁ s₂ h; exact h
  | cons x xs ih =>
    intro s₁ s₂ h
    have hx := execSimpleA_rel ho e₁ e₂ he s₁ s₂ h x
    simp only [execSimplesA]
    cases h1 : execSimpleA o₁ e₁ s₁ x <;> cases h2 : execSimpleA o₂ e₂ s₂ x <;> rw [h1, h2] at hx
    · exact True.intro
    · exact hx.elim
    · exact hx.elim
    · exact ih _ _ hx

/-- **abstraction theorem**: for *every* statement list (by structural recursion over it), related states and related
    environments give: both runs are refused, or both are accepted and end in related states -/
theorem execStmtsA_rel (ho : OpsRel o₁ o₂ ρ) (e₁ : Env F₁ P₁ R₁ G₁) (e₂ : Env F₂ P₂ R₂ G₂) (he : EnvRel ρ e₁ e₂)
    (loadable takeSaves : Bool) (l : List Stmt) : ∀ (s₁ : AState F₁ P₁ R₁ G₁) (s₂ : AState F₂ P₂ R₂ G₂), StateRel ρ s₁ s₂ →
    ORel (StateRel ρ) (execStmtsA o₁ e₁ loadable takeSaves s₁ l) (execStmtsA o₂ e₂ loadable takeSaves s₂ l) := by
  induction l with
  | nil => intro s₁ s₂ h; exact h
  | cons st rest ih =>
    intro s₁ s₂ h
    cases st with
    | s x =>
      have hx := execSimpleA_rel ho e₁ e₂ he s₁ s₂ h x
      simp only [execStmtsA]
      cases h1 : execSimpleA o₁ e₁ s₁ x <;> cases h2 : execSimpleA o₂ e₂ s₂ x <;> rw [h1, h2] at hx
      · exact True.intro
      · exact hx.elim
      · exact hx.elim
      · exact ih _ _ hx
    | ifc c body =>
      simp only [execStmtsA]
      by_cases hc : branchTaken loadable takeSaves c = true
      · rw [if_pos hc, if_pos hc]
        have hx := execSimplesA_rel ho e₁ e₂ he body s₁ s₂ h
        cases h1 : execSimplesA o₁ e₁ s₁ body <;> cases h2 : execSimplesA o₂ e₂ s₂ body <;> rw [h1, h2] at hx
        · exact True.intro
        · exact hx.elim
        · exact hx.elim
        · exact ih _ _ hx
      · rw [if_neg hc, if_neg hc]
        exact ih _ _ h

/-- passes through a loop body, one per entry of `saves` (`true` = a pass whose counter-controlled branches are taken) -/
def passesA (o : Operators F P R G) (e : Env F P R G) (loadable : Bool) (body : List Stmt) :
    List Bool → AState F P R G → Option (AState F P R G)
  | [], s => some s
  | b :: bs, s => match execStmtsA o e loadable b s body with
    | none => none
    | some s' => passesA o e loadable body bs s'

/-- a whole run of a program: set-up, the passes, wrap-up -/
def runA (o : Operators F P R G) (e : Env F P R G) (loadable : Bool) (p : Program) (saves : List Bool)
    (s : AState F P R G) : Option (AState F P R G) :=
  match execStmtsA o e loadable true s p.pre with
  | none => none
  | some s₁ => match passesA o e loadable p.body saves s₁ with
    | none => none
    | some s₂ => execStmtsA o e loadable true s₂ p.post

theorem passesA_rel (ho : OpsRel o₁ o₂ ρ) (e₁ : Env F₁ P₁ R₁ G₁) (e₂ : Env F₂ P₂ R₂ G₂) (he : EnvRel ρ e₁ e₂)
    (loadable : Bool) (body : List Stmt) (saves : List Bool) :
    ∀ (s₁ : AState F₁ P₁ R₁ G₁) (s₂ : AState F₂ P₂ R₂ G₂), StateRel ρ s₁ s₂ →
    ORel (StateRel ρ) (passesA o₁ e₁ loadable body saves s₁) (passesA o₂ e₂ loadable body saves s₂) := by
  induction saves with
  | nil => intro s₁ s₂ h; exact h
  | cons b bs ih =>
    intro s₁ s₂ h
    have hx := execStmtsA_rel ho e₁ e₂ he loadable b body s₁ s₂ h
    simp only [passesA]
    cases h1 : execStmtsA o₁ e₁ loadable b s₁ body <;> cases h2 : execStmtsA o₂ e₂ loadable b s₂ body <;>
      rw [h1, h2] at hx
    · exact True.intro
    · exact hx.elim
    · exact hx.elim
    · exact ih _ _ hx

theorem runA_rel (ho : OpsRel o₁ o₂ ρ) (e₁ : Env F₁ P₁ R₁ G₁) (e₂ : Env F₂ P₂ R₂ G₂) (he : EnvRel ρ e₁ e₂)
    (loadable : Bool) (p : Program) (saves : List Bool) (s₁ : AState F₁ P₁ R₁ G₁) (s₂ : AState F₂ P₂ R₂ G₂)
    (h : StateRel ρ s₁ s₂) :
    ORel (StateRel ρ) (runA o₁ e₁ loadable p saves s₁) (runA o₂ e₂ loadable p saves s₂) := by
  have hx := execStmtsA_rel ho e₁ e₂ he loadable true p.pre s₁ s₂ h
  simp only [runA]
  cases h1 : execStmtsA o₁ e₁ loadable true s₁ p.pre <;> cases h2 : execStmtsA o₂ e₂ loadable true s₂ p.pre <;>
    rw [h1, h2] at hx
  · exact True.intro
  · exact hx.elim
  · exact hx.elim
  · rename_i a b
    have hy := passesA_rel ho e₁ e₂ he loadable p.body saves a b hx
    dsimp only
    cases h3 : passesA o₁ e₁ loadable p.body saves a <;> cases h4 : passesA o₂ e₂ loadable p.body saves b <;>
      rw [h3, h4] at hy <;> dsimp only
    · exact True.intro
    · exact hy.elim
    · exact hy.elim
    · exact execStmtsA_rel ho e₁ e₂ he loadable true p.post _ _ hy

/-- reading of `ORel` when the first run is known to be accepted -/
theorem ORel_some_left {α β : Type} {r : α → β → Prop} {a : α} {y : Option β} (h : ORel r (some a) y) :
    ∃ b, y = some b ∧ r a b := by
  cases y with
  | none => exact h.elim
  | some b => exact ⟨b, rfl, h⟩

end rel

/-! ### 5. the Boolean algebra "known to hold the equilibrium / zero" and the contracts that make it sound -/

/-- flags instead of contents: `true` = the grid is known to hold the equilibrium (`F`) resp. zero (`P`, `R`, `G`).
    An advection step keeps the equilibrium if its field input is known to vanish; the density of the equilibrium
    vanishes; the quasi-neutrality pipeline maps zero to zero. -/
def boolOps : Operators Bool Bool Bool Bool where
  relayoutF := fun _ _ b => b
  relayoutP := fun _ _ b => b
  relayoutR := fun _ _ b => b
  saveF := fun b => b
  restoreF := fun b => b
  flux := fun b => b
  grad := fun b => b
  vpar := fun _ b g => b && g
  pol := fun _ b p => b && p
  rhoOf := fun b => b
  modes := fun b => b
  solve := fun b => b
  potential := fun b => b

/-- the predicates the flags stand for -/
structure Preds (F P R G : Type) where
  /-- the distribution function is the unperturbed equilibrium (on the grid) -/
  IsEq : F → Prop
  /-- the potential array (values or Fourier modes) vanishes -/
  ZeroP : P → Prop
  /-- the density array (values or Fourier modes) vanishes -/
  ZeroR : R → Prop
  /-- the table of parallel gradients vanishes -/
  ZeroG : G → Prop

/--
**The operator identities the fixed-point property rests on**, one per operator of the time loop.  Every field names the
theorem that establishes it for the kernel models of this framework (what is still a hypothesis there is listed with
`KernelContracts` in `Lemmas/TimeStepKernels.lean`).
-/
structure EquilibriumContracts (o : Operators F P R G) (π : Preds F P R G) : Prop where
  /-- a layout change of the distribution function keeps the global field.
      C01 `route_transpose_correct_nobuf` / `route_transpose_correct_buf` (every route of transposes delivers the blocks
      of the same global array), C04 `history_behaves_like_global_array`. -/
  relayoutF_eq : ∀ a b f, π.IsEq f → π.IsEq (o.relayoutF a b f)
  /-- a layout change of the potential keeps the global field, also across the differently distributed layout groups
      (`v_parallel_2d`/`mode_solve` ↔ `poloidal`/`v_parallel_1d`).  C01 as above, C03 `gather_correct`, `scatter_correct`. -/
  relayoutP_zero : ∀ a b p, π.ZeroP p → π.ZeroP (o.relayoutP a b p)
  /-- a layout change of the density keeps the global field.  C01 as above. -/
  relayoutR_zero : ∀ a b r, π.ZeroR r → π.ZeroR (o.relayoutR a b r)
  /-- `saveGridValues` stores the current field.  C04 `step_refines`, `history_behaves_like_global_array`
      (`Spec.step … .save`: `saved := some (field, layout)`). -/
  save_eq : ∀ f, π.IsEq f → π.IsEq (o.saveF f)
  /-- `restoreGridValues` makes the stored field current.  C04, same theorems (`Spec.step … .restore`). -/
  restore_eq : ∀ f, π.IsEq f → π.IsEq (o.restoreF f)
  /-- the flux-surface advection maps a function that is constant along (θ, z) on every (r, v) surface to itself.
      C10 `flux_preserves_constants` (any displacement, any number of Lagrange points; the exact-shift case is
      `flux_exact_shift`). -/
  flux_eq : ∀ f, π.IsEq f → π.IsEq (o.flux f)
  /-- the parallel gradient of a zero (more generally: field-line constant) potential is zero.
      C13 `pargrad_constants_zero` (`pargrad_fieldline_constant_zero`). -/
  grad_zero : ∀ p, π.ZeroP p → π.ZeroG (o.grad p)
  /-- the v-parallel advection with a zero parallel gradient (advection speed `c = 0`) is the identity on `f`.
      C11 `vpar_zero_shift_identity` (all three boundary modes, half and full steps). -/
  vpar_eq : ∀ d f g, π.IsEq f → π.ZeroG g → π.IsEq (o.vpar d f g)
  /-- the poloidal advection with a θ-constant — in particular zero — potential is the identity on `f`.
      C12 `pol_constant_potential_identity` (explicit and implicit scheme, half and full steps). -/
  pol_eq : ∀ d f p, π.IsEq f → π.ZeroP p → π.IsEq (o.pol d f p)
  /-- the perturbed density of the equilibrium is zero.  C16 `density_zero_for_equilibrium`. -/
  rho_zero : ∀ f, π.IsEq f → π.ZeroR (o.rhoOf f)
  /-- the Fourier transform of zero is zero.  C15 `pipeline_zero_for_equilibrium` (2). -/
  modes_zero : ∀ r, π.ZeroR r → π.ZeroR (o.modes r)
  /-- every mode system with zero right-hand side has the zero solution only, whatever the coefficient buffer held.
      C15 `pipeline_zero_for_equilibrium` (3), C14 `coeffs_buffer_history_free`. -/
  solve_zero : ∀ r, π.ZeroR r → π.ZeroP (o.solve r)
  /-- the inverse Fourier transform of zero is zero.  C15 `pipeline_zero_for_equilibrium` (2). -/
  potential_zero : ∀ p, π.ZeroP p → π.ZeroP (o.potential p)

/-- a flag is related to contents that satisfy the predicate whenever the flag is set -/
def flagRels (π : Preds F P R G) : Rels Bool Bool Bool Bool F P R G where
  rF := fun b x => b = true → π.IsEq x
  rP := fun b x => b = true → π.ZeroP x
  rR := fun b x => b = true → π.ZeroR x
  rG := fun b x => b = true → π.ZeroG x

/-- the contracts say exactly that the Boolean algebra is a sound abstraction of the operators -/
theorem EquilibriumContracts.opsRel {o : Operators F P R G} {π : Preds F P R G} (h : EquilibriumContracts o π) :
    OpsRel boolOps o (flagRels π) where
  relayoutF := fun a b _ y hxy hb => h.relayoutF_eq a b y (hxy hb)
  relayoutP := fun a b _ y hxy hb => h.relayoutP_zero a b y (hxy hb)
  relayoutR := fun a b _ y hxy hb => h.relayoutR_zero a b y (hxy hb)
  saveF := fun _ y hxy hb => h.save_eq y (hxy hb)
  restoreF := fun _ y hxy hb => h.restore_eq y (hxy hb)
  flux := fun _ y hxy hb => h.flux_eq y (hxy hb)
  grad := fun _ y hxy hb => h.grad_zero y (hxy hb)
  vpar := fun d x y g k hxy hgk hb => by
    have hb' : x = true ∧ g = true := by simpa [boolOps] using hb
    exact h.vpar_eq d y k (hxy hb'.1) (hgk hb'.2)
  pol := fun d x y p q hxy hpq hb => by
    have hb' : x = true ∧ p = true := by simpa [boolOps] using hb
    exact h.pol_eq d y q (hxy hb'.1) (hpq hb'.2)
  rhoOf := fun _ y hxy hb => h.rho_zero y (hxy hb)
  modes := fun _ y hxy hb => h.modes_zero y (hxy hb)
  solve := fun _ y hxy hb => h.solve_zero y (hxy hb)
  potential := fun _ y hxy hb => h.potential_zero y (hxy hb)

/-- conversely: an algebra of which the Boolean algebra is a sound abstraction satisfies the contracts (so the structure
    assumes nothing beyond what the abstraction theorem needs) -/
theorem EquilibriumContracts.of_opsRel {o : Operators F P R G} {π : Preds F P R G} (h : OpsRel boolOps o (flagRels π)) :
    EquilibriumContracts o π where
  relayoutF_eq := fun a b f hf => h.relayoutF a b true f (fun _ => hf) rfl
  relayoutP_zero := fun a b p hp => h.relayoutP a b true p (fun _ => hp) rfl
  relayoutR_zero := fun a b r hr => h.relayoutR a b true r (fun _ => hr) rfl
  save_eq := fun f hf => h.saveF true f (fun _ => hf) rfl
  restore_eq := fun f hf => h.restoreF true f (fun _ => hf) rfl
  flux_eq := fun f hf => h.flux true f (fun _ => hf) rfl
  grad_zero := fun p hp => h.grad true p (fun _ => hp) rfl
  vpar_eq := fun d f g hf hg => h.vpar d true f true g (fun _ => hf) (fun _ => hg) rfl
  pol_eq := fun d f p hf hp => h.pol d true f true p (fun _ => hf) (fun _ => hp) rfl
  rho_zero := fun f hf => h.rhoOf true f (fun _ => hf) rfl
  modes_zero := fun r hr => h.modes true r (fun _ => hr) rfl
  solve_zero := fun r hr => h.solve true r (fun _ => hr) rfl
  potential_zero := fun p hp => h.potential true p (fun _ => hp) rfl

/-- nothing is known about freshly allocated arrays; `kl` / `kf`: is the grid read from the checkpoint / built by
    `setupCylindricalGrid` known to be the equilibrium -/
def flagEnv (kl kf : Bool) (loadedLay : Lay) : Env Bool Bool Bool Bool :=
  { junkP := false, junkR := false, junkG := false, loaded := ⟨kl, loadedLay⟩, fresh := kf }

theorem flagEnv_rel (π : Preds F P R G) (e : Env F P R G) (kl kf : Bool) (hl : kl = true → π.IsEq e.loaded.val)
    (hf : kf = true → π.IsEq e.fresh) : EnvRel (flagRels π) (flagEnv kl kf e.loaded.lay) e :=
  ⟨fun h => Bool.noConfusion h, fun h => Bool.noConfusion h, fun h => Bool.noConfusion h, ⟨hl, rfl⟩, hf⟩

/-- `b₀` claims no more than `b`: same layouts, same save status, every flag set in `b₀` is set in `b` -/
def flagLe (b₀ b : AState Bool Bool Bool Bool) : Bool :=
  (b₀.f.lay == b.f.lay) && (!b₀.f.val || b.f.val) &&
  (match b₀.fsave, b.fsave with
    | none, none => true
    | some g₀, some g => (g₀.lay == g.lay) && (!g₀.val || g.val)
    | _, _ => false) &&
  (b₀.phi.lay == b.phi.lay) && (!b₀.phi.val || b.phi.val) &&
  (b₀.rho.lay == b.rho.lay) && (!b₀.rho.val || b.rho.val) &&
  (!b₀.pgv || b.pgv)

theorem imp_of_flag {x y : Bool} (h : (!x || y) = true) : x = true → y = true := by
  cases x <;> cases y <;> simp_all

/-- weakening: a state described by `b` is described by every `b₀` that claims no more -/
theorem StateRel_weaken (π : Preds F P R G) (b₀ b : AState Bool Bool Bool Bool) (hle : flagLe b₀ b = true)
    (s : AState F P R G) (h : StateRel (flagRels π) b s) : StateRel (flagRels π) b₀ s := by
  simp only [flagLe, Bool.and_eq_true, beq_iff_eq] at hle
  obtain ⟨⟨⟨⟨⟨⟨⟨l1, v1⟩, sv⟩, l2⟩, v2⟩, l3⟩, v3⟩, v4⟩ := hle
  refine ⟨⟨fun hb => h.f.1 (imp_of_flag v1 hb), l1.trans h.f.2⟩, ?_,
    ⟨fun hb => h.phi.1 (imp_of_flag v2 hb), l2.trans h.phi.2⟩,
    ⟨fun hb => h.rho.1 (imp_of_flag v3 hb), l3.trans h.rho.2⟩, fun hb => h.pgv (imp_of_flag v4 hb)⟩
  have hs := h.fsave
  cases h0 : b₀.fsave <;> cases h1 : b.fsave <;> cases h2 : s.fsave <;> rw [h0, h1] at sv <;> rw [h1, h2] at hs <;>
    first | exact True.intro | exact hs.elim | exact Bool.noConfusion sv | skip
  simp only [Bool.and_eq_true, beq_iff_eq] at sv
  exact ⟨fun hb => hs.1 (imp_of_flag sv.2 hb), sv.1.trans hs.2⟩

/-- **soundness of the Boolean run, any statement list**: if the run on flags is accepted and ends in `b'`, the run on
    contents described by `b` is accepted and ends in contents described by `b'` -/
theorem stmts_sound {o : Operators F P R G} {π : Preds F P R G} (hc : EquilibriumContracts o π)
    (e : Env F P R G) (kl kf : Bool) (hl : kl = true → π.IsEq e.loaded.val) (hf : kf = true → π.IsEq e.fresh)
    (loadable takeSaves : Bool) (l : List Stmt) (b b' : AState Bool Bool Bool Bool)
    (hb : execStmtsA boolOps (flagEnv kl kf e.loaded.lay) loadable takeSaves b l = some b')
    (s : AState F P R G) (hs : StateRel (flagRels π) b s) :
    ∃ s', execStmtsA o e loadable takeSaves s l = some s' ∧ StateRel (flagRels π) b' s' := by
  have h := execStmtsA_rel hc.opsRel _ e (flagEnv_rel π e kl kf hl hf) loadable takeSaves l b s hs
  rw [hb] at h
  exact ORel_some_left h

/-- **soundness for any number of passes**: if one pass on flags (saving or not) leads from `b` to states that claim at
    least `b`, every sequence of passes on contents described by `b` is accepted and ends in contents described by `b` -/
theorem passes_sound {o : Operators F P R G} {π : Preds F P R G} (hc : EquilibriumContracts o π)
    (e : Env F P R G) (loadable : Bool) (body : List Stmt) (b : AState Bool Bool Bool Bool)
    (hb : ∀ t, ∃ b', execStmtsA boolOps (flagEnv false false e.loaded.lay) loadable t b body = some b' ∧ flagLe b b' = true)
    (saves : List Bool) : ∀ (s : AState F P R G), StateRel (flagRels π) b s →
    ∃ s', passesA o e loadable body saves s = some s' ∧ StateRel (flagRels π) b s' := by
  induction saves with
  | nil => intro s hs; exact ⟨s, rfl, hs⟩
  | cons t ts ih =>
    intro s hs
    obtain ⟨b', hb', hle⟩ := hb t
    obtain ⟨s₁, h1, hs₁⟩ := stmts_sound hc e false false (fun h => Bool.noConfusion h) (fun h => Bool.noConfusion h)
      loadable t body b b' hb' s hs
    obtain ⟨s₂, h2, hs₂⟩ := ih s₁ (StateRel_weaken π b b' hle s₁ hs₁)
    exact ⟨s₂, by simp only [passesA, h1, h2], hs₂⟩

/-- flags that claim nothing about a state (same layouts, same save status) -/
def unknownFlags (s : AState F P R G) : AState Bool Bool Bool Bool :=
  { f := ⟨false, s.f.lay⟩, fsave := s.fsave.map (fun g => ⟨false, g.lay⟩), phi := ⟨false, s.phi.lay⟩,
    rho := ⟨false, s.rho.lay⟩, pgv := false }

theorem unknownFlags_rel (π : Preds F P R G) (s : AState F P R G) : StateRel (flagRels π) (unknownFlags s) s := by
  refine ⟨⟨fun h => Bool.noConfusion h, rfl⟩, ?_, ⟨fun h => Bool.noConfusion h, rfl⟩, ⟨fun h => Bool.noConfusion h, rfl⟩,
    fun h => Bool.noConfusion h⟩
  show ORel _ (s.fsave.map _) s.fsave
  cases s.fsave with
  | none => exact True.intro
  | some g => exact ⟨fun h => Bool.noConfusion h, rfl⟩

/-! ### 5b. the state at the head of the driver's loop -/

/-- **the equilibrium state**: `distribFunc` holds the unperturbed equilibrium (layout `v_parallel`, no save held), `phi`
    is zero (layout `v_parallel_2d`); nothing is said about the contents of `rho` and of the gradient table -/
structure AtEquilibrium (π : Preds F P R G) (s : AState F P R G) : Prop where
  f_eq : π.IsEq s.f.val
  f_lay : s.f.lay = .v_parallel
  no_save : s.fsave = none
  phi_zero : π.ZeroP s.phi.val
  phi_lay : s.phi.lay = .v_parallel_2d
  rho_lay : s.rho.lay = .v_parallel_2d

/-- the same as flags -/
def headFlags : AState Bool Bool Bool Bool :=
  { f := ⟨true, .v_parallel⟩, fsave := none, phi := ⟨true, .v_parallel_2d⟩, rho := ⟨false, .v_parallel_2d⟩, pgv := false }

theorem atEquilibrium_iff (π : Preds F P R G) (s : AState F P R G) :
    AtEquilibrium π s ↔ StateRel (flagRels π) headFlags s := by
  constructor
  · intro h
    refine ⟨⟨fun _ => h.f_eq, h.f_lay.symm⟩, ?_, ⟨fun _ => h.phi_zero, h.phi_lay.symm⟩,
      ⟨fun hb => Bool.noConfusion hb, h.rho_lay.symm⟩, fun hb => Bool.noConfusion hb⟩
    show ORel _ none s.fsave
    rw [h.no_save]; exact True.intro
  · intro h
    refine ⟨h.f.1 rfl, h.f.2.symm, ?_, h.phi.1 rfl, h.phi.2.symm, h.rho.2.symm⟩
    have := h.fsave
    cases hs : s.fsave with
    | none => rfl
    | some g => rw [hs] at this; exact this.elim

/-! ### 6. the term algebra again: whole statement lists -/

/-- the environment of `Ckpt.execSimpleS` -/
def envOfS (junk : Nat → Term) (loaded : SGrid) (fresh : Term) : Env Term Term Term Term :=
  { junkP := junk 0, junkR := junk 1, junkG := junk 2, loaded := gridOfS loaded, fresh := fresh }

theorem execSimpleA_termOps (junk : Nat → Term) (loaded : SGrid) (fresh : Term) (s : Sim) (x : Simple) :
    execSimpleA termOps (envOfS junk loaded fresh) (ofSim s) x = (execSimpleS junk loaded fresh s x).map ofSim := by
  cases x with
  | call c => exact execCallA_termOps s c
  | setupFromFile =>
    simp only [execSimpleA, execSimpleS]
    show ite (layoutOk .distribFunc loaded.lay = true) _ _ = _
    split <;> rfl
  | _ => rfl

theorem execSimplesA_termOps (junk : Nat → Term) (loaded : SGrid) (fresh : Term) (l : List Simple) : ∀ (s : Sim),
    execSimplesA termOps (envOfS junk loaded fresh) (ofSim s) l = (execSimplesS junk loaded fresh s l).map ofSim := by
  induction l with
  | nil => intro s; rfl
  | cons x xs ih =>
    intro s
    simp only [execSimplesA, execSimplesS, execSimpleA_termOps]
    cases execSimpleS junk loaded fresh s x with
    | none => rfl
    | some s' => exact ih s'

theorem ite_map_congr {α β : Type} (f : α → β) (c : Prop) (i₁ i₂ : Decidable c) (a b : Option β) (a' b' : Option α)
    (h1 : a = a'.map f) (h2 : b = b'.map f) : @ite _ c i₁ a b = (@ite _ c i₂ a' b').map f := by
  by_cases h : c
  · rw [if_pos h, if_pos h]; exact h1
  · rw [if_neg h, if_neg h]; exact h2

/-- **the interpreter at the free term algebra is the symbolic interpreter of C18**, for every statement list -/
theorem execStmtsA_termOps (junk : Nat → Term) (loaded : SGrid) (fresh : Term) (loadable takeSaves : Bool)
    (l : List Stmt) : ∀ (s : Sim),
    execStmtsA termOps (envOfS junk loaded fresh) loadable takeSaves (ofSim s) l
      = (execStmtsS junk loaded fresh loadable takeSaves s l).map ofSim := by
  induction l with
  | nil => intro s; rfl
  | cons st rest ih =>
    intro s
    cases st with
    | s x =>
      simp only [execStmtsA, execStmtsS, execSimpleA_termOps]
      cases execSimpleS junk loaded fresh s x with
      | none => rfl
      | some s' => exact ih s'
    | ifc c body =>
      cases c <;> simp only [execStmtsA, execStmtsS, branchTaken] <;> apply ite_map_congr <;>
        first
        | exact ih s
        | (simp only [execSimplesA_termOps]
           cases execSimplesS junk loaded fresh s body with
           | none => rfl
           | some s' => exact ih s')

end PygyroVerif.TimeStep
