/-
Loop invariants for the tie theorems of Props/C07Gen2.lean: the `for` loops of the GENERATED `nu_basis_funs`
(Generated/BasisFunsGen.lean, regenerated from pygyro/splines/spline_eval_funcs.py on every run of `./check C07`) against the
list recursion of the hand-written model (Model/BSpline.lean: `innerLoop`, `levels`).

The generated loops work on the record `St` of all locals with arrays as functions `ℕ → ℚ`; the model consumes and produces lists.
  * `inner_eq`  : `for r in range(0, j+1)` started at `r` with `vs.length` iterations left, when `values[r..]` holds the list `vs`,
                  leaves `values[r..r+|vs|-1]` and `saved` equal to the entries of `innerLoop left right j r vs saved`, and changes
                  nothing else (the final state is the initial record with the fields `values, saved, r, temp` replaced).
  * `outer_eq`  : `for j in range(0, degree)` started at `i` with `n` iterations left, when `values[0..i]` is the model's level `i`
                  and `left/right[0..i-1]` hold the knot differences, leaves `values[0..i+n]` equal to level `i+n`, `values` above
                  untouched.  `left`/`right` are only ever read where they have been written (their initial contents `U` is arbitrary).
-/
import PygyroVerif.Generated.BasisFunsGen
import PygyroVerif.Lemmas.BSpline

namespace PygyroVerif.BasisFunsGen
open PygyroVerif.BSpline
open PygyroVerif.Gen.BasisFuns PygyroVerif.Gen.BasisFuns.nu_basis_funs_

/-- two lists of the same length with the same entries (read with default 0) are equal -/
theorem list_ext_getD {l₁ l₂ : List ℚ} (hl : l₁.length = l₂.length) (h : ∀ k, k < l₁.length → l₁.getD k 0 = l₂.getD k 0) :
    l₁ = l₂ := by
  apply List.ext_getElem hl
  intro k h1 h2
  have := h k h1
  simpa [List.getD_eq_getElem?_getD, List.getElem?_eq_getElem h1, List.getElem?_eq_getElem h2] using this

/-- the generated inner loop (`for r in range(0, j+1)`) is the model's `innerLoop` -/
theorem inner_eq (U : ℕ → ℚ) (F : ℕ) : ∀ (vs : List ℚ) (r : ℕ) (σ : St),
    (∀ k, k < vs.length → σ.values (r + k) = vs.getD k 0) →
    ∃ V S R T, nu_basis_funs_loop2 U F vs.length r σ = .ok { σ with values := V, saved := S, r := R, temp := T } ∧
      (∀ k, k < r → V k = σ.values k) ∧ (∀ k, r + vs.length ≤ k → V k = σ.values k) ∧
      (∀ k, k < vs.length → V (r + k) = (innerLoop σ.left σ.right σ.j r vs σ.saved).getD k 0) ∧
      S = (innerLoop σ.left σ.right σ.j r vs σ.saved).getD vs.length 0
  | [], r, σ, _ =>
    ⟨σ.values, σ.saved, σ.r, σ.temp, rfl, fun _ _ => rfl, fun _ _ => rfl, fun k hk => by simp at hk, by simp [innerLoop]⟩
  | v :: vs, r, σ, h => by
    have hv : σ.values r = v := by simpa using h 0 (by simp)
    -- the state at the end of the first iteration
    let σ1 : St := { σ with
      r := r
      temp := σ.values r / (σ.right r + σ.left (σ.j - r))
      values := fun k_ => if k_ = r then σ.saved + σ.right r * (σ.values r / (σ.right r + σ.left (σ.j - r))) else σ.values k_
      saved := σ.left (σ.j - r) * (σ.values r / (σ.right r + σ.left (σ.j - r))) }
    have h1 : ∀ k, k < vs.length → σ1.values (r + 1 + k) = vs.getD k 0 := by
      intro k hk
      have := h (k + 1) (by simpa using hk)
      simp only [List.getD_cons_succ] at this
      show (if r + 1 + k = r then _ else σ.values (r + 1 + k)) = _
      rw [if_neg (by omega), ← this]
      congr 1
      omega
    obtain ⟨V, S, R, T, hrun, hlo, hhi, hmid, hS⟩ := inner_eq U F vs (r + 1) σ1 h1
    refine ⟨V, S, R, T, hrun, ?_, ?_, ?_, ?_⟩
    · intro k hk
      rw [hlo k (by omega)]
      show (if k = r then _ else σ.values k) = _
      rw [if_neg (by omega)]
    · intro k hk
      simp only [List.length_cons] at hk
      rw [hhi k (by omega)]
      show (if k = r then _ else σ.values k) = _
      rw [if_neg (by omega)]
    · intro k hk
      cases k with
      | zero =>
        rw [Nat.add_zero, hlo r (by omega)]
        show (if r = r then _ else σ.values r) = _
        rw [if_pos rfl, hv]
        simp [innerLoop]
      | succ k =>
        have := hmid k (by simpa using hk)
        rw [show r + (k + 1) = r + 1 + k by omega, this]
        show (innerLoop σ.left σ.right σ.j (r + 1) vs
          (σ.left (σ.j - r) * (σ.values r / (σ.right r + σ.left (σ.j - r))))).getD k 0 = _
        rw [hv]
        simp [innerLoop]
    · rw [hS]
      show (innerLoop σ.left σ.right σ.j (r + 1) vs
        (σ.left (σ.j - r) * (σ.values r / (σ.right r + σ.left (σ.j - r))))).getD vs.length 0 = _
      rw [hv]
      simp [innerLoop]

/-- the generated outer loop (`for j in range(0, degree)`) computes the model's `levels` -/
theorem outer_eq (U : ℕ → ℚ) (F : ℕ) : ∀ (n i : ℕ) (σ : St),
    (∀ k, k ≤ i → σ.values k = (levels (leftOf σ.knots σ.span σ.x) (rightOf σ.knots σ.span σ.x) i).getD k 0) →
    (∀ k, k < i → σ.left k = leftOf σ.knots σ.span σ.x k) →
    (∀ k, k < i → σ.right k = rightOf σ.knots σ.span σ.x k) →
    ∃ V L R J S Rr T, nu_basis_funs_loop1 U F n i σ
        = .ok { σ with values := V, left := L, right := R, j := J, saved := S, r := Rr, temp := T } ∧
      (∀ k, k ≤ i + n → V k = (levels (leftOf σ.knots σ.span σ.x) (rightOf σ.knots σ.span σ.x) (i + n)).getD k 0) ∧
      (∀ k, i + n < k → V k = σ.values k) := by
  intro n
  induction n with
  | zero =>
    intro i σ hv _ _
    exact ⟨σ.values, σ.left, σ.right, σ.j, σ.saved, σ.r, σ.temp, rfl, fun k hk => hv k hk, fun _ _ => rfl⟩
  | succ n ih =>
    intro i σ hv hl hr
    -- the state when the inner loop starts
    let σa : St := { σ with
      j := i
      left := fun k_ => if k_ = i then σ.x - σ.knots (σ.span - i) else σ.left k_
      right := fun k_ => if k_ = i then σ.knots (σ.span + 1 + i) - σ.x else σ.right k_
      saved := 0 }
    have hlen := levels_length (leftOf σ.knots σ.span σ.x) (rightOf σ.knots σ.span σ.x) i
    obtain ⟨V, S, R, T, hrun, -, hhi, hmid, hS⟩ := inner_eq U F
      (levels (leftOf σ.knots σ.span σ.x) (rightOf σ.knots σ.span σ.x) i) 0 σa (by
        intro k hk
        rw [Nat.zero_add]
        exact hv k (by omega))
    rw [hlen] at hrun hS
    -- the inner loop read `left`, `right` only where they hold the knot differences: it is the model's step to level i+1
    have hstep : innerLoop σa.left σa.right σa.j 0 (levels (leftOf σ.knots σ.span σ.x) (rightOf σ.knots σ.span σ.x) i) σa.saved
        = levels (leftOf σ.knots σ.span σ.x) (rightOf σ.knots σ.span σ.x) (i + 1) := by
      show innerLoop σa.left σa.right i 0 _ 0 = innerLoop _ _ i 0 _ 0
      apply innerLoop_congr
      intro k _ hk
      rw [hlen] at hk
      constructor
      · show (if k = i then _ else σ.right k) = _
        by_cases hki : k = i
        · rw [if_pos hki, hki]; rfl
        · rw [if_neg hki]; exact hr k (by omega)
      · show (if i - k = i then _ else σ.left (i - k)) = _
        by_cases hki : i - k = i
        · rw [if_pos hki, hki]; rfl
        · rw [if_neg hki]; exact hl _ (by omega)
    rw [hstep] at hmid hS
    -- the state when the next iteration of the outer loop starts
    let σb : St := { σa with values := fun k_ => if k_ = i + 1 then S else V k_, saved := S, r := R, temp := T }
    obtain ⟨V', L', R', J', S', Rr', T', hrun', hV', hfr'⟩ := ih (i + 1) σb
      (by
        intro k hk
        show (if k = i + 1 then S else V k) = _
        by_cases hk1 : k = i + 1
        · rw [if_pos hk1, hS, hk1]
        · rw [if_neg hk1]
          have := hmid k (by omega)
          rwa [Nat.zero_add] at this)
      (by
        intro k hk
        show (if k = i then _ else σ.left k) = _
        by_cases hki : k = i
        · rw [if_pos hki, hki]; rfl
        · rw [if_neg hki]; exact hl k (by omega))
      (by
        intro k hk
        show (if k = i then _ else σ.right k) = _
        by_cases hki : k = i
        · rw [if_pos hki, hki]; rfl
        · rw [if_neg hki]; exact hr k (by omega))
    refine ⟨V', L', R', J', S', Rr', T', ?_, ?_, ?_⟩
    · show (match nu_basis_funs_loop2 U F (i + 1) 0 σa with
          | .ok σ => nu_basis_funs_loop1 U F n (i + 1)
              { σ with values := fun k_ => if k_ = σ.j + 1 then σ.saved else σ.values k_ }
          | .done o => .done o) = _
      rw [hrun]
      exact hrun'
    · intro k hk
      rw [show i + (n + 1) = i + 1 + n by omega]
      exact hV' k (by omega)
    · intro k hk
      rw [hfr' k (by omega)]
      show (if k = i + 1 then S else V k) = _
      rw [if_neg (by omega), hhi k (by rw [hlen]; omega)]

/-- the whole generated function: it returns, `values[0..degree]` are the model's basis values, nothing above is written;
    for every content `U` of the uninitialised `left`/`right`, every fuel, and every initial content `v0` of `values` -/
theorem run_eq (U : ℕ → ℚ) (F : ℕ) (t : ℕ → ℚ) (nk degree : ℕ) (x : ℚ) (span : ℕ) (v0 : ℕ → ℚ) (vlen : ℕ) :
    ∃ σ', run U F t nk degree x span v0 vlen = .ret σ' ∧
      (∀ k, k ≤ degree → σ'.values k = (basisFuns t degree x span).getD k 0) ∧
      (∀ k, degree < k → σ'.values k = v0 k) := by
  let σ0 : St := { knots := t, knots_len := nk, degree := degree, x := x, span := span,
                   values := fun k_ => if k_ = 0 then 1 else v0 k_, values_len := vlen,
                   left := U, left_len := degree, right := U, right_len := degree }
  obtain ⟨V, L, R, J, S, Rr, T, hrun, hV, hfr⟩ := outer_eq U F degree 0 σ0
    (by
      intro k hk
      obtain rfl : k = 0 := by omega
      simp [σ0, levels])
    (fun k hk => by omega) (fun k hk => by omega)
  refine ⟨{ σ0 with values := V, left := L, right := R, j := J, saved := S, r := Rr, temp := T }, ?_, ?_, ?_⟩
  · show (match nu_basis_funs_loop1 U F degree 0 σ0 with
        | .ok σ => Out.ret σ
        | .done o => o) = _
    rw [hrun]
  · intro k hk
    have := hV k (by omega)
    rw [Nat.zero_add] at this
    exact this
  · intro k hk
    show V k = v0 k
    rw [hfr k (by omega)]
    show (if k = 0 then 1 else v0 k) = _
    rw [if_neg (by omega)]

end PygyroVerif.BasisFunsGen
