/-
Congruence of the route search of the hand-written model (Model/Handler.lean `relax`, `dijkstra`, `relaxAll`, `maxDist`) with
respect to the entries that exist in the Python dicts: `_makeConnectionMap` builds `distanceMap[a][b]` / `_route_map[a][b]` for
`a ≠ b` among the `n` layouts only.  The model's maps are total functions; two maps that agree on the existing entries are sent
to maps that agree on the existing entries (`Agree`), whatever they hold on the diagonal and outside `0..n-1`.  Used by
Props/C06Gen.lean (the translation of the source has no diagonal entries, the model holds `n + 1` / `[]` there); also: the fuel
of `dijkstra` beyond the number of unvisited nodes is not used.  Only the model is mentioned here (no generated module).
-/
import PygyroVerif.Lemmas.RouteDet

namespace PygyroVerif.RouteAgree
open PygyroVerif PygyroVerif.Handler PygyroVerif.RouteValid PygyroVerif.RouteDet

/-- the two maps hold the same distance and the same route at every entry `(a, b)`, `a ≠ b`, of the `n` layouts -/
def Agree (n : Nat) (m1 m2 : RouteMap) : Prop :=
  ∀ a b, a < n → b < n → a ≠ b → m1.d a b = m2.d a b ∧ m1.r a b = m2.r a b

theorem Agree.refl (n : Nat) (m : RouteMap) : Agree n m m := fun _ _ _ _ _ => ⟨rfl, rfl⟩

/-- the four stores of the "shorter" branch -/
def upd4 (m : RouteMap) (s aim v1 v2 : Nat) (r1 r2 : List Nat) : RouteMap :=
  (((m.setD s aim v1).setD aim s v2).setR s aim r1).setR aim s r2

/-- the two stores of the "same length, smaller names" branch -/
def updR2 (m : RouteMap) (s aim : Nat) (r1 r2 : List Nat) : RouteMap :=
  (m.setR s aim r1).setR aim s r2

/-- `relax` with every read expressed on the map before the stores (the three layouts are different) -/
theorem relax_nf (names : List String) (s via aim : Nat) (U : List Nat) (m : RouteMap)
    (hs : s ≠ aim) (hsv : s ≠ via) (haim : aim ∈ U) :
    relax names s via U m aim =
      if m.d s via + m.d via aim < m.d s aim then
        upd4 m s aim (m.d s via + m.d via aim) (m.d via s + m.d aim via) (m.r s via ++ m.r via aim) (m.r aim via ++ m.r via s)
      else if m.d s via + m.d via aim = m.d s aim then
        if lexLt (nm names (m.r s via ++ m.r via aim)) (nm names (m.r s aim)) then
          updR2 m s aim (m.r s via ++ m.r via aim) (m.r aim via ++ m.r via s)
        else m
      else m := by
  unfold relax
  have hc : U.contains aim = true := by simpa using haim
  have q1 : ∀ v, (m.setD s aim v).d via s = m.d via s := by
    intro v; simp [RouteMap.setD, RouteMap.d, Ne.symm hsv]
  have q2 : ∀ v, (m.setD s aim v).d aim via = m.d aim via := by
    intro v; simp [RouteMap.setD, RouteMap.d, Ne.symm hs]
  have q5 : ∀ (m' : RouteMap) l, (m'.setR s aim l).r aim via = m'.r aim via := by
    intro m' l; simp [RouteMap.setR, RouteMap.r, Ne.symm hs]
  have q6 : ∀ (m' : RouteMap) l, (m'.setR s aim l).r via s = m'.r via s := by
    intro m' l; simp [RouteMap.setR, RouteMap.r, Ne.symm hsv]
  have q7 : ∀ (m' : RouteMap) a b v, (m'.setD a b v).r = m'.r := by
    intro m' a b v; rfl
  simp only [hc, Bool.not_true, Bool.false_eq_true, ↓reduceIte, q1, q2, q5, q6, q7, upd4, updR2, nm]
  rfl

theorem upd4_agree (n : Nat) (m1 m2 : RouteMap) (h : Agree n m1 m2) (s aim v1 v2 : Nat) (r1 r2 : List Nat) :
    Agree n (upd4 m1 s aim v1 v2 r1 r2) (upd4 m2 s aim v1 v2 r1 r2) := by
  intro a b ha hb hab
  have := h a b ha hb hab
  simp only [RouteMap.d, RouteMap.r] at this
  simp only [upd4, RouteMap.setD, RouteMap.setR, RouteMap.d, RouteMap.r, this.1, this.2, and_self]

theorem updR2_agree (n : Nat) (m1 m2 : RouteMap) (h : Agree n m1 m2) (s aim : Nat) (r1 r2 : List Nat) :
    Agree n (updR2 m1 s aim r1 r2) (updR2 m2 s aim r1 r2) := by
  intro a b ha hb hab
  have := h a b ha hb hab
  simp only [RouteMap.d, RouteMap.r] at this
  simp only [updR2, RouteMap.setR, RouteMap.d, RouteMap.r, this.1, this.2, and_self]

/-- one guarded relaxation reads and writes existing entries only -/
theorem relax_agree (names : List String) (n s via aim : Nat) (U : List Nat) (m1 m2 : RouteMap) (h : Agree n m1 m2)
    (hs : s < n) (hv : via < n) (hsv : s ≠ via) (hU : ∀ x ∈ U, x < n ∧ x ≠ s ∧ x ≠ via) :
    Agree n (relax names s via U m1 aim) (relax names s via U m2 aim) := by
  by_cases haim : aim ∈ U
  · obtain ⟨ha, has, hav⟩ := hU aim haim
    rw [relax_nf names s via aim U m1 (Ne.symm has) hsv haim, relax_nf names s via aim U m2 (Ne.symm has) hsv haim]
    have e1 := h s via hs hv hsv
    have e2 := h via aim hv ha (Ne.symm hav)
    have e3 := h s aim hs ha (Ne.symm has)
    have e4 := h via s hv hs (Ne.symm hsv)
    have e5 := h aim via ha hv hav
    rw [e1.1, e2.1, e3.1, e4.1, e5.1, e1.2, e2.2, e3.2, e4.2, e5.2]
    split
    · exact upd4_agree n m1 m2 h _ _ _ _ _ _
    · split
      · split
        · exact updR2_agree n m1 m2 h _ _ _ _
        · exact h
      · exact h
  · rw [relax_skip names s via aim U m1 haim, relax_skip names s via aim U m2 haim]
    exact h

theorem relax_fold_agree (names : List String) (n s via : Nat) (U : List Nat)
    (hs : s < n) (hv : via < n) (hsv : s ≠ via) (hU : ∀ x ∈ U, x < n ∧ x ≠ s ∧ x ≠ via) :
    ∀ (l : List Nat) (m1 m2 : RouteMap), Agree n m1 m2 →
      Agree n (l.foldl (relax names s via U) m1) (l.foldl (relax names s via U) m2) := by
  intro l
  induction l with
  | nil => intro m1 m2 h; exact h
  | cons x t ih =>
    intro m1 m2 h
    simp only [List.foldl_cons]
    exact ih _ _ (relax_agree names n s via x U m1 m2 h hs hv hsv hU)

/-- `min(unvisited, key=…)` looks at the keys of unvisited nodes only -/
theorem pickMin_congr (order U : List Nat) (k1 k2 : Nat → Nat) (h : ∀ x ∈ U, k1 x = k2 x) :
    pickMin order U k1 = pickMin order U k2 := by
  unfold pickMin
  have key : ∀ (l : List Nat) (best : Option Nat), (∀ x ∈ l, x ∈ U) → (∀ b, best = some b → b ∈ U) →
      l.foldl (fun best x => match best with
        | none => some x
        | some b => if k1 x < k1 b then some x else some b) best =
      l.foldl (fun best x => match best with
        | none => some x
        | some b => if k2 x < k2 b then some x else some b) best := by
    intro l
    induction l with
    | nil => intro _ _ _; rfl
    | cons y t ih =>
      intro best hl hb
      simp only [List.foldl_cons]
      have hy : y ∈ U := hl y (by simp)
      have ht : ∀ x ∈ t, x ∈ U := fun x hx => hl x (by simp [hx])
      cases best with
      | none => exact ih _ ht (fun b hb' => by cases hb'; exact hy)
      | some b =>
        have hbU : b ∈ U := hb b rfl
        simp only [h y hy, h b hbU]
        apply ih _ ht
        intro b' hb'
        split at hb'
        · cases hb'; exact hy
        · cases hb'; exact hbU
  apply key
  · intro x hx
    simpa using (List.mem_filter.mp hx).2
  · intro b hb; cases hb

/-- the `while` loop for one source reads and writes existing entries only -/
theorem dijkstra_agree (names : List String) (conn : List (List Nat)) (order : List Nat) (n s : Nat) (hs : s < n) :
    ∀ (fuel : Nat) (U : List Nat) (m1 m2 : RouteMap), (∀ x ∈ U, x < n ∧ x ≠ s) → Agree n m1 m2 →
      Agree n (dijkstra names conn order s fuel U m1) (dijkstra names conn order s fuel U m2) := by
  intro fuel
  induction fuel with
  | zero => intro U m1 m2 _ h; exact h
  | succ f ih =>
    intro U m1 m2 hU h
    have hp : pickMin order U (fun x => m1.d s x) = pickMin order U (fun x => m2.d s x) :=
      pickMin_congr order U _ _ (fun x hx => (h s x hs (hU x hx).1 (Ne.symm (hU x hx).2)).1)
    simp only [dijkstra]
    rw [hp]
    cases hpick : pickMin order U (fun x => m2.d s x) with
    | none => exact h
    | some via =>
      have hvia : via ∈ U := pickMin_mem order U _ via hpick
      have hU' : ∀ x ∈ U.filter (· ≠ via), x < n ∧ x ≠ s ∧ x ≠ via := by
        intro x hx
        obtain ⟨hxU, hxv⟩ := (mem_filter_ne U via x).mp hx
        exact ⟨(hU x hxU).1, (hU x hxU).2, hxv⟩
      apply ih
      · intro x hx; exact ⟨(hU' x hx).1, (hU' x hx).2.1⟩
      · exact relax_fold_agree names n s via _ hs (hU via hvia).1 (Ne.symm (hU via hvia).2) hU' _ _ _ h

theorem sources_fold_agree (names : List String) (conn : List (List Nat)) (order : List Nat) (n : Nat) :
    ∀ (srcs : List Nat) (m1 m2 : RouteMap), (∀ s ∈ srcs, s < n) → Agree n m1 m2 →
      Agree n (srcs.foldl (fun m s => dijkstra names conn order s n ((List.range n).filter (· ≠ s)) m) m1)
        (srcs.foldl (fun m s => dijkstra names conn order s n ((List.range n).filter (· ≠ s)) m) m2) := by
  intro srcs
  induction srcs with
  | nil => intro m1 m2 _ h; exact h
  | cons s t ih =>
    intro m1 m2 hs h
    simp only [List.foldl_cons]
    apply ih _ _ (fun x hx => hs x (by simp [hx]))
    apply dijkstra_agree names conn order n s (hs s (by simp)) n _ m1 m2 _ h
    intro x hx
    obtain ⟨h1, h2⟩ := List.mem_filter.mp hx
    exact ⟨by simpa using h1, by simpa using h2⟩

/-- the loop over the sources -/
theorem relaxAll_agree (names : List String) (conn : List (List Nat)) (order : List Nat) (n : Nat) (m1 m2 : RouteMap)
    (h : Agree n m1 m2) : Agree n (relaxAll names conn order n m1) (relaxAll names conn order n m2) := by
  unfold relaxAll
  exact sources_fold_agree names conn order n _ m1 m2 (fun s hs => by simpa using hs) h

/-- the initialisation of the known distances and routes, started from any map (`initRoutes` starts from `n + 1` / `[]`) -/
def initFrom (conn : List (List Nat)) (n : Nat) (m0 : RouteMap) : RouteMap :=
  (List.range n).foldl (fun m a => (conn.getD a []).foldl (fun m b => (m.setD a b 1).setR a b (m.r a b ++ [b])) m) m0

theorem initRoutes_eq_initFrom (conn : List (List Nat)) (n : Nat) :
    initRoutes conn n = initFrom conn n { dist := fun _ _ => n + 1, route := fun _ _ => [] } := rfl

theorem initFrom_agree (conn : List (List Nat)) (n : Nat) (m1 m2 : RouteMap) (h : Agree n m1 m2) :
    Agree n (initFrom conn n m1) (initFrom conn n m2) := by
  unfold initFrom
  have inner : ∀ (a : Nat) (l : List Nat) (m1 m2 : RouteMap), Agree n m1 m2 →
      Agree n (l.foldl (fun m b => (m.setD a b 1).setR a b (m.r a b ++ [b])) m1)
        (l.foldl (fun m b => (m.setD a b 1).setR a b (m.r a b ++ [b])) m2) := by
    intro a l
    induction l with
    | nil => intro m1 m2 h; exact h
    | cons b t ih =>
      intro m1 m2 h
      simp only [List.foldl_cons]
      apply ih
      intro x y hx hy hxy
      have hxy' := h x y hx hy hxy
      simp only [RouteMap.d, RouteMap.r] at hxy'
      simp only [RouteMap.setD, RouteMap.setR, RouteMap.d, RouteMap.r, hxy'.1, hxy'.2, true_and]
      by_cases c : x = a ∧ y = b
      · obtain ⟨rfl, rfl⟩ := c
        simp only [and_self, ↓reduceIte, hxy'.2]
      · simp only [c, ↓reduceIte]
  have outer : ∀ (l : List Nat) (m1 m2 : RouteMap), Agree n m1 m2 →
      Agree n (l.foldl (fun m a => (conn.getD a []).foldl (fun m b => (m.setD a b 1).setR a b (m.r a b ++ [b])) m) m1)
        (l.foldl (fun m a => (conn.getD a []).foldl (fun m b => (m.setD a b 1).setR a b (m.r a b ++ [b])) m) m2) := by
    intro l
    induction l with
    | nil => intro m1 m2 h; exact h
    | cons a t ih =>
      intro m1 m2 h
      simp only [List.foldl_cons]
      exact ih _ _ (inner a _ _ _ h)
  exact outer _ _ _ h

/-- the connectivity test looks at existing entries only -/
theorem maxDist_agree (n : Nat) (m1 m2 : RouteMap) (h : Agree n m1 m2) : maxDist m1 n = maxDist m2 n := by
  unfold maxDist
  apply foldl_congr_mem
  intro acc a ha
  apply foldl_congr_mem
  intro acc' b hb
  by_cases hab : a = b
  · simp [hab]
  · rw [(h a b (by simpa using ha) (by simpa using hb) hab).1]

/-! ### fuel of the `while` loop -/

theorem dijkstra_nil (names : List String) (conn : List (List Nat)) (order : List Nat) (s fuel : Nat) (m : RouteMap) :
    dijkstra names conn order s fuel [] m = m := by
  cases fuel with
  | zero => rfl
  | succ f =>
    simp only [dijkstra]
    have : pickMin order [] (fun x => m.d s x) = none := by
      unfold pickMin
      have : order.filter (fun x => ([] : List Nat).contains x) = [] := by simp
      rw [this]; rfl
    rw [this]

/-- one more unit of fuel than there are unvisited nodes changes nothing (every unvisited node occurs in the iteration order) -/
theorem dijkstra_fuel_succ (names : List String) (conn : List (List Nat)) (order : List Nat) (s : Nat) :
    ∀ (k : Nat) (U : List Nat) (m : RouteMap), U.length ≤ k → (∀ x ∈ U, x ∈ order) →
      dijkstra names conn order s (k + 1) U m = dijkstra names conn order s k U m := by
  intro k
  induction k with
  | zero =>
    intro U m hU _
    have : U = [] := List.eq_nil_of_length_eq_zero (by omega)
    subst this
    rw [dijkstra_nil, dijkstra_nil]
  | succ k ih =>
    intro U m hU ho
    simp only [dijkstra]
    cases hpick : pickMin order U (fun x => m.d s x) with
    | none => rfl
    | some via =>
      simp only
      have hvia : via ∈ U := pickMin_mem order U _ via hpick
      apply ih
      · have : (U.filter (· ≠ via)).length < U.length :=
          List.length_filter_lt_length_iff_exists.mpr ⟨via, hvia, by simp⟩
        omega
      · intro x hx; exact ho x ((mem_filter_ne U via x).mp hx).1

theorem dijkstra_fuel_add (names : List String) (conn : List (List Nat)) (order : List Nat) (s : Nat)
    (U : List Nat) (m : RouteMap) (ho : ∀ x ∈ U, x ∈ order) :
    ∀ j, dijkstra names conn order s (U.length + j) U m = dijkstra names conn order s U.length U m := by
  intro j
  induction j with
  | zero => rfl
  | succ j ih =>
    rw [← Nat.add_assoc, dijkstra_fuel_succ names conn order s (U.length + j) U m (by omega) ho, ih]

/-- any two amounts of fuel that cover the unvisited nodes give the same map -/
theorem dijkstra_fuel_indep (names : List String) (conn : List (List Nat)) (order : List Nat) (s : Nat)
    (U : List Nat) (m : RouteMap) (ho : ∀ x ∈ U, x ∈ order) (k1 k2 : Nat) (h1 : U.length ≤ k1) (h2 : U.length ≤ k2) :
    dijkstra names conn order s k1 U m = dijkstra names conn order s k2 U m := by
  obtain ⟨j1, rfl⟩ := Nat.exists_eq_add_of_le h1
  obtain ⟨j2, rfl⟩ := Nat.exists_eq_add_of_le h2
  rw [dijkstra_fuel_add names conn order s U m ho j1, dijkstra_fuel_add names conn order s U m ho j2]

end PygyroVerif.RouteAgree
