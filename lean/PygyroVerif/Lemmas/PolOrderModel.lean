/-
Helper lemmas for C12Extra, second part: the implicit iteration of `Model/PolAdv.lean` node by node (`nodeIter`), the
sweep norm as a maximum, the angular distance of the stop rule (`if diff > pi: diff = 2*pi − diff`) as a distance modulo
the period, and the contraction of one sweep in the code's own distance — with the reduction modulo 2π and the
clipping (which is 1-Lipschitz) included.  Generic ordered field `K` (the driver runs the model over ℚ).
-/
import Mathlib.Algebra.Order.Field.Basic
import Mathlib.Algebra.Order.Archimedean.Basic
import Mathlib.Algebra.Order.AbsoluteValue.Basic
import Mathlib.Tactic.Ring
import Mathlib.Tactic.Linarith
import Mathlib.Tactic.NormNum
import Mathlib.Tactic.Positivity
import PygyroVerif.Lemmas.Advection
import PygyroVerif.Lemmas.PolOrder

namespace PygyroVerif.PolOrderModel

open PygyroVerif.PolAdv PygyroVerif.Advection

set_option linter.unusedSectionVars false

variable {K : Type*} [Field K] [LinearOrder K]

/-! ### the iteration node by node -/

/-- end point of the node `n` after `k` sweeps of the exact iteration (`rnd = id`), started as the code does -/
def nodeIter (E : Evals K) (P : Params K) (period half : K) (n : K × K) : ℕ → K × K
  | 0 => implInit E P n.1 n.2
  | k + 1 => (implNode E P period half n.1 n.2 (nodeIter E P period half n k)).1

/-- the two `diff`s of the node `n` in sweep number `k` (0-based) -/
def nodeDiff (E : Evals K) (P : Params K) (period half : K) (n : K × K) (k : ℕ) : K × K :=
  (implNode E P period half n.1 n.2 (nodeIter E P period half n k)).2

theorem sweep_map (E : Evals K) (P : Params K) (period half : K) (g : K × K → K × K) (nodes : List (K × K)) :
    sweep E P period half nodes (nodes.map g) =
      (nodes.map (fun n => (implNode E P period half n.1 n.2 (g n)).1),
        (nodes.map (fun n => (implNode E P period half n.1 n.2 (g n)).2)).foldl normUpd 0) := by
  have hres : ∀ l : List (K × K),
      (l.zip (l.map g)).map (fun ns => implNode E P period half ns.1.1 ns.1.2 ns.2) =
        l.map (fun n => implNode E P period half n.1 n.2 (g n)) := by
    intro l
    induction l with
    | nil => rfl
    | cons a l ih => simp only [List.map_cons, List.zip_cons_cons, ih]
  unfold sweep
  simp only [hres nodes, List.map_map]
  rfl

theorem iterState_init (E : Evals K) (P : Params K) (period half : K) (nodes : List (K × K)) (k : ℕ) :
    iterState E P period half nodes k (nodes.map (fun n => implInit E P n.1 n.2)) =
      nodes.map (fun n => nodeIter E P period half n k) := by
  induction k with
  | zero => rfl
  | succ k ih =>
    unfold iterState at ih ⊢
    rw [Function.iterate_succ_apply', ih, sweep_map]
    rfl

theorem sweep_norm_init (E : Evals K) (P : Params K) (period half : K) (nodes : List (K × K)) (k : ℕ) :
    (sweep E P period half nodes
      (iterState E P period half nodes k (nodes.map (fun n => implInit E P n.1 n.2)))).2 =
      (nodes.map (fun n => nodeDiff E P period half n k)).foldl normUpd 0 := by
  rw [iterState_init, sweep_map]
  rfl

theorem iterState_add (E : Evals K) (P : Params K) (period half : K) (nodes state : List (K × K)) (m k : ℕ) :
    iterState E P period half nodes k (iterState E P period half nodes m state) =
      iterState E P period half nodes (k + m) state := by
  unfold iterState
  rw [Function.iterate_add_apply]

/-- a successful loop returns the state after `k ≥ 1` sweeps and has counted them -/
theorem implLoop_some_iterState (E : Evals K) (P : Params K) (period half tol : K) (nodes : List (K × K)) :
    ∀ (fuel : ℕ) (state : List (K × K)) (cnt : ℕ) (norms : List K) (res : List (K × K) × ℕ × List K),
      implLoop E P period half tol id nodes fuel state cnt norms = some res →
      ∃ k, res.1 = iterState E P period half nodes (k + 1) state ∧ res.2.1 = cnt + (k + 1) ∧
        (sweep E P period half nodes (iterState E P period half nodes k state)).2 ≤ tol
  | 0, _, _, _, _, h => by simp [implLoop] at h
  | fuel+1, state, cnt, norms, res, h => by
    simp only [implLoop, id] at h
    have hmap : (sweep E P period half nodes state).1.map (fun p => (p.1, p.2)) =
        (sweep E P period half nodes state).1 := by simp
    rw [hmap] at h
    split_ifs at h with hn
    · obtain ⟨k, h1, h2, h3⟩ := implLoop_some_iterState E P period half tol nodes fuel _ _ _ res h
      refine ⟨k + 1, ?_, by omega, ?_⟩
      · rw [h1]
        simp only [iterState, Function.iterate_succ_apply]
      · simpa only [iterState, Function.iterate_succ_apply] using h3
    · simp only [Option.some.injEq] at h
      subst h
      exact ⟨0, rfl, rfl, not_lt.mp hn⟩

/-! ### the sweep norm is the maximum of the `diff`s -/

theorem le_normUpd (norm : K) (d : K × K) : norm ≤ normUpd norm d ∧ d.1 ≤ normUpd norm d ∧ d.2 ≤ normUpd norm d := by
  simp only [normUpd]
  split_ifs with h1 h2 h2
  · exact ⟨le_trans h1.le h2.le, h2.le, le_rfl⟩
  · exact ⟨h1.le, le_rfl, not_lt.mp h2⟩
  · exact ⟨h2.le, le_trans (not_lt.mp h1) h2.le, le_rfl⟩
  · exact ⟨le_rfl, not_lt.mp h1, not_lt.mp h2⟩

theorem normUpd_le (norm B : K) (d : K × K) (h0 : norm ≤ B) (h1 : d.1 ≤ B) (h2 : d.2 ≤ B) : normUpd norm d ≤ B := by
  simp only [normUpd]
  split_ifs <;> assumption

theorem foldl_normUpd_le (B : K) : ∀ (l : List (K × K)) (init : K), init ≤ B → (∀ d ∈ l, d.1 ≤ B ∧ d.2 ≤ B) →
    l.foldl normUpd init ≤ B
  | [], _, h0, _ => h0
  | d :: l, init, h0, h => by
    rw [List.foldl_cons]
    exact foldl_normUpd_le B l _ (normUpd_le init B d h0 (h d (by simp)).1 (h d (by simp)).2)
      (fun d' hd' => h d' (by simp [hd']))

theorem le_foldl_normUpd : ∀ (l : List (K × K)) (init : K), init ≤ l.foldl normUpd init ∧
    ∀ d ∈ l, d.1 ≤ l.foldl normUpd init ∧ d.2 ≤ l.foldl normUpd init
  | [], _ => ⟨le_rfl, fun _ h => by simp at h⟩
  | d :: l, init => by
    rw [List.foldl_cons]
    obtain ⟨h0, h⟩ := le_foldl_normUpd l (normUpd init d)
    obtain ⟨a0, a1, a2⟩ := le_normUpd init d
    refine ⟨le_trans a0 h0, fun d' hd' => ?_⟩
    rcases List.mem_cons.mp hd' with rfl | hd'
    · exact ⟨le_trans a1 h0, le_trans a2 h0⟩
    · exact h d' hd'


/-! ### the angular distance of the stop rule -/

section Ordered

variable [IsStrictOrderedRing K]

/-- `if diff > pi: diff = 2*pi − diff` -/
def fold (period half d : K) : K := if d > half then period - d else d

theorem fold_le_self (period half d : K) (hp : period = 2 * half) : fold period half d ≤ d := by
  unfold fold
  split_ifs with h
  · linarith
  · exact le_rfl

theorem fold_le_compl (period half d : K) (hp : period = 2 * half) : fold period half d ≤ period - d := by
  unfold fold
  split_ifs with h
  · exact le_rfl
  · linarith [not_lt.mp h]

/-- the folded distance of two reduced angles is at most the distance of any two representatives -/
theorem fold_le_of_cong (period half u v t : K) (hp : period = 2 * half) (hu0 : 0 ≤ u) (hu1 : u < period)
    (hv0 : 0 ≤ v) (hv1 : v < period) (m : ℤ) (ht : t = u - v + m * period) :
    fold period half |u - v| ≤ |t| := by
  have hd : |u - v| < period := abs_lt.mpr ⟨by linarith, by linarith⟩
  have hpos : 0 < period := lt_of_le_of_lt hu0 hu1
  have h1 := fold_le_self period half |u - v| hp
  have h2 := fold_le_compl period half |u - v| hp
  rcases lt_trichotomy m 0 with hm | hm | hm
  · have : (m : K) ≤ -1 := by exact_mod_cast Int.le_sub_one_of_lt hm
    have h3 : t ≤ u - v - period := by rw [ht]; nlinarith
    linarith [neg_le_abs t, le_abs_self (u - v)]
  · subst hm
    simp only [Int.cast_zero, zero_mul, add_zero] at ht
    rw [ht]
    exact h1
  · have : (1 : K) ≤ m := by exact_mod_cast Int.add_one_le_of_lt hm
    have h3 : u - v + period ≤ t := by rw [ht]; nlinarith
    linarith [le_abs_self t, neg_le_abs (u - v)]

/-- the folded distance is the distance of two representatives -/
theorem fold_attained (period half u v : K) (hu0 : 0 ≤ u) (hu1 : u < period) (hv0 : 0 ≤ v) (hv1 : v < period) :
    ∃ m : ℤ, fold period half |u - v| = |u - v + m * period| := by
  unfold fold
  split_ifs with h
  · rcases le_total 0 (u - v) with hs | hs
    · refine ⟨-1, ?_⟩
      rw [abs_of_nonneg hs]
      have : u - v + ((-1 : ℤ) : K) * period ≤ 0 := by push_cast; linarith
      rw [abs_of_nonpos this]
      push_cast
      ring
    · refine ⟨1, ?_⟩
      rw [abs_of_nonpos hs]
      have : 0 ≤ u - v + ((1 : ℤ) : K) * period := by push_cast; linarith
      rw [abs_of_nonneg this]
      push_cast
      ring
  · exact ⟨0, by simp⟩

/-- the clipping is 1-Lipschitz -/
theorem abs_clip_sub_le (P : Params K) (hr : P.rMin ≤ P.rMax) (a b : K) : |clip P a - clip P b| ≤ |a - b| := by
  have h1 := le_abs_self (a - b)
  have h2 := neg_abs_le (a - b)
  have h3 := abs_nonneg (a - b)
  unfold clip
  split_ifs <;> rw [abs_le] <;> constructor <;> linarith

/-! ### the velocity of the foot and the fixed-point map in model terms -/

/-- velocity with which the foot moves backwards: `(∂_rφ, −∂_θφ)/(r·B0)`, minus the drift -/
def polVel (E : Evals K) (P : Params K) (y : K × K) : K × K :=
  (E.drPhi y.1 y.2 / y.2 / P.B0, -(E.dqPhi y.1 y.2 / y.2) / P.B0)

/-- the fixed-point map `y ↦ x − dt/2·(a x + a y)` in components -/
def trapK (E : Evals K) (P : Params K) (x y : K × K) : K × K :=
  (x.1 - P.dt / 2 * ((polVel E P x).1 + (polVel E P y).1), x.2 - P.dt / 2 * ((polVel E P x).2 + (polVel E P y).2))

/-- `wrap` reduces into `[0, period)` by a multiple of the period -/
def WrapOK (wrap : K → K) (period : K) : Prop :=
  ∀ x, 0 ≤ wrap x ∧ wrap x < period ∧ ∃ m : ℤ, wrap x = x + m * period

/-- the derivative evaluators are periodic in the angle -/
def PeriodicEv (E : Evals K) (period : K) : Prop :=
  ∀ (q r : K) (m : ℤ), E.drPhi (q + m * period) r = E.drPhi q r ∧ E.dqPhi (q + m * period) r = E.dqPhi q r

/-- `polVel` is `L`-Lipschitz on the strip `rMin ≤ r ≤ rMax` for the distance `max |Δθ| |Δr|` -/
def VelLip (E : Evals K) (P : Params K) (L : K) : Prop :=
  ∀ y y' : K × K, P.rMin ≤ y.2 → y.2 ≤ P.rMax → P.rMin ≤ y'.2 → y'.2 ≤ P.rMax →
    |(polVel E P y).1 - (polVel E P y').1| ≤ L * max |y.1 - y'.1| |y.2 - y'.2| ∧
    |(polVel E P y).2 - (polVel E P y').2| ≤ L * max |y.1 - y'.1| |y.2 - y'.2|

theorem polVel_shift (E : Evals K) (P : Params K) (period : K) (hper : PeriodicEv E period) (q r : K) (m : ℤ) :
    polVel E P (q + m * period, r) = polVel E P (q, r) := by
  simp only [polVel, (hper q r m).1, (hper q r m).2]

theorem polVel_wrap (E : Evals K) (P : Params K) (period : K) (hw : WrapOK E.wrap period)
    (hper : PeriodicEv E period) (q r : K) : polVel E P (E.wrap q, r) = polVel E P (q, r) := by
  obtain ⟨m, hm⟩ := (hw q).2.2
  rw [hm, polVel_shift E P period hper]

theorem implInit_eq (E : Evals K) (P : Params K) (q r : K) :
    implInit E P q r = (q - P.dt * (polVel E P (q, r)).1, r - P.dt * (polVel E P (q, r)).2) := by
  simp only [implInit, polVel, multFactor]
  refine Prod.ext ?_ ?_ <;> simp only <;> ring

/-- one node of one sweep, for a current end point inside the radial domain -/
theorem implNode_in (E : Evals K) (P : Params K) (period half q r : K) (s : K × K) (hs1 : P.rMin ≤ s.2)
    (hs2 : s.2 ≤ P.rMax) :
    implNode E P period half q r s =
      ((E.wrap (trapK E P (q, r) (E.wrap s.1, s.2)).1, clip P (trapK E P (q, r) (E.wrap s.1, s.2)).2),
        (fold period half |E.wrap (trapK E P (q, r) (E.wrap s.1, s.2)).1 - E.wrap s.1|,
          |clip P (trapK E P (q, r) (E.wrap s.1, s.2)).2 - s.2|)) := by
  have e1 : q - (E.drPhi q r / r + E.drPhi (E.wrap s.1) s.2 / s.2) * (multFactor P * (1 / 2)) =
      (trapK E P (q, r) (E.wrap s.1, s.2)).1 := by
    simp only [trapK, polVel, multFactor]; ring
  have e2 : r + (E.dqPhi q r / r + E.dqPhi (E.wrap s.1) s.2 / s.2) * (multFactor P * (1 / 2)) =
      (trapK E P (q, r) (E.wrap s.1, s.2)).2 := by
    simp only [trapK, polVel, multFactor]; ring
  simp only [implNode, velAt_in E P _ _ hs1 hs2, e1, e2, fold]

theorem implNode_mem (E : Evals K) (P : Params K) (period half q r : K) (s : K × K) (hr : P.rMin ≤ P.rMax) :
    P.rMin ≤ (implNode E P period half q r s).1.2 ∧ (implNode E P period half q r s).1.2 ≤ P.rMax :=
  clip_mem P hr _

/-- One sweep contracts in the code's own distance: for a current end point in the radial domain, the two `diff`s of
    the next sweep are at most `|dt|·L/2` times the larger `diff` of this one.  The reduction modulo the period and the
    clipping are included. -/
theorem implNode_contract (E : Evals K) (P : Params K) (period half L q r : K) (s : K × K) (hr : P.rMin ≤ P.rMax)
    (hp : period = 2 * half) (hw : WrapOK E.wrap period) (hper : PeriodicEv E period) (hLip : VelLip E P L)
    (hs1 : P.rMin ≤ s.2) (hs2 : s.2 ≤ P.rMax) :
    (implNode E P period half q r (implNode E P period half q r s).1).2.1 ≤
        |P.dt| * L / 2 * max (implNode E P period half q r s).2.1 (implNode E P period half q r s).2.2 ∧
    (implNode E P period half q r (implNode E P period half q r s).1).2.2 ≤
        |P.dt| * L / 2 * max (implNode E P period half q r s).2.1 (implNode E P period half q r s).2.2 := by
  rw [implNode_in E P period half q r s hs1 hs2]
  set t := trapK E P (q, r) (E.wrap s.1, s.2) with ht
  obtain ⟨hc1, hc2⟩ := clip_mem P hr t.2
  rw [implNode_in E P period half q r (E.wrap t.1, clip P t.2) hc1 hc2]
  simp only
  set t' := trapK E P (q, r) (E.wrap (E.wrap t.1), clip P t.2) with ht'
  -- the representative realising the folded distance of this sweep
  obtain ⟨m, hm⟩ := fold_attained period half (E.wrap t.1) (E.wrap s.1) (hw _).1 (hw _).2.1 (hw _).1 (hw _).2.1
  have ha' : polVel E P (E.wrap (E.wrap t.1), clip P t.2) = polVel E P (E.wrap t.1, clip P t.2) :=
    polVel_wrap E P period hw hper _ _
  have ha : polVel E P (E.wrap s.1, s.2) = polVel E P (E.wrap s.1 - m * period, s.2) := by
    have := polVel_shift E P period hper (E.wrap s.1 - m * period) s.2 m
    rw [sub_add_cancel] at this
    exact this
  have hl := hLip (E.wrap t.1, clip P t.2) (E.wrap s.1 - m * period, s.2) hc1 hc2 hs1 hs2
  simp only at hl
  have e : E.wrap t.1 - (E.wrap s.1 - m * period) = E.wrap t.1 - E.wrap s.1 + m * period := by ring
  rw [e, ← hm, ← ha, ← ha'] at hl
  set D := max (fold period half |E.wrap t.1 - E.wrap s.1|) |clip P t.2 - s.2| with hD
  have hdt : 0 ≤ |P.dt| / 2 := by positivity
  have d1 : t'.1 - t.1 =
      -(P.dt / 2 * ((polVel E P (E.wrap (E.wrap t.1), clip P t.2)).1 - (polVel E P (E.wrap s.1, s.2)).1)) := by
    simp only [ht, ht', trapK]; ring
  have d2 : t'.2 - t.2 =
      -(P.dt / 2 * ((polVel E P (E.wrap (E.wrap t.1), clip P t.2)).2 - (polVel E P (E.wrap s.1, s.2)).2)) := by
    simp only [ht, ht', trapK]; ring
  have n1 : |t'.1 - t.1| ≤ |P.dt| * L / 2 * D := by
    rw [d1, abs_neg, abs_mul, abs_div, abs_two]
    calc |P.dt| / 2 * _ ≤ |P.dt| / 2 * (L * D) := mul_le_mul_of_nonneg_left hl.1 hdt
      _ = |P.dt| * L / 2 * D := by ring
  have n2 : |t'.2 - t.2| ≤ |P.dt| * L / 2 * D := by
    rw [d2, abs_neg, abs_mul, abs_div, abs_two]
    calc |P.dt| / 2 * _ ≤ |P.dt| / 2 * (L * D) := mul_le_mul_of_nonneg_left hl.2 hdt
      _ = |P.dt| * L / 2 * D := by ring
  constructor
  · obtain ⟨m1, hm1⟩ := (hw t'.1).2.2
    obtain ⟨m2, hm2⟩ := (hw t.1).2.2
    obtain ⟨m3, hm3⟩ := (hw (E.wrap t.1)).2.2
    refine le_trans (fold_le_of_cong period half _ _ (t'.1 - t.1) hp (hw _).1 (hw _).2.1 (hw _).1 (hw _).2.1
      (-m1 + m2 + m3) ?_) n1
    rw [hm1, hm3, hm2]
    push_cast
    ring
  · exact le_trans (abs_clip_sub_le P hr _ _) n2


/-- from the second sweep on, the norm reported by a sweep is at most `|dt|·L/2` times the norm of the previous sweep
    (the start of the iteration, the Euler foot, may lie outside the radial domain, where the code sets the velocity to
    zero; after one sweep every end point has been clipped into the domain) -/
theorem sweep_norm_contract (E : Evals K) (P : Params K) (period half L : K) (nodes : List (K × K))
    (hr : P.rMin ≤ P.rMax) (hp : period = 2 * half) (hw : WrapOK E.wrap period) (hper : PeriodicEv E period)
    (hLip : VelLip E P L) (hL : 0 ≤ L) (k : ℕ) :
    (sweep E P period half nodes
      (iterState E P period half nodes (k + 2) (nodes.map (fun n => implInit E P n.1 n.2)))).2 ≤
    |P.dt| * L / 2 * (sweep E P period half nodes
      (iterState E P period half nodes (k + 1) (nodes.map (fun n => implInit E P n.1 n.2)))).2 := by
  rw [sweep_norm_init, sweep_norm_init]
  set N := (nodes.map (fun n => nodeDiff E P period half n (k + 1))).foldl normUpd 0 with hN
  obtain ⟨hN0, hNd⟩ := le_foldl_normUpd (nodes.map (fun n => nodeDiff E P period half n (k + 1))) 0
  have hρ : 0 ≤ |P.dt| * L / 2 := by positivity
  refine foldl_normUpd_le _ _ _ (mul_nonneg hρ hN0) ?_
  intro d hd
  obtain ⟨n, hn, rfl⟩ := List.mem_map.mp hd
  obtain ⟨hs1, hs2⟩ := implNode_mem E P period half n.1 n.2 (nodeIter E P period half n k) hr
  have hc := implNode_contract E P period half L n.1 n.2 (nodeIter E P period half n (k + 1)) hr hp hw hper hLip
    hs1 hs2
  have hmax : max (nodeDiff E P period half n (k + 1)).1 (nodeDiff E P period half n (k + 1)).2 ≤ N :=
    max_le (hNd _ (List.mem_map.mpr ⟨n, hn, rfl⟩)).1 (hNd _ (List.mem_map.mpr ⟨n, hn, rfl⟩)).2
  exact ⟨le_trans hc.1 (mul_le_mul_of_nonneg_left hmax hρ), le_trans hc.2 (mul_le_mul_of_nonneg_left hmax hρ)⟩


/-- reduce the angle of a point -/
def wrapPt (E : Evals K) (y : K × K) : K × K := (E.wrap y.1, y.2)

theorem trapK_wrapPt (E : Evals K) (P : Params K) (period : K) (hw : WrapOK E.wrap period)
    (hper : PeriodicEv E period) (x y : K × K) : trapK E P x (wrapPt E y) = trapK E P x y := by
  unfold trapK wrapPt
  rw [polVel_wrap E P period hw hper]

/-- one node of one sweep when nothing is clipped -/
theorem implNode_fst_unclipped (E : Evals K) (P : Params K) (period half q r : K) (s : K × K)
    (hw : WrapOK E.wrap period) (hper : PeriodicEv E period) (hs1 : P.rMin ≤ s.2) (hs2 : s.2 ≤ P.rMax)
    (ht1 : P.rMin ≤ (trapK E P (q, r) s).2) (ht2 : (trapK E P (q, r) s).2 ≤ P.rMax) :
    (implNode E P period half q r s).1 = wrapPt E (trapK E P (q, r) s) := by
  rw [implNode_in E P period half q r s hs1 hs2]
  have e : trapK E P (q, r) (E.wrap s.1, s.2) = trapK E P (q, r) s := trapK_wrapPt E P period hw hper (q, r) s
  rw [e, clip_of_mem P _ ht1 ht2]
  rfl

/-- the explicit foot when the predictor lies in the radial domain -/
theorem explFoot_in (E : Evals K) (P : Params K) (period q r : K) (hw : WrapOK E.wrap period)
    (hper : PeriodicEv E period) (h1 : P.rMin ≤ (implInit E P q r).2) (h2 : (implInit E P q r).2 ≤ P.rMax) :
    explFoot E P q r = wrapPt E (trapK E P (q, r) (implInit E P q r)) := by
  rw [← trapK_wrapPt E P period hw hper (q, r) (implInit E P q r)]
  have hp : predictor E P q r = wrapPt E (implInit E P q r) := rfl
  have hv := velAt_in E P (predictor E P q r).1 (predictor E P q r).2 h1 h2
  simp only [explFoot, hv]
  rw [hp]
  simp only [wrapPt, trapK, polVel, multFactor]
  refine Prod.ext ?_ ?_
  · simp only
    congr 1
    ring
  · simp only
    ring

/-- `x % period` for `period > 0` reduces into `[0, period)` by a multiple of the period -/
theorem wrapOK_pmod [FloorRing K] (period : K) (hp : 0 < period) : WrapOK (pmod period) period := by
  intro x
  unfold pmod
  refine ⟨?_, ?_, ⟨-⌊x / period⌋, by push_cast; ring⟩⟩
  · have := Int.floor_le (x / period)
    rw [le_div_iff₀ hp] at this
    linarith
  · have := Int.lt_floor_add_one (x / period)
    rw [div_lt_iff₀ hp] at this
    linarith

end Ordered


/-! ### over ℝ: the model's map is the abstract trapezoidal map on `ℝ × ℝ` with the norm `max |Δθ| |Δr|` -/

section Real

open PygyroVerif.PolOrder

/-- the radial domain as a set of points -/
def strip (P : Params ℝ) : Set (ℝ × ℝ) := {y | P.rMin ≤ y.2 ∧ y.2 ≤ P.rMax}

theorem trapK_eq_trap (E : Evals ℝ) (P : Params ℝ) (x y : ℝ × ℝ) :
    trapK E P x y = trap (polVel E P) x P.dt y := by
  unfold trapK trap
  refine Prod.ext ?_ ?_ <;> simp [smul_eq_mul, mul_add]

theorem implInit_eq_euler (E : Evals ℝ) (P : Params ℝ) (q r : ℝ) :
    implInit E P q r = eulerFoot (polVel E P) (q, r) P.dt := by
  rw [implInit_eq]
  unfold eulerFoot
  refine Prod.ext ?_ ?_ <;> simp [smul_eq_mul]

/-- the Lipschitz predicate of the abstract part, on the strip and for the sup norm, is the one of the model part -/
theorem velLip_of_lipOn (E : Evals ℝ) (P : Params ℝ) (L : ℝ) (h : LipOn (polVel E P) L (strip P)) :
    VelLip E P L := by
  intro y y' h1 h2 h3 h4
  have := h y ⟨h1, h2⟩ y' ⟨h3, h4⟩
  rw [Prod.norm_def, Prod.norm_def] at this
  simp only [Prod.fst_sub, Prod.snd_sub, Real.norm_eq_abs] at this
  exact ⟨le_trans (le_max_left _ _) this, le_trans (le_max_right _ _) this⟩

/-- as long as the unwrapped iterates stay in the radial domain (nothing is clipped, the velocity is never replaced by
    zero), the end point of a node after `k+1` sweeps is the unwrapped iterate number `k+2`, angle reduced -/
theorem nodeIter_eq (E : Evals ℝ) (P : Params ℝ) (period half : ℝ) (n : ℝ × ℝ) (hw : WrapOK E.wrap period)
    (hper : PeriodicEv E period) :
    ∀ k, (∀ j, 1 ≤ j → j ≤ k + 2 → iter (polVel E P) n P.dt n j ∈ strip P) →
      nodeIter E P period half n (k + 1) = wrapPt E (iter (polVel E P) n P.dt n (k + 2))
  | 0, h => by
    have h1 := h 1 le_rfl (by omega)
    have h2 := h 2 (by omega) le_rfl
    rw [iter_one_node] at h1
    rw [iter_succ, iter_one_node] at h2 ⊢
    have e : nodeIter E P period half n 0 = eulerFoot (polVel E P) n P.dt := implInit_eq_euler E P n.1 n.2
    show (implNode E P period half n.1 n.2 (nodeIter E P period half n 0)).1 = _
    rw [e, ← trapK_eq_trap]
    rw [← trapK_eq_trap] at h2
    exact implNode_fst_unclipped E P period half n.1 n.2 _ hw hper h1.1 h1.2 h2.1 h2.2
  | k + 1, h => by
    have ih := nodeIter_eq E P period half n hw hper k (fun j hj1 hj2 => h j hj1 (by omega))
    have h1 := h (k + 2) (by omega) (by omega)
    have h2 := h (k + 3) (by omega) le_rfl
    rw [iter_succ, ← trapK_eq_trap] at h2
    show (implNode E P period half n.1 n.2 (nodeIter E P period half n (k + 1))).1 = _
    rw [ih, iter_succ _ _ _ _ (k + 2), ← trapK_eq_trap, ← trapK_wrapPt E P period hw hper n]
    rw [← trapK_wrapPt E P period hw hper n] at h2
    exact implNode_fst_unclipped E P period half n.1 n.2 _ hw hper h1.1 h1.2 h2.1 h2.2


theorem lipOn_of_velLip (E : Evals ℝ) (P : Params ℝ) (L : ℝ) (h : VelLip E P L) :
    LipOn (polVel E P) L (strip P) := by
  intro y hy y' hy'
  obtain ⟨h1, h2⟩ := h y y' hy.1 hy.2 hy'.1 hy'.2
  rw [Prod.norm_def, Prod.norm_def]
  simp only [Prod.fst_sub, Prod.snd_sub, Real.norm_eq_abs]
  exact max_le h1 h2

/-- the explicit foot of the model is the Heun foot, angle reduced, when the predictor lies in the radial domain -/
theorem explFoot_eq_heun (E : Evals ℝ) (P : Params ℝ) (period q r : ℝ) (hw : WrapOK E.wrap period)
    (hper : PeriodicEv E period) (he : eulerFoot (polVel E P) (q, r) P.dt ∈ strip P) :
    explFoot E P q r = wrapPt E (heunFoot (polVel E P) (q, r) P.dt) := by
  rw [← implInit_eq_euler] at he
  rw [explFoot_in E P period q r hw hper he.1 he.2, trapK_eq_trap, implInit_eq_euler, trap_euler]

end Real


/-! ### a concrete non-trivial field for the non-vacuity examples of Props/C12Extra -/

section Examples

variable (K : Type*) [Field K] [LinearOrder K] [FloorRing K]

/-- differential rotation φ = r³/3 (∂_rφ = r², ∂_θφ = 0: angular velocity r/B0, Lipschitz constant 1/B0 > 0),
    f̂(θ, r) = θ + r, `wrap` = reduction modulo 6 -/
def shearE : Evals K := { drPhi := fun _ r => r ^ 2, dqPhi := fun _ _ => 0, fhat := fun q r => q + r, wrap := pmod 6 }

/-- radial domain [1, 4], dt = 1/2, B0 = 2 -/
def shearP : Params K := { dt := 1 / 2, B0 := 2, v := 1, rMin := 1, rMax := 4, nul := false }

variable {K}

theorem polVel_shear (y : K × K) : polVel (shearE K) (shearP K) y = (y.2 / 2, 0) := by
  unfold polVel shearE shearP
  refine Prod.ext ?_ ?_
  · simp only
    by_cases h : y.2 = 0
    · simp [h]
    · rw [pow_two, mul_div_assoc, div_self h, mul_one]
  · simp

theorem periodicEv_shear : PeriodicEv (shearE K) 6 := fun _ _ _ => ⟨rfl, rfl⟩

variable [IsStrictOrderedRing K]

theorem velLip_shear : VelLip (shearE K) (shearP K) (1 / 2) := by
  intro y y' _ _ _ _
  rw [polVel_shear, polVel_shear]
  simp only [sub_self, abs_zero]
  have h1 := le_max_right |y.1 - y'.1| |y.2 - y'.2|
  have h2 := abs_nonneg (y.2 - y'.2)
  constructor
  · have e : y.2 / 2 - y'.2 / 2 = (y.2 - y'.2) / 2 := by ring
    rw [e, abs_div, abs_two]
    linarith
  · linarith

theorem wrapOK_shear : WrapOK (shearE K).wrap 6 := wrapOK_pmod 6 (by norm_num)

/-- for the differential rotation the radius of every iterate is the radius of the node -/
theorem iter_shear_snd (n : ℝ × ℝ) (j : ℕ) :
    (PolOrder.iter (polVel (shearE ℝ) (shearP ℝ)) n (shearP ℝ).dt n j).2 = n.2 := by
  induction j with
  | zero => rfl
  | succ j ih =>
    rw [PolOrder.iter_succ]
    unfold PolOrder.trap
    simp [polVel_shear]

end Examples

end PygyroVerif.PolOrderModel
