/-
Bridge theorem of C03, part 9: the buffer size the constructor of `LayoutSwapper` computes (`Swapper.bufferSize`,
layout.py:1046-1126) covers what every direct step of the swapper needs:
* the buffer size of every handler (`max(x.bufferSize for x in self._managers)`);
* for every accepted pair of layouts of different handlers with different numbers of distributed directions, the `p`
  padded blocks of the MORE distributed layout that the `Allgather` of the gather step receives.
-/
import PygyroVerif.Lemmas.CrossStepField
import PygyroVerif.Lemmas.BufferSize
import Mathlib.Tactic.SplitIfs

namespace PygyroVerif.CS
open PygyroVerif PygyroVerif.Handler PygyroVerif.DS PygyroVerif.Swapper PygyroVerif.BufferSize

/-- body of the pair loop of the swapper's constructor (:1062-1126), `l1 = layout n'` (the later one), `l2 = layout i` -/
def pairStepS (S : Swapper) (r n' : Nat) (acc i : Nat) : Nat :=
  if !S.compatibleLayout n' i then acc else
  let (h1, _) := S.locate n'; let (h2, _) := S.locate i
  if h1 = h2 then acc else
  let l1 := S.layoutOf n'; let l2 := S.layoutOf i
  let n1 := nDistributed (S.handlerNprocs h1); let n2 := nDistributed (S.handlerNprocs h2)
  if n1 = n2 then acc else
  let (idx1, idx2) := if n1 > n2 then (let (g, s) := S.getAxes h2 h1 l2 l1; (s, g)) else S.getAxes h1 h2 l1 l2
  let c1 := (S.topo h1).coords r; let c2 := (S.topo h2).coords r
  let bs1 := prodL ((l1.shape c1).set idx1 (l1.maxShape.getD idx1 0))
  let bs2 := prodL ((l2.shape c2).set idx2 (l2.maxShape.getD idx2 0))
  if n1 < n2 then
    let p := (S.handlerNprocs h2).getD idx2 1
    max acc (bs2 * p)
  else
    let p := (S.handlerNprocs h1).getD idx1 1
    max acc (bs1 * p)

/-- `max(x.bufferSize for x in self._managers)` on world rank `r` -/
def handlersMax (S : Swapper) (r : Nat) : Nat :=
  (List.range S.groups.length).foldl (fun acc i => max acc ((S.handler i).bufferSize ((S.topo i).coords r))) 0

theorem bufferSize_unfold (S : Swapper) (r : Nat) :
    S.bufferSize r = (List.range S.allNames.length).foldl (fun acc n' => (List.range n').foldl (pairStepS S r n') acc)
      (handlersMax S r) := rfl

theorem pairStepS_infl (S : Swapper) (r n' acc i : Nat) : acc ≤ pairStepS S r n' acc i := by
  unfold pairStepS
  simp only []
  split_ifs <;> first | exact Nat.le_refl _ | exact Nat.le_max_left _ _

/-- the `p` padded blocks of the more distributed layout `kM` received by the gather `kM → kL` on world rank `r` -/
def gatherTerm (S : Swapper) (kM kL r : Nat) : Nat :=
  padSize (S.layoutOf kM) ((S.topo (S.locate kM).1).coords r)
      (S.getAxes (S.locate kL).1 (S.locate kM).1 (S.layoutOf kL) (S.layoutOf kM)).2 *
    (S.handlerNprocs (S.locate kM).1).getD
      (S.getAxes (S.locate kL).1 (S.locate kM).1 (S.layoutOf kL) (S.layoutOf kM)).2 1

theorem crossNeed_eq (S : Swapper) (kS kD r : Nat) :
    crossNeed S kS kD r = max (((S.layoutOf kD).shape ((S.topo (S.locate kD).1).coords r)).prod)
      (if nDistributed (S.handlerNprocs (S.locate kD).1) < nDistributed (S.handlerNprocs (S.locate kS).1) then
        gatherTerm S kS kD r else 0) := rfl

theorem pairStepS_ge_hi (S : Swapper) (r n' acc i : Nat) (hc : S.compatibleLayout n' i = true)
    (hh : (S.locate n').1 ≠ (S.locate i).1)
    (hnd : nDistributed (S.handlerNprocs (S.locate i).1) < nDistributed (S.handlerNprocs (S.locate n').1)) :
    gatherTerm S n' i r ≤ pairStepS S r n' acc i := by
  unfold pairStepS gatherTerm
  have h1 : ¬ nDistributed (S.handlerNprocs (S.locate n').1) = nDistributed (S.handlerNprocs (S.locate i).1) := by omega
  have h2 : nDistributed (S.handlerNprocs (S.locate n').1) > nDistributed (S.handlerNprocs (S.locate i).1) := hnd
  have h3 : ¬ nDistributed (S.handlerNprocs (S.locate n').1) < nDistributed (S.handlerNprocs (S.locate i).1) := by omega
  simp only [hc, Bool.not_true, Bool.false_eq_true, if_false, hh, h1, h2, h3, if_true]
  exact Nat.le_max_right _ _

theorem pairStepS_ge_lo (S : Swapper) (r n' acc i : Nat) (hc : S.compatibleLayout n' i = true)
    (hh : (S.locate n').1 ≠ (S.locate i).1)
    (hnd : nDistributed (S.handlerNprocs (S.locate n').1) < nDistributed (S.handlerNprocs (S.locate i).1)) :
    gatherTerm S i n' r ≤ pairStepS S r n' acc i := by
  unfold pairStepS gatherTerm
  have h1 : ¬ nDistributed (S.handlerNprocs (S.locate n').1) = nDistributed (S.handlerNprocs (S.locate i).1) := by omega
  have h2 : ¬ nDistributed (S.handlerNprocs (S.locate n').1) > nDistributed (S.handlerNprocs (S.locate i).1) := by omega
  simp only [hc, Bool.not_true, Bool.false_eq_true, if_false, hh, h1, h2, hnd, if_true]
  exact Nat.le_max_right _ _

theorem handlersMax_le (S : Swapper) (r : Nat) : handlersMax S r ≤ S.bufferSize r := by
  rw [bufferSize_unfold]
  exact foldl_infl _ (fun acc n' => foldl_infl _ (pairStepS_infl S r n') _ _) _ _

/-- the swapper's buffer is at least as large as every handler's -/
theorem handler_bufferSize_le (S : Swapper) (r i : Nat) (hi : i < S.groups.length) :
    (S.handler i).bufferSize ((S.topo i).coords r) ≤ S.bufferSize r := by
  refine Nat.le_trans ?_ (handlersMax_le S r)
  unfold handlersMax
  exact foldl_ge_of_mem (fun acc i => max acc ((S.handler i).bufferSize ((S.topo i).coords r)))
    (fun acc x => Nat.le_max_left _ _) _ i (fun acc => Nat.le_max_right _ _) _ _ (List.mem_range.2 hi)

/-- the swapper's buffer can take the blocks received by every gather between directly connected layouts -/
theorem gatherTerm_le_bufferSize (S : Swapper) (a b : Nat) (ha : a < S.allNames.length) (hb : b < S.allNames.length)
    (hcomp : S.compatibleLayout (max a b) (min a b) = true) (hh : (S.locate a).1 ≠ (S.locate b).1)
    (hnd : nDistributed (S.handlerNprocs (S.locate b).1) < nDistributed (S.handlerNprocs (S.locate a).1)) (r : Nat) :
    gatherTerm S a b r ≤ S.bufferSize r := by
  rw [bufferSize_unfold]
  have hne : a ≠ b := fun e => hh (by rw [e])
  rcases Nat.lt_or_ge a b with hlt | hge
  · rw [Nat.max_eq_right (Nat.le_of_lt hlt), Nat.min_eq_left (Nat.le_of_lt hlt)] at hcomp
    refine foldl_ge_of_mem _ (fun acc n' => foldl_infl _ (pairStepS_infl S r n') _ _) _ b ?_ _ _ (List.mem_range.2 hb)
    intro acc
    exact foldl_ge_of_mem _ (pairStepS_infl S r b) _ a
      (fun acc' => pairStepS_ge_lo S r b acc' a hcomp (fun e => hh e.symm) hnd) _ _ (List.mem_range.2 hlt)
  · have hlt : b < a := by omega
    rw [Nat.max_eq_left hge, Nat.min_eq_right hge] at hcomp
    refine foldl_ge_of_mem _ (fun acc n' => foldl_infl _ (pairStepS_infl S r n') _ _) _ a ?_ _ _ (List.mem_range.2 ha)
    intro acc
    exact foldl_ge_of_mem _ (pairStepS_infl S r a) _ b
      (fun acc' => pairStepS_ge_hi S r a acc' b hcomp hh hnd) _ _ (List.mem_range.2 hlt)

end PygyroVerif.CS
