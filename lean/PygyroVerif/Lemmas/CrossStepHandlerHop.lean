/-
Bridge theorem of C03, part 11: `LayoutHandler.transpose` as `LayoutSwapper.transpose` calls it for one hop of a route
(`Handler.transposeWorldT` with arbitrary roles: the blocks of the three roles are handed over as `source`, `dest`, `buf`
and put back afterwards), between two directly connected layouts of the handler whose stored route is the direct step.
-/
import PygyroVerif.Lemmas.CrossStepAdj

namespace PygyroVerif.CS
open PygyroVerif PygyroVerif.Handler PygyroVerif.DS PygyroVerif.Swapper PygyroVerif.Route

variable {α : Type}

theorem getD_setIfInBounds (w : World α) (x r : Nat) (a : Array (Array α)) :
    (w.setIfInBounds x a).getD r #[] = if x = r ∧ x < w.size then a else w.getD r #[] := by
  rw [Array.getD_eq_getD_getElem?, Array.getD_eq_getD_getElem?, Array.getElem?_setIfInBounds]
  by_cases h1 : x = r
  · subst h1
    by_cases h2 : x < w.size
    · simp [h2]
    · simp [h2]
  · simp [h1]

variable [Inhabited α]

omit [Inhabited α] in
/-- the loop of asserts of `LayoutHandler.transpose` (:521-524) passes -/
theorem handler_asserts_ok (T : Topo) (h : Handler) (x y : Nat) (w : World α)
    (hx : ∀ rank, rank < T.nRanks → h.bufferSize (T.coords rank) ≤ (World.get w x rank).size)
    (hy : ∀ rank, rank < T.nRanks → h.bufferSize (T.coords rank) ≤ (World.get w y rank).size) :
    forIn (List.range T.nRanks) PUnit.unit (fun rank (_ : PUnit) =>
      if (World.get w x rank).size < h.bufferSize (T.coords rank) ∨
          (World.get w y rank).size < h.bufferSize (T.coords rank) then
        (do throw "assert: buffer smaller than bufferSize"; pure (ForInStep.yield PUnit.unit) : Except String _)
      else pure (ForInStep.yield PUnit.unit)) = .ok PUnit.unit := by
  apply forIn_asserts_ok
  intro r hr
  have hr' : r < T.nRanks := List.mem_range.mp hr
  have h0 := hx r hr'
  have h1 := hy r hr'
  have : ¬ ((World.get w x r).size < h.bufferSize (T.coords r) ∨ (World.get w y r).size < h.bufferSize (T.coords r)) := by
    omega
  rw [if_neg this]
  rfl

/-- **one hop inside a handler, arbitrary roles**: `transposeWorldT` between two directly connected layouts whose stored
    route is the direct step, reading role `x`, writing role `y`, with the spare role `z` iff `z ≠ x` -/
theorem handlerHop (nr : Nat) (T : Topo) (h : Handler) (hT : TopoOK T h.nprocs) (rm : RouteMap) (iS iD : Nat)
    (hne : iS ≠ iD) (hroute : rm.r iS iD = [iD]) (B : Nat → Nat) (hconn : ConnB h T B iS iD)
    (hbs : ∀ rank, rank < T.nRanks → h.bufferSize (T.coords rank) ≤ B rank)
    (x y z : Nat) (hx : x < nr) (hy : y < nr) (hz : z < nr) (hyx : y ≠ x) (hyz : y ≠ z)
    (w : World α) (hw : WorldEq nr T.nRanks B w) (G : List Nat → α)
    (hsrc : HoldsWorld T (h.layoutAt iS) G (w.getD x #[])) :
    ∃ w', transposeWorldT true T h rm iS iD (decide (z ≠ x)) x y z w = .ok w' ∧
      HoldsWorld T (h.layoutAt iD) G (w'.getD y #[]) ∧ WorldEq nr T.nRanks B w' ∧
      ∀ r, r ≠ y → r ≠ z → w'.getD r #[] = w.getD r #[] := by
  obtain ⟨c1, c2, c3⟩ := hconn
  have hsz : ∀ role, role < nr → ∀ rank, rank < T.nRanks → (World.get w role rank).size = B rank :=
    fun role hr rank hrk => (hw.2 role hr).2 rank hrk
  have hrow : ∀ role, role < nr → (w.getD role #[]).size = T.nRanks := fun role hr => (hw.2 role hr).1
  have hassert := handler_asserts_ok T h x y w
    (fun rank hr => by rw [hsz x hx rank hr]; exact hbs rank hr)
    (fun rank hr => by rw [hsz y hy rank hr]; exact hbs rank hr)
  have hrowOK : ∀ role, role < nr → (w.getD role #[]).size = T.nRanks ∧
      ∀ rank, rank < T.nRanks → ((w.getD role #[]).getD rank #[]).size = B rank := fun role hr => hw.2 role hr
  have hxw : x < w.size := by have := hw.1; omega
  have hyw : y < w.size := by have := hw.1; omega
  have hzw : z < w.size := by have := hw.1; omega
  unfold transposeWorldT
  simp only []
  rw [hassert]
  simp only [bind, Except.bind, hne, if_false, hroute]
  by_cases h012 : x = 0 ∧ y = 1 ∧ z = 2
  · -- the roles are already `source`, `dest`, `buf`
    obtain ⟨rfl, rfl, rfl⟩ := h012
    rw [if_pos ⟨rfl, rfl, rfl⟩]
    obtain ⟨w', h1, h2, h3, h4, h5, h6⟩ := directStepT_correct T h iS iD 0 1 2 w G c1 c2 hT (by decide) (by decide) hyw hzw
      (by rw [hrow 1 hy]) (by rw [hrow 2 hz])
      (fun rank hr => by rw [hsz 1 hy rank hr]; exact c3 rank hr)
      (fun rank hr => by rw [hsz 2 hz rank hr]; exact c3 rank hr) hsrc
    refine ⟨w', by simp [followRoute, h1], h2, ⟨by rw [h4]; exact hw.1, fun role hr => ⟨?_, fun rank hrk => ?_⟩⟩, h3⟩
    · rw [h5 role]; exact hrow role hr
    · rw [h6 role rank]; exact hsz role hr rank hrk
  · rw [if_neg h012]
    -- hand the three blocks over as roles 0, 1, 2
    set perm : World α := #[w.getD x #[], w.getD y #[], w.getD z #[]] with hperm
    have p0 : perm.getD 0 #[] = w.getD x #[] := rfl
    have p1 : perm.getD 1 #[] = w.getD y #[] := rfl
    have p2 : perm.getD 2 #[] = w.getD z #[] := rfl
    have psize : perm.size = 3 := rfl
    by_cases hzx : z = x
    · -- no spare buffer: `_transpose(source, dest)`, the source block is the scratch
      have hub : decide (z ≠ x) = false := by simp [hzx]
      rw [hub]
      obtain ⟨out, h1, h2, h3, h4, h5, h6⟩ := directStepT_correct T h iS iD 0 1 0 perm G c1 c2 hT (by decide) (by decide)
        (by rw [psize]; decide) (by rw [psize]; decide) (by rw [p1, hrow y hy]) (by rw [p0, hrow x hx])
        (fun rank hr => by
          rw [World.get_def, p1, ← World.get_def, hsz y hy rank hr]; exact c3 rank hr)
        (fun rank hr => by
          rw [World.get_def, p0, ← World.get_def, hsz x hx rank hr]; exact c3 rank hr)
        (by rw [p0]; exact hsrc)
      have hfr : followRoute (directStepT true T h) T.nRanks [iD] iS false perm = .ok out := by
        simp [followRoute, h1]
      rw [hfr]
      simp only [Bool.false_eq_true, if_false]
      refine ⟨_, rfl, ?_, ⟨?_, ?_⟩, ?_⟩
      · rw [getD_setIfInBounds, if_pos ⟨rfl, by rw [Array.size_setIfInBounds]; exact hyw⟩]; exact h2
      · rw [Array.size_setIfInBounds, Array.size_setIfInBounds]; exact hw.1
      · have o1 : (out.getD 1 #[]).size = T.nRanks ∧
            ∀ rank, rank < T.nRanks → ((out.getD 1 #[]).getD rank #[]).size = B rank := by
          refine ⟨by rw [h5 1, p1, hrow y hy], fun rank hrk => ?_⟩
          have := h6 1 rank
          rw [World.get_def, World.get_def, p1] at this
          rw [this]; exact (hrowOK y hy).2 rank hrk
        have o0 : (out.getD 0 #[]).size = T.nRanks ∧
            ∀ rank, rank < T.nRanks → ((out.getD 0 #[]).getD rank #[]).size = B rank := by
          refine ⟨by rw [h5 0, p0, hrow x hx], fun rank hrk => ?_⟩
          have := h6 0 rank
          rw [World.get_def, World.get_def, p0] at this
          rw [this]; exact (hrowOK x hx).2 rank hrk
        intro role hr
        simp only [World.get_def]
        rw [getD_setIfInBounds, getD_setIfInBounds, Array.size_setIfInBounds]
        by_cases e1 : y = role
        · rw [if_pos ⟨e1, hyw⟩]; exact o1
        · rw [if_neg (fun hh => e1 hh.1)]
          by_cases e2 : x = role
          · rw [if_pos ⟨e2, hxw⟩]; exact o0
          · rw [if_neg (fun hh => e2 hh.1)]
            exact hrowOK role hr
      · intro r hry hrz
        rw [getD_setIfInBounds, getD_setIfInBounds, if_neg (fun hh => hry hh.1.symm),
          if_neg (fun hh => hrz (by rw [hzx]; exact hh.1.symm))]
    · -- spare buffer: `_transpose_source_intact(source, dest, buf)`
      have hub : decide (z ≠ x) = true := by simp [hzx]
      rw [hub]
      obtain ⟨out, h1, h2, h3, h4, h5, h6⟩ := directStepT_correct T h iS iD 0 1 2 perm G c1 c2 hT (by decide) (by decide)
        (by rw [psize]; decide) (by rw [psize]; decide) (by rw [p1, hrow y hy]) (by rw [p2, hrow z hz])
        (fun rank hr => by
          rw [World.get_def, p1, ← World.get_def, hsz y hy rank hr]; exact c3 rank hr)
        (fun rank hr => by
          rw [World.get_def, p2, ← World.get_def, hsz z hz rank hr]; exact c3 rank hr)
        (by rw [p0]; exact hsrc)
      have hfr : followRoute (directStepT true T h) T.nRanks [iD] iS true perm = .ok out := by
        simp [followRoute, h1]
      rw [hfr]
      simp only [if_true]
      have ho0 : out.getD 0 #[] = w.getD x #[] := by rw [h3 0 (by decide) (by decide), p0]
      refine ⟨_, rfl, ?_, ⟨?_, ?_⟩, ?_⟩
      · rw [getD_setIfInBounds, if_neg (fun hh => hyz hh.1.symm), getD_setIfInBounds,
          if_pos ⟨rfl, by rw [Array.size_setIfInBounds]; exact hyw⟩]
        exact h2
      · rw [Array.size_setIfInBounds, Array.size_setIfInBounds, Array.size_setIfInBounds]; exact hw.1
      · have o1 : (out.getD 1 #[]).size = T.nRanks ∧
            ∀ rank, rank < T.nRanks → ((out.getD 1 #[]).getD rank #[]).size = B rank := by
          refine ⟨by rw [h5 1, p1, hrow y hy], fun rank hrk => ?_⟩
          have := h6 1 rank
          rw [World.get_def, World.get_def, p1] at this
          rw [this]; exact (hrowOK y hy).2 rank hrk
        have o2 : (out.getD 2 #[]).size = T.nRanks ∧
            ∀ rank, rank < T.nRanks → ((out.getD 2 #[]).getD rank #[]).size = B rank := by
          refine ⟨by rw [h5 2, p2, hrow z hz], fun rank hrk => ?_⟩
          have := h6 2 rank
          rw [World.get_def, World.get_def, p2] at this
          rw [this]; exact (hrowOK z hz).2 rank hrk
        intro role hr
        simp only [World.get_def]
        rw [getD_setIfInBounds, getD_setIfInBounds, getD_setIfInBounds, Array.size_setIfInBounds,
          Array.size_setIfInBounds]
        by_cases e0 : z = role
        · rw [if_pos ⟨e0, hzw⟩]; exact o2
        · rw [if_neg (fun hh => e0 hh.1)]
          by_cases e1 : y = role
          · rw [if_pos ⟨e1, hyw⟩]; exact o1
          · rw [if_neg (fun hh => e1 hh.1)]
            by_cases e2 : x = role
            · rw [if_pos ⟨e2, hxw⟩, ho0]; exact hrowOK x hx
            · rw [if_neg (fun hh => e2 hh.1)]
              exact hrowOK role hr
      · intro r hry hrz
        rw [getD_setIfInBounds, if_neg (fun hh => hrz hh.1.symm), getD_setIfInBounds,
          if_neg (fun hh => hry hh.1.symm), getD_setIfInBounds]
        by_cases e2 : x = r
        · rw [if_pos ⟨e2, hxw⟩, ho0, e2]
        · rw [if_neg (fun hh => e2 hh.1)]

end PygyroVerif.CS
