/-
Bridge theorem of C03, part 4: what acceptance by `_compatibleLayout` means for the blocks of two layouts of DIFFERENT
handlers of a swapper, on every world rank.

* `slots_equal_len` / `slots_differ_by_one`: the two branches of `_compatibleLayout` in world terms (pure list lemmas);
* `compat_cases`: an accepted pair has numbers of process axes that differ by at most one;
* `geom_same`: equal numbers of distributed directions → every dimension has the same local extent and start in both
  layouts on every world rank;
* `geom_diff`: the second layout's handler is more distributed → exactly one dimension `A` (the one `getAxes` reports)
  is split in the second layout and held whole in the first; all others agree.
-/
import PygyroVerif.Lemmas.CrossStepGeom

namespace PygyroVerif.CS
open PygyroVerif PygyroVerif.Handler PygyroVerif.DS PygyroVerif.Swapper PygyroVerif.SwapperCompat
open PygyroVerif.SwapperTraceMatch

/-! ### the two branches of `_compatibleLayout` in world terms -/

/-- equal numbers of process axes: the same world axes, and every axis with more than one process distributes the same
    dimension in both layouts → every dimension sits on the same world axis (or on single-process axes) in both -/
theorem slots_equal_len (dims wc c1 c2 o1 o2 : List Nat) (hwc : CoordsOK dims wc)
    (hlt1 : ∀ x ∈ c1, x < dims.length) (hlt2 : ∀ x ∈ c2, x < dims.length)
    (hnd1 : c1.Nodup) (hnd2 : c2.Nodup) (hlen : c1.length = c2.length)
    (ho1 : OrdOK o1) (ho2 : OrdOK o2) (holen : o1.length = o2.length) (hc1 : c1.length ≤ o1.length)
    (hsub : ∀ x ∈ c2, x ∈ c1)
    (hdim : ∀ j, j < c2.length → dims.getD (c2.getD j 0) 1 = 1 ∨ o1.getD (c1.idxOf (c2.getD j 0)) 0 = o2.getD j 0)
    (d : Nat) (hd : d < o1.length) :
    slotW dims wc c1 (o1.idxOf d) = slotW dims wc c2 (o2.idxOf d) := by
  have hperm : c2.Perm c1 := (List.subperm_of_subset hnd2 hsub).perm_of_length_le (by omega)
  have hsub' : ∀ x ∈ c1, x ∈ c2 := fun x hx => (hperm.mem_iff).mpr hx
  have hd1 : d ∈ o1 := (ho1.mem_iff d).mpr hd
  have hd2 : d ∈ o2 := (ho2.mem_iff d).mpr (by omega)
  have hc2 : c2.length ≤ o2.length := by omega
  have hi : o1.idxOf d < o1.length := idxOf_lt o1 d hd1
  have hj : o2.idxOf d < o2.length := idxOf_lt o2 d hd2
  have ho1i : o1.getD (o1.idxOf d) 0 = d := getD_idxOf o1 d hd1
  have ho2j : o2.getD (o2.idxOf d) 0 = d := getD_idxOf o2 d hd2
  generalize o1.idxOf d = i at hi ho1i
  generalize o2.idxOf d = j at hj ho2j
  have key1 : i < c1.length → slotW dims wc c1 i = (1, 0) ∨ (j < c2.length ∧ c2.getD j 0 = c1.getD i 0) := by
    intro hic
    have hm : c1.getD i 0 ∈ c2 := hsub' _ (getD_mem c1 i 0 hic)
    have hj' : c2.idxOf (c1.getD i 0) < c2.length := idxOf_lt c2 _ hm
    have hcj' : c2.getD (c2.idxOf (c1.getD i 0)) 0 = c1.getD i 0 := getD_idxOf c2 _ hm
    rcases hdim _ hj' with h1 | h2
    · left
      rw [hcj'] at h1
      exact slotW_one dims wc c1 hwc hlt1 i hic h1
    · right
      rw [hcj', idxOf_getD c1 hnd1 i hic, ho1i, ← ho2j] at h2
      have := getD_inj o2 ho2.nodup _ _ hj (by omega) h2
      rw [← this] at hj' hcj'
      exact ⟨hj', hcj'⟩
  by_cases hjc : j < c2.length
  · rcases hdim j hjc with h1 | h2
    · rw [slotW_one dims wc c2 hwc hlt2 j hjc h1]
      by_cases hic : i < c1.length
      · rcases key1 hic with h | ⟨_, h⟩
        · exact h
        · exact slotW_one dims wc c1 hwc hlt1 i hic (by rw [← h]; exact h1)
      · unfold slotW; rw [if_neg hic]
    · have hm : c2.getD j 0 ∈ c1 := hsub _ (getD_mem c2 j 0 hjc)
      have hi' : c1.idxOf (c2.getD j 0) < c1.length := idxOf_lt c1 _ hm
      rw [ho2j, ← ho1i] at h2
      have hii := getD_inj o1 ho1.nodup _ _ (by omega) hi h2
      have hci : c1.getD i 0 = c2.getD j 0 := by rw [← hii]; exact getD_idxOf c1 _ hm
      unfold slotW
      rw [if_pos (by rw [← hii]; exact hi'), if_pos hjc, hci]
  · have h2 : slotW dims wc c2 j = (1, 0) := by unfold slotW; rw [if_neg hjc]
    rw [h2]
    by_cases hic : i < c1.length
    · rcases key1 hic with h | ⟨h, _⟩
      · exact h
      · exact absurd h hjc
    · unfold slotW; rw [if_neg hic]

/-- numbers of process axes differing by one (`c1` the smaller handler, `c2` the larger, `jS` the position of its
    unmatched communicator): every dimension except `A = o2[jS]` sits on the same world axis in both layouts, and `A` is
    not distributed by the smaller handler -/
theorem slots_differ_by_one (dims wc c1 c2 o1 o2 : List Nat)
    (ho1 : OrdOK o1) (ho2 : OrdOK o2) (holen : o1.length = o2.length) (hc1 : c1.length ≤ o1.length)
    (hc2 : c2.length ≤ o2.length) (jS : Nat) (hjS : jS < c2.length)
    (hI : ∀ j, j < c2.length → j ≠ jS → ∃ i, i < c1.length ∧ c1.getD i 0 = c2.getD j 0 ∧ o1.getD i 0 = o2.getD j 0)
    (hIII : ∀ i, i < c1.length → c1.getD i 0 ∈ c2 ∧ c2.idxOf (c1.getD i 0) ≠ jS ∧
      o1.getD i 0 = o2.getD (c2.idxOf (c1.getD i 0)) 0) :
    (∀ d, d < o1.length → d ≠ o2.getD jS 0 → slotW dims wc c1 (o1.idxOf d) = slotW dims wc c2 (o2.idxOf d)) ∧
    slotW dims wc c1 (o1.idxOf (o2.getD jS 0)) = (1, 0) ∧ o2.idxOf (o2.getD jS 0) = jS ∧ o2.getD jS 0 ∈ o2 := by
  have hjSo : jS < o2.length := by omega
  have hA2 : o2.getD jS 0 ∈ o2 := getD_mem o2 jS 0 hjSo
  refine ⟨?_, ?_, idxOf_getD o2 ho2.nodup jS hjSo, hA2⟩
  · intro d hd hdA
    have hd1 : d ∈ o1 := (ho1.mem_iff d).mpr hd
    have hd2 : d ∈ o2 := (ho2.mem_iff d).mpr (by omega)
    have hi : o1.idxOf d < o1.length := idxOf_lt o1 d hd1
    have hj : o2.idxOf d < o2.length := idxOf_lt o2 d hd2
    have ho1i : o1.getD (o1.idxOf d) 0 = d := getD_idxOf o1 d hd1
    have ho2j : o2.getD (o2.idxOf d) 0 = d := getD_idxOf o2 d hd2
    generalize o1.idxOf d = i at hi ho1i
    generalize o2.idxOf d = j at hj ho2j
    have hjne : j ≠ jS := fun e => hdA (by rw [← ho2j, e])
    by_cases hjc : j < c2.length
    · obtain ⟨i', hi', hc, ho⟩ := hI j hjc hjne
      rw [ho2j, ← ho1i] at ho
      have hii := getD_inj o1 ho1.nodup _ _ (by omega) hi ho
      subst hii
      unfold slotW
      rw [if_pos hi', if_pos hjc, hc]
    · have h2 : slotW dims wc c2 j = (1, 0) := by unfold slotW; rw [if_neg hjc]
      rw [h2]
      by_cases hic : i < c1.length
      · obtain ⟨hm, _, ho⟩ := hIII i hic
        have hj' : c2.idxOf (c1.getD i 0) < c2.length := idxOf_lt c2 _ hm
        rw [ho1i, ← ho2j] at ho
        have := getD_inj o2 ho2.nodup _ _ hj (by omega) ho
        rw [← this] at hj'
        exact absurd hj' hjc
      · unfold slotW; rw [if_neg hic]
  · have hA1 : o2.getD jS 0 ∈ o1 := (ho1.mem_iff _).mpr (by rw [holen]; exact (ho2.mem_iff _).mp hA2)
    have hi : o1.idxOf (o2.getD jS 0) < o1.length := idxOf_lt o1 _ hA1
    have ho1i : o1.getD (o1.idxOf (o2.getD jS 0)) 0 = o2.getD jS 0 := getD_idxOf o1 _ hA1
    generalize o1.idxOf (o2.getD jS 0) = i at hi ho1i
    by_cases hic : i < c1.length
    · obtain ⟨hm, hne, ho⟩ := hIII i hic
      have hj' : c2.idxOf (c1.getD i 0) < c2.length := idxOf_lt c2 _ hm
      rw [ho1i] at ho
      exact absurd (getD_inj o2 ho2.nodup _ _ hjSo (by omega) ho).symm hne
    · unfold slotW; rw [if_neg hic]

/-! ### accepted pairs of a swapper -/

/-- soundness of the differ-by-one branch of `_compatibleLayout` together with `getAxes` (this is
    `differ_by_one_sound` of `Props/C03Extra.lean`, restated here so that the lemma files do not depend on
    a property file): `k1` in the handler with fewer process axes, `k2` in the one with one more; exactly one
    communicator `jS` of the larger handler is unmatched, `getAxes` reports it, and every communicator of the smaller
    handler is a communicator of the larger one distributing the same dimension. -/
theorem differ_by_one_sound (S : Swapper) (k1 k2 : Nat) (c1 c2 : List Nat)
    (hh : (S.locate k1).1 ≠ (S.locate k2).1)
    (hn : (S.handlerNprocs (S.locate k2).1).length = (S.handlerNprocs (S.locate k1).1).length + 1)
    (hc1 : S.commAxes (S.locate k1).1 = some c1) (hc2 : S.commAxes (S.locate k2).1 = some c2)
    (hacc : S.compatibleLayout k1 k2 = true ∨ S.compatibleLayout k2 k1 = true) :
    ∃ jS, jS < c2.length ∧
      -- (i)
      (c2.getD jS 0 ∉ c1 ∧
       ∀ j, j < c2.length → j ≠ jS → ∃ i, i < c1.length ∧ c1.getD i 0 = c2.getD j 0 ∧
          (S.layoutOf k1).ord.getD i 0 = (S.layoutOf k2).ord.getD j 0) ∧
      -- (ii)
      S.getAxes (S.locate k1).1 (S.locate k2).1 (S.layoutOf k1) (S.layoutOf k2) =
        ((S.layoutOf k1).ord.idxOf ((S.layoutOf k2).ord.getD jS 0), jS) ∧
      -- (iii)
      (∀ i, i < c1.length → c1.getD i 0 ∈ c2 ∧ c2.idxOf (c1.getD i 0) ≠ jS ∧
          (S.layoutOf k1).ord.getD i 0 = (S.layoutOf k2).ord.getD (c2.idxOf (c1.getD i 0)) 0) := by
  have hl1 := commAxes_length S _ c1 hc1
  have hl2 := commAxes_length S _ c2 hc2
  have hnd2 := commAxes_nodup S _ c2 hc2
  have hacc' : nSome (matchComms (S.layoutOf k1).ord (S.layoutOf k2).ord c1 c2) = 1 := by
    have e1 := compat_small_large S k1 k2 hh hn
    have e2 := compat_large_small S k1 k2 hh hn
    rw [hc1, hc2] at e1 e2
    simp only [Option.getD_some] at e1 e2
    rcases hacc with h | h
    · rw [e1] at h; exact of_decide_eq_true h
    · rw [e2] at h; exact of_decide_eq_true h
  obtain ⟨jS, hjS, hA, hB, _, hF⟩ := match_all _ _ c1 c2 (by omega) hacc'
  -- positions in a duplicate-free tuple are determined by the communicator
  have hpos : ∀ j, j < c2.length → c2.idxOf (c2.getD j 0) = j := by
    intro j hj
    rw [List.getD_eq_getElem?_getD, List.getElem?_eq_getElem hj, Option.getD_some]
    exact hnd2.idxOf_getElem j hj
  have hmem : ∀ j, j < c2.length → c2.getD j 0 ∈ c2 := by
    intro j hj
    rw [List.getD_eq_getElem?_getD, List.getElem?_eq_getElem hj, Option.getD_some]
    exact List.getElem_mem hj
  refine ⟨jS, hjS, ⟨?_, hB⟩, ?_, ?_⟩
  · intro hin
    obtain ⟨i, hi, hie⟩ := List.getElem_of_mem hin
    obtain ⟨j, hj, hne, hcj, _⟩ := hA i hi
    have : c2.getD j 0 = c2.getD jS 0 := by
      rw [hcj, ← hie, List.getD_eq_getElem?_getD, List.getElem?_eq_getElem hi, Option.getD_some]
    have := congrArg c2.idxOf this
    rw [hpos j hj, hpos jS hjS] at this
    exact hne this
  · rw [getAxes_eq, hc1, hc2]
    simp only [Option.getD_some]
    rw [hF]
  · intro i hi
    obtain ⟨j, hj, hne, hcj, hd⟩ := hA i hi
    have hidx : c2.idxOf (c1.getD i 0) = j := by rw [← hcj]; exact hpos j hj
    refine ⟨by rw [← hcj]; exact hmem j hj, by rw [hidx]; exact hne, by rw [hidx]; exact hd⟩



/-- `_compatibleLayout` rejects handlers whose numbers of process axes differ by more than one (:1164-1166) -/
theorem compat_cases (S : Swapper) (k1 k2 : Nat) (hh : (S.locate k1).1 ≠ (S.locate k2).1)
    (hacc : S.compatibleLayout k1 k2 = true ∨ S.compatibleLayout k2 k1 = true) :
    (S.handlerNprocs (S.locate k1).1).length = (S.handlerNprocs (S.locate k2).1).length ∨
    (S.handlerNprocs (S.locate k2).1).length = (S.handlerNprocs (S.locate k1).1).length + 1 ∨
    (S.handlerNprocs (S.locate k1).1).length = (S.handlerNprocs (S.locate k2).1).length + 1 := by
  have key : ∀ (b : Bool) (n1 n2 : Nat),
      (if (if n1 > n2 then n1 - n2 else n2 - n1) > 1 then false else b) = true →
      n1 = n2 ∨ n2 = n1 + 1 ∨ n1 = n2 + 1 := by
    intro b n1 n2 h
    by_cases hgt : (if n1 > n2 then n1 - n2 else n2 - n1) > 1
    · rw [if_pos hgt] at h; cases h
    · split at hgt <;> omega
  have hh' : ¬ (S.locate k2).1 = (S.locate k1).1 := fun e => hh e.symm
  rcases hacc with h | h
  · unfold Swapper.compatibleLayout Swapper.compatibleLayoutF at h
    simp only [hh, if_false] at h
    exact key _ _ _ h
  · unfold Swapper.compatibleLayout Swapper.compatibleLayoutF at h
    simp only [hh', if_false] at h
    have := key _ _ _ h
    omega

/-- what the equal-axis-count branch of `_compatibleLayout` (repaired, :1140-1162) accepts -/
theorem compat_equal_len (S : Swapper) (k1 k2 : Nat) (hh : (S.locate k1).1 ≠ (S.locate k2).1)
    (hn : (S.handlerNprocs (S.locate k1).1).length = (S.handlerNprocs (S.locate k2).1).length)
    (hacc : S.compatibleLayout k1 k2 = true) :
    (∀ x ∈ (S.commAxes (S.locate k2).1).getD [], x ∈ (S.commAxes (S.locate k1).1).getD []) ∧
    ∀ j, j < ((S.commAxes (S.locate k2).1).getD []).length →
      S.dims.getD (((S.commAxes (S.locate k2).1).getD []).getD j 0) 1 = 1 ∨
      (S.layoutOf k1).ord.getD (((S.commAxes (S.locate k1).1).getD []).idxOf (((S.commAxes (S.locate k2).1).getD []).getD j 0)) 0
        = (S.layoutOf k2).ord.getD j 0 := by
  unfold Swapper.compatibleLayout Swapper.compatibleLayoutF at hacc
  simp only [hh, ↓reduceIte, hn, Nat.sub_self, Nat.lt_irrefl, gt_iff_lt, Nat.not_lt_zero, Bool.not_true,
    Bool.false_or, Bool.and_eq_true, List.all_eq_true, List.mem_range, Bool.or_eq_true, decide_eq_true_eq,
    List.contains_iff_mem] at hacc
  exact ⟨hacc.1, hacc.2⟩

/-! ### numbers of distributed directions of an accepted pair -/

section Pair
variable (S : Swapper) (hS : SwapperOK S) (k1 k2 : Nat) (hk1 : k1 < S.allNames.length) (hk2 : k2 < S.allNames.length)
  (hh : (S.locate k1).1 ≠ (S.locate k2).1)
include hS hk1 hk2 hh

omit hS hk1 hk2 hh in
/-- slots of the two layouts on a world rank, in world terms -/
theorem slot_layout (c : List Nat) (hc : S.commAxes (S.locate k1).1 = some c) (rank i : Nat) :
    slot (S.layoutOf k1).nprocs ((S.topo (S.locate k1).1).coords rank) i = slotW S.dims (coordsOf S.dims rank) c i := by
  have hnp : (S.layoutOf k1).nprocs.getD i 1 = (S.handlerNprocs (S.locate k1).1).getD i 1 := by
    rw [layoutOf_eq]; exact padTo_getD _ _ i
  have := slot_topo S _ c hc rank i
  unfold slot at this ⊢
  rw [hnp]; exact this

omit hk1 hk2 hh hS in
theorem layoutOf_make (k : Nat) : S.layoutOf k = Layout.make (S.handlerNprocs (S.locate k).1) (S.layoutOf k).ord S.ext := rfl

/-- **equal numbers of distributed directions**: on every world rank every dimension has the same local extent and the
    same start in both layouts.  (`k1` is the layout whose handler has at most as many process axes.) -/
theorem slots_same_aux (hle : (S.handlerNprocs (S.locate k1).1).length ≤ (S.handlerNprocs (S.locate k2).1).length)
    (hacc : S.compatibleLayout k1 k2 = true ∨ S.compatibleLayout k2 k1 = true)
    (hnd : nDistributed (S.handlerNprocs (S.locate k2).1) = nDistributed (S.handlerNprocs (S.locate k1).1))
    (rank : Nat) (hr : rank < prodL S.dims) (d : Nat) (hd : d < S.ext.length) :
    slot (S.handlerNprocs (S.locate k1).1) ((S.topo (S.locate k1).1).coords rank) ((S.layoutOf k1).ord.idxOf d) =
    slot (S.handlerNprocs (S.locate k2).1) ((S.topo (S.locate k2).1).coords rank) ((S.layoutOf k2).ord.idxOf d) := by
  obtain ⟨c1, hc1⟩ := hS.comm (S.locate k1).1
  obtain ⟨c2, hc2⟩ := hS.comm (S.locate k2).1
  have hok1 := axesOK_of_commAxes S _ c1 hc1
  have hok2 := axesOK_of_commAxes S _ c2 hc2
  obtain ⟨ho1, hl1⟩ := layoutOf_ordOK S hS k1 hk1
  obtain ⟨ho2, hl2⟩ := layoutOf_ordOK S hS k2 hk2
  have hwc := coordsOf_ok S.dims rank hr
  have hm1 := handlerNprocs_length_le S (S.locate k1).1
  have hm2 := handlerNprocs_length_le S (S.locate k2).1
  have hmax := hS.2.2.1
  rw [slot_topo S _ c1 hc1, slot_topo S _ c2 hc2]
  rcases compat_cases S k1 k2 hh hacc with hn | hn | hn
  · -- equal numbers of process axes
    rcases hacc with ha | ha
    · obtain ⟨hsub, hdim⟩ := compat_equal_len S k1 k2 hh hn ha
      rw [hc1, hc2] at hsub hdim
      simp only [Option.getD_some] at hsub hdim
      exact slots_equal_len S.dims _ c1 c2 _ _ hwc hok1.lt hok2.lt hok1.nodup hok2.nodup (by rw [hok1.len, hok2.len, hn])
        ho1 ho2 (by rw [hl1, hl2]) (by rw [hok1.len, hl1]; omega) hsub hdim d (by rw [hl1]; exact hd)
    · obtain ⟨hsub, hdim⟩ := compat_equal_len S k2 k1 (fun e => hh e.symm) hn.symm ha
      rw [hc1, hc2] at hsub hdim
      simp only [Option.getD_some] at hsub hdim
      exact (slots_equal_len S.dims _ c2 c1 _ _ hwc hok2.lt hok1.lt hok2.nodup hok1.nodup (by rw [hok1.len, hok2.len, hn])
        ho2 ho1 (by rw [hl1, hl2]) (by rw [hok2.len, hl2]; omega) hsub hdim d (by rw [hl2]; exact hd)).symm
  · -- the second handler has one process axis more; it is not distributed
    obtain ⟨jS, hjS, ⟨hnot, hI⟩, _, hIII⟩ := differ_by_one_sound S k1 k2 c1 c2 hh hn hc1 hc2 hacc
    obtain ⟨ha, hb, hidx, hA2⟩ := slots_differ_by_one S.dims (coordsOf S.dims rank) c1 c2 _ _ ho1 ho2
      (by rw [hl1, hl2]) (by rw [hok1.len, hl1]; omega) (by rw [hok2.len, hl2]; omega) jS hjS hI hIII
    -- the unmatched communicator has a single process
    have hperm : (c2.getD jS 0 :: c1).Perm c2 := by
      apply (List.subperm_of_subset (List.nodup_cons.mpr ⟨hnot, hok1.nodup⟩) _).perm_of_length_le
      · rw [List.length_cons, hok1.len, hok2.len]; omega
      · intro x hx
        rcases List.mem_cons.mp hx with rfl | hx
        · exact getD_mem c2 jS 0 hjS
        · obtain ⟨i, hi, rfl⟩ := List.getElem_of_mem hx
          have := (hIII i hi).1
          rwa [getD_lt c1 i hi 0] at this
    have hone : S.dims.getD (c2.getD jS 0) 1 = 1 := by
      have e2 := nprocs_eq_map S _ c2 hok2
      have e1 := nprocs_eq_map S _ c1 hok1
      rw [e2, e1, ← nDistributed_perm _ _ (hperm.map _), List.map_cons, nDistributed_cons] at hnd
      by_contra hne
      rw [if_neg hne] at hnd
      omega
    by_cases hdA : d = (S.layoutOf k2).ord.getD jS 0
    · rw [hdA, hb, hidx]
      exact (slotW_one S.dims _ c2 hwc hok2.lt jS hjS hone).symm
    · exact ha d (by rw [hl1]; exact hd) hdA
  · omega

end Pair

/-- **equal numbers of distributed directions** (either handler may have the extra, undistributed, process axis) -/
theorem geom_same (S : Swapper) (hS : SwapperOK S) (kS kD : Nat) (hkS : kS < S.allNames.length)
    (hkD : kD < S.allNames.length) (hh : (S.locate kS).1 ≠ (S.locate kD).1)
    (hacc : S.compatibleLayout kS kD = true ∨ S.compatibleLayout kD kS = true)
    (hnd : nDistributed (S.handlerNprocs (S.locate kD).1) = nDistributed (S.handlerNprocs (S.locate kS).1))
    (rank : Nat) (hr : rank < prodL S.dims) :
    ∀ d ∈ (S.layoutOf kD).ord,
      lenD (S.layoutOf kS) ((S.topo (S.locate kS).1).coords rank) d =
        lenD (S.layoutOf kD) ((S.topo (S.locate kD).1).coords rank) d ∧
      startD (S.layoutOf kS) ((S.topo (S.locate kS).1).coords rank) d =
        startD (S.layoutOf kD) ((S.topo (S.locate kD).1).coords rank) d := by
  intro d hd
  obtain ⟨hoS, hlS⟩ := layoutOf_ordOK S hS kS hkS
  obtain ⟨hoD, hlD⟩ := layoutOf_ordOK S hS kD hkD
  have hdlt : d < S.ext.length := by rw [← hlD]; exact (hoD.mem_iff d).mp hd
  have hdS : d ∈ (S.layoutOf kS).ord := (hoS.mem_iff d).mpr (by rw [hlS]; exact hdlt)
  rw [layoutOf_make S kS, layoutOf_make S kD]
  apply same_of_slot _ _ _ _ _ _ _ d hdS hd
  rcases Nat.le_total (S.handlerNprocs (S.locate kS).1).length (S.handlerNprocs (S.locate kD).1).length with hle | hle
  · exact slots_same_aux S hS kS kD hkS hkD hh hle hacc hnd rank hr d hdlt
  · exact (slots_same_aux S hS kD kS hkD hkS (fun e => hh e.symm) hle hacc.symm hnd.symm rank hr d hdlt).symm

/-- **the second layout's handler is more distributed**: `getAxes(first, second)` reports the position `jS` of the one
    communicator of the second handler that the first does not have, and the position of the dimension `A` it
    distributes in the first layout; on every world rank all other dimensions have the same local extent and start in
    both layouts, and `A` is held whole by the first. -/
theorem geom_diff (S : Swapper) (hS : SwapperOK S) (k1 k2 : Nat) (hk1 : k1 < S.allNames.length)
    (hk2 : k2 < S.allNames.length) (hh : (S.locate k1).1 ≠ (S.locate k2).1)
    (hacc : S.compatibleLayout k1 k2 = true ∨ S.compatibleLayout k2 k1 = true)
    (hnd : nDistributed (S.handlerNprocs (S.locate k1).1) < nDistributed (S.handlerNprocs (S.locate k2).1)) :
    ∃ jS, jS < (S.handlerNprocs (S.locate k2).1).length ∧ jS < (S.layoutOf k2).ord.length ∧
      S.getAxes (S.locate k1).1 (S.locate k2).1 (S.layoutOf k1) (S.layoutOf k2) =
        ((S.layoutOf k1).ord.idxOf ((S.layoutOf k2).ord.getD jS 0), jS) ∧
      (S.layoutOf k2).ord.idxOf ((S.layoutOf k2).ord.getD jS 0) = jS ∧
      ∀ rank, rank < prodL S.dims →
        (∀ d ∈ (S.layoutOf k2).ord, d ≠ (S.layoutOf k2).ord.getD jS 0 →
          lenD (S.layoutOf k1) ((S.topo (S.locate k1).1).coords rank) d =
            lenD (S.layoutOf k2) ((S.topo (S.locate k2).1).coords rank) d ∧
          startD (S.layoutOf k1) ((S.topo (S.locate k1).1).coords rank) d =
            startD (S.layoutOf k2) ((S.topo (S.locate k2).1).coords rank) d) ∧
        lenD (S.layoutOf k1) ((S.topo (S.locate k1).1).coords rank) ((S.layoutOf k2).ord.getD jS 0) =
          S.ext.getD ((S.layoutOf k2).ord.getD jS 0) 0 ∧
        startD (S.layoutOf k1) ((S.topo (S.locate k1).1).coords rank) ((S.layoutOf k2).ord.getD jS 0) = 0 := by
  obtain ⟨c1, hc1⟩ := hS.comm (S.locate k1).1
  obtain ⟨c2, hc2⟩ := hS.comm (S.locate k2).1
  have hok1 := axesOK_of_commAxes S _ c1 hc1
  have hok2 := axesOK_of_commAxes S _ c2 hc2
  obtain ⟨ho1, hl1⟩ := layoutOf_ordOK S hS k1 hk1
  obtain ⟨ho2, hl2⟩ := layoutOf_ordOK S hS k2 hk2
  have hm1 := handlerNprocs_length_le S (S.locate k1).1
  have hm2 := handlerNprocs_length_le S (S.locate k2).1
  have hmax := hS.2.2.1
  have e2 := nprocs_eq_map S _ c2 hok2
  have e1 := nprocs_eq_map S _ c1 hok1
  -- the second handler has one process axis more
  have hn : (S.handlerNprocs (S.locate k2).1).length = (S.handlerNprocs (S.locate k1).1).length + 1 := by
    rcases compat_cases S k1 k2 hh hacc with hn | hn | hn
    · exfalso
      have hperm : c2.Perm c1 := by
        rcases hacc with ha | ha
        · obtain ⟨hsub, _⟩ := compat_equal_len S k1 k2 hh hn ha
          rw [hc1, hc2] at hsub
          simp only [Option.getD_some] at hsub
          exact (List.subperm_of_subset hok2.nodup hsub).perm_of_length_le (by rw [hok1.len, hok2.len, hn])
        · obtain ⟨hsub, _⟩ := compat_equal_len S k2 k1 (fun e => hh e.symm) hn.symm ha
          rw [hc1, hc2] at hsub
          simp only [Option.getD_some] at hsub
          exact ((List.subperm_of_subset hok1.nodup hsub).perm_of_length_le (by rw [hok1.len, hok2.len, hn])).symm
      rw [e2, e1, nDistributed_perm _ _ (hperm.map _)] at hnd
      omega
    · exact hn
    · exfalso
      obtain ⟨jS, hjS, ⟨hnot, _⟩, _, hIII⟩ := differ_by_one_sound S k2 k1 c2 c1 (fun e => hh e.symm) hn hc2 hc1
        hacc.symm
      have hperm : (c1.getD jS 0 :: c2).Perm c1 := by
        apply (List.subperm_of_subset (List.nodup_cons.mpr ⟨hnot, hok2.nodup⟩) _).perm_of_length_le
        · rw [List.length_cons, hok1.len, hok2.len]; omega
        · intro x hx
          rcases List.mem_cons.mp hx with rfl | hx
          · exact getD_mem c1 jS 0 hjS
          · obtain ⟨i, hi, rfl⟩ := List.getElem_of_mem hx
            have := (hIII i hi).1
            rwa [getD_lt c2 i hi 0] at this
      rw [e2, e1, ← nDistributed_perm _ _ (hperm.map _), List.map_cons, nDistributed_cons] at hnd
      omega
  obtain ⟨jS, hjS, ⟨_, hI⟩, hG, hIII⟩ := differ_by_one_sound S k1 k2 c1 c2 hh hn hc1 hc2 hacc
  have hjSo : jS < (S.layoutOf k2).ord.length := by rw [hl2]; rw [hok2.len] at hjS; omega
  refine ⟨jS, by rw [← hok2.len]; exact hjS, hjSo, hG, idxOf_getD _ ho2.nodup jS hjSo, ?_⟩
  intro rank hr
  obtain ⟨ha, hb, _, hA2⟩ := slots_differ_by_one S.dims (coordsOf S.dims rank) c1 c2 _ _ ho1 ho2
    (by rw [hl1, hl2]) (by rw [hok1.len, hl1]; omega) (by rw [hok2.len, hl2]; omega) jS hjS hI hIII
  have hA1 : (S.layoutOf k2).ord.getD jS 0 ∈ (S.layoutOf k1).ord :=
    (ho1.mem_iff _).mpr (by rw [hl1, ← hl2]; exact (ho2.mem_iff _).mp hA2)
  refine ⟨?_, ?_⟩
  · intro d hd hdA
    have hdlt : d < S.ext.length := by rw [← hl2]; exact (ho2.mem_iff d).mp hd
    have hd1 : d ∈ (S.layoutOf k1).ord := (ho1.mem_iff d).mpr (by rw [hl1]; exact hdlt)
    rw [layoutOf_make S k1, layoutOf_make S k2]
    apply same_of_slot _ _ _ _ _ _ _ d hd1 hd
    rw [slot_topo S _ c1 hc1, slot_topo S _ c2 hc2]
    exact ha d (by rw [hl1]; exact hdlt) hdA
  · rw [layoutOf_make S k1]
    apply whole_of_slot _ _ _ _ _ hA1
    rw [slot_topo S _ c1 hc1]
    exact hb

end PygyroVerif.CS
