/-
Helper lemmas for C10 (flux-surface advection) and C13 (parallel gradient): list-range sums, Python's `%`,
the closed form `fieldSum` (linearity, commutation with cyclic shifts of the rows, constants), the two loops of the
flux kernel, the Lagrange weights (= Mathlib's `Lagrange.basis` evaluated at the foot), the three loops of the
parallel gradient, and exactness of moment-system weights on polynomials.
-/
import PygyroVerif.Model.FluxAdv
import PygyroVerif.Model.ParGrad
import PygyroVerif.Model.BSpline
import Mathlib.Tactic.Ring
import Mathlib.Tactic.Linarith
import Mathlib.Algebra.BigOperators.Group.Finset.Basic
import Mathlib.Algebra.BigOperators.Ring.Finset
import Mathlib.Algebra.BigOperators.Group.Finset.Sigma
import Mathlib.LinearAlgebra.Lagrange
import Mathlib.Algebra.Polynomial.Taylor
import Mathlib.Algebra.Polynomial.Eval.Degree
import Mathlib.Algebra.Order.Floor.Ring

namespace PygyroVerif.FieldLine
variable {K : Type*}

theorem prodRange_succ [Monoid K] (n : ℕ) (f : ℕ → K) : prodRange (n+1) f = prodRange n f * f n := by
  simp [prodRange, List.range_succ]
theorem prodRange_eq_finset [CommMonoid K] (n : ℕ) (f : ℕ → K) :
    prodRange n f = ∏ j ∈ Finset.range n, f j := by
  induction n with
  | zero => simp [prodRange]
  | succ n ih => rw [prodRange_succ, Finset.prod_range_succ, ih]

theorem sumRange_succ [AddMonoid K] (n : ℕ) (f : ℕ → K) : sumRange (n+1) f = sumRange n f + f n := by
  simp [sumRange, List.range_succ]

theorem sumRange_eq_finset [AddCommMonoid K] (n : ℕ) (f : ℕ → K) :
    sumRange n f = ∑ j ∈ Finset.range n, f j := by
  induction n with
  | zero => simp [sumRange]
  | succ n ih => rw [sumRange_succ, Finset.sum_range_succ, ih]


theorem sumRange_congr [AddCommMonoid K] {n : ℕ} {f g : ℕ → K} (h : ∀ j, j < n → f j = g j) :
    sumRange n f = sumRange n g := by
  rw [sumRange_eq_finset, sumRange_eq_finset]
  exact Finset.sum_congr rfl (fun j hj => h j (Finset.mem_range.mp hj))

theorem pmod_lt (a : ℤ) {n : ℕ} (hn : 0 < n) : pmod a n < n := by
  unfold pmod
  have h1 : 0 ≤ a % (n : ℤ) := Int.emod_nonneg _ (by omega)
  have h2 : a % (n : ℤ) < n := Int.emod_lt_of_pos _ (by omega)
  omega

theorem pmod_cast (a : ℤ) {n : ℕ} (hn : 0 < n) : ((pmod a n : ℕ) : ℤ) = a % (n : ℤ) := by
  unfold pmod
  have h1 : 0 ≤ a % (n : ℤ) := Int.emod_nonneg _ (by omega)
  omega

theorem pmod_of_lt {n : ℕ} (i : ℕ) (h : i < n) : pmod (i : ℤ) n = i := by
  unfold pmod
  rw [Int.emod_eq_of_lt (by omega) (by omega)]; simp

/-- the row written by input row `i` with shift `s` is `a` iff `i` is the row met by the field line from `a` -/
theorem pmod_sub_eq_iff {n : ℕ} (hn : 0 < n) {i a : ℕ} (hi : i < n) (ha : a < n) (s : ℤ) :
    pmod ((i : ℤ) - s) n = a ↔ i = pmod ((a : ℤ) + s) n := by
  constructor
  · intro h
    have h1 := pmod_cast ((i : ℤ) - s) hn
    rw [h] at h1
    have h2 : ((a : ℤ) + s) % (n : ℤ) = i := by
      rw [h1, Int.emod_add_emod, sub_add_cancel]; exact Int.emod_eq_of_lt (by omega) (by omega)
    have h3 := pmod_cast ((a : ℤ) + s) hn
    omega
  · intro h
    have h1 := pmod_cast ((a : ℤ) + s) hn
    rw [← h] at h1
    have h2 : ((i : ℤ) - s) % (n : ℤ) = a := by
      rw [h1, Int.emod_sub_emod, add_sub_cancel_right]; exact Int.emod_eq_of_lt (by omega) (by omega)
    have h3 := pmod_cast ((i : ℤ) - s) hn
    omega

theorem pmod_pmod_add {n : ℕ} (hn : 0 < n) (a m : ℤ) : pmod ((pmod a n : ℤ) + m) n = pmod (a + m) n := by
  unfold pmod
  have h1 : 0 ≤ a % (n : ℤ) := Int.emod_nonneg _ (by omega)
  rw [Int.toNat_of_nonneg h1, Int.emod_add_emod]

theorem foldl_range_succ {α : Type*} (f : α → ℕ → α) (a : α) (n : ℕ) :
    (List.range (n+1)).foldl f a = f ((List.range n).foldl f a) n := by
  simp [List.range_succ]

section field
variable [Field K]

theorem fieldSum_linear (nz n : ℕ) (S1 S2 S3 : ℕ → K → K) (pts : ℕ → ℕ → K) (sh : ℕ → ℤ) (c : ℕ → K) (α β : K)
    (h : ∀ i x, S3 i x = α * S1 i x + β * S2 i x) (a q : ℕ) :
    fieldSum nz n S3 pts sh c a q = α * fieldSum nz n S1 pts sh c a q + β * fieldSum nz n S2 pts sh c a q := by
  unfold fieldSum
  simp only [sumRange_eq_finset, Finset.mul_sum, ← Finset.sum_add_distrib]
  refine Finset.sum_congr rfl (fun j _ => ?_)
  rw [h]; ring

theorem fieldSum_shift {nz : ℕ} (hnz : 0 < nz) (n : ℕ) (S S' : ℕ → K → K) (pts : ℕ → ℕ → K) (sh : ℕ → ℤ)
    (c : ℕ → K) (m : ℤ) (h : ∀ i x, i < nz → S' i x = S (pmod ((i : ℤ) + m) nz) x) (a q : ℕ) :
    fieldSum nz n S' pts sh c a q = fieldSum nz n S pts sh c (pmod ((a : ℤ) + m) nz) q := by
  unfold fieldSum
  refine sumRange_congr (fun j _ => ?_)
  rw [h _ _ (pmod_lt _ hnz), pmod_pmod_add hnz, pmod_pmod_add hnz]
  congr 3; ring

theorem fieldSum_const (nz n : ℕ) (S : ℕ → K → K) (pts : ℕ → ℕ → K) (sh : ℕ → ℤ) (c : ℕ → K) (C : K) (a q : ℕ)
    (h : ∀ j, j < n → S (pmod ((a : ℤ) + sh j) nz) (pts j q) = C) :
    fieldSum nz n S pts sh c a q = sumRange n c * C := by
  unfold fieldSum
  rw [sumRange_eq_finset, sumRange_eq_finset, Finset.sum_mul]
  exact Finset.sum_congr rfl (fun j hj => by rw [h j (Finset.mem_range.mp hj)])
end field
end PygyroVerif.FieldLine

namespace PygyroVerif.FluxAdv
open PygyroVerif.FieldLine PygyroVerif.BSpline
variable {K : Type*} [Field K]

omit [Field K] in
theorem getLagrangeVals_apply (nz nL : ℕ) (S : ℕ → K → K) (pts : ℕ → ℕ → K) (sh : ℕ → ℤ) (i : ℕ)
    (vals : ℕ → ℕ → ℕ → K) (a q k : ℕ) :
    getLagrangeVals nz nL S pts sh i vals a q k =
      if k < nL ∧ a = pmod ((i : ℤ) - sh k) nz then S i (pts k q) else vals a q k := by
  unfold getLagrangeVals
  induction nL with
  | zero => simp
  | succ n ih =>
    rw [foldl_range_succ]
    simp only [setLine]
    rw [ih]
    by_cases hk : k = n
    · subst hk; simp
    · have : k < n + 1 ↔ k < n := by omega
      simp [hk, this]

omit [Field K] in
theorem allLagrangeVals_partial {nz : ℕ} (hnz : 0 < nz) (nL : ℕ) (S : ℕ → K → K) (pts : ℕ → ℕ → K) (sh : ℕ → ℤ)
    (vals0 : ℕ → ℕ → ℕ → K) (m : ℕ) (hm : m ≤ nz) (a q k : ℕ) (ha : a < nz) (hk : k < nL) :
    (List.range m).foldl (fun v i => getLagrangeVals nz nL S pts sh i v) vals0 a q k =
      if pmod ((a : ℤ) + sh k) nz < m then S (pmod ((a : ℤ) + sh k) nz) (pts k q) else vals0 a q k := by
  induction m with
  | zero => simp
  | succ m ih =>
    rw [foldl_range_succ, getLagrangeVals_apply, ih (by omega)]
    have hiff := pmod_sub_eq_iff hnz (i := m) (a := a) (by omega) ha (sh k)
    by_cases hw : a = pmod ((m : ℤ) - sh k) nz
    · have hm' : m = pmod ((a : ℤ) + sh k) nz := hiff.mp hw.symm
      rw [if_pos ⟨hk, hw⟩, ← hm']; simp
    · have hne : m ≠ pmod ((a : ℤ) + sh k) nz := fun h => hw (hiff.mpr h).symm
      have : pmod ((a : ℤ) + sh k) nz < m + 1 ↔ pmod ((a : ℤ) + sh k) nz < m := by omega
      simp [hw, this]

theorem foldl_range'_add (g : ℕ → K) (n : ℕ) :
    (List.range' 1 n).foldl (fun acc k => acc + g k) (g 0) = sumRange (n + 1) g := by
  induction n with
  | zero => simp [sumRange]
  | succ n ih =>
    rw [List.range'_concat, List.foldl_append, ih, sumRange_succ (n+1)]
    simp [add_comm]

theorem fluxStep_eq_fieldSum {nz : ℕ} (hnz : 0 < nz) {nL : ℕ} (hL : 0 < nL) (S : ℕ → K → K) (pts : ℕ → ℕ → K)
    (sh : ℕ → ℤ) (c : ℕ → K) (vals0 : ℕ → ℕ → ℕ → K) (q i : ℕ) (hi : i < nz) :
    fluxStep nz nL S pts sh c vals0 q i = fieldSum nz nL S pts sh c i q := by
  unfold fluxStep fluxAdvection fieldSum
  rw [foldl_range'_add (fun k => c k * allLagrangeVals nz nL S pts sh vals0 i q k)]
  have : nL - 1 + 1 = nL := by omega
  rw [this]
  refine sumRange_congr (fun k hk => ?_)
  unfold allLagrangeVals
  rw [allLagrangeVals_partial hnz nL S pts sh vals0 nz le_rfl i q k hi hk, if_pos (pmod_lt _ hnz)]

section lagrange
variable [LinearOrder K]

/-- the coefficients of `_getLagrangePts` are the Lagrange basis polynomials on the stencil nodes evaluated at the
    foot, in both branches of the `np.where` -/
theorem lagrangeCoeffs_eq_basis (z dz zDist : K) (nL : ℕ) (sh : ℕ → ℤ)
    (hinj : Set.InjOn (zPts z dz sh) (Finset.range nL : Set ℕ)) (j : ℕ) (hj : j < nL) :
    lagrangeCoeffs z dz zDist nL sh j =
      Polynomial.eval (z + zDist) (Lagrange.basis (Finset.range nL) (zPts z dz sh) j) := by
  have hjm : j ∈ Finset.range nL := Finset.mem_range.mpr hj
  simp only [lagrangeCoeffs]
  by_cases h : zPts z dz sh j = z + zDist
  · rw [if_pos h, ← h, Lagrange.eval_basis_self hinj hjm]
  · rw [if_neg h, Lagrange.eval_basis_not_at_node hjm (fun e => h e.symm), Lagrange.eval_nodal,
      prodRange_eq_finset, prodRange_eq_finset, Lagrange.nodalWeight]
    have hp : ∏ k ∈ Finset.range nL, (zPts z dz sh j - zPts z dz sh k + if j = k then 1 else 0) =
        ∏ k ∈ (Finset.range nL).erase j, (zPts z dz sh j - zPts z dz sh k) := by
      rw [← Finset.mul_prod_erase _ _ hjm]
      simp only [sub_self, zero_add, if_true, one_mul]
      refine Finset.prod_congr rfl (fun k hk => ?_)
      have : j ≠ k := fun e => (Finset.mem_erase.mp hk).1 e.symm
      simp [this]
    rw [hp, Finset.prod_inv_distrib]
    ring
omit [LinearOrder K] in
theorem zPts_injOn [CharZero K] (z : K) {dz : K} (hdz : dz ≠ 0) (b : ℤ) (nL : ℕ) :
    Set.InjOn (zPts z dz (fun k => b + (stencilStart nL + (k : ℤ)))) (Finset.range nL : Set ℕ) := by
  intro i _ j _ h
  simp only [zPts] at h
  have h1 : dz * ((b + (stencilStart nL + (i : ℤ)) : ℤ) : K) = dz * ((b + (stencilStart nL + (j : ℤ)) : ℤ) : K) :=
    add_left_cancel h
  have h2 := mul_left_cancel₀ hdz h1
  have h3 := Int.cast_injective h2
  omega

omit [LinearOrder K] in
/-- spline evaluation is linear in the coefficient vector (the accumulation loop of `nu_eval_spline_1d_scalar`) -/
theorem foldl_dot_linear (c1 c2 c3 : ℕ → K) (α β : K) (h : ∀ i, c3 i = α * c1 i + β * c2 i) (start : ℕ)
    (l : List (K × ℕ)) (a1 a2 a3 : K) (ha : a3 = α * a1 + β * a2) :
    l.foldl (fun acc (bj : K × ℕ) => acc + c3 (start + bj.2) * bj.1) a3 =
      α * l.foldl (fun acc (bj : K × ℕ) => acc + c1 (start + bj.2) * bj.1) a1 +
      β * l.foldl (fun acc (bj : K × ℕ) => acc + c2 (start + bj.2) * bj.1) a2 := by
  induction l generalizing a1 a2 a3 with
  | nil => simpa using ha
  | cons x xs ih =>
    simp only [List.foldl_cons]
    apply ih
    rw [ha, h]; ring

theorem splineFn_linear (t : ℕ → K) (nk degree : ℕ) (c1 c2 c3 : ℕ → K) (α β : K)
    (h : ∀ i, c3 i = α * c1 i + β * c2 i) (x : K) :
    splineFn t nk degree c3 x = α * splineFn t nk degree c1 x + β * splineFn t nk degree c2 x := by
  unfold splineFn evalSpline1D
  cases findSpan t nk degree x with
  | none => simp
  | some span =>
    simp only [Option.map_some, Option.getD_some, dotFrom]
    exact foldl_dot_linear c1 c2 c3 α β h _ _ 0 0 0 (by ring)

theorem shifts_centre [FloorRing K] (zDist dz : K) {nL : ℕ} (hL : 0 < nL) :
    shifts zDist dz nL (centre nL) = ⌊zDist / dz⌋ := by
  unfold shifts stencilStart centre
  omega

theorem shifts_injOn [FloorRing K] (z zDist : K) {dz : K} (hdz : dz ≠ 0) (nL : ℕ) :
    Set.InjOn (zPts z dz (shifts zDist dz nL)) (Finset.range nL : Set ℕ) :=
  zPts_injOn z hdz ⌊zDist / dz⌋ nL
end lagrange
end PygyroVerif.FluxAdv

namespace PygyroVerif.ParGrad
open PygyroVerif.FieldLine
variable {K : Type*} [Field K]

theorem fd_facts (order : ℕ) :
    (fwdSteps order : ℤ) = -(fdStart order) ∧ (bkwdSteps order : ℤ) = (order : ℤ) + fdStart order ∧
    fwdSteps order + bkwdSteps order = order ∧
    (bkwdSteps order = fwdSteps order ∨ bkwdSteps order = fwdSteps order + 1) := by
  unfold fwdSteps bkwdSteps fdShift fdStart
  omega

theorem numpyIdx_eq_pmod {n : ℕ} {a : ℤ} (h1 : -(n : ℤ) ≤ a) (h2 : a < n) : numpyIdx n a = some (pmod a n) := by
  unfold numpyIdx pmod
  by_cases h : 0 ≤ a
  · rw [if_pos ⟨h, h2⟩, Int.emod_eq_of_lt h h2]
  · rw [if_neg (fun c => h c.1), if_pos ⟨h1, by omega⟩, ← Int.add_emod_right a n,
      Int.emod_eq_of_lt (by omega) (by omega)]

/-- all three loops address row `(i - s) mod nz` -/
theorem regimeRow_eq {nz order : ℕ} (h : order < nz) {i : ℕ} {j : ℕ} (hj : j ≤ order) :
    regimeRow nz order i (fdShift order j) = some (pmod ((i : ℤ) - fdShift order j) nz) := by
  obtain ⟨f1, f2, f3, f4⟩ := fd_facts order
  unfold regimeRow modRow rawRow
  split_ifs with h1 h2
  · rfl
  · apply numpyIdx_eq_pmod <;> unfold fdShift <;> omega
  · rfl

theorem foldl_congr_mem {α β : Type*} (f g : α → β → α) (l : List β) (a : α)
    (h : ∀ x ∈ l, ∀ acc, f acc x = g acc x) : l.foldl f a = l.foldl g a := by
  induction l generalizing a with
  | nil => rfl
  | cons x xs ih =>
    simp only [List.foldl_cons]
    rw [h x (List.mem_cons_self ..)]
    exact ih _ (fun y hy acc => h y (List.mem_cons_of_mem _ hy) acc)

/-- the middle loop (raw numpy index) does the same as a loop with `% nz` -/
theorem loopBody_raw_eq_mod {nz order : ℕ} (h : order < nz) (S : ℕ → K → K) (pts : ℕ → ℕ → K) (c : ℕ → K)
    (der : Option (ℕ → ℕ → K)) {i : ℕ} (h1 : fwdSteps order ≤ i) (h2 : i < nz - bkwdSteps order) :
    loopBody (rawRow nz) order S pts c der i = loopBody (modRow nz) order S pts c der i := by
  unfold loopBody
  apply foldl_congr_mem
  intro j hj acc
  have hj' : j ≤ order := by have := List.mem_range.mp hj; omega
  have := regimeRow_eq (nz := nz) (order := order) h (i := i) hj'
  unfold regimeRow at this
  rw [if_neg (by omega), if_pos h2] at this
  rw [this]; rfl

theorem range_split (a b n : ℕ) (h1 : a ≤ b) (h2 : b ≤ n) :
    List.range n = List.range a ++ (List.range' a (b - a) ++ List.range' b (n - b)) := by
  rw [List.range_eq_range', List.range_eq_range']
  have e : n = a + ((b - a) + (n - b)) := by omega
  conv_lhs => rw [e]
  rw [← List.range'_append_1, ← List.range'_append_1]
  have e2 : 0 + a = a := by omega
  have e3 : a + (b - a) = b := by omega
  rw [e2, e3]

/-- the three loops are one loop over all rows with `% nz` -/
theorem loops_eq_single {nz order : ℕ} (h : order < nz) (S : ℕ → K → K) (pts : ℕ → ℕ → K) (c : ℕ → K) :
    loops nz order S pts c =
      (List.range nz).foldl (loopBody (modRow nz) order S pts c) (some (fun _ _ => 0)) := by
  obtain ⟨f1, f2, f3, f4⟩ := fd_facts order
  unfold loops
  simp only
  rw [foldl_congr_mem (loopBody (rawRow nz) order S pts c) (loopBody (modRow nz) order S pts c)
      (List.range' (fwdSteps order) (nz - bkwdSteps order - fwdSteps order))]
  · rw [← List.foldl_append, ← List.foldl_append,
      range_split (fwdSteps order) (nz - bkwdSteps order) nz (by omega) (by omega)]
  · intro i hi acc
    rw [List.mem_range'_1] at hi
    exact loopBody_raw_eq_mod h S pts c acc hi.1 (by omega)

theorem loopBody_mod_some (nz order : ℕ) (S : ℕ → K → K) (pts : ℕ → ℕ → K) (c : ℕ → K) (d : ℕ → ℕ → K) (i : ℕ) :
    loopBody (modRow nz) order S pts c (some d) i =
      some (fun a q => d a q + sumRange (order + 1) (fun j =>
        if a = pmod ((i : ℤ) - fdShift order j) nz then c j * S i (pts j q) else 0)) := by
  unfold loopBody
  generalize order + 1 = n
  induction n with
  | zero => simp [sumRange]
  | succ n ih =>
    rw [foldl_range_succ, ih]
    simp only [addRow, modRow]
    congr 1
    funext a q
    rw [sumRange_succ]
    split_ifs <;> ring

theorem outer_mod_some (nz order : ℕ) (S : ℕ → K → K) (pts : ℕ → ℕ → K) (c : ℕ → K) (d : ℕ → ℕ → K) (m : ℕ) :
    (List.range m).foldl (loopBody (modRow nz) order S pts c) (some d) =
      some (fun a q => d a q + sumRange m (fun i => sumRange (order + 1) (fun j =>
        if a = pmod ((i : ℤ) - fdShift order j) nz then c j * S i (pts j q) else 0))) := by
  induction m with
  | zero => simp [sumRange]
  | succ m ih =>
    rw [foldl_range_succ, ih, loopBody_mod_some]
    congr 1
    funext a q
    rw [sumRange_succ m]; ring

/-- scatter-add over all rows = gather along the field line -/
theorem scatter_eq_fieldSum {nz : ℕ} (hnz : 0 < nz) (n : ℕ) (S : ℕ → K → K) (pts : ℕ → ℕ → K) (sh : ℕ → ℤ)
    (c : ℕ → K) (a q : ℕ) (ha : a < nz) :
    sumRange nz (fun i => sumRange n (fun j =>
        if a = pmod ((i : ℤ) - sh j) nz then c j * S i (pts j q) else 0)) = fieldSum nz n S pts sh c a q := by
  unfold fieldSum
  simp only [sumRange_eq_finset]
  rw [Finset.sum_comm]
  refine Finset.sum_congr rfl (fun j _ => ?_)
  rw [Finset.sum_eq_single (pmod ((a : ℤ) + sh j) nz)]
  · have : pmod (((pmod ((a : ℤ) + sh j) nz : ℕ) : ℤ) - sh j) nz = a :=
      (pmod_sub_eq_iff hnz (pmod_lt _ hnz) ha (sh j)).mpr rfl
    rw [if_pos this.symm]
  · intro i hi hne
    rw [if_neg]
    intro e
    exact hne ((pmod_sub_eq_iff hnz (Finset.mem_range.mp hi) ha (sh j)).mp e.symm)
  · intro hni
    exact absurd (Finset.mem_range.mpr (pmod_lt _ hnz)) hni

theorem parallelGradient_eq {nz order : ℕ} (h : order < nz) (S : ℕ → K → K) (pts : ℕ → ℕ → K) (c : ℕ → K)
    (bz dz : K) :
    ∃ d, parallelGradient nz order S pts c bz dz = some d ∧
      ∀ a q, a < nz → d a q = fieldSum nz (order + 1) S pts (fdShift order) c a q * (bz * (1 / dz)) := by
  unfold parallelGradient
  rw [if_pos h, loops_eq_single h, outer_mod_some]
  refine ⟨_, rfl, ?_⟩
  intro a q ha
  simp only [zero_add]
  rw [scatter_eq_fieldSum (by omega) _ S pts _ c a q ha]

/-- weights solving the moment system differentiate polynomials of degree ≤ order exactly -/
theorem fd_exact_polynomial {order : ℕ} (ho : 1 ≤ order) (c : ℕ → K) (hm : MomentSystem order c)
    (p : Polynomial K) (hp : p.natDegree ≤ order) (x h : K) :
    sumRange (order + 1) (fun j => c j * p.eval (x + ((fdShift order j : ℤ) : K) * h)) =
      h * (Polynomial.derivative p).eval x := by
  have hT : ∀ y : K, p.eval (x + y) =
      ∑ m ∈ Finset.range (order + 1), (Polynomial.taylor x p).coeff m * y ^ m := by
    intro y
    have hd : (Polynomial.taylor x p).natDegree < order + 1 := by
      rw [Polynomial.natDegree_taylor]; omega
    rw [add_comm, ← Polynomial.taylor_eval, Polynomial.eval_eq_sum_range' hd]
  simp only [sumRange_eq_finset, hT, Finset.mul_sum]
  rw [Finset.sum_comm]
  have hmom : ∀ m ∈ Finset.range (order + 1),
      ∑ j ∈ Finset.range (order + 1), c j * ((Polynomial.taylor x p).coeff m * (((fdShift order j : ℤ) : K) * h) ^ m) =
        (Polynomial.taylor x p).coeff m * h ^ m * (if m = 1 then 1 else 0) := by
    intro m hmr
    have := hm m (by have := Finset.mem_range.mp hmr; omega)
    rw [sumRange_eq_finset] at this
    rw [← this, Finset.mul_sum]
    refine Finset.sum_congr rfl (fun j _ => ?_)
    rw [mul_pow]; ring
  rw [Finset.sum_congr rfl hmom]
  simp only [mul_ite, mul_one, mul_zero]
  rw [Finset.sum_ite_eq' (Finset.range (order + 1)) 1, if_pos (Finset.mem_range.mpr (by omega)),
    Polynomial.taylor_coeff_one]
  ring
end PygyroVerif.ParGrad
