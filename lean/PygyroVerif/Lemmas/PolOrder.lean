/-
Helper lemmas for C12Extra: the explicit (Heun) and the implicit (trapezoidal fixed-point) foot of the poloidal advection
as maps of a normed space, the contraction estimate of the fixed-point map and the geometric decrease of its successive
differences.

  pygyro/advection/accelerated_advection_steps.py
      general_poloidal_advection_step_expl :57-93     `heunFoot`  = x − dt/2·(a x + a (x − dt·a x))
      general_poloidal_advection_step_impl :282-289   `eulerFoot` = x − dt·a x            (start of the iteration)
                                           :298-343   `trap`      = y ↦ x − dt/2·(a x + a y)   (one sweep, one node)

`a` is the velocity with which the foot moves *backwards*, i.e. minus the drift: a = (∂_rφ, −∂_θφ)/(r·B0) (`polVel` in
the second part).  Everything is stated for an arbitrary real normed space; the model is tied in with E = ℝ × ℝ whose
norm is `max |·| |·|` — the norm of the stop rule of the code (:334-341).
-/
import Mathlib.Analysis.Normed.Module.Basic
import Mathlib.Analysis.Normed.Group.Constructions
import Mathlib.Algebra.Order.Floor.Semiring
import Mathlib.Tactic.Ring
import Mathlib.Tactic.Linarith
import Mathlib.Tactic.NormNum
import Mathlib.Tactic.Positivity

noncomputable section

namespace PygyroVerif.PolOrder

variable {E : Type*} [NormedAddCommGroup E] [NormedSpace ℝ E]

/-- the fixed-point map of the implicit trapezoidal rule for the node `x` -/
def trap (a : E → E) (x : E) (dt : ℝ) (y : E) : E := x - (dt / 2) • (a x + a y)

/-- explicit Euler foot: the start of the implicit iteration and the predictor of the explicit scheme -/
def eulerFoot (a : E → E) (x : E) (dt : ℝ) : E := x - dt • a x

/-- foot of the explicit scheme (Heun) -/
def heunFoot (a : E → E) (x : E) (dt : ℝ) : E := x - (dt / 2) • (a x + a (x - dt • a x))

/-- `k`-th iterate of the fixed-point map started at `y0` -/
def iter (a : E → E) (x : E) (dt : ℝ) (y0 : E) (k : ℕ) : E := (trap a x dt)^[k] y0

/-- `a` is `L`-Lipschitz on `S` -/
def LipOn (a : E → E) (L : ℝ) (S : Set E) : Prop := ∀ y ∈ S, ∀ z ∈ S, ‖a y - a z‖ ≤ L * ‖y - z‖

/-- `a` is bounded by `M` on `S` -/
def BddOn (a : E → E) (M : ℝ) (S : Set E) : Prop := ∀ y ∈ S, ‖a y‖ ≤ M

/-- contraction factor of the fixed-point map -/
def qFac (dt L : ℝ) : ℝ := |dt| * L / 2

theorem trap_self (a : E → E) (x : E) (dt : ℝ) : trap a x dt x = eulerFoot a x dt := by
  unfold trap eulerFoot
  rw [← two_smul ℝ (a x), smul_smul]
  congr 2
  ring

theorem trap_euler (a : E → E) (x : E) (dt : ℝ) : trap a x dt (eulerFoot a x dt) = heunFoot a x dt := rfl

theorem iter_zero (a : E → E) (x : E) (dt : ℝ) (y0 : E) : iter a x dt y0 0 = y0 := rfl

theorem iter_succ (a : E → E) (x : E) (dt : ℝ) (y0 : E) (k : ℕ) :
    iter a x dt y0 (k + 1) = trap a x dt (iter a x dt y0 k) := by
  unfold iter
  rw [Function.iterate_succ_apply']

/-- started at the node, the first iterate is the Euler foot and the second the Heun foot -/
theorem iter_one_node (a : E → E) (x : E) (dt : ℝ) : iter a x dt x 1 = eulerFoot a x dt := by
  rw [iter_succ, iter_zero, trap_self]

theorem iter_two_node (a : E → E) (x : E) (dt : ℝ) : iter a x dt x 2 = heunFoot a x dt := by
  rw [iter_succ, iter_one_node, trap_euler]

theorem iter_add (a : E → E) (x : E) (dt : ℝ) (y0 : E) (m k : ℕ) :
    iter a x dt y0 (m + k) = iter a x dt (iter a x dt y0 m) k := by
  unfold iter
  rw [Nat.add_comm, Function.iterate_add_apply]

theorem trap_sub (a : E → E) (x : E) (dt : ℝ) (y z : E) :
    trap a x dt y - trap a x dt z = -((dt / 2) • (a y - a z)) := by
  unfold trap
  rw [smul_add, smul_add, smul_sub]
  abel

theorem norm_trap_sub (a : E → E) (x : E) (dt : ℝ) (y z : E) :
    ‖trap a x dt y - trap a x dt z‖ = |dt| / 2 * ‖a y - a z‖ := by
  rw [trap_sub, norm_neg, norm_smul, Real.norm_eq_abs, abs_div, abs_two]

theorem trap_sub_node (a : E → E) (x : E) (dt : ℝ) (y : E) :
    trap a x dt y - x = -((dt / 2) • (a x + a y)) := by
  unfold trap
  abel

theorem norm_trap_sub_node (a : E → E) (x : E) (dt : ℝ) (y : E) :
    ‖trap a x dt y - x‖ = |dt| / 2 * ‖a x + a y‖ := by
  rw [trap_sub_node, norm_neg, norm_smul, Real.norm_eq_abs, abs_div, abs_two]

/-- one application of the fixed-point map shrinks distances by `|dt|·L/2` wherever `a` is `L`-Lipschitz -/
theorem trap_contract_pair (a : E → E) (x : E) (dt L : ℝ) (y z : E) (h : ‖a y - a z‖ ≤ L * ‖y - z‖) :
    ‖trap a x dt y - trap a x dt z‖ ≤ qFac dt L * ‖y - z‖ := by
  rw [norm_trap_sub, qFac]
  have h0 : 0 ≤ |dt| / 2 := by positivity
  calc |dt| / 2 * ‖a y - a z‖ ≤ |dt| / 2 * (L * ‖y - z‖) := mul_le_mul_of_nonneg_left h h0
    _ = |dt| * L / 2 * ‖y - z‖ := by ring

theorem qFac_nonneg (dt L : ℝ) (hL : 0 ≤ L) : 0 ≤ qFac dt L := by
  unfold qFac
  positivity

/-- distance of the fixed point from the node: at most `|dt|·M` -/
theorem norm_fixed_sub_node (a : E → E) (x : E) (dt M : ℝ) (ys : E) (hfix : trap a x dt ys = ys)
    (hx : ‖a x‖ ≤ M) (hy : ‖a ys‖ ≤ M) : ‖ys - x‖ ≤ |dt| * M := by
  have h := norm_trap_sub_node a x dt ys
  rw [hfix] at h
  rw [h]
  have h0 : 0 ≤ |dt| / 2 := by positivity
  calc |dt| / 2 * ‖a x + a ys‖ ≤ |dt| / 2 * (M + M) :=
        mul_le_mul_of_nonneg_left (le_trans (norm_add_le _ _) (add_le_add hx hy)) h0
    _ = |dt| * M := by ring

/-- `(1 + n s)(1 − s)^n ≤ 1` for `0 ≤ s ≤ 1`: the elementary bound behind the explicit sweep count -/
theorem one_add_mul_pow_le_one (s : ℝ) (h0 : 0 ≤ s) (h1 : s ≤ 1) : ∀ n : ℕ, (1 + n * s) * (1 - s) ^ n ≤ 1
  | 0 => by simp
  | n + 1 => by
    have ih := one_add_mul_pow_le_one s h0 h1 n
    have hp : 0 ≤ (1 - s) ^ n := pow_nonneg (by linarith) n
    have hn : (0 : ℝ) ≤ n := Nat.cast_nonneg n
    have e : (1 + ((n + 1 : ℕ) : ℝ) * s) * (1 - s) ^ (n + 1) =
        (1 + n * s) * (1 - s) ^ n - ((n + 1) * s ^ 2) * (1 - s) ^ n := by
      push_cast
      ring
    rw [e]
    have : 0 ≤ ((n + 1) * s ^ 2) * (1 - s) ^ n := by positivity
    linarith

/-- `q^n ≤ 1 / (1 + n (1 − q))` for `0 ≤ q ≤ 1` -/
theorem pow_le_inv_linear (q : ℝ) (h0 : 0 ≤ q) (h1 : q ≤ 1) (n : ℕ) : q ^ n * (1 + n * (1 - q)) ≤ 1 := by
  have h := one_add_mul_pow_le_one (1 - q) (by linarith) (by linarith) n
  have e : 1 - (1 - q) = q := by ring
  rw [e] at h
  linarith [mul_comm (q ^ n) (1 + n * (1 - q))]


/-! ### geometric decrease of the successive differences -/

/-- successive differences of the fixed-point iteration decrease geometrically with factor `q = |dt|·L/2`
    (no assumption `q < 1` is needed for this) -/
theorem iter_diff_geometric (a : E → E) (x : E) (dt L : ℝ) (S : Set E) (y0 : E) (hL : 0 ≤ L) (hLip : LipOn a L S)
    (hS : ∀ k, iter a x dt y0 k ∈ S) (k : ℕ) :
    ‖iter a x dt y0 (k + 1) - iter a x dt y0 k‖ ≤ qFac dt L ^ k * ‖iter a x dt y0 1 - iter a x dt y0 0‖ := by
  induction k with
  | zero => simp
  | succ k ih =>
    have hq := qFac_nonneg dt L hL
    calc ‖iter a x dt y0 (k + 1 + 1) - iter a x dt y0 (k + 1)‖
        = ‖trap a x dt (iter a x dt y0 (k + 1)) - trap a x dt (iter a x dt y0 k)‖ := by
          rw [iter_succ a x dt y0 (k + 1), iter_succ a x dt y0 k]
      _ ≤ qFac dt L * ‖iter a x dt y0 (k + 1) - iter a x dt y0 k‖ :=
          trap_contract_pair a x dt L _ _ (hLip _ (hS (k + 1)) _ (hS k))
      _ ≤ qFac dt L * (qFac dt L ^ k * ‖iter a x dt y0 1 - iter a x dt y0 0‖) := mul_le_mul_of_nonneg_left ih hq
      _ = qFac dt L ^ (k + 1) * ‖iter a x dt y0 1 - iter a x dt y0 0‖ := by ring

/-- partial geometric sum: `(1 − q)·‖y_{m+k} − y_m‖ ≤ q^m (1 − q^k)·‖y_1 − y_0‖` -/
theorem iter_dist_le (a : E → E) (x : E) (dt L : ℝ) (S : Set E) (y0 : E) (hL : 0 ≤ L) (hLip : LipOn a L S)
    (hS : ∀ k, iter a x dt y0 k ∈ S) (hq1 : qFac dt L ≤ 1) (m k : ℕ) :
    (1 - qFac dt L) * ‖iter a x dt y0 (m + k) - iter a x dt y0 m‖ ≤
      qFac dt L ^ m * (1 - qFac dt L ^ k) * ‖iter a x dt y0 1 - iter a x dt y0 0‖ := by
  set q := qFac dt L with hq
  set d := ‖iter a x dt y0 1 - iter a x dt y0 0‖ with hd
  have hq0 : 0 ≤ 1 - q := by linarith
  induction k with
  | zero => simp
  | succ k ih =>
    have hstep := iter_diff_geometric a x dt L S y0 hL hLip hS (m + k)
    have htri : ‖iter a x dt y0 (m + (k + 1)) - iter a x dt y0 m‖ ≤
        ‖iter a x dt y0 (m + k + 1) - iter a x dt y0 (m + k)‖ + ‖iter a x dt y0 (m + k) - iter a x dt y0 m‖ := by
      have e : iter a x dt y0 (m + (k + 1)) - iter a x dt y0 m =
          (iter a x dt y0 (m + k + 1) - iter a x dt y0 (m + k)) + (iter a x dt y0 (m + k) - iter a x dt y0 m) := by
        rw [← Nat.add_assoc]
        abel
      rw [e]
      exact norm_add_le _ _
    calc (1 - q) * ‖iter a x dt y0 (m + (k + 1)) - iter a x dt y0 m‖
        ≤ (1 - q) * (‖iter a x dt y0 (m + k + 1) - iter a x dt y0 (m + k)‖ +
            ‖iter a x dt y0 (m + k) - iter a x dt y0 m‖) := mul_le_mul_of_nonneg_left htri hq0
      _ ≤ (1 - q) * (q ^ (m + k) * d) + q ^ m * (1 - q ^ k) * d := by
          rw [mul_add]
          exact add_le_add (mul_le_mul_of_nonneg_left hstep hq0) ih
      _ = q ^ m * (1 - q ^ (k + 1)) * d := by ring

/-- an iterate whose step is at most `tol` lies within `q·tol/(1 − q)` of the fixed point (a-posteriori bound) -/
theorem near_fixed_of_small_step (a : E → E) (x : E) (dt L tol : ℝ) (y ys : E) (hL : 0 ≤ L)
    (hq1 : qFac dt L < 1) (hfix : trap a x dt ys = ys) (hLip : ‖a y - a ys‖ ≤ L * ‖y - ys‖)
    (hstep : ‖trap a x dt y - y‖ ≤ tol) :
    ‖trap a x dt y - ys‖ ≤ qFac dt L * tol / (1 - qFac dt L) := by
  have hq := qFac_nonneg dt L hL
  have h1 : ‖trap a x dt y - ys‖ ≤ qFac dt L * ‖y - ys‖ := by
    have := trap_contract_pair a x dt L y ys hLip
    rwa [hfix] at this
  have h2 : ‖y - ys‖ ≤ tol + ‖trap a x dt y - ys‖ := by
    have e : y - ys = -(trap a x dt y - y) + (trap a x dt y - ys) := by abel
    rw [e]
    exact le_trans (norm_add_le _ _) (by rw [norm_neg]; linarith)
  have h3 : (1 - qFac dt L) * ‖trap a x dt y - ys‖ ≤ qFac dt L * tol := by
    have := mul_le_mul_of_nonneg_left h2 hq
    nlinarith
  rw [le_div_iff₀ (by linarith)]
  linarith

end PygyroVerif.PolOrder

end
