/-
Address arithmetic of C-ordered blocks and the abstract (dimension-indexed) form of one direct transpose
(pack / Alltoall / unpack).  Proved in the design phase; used by Props/C01.lean and Props/C03.lean.
-/
import PygyroVerif.Model.Blocks
import PygyroVerif.Lemmas.Blocks
import Mathlib.Tactic.Ring
import Mathlib.Tactic.Linarith
import Mathlib.Algebra.Order.Ring.Nat
import Mathlib.Algebra.BigOperators.Group.List.Basic
import Mathlib.Logic.Function.Basic

namespace PygyroVerif.Addr
open PygyroVerif

/-! ### addresses -/
def ravel : List Nat → List Nat → Nat
  | i :: is, _ :: ns => i * ns.prod + ravel is ns
  | _, _ => 0
def InBox : List Nat → List Nat → Prop
  | [], [] => True
  | i :: is, n :: ns => i < n ∧ InBox is ns
  | _, _ => False
theorem ravel_lt : ∀ (idx shape : List Nat), InBox idx shape → ravel idx shape < shape.prod
  | [], [], _ => by simp [ravel]
  | i :: is, n :: ns, h => by
    obtain ⟨hi, hr⟩ := h
    have ih := ravel_lt is ns hr
    simp only [ravel, List.prod_cons]
    calc i * ns.prod + ravel is ns < i * ns.prod + ns.prod := by omega
      _ = (i + 1) * ns.prod := by ring
      _ ≤ n * ns.prod := Nat.mul_le_mul_right _ hi
  | [], _ :: _, h => by simp [InBox] at h
  | _ :: _, [], h => by simp [InBox] at h

def unravel : List Nat → Nat → List Nat
  | [], _ => []
  | _ :: ns, k => (k / ns.prod) :: unravel ns (k % ns.prod)
theorem unravel_ravel : ∀ (idx shape : List Nat), InBox idx shape → unravel shape (ravel idx shape) = idx
  | [], [], _ => rfl
  | i :: is, n :: ns, h => by
    obtain ⟨hi, hr⟩ := h
    have hlt := ravel_lt is ns hr
    have hpos : 0 < ns.prod := by omega
    simp only [ravel, unravel]
    rw [Nat.add_comm, Nat.add_mul_div_right _ _ hpos, Nat.div_eq_of_lt hlt, Nat.zero_add,
        Nat.add_mul_mod_self_right, Nat.mod_eq_of_lt hlt, unravel_ravel is ns hr]
  | [], _ :: _, h => by simp [InBox] at h
  | _ :: _, [], h => by simp [InBox] at h
def ravelD (ord : List Nat) (u sh : Nat → Nat) : Nat := ravel (ord.map u) (ord.map sh)
def InBoxD (ord : List Nat) (u sh : Nat → Nat) : Prop := ∀ d ∈ ord, u d < sh d
theorem inBox_map (ord : List Nat) (u sh : Nat → Nat) (h : InBoxD ord u sh) :
    InBox (ord.map u) (ord.map sh) := by
  induction ord with
  | nil => simp [InBox]
  | cons d ds ih =>
    simp only [List.map_cons, InBox]
    exact ⟨h d (by simp), ih (fun x hx => h x (by simp [hx]))⟩
theorem ravelD_lt (ord : List Nat) (u sh : Nat → Nat) (h : InBoxD ord u sh) :
    ravelD ord u sh < (ord.map sh).prod := ravel_lt _ _ (inBox_map ord u sh h)

/-- addresses are injective on the box (no two elements of a block share a cell) -/
theorem ravelD_inj (ord : List Nat) (u v sh : Nat → Nat) (hu : InBoxD ord u sh) (hv : InBoxD ord v sh)
    (h : ravelD ord u sh = ravelD ord v sh) : ∀ d ∈ ord, u d = v d := by
  have e1 := unravel_ravel _ _ (inBox_map ord u sh hu)
  have e2 := unravel_ravel _ _ (inBox_map ord v sh hv)
  unfold ravelD at h
  rw [h] at e1
  have : ord.map u = ord.map v := by rw [← e1, e2]
  intro d hd
  exact List.map_inj_left.mp this d hd
theorem ravelD_block (A : Nat) (rest : List Nat) (hA : A ∉ rest) (u sh : Nat → Nat) (q m p : Nat)
    (hm : sh A = m) :
    q * ((A :: rest).map sh).prod + ravelD (A :: rest) u sh
      = ravelD (A :: rest) (Function.update u A (q * m + u A)) (Function.update sh A (p * m)) := by
  have hrest : ∀ (f : Nat → Nat) (x : Nat), rest.map (Function.update f A x) = rest.map f := by
    intro f x
    apply List.map_congr_left
    intro d hd
    have : d ≠ A := fun h => hA (h ▸ hd)
    simp [Function.update_of_ne this]
  simp only [ravelD, List.map_cons, ravel, List.prod_cons, Function.update_self, hrest, hm]
  ring
/-- the address only looks at the dimensions listed in `ord` -/
theorem ravelD_congr (ord : List Nat) (u v sh sh' : Nat → Nat)
    (h1 : ∀ d ∈ ord, u d = v d) (h2 : ∀ d ∈ ord, sh d = sh' d) : ravelD ord u sh = ravelD ord v sh' := by
  unfold ravelD
  rw [List.map_congr_left h1, List.map_congr_left h2]

/-! ### one direct transpose step, abstract (dimension-indexed) form

`A` is split `p` ways in the source and whole in the destination, `B` the other way round, every
other dimension `d` has the same local extent `shO d` and start `stO d` on all ranks involved. -/
section Swap
variable {α : Type}
variable (nA nB p : Nat) (A B : Nat) (shO stO : Nat → Nat)
variable (ordS ordD rest : List Nat)

def lenA (q : Nat) := blockStart nA p (q+1) - blockStart nA p q
def lenB (r : Nat) := blockStart nB p (r+1) - blockStart nB p r
def shS (q : Nat) : Nat → Nat := fun d => if d = A then lenA nA p q else if d = B then nB else shO d
def shD (r : Nat) : Nat → Nat := fun d => if d = A then nA else if d = B then lenB nB p r else shO d
def box1 (q r : Nat) : Nat → Nat := fun d => if d = A then lenA nA p q else if d = B then lenB nB p r else shO d
def blk (maxA maxB : Nat) : Nat → Nat := fun d => if d = A then maxA else if d = B then maxB else shO d
def globS (q : Nat) (w : Nat → Nat) : Nat → Nat :=
  fun d => if d = A then blockStart nA p q + w A else if d = B then w B else stO d + w d
def globD (r : Nat) (v : Nat → Nat) : Nat → Nat :=
  fun d => if d = A then v A else if d = B then blockStart nB p r + v B else stO d + v d

theorem swap_step_correct (hp : 0 < p) (hAB : A ≠ B)
    (maxA maxB : Nat) (hmaxA : ∀ q, q < p → lenA nA p q ≤ maxA) (hmaxB : ∀ r, r < p → lenB nB p r ≤ maxB)
    (hArest : A ∉ rest) (hAS : A ∈ ordS) (hBS : B ∈ ordS) (hAD : A ∈ ordD) (hBD : B ∈ ordD)
    (hperm1 : ∀ d, d ∈ ordS ↔ d ∈ ordD) (hperm2 : ∀ d, d ∈ ordS ↔ d ∈ A :: rest)
    (G : (Nat → Nat) → α) (hG : ∀ f g : Nat → Nat, (∀ d ∈ ordS, f d = g d) → G f = G g)
    (src pack rcv dst : Nat → Nat → α)
    (bs : Nat) (hbs : bs = ((A :: rest).map (blk A B shO maxA maxB)).prod)
    -- source blocks hold G
    (hsrc : ∀ q, q < p → ∀ w, InBoxD ordS w (shS nA nB p A B shO q) →
        src q (ravelD ordS w (shS nA nB p A B shO q)) = G (globS nA p A B stO q w))
    -- stage 1: _extract_from_source
    (h1 : ∀ q r, q < p → r < p → ∀ u, InBoxD (A :: rest) u (box1 nA nB p A B shO q r) →
        pack q (r * bs + ravelD (A :: rest) u (blk A B shO maxA maxB))
          = src q (ravelD ordS (Function.update u B (blockStart nB p r + u B)) (shS nA nB p A B shO q)))
    -- stage 2: Alltoall
    (h2 : ∀ q r off, q < p → r < p → off < bs → rcv r (q * bs + off) = pack q (r * bs + off))
    -- stage 3: _rearrange_from_buffer
    (h3 : ∀ q r, q < p → r < p → ∀ u, InBoxD (A :: rest) u (box1 nA nB p A B shO q r) →
        dst r (ravelD ordD (Function.update u A (blockStart nA p q + u A)) (shD nA nB p A B shO r))
          = rcv r (ravelD (A :: rest) (Function.update u A (q * maxA + u A))
                    (Function.update (blk A B shO maxA maxB) A (p * maxA)))) :
    ∀ r, r < p → ∀ v, InBoxD ordD v (shD nA nB p A B shO r) →
      dst r (ravelD ordD v (shD nA nB p A B shO r)) = G (globD nB p A B stO r v) := by
  intro r hr v hv
  -- locate the source rank q of this element
  have hvA : v A < nA := by have := hv A hAD; simpa [shD] using this
  obtain ⟨q, hq, hq1, hq2⟩ := owner_exists nA p hp (v A) hvA
  set u : Nat → Nat := Function.update v A (v A - blockStart nA p q) with hu
  have huA : u A = v A - blockStart nA p q := by simp [hu]
  have hu_ne : ∀ d, d ≠ A → u d = v d := fun d hd => by simp [hu, Function.update_of_ne hd]
  -- u lies in the packed box
  have hbox : InBoxD (A :: rest) u (box1 nA nB p A B shO q r) := by
    intro d hd
    have hdD : d ∈ ordD := (hperm1 d).mp ((hperm2 d).mpr hd)
    by_cases hdA : d = A
    · subst hdA; simp only [box1, if_true, huA, lenA]; omega
    · have := hv d hdD
      rw [hu_ne d hdA]
      by_cases hdB : d = B
      · subst hdB; simpa [box1, shD, hdA] using this
      · simpa [box1, shD, hdA, hdB] using this
  -- rewrite v as u shifted
  have hv_eq : ∀ d ∈ ordD, v d = (Function.update u A (blockStart nA p q + u A)) d := by
    intro d _
    by_cases hdA : d = A
    · subst hdA; simp [huA]; omega
    · simp [Function.update_of_ne hdA, hu_ne d hdA]
  rw [ravelD_congr ordD v _ _ _ hv_eq (fun _ _ => rfl), h3 q r hq hr u hbox]
  -- the received slab is block q
  have hblkA : blk A B shO maxA maxB A = maxA := by simp [blk]
  rw [← ravelD_block A rest hArest u (blk A B shO maxA maxB) q maxA p hblkA, ← hbs]
  -- offset inside the block
  have hin : InBoxD (A :: rest) u (blk A B shO maxA maxB) := by
    intro d hd
    have := hbox d hd
    by_cases hdA : d = A
    · subst hdA; simp only [box1, blk, if_true] at this ⊢; exact lt_of_lt_of_le this (hmaxA q hq)
    · by_cases hdB : d = B
      · subst hdB; simp only [box1, blk, hdA, if_false, if_true] at this ⊢; exact lt_of_lt_of_le this (hmaxB r hr)
      · simpa [box1, blk, hdA, hdB] using this
  have hoff := ravelD_lt (A :: rest) u (blk A B shO maxA maxB) hin
  rw [← hbs] at hoff
  rw [h2 q r _ hq hr hoff, h1 q r hq hr u hbox]
  -- the source element
  set w : Nat → Nat := Function.update u B (blockStart nB p r + u B) with hw
  have hBA : B ≠ A := fun h => hAB h.symm
  have hwA : w A = u A := by simp [hw, Function.update_of_ne hAB]
  have hwB : w B = blockStart nB p r + u B := by simp [hw]
  have hw_ne : ∀ d, d ≠ B → w d = u d := fun d hd => by simp [hw, Function.update_of_ne hd]
  have hwbox : InBoxD ordS w (shS nA nB p A B shO q) := by
    intro d hd
    have hd' : d ∈ A :: rest := (hperm2 d).mp hd
    have := hbox d hd'
    by_cases hdA : d = A
    · subst hdA; rw [hwA]; simpa [box1, shS] using this
    · by_cases hdB : d = B
      · subst hdB
        rw [hwB]
        simp only [box1, shS, hdA, if_false, if_true, lenB] at this ⊢
        have hm := blockStart_mono nB p hp (show r + 1 ≤ p by omega)
        rw [blockStart_last' nB p hp] at hm
        omega
      · rw [hw_ne d hdB]; simpa [box1, shS, hdA, hdB] using this
  rw [hsrc q hq w hwbox]
  apply hG
  intro d _
  by_cases hdA : d = A
  · subst hdA; simp only [globS, globD, if_true, hwA, huA]; omega
  · by_cases hdB : d = B
    · subst hdB; simp only [globS, globD, hdA, if_false, if_true, hwB, hu_ne _ hdA]
    · simp only [globS, globD, hdA, hdB, if_false, hw_ne d hdB, hu_ne d hdA]
end Swap


end PygyroVerif.Addr
