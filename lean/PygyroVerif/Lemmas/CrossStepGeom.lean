/-
Bridge theorem of C03, part 3: the geometry of a swapper.

* `SwapperOK`: the decidable well-formedness the bridge needs (the constructor's choice of communicators succeeds, every
  `dims_order` is a permutation of the dimensions, no handler has more process axes than dimensions, every process count
  is ≥ 1).  NO relation between process counts and extents is required (ranks may own empty blocks).
* `locate`, `layoutOf`, the topology `S.topo h` of a handler inside the world (`TopoOK`).
* *slots*: position `i` of a layout of handler `h` is split over `slot.1` processes and this rank has coordinate
  `slot.2` there; in world terms this is (size, coordinate) of the world axis `commAxes[i]`, or `(1, 0)`.
* what the number of distributed directions (`nDistributed`, on which `_transpose` branches) has to do with the number
  of process axes (`len(nprocs)`, on which `_compatibleLayout` branches).
-/
import PygyroVerif.Lemmas.SwapperTraceMatch
import PygyroVerif.Lemmas.CrossStepBase
import Batteries.Data.List.Perm

namespace PygyroVerif.CS
open PygyroVerif PygyroVerif.Handler PygyroVerif.DS PygyroVerif.Swapper PygyroVerif.SwapperCompat
open PygyroVerif.SwapperTraceMatch

/-! ### well-formedness -/

/-- decidable well-formedness of the arguments of `LayoutSwapper(comm, layouts, nprocs, eta_grids, …)` -/
def SwapperOK (S : Swapper) : Prop :=
  (∀ h, h < S.nprocsRaw.length → (S.commAxes h).isSome = true) ∧
  (∀ g ∈ S.groups, ∀ l ∈ g, l.2.Perm (List.range S.ext.length)) ∧
  S.maxDims ≤ S.ext.length ∧
  (∀ p ∈ S.dims, 1 ≤ p)

instance (S : Swapper) : Decidable (SwapperOK S) := by unfold SwapperOK; infer_instance

theorem SwapperOK.comm {S : Swapper} (h : SwapperOK S) : CommOK S := commOK_of_lt S h.1

/-! ### `locate` -/

theorem locate_go_spec : ∀ (gs : List (List (String × List Nat))) (i k : Nat),
    k < (gs.flatMap (fun g => g.map (·.1))).length →
    i ≤ (Swapper.locate.go gs i k).1 ∧ (Swapper.locate.go gs i k).1 - i < gs.length ∧
    (Swapper.locate.go gs i k).2 < (gs.getD ((Swapper.locate.go gs i k).1 - i) []).length
  | [], _, _, h => by simp at h
  | g :: rest, i, k, h => by
    unfold Swapper.locate.go
    by_cases hk : k < g.length
    · rw [if_pos hk]
      simp only [Nat.sub_self, List.getD_cons_zero, List.length_cons]
      exact ⟨Nat.le_refl _, Nat.succ_pos _, hk⟩
    · rw [if_neg hk]
      have h' : k - g.length < (rest.flatMap (fun g => g.map (·.1))).length := by
        simp only [List.flatMap_cons, List.length_append, List.length_map] at h
        omega
      obtain ⟨h1, h2, h3⟩ := locate_go_spec rest (i + 1) (k - g.length) h'
      refine ⟨by omega, by simp only [List.length_cons]; omega, ?_⟩
      have : (Swapper.locate.go rest (i + 1) (k - g.length)).1 - i =
          ((Swapper.locate.go rest (i + 1) (k - g.length)).1 - (i + 1)) + 1 := by omega
      rw [this, List.getD_cons_succ]
      exact h3

theorem locate_spec (S : Swapper) (k : Nat) (hk : k < S.allNames.length) :
    (S.locate k).1 < S.groups.length ∧ (S.locate k).2 < (S.groups.getD (S.locate k).1 []).length := by
  have := locate_go_spec S.groups 0 k hk
  exact ⟨this.2.1, this.2.2⟩

theorem layoutOf_eq (S : Swapper) (k : Nat) :
    S.layoutOf k = Layout.make (S.handlerNprocs (S.locate k).1) ((S.ordersOf (S.locate k).1).getD (S.locate k).2 []) S.ext :=
  rfl

/-- the `dims_order` of an existing layout is a permutation of the dimensions -/
theorem layoutOf_ordOK (S : Swapper) (hS : SwapperOK S) (k : Nat) (hk : k < S.allNames.length) :
    OrdOK (S.layoutOf k).ord ∧ (S.layoutOf k).ord.length = S.ext.length := by
  obtain ⟨h1, h2⟩ := locate_spec S k hk
  rw [layoutOf_ord]
  unfold Swapper.ordersOf
  set i := (S.locate k).1
  set j := (S.locate k).2
  have hg : S.groups.getD i [] ∈ S.groups := getD_mem' S.groups i h1
  have hj : j < ((S.groups.getD i []).map (·.2)).length := by rw [List.length_map]; exact h2
  have hl : ((S.groups.getD i []).map (·.2)).getD j [] = ((S.groups.getD i [])[j]'h2).2 := by
    rw [List.getD_eq_getElem?_getD, List.getElem?_eq_getElem hj, Option.getD_some, List.getElem_map]
  rw [hl]
  have hp := hS.2.1 _ hg _ (List.getElem_mem h2)
  have hlen : ((S.groups.getD i [])[j]'h2).2.length = S.ext.length := by rw [hp.length_eq, List.length_range]
  refine ⟨?_, hlen⟩
  unfold OrdOK
  rw [hlen]; exact hp
where
  getD_mem' {β : Type} [Inhabited β] (l : List (List β)) (i : Nat) (hi : i < l.length) : l.getD i [] ∈ l := by
    rw [List.getD_eq_getElem?_getD, List.getElem?_eq_getElem hi, Option.getD_some]; exact List.getElem_mem hi

/-! ### the topology of a handler inside the world -/

theorem handlerNprocs_length_le (S : Swapper) (h : Nat) : (S.handlerNprocs h).length ≤ S.maxDims := by
  unfold Swapper.handlerNprocs
  split
  · unfold Swapper.nprocsPadded
    rw [padTo_length]
    have := raw_length_le_maxDims S h
    omega
  · exact raw_length_le_maxDims S h

theorem dims_pos (S : Swapper) (hS : SwapperOK S) (a : Nat) : 0 < S.dims.getD a 1 := by
  by_cases ha : a < S.dims.length
  · rw [List.getD_eq_getElem?_getD, List.getElem?_eq_getElem ha, Option.getD_some]
    exact hS.2.2.2 _ (List.getElem_mem ha)
  · rw [List.getD_eq_getElem?_getD, List.getElem?_eq_none (by omega)]; exact Nat.one_pos

theorem map_set_nodup (axes : List Nat) (hnd : axes.Nodup) (wc : List Nat) (a q : Nat) (ha : a < axes.length) :
    axes.map (fun x => (wc.set (axes.getD a 0) q).getD x 0) = (axes.map (fun x => wc.getD x 0)).set a q ∨
    ¬ axes.getD a 0 < wc.length := by
  by_cases hw : axes.getD a 0 < wc.length
  · left
    apply List.ext_getElem (by simp)
    intro i h1 h2
    have hi : i < axes.length := by simpa using h1
    simp only [List.getElem_map, List.getElem_set]
    by_cases hia : a = i
    · subst hia
      rw [if_pos rfl]
      have e : axes[a] = axes.getD a 0 := (getD_lt axes a ha 0).symm
      rw [e]
      exact getD_set_eq wc _ q hw
    · rw [if_neg hia]
      have hne : axes[i] ≠ axes.getD a 0 := by
        rw [getD_lt axes a ha 0]
        intro e
        exact hia ((List.Nodup.getElem_inj_iff hnd).1 e).symm
      exact getD_set_ne wc _ q _ hne
  · right; exact hw

/-- the sub-communicators the constructor hands to handler `h` form a well-formed topology for its `nprocs` -/
theorem topo_ok (S : Swapper) (h : Nat) (axes : List Nat) (hc : S.commAxes h = some axes) :
    TopoOK (S.topo h) (S.handlerNprocs h) := by
  have hok := axesOK_of_commAxes S h axes hc
  have hset : ∀ r, r < prodL S.dims → ∀ a, a < (S.handlerNprocs h).length → ∀ q, q < (S.handlerNprocs h).getD a 1 →
      CoordsOK S.dims ((coordsOf S.dims r).set (axes.getD a 0) q) := by
    intro r hr a ha q hq
    have ha' : a < axes.length := by rw [hok.len]; exact ha
    apply coordsOK_set S.dims _ (coordsOf_ok S.dims r hr) _ q (hok.lt _ (getD_mem axes a 0 ha'))
    rw [← hok.procs a ha']; exact hq
  refine ⟨fun r hr => topo_coords_ok S h axes hc r hr, ?_, ?_⟩
  · intro r hr a ha q hq
    show rankOf S.dims ((coordsOf S.dims r).set (((S.commAxes h).getD []).getD a 0) q) < prodL S.dims
    rw [hc, Option.getD_some]
    exact (coordsOf_rankOf S.dims _ (hset r hr a ha q hq)).1
  · intro r hr a ha q hq
    have ha' : a < axes.length := by rw [hok.len]; exact ha
    show (S.topo h).coords (rankOf S.dims ((coordsOf S.dims r).set (((S.commAxes h).getD []).getD a 0) q)) = _
    rw [topo_coords, topo_coords, hc, Option.getD_some, (coordsOf_rankOf S.dims _ (hset r hr a ha q hq)).2]
    rcases map_set_nodup axes hok.nodup (coordsOf S.dims r) a q ha' with h1 | h1
    · exact h1
    · exfalso; apply h1
      rw [coordsOf_length]
      exact hok.lt _ (getD_mem axes a 0 ha')

/-! ### slots -/

/-- position `i` of a layout with process counts `np` on the rank with coordinates `c`: (number of processes, own
    coordinate) -/
def slot (np c : List Nat) (i : Nat) : Nat × Nat := (np.getD i 1, c.getD i 0)

/-- the same read off the world: world axis `axes[i]` (size, coordinate of the rank), or `(1, 0)` beyond the handler's axes -/
def slotW (dims wc axes : List Nat) (i : Nat) : Nat × Nat :=
  if i < axes.length then (dims.getD (axes.getD i 0) 1, wc.getD (axes.getD i 0) 0) else (1, 0)

theorem slot_topo (S : Swapper) (h : Nat) (axes : List Nat) (hc : S.commAxes h = some axes) (r i : Nat) :
    slot (S.handlerNprocs h) ((S.topo h).coords r) i = slotW S.dims (coordsOf S.dims r) axes i := by
  have hok := axesOK_of_commAxes S h axes hc
  unfold slot slotW
  rw [topo_coords, hc, Option.getD_some]
  by_cases hi : i < axes.length
  · rw [if_pos hi, hok.procs i hi, map_getD _ _ _ hi]
  · rw [if_neg hi, map_getD_ge _ _ _ hi, List.getD_eq_getElem?_getD, List.getElem?_eq_none (by rw [← hok.len]; omega)]
    rfl

theorem slotW_one (dims wc axes : List Nat) (hwc : CoordsOK dims wc) (hlt : ∀ x ∈ axes, x < dims.length) (i : Nat)
    (hi : i < axes.length) (h1 : dims.getD (axes.getD i 0) 1 = 1) : slotW dims wc axes i = (1, 0) := by
  unfold slotW
  rw [if_pos hi, h1]
  have := hwc.2 _ (hlt _ (getD_mem axes i 0 hi))
  rw [h1] at this
  congr 1; omega

/-- equal slots give equal local extent and start -/
theorem same_of_slot (npS npD oS oD ext cS cD : List Nat) (d : Nat) (hdS : d ∈ oS) (hdD : d ∈ oD)
    (h : slot npS cS (oS.idxOf d) = slot npD cD (oD.idxOf d)) :
    lenD (Layout.make npS oS ext) cS d = lenD (Layout.make npD oD ext) cD d ∧
    startD (Layout.make npS oS ext) cS d = startD (Layout.make npD oD ext) cD d := by
  unfold slot at h
  obtain ⟨h1, h2⟩ := Prod.mk.inj h
  rw [lenD_make npS oS ext cS d hdS, lenD_make npD oD ext cD d hdD, startD_make npS oS ext cS d hdS,
    startD_make npD oD ext cD d hdD, h1, h2]
  exact ⟨rfl, rfl⟩

/-- a slot with a single process holds the dimension whole -/
theorem whole_of_slot (np o ext c : List Nat) (d : Nat) (hd : d ∈ o) (h : slot np c (o.idxOf d) = (1, 0)) :
    lenD (Layout.make np o ext) c d = ext.getD d 0 ∧ startD (Layout.make np o ext) c d = 0 := by
  unfold slot at h
  obtain ⟨h1, h2⟩ := Prod.mk.inj h
  rw [lenD_make np o ext c d hd, startD_make np o ext c d hd, h1, h2]
  simp [blockStart_one]

/-! ### lists without repetition -/

theorem idxOf_getD (l : List Nat) (hnd : l.Nodup) (k : Nat) (hk : k < l.length) : l.idxOf (l.getD k 0) = k := by
  rw [getD_lt l k hk 0]; exact hnd.idxOf_getElem k hk

theorem getD_inj (l : List Nat) (hnd : l.Nodup) (i j : Nat) (hi : i < l.length) (hj : j < l.length)
    (h : l.getD i 0 = l.getD j 0) : i = j := by
  rw [getD_lt l i hi 0, getD_lt l j hj 0] at h
  exact (List.Nodup.getElem_inj_iff hnd).1 h

theorem idxOf_lt (l : List Nat) (d : Nat) (hd : d ∈ l) : l.idxOf d < l.length := List.idxOf_lt_length_iff.mpr hd

/-! ### numbers of distributed directions -/

theorem nprocs_eq_map (S : Swapper) (h : Nat) (axes : List Nat) (hok : AxesOK S h axes) :
    S.handlerNprocs h = axes.map (fun a => S.dims.getD a 1) := by
  apply List.ext_getElem (by rw [List.length_map]; exact hok.len.symm)
  intro i h1 h2
  have hi : i < axes.length := by simpa using h2
  have := hok.procs i hi
  rw [getD_lt _ i h1 1, getD_lt axes i hi 0] at this
  rw [this, List.getElem_map]

theorem nDistributed_perm (l1 l2 : List Nat) (hp : l1.Perm l2) : nDistributed l1 = nDistributed l2 := by
  unfold nDistributed; rw [hp.length_eq, hp.count_eq]

theorem nDistributed_cons (x : Nat) (l : List Nat) :
    nDistributed (x :: l) = nDistributed l + (if x = 1 then 0 else 1) := by
  unfold nDistributed
  have hc := List.count_le_length (a := 1) (l := l)
  by_cases hx : x = 1
  · subst hx; simp only [List.length_cons, List.count_cons_self, if_true]; omega
  · rw [List.count_cons_of_ne hx, if_neg hx, List.length_cons]; omega

end PygyroVerif.CS
