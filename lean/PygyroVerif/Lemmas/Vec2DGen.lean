/-
Loop lemmas for Props/C07Gen7.lean: the GENERATED `nu_eval_spline_2d_vector` / `cu_eval_spline_2d_vector` (Generated/Vec2DGen.lean, regenerated from
pygyro/splines/spline_eval_funcs.py and cubic_uniform_spline_eval_funcs.py on every run of `./check C07`).

The source has FOUR copies of the same three nested loops (one per `(der1, der2)` branch), differing only in the basis kernels that are called.  As in
Lemmas/Cross2DGen.lean the lemmas are stated once, for ANY three functions `P J K : ℕ → ℕ → St → Res St` that satisfy the recursion equations of the generated
loops (`IsK…`, `IsJ…`: the equations, copied from the generated file; `IsP…`: one iteration of the loop over the points on the path on which no callee raises, with the
two kernel calls abstracted as `krun1/kget1`, `krun2/kget2`); Props/C07Gen7.lean instantiates them with the 2 × 12 generated loops by unfolding each generated definition.

  * `k_loop_eq…`  `for k in range(1, deg2+1): theCoeffs[j, 0] += theCoeffs[j, k]*basis2[k]`
  * `j_loop_eq…`  `for j in range(deg1+1):` … `z[i] += theCoeffs[j, 0]*basis1[j]`: `z[i]` grows by the double sum over the block as it was before the loop
  * `p_loop_eq…`  the loop over the points: two span searches, two kernels, slice copy (numpy's shape check), `z[i] = 0.0`, contraction
-/
import PygyroVerif.Generated.Vec2DGen
import PygyroVerif.Lemmas.Cross2DGen

namespace PygyroVerif.Vec2DGen
open PygyroVerif PygyroVerif.BSpline PygyroVerif.C07Gen5 PygyroVerif.Cross2DGen

/-- `z[i] = v` -/
def set1 (Z : ℕ → ℚ) (i : ℕ) (v : ℚ) : ℕ → ℚ := fun a => if a = i then v else Z a

theorem set1_self (Z : ℕ → ℚ) (i : ℕ) (v : ℚ) : set1 Z i v i = v := if_pos rfl
theorem set1_other (Z : ℕ → ℚ) (i : ℕ) (v : ℚ) (a : ℕ) (h : a ≠ i) : set1 Z i v a = Z a := if_neg h
theorem set1_set1 (Z : ℕ → ℚ) (i : ℕ) (v w : ℚ) : set1 (set1 Z i v) i w = set1 Z i w := by
  funext a
  unfold set1
  by_cases h : a = i
  · rw [if_pos h, if_pos h]
  · rw [if_neg h, if_neg h, if_neg h]

/-! ## `nu_eval_spline_2d_vector` -/
section Nu
open PygyroVerif.Gen.BasisFuns PygyroVerif.Gen.EvalSpline PygyroVerif.Gen.Vec2DNu
open PygyroVerif.Gen.Vec2DNu.nu_eval_spline_2d_vector_

abbrev LoopN := ℕ → ℕ → St → Res St

/-- body of the loop over the columns (copied from the generated file) -/
def kBodyN (σ : St) (i : ℕ) : St :=
  let σ : St := { σ with k := i }
  { σ with theCoeffs := fun k_ l_ => if k_ = σ.j ∧ l_ = (0 : Nat) then ((σ.theCoeffs σ.j (0 : Nat)) + ((σ.theCoeffs σ.j σ.k) * (σ.basis2 σ.k))) else σ.theCoeffs k_ l_ }

structure IsKN (K : LoopN) : Prop where
  zero : ∀ i σ, K 0 i σ = .ok σ
  succ : ∀ n i σ, K (n + 1) i σ = K n (i + 1) (kBodyN σ i)

theorem k_loop_eq_nu {K : LoopN} (hK : IsKN K) : ∀ (n j0 : ℕ) (σ : St), 1 ≤ j0 →
    ∃ J, K n j0 σ = .ok { σ with k := J, theCoeffs := setCol0 σ.theCoeffs σ.j (σ.theCoeffs σ.j 0 + prodSum σ.theCoeffs σ.basis2 σ.j j0 n) } := by
  intro n
  induction n with
  | zero =>
    intro j0 σ _
    refine ⟨σ.k, ?_⟩
    rw [hK.zero]
    have h : setCol0 σ.theCoeffs σ.j (σ.theCoeffs σ.j 0 + prodSum σ.theCoeffs σ.basis2 σ.j j0 0) = σ.theCoeffs := by
      funext a b
      unfold setCol0
      by_cases h : a = σ.j ∧ b = 0
      · rw [if_pos h, h.1, h.2]; simp [prodSum]
      · rw [if_neg h]
    rw [h]
  | succ n ih =>
    intro j0 σ hj
    obtain ⟨J, hrun⟩ := ih (j0 + 1) (kBodyN σ j0) (by omega)
    refine ⟨J, ?_⟩
    rw [hK.succ, hrun]
    congr 1
    show ({ σ with k := J, theCoeffs := setCol0 (kBodyN σ j0).theCoeffs σ.j ((kBodyN σ j0).theCoeffs σ.j 0 + prodSum (kBodyN σ j0).theCoeffs σ.basis2 σ.j (j0 + 1) n) } : St) = _
    congr 1
    have h0 : (kBodyN σ j0).theCoeffs σ.j 0 = σ.theCoeffs σ.j 0 + σ.theCoeffs σ.j j0 * σ.basis2 j0 := setCol0_self _ _ _
    have hrd : ∀ m, (kBodyN σ j0).theCoeffs σ.j (j0 + 1 + m) = σ.theCoeffs σ.j (j0 + 1 + m) := fun m => setCol0_col _ _ _ _ _ (by omega)
    show setCol0 (setCol0 σ.theCoeffs σ.j _) σ.j _ = _
    unfold prodSum
    rw [setCol0_setCol0, h0, List.range_succ_eq_map]
    simp only [List.map_cons, List.sum_cons, List.map_map, Nat.add_zero, hrd]
    congr 1
    have : ((fun m => σ.theCoeffs σ.j (j0 + m) * σ.basis2 (j0 + m)) ∘ Nat.succ)
        = (fun m => σ.theCoeffs σ.j (j0 + 1 + m) * σ.basis2 (j0 + 1 + m)) := by
      funext m
      simp only [Function.comp, Nat.succ_eq_add_one]
      rw [show j0 + (m + 1) = j0 + 1 + m by omega]
    rw [this]
    ring

/-- the loop over the rows: the statements before the inner loop … -/
def jPreN (σ : St) (i : ℕ) : St :=
  let σ : St := { σ with j := i }
  { σ with theCoeffs := fun k_ l_ => if k_ = σ.j ∧ l_ = (0 : Nat) then ((σ.theCoeffs σ.j (0 : Nat)) * (σ.basis2 (0 : Nat))) else σ.theCoeffs k_ l_ }
/-- … and after it -/
def jPostN (σ : St) : St :=
  { σ with z := fun k_ => if k_ = σ.i then ((σ.z σ.i) + ((σ.theCoeffs σ.j (0 : Nat)) * (σ.basis1 σ.j))) else σ.z k_ }

structure IsJN (J K : LoopN) : Prop where
  zero : ∀ i σ, J 0 i σ = .ok σ
  succ : ∀ n i σ, J (n + 1) i σ =
    match K (((jPreN σ i).deg2 + (1 : Nat)) - (1 : Nat)) (1 : Nat) (jPreN σ i) with
    | .ok σ => J n (i + 1) (jPostN σ)
    | .done o => .done o

theorem j_loop_eq_nu {J K : LoopN} (hJ : IsJN J K) (hK : IsKN K) : ∀ (n i0 : ℕ) (σ : St),
    ∃ J' K' T', J n i0 σ = .ok { σ with j := J', k := K', theCoeffs := T', z := (set1 σ.z σ.i
      (σ.z σ.i + ((List.range n).map (fun m => rowDot σ.theCoeffs σ.basis2 (i0 + m) (σ.deg2 + 1) * σ.basis1 (i0 + m))).sum)) } := by
  intro n
  induction n with
  | zero =>
    intro i0 σ
    refine ⟨σ.j, σ.k, σ.theCoeffs, ?_⟩
    rw [hJ.zero]
    have h : set1 σ.z σ.i (σ.z σ.i + ((List.range 0).map (fun m => rowDot σ.theCoeffs σ.basis2 (i0 + m) (σ.deg2 + 1) * σ.basis1 (i0 + m))).sum) = σ.z := by
      funext a
      unfold set1
      by_cases h : a = σ.i
      · rw [if_pos h, h]; simp
      · rw [if_neg h]
    rw [h]
  | succ n ih =>
    intro i0 σ
    obtain ⟨Kf, hin⟩ := k_loop_eq_nu hK ((σ.deg2 + 1) - 1) 1 (jPreN σ i0) (le_refl 1)
    let T2 : ℕ → ℕ → ℚ := setCol0 (jPreN σ i0).theCoeffs i0 ((jPreN σ i0).theCoeffs i0 0 + prodSum (jPreN σ i0).theCoeffs σ.basis2 i0 1 ((σ.deg2 + 1) - 1))
    let σ2 : St := { σ with j := i0, k := Kf, theCoeffs := T2, z := set1 σ.z σ.i (σ.z σ.i + T2 i0 0 * σ.basis1 i0) }
    obtain ⟨J', K', T', hrun⟩ := ih (i0 + 1) σ2
    refine ⟨J', K', T', ?_⟩
    rw [hJ.succ]
    have hin' : K (((jPreN σ i0).deg2 + 1) - 1) 1 (jPreN σ i0) = .ok { jPreN σ i0 with k := Kf, theCoeffs := T2 } := hin
    rw [hin']
    show J n (i0 + 1) σ2 = _
    rw [hrun]
    congr 1
    show ({ σ with j := J', k := K', theCoeffs := T', z := set1 (set1 σ.z σ.i _) σ.i (set1 σ.z σ.i _ σ.i + _) } : St) = _
    congr 1
    rw [set1_set1, set1_self]
    congr 1
    rw [List.range_succ_eq_map]
    simp only [List.map_cons, List.sum_cons, List.map_map, Nat.add_zero]
    have hT2 : T2 i0 0 = rowDot σ.theCoeffs σ.basis2 i0 (σ.deg2 + 1) := by
      show setCol0 _ i0 _ i0 0 = _
      rw [setCol0_self]
      have h0 : (jPreN σ i0).theCoeffs i0 0 = σ.theCoeffs i0 0 * σ.basis2 0 := setCol0_self _ _ _
      have hps : prodSum (jPreN σ i0).theCoeffs σ.basis2 i0 1 ((σ.deg2 + 1) - 1) = prodSum σ.theCoeffs σ.basis2 i0 1 ((σ.deg2 + 1) - 1) := by
        unfold prodSum
        congr 1
        apply List.map_congr_left
        intro m _
        rw [show (jPreN σ i0).theCoeffs i0 (1 + m) = σ.theCoeffs i0 (1 + m) from setCol0_col _ _ _ _ _ (by omega)]
      rw [h0, hps]
      rw [Nat.add_sub_cancel, rowDot_succ]
    have hrows : ∀ m, rowDot T2 σ.basis2 (i0 + 1 + m) (σ.deg2 + 1) = rowDot σ.theCoeffs σ.basis2 (i0 + (m + 1)) (σ.deg2 + 1) := by
      intro m
      rw [show i0 + 1 + m = i0 + (m + 1) by omega]
      apply rowDot_congr
      intro j _
      show setCol0 (setCol0 σ.theCoeffs i0 _) i0 _ (i0 + (m + 1)) j = _
      rw [setCol0_row _ _ _ _ _ (by omega), setCol0_row _ _ _ _ _ (by omega)]
    show σ.z σ.i + T2 i0 0 * σ.basis1 i0 + ((List.range n).map (fun m => rowDot T2 σ.basis2 (i0 + 1 + m) (σ.deg2 + 1) * σ.basis1 (i0 + 1 + m))).sum = _
    rw [hT2]
    have : ((fun m => rowDot σ.theCoeffs σ.basis2 (i0 + m) (σ.deg2 + 1) * σ.basis1 (i0 + m)) ∘ Nat.succ)
        = (fun m => rowDot T2 σ.basis2 (i0 + 1 + m) (σ.deg2 + 1) * σ.basis1 (i0 + 1 + m)) := by
      funext m
      simp only [Function.comp, Nat.succ_eq_add_one]
      rw [hrows m, show i0 + 1 + m = i0 + (m + 1) by omega]
    rw [this]
    ring

variable (U : ℕ → ℚ) (F : ℕ)

/-- one iteration of a loop `for i in range(len(x))` of the generated file on the path on which nothing raises: two span searches, the two basis kernels
    (abstracted), numpy's shape check of `theCoeffs[:, :] = coeffs[span1-deg1:span1+1, span2-deg2:span2+1]`, the copy, `z[i] = 0.0`, the loop over the rows -/
structure IsPN {KS1 KS2 : Type} (krun1 : St → Out KS1) (kget1 : KS1 → ℕ → ℚ) (krun2 : St → Out KS2) (kget2 : KS2 → ℕ → ℚ) (P J : LoopN) : Prop where
  zero : ∀ i σ, P 0 i σ = .ok σ
  step : ∀ n i σ τ1 τ2 β1 β2 σ', nu_find_span_.run U F σ.kts1 σ.kts1_len σ.deg1 (σ.x i) = .ret τ1 →
    nu_find_span_.run U F σ.kts2 σ.kts2_len σ.deg2 (σ.y i) = .ret τ2 →
    krun1 { σ with i := i, span1 := τ1.ret_, span2 := τ2.ret_ } = .ret β1 →
    krun2 { σ with i := i, span1 := τ1.ret_, span2 := τ2.ret_, basis1 := kget1 β1 } = .ret β2 →
    ((τ1.ret_ + 1 - (τ1.ret_ - σ.deg1) = σ.theCoeffs_len0 ∨ τ1.ret_ + 1 - (τ1.ret_ - σ.deg1) = 1) ∧
      (τ2.ret_ + 1 - (τ2.ret_ - σ.deg2) = σ.theCoeffs_len1 ∨ τ2.ret_ + 1 - (τ2.ret_ - σ.deg2) = 1)) →
    J (σ.deg1 + 1 - 0) 0 { σ with i := i, span1 := τ1.ret_, span2 := τ2.ret_, basis1 := kget1 β1, basis2 := kget2 β2, theCoeffs := (fun k_ l_ => if k_ < σ.theCoeffs_len0 ∧ l_ < σ.theCoeffs_len1 then σ.coeffs ((τ1.ret_ - σ.deg1) + (if τ1.ret_ + 1 - (τ1.ret_ - σ.deg1) = 1 then 0 else k_)) ((τ2.ret_ - σ.deg2) + (if τ2.ret_ + 1 - (τ2.ret_ - σ.deg2) = 1 then 0 else l_)) else σ.theCoeffs k_ l_), z := (fun k_ => if k_ = i then (0 : Rat) else σ.z k_) } = .ok σ' →
    P (n + 1) i σ = P n (i + 1) σ'

/-- the value `z[a]` receives: the double sum over the block of `coeffs` whose corner is `(s1 a - deg1, s2 a - deg2)` with the model's basis values / derivatives -/
def ptVal (σ : St) (der1 der2 : Bool) (s1 s2 : ℕ → ℕ) (a : ℕ) : ℚ :=
  blockSum σ.coeffs (s1 a - σ.deg1) (s2 a - σ.deg2) σ.deg1 σ.deg2 (fun m => (basisOrDer σ.kts1 σ.deg1 (σ.x a) (s1 a) der1).getD m 0)
    (fun m => (basisOrDer σ.kts2 σ.deg2 (σ.y a) (s2 a) der2).getD m 0)

/-- the loop over the points started at `i0` with `n` iterations left: whenever the span searches return `s1 a ≥ deg1`, `s2 a ≥ deg2` at the points
    `(x[a], y[a])`, `i0 ≤ a < i0+n`, the loop ends normally, `z[a]` is `ptVal` for those `a`, and every other entry of `z` is what it was — whatever the
    three shared work arrays hold on entry -/
theorem p_loop_eq_nu {KS1 KS2 : Type} {krun1 : St → Out KS1} {kget1 : KS1 → ℕ → ℚ} {krun2 : St → Out KS2} {kget2 : KS2 → ℕ → ℚ} {P J K : LoopN}
    (hP : IsPN U F krun1 kget1 krun2 kget2 P J) (hJ : IsJN J K) (hK : IsKN K) (der1 der2 : Bool) (s1 s2 : ℕ → ℕ)
    (hk1 : ∀ σ' : St, ∃ β, krun1 σ' = .ret β ∧ ∀ m, m ≤ σ'.deg1 → kget1 β m = (basisOrDer σ'.kts1 σ'.deg1 (σ'.x σ'.i) σ'.span1 der1).getD m 0)
    (hk2 : ∀ σ' : St, ∃ β, krun2 σ' = .ret β ∧ ∀ m, m ≤ σ'.deg2 → kget2 β m = (basisOrDer σ'.kts2 σ'.deg2 (σ'.y σ'.i) σ'.span2 der2).getD m 0) :
    ∀ (n i0 : ℕ) (σ : St), σ.theCoeffs_len0 = σ.deg1 + 1 → σ.theCoeffs_len1 = σ.deg2 + 1 →
    (∀ a, i0 ≤ a → a < i0 + n → ∃ τ, nu_find_span_.run U F σ.kts1 σ.kts1_len σ.deg1 (σ.x a) = .ret τ ∧ τ.ret_ = s1 a ∧ σ.deg1 ≤ s1 a) →
    (∀ a, i0 ≤ a → a < i0 + n → ∃ τ, nu_find_span_.run U F σ.kts2 σ.kts2_len σ.deg2 (σ.y a) = .ret τ ∧ τ.ret_ = s2 a ∧ σ.deg2 ≤ s2 a) →
    ∃ σ', P n i0 σ = .ok σ' ∧
      ∀ a, σ'.z a = if i0 ≤ a ∧ a < i0 + n then ptVal σ der1 der2 s1 s2 a else σ.z a := by
  intro n
  induction n with
  | zero =>
    intro i0 σ _ _ _ _
    exact ⟨σ, hP.zero i0 σ, fun a => by rw [if_neg (by omega)]⟩
  | succ n ih =>
    intro i0 σ hl0 hl1 hfs1 hfs2
    obtain ⟨τ1, hτ1, hs1, hd1⟩ := hfs1 i0 (le_refl i0) (by omega)
    obtain ⟨τ2, hτ2, hs2, hd2⟩ := hfs2 i0 (le_refl i0) (by omega)
    obtain ⟨β1, hβ1, hval1⟩ := hk1 { σ with i := i0, span1 := τ1.ret_, span2 := τ2.ret_ }
    obtain ⟨β2, hβ2, hval2⟩ := hk2 { σ with i := i0, span1 := τ1.ret_, span2 := τ2.ret_, basis1 := kget1 β1 }
    let Tc : ℕ → ℕ → ℚ := fun k_ l_ => if k_ < σ.theCoeffs_len0 ∧ l_ < σ.theCoeffs_len1 then σ.coeffs ((τ1.ret_ - σ.deg1) + (if τ1.ret_ + 1 - (τ1.ret_ - σ.deg1) = 1 then 0 else k_)) ((τ2.ret_ - σ.deg2) + (if τ2.ret_ + 1 - (τ2.ret_ - σ.deg2) = 1 then 0 else l_)) else σ.theCoeffs k_ l_
    let σc : St := { σ with i := i0, span1 := τ1.ret_, span2 := τ2.ret_, basis1 := kget1 β1, basis2 := kget2 β2, theCoeffs := Tc, z := set1 σ.z i0 0 }
    obtain ⟨J', K', T', hjl⟩ := j_loop_eq_nu hJ hK (σ.deg1 + 1 - 0) 0 σc
    let v : ℚ := (0 : ℚ) + ((List.range (σ.deg1 + 1 - 0)).map (fun m => rowDot Tc (kget2 β2) (0 + m) (σ.deg2 + 1) * kget1 β1 (0 + m))).sum
    let σd : St := { σc with j := J', k := K', theCoeffs := T', z := set1 σ.z i0 v }
    have hjl' : J (σ.deg1 + 1 - 0) 0 σc = .ok σd := by
      rw [hjl]
      congr 1
      show ({ σc with j := J', k := K', theCoeffs := T', z := set1 (set1 σ.z i0 0) i0 (set1 σ.z i0 0 i0 + _) } : St) = _
      rw [set1_set1, set1_self]
    obtain ⟨σ', hrun, hz⟩ := ih (i0 + 1) σd hl0 hl1 (fun a h1 h2 => hfs1 a (by omega) (by omega)) (fun a h1 h2 => hfs2 a (by omega) (by omega))
    have hc : ((τ1.ret_ + 1 - (τ1.ret_ - σ.deg1) = σ.theCoeffs_len0 ∨ τ1.ret_ + 1 - (τ1.ret_ - σ.deg1) = 1) ∧
        (τ2.ret_ + 1 - (τ2.ret_ - σ.deg2) = σ.theCoeffs_len1 ∨ τ2.ret_ + 1 - (τ2.ret_ - σ.deg2) = 1)) := by
      rw [hs1, hs2]; exact ⟨Or.inl (by omega), Or.inl (by omega)⟩
    have hstep : P (n + 1) i0 σ = P n (i0 + 1) σd := hP.step n i0 σ τ1 τ2 β1 β2 σd hτ1 hτ2 hβ1 hβ2 hc hjl'
    refine ⟨σ', by rw [hstep, hrun], fun a => ?_⟩
    rw [hz a]
    show (if i0 + 1 ≤ a ∧ a < i0 + 1 + n then ptVal σ der1 der2 s1 s2 a else set1 σ.z i0 v a) = _
    by_cases h1 : i0 + 1 ≤ a ∧ a < i0 + 1 + n
    · rw [if_pos h1, if_pos ⟨by omega, by omega⟩]
    · rw [if_neg h1]
      by_cases h2 : a = i0
      · rw [if_pos ⟨by omega, by omega⟩, h2, set1_self]
        show (0 : ℚ) + _ = _
        rw [zero_add, Nat.sub_zero]
        have := slice_sum σ.coeffs σ.theCoeffs τ1.ret_ σ.deg1 τ2.ret_ σ.deg2 σ.theCoeffs_len0 σ.theCoeffs_len1 (kget1 β1) (kget2 β2) (by omega) (by omega) hl0 hl1
        rw [this]
        unfold ptVal
        rw [hs1, hs2]
        exact blockSum_congr _ _ _ _ _ _ _ _ _ (fun m hm => by rw [hval1 m hm, hs1]) (fun m hm => by rw [hval2 m hm, hs2])
      · rw [set1_other _ _ _ _ h2, if_neg (by omega)]

end Nu

/-! ## `cu_eval_spline_2d_vector` -/
section Cu
open PygyroVerif.CubicUniform PygyroVerif.Gen.CubicUniform PygyroVerif.Gen.Vec2DCu
open PygyroVerif.Gen.Vec2DCu.cu_eval_spline_2d_vector_

abbrev LoopC := ℕ → ℕ → St → Res St

/-- body of the loop over the columns (copied from the generated file) -/
def kBodyC (σ : St) (i : ℕ) : St :=
  let σ : St := { σ with k := i }
  { σ with theCoeffs := fun k_ l_ => if k_ = σ.j ∧ l_ = (0 : Nat) then ((σ.theCoeffs σ.j (0 : Nat)) + ((σ.theCoeffs σ.j σ.k) * (σ.basis2 σ.k))) else σ.theCoeffs k_ l_ }

structure IsKC (K : LoopC) : Prop where
  zero : ∀ i σ, K 0 i σ = .ok σ
  succ : ∀ n i σ, K (n + 1) i σ = K n (i + 1) (kBodyC σ i)

theorem k_loop_eq_cu {K : LoopC} (hK : IsKC K) : ∀ (n j0 : ℕ) (σ : St), 1 ≤ j0 →
    ∃ J, K n j0 σ = .ok { σ with k := J, theCoeffs := setCol0 σ.theCoeffs σ.j (σ.theCoeffs σ.j 0 + prodSum σ.theCoeffs σ.basis2 σ.j j0 n) } := by
  intro n
  induction n with
  | zero =>
    intro j0 σ _
    refine ⟨σ.k, ?_⟩
    rw [hK.zero]
    have h : setCol0 σ.theCoeffs σ.j (σ.theCoeffs σ.j 0 + prodSum σ.theCoeffs σ.basis2 σ.j j0 0) = σ.theCoeffs := by
      funext a b
      unfold setCol0
      by_cases h : a = σ.j ∧ b = 0
      · rw [if_pos h, h.1, h.2]; simp [prodSum]
      · rw [if_neg h]
    rw [h]
  | succ n ih =>
    intro j0 σ hj
    obtain ⟨J, hrun⟩ := ih (j0 + 1) (kBodyC σ j0) (by omega)
    refine ⟨J, ?_⟩
    rw [hK.succ, hrun]
    congr 1
    show ({ σ with k := J, theCoeffs := setCol0 (kBodyC σ j0).theCoeffs σ.j ((kBodyC σ j0).theCoeffs σ.j 0 + prodSum (kBodyC σ j0).theCoeffs σ.basis2 σ.j (j0 + 1) n) } : St) = _
    congr 1
    have h0 : (kBodyC σ j0).theCoeffs σ.j 0 = σ.theCoeffs σ.j 0 + σ.theCoeffs σ.j j0 * σ.basis2 j0 := setCol0_self _ _ _
    have hrd : ∀ m, (kBodyC σ j0).theCoeffs σ.j (j0 + 1 + m) = σ.theCoeffs σ.j (j0 + 1 + m) := fun m => setCol0_col _ _ _ _ _ (by omega)
    show setCol0 (setCol0 σ.theCoeffs σ.j _) σ.j _ = _
    unfold prodSum
    rw [setCol0_setCol0, h0, List.range_succ_eq_map]
    simp only [List.map_cons, List.sum_cons, List.map_map, Nat.add_zero, hrd]
    congr 1
    have : ((fun m => σ.theCoeffs σ.j (j0 + m) * σ.basis2 (j0 + m)) ∘ Nat.succ)
        = (fun m => σ.theCoeffs σ.j (j0 + 1 + m) * σ.basis2 (j0 + 1 + m)) := by
      funext m
      simp only [Function.comp, Nat.succ_eq_add_one]
      rw [show j0 + (m + 1) = j0 + 1 + m by omega]
    rw [this]
    ring

/-- the loop over the rows: the statements before the inner loop … -/
def jPreC (σ : St) (i : ℕ) : St :=
  let σ : St := { σ with j := i }
  { σ with theCoeffs := fun k_ l_ => if k_ = σ.j ∧ l_ = (0 : Nat) then ((σ.theCoeffs σ.j (0 : Nat)) * (σ.basis2 (0 : Nat))) else σ.theCoeffs k_ l_ }
/-- … and after it -/
def jPostC (σ : St) : St :=
  { σ with z := fun k_ => if k_ = σ.i then ((σ.z σ.i) + ((σ.theCoeffs σ.j (0 : Nat)) * (σ.basis1 σ.j))) else σ.z k_ }

structure IsJC (J K : LoopC) : Prop where
  zero : ∀ i σ, J 0 i σ = .ok σ
  succ : ∀ n i σ, J (n + 1) i σ =
    match K ((4 : Nat) - (1 : Nat)) (1 : Nat) (jPreC σ i) with
    | .ok σ => J n (i + 1) (jPostC σ)
    | .done o => .done o

theorem j_loop_eq_cu {J K : LoopC} (hJ : IsJC J K) (hK : IsKC K) : ∀ (n i0 : ℕ) (σ : St),
    ∃ J' K' T', J n i0 σ = .ok { σ with j := J', k := K', theCoeffs := T', z := (set1 σ.z σ.i
      (σ.z σ.i + ((List.range n).map (fun m => rowDot σ.theCoeffs σ.basis2 (i0 + m) 4 * σ.basis1 (i0 + m))).sum)) } := by
  intro n
  induction n with
  | zero =>
    intro i0 σ
    refine ⟨σ.j, σ.k, σ.theCoeffs, ?_⟩
    rw [hJ.zero]
    have h : set1 σ.z σ.i (σ.z σ.i + ((List.range 0).map (fun m => rowDot σ.theCoeffs σ.basis2 (i0 + m) 4 * σ.basis1 (i0 + m))).sum) = σ.z := by
      funext a
      unfold set1
      by_cases h : a = σ.i
      · rw [if_pos h, h]; simp
      · rw [if_neg h]
    rw [h]
  | succ n ih =>
    intro i0 σ
    obtain ⟨Kf, hin⟩ := k_loop_eq_cu hK (4 - 1) 1 (jPreC σ i0) (le_refl 1)
    let T2 : ℕ → ℕ → ℚ := setCol0 (jPreC σ i0).theCoeffs i0 ((jPreC σ i0).theCoeffs i0 0 + prodSum (jPreC σ i0).theCoeffs σ.basis2 i0 1 (4 - 1))
    let σ2 : St := { σ with j := i0, k := Kf, theCoeffs := T2, z := set1 σ.z σ.i (σ.z σ.i + T2 i0 0 * σ.basis1 i0) }
    obtain ⟨J', K', T', hrun⟩ := ih (i0 + 1) σ2
    refine ⟨J', K', T', ?_⟩
    rw [hJ.succ]
    have hin' : K (4 - 1) 1 (jPreC σ i0) = .ok { jPreC σ i0 with k := Kf, theCoeffs := T2 } := hin
    rw [hin']
    show J n (i0 + 1) σ2 = _
    rw [hrun]
    congr 1
    show ({ σ with j := J', k := K', theCoeffs := T', z := set1 (set1 σ.z σ.i _) σ.i (set1 σ.z σ.i _ σ.i + _) } : St) = _
    congr 1
    rw [set1_set1, set1_self]
    congr 1
    rw [List.range_succ_eq_map]
    simp only [List.map_cons, List.sum_cons, List.map_map, Nat.add_zero]
    have hT2 : T2 i0 0 = rowDot σ.theCoeffs σ.basis2 i0 4 := by
      show setCol0 _ i0 _ i0 0 = _
      rw [setCol0_self]
      have h0 : (jPreC σ i0).theCoeffs i0 0 = σ.theCoeffs i0 0 * σ.basis2 0 := setCol0_self _ _ _
      have hps : prodSum (jPreC σ i0).theCoeffs σ.basis2 i0 1 (4 - 1) = prodSum σ.theCoeffs σ.basis2 i0 1 (4 - 1) := by
        unfold prodSum
        congr 1
        apply List.map_congr_left
        intro m _
        rw [show (jPreC σ i0).theCoeffs i0 (1 + m) = σ.theCoeffs i0 (1 + m) from setCol0_col _ _ _ _ _ (by omega)]
      rw [h0, hps]
      exact rowDot_succ _ _ _ 3
    have hrows : ∀ m, rowDot T2 σ.basis2 (i0 + 1 + m) 4 = rowDot σ.theCoeffs σ.basis2 (i0 + (m + 1)) 4 := by
      intro m
      rw [show i0 + 1 + m = i0 + (m + 1) by omega]
      apply rowDot_congr
      intro j _
      show setCol0 (setCol0 σ.theCoeffs i0 _) i0 _ (i0 + (m + 1)) j = _
      rw [setCol0_row _ _ _ _ _ (by omega), setCol0_row _ _ _ _ _ (by omega)]
    show σ.z σ.i + T2 i0 0 * σ.basis1 i0 + ((List.range n).map (fun m => rowDot T2 σ.basis2 (i0 + 1 + m) 4 * σ.basis1 (i0 + 1 + m))).sum = _
    rw [hT2]
    have : ((fun m => rowDot σ.theCoeffs σ.basis2 (i0 + m) 4 * σ.basis1 (i0 + m)) ∘ Nat.succ)
        = (fun m => rowDot T2 σ.basis2 (i0 + 1 + m) 4 * σ.basis1 (i0 + 1 + m)) := by
      funext m
      simp only [Function.comp, Nat.succ_eq_add_one]
      rw [hrows m, show i0 + 1 + m = i0 + (m + 1) by omega]
    rw [this]
    ring

variable (U : ℕ → ℚ) (F : ℕ)

/-- one iteration of a loop `for i, xi in enumerate(x)` of the generated file on the path on which nothing raises -/
structure IsPC {KS1 KS2 : Type} (krun1 : St → Out KS1) (kget1 : KS1 → ℕ → ℚ) (krun2 : St → Out KS2) (kget2 : KS2 → ℕ → ℚ) (P J : LoopC) : Prop where
  zero : ∀ i σ, P 0 i σ = .ok σ
  step : ∀ n i σ τ1 τ2 β1 β2 σ', cu_find_span_.run U F σ.xmin σ.xmax σ.dx (σ.x i) σ.ncells_x = .ret τ1 →
    cu_find_span_.run U F σ.ymin σ.ymax σ.dy (σ.y i) σ.ncells_y = .ret τ2 →
    krun1 { σ with i := i, xi := σ.x i, span1 := τ1.ret0_, offset1 := τ1.ret1_, span2 := τ2.ret0_, offset2 := τ2.ret1_ } = .ret β1 →
    krun2 { σ with i := i, xi := σ.x i, span1 := τ1.ret0_, offset1 := τ1.ret1_, span2 := τ2.ret0_, offset2 := τ2.ret1_, basis1 := kget1 β1 } = .ret β2 →
    ((Int.toNat (τ1.ret0_ + 1 - (τ1.ret0_ - σ.deg1)) = σ.theCoeffs_len0 ∨ Int.toNat (τ1.ret0_ + 1 - (τ1.ret0_ - σ.deg1)) = 1) ∧
      (Int.toNat (τ2.ret0_ + 1 - (τ2.ret0_ - σ.deg2)) = σ.theCoeffs_len1 ∨ Int.toNat (τ2.ret0_ + 1 - (τ2.ret0_ - σ.deg2)) = 1)) →
    J 4 0 { σ with i := i, xi := σ.x i, span1 := τ1.ret0_, offset1 := τ1.ret1_, span2 := τ2.ret0_, offset2 := τ2.ret1_, basis1 := kget1 β1, basis2 := kget2 β2, theCoeffs := (fun k_ l_ => if k_ < σ.theCoeffs_len0 ∧ l_ < σ.theCoeffs_len1 then σ.coeffs (Int.toNat (τ1.ret0_ - σ.deg1) + (if Int.toNat (τ1.ret0_ + 1 - (τ1.ret0_ - σ.deg1)) = 1 then 0 else k_)) (Int.toNat (τ2.ret0_ - σ.deg2) + (if Int.toNat (τ2.ret0_ + 1 - (τ2.ret0_ - σ.deg2)) = 1 then 0 else l_)) else σ.theCoeffs k_ l_), z := (fun k_ => if k_ = i then (0 : Rat) else σ.z k_) } = .ok σ' →
    P (n + 1) i σ = P n (i + 1) σ'

/-- the value `z[a]` receives: the model's `cuEvalSpline2D` (as a double sum, `cuEvalSpline2D_eq_blockSum`) at `(x[a], y[a])` -/
def ptValC (σ : St) (der1 der2 : Bool) (a : ℕ) : ℚ :=
  blockSum σ.coeffs ((cuFindSpan pyInt σ.xmin σ.dx (σ.x a) σ.ncells_x).1 - 3).toNat ((cuFindSpan pyInt σ.ymin σ.dy (σ.y a) σ.ncells_y).1 - 3).toNat 3 3
    (fun m => (cuBasisOrDer (cuFindSpan pyInt σ.xmin σ.dx (σ.x a) σ.ncells_x).2 σ.dx der1).getD m 0)
    (fun m => (cuBasisOrDer (cuFindSpan pyInt σ.ymin σ.dy (σ.y a) σ.ncells_y).2 σ.dy der2).getD m 0)

/-- the loop over the points started at `i0` with `n` iterations left (guard `deg1 = deg2 = 3`: numpy's shape check passes): the loop ends normally, `z[a]` is
    `ptValC` for `i0 ≤ a < i0+n`, and every other entry of `z` is what it was — whatever the three shared work arrays hold on entry -/
theorem p_loop_eq_cu {KS1 KS2 : Type} {krun1 : St → Out KS1} {kget1 : KS1 → ℕ → ℚ} {krun2 : St → Out KS2} {kget2 : KS2 → ℕ → ℚ} {P J K : LoopC}
    (hP : IsPC U F krun1 kget1 krun2 kget2 P J) (hJ : IsJC J K) (hK : IsKC K) (der1 der2 : Bool)
    (hk1 : ∀ σ' : St, ∃ β, krun1 σ' = .ret β ∧ (List.range 4).map (kget1 β) = cuBasisOrDer σ'.offset1 σ'.dx der1)
    (hk2 : ∀ σ' : St, ∃ β, krun2 σ' = .ret β ∧ (List.range 4).map (kget2 β) = cuBasisOrDer σ'.offset2 σ'.dy der2) :
    ∀ (n i0 : ℕ) (σ : St), σ.deg1 = 3 → σ.deg2 = 3 → σ.theCoeffs_len0 = 4 → σ.theCoeffs_len1 = 4 →
    ∃ σ', P n i0 σ = .ok σ' ∧
      ∀ a, σ'.z a = if i0 ≤ a ∧ a < i0 + n then ptValC σ der1 der2 a else σ.z a := by
  intro n
  induction n with
  | zero =>
    intro i0 σ _ _ _ _
    exact ⟨σ, hP.zero i0 σ, fun a => by rw [if_neg (by omega)]⟩
  | succ n ih =>
    intro i0 σ hd1 hd2 hl0 hl1
    obtain ⟨τ1, hτ1, hp⟩ := C07Gen3.gen_cu_find_span_eq U F σ.xmin σ.xmax σ.dx (σ.x i0) σ.ncells_x
    have hp10 : τ1.ret0_ = (cuFindSpan pyInt σ.xmin σ.dx (σ.x i0) σ.ncells_x).1 := congrArg Prod.fst hp
    have hp11 : τ1.ret1_ = (cuFindSpan pyInt σ.xmin σ.dx (σ.x i0) σ.ncells_x).2 := congrArg Prod.snd hp
    obtain ⟨τ2, hτ2, hq⟩ := C07Gen3.gen_cu_find_span_eq U F σ.ymin σ.ymax σ.dy (σ.y i0) σ.ncells_y
    have hp20 : τ2.ret0_ = (cuFindSpan pyInt σ.ymin σ.dy (σ.y i0) σ.ncells_y).1 := congrArg Prod.fst hq
    have hp21 : τ2.ret1_ = (cuFindSpan pyInt σ.ymin σ.dy (σ.y i0) σ.ncells_y).2 := congrArg Prod.snd hq
    obtain ⟨β1, hβ1, hval1⟩ := hk1 { σ with i := i0, xi := σ.x i0, span1 := τ1.ret0_, offset1 := τ1.ret1_, span2 := τ2.ret0_, offset2 := τ2.ret1_ }
    obtain ⟨β2, hβ2, hval2⟩ := hk2 { σ with i := i0, xi := σ.x i0, span1 := τ1.ret0_, offset1 := τ1.ret1_, span2 := τ2.ret0_, offset2 := τ2.ret1_, basis1 := kget1 β1 }
    let Tc : ℕ → ℕ → ℚ := fun k_ l_ => if k_ < σ.theCoeffs_len0 ∧ l_ < σ.theCoeffs_len1 then σ.coeffs (Int.toNat (τ1.ret0_ - σ.deg1) + (if Int.toNat (τ1.ret0_ + 1 - (τ1.ret0_ - σ.deg1)) = 1 then 0 else k_)) (Int.toNat (τ2.ret0_ - σ.deg2) + (if Int.toNat (τ2.ret0_ + 1 - (τ2.ret0_ - σ.deg2)) = 1 then 0 else l_)) else σ.theCoeffs k_ l_
    let σc : St := { σ with i := i0, xi := σ.x i0, span1 := τ1.ret0_, offset1 := τ1.ret1_, span2 := τ2.ret0_, offset2 := τ2.ret1_, basis1 := kget1 β1, basis2 := kget2 β2, theCoeffs := Tc, z := set1 σ.z i0 0 }
    obtain ⟨J', K', T', hjl⟩ := j_loop_eq_cu hJ hK 4 0 σc
    let v : ℚ := (0 : ℚ) + ((List.range 4).map (fun m => rowDot Tc (kget2 β2) (0 + m) 4 * kget1 β1 (0 + m))).sum
    let σd : St := { σc with j := J', k := K', theCoeffs := T', z := set1 σ.z i0 v }
    have hjl' : J 4 0 σc = .ok σd := by
      rw [hjl]
      congr 1
      show ({ σc with j := J', k := K', theCoeffs := T', z := set1 (set1 σ.z i0 0) i0 (set1 σ.z i0 0 i0 + _) } : St) = _
      rw [set1_set1, set1_self]
    obtain ⟨σ', hrun, hz⟩ := ih (i0 + 1) σd hd1 hd2 hl0 hl1
    have hc : ((Int.toNat (τ1.ret0_ + 1 - (τ1.ret0_ - σ.deg1)) = σ.theCoeffs_len0 ∨ Int.toNat (τ1.ret0_ + 1 - (τ1.ret0_ - σ.deg1)) = 1) ∧
        (Int.toNat (τ2.ret0_ + 1 - (τ2.ret0_ - σ.deg2)) = σ.theCoeffs_len1 ∨ Int.toNat (τ2.ret0_ + 1 - (τ2.ret0_ - σ.deg2)) = 1)) :=
      ⟨Or.inl (by omega), Or.inl (by omega)⟩
    have hstep : P (n + 1) i0 σ = P n (i0 + 1) σd := hP.step n i0 σ τ1 τ2 β1 β2 σd hτ1 hτ2 hβ1 hβ2 hc hjl'
    refine ⟨σ', by rw [hstep, hrun], fun a => ?_⟩
    rw [hz a]
    show (if i0 + 1 ≤ a ∧ a < i0 + 1 + n then ptValC σ der1 der2 a else set1 σ.z i0 v a) = _
    by_cases h1 : i0 + 1 ≤ a ∧ a < i0 + 1 + n
    · rw [if_pos h1, if_pos ⟨by omega, by omega⟩]
    · rw [if_neg h1]
      by_cases h2 : a = i0
      · rw [if_pos ⟨by omega, by omega⟩, h2, set1_self]
        show (0 : ℚ) + _ = _
        rw [zero_add]
        have := slice_sum_cu σ.coeffs σ.theCoeffs τ1.ret0_ σ.deg1 τ2.ret0_ σ.deg2 σ.theCoeffs_len0 σ.theCoeffs_len1 (kget1 β1) (kget2 β2) hd1 hd2 hl0 hl1
        rw [this]
        unfold ptValC
        rw [← hp10, ← hp11, ← hp20, ← hp21]
        refine blockSum_congr _ _ _ _ _ _ _ _ _ (fun m hm => ?_) (fun m hm => ?_)
        · show kget1 β1 m = _
          rw [← hval1, getD_map_range', if_pos (by omega)]
        · show kget2 β2 m = _
          rw [← hval2, getD_map_range', if_pos (by omega)]
      · rw [set1_other _ _ _ _ h2, if_neg (by omega)]

end Cu

end PygyroVerif.Vec2DGen
