/-
The operators of the time loop built from the wiring model (C05): for a process grid `(p1, p2)` every operator of
`TimeStep.Operators` is "split the global field into the blocks of the layout the operator runs in, run the modelled
grid-level loop (`Model/Wiring.lean`) on every rank with uninterpreted kernels, assemble the global field".

  * `Extents`, `Decomp`, the layouts of the driver (`fluxLayout`, `vparLayout`, `polLayout`, `phi2dLayout`, `modeLayout`,
    `phi1dLayout`, `phiPolLayout`: dimension orders of `setups.py` / `fullSimulation.py`, process counts `nprocs`,
    `nprocs[0]`, `nprocs[1]` as the driver passes them), `ranks`;
  * `WKernels` : the kernels, arbitrary functions of (the parameter indices the loop passes, the local slice = extents +
    contents);
  * `assemble` : the global result = what the rank(s) whose call addresses a slice wrote for it;
  * `fluxOp`, `gradOp`, `vparOp`, `polOp`, `rhoOp`, `lineOp` (getModes / findPotential), `solveOp`, `initOp` : the operators
    of a decomposition (`fluxOp`, `vparOp` take the flag `fixed` of the model: `false` = index expressions before the fix:
    commits); `fluxGlobal`, … : the same kernels applied slice by slice to the global field (no decomposition);
    adapter to the model: the axes inside a slice are read / written through the rank's local range of the layout
    (`box1`, `box2`, `read…`, `patch…`); `getPerturbedRho` and `solveEquation`, whose modelled loop addresses a radius /
    a mode only, run their line kernel over the rank's axial range; `getModes` / `findPotential`, not in
    `Model/Wiring.lean`, get the loop model `lineLoop`;
  * `fluxOp_eq`, … : for every process grid with `p1, p2 ≥ 1` the two agree — from C05 `wiring_flux`, `wiring_vpar`,
    `wiring_pargrad`, `wiring_poloidal`, `wiring_density`, `wiring_solve`, `wiring_init` (every call passes the parameters
    of its slice's own global coordinates), C05 `gridop_decomposition_independent` (every global index of an axis is owned
    by exactly one rank: `axis_owner`) and the facts that the axes inside a slice are not distributed
    (`box2_flux`, …: offset 0, full extent);
  * `wiringOps`, `globalOps`, `wiringOps_eq_global`.
The theorems about the generated time loop are in `Props/C05Extra.lean`.
-/
import PygyroVerif.Model.Wiring
import PygyroVerif.Lemmas.Blocks
import PygyroVerif.Lemmas.TimeStep
import PygyroVerif.Props.C05
import Mathlib.Logic.Basic

namespace PygyroVerif.WiringOps
open PygyroVerif PygyroVerif.Wiring PygyroVerif.TimeStep
open PygyroVerif.Ckpt (Stp Lay)

/-! ### 1. extents, process grids, the layouts of the driver -/

/-- numbers of grid points: `r`, `θ` (written `q` as in the source), `z`, `v` — physical dimensions 0, 1, 2, 3 -/
structure Extents where
  nr : Nat
  nq : Nat
  nz : Nat
  nv : Nat
deriving Repr, DecidableEq

/-- `[len(eta_grid[d]) for d in 0..3]` -/
def Extents.list4 (e : Extents) : List Nat := [e.nr, e.nq, e.nz, e.nv]
/-- `eta_grid[:3]` -/
def Extents.list3 (e : Extents) : List Nat := [e.nr, e.nq, e.nz]

/-- the 2-D process grid `nprocs = (p1, p2)` of `compute_2d_process_grid` -/
structure Decomp where
  p1 : Nat
  p2 : Nat
deriving Repr, DecidableEq

/-- both process counts are at least 1 (all the theorems below need) -/
def Decomp.Pos (d : Decomp) : Prop := 0 < d.p1 ∧ 0 < d.p2

/-- what `compute_2d_process_grid` guarantees (C20 `procgrid_valid`, `standard_layouts_buildable`): no empty block -/
def Decomp.Admissible (e : Extents) (d : Decomp) : Prop :=
  1 ≤ d.p1 ∧ 1 ≤ d.p2 ∧ d.p1 ≤ min e.nr e.nv ∧ d.p2 ≤ min e.nz e.nv

theorem Decomp.Admissible.pos {e : Extents} {d : Decomp} (h : d.Admissible e) : d.Pos := ⟨h.1, h.2.1⟩

instance (e : Extents) (d : Decomp) : Decidable (d.Admissible e) := by unfold Decomp.Admissible; infer_instance
instance (d : Decomp) : Decidable d.Pos := by unfold Decomp.Pos; infer_instance

/-- `layouts['flux_surface'] = [0, 3, 1, 2]` : local axes (r, v, θ, z); r over `p1`, v over `p2` -/
def fluxLayout (e : Extents) (d : Decomp) : Layout := Layout.make [d.p1, d.p2] [0, 3, 1, 2] e.list4
/-- `layouts['v_parallel'] = [0, 2, 1, 3]` : (r, z, θ, v); r over `p1`, z over `p2` -/
def vparLayout (e : Extents) (d : Decomp) : Layout := Layout.make [d.p1, d.p2] [0, 2, 1, 3] e.list4
/-- `layouts['poloidal'] = [3, 2, 1, 0]` : (v, z, θ, r); v over `p1`, z over `p2` -/
def polLayout (e : Extents) (d : Decomp) : Layout := Layout.make [d.p1, d.p2] [3, 2, 1, 0] e.list4
/-- `layout_poisson['v_parallel_2d'] = [0, 2, 1]` with `nprocs` : (r, z, θ) -/
def phi2dLayout (e : Extents) (d : Decomp) : Layout := Layout.make [d.p1, d.p2] [0, 2, 1] e.list3
/-- `layout_poisson['mode_solve'] = [1, 2, 0]` with `nprocs` : (θ, z, r); modes over `p1`, z over `p2` -/
def modeLayout (e : Extents) (d : Decomp) : Layout := Layout.make [d.p1, d.p2] [1, 2, 0] e.list3
/-- `layout_vpar['v_parallel_1d'] = [0, 2, 1]` with `nprocs[0]` : (r, z, θ); r over `p1` -/
def phi1dLayout (e : Extents) (d : Decomp) : Layout := Layout.make [d.p1] [0, 2, 1] e.list3
/-- `layout_poloidal['poloidal'] = [2, 1, 0]` with `nprocs[1]` : (z, θ, r); z over `p2` -/
def phiPolLayout (e : Extents) (d : Decomp) : Layout := Layout.make [d.p2] [2, 1, 0] e.list3

/-- the coordinates `[a, b]` of all ranks of the Cartesian topology, in rank order -/
def ranks (d : Decomp) : List (List Nat) :=
  (List.range d.p1).flatMap (fun a => (List.range d.p2).map (fun b => [a, b]))

theorem mem_ranks (d : Decomp) (c : List Nat) : c ∈ ranks d ↔ ∃ a, a < d.p1 ∧ ∃ b, b < d.p2 ∧ c = [a, b] := by
  simp only [ranks, List.mem_flatMap, List.mem_map, List.mem_range]
  constructor
  · rintro ⟨a, ha, b, hb, rfl⟩; exact ⟨a, ha, b, hb, rfl⟩
  · rintro ⟨a, ha, b, hb, rfl⟩; exact ⟨a, ha, b, hb, rfl⟩

/-- entry `k` of an index list (local wrapper of `List.getD`) -/
def ix (l : List Nat) (k : Nat) : Nat := l.getD k 0

@[simp] theorem ix_cons_zero (a : Nat) (l : List Nat) : ix (a :: l) 0 = a := rfl
@[simp] theorem ix_cons_succ (a : Nat) (l : List Nat) (k : Nat) : ix (a :: l) (k + 1) = ix l k := rfl

/-! ### 2. one distributed axis: ownership -/

theorem blockStart_one_zero (n : Nat) : blockStart n 1 0 = 0 := by simp [blockStart]

theorem blockLen_one_zero (n : Nat) : blockLen n 1 0 = n := by simp [blockLen, blockStart, Nat.mod_one]

/-- every global index of an axis is held by a rank, at a local index of its block
    (the existence part of C05 `gridop_decomposition_independent` / C02 `axis_local_global_bijective`) -/
theorem axis_owner (n p g : Nat) (hp : 0 < p) (hg : g < n) :
    ∃ k, k < p ∧ ∃ i, i < blockLen n p k ∧ blockStart n p k + i = g := by
  obtain ⟨⟨k, i⟩, ⟨hk, hi, he, _⟩, _⟩ :=
    C05.gridop_decomposition_independent (β := Nat) (σ := Nat) n p hp id (fun _ x => x) id g hg
  exact ⟨k, hk, i, hi, he⟩

/-- a local index of a block is a global index of the axis -/
theorem axis_in_range (n p k i : Nat) (hp : 0 < p) (hk : k < p) (hi : i < blockLen n p k) :
    blockStart n p k + i < n := by
  have h := blockStart_le_n n p (k + 1) hp (by omega)
  unfold blockLen at hi
  omega

/-! ### 3. local slices and assembling -/

abbrev Line (α : Type) := Nat → α
abbrev Plane (α : Type) := Nat → Nat → α
/-- contents of the distribution function, `f r z θ v` (the convention of `Lemmas/TimeStepKernels.lean`) -/
abbrev FieldF (α : Type) := Nat → Nat → Nat → Nat → α
/-- contents of `phi` / `rho`, `φ r z θ` (θ = poloidal index or Fourier mode) -/
abbrev FieldP (β : Type) := Nat → Nat → Nat → β
/-- contents of `parGradVals`, `g r z θ` -/
abbrev FieldG (γ : Type) := Nat → Nat → Nat → γ

/-- a 1-D array as a kernel receives it: extent and contents -/
structure Arr1 (α : Type) where
  n : Nat
  val : Nat → α

/-- a 2-D array as a kernel receives it -/
structure Arr2 (α : Type) where
  n0 : Nat
  n1 : Nat
  val : Nat → Nat → α

/-- the part of an axis a rank holds: start and length -/
structure Box1 where
  off : Nat
  n : Nat

structure Box2 where
  off0 : Nat
  n0 : Nat
  off1 : Nat
  n1 : Nat

/-- the local range of axis `k` of layout `L` on the rank with coordinates `c` -/
def box1 (L : Layout) (c : List Nat) (k : Nat) : Box1 := ⟨L.startAt c k, sh L c k⟩
def box2 (L : Layout) (c : List Nat) (k l : Nat) : Box2 := ⟨L.startAt c k, sh L c k, L.startAt c l, sh L c l⟩

/-- the rank's part of a global line: local index `x` is global index `off + x` -/
def read1 {α : Type} (b : Box1) (F : Line α) : Arr1 α := ⟨b.n, fun x => F (b.off + x)⟩
def read2 {α : Type} (b : Box2) (F : Plane α) : Arr2 α := ⟨b.n0, b.n1, fun x y => F (b.off0 + x) (b.off1 + y)⟩

/-- the global positions a rank's output array defines (`none`: not written by this rank) -/
def patch1 {α : Type} (b : Box1) (out : Line α) : Nat → Option α :=
  fun x => if b.off ≤ x ∧ x < b.off + b.n then some (out (x - b.off)) else none
def patch2 {α : Type} (b : Box2) (out : Plane α) : Nat → Nat → Option α :=
  fun x y => if b.off0 ≤ x ∧ x < b.off0 + b.n0 ∧ b.off1 ≤ y ∧ y < b.off1 + b.n1 then some (out (x - b.off0) (y - b.off1))
    else none

theorem read1_full {α : Type} (n : Nat) (F : Line α) : read1 ⟨0, n⟩ F = ⟨n, F⟩ := by
  simp only [read1, Nat.zero_add]

theorem read2_full {α : Type} (n0 n1 : Nat) (F : Plane α) : read2 ⟨0, n0, 0, n1⟩ F = ⟨n0, n1, F⟩ := by
  simp only [read2, Nat.zero_add]

theorem patch1_full {α : Type} (n : Nat) (out : Line α) (x : Nat) :
    patch1 ⟨0, n⟩ out x = if x < n then some (out x) else none := by
  simp only [patch1, Nat.zero_le, true_and, Nat.zero_add, Nat.sub_zero]

theorem patch2_full {α : Type} (n0 n1 : Nat) (out : Plane α) (x y : Nat) :
    patch2 ⟨0, n0, 0, n1⟩ out x y = if x < n0 ∧ y < n1 then some (out x y) else none := by
  simp only [patch2, Nat.zero_le, true_and, Nat.zero_add, Nat.sub_zero]

/-- what the ranks wrote for slice `g`: the first write addressed to it (`none`: no rank addresses `g`) -/
def assemble {S : Type} (writes : List (List Nat × S)) (g : List Nat) : Option S :=
  (writes.find? (fun w => decide (w.1 = g))).map (fun w => w.2)

theorem assemble_some {S : Type} (writes : List (List Nat × S)) (g : List Nat) (s : S)
    (hex : ∃ w ∈ writes, w.1 = g) (hall : ∀ w ∈ writes, w.1 = g → w.2 = s) : assemble writes g = some s := by
  unfold assemble
  cases h : writes.find? (fun w => decide (w.1 = g)) with
  | none =>
    obtain ⟨w, hw, he⟩ := hex
    have := List.find?_eq_none.1 h w hw
    simp only [decide_eq_true_eq] at this
    exact absurd he this
  | some w =>
    have hm := List.mem_of_find?_eq_some h
    have hp := List.find?_some h
    simp only [decide_eq_true_eq] at hp
    simp only [Option.map_some, hall w hm hp]

theorem assemble_none {S : Type} (writes : List (List Nat × S)) (g : List Nat) (hno : ∀ w ∈ writes, w.1 ≠ g) :
    assemble writes g = none := by
  unfold assemble
  rw [List.find?_eq_none.2 (fun w hw => by simpa using hno w hw)]
  rfl

/-- **assembling over the process grid**: if every write of every rank that addresses `g` is made for a `g` in range
    (`P`) and has the value `s`, and some rank addresses `g` when it is in range, then the assembled value is `s` in
    range and nothing is written out of range -/
theorem assemble_ranks {S : Type} (d : Decomp) (f : List Nat → List (List Nat × S)) (g : List Nat) (s : S)
    (P : Prop) [Decidable P]
    (h1 : ∀ a, a < d.p1 → ∀ b, b < d.p2 → ∀ w ∈ f [a, b], w.1 = g → P ∧ w.2 = s)
    (h2 : P → ∃ a, a < d.p1 ∧ ∃ b, b < d.p2 ∧ ∃ w ∈ f [a, b], w.1 = g) :
    assemble ((ranks d).flatMap f) g = if P then some s else none := by
  have hmem : ∀ w, w ∈ (ranks d).flatMap f → ∃ a, a < d.p1 ∧ ∃ b, b < d.p2 ∧ w ∈ f [a, b] := by
    intro w hw
    obtain ⟨c, hc, hwc⟩ := List.mem_flatMap.1 hw
    obtain ⟨a, ha, b, hb, rfl⟩ := (mem_ranks d c).1 hc
    exact ⟨a, ha, b, hb, hwc⟩
  by_cases hP : P
  · rw [if_pos hP]
    refine assemble_some _ g s ?_ ?_
    · obtain ⟨a, ha, b, hb, w, hw, he⟩ := h2 hP
      exact ⟨w, List.mem_flatMap.2 ⟨[a, b], (mem_ranks d _).2 ⟨a, ha, b, hb, rfl⟩, hw⟩, he⟩
    · intro w hw he
      obtain ⟨a, ha, b, hb, hwc⟩ := hmem w hw
      exact (h1 a ha b hb w hwc he).2
  · rw [if_neg hP]
    refine assemble_none _ g ?_
    intro w hw he
    obtain ⟨a, ha, b, hb, hwc⟩ := hmem w hw
    exact hP (h1 a ha b hb w hwc he).1

/-- reading one point of an assembled line -/
theorem finish1 {α : Type} (P : Prop) [Decidable P] (n x : Nat) (out : Line α) (dflt : α) :
    ((if P then some (patch1 ⟨0, n⟩ out) else none).bind (fun l => l x)).getD dflt
      = if P ∧ x < n then out x else dflt := by
  by_cases h1 : P
  · by_cases h2 : x < n <;> simp [h1, h2, patch1_full]
  · simp [h1]

/-- reading one point of an assembled plane -/
theorem finish2 {α : Type} (P : Prop) [Decidable P] (n0 n1 x y : Nat) (out : Plane α) (dflt : α) :
    ((if P then some (patch2 ⟨0, n0, 0, n1⟩ out) else none).bind (fun pl => pl x y)).getD dflt
      = if P ∧ x < n0 ∧ y < n1 then out x y else dflt := by
  by_cases h1 : P
  · by_cases h2 : x < n0 ∧ y < n1 <;> simp [h1, h2, patch2_full]
  · simp [h1]

/-- reading one point of an assembled table of whole rows -/
theorem finish0 {S α : Type} (P : Prop) [Decidable P] (s : S) (get : S → α) (dflt : α) :
    ((if P then some s else none).map get).getD dflt = if P then get s else dflt := by
  by_cases h1 : P <;> simp [h1]

/-! ### 4. the kernels -/

/-- The kernels behind the calls of the grid-level loops: arbitrary functions of the parameter indices the loop passes
    (`Call.params`) and of the local slice (extents and contents).  `vpar` also receives the entry of the gradient table
    that the loop reads (`parGradVals[i, z_idx, k]`), `pol` the interpolant object the loop hands over
    (`self._phiSplines[j]`).  `noGrad`, `noSpl`, `noVal`: contents of table rows / interpolants / array entries that no
    call has written. -/
structure WKernels (α β γ Spl : Type) where
  /-- `FluxSurfaceAdvection.step(f[θ, z], cIdx, rIdx)` -/
  flux : List Nat → Arr2 α → Plane α
  /-- `ParallelGradient.parallel_gradient(phi[z, θ], i, out[z, θ])` -/
  pargrad : List Nat → Arr2 β → Plane γ
  /-- `VParallelAdvection.step(f[v], dt, c, r)` -/
  vpar : Stp → List Nat → γ → Arr1 α → Line α
  /-- `compute_interpolant(real(phi[θ, r]), self._phiSplines[j])` -/
  interp : List Nat → Arr2 β → Spl
  /-- `PoloidalAdvection.step(f[θ, r], dt, phiSpline, v)` -/
  pol : Stp → List Nat → Spl → Arr2 α → Plane α
  /-- one `(r, z)` line of `get_perturbed_rho(rho, fEq[rIndices], f, quad)` from the `(θ, v)` values -/
  rho : List Nat → Arr2 α → Line β
  /-- `fft` of a θ line (`getModes`) -/
  modes : Arr1 β → Line β
  /-- one radial line of `_solveMode` for mode `I` -/
  solve : List Nat → Arr1 β → Line β
  /-- `ifft` of a mode line (`findPotential`) -/
  potential : Arr1 β → Line β
  /-- the initial value at `(θ, v)` on the `(r, z)` slice with the given coordinates -/
  init : List Nat → Plane α
  noGrad : γ
  noSpl : Spl
  noVal : β

section ops
variable {α β γ Spl : Type} (K : WKernels α β γ Spl) (e : Extents) (d : Decomp)

/-! ### 5. flux-surface advection -/

/-- what rank `c` does in `FluxSurfaceAdvection.gridStep`: for every call of the modelled loop, the kernel on the local
    `(θ, z)` slice of the addressed `(r, v)`, written back in place -/
def fluxRank (fixed : Bool) (F : FieldF α) (c : List Nat) : List (List Nat × (Nat → Nat → Option α)) :=
  (fluxGridStep fixed (fluxLayout e d) c).map fun call =>
    (call.slice, patch2 (box2 (fluxLayout e d) c 2 3)
      (K.flux call.params (read2 (box2 (fluxLayout e d) c 2 3) (fun q z => F (ix call.slice 0) z q (ix call.slice 1)))))

/-- the assembled result of `FluxSurfaceAdvection.gridStep` (`fixed = false`: the index expressions before e17f3f9) -/
def fluxOp (fixed : Bool) (F : FieldF α) : FieldF α := fun r z q v =>
  ((assemble ((ranks d).flatMap (fluxRank K e d fixed F)) [r, v]).bind (fun pl => pl q z)).getD (F r z q v)

/-- the same kernel applied to every `(r, v)` slice of the global field -/
def fluxGlobal (F : FieldF α) : FieldF α := fun r z q v =>
  if (r < e.nr ∧ v < e.nv) ∧ q < e.nq ∧ z < e.nz then K.flux [r, v] ⟨e.nq, e.nz, fun q z => F r z q v⟩ q z else F r z q v

theorem box2_flux (a b : Nat) : box2 (fluxLayout e d) [a, b] 2 3 = ⟨0, e.nq, 0, e.nz⟩ := by
  show Box2.mk (blockStart e.nq 1 0) (blockLen e.nq 1 0) (blockStart e.nz 1 0) (blockLen e.nz 1 0) = _
  simp only [blockStart_one_zero, blockLen_one_zero]

theorem mem_flux_calls (a b : Nat) (call : Call) (h : call ∈ fluxGridStep true (fluxLayout e d) [a, b]) :
    ∃ i, i < blockLen e.nr d.p1 a ∧ ∃ j, j < blockLen e.nv d.p2 b ∧
      call.slice = [blockStart e.nr d.p1 a + i, blockStart e.nv d.p2 b + j] := by
  simp only [fluxGridStep, List.mem_flatMap, List.mem_map, List.mem_range] at h
  obtain ⟨i, hi, j, hj, rfl⟩ := h
  exact ⟨i, hi, j, hj, rfl⟩

theorem flux_call_mem (a b i j : Nat) (hi : i < blockLen e.nr d.p1 a) (hj : j < blockLen e.nv d.p2 b) :
    ∃ call ∈ fluxGridStep true (fluxLayout e d) [a, b],
      call.slice = [blockStart e.nr d.p1 a + i, blockStart e.nv d.p2 b + j] := by
  refine ⟨⟨"flux.step", [blockStart e.nr d.p1 a + i, blockStart e.nv d.p2 b + j],
    [blockStart e.nr d.p1 a + i, blockStart e.nv d.p2 b + j]⟩, ?_, rfl⟩
  simp only [fluxGridStep, List.mem_flatMap, List.mem_map, List.mem_range]
  exact ⟨i, hi, j, hj, rfl⟩

theorem fluxOp_eq (hd : d.Pos) (F : FieldF α) : fluxOp K e d true F = fluxGlobal K e F := by
  funext r z q v
  have key : assemble ((ranks d).flatMap (fluxRank K e d true F)) [r, v]
      = if r < e.nr ∧ v < e.nv then
          some (patch2 ⟨0, e.nq, 0, e.nz⟩ (K.flux [r, v] ⟨e.nq, e.nz, fun q z => F r z q v⟩)) else none := by
    refine assemble_ranks d _ _ _ _ ?_ ?_
    · intro a ha b hb w hw he
      simp only [fluxRank, List.mem_map] at hw
      obtain ⟨call, hc, rfl⟩ := hw
      simp only at he
      have hpar := C05.wiring_flux (fluxLayout e d) [a, b] call hc
      obtain ⟨i, hi, j, hj, hs⟩ := mem_flux_calls e d a b call hc
      rw [he] at hs
      simp only [List.cons.injEq, and_true] at hs
      refine ⟨⟨?_, ?_⟩, ?_⟩
      · rw [hs.1]; exact axis_in_range _ _ _ _ hd.1 ha hi
      · rw [hs.2]; exact axis_in_range _ _ _ _ hd.2 hb hj
      · simp only [hpar, he, box2_flux, read2_full, ix_cons_zero, ix_cons_succ]
    · rintro ⟨hr, hv⟩
      obtain ⟨a, ha, i, hi, hai⟩ := axis_owner e.nr d.p1 r hd.1 hr
      obtain ⟨b, hb, j, hj, hbj⟩ := axis_owner e.nv d.p2 v hd.2 hv
      obtain ⟨call, hc, hs⟩ := flux_call_mem e d a b i j hi hj
      refine ⟨a, ha, b, hb, _, List.mem_map.2 ⟨call, hc, rfl⟩, ?_⟩
      simp only [hs, hai, hbj]
  simp only [fluxOp, fluxGlobal, key]
  exact finish2 _ _ _ _ _ _ _

/-! ### 6. parallel gradient and v-parallel advection -/

theorem mem_vpar_calls (kg : Bool) (a b : Nat) (call : Wiring.Call)
    (h : call ∈ vparGridStep true kg (vparLayout e d) [a, b] (phi1dLayout e d) [a]) (hop : call.op = "vpar.step") :
    ∃ i, i < blockLen e.nr d.p1 a ∧ ∃ j, j < blockLen e.nz d.p2 b ∧ ∃ k, k < blockLen e.nq 1 0 ∧
      call.slice = [blockStart e.nr d.p1 a + i, blockStart e.nz d.p2 b + j, blockStart e.nq 1 0 + k] := by
  simp only [vparGridStep, List.mem_flatMap, List.mem_append, List.mem_map, List.mem_range] at h
  obtain ⟨i, hi, h⟩ := h
  rcases h with h | h
  · cases kg <;> simp at h
    subst h; simp at hop
  · obtain ⟨j, hj, k, hk, rfl⟩ := h
    exact ⟨i, hi, j, hj, k, hk, rfl⟩

theorem vpar_call_mem (kg : Bool) (a b i j k : Nat) (hi : i < blockLen e.nr d.p1 a) (hj : j < blockLen e.nz d.p2 b)
    (hk : k < blockLen e.nq 1 0) :
    ∃ call ∈ vparGridStep true kg (vparLayout e d) [a, b] (phi1dLayout e d) [a], call.op = "vpar.step" ∧
      call.slice = [blockStart e.nr d.p1 a + i, blockStart e.nz d.p2 b + j, blockStart e.nq 1 0 + k] := by
  refine ⟨⟨"vpar.step", [blockStart e.nr d.p1 a + i, blockStart e.nz d.p2 b + j, blockStart e.nq 1 0 + k],
    [blockStart e.nr d.p1 a + i, blockStart e.nz d.p2 b + j, k, blockStart e.nr d.p1 a + i]⟩, ?_, rfl, rfl⟩
  simp only [vparGridStep, List.mem_flatMap, List.mem_append, List.mem_map, List.mem_range]
  exact ⟨i, hi, Or.inr ⟨j, hj, k, hk, rfl⟩⟩

theorem mem_pargrad_calls (a b : Nat) (call : Wiring.Call)
    (h : call ∈ vparGridStep true false (vparLayout e d) [a, b] (phi1dLayout e d) [a]) (hop : call.op = "pargrad") :
    ∃ i, i < blockLen e.nr d.p1 a ∧ call.slice = [blockStart e.nr d.p1 a + i] := by
  simp only [vparGridStep, List.mem_flatMap, List.mem_append, List.mem_map, List.mem_range] at h
  obtain ⟨i, hi, h⟩ := h
  rcases h with h | h
  · simp at h; subst h; exact ⟨i, hi, rfl⟩
  · obtain ⟨j, _, k, _, rfl⟩ := h
    simp at hop

theorem pargrad_call_mem (a b i : Nat) (hi : i < blockLen e.nr d.p1 a) :
    ∃ call ∈ vparGridStep true false (vparLayout e d) [a, b] (phi1dLayout e d) [a], call.op = "pargrad" ∧
      call.slice = [blockStart e.nr d.p1 a + i] := by
  refine ⟨⟨"pargrad", [blockStart e.nr d.p1 a + i], [blockStart e.nr d.p1 a + i]⟩, ?_, rfl, rfl⟩
  simp only [vparGridStep, List.mem_flatMap, List.mem_append, List.mem_map, List.mem_range]
  exact ⟨i, hi, Or.inl (by simp; rfl)⟩

theorem box2_phi1d (a : Nat) : box2 (phi1dLayout e d) [a] 1 2 = ⟨0, e.nz, 0, e.nq⟩ := by
  show Box2.mk (blockStart e.nz 1 0) (blockLen e.nz 1 0) (blockStart e.nq 1 0) (blockLen e.nq 1 0) = _
  simp only [blockStart_one_zero, blockLen_one_zero]

theorem box1_vpar (a b : Nat) : box1 (vparLayout e d) [a, b] 3 = ⟨0, e.nv⟩ := by
  show Box1.mk (blockStart e.nv 1 0) (blockLen e.nv 1 0) = _
  simp only [blockStart_one_zero, blockLen_one_zero]

/-- what rank `c` does in the first half of `VParallelAdvection.gridStep`: `parallel_gradient` of every local radius, from
    the `(z, θ)` slice of `phi` (layout `v_parallel_1d`, coordinates `c[:1]` in the radial sub-communicator — C03
    `driver_comm_axes`) into row `i` of the table (whose rows have the global `z`, `θ` extents) -/
def gradRank (P : FieldP β) (c : List Nat) : List (List Nat × Plane γ) :=
  ((vparGridStep true false (vparLayout e d) c (phi1dLayout e d) (c.take 1)).filter
      (fun call => call.op = "pargrad")).map fun call =>
    (call.slice, K.pargrad call.params (read2 (box2 (phi1dLayout e d) (c.take 1) 1 2) (fun z q => P (ix call.slice 0) z q)))

def gradOp (P : FieldP β) : FieldG γ := fun r z q =>
  ((assemble ((ranks d).flatMap (gradRank K e d P)) [r]).map (fun row => row z q)).getD K.noGrad

def gradGlobal (P : FieldP β) : FieldG γ := fun r z q =>
  if r < e.nr then K.pargrad [r] ⟨e.nz, e.nq, fun z q => P r z q⟩ z q else K.noGrad

theorem gradOp_eq (hd : d.Pos) (P : FieldP β) : gradOp K e d P = gradGlobal K e P := by
  funext r z q
  have key : assemble ((ranks d).flatMap (gradRank K e d P)) [r]
      = if r < e.nr then some (K.pargrad [r] ⟨e.nz, e.nq, fun z q => P r z q⟩) else none := by
    refine assemble_ranks d _ _ _ _ ?_ ?_
    · intro a ha b _ w hw he
      simp only [gradRank, List.mem_map, List.mem_filter, decide_eq_true_eq] at hw
      obtain ⟨call, ⟨hc, hop⟩, rfl⟩ := hw
      simp only at he
      have hc' : call ∈ vparGridStep true false (vparLayout e d) [a, b] (phi1dLayout e d) [a] := hc
      have hpar := C05.wiring_pargrad (vparLayout e d) [a, b] (phi1dLayout e d) [a] call hc' hop
      obtain ⟨i, hi, hs⟩ := mem_pargrad_calls e d a b call hc' hop
      rw [he] at hs
      simp only [List.cons.injEq, and_true] at hs
      refine ⟨?_, ?_⟩
      · rw [hs]; exact axis_in_range _ _ _ _ hd.1 ha hi
      · show K.pargrad call.params (read2 (box2 (phi1dLayout e d) [a] 1 2) _) = _
        simp only [hpar, he, box2_phi1d, read2_full, ix_cons_zero]
    · intro hr
      obtain ⟨a, ha, i, hi, hai⟩ := axis_owner e.nr d.p1 r hd.1 hr
      obtain ⟨call, hc, hop, hs⟩ := pargrad_call_mem e d a 0 i hi
      refine ⟨a, ha, 0, hd.2, _, List.mem_map.2 ⟨call, List.mem_filter.2 ⟨hc, by simpa using hop⟩, rfl⟩, ?_⟩
      simp only [hs, hai]
  simp only [gradOp, gradGlobal, key]
  exact finish0 _ _ _ _

/-- what rank `c` does in the advection loop of `VParallelAdvection.gridStep` (`kg = false`) /
    `gridStepKeepGradient` (`kg = true`): the kernel on every local v line with the table entry the loop reads -/
def vparRank (fixed kg : Bool) (dt : Stp) (F : FieldF α) (G : FieldG γ) (c : List Nat) :
    List (List Nat × (Nat → Option α)) :=
  ((vparGridStep fixed kg (vparLayout e d) c (phi1dLayout e d) (c.take 1)).filter
      (fun call => call.op = "vpar.step")).map fun call =>
    (call.slice, patch1 (box1 (vparLayout e d) c 3)
      (K.vpar dt call.params (G (ix call.params 0) (ix call.params 1) (ix call.params 2))
        (read1 (box1 (vparLayout e d) c 3) (fun v => F (ix call.slice 0) (ix call.slice 1) (ix call.slice 2) v))))

/-- the assembled result of the advection loop (`fixed = false`: the index expressions before aa36cd2) -/
def vparOp (fixed kg : Bool) (dt : Stp) (F : FieldF α) (G : FieldG γ) : FieldF α := fun r z q v =>
  ((assemble ((ranks d).flatMap (vparRank K e d fixed kg dt F G)) [r, z, q]).bind (fun l => l v)).getD (F r z q v)

def vparGlobal (dt : Stp) (F : FieldF α) (G : FieldG γ) : FieldF α := fun r z q v =>
  if (r < e.nr ∧ z < e.nz ∧ q < e.nq) ∧ v < e.nv then K.vpar dt [r, z, q, r] (G r z q) ⟨e.nv, fun v => F r z q v⟩ v
  else F r z q v

theorem vparOp_eq (hd : d.Pos) (kg : Bool) (dt : Stp) (F : FieldF α) (G : FieldG γ) :
    vparOp K e d true kg dt F G = vparGlobal K e dt F G := by
  funext r z q v
  have key : assemble ((ranks d).flatMap (vparRank K e d true kg dt F G)) [r, z, q]
      = if r < e.nr ∧ z < e.nz ∧ q < e.nq then
          some (patch1 ⟨0, e.nv⟩ (K.vpar dt [r, z, q, r] (G r z q) ⟨e.nv, fun v => F r z q v⟩)) else none := by
    refine assemble_ranks d _ _ _ _ ?_ ?_
    · intro a ha b hb w hw he
      simp only [vparRank, List.mem_map, List.mem_filter, decide_eq_true_eq] at hw
      obtain ⟨call, ⟨hc, hop⟩, rfl⟩ := hw
      simp only at he
      have hc' : call ∈ vparGridStep true kg (vparLayout e d) [a, b] (phi1dLayout e d) [a] := hc
      have hpar := C05.wiring_vpar kg (vparLayout e d) [a, b] (phi1dLayout e d) [a] rfl (blockStart_one_zero e.nq)
        call hc' hop
      obtain ⟨i, hi, j, hj, k, hk, hs⟩ := mem_vpar_calls e d kg a b call hc' hop
      rw [he] at hs hpar
      simp only [List.cons.injEq, and_true] at hs
      have hpar' : call.params = [r, z, q, r] := hpar
      refine ⟨⟨?_, ?_, ?_⟩, ?_⟩
      · rw [hs.1]; exact axis_in_range _ _ _ _ hd.1 ha hi
      · rw [hs.2.1]; exact axis_in_range _ _ _ _ hd.2 hb hj
      · rw [hs.2.2]; exact axis_in_range _ _ _ _ Nat.one_pos Nat.one_pos hk
      · simp only [hpar', he, box1_vpar, read1_full, ix_cons_zero, ix_cons_succ]
    · rintro ⟨hr, hz, hq⟩
      obtain ⟨a, ha, i, hi, hai⟩ := axis_owner e.nr d.p1 r hd.1 hr
      obtain ⟨b, hb, j, hj, hbj⟩ := axis_owner e.nz d.p2 z hd.2 hz
      have hk : q < blockLen e.nq 1 0 := by rw [blockLen_one_zero]; exact hq
      obtain ⟨call, hc, hop, hs⟩ := vpar_call_mem e d kg a b i j q hi hj hk
      refine ⟨a, ha, b, hb, _, List.mem_map.2 ⟨call, List.mem_filter.2 ⟨hc, by simpa using hop⟩, rfl⟩, ?_⟩
      simp only [hs, hai, hbj, blockStart_one_zero, Nat.zero_add]
  simp only [vparOp, vparGlobal, key]
  exact finish1 _ _ _ _ _

/-! ### 7. poloidal advection -/

theorem mem_pol_calls (a b : Nat) (call : Wiring.Call)
    (h : call ∈ polGridStep (polLayout e d) [a, b] (phiPolLayout e d) [b]) :
    (call.op = "pol.interp" ∧ ∃ j, j < blockLen e.nz d.p2 b ∧ call.slice = [blockStart e.nz d.p2 b + j]) ∨
    (call.op = "pol.step" ∧ ∃ i, i < blockLen e.nv d.p1 a ∧ ∃ j, j < blockLen e.nz d.p2 b ∧
      call.slice = [blockStart e.nv d.p1 a + i, blockStart e.nz d.p2 b + j]) := by
  simp only [polGridStep, List.mem_append, List.mem_flatMap, List.mem_map, List.mem_range] at h
  rcases h with ⟨j, hj, rfl⟩ | ⟨i, hi, j, hj, rfl⟩
  · exact Or.inl ⟨rfl, j, hj, rfl⟩
  · exact Or.inr ⟨rfl, i, hi, j, hj, rfl⟩

theorem pol_interp_mem (a b j : Nat) (hj : j < blockLen e.nz d.p2 b) :
    ∃ call ∈ polGridStep (polLayout e d) [a, b] (phiPolLayout e d) [b], call.op = "pol.interp" ∧
      call.slice = [blockStart e.nz d.p2 b + j] := by
  refine ⟨⟨"pol.interp", [blockStart e.nz d.p2 b + j], [blockStart e.nz d.p2 b + j]⟩, ?_, rfl, rfl⟩
  simp only [polGridStep, List.mem_append, List.mem_flatMap, List.mem_map, List.mem_range]
  exact Or.inl ⟨j, hj, rfl⟩

theorem pol_step_mem (a b i j : Nat) (hi : i < blockLen e.nv d.p1 a) (hj : j < blockLen e.nz d.p2 b) :
    ∃ call ∈ polGridStep (polLayout e d) [a, b] (phiPolLayout e d) [b], call.op = "pol.step" ∧
      call.slice = [blockStart e.nv d.p1 a + i, blockStart e.nz d.p2 b + j] := by
  refine ⟨⟨"pol.step", [blockStart e.nv d.p1 a + i, blockStart e.nz d.p2 b + j],
    [blockStart e.nv d.p1 a + i, blockStart e.nz d.p2 b + j]⟩, ?_, rfl, rfl⟩
  simp only [polGridStep, List.mem_append, List.mem_flatMap, List.mem_map, List.mem_range]
  exact Or.inr ⟨i, hi, j, hj, rfl⟩

theorem box2_pol (a b : Nat) : box2 (polLayout e d) [a, b] 2 3 = ⟨0, e.nq, 0, e.nr⟩ := by
  show Box2.mk (blockStart e.nq 1 0) (blockLen e.nq 1 0) (blockStart e.nr 1 0) (blockLen e.nr 1 0) = _
  simp only [blockStart_one_zero, blockLen_one_zero]

theorem box2_phiPol (b : Nat) : box2 (phiPolLayout e d) [b] 1 2 = ⟨0, e.nq, 0, e.nr⟩ := by
  show Box2.mk (blockStart e.nq 1 0) (blockLen e.nq 1 0) (blockStart e.nr 1 0) (blockLen e.nr 1 0) = _
  simp only [blockStart_one_zero, blockLen_one_zero]

/-- the rank's own table `self._phiSplines`: for every "pol.interp" call of the rank's loop, the interpolant of the local
    `(θ, r)` slice of `phi` (layout `poloidal` of the potential, coordinates `c[1:]` in the axial sub-communicator — C03
    `driver_comm_axes`), keyed by the `z` index the model records -/
def polSplines (P : FieldP β) (c : List Nat) : List (List Nat × Spl) :=
  ((polGridStep (polLayout e d) c (phiPolLayout e d) (c.drop 1)).filter (fun call => call.op = "pol.interp")).map
    fun call =>
      (call.slice, K.interp call.params (read2 (box2 (phiPolLayout e d) (c.drop 1) 1 2) (fun q r => P r (ix call.slice 0) q)))

/-- what rank `c` does in `PoloidalAdvection.gridStep`: the kernel on every local `(θ, r)` slice, with the entry of the
    rank's own interpolant table that the loop passes -/
def polRank (dt : Stp) (F : FieldF α) (P : FieldP β) (c : List Nat) : List (List Nat × (Nat → Nat → Option α)) :=
  ((polGridStep (polLayout e d) c (phiPolLayout e d) (c.drop 1)).filter (fun call => call.op = "pol.step")).map
    fun call =>
      (call.slice, patch2 (box2 (polLayout e d) c 2 3)
        (K.pol dt call.params ((assemble (polSplines K e d P c) [ix call.params 1]).getD K.noSpl)
          (read2 (box2 (polLayout e d) c 2 3) (fun q r => F r (ix call.slice 1) q (ix call.slice 0)))))

def polOp (dt : Stp) (F : FieldF α) (P : FieldP β) : FieldF α := fun r z q v =>
  ((assemble ((ranks d).flatMap (polRank K e d dt F P)) [v, z]).bind (fun pl => pl q r)).getD (F r z q v)

def polGlobal (dt : Stp) (F : FieldF α) (P : FieldP β) : FieldF α := fun r z q v =>
  if (v < e.nv ∧ z < e.nz) ∧ q < e.nq ∧ r < e.nr then
    K.pol dt [v, z] (K.interp [z] ⟨e.nq, e.nr, fun q r => P r z q⟩) ⟨e.nq, e.nr, fun q r => F r z q v⟩ q r
  else F r z q v

/-- the interpolant a rank's step call finds in the rank's own table is the one of the slice's own `z` -/
theorem polSplines_lookup (a b j : Nat) (hj : j < blockLen e.nz d.p2 b) (P : FieldP β) :
    assemble (polSplines K e d P [a, b]) [blockStart e.nz d.p2 b + j]
      = some (K.interp [blockStart e.nz d.p2 b + j]
          ⟨e.nq, e.nr, fun q r => P r (blockStart e.nz d.p2 b + j) q⟩) := by
  refine assemble_some _ _ _ ?_ ?_
  · obtain ⟨call, hc, hop, hs⟩ := pol_interp_mem e d a b j hj
    exact ⟨_, List.mem_map.2 ⟨call, List.mem_filter.2 ⟨hc, by simpa using hop⟩, rfl⟩, hs⟩
  · intro w hw he
    simp only [polSplines, List.mem_map, List.mem_filter, decide_eq_true_eq] at hw
    obtain ⟨call, ⟨hc, _⟩, rfl⟩ := hw
    simp only at he
    have hc' : call ∈ polGridStep (polLayout e d) [a, b] (phiPolLayout e d) [b] := hc
    have hpar := C05.wiring_poloidal (polLayout e d) [a, b] (phiPolLayout e d) [b] rfl call hc'
    show K.interp call.params (read2 (box2 (phiPolLayout e d) [b] 1 2) _) = _
    simp only [hpar, he, box2_phiPol, read2_full, ix_cons_zero]

theorem polOp_eq (hd : d.Pos) (dt : Stp) (F : FieldF α) (P : FieldP β) :
    polOp K e d dt F P = polGlobal K e dt F P := by
  funext r z q v
  have key : assemble ((ranks d).flatMap (polRank K e d dt F P)) [v, z]
      = if v < e.nv ∧ z < e.nz then
          some (patch2 ⟨0, e.nq, 0, e.nr⟩
            (K.pol dt [v, z] (K.interp [z] ⟨e.nq, e.nr, fun q r => P r z q⟩) ⟨e.nq, e.nr, fun q r => F r z q v⟩))
        else none := by
    refine assemble_ranks d _ _ _ _ ?_ ?_
    · intro a ha b hb w hw he
      simp only [polRank, List.mem_map, List.mem_filter, decide_eq_true_eq] at hw
      obtain ⟨call, ⟨hc, hop⟩, rfl⟩ := hw
      simp only at he
      have hc' : call ∈ polGridStep (polLayout e d) [a, b] (phiPolLayout e d) [b] := hc
      have hpar := C05.wiring_poloidal (polLayout e d) [a, b] (phiPolLayout e d) [b] rfl call hc'
      rcases mem_pol_calls e d a b call hc' with ⟨hop', _⟩ | ⟨_, i, hi, j, hj, hs⟩
      · rw [hop] at hop'; exact absurd hop' (by decide)
      rw [he] at hs hpar
      simp only [List.cons.injEq, and_true] at hs
      refine ⟨⟨?_, ?_⟩, ?_⟩
      · rw [hs.1]; exact axis_in_range _ _ _ _ hd.1 ha hi
      · rw [hs.2]; exact axis_in_range _ _ _ _ hd.2 hb hj
      · have hl := polSplines_lookup K e d a b j hj P
        rw [← hs.2] at hl
        show patch2 (box2 (polLayout e d) [a, b] 2 3) (K.pol dt call.params
          ((assemble (polSplines K e d P [a, b]) [ix call.params 1]).getD K.noSpl) _) = _
        simp only [hpar, he, box2_pol, read2_full, ix_cons_zero, ix_cons_succ, hl, Option.getD_some]
    · rintro ⟨hv, hz⟩
      obtain ⟨a, ha, i, hi, hai⟩ := axis_owner e.nv d.p1 v hd.1 hv
      obtain ⟨b, hb, j, hj, hbj⟩ := axis_owner e.nz d.p2 z hd.2 hz
      obtain ⟨call, hc, hop, hs⟩ := pol_step_mem e d a b i j hi hj
      refine ⟨a, ha, b, hb, _, List.mem_map.2 ⟨call, List.mem_filter.2 ⟨hc, by simpa using hop⟩, rfl⟩, ?_⟩
      simp only [hs, hai, hbj]
  simp only [polOp, polGlobal, key]
  exact finish2 _ _ _ _ _ _ _

/-! ### 8. density, Fourier transforms, mode solve, initialisation -/

theorem mem_idx_calls (L : Layout) (c : List Nat) (p : Nat × Nat) (hp : p ∈ (L.globalIdxVals c 0).zipIdx) :
    p.2 < L.endAt c 0 - L.startAt c 0 := by
  obtain ⟨x, i⟩ := p
  have hk := List.mem_zipIdx hp
  simp only [Layout.globalIdxVals, List.length_map, List.length_range, Nat.zero_add] at hk
  exact hk.2.1

theorem idx_call_mem (L : Layout) (c : List Nat) (i : Nat) (hi : i < L.endAt c 0 - L.startAt c 0) :
    (i + L.startAt c 0, i) ∈ (L.globalIdxVals c 0).zipIdx := by
  rw [List.mem_zipIdx_iff_getElem?]
  simp only [Layout.globalIdxVals, List.getElem?_map, List.getElem?_range hi, Option.map_some]

theorem box1_vpar_q (a b : Nat) : box1 (vparLayout e d) [a, b] 2 = ⟨0, e.nq⟩ := by
  show Box1.mk (blockStart e.nq 1 0) (blockLen e.nq 1 0) = _
  simp only [blockStart_one_zero, blockLen_one_zero]

theorem box2_vpar (a b : Nat) : box2 (vparLayout e d) [a, b] 2 3 = ⟨0, e.nq, 0, e.nv⟩ := by
  show Box2.mk (blockStart e.nq 1 0) (blockLen e.nq 1 0) (blockStart e.nv 1 0) (blockLen e.nv 1 0) = _
  simp only [blockStart_one_zero, blockLen_one_zero]

/-- what rank `c` does in `DensityFinder.getPerturbedRho`: for every call of the modelled loop (local radius `i`, row
    `fEq[rIndices][i]`) the compiled kernel runs over the rank's `z` range (C16 `density_decomposition_independent`: one
    `(r, z)` line at a time, from the `(θ, v)` values of that line only) -/
def rhoRank (F : FieldF α) (c : List Nat) : List (List Nat × (Nat → Option β)) :=
  (densityRows (vparLayout e d) c).flatMap fun call =>
    (List.range (sh (vparLayout e d) c 1)).map fun j =>
      ([ix call.slice 0, (vparLayout e d).startAt c 1 + j],
        patch1 (box1 (vparLayout e d) c 2)
          (K.rho call.params (read2 (box2 (vparLayout e d) c 2 3)
            (fun q v => F (ix call.slice 0) ((vparLayout e d).startAt c 1 + j) q v))))

def rhoOp (F : FieldF α) : FieldP β := fun r z q =>
  ((assemble ((ranks d).flatMap (rhoRank K e d F)) [r, z]).bind (fun l => l q)).getD K.noVal

def rhoGlobal (F : FieldF α) : FieldP β := fun r z q =>
  if (r < e.nr ∧ z < e.nz) ∧ q < e.nq then K.rho [r] ⟨e.nq, e.nv, fun q v => F r z q v⟩ q else K.noVal

theorem rhoOp_eq (hd : d.Pos) (F : FieldF α) : rhoOp K e d F = rhoGlobal K e F := by
  funext r z q
  have key : assemble ((ranks d).flatMap (rhoRank K e d F)) [r, z]
      = if r < e.nr ∧ z < e.nz then
          some (patch1 ⟨0, e.nq⟩ (K.rho [r] ⟨e.nq, e.nv, fun q v => F r z q v⟩)) else none := by
    refine assemble_ranks d _ _ _ _ ?_ ?_
    · intro a ha b hb w hw he
      simp only [rhoRank, List.mem_flatMap, List.mem_map, List.mem_range] at hw
      obtain ⟨call, hc, j, hj, rfl⟩ := hw
      simp only [List.cons.injEq, and_true] at he
      have hpar := C05.wiring_density (vparLayout e d) [a, b] call hc
      simp only [densityRows, List.mem_map] at hc
      obtain ⟨p, hp, rfl⟩ := hc
      have hi := mem_idx_calls _ _ p hp
      simp only [ix_cons_zero] at he hpar ⊢
      refine ⟨⟨?_, ?_⟩, ?_⟩
      · rw [← he.1]; exact axis_in_range e.nr d.p1 a p.2 hd.1 ha hi
      · rw [← he.2]; exact axis_in_range e.nz d.p2 b j hd.2 hb hj
      · simp only [hpar, he.1, he.2, box1_vpar_q, box2_vpar, read2_full]
    · rintro ⟨hr, hz⟩
      obtain ⟨a, ha, i, hi, hai⟩ := axis_owner e.nr d.p1 r hd.1 hr
      obtain ⟨b, hb, j, hj, hbj⟩ := axis_owner e.nz d.p2 z hd.2 hz
      refine ⟨a, ha, b, hb, _, List.mem_flatMap.2 ⟨_, List.mem_map.2 ⟨_, idx_call_mem (vparLayout e d) [a, b] i hi, rfl⟩,
        List.mem_map.2 ⟨j, List.mem_range.2 hj, rfl⟩⟩, ?_⟩
      simp only [ix_cons_zero]
      exact congrArg₂ (fun x y => [x, y]) hai hbj
  simp only [rhoOp, rhoGlobal, key]
  exact finish1 _ _ _ _ _

/-- the loop of `getModes` / `findPotential`: `for i, _ in getCoords(0): for j, _ in getCoords(1):` transform the line
    `get1DSlice(i, j)` in place; no parameter is looked up -/
def lineLoop (L : Layout) (c : List Nat) : List Wiring.Call :=
  (List.range (sh L c 0)).flatMap (fun i => (List.range (sh L c 1)).map (fun j =>
    { op := "line", slice := [L.startAt c 0 + i, L.startAt c 1 + j], params := [] }))

theorem box1_phi2d (a b : Nat) : box1 (phi2dLayout e d) [a, b] 2 = ⟨0, e.nq⟩ := by
  show Box1.mk (blockStart e.nq 1 0) (blockLen e.nq 1 0) = _
  simp only [blockStart_one_zero, blockLen_one_zero]

/-- what rank `c` does in `getModes` / `findPotential` (layout `v_parallel_2d`) with the line kernel `kern` -/
def lineRank (kern : Arr1 β → Line β) (ρ : FieldP β) (c : List Nat) : List (List Nat × (Nat → Option β)) :=
  (lineLoop (phi2dLayout e d) c).map fun call =>
    (call.slice, patch1 (box1 (phi2dLayout e d) c 2)
      (kern (read1 (box1 (phi2dLayout e d) c 2) (fun q => ρ (ix call.slice 0) (ix call.slice 1) q))))

def lineOp (kern : Arr1 β → Line β) (ρ : FieldP β) : FieldP β := fun r z q =>
  ((assemble ((ranks d).flatMap (lineRank e d kern ρ)) [r, z]).bind (fun l => l q)).getD (ρ r z q)

def lineGlobal (kern : Arr1 β → Line β) (ρ : FieldP β) : FieldP β := fun r z q =>
  if (r < e.nr ∧ z < e.nz) ∧ q < e.nq then kern ⟨e.nq, fun q => ρ r z q⟩ q else ρ r z q

theorem lineOp_eq (hd : d.Pos) (kern : Arr1 β → Line β) (ρ : FieldP β) : lineOp e d kern ρ = lineGlobal e kern ρ := by
  funext r z q
  have key : assemble ((ranks d).flatMap (lineRank e d kern ρ)) [r, z]
      = if r < e.nr ∧ z < e.nz then some (patch1 ⟨0, e.nq⟩ (kern ⟨e.nq, fun q => ρ r z q⟩)) else none := by
    refine assemble_ranks d _ _ _ _ ?_ ?_
    · intro a ha b hb w hw he
      simp only [lineRank, lineLoop, List.mem_flatMap, List.mem_map, List.mem_range] at hw
      obtain ⟨call, ⟨i, hi, j, hj, rfl⟩, rfl⟩ := hw
      simp only [List.cons.injEq, and_true] at he
      refine ⟨⟨?_, ?_⟩, ?_⟩
      · rw [← he.1]; exact axis_in_range e.nr d.p1 a i hd.1 ha hi
      · rw [← he.2]; exact axis_in_range e.nz d.p2 b j hd.2 hb hj
      · simp only [ix_cons_zero, ix_cons_succ, he.1, he.2, box1_phi2d, read1_full]
    · rintro ⟨hr, hz⟩
      obtain ⟨a, ha, i, hi, hai⟩ := axis_owner e.nr d.p1 r hd.1 hr
      obtain ⟨b, hb, j, hj, hbj⟩ := axis_owner e.nz d.p2 z hd.2 hz
      have hc : (⟨"line", [blockStart e.nr d.p1 a + i, blockStart e.nz d.p2 b + j], []⟩ : Wiring.Call)
          ∈ lineLoop (phi2dLayout e d) [a, b] := by
        simp only [lineLoop, List.mem_flatMap, List.mem_map, List.mem_range]
        exact ⟨i, hi, j, hj, rfl⟩
      refine ⟨a, ha, b, hb, _, List.mem_map.2 ⟨_, hc, rfl⟩, ?_⟩
      exact congrArg₂ (fun x y => [x, y]) hai hbj
  simp only [lineOp, lineGlobal, key]
  exact finish1 _ _ _ _ _

theorem box1_mode (a b : Nat) : box1 (modeLayout e d) [a, b] 2 = ⟨0, e.nr⟩ := by
  show Box1.mk (blockStart e.nr 1 0) (blockLen e.nr 1 0) = _
  simp only [blockStart_one_zero, blockLen_one_zero]

/-- what rank `c` does in `DiffEqSolver.solveEquation` (layout `mode_solve`): for every call of the modelled loop (local
    mode `i`, operator of the global mode `I`) `_solveMode` runs over the rank's `z` range, one radial line at a time -/
def solveRank (ρ : FieldP β) (c : List Nat) : List (List Nat × (Nat → Option β)) :=
  (solveModes (modeLayout e d) c).flatMap fun call =>
    (List.range (sh (modeLayout e d) c 1)).map fun j =>
      ([ix call.slice 0, (modeLayout e d).startAt c 1 + j],
        patch1 (box1 (modeLayout e d) c 2)
          (K.solve call.params (read1 (box1 (modeLayout e d) c 2)
            (fun r => ρ r ((modeLayout e d).startAt c 1 + j) (ix call.slice 0)))))

def solveOp (ρ : FieldP β) : FieldP β := fun r z q =>
  ((assemble ((ranks d).flatMap (solveRank K e d ρ)) [q, z]).bind (fun l => l r)).getD K.noVal

def solveGlobal (ρ : FieldP β) : FieldP β := fun r z q =>
  if (q < e.nq ∧ z < e.nz) ∧ r < e.nr then K.solve [q] ⟨e.nr, fun r => ρ r z q⟩ r else K.noVal

theorem solveOp_eq (hd : d.Pos) (ρ : FieldP β) : solveOp K e d ρ = solveGlobal K e ρ := by
  funext r z q
  have key : assemble ((ranks d).flatMap (solveRank K e d ρ)) [q, z]
      = if q < e.nq ∧ z < e.nz then some (patch1 ⟨0, e.nr⟩ (K.solve [q] ⟨e.nr, fun r => ρ r z q⟩)) else none := by
    refine assemble_ranks d _ _ _ _ ?_ ?_
    · intro a ha b hb w hw he
      simp only [solveRank, List.mem_flatMap, List.mem_map, List.mem_range] at hw
      obtain ⟨call, hc, j, hj, rfl⟩ := hw
      simp only [List.cons.injEq, and_true] at he
      have hpar := C05.wiring_solve (modeLayout e d) [a, b] call hc
      simp only [solveModes, List.mem_map] at hc
      obtain ⟨p, hp, rfl⟩ := hc
      have hi := mem_idx_calls _ _ p hp
      simp only [ix_cons_zero] at he hpar ⊢
      refine ⟨⟨?_, ?_⟩, ?_⟩
      · rw [← he.1]; exact axis_in_range e.nq d.p1 a p.2 hd.1 ha hi
      · rw [← he.2]; exact axis_in_range e.nz d.p2 b j hd.2 hb hj
      · simp only [hpar, he.1, he.2, box1_mode, read1_full]
    · rintro ⟨hq, hz⟩
      obtain ⟨a, ha, i, hi, hai⟩ := axis_owner e.nq d.p1 q hd.1 hq
      obtain ⟨b, hb, j, hj, hbj⟩ := axis_owner e.nz d.p2 z hd.2 hz
      refine ⟨a, ha, b, hb, _, List.mem_flatMap.2 ⟨_, List.mem_map.2 ⟨_, idx_call_mem (modeLayout e d) [a, b] i hi, rfl⟩,
        List.mem_map.2 ⟨j, List.mem_range.2 hj, rfl⟩⟩, ?_⟩
      simp only [ix_cons_zero]
      exact congrArg₂ (fun x y => [x, y]) hai hbj
  simp only [solveOp, solveGlobal, key]
  exact finish1 _ _ _ _ _

/-- what rank `c` does in `initialise_v_parallel` (the layout `setupCylindricalGrid` is asked for): for every call of the
    modelled loop the values at the coordinates `getCoords(2)`, `getCoords(3)` of the local `(θ, v)` range -/
def initRank (c : List Nat) : List (List Nat × (Nat → Nat → Option α)) :=
  (initialise (vparLayout e d) c).map fun call =>
    (call.slice, patch2 (box2 (vparLayout e d) c 2 3)
      (fun k l => K.init call.params ((box2 (vparLayout e d) c 2 3).off0 + k) ((box2 (vparLayout e d) c 2 3).off1 + l)))

/-- the grid `setupCylindricalGrid` returns; `bg`: contents of the freshly allocated array -/
def initOp (bg : FieldF α) : FieldF α := fun r z q v =>
  ((assemble ((ranks d).flatMap (initRank K e d)) [r, z]).bind (fun pl => pl q v)).getD (bg r z q v)

def initGlobal (bg : FieldF α) : FieldF α := fun r z q v =>
  if (r < e.nr ∧ z < e.nz) ∧ q < e.nq ∧ v < e.nv then K.init [r, z] q v else bg r z q v

theorem initOp_eq (hd : d.Pos) (bg : FieldF α) : initOp K e d bg = initGlobal K e bg := by
  funext r z q v
  have key : assemble ((ranks d).flatMap (initRank K e d)) [r, z]
      = if r < e.nr ∧ z < e.nz then some (patch2 ⟨0, e.nq, 0, e.nv⟩ (K.init [r, z])) else none := by
    refine assemble_ranks d _ _ _ _ ?_ ?_
    · intro a ha b hb w hw he
      simp only [initRank, List.mem_map] at hw
      obtain ⟨call, hc, rfl⟩ := hw
      simp only at he
      have hpar := C05.wiring_init (vparLayout e d) [a, b] call hc
      simp only [initialise, List.mem_flatMap, List.mem_map, List.mem_range] at hc
      obtain ⟨i, hi, j, hj, rfl⟩ := hc
      simp only [List.cons.injEq, and_true] at he
      refine ⟨⟨?_, ?_⟩, ?_⟩
      · rw [← he.1]; exact axis_in_range e.nr d.p1 a i hd.1 ha hi
      · rw [← he.2]; exact axis_in_range e.nz d.p2 b j hd.2 hb hj
      · simp only [he.1, he.2, box2_vpar, Nat.zero_add]
    · rintro ⟨hr, hz⟩
      obtain ⟨a, ha, i, hi, hai⟩ := axis_owner e.nr d.p1 r hd.1 hr
      obtain ⟨b, hb, j, hj, hbj⟩ := axis_owner e.nz d.p2 z hd.2 hz
      have hc : (⟨"init", [blockStart e.nr d.p1 a + i, blockStart e.nz d.p2 b + j],
          [blockStart e.nr d.p1 a + i, blockStart e.nz d.p2 b + j]⟩ : Wiring.Call) ∈ initialise (vparLayout e d) [a, b] := by
        simp only [initialise, List.mem_flatMap, List.mem_map, List.mem_range]
        exact ⟨i, hi, j, hj, rfl⟩
      refine ⟨a, ha, b, hb, _, List.mem_map.2 ⟨_, hc, rfl⟩, ?_⟩
      exact congrArg₂ (fun x y => [x, y]) hai hbj
  simp only [initOp, initGlobal, key]
  exact finish2 _ _ _ _ _ _ _

/-! ### 9. the operators of a decomposition and the global operators -/

/-- **The operators of the time loop for the process grid `d`**, on global contents.  Every grid-level operator: each rank
    of the Cartesian topology runs the modelled loop (`Model/Wiring.lean`, index expressions of the current code) on its
    block of the layout the driver puts the grid in, with the kernels `K`; the global result is assembled from what the
    ranks wrote.  Layout changes, save and restore are the identity on global contents — that they are is what C01
    `route_transpose_correct_nobuf` / `route_transpose_correct_buf`, C03 `gather_correct`, `scatter_correct`, C04
    `history_behaves_like_global_array` prove; here it is the definition. -/
def wiringOps : Operators (FieldF α) (FieldP β) (FieldP β) (FieldG γ) where
  relayoutF := fun _ _ x => x
  relayoutP := fun _ _ x => x
  relayoutR := fun _ _ x => x
  saveF := fun x => x
  restoreF := fun x => x
  flux := fluxOp K e d true
  grad := gradOp K e d
  vpar := vparOp K e d true false
  pol := polOp K e d
  rhoOf := rhoOp K e d
  modes := lineOp e d K.modes
  solve := solveOp K e d
  potential := lineOp e d K.potential

/-- the same kernels applied slice by slice to the global fields: no process grid enters -/
def globalOps : Operators (FieldF α) (FieldP β) (FieldP β) (FieldG γ) where
  relayoutF := fun _ _ x => x
  relayoutP := fun _ _ x => x
  relayoutR := fun _ _ x => x
  saveF := fun x => x
  restoreF := fun x => x
  flux := fluxGlobal K e
  grad := gradGlobal K e
  vpar := vparGlobal K e
  pol := polGlobal K e
  rhoOf := rhoGlobal K e
  modes := lineGlobal e K.modes
  solve := solveGlobal K e
  potential := lineGlobal e K.potential

/-- for every process grid with at least one process per axis the operators of the decomposition are the global ones -/
theorem wiringOps_eq_global (hd : d.Pos) : wiringOps K e d = globalOps K e := by
  have h1 : fluxOp K e d true = fluxGlobal K e := funext (fluxOp_eq K e d hd)
  have h2 : gradOp K e d = gradGlobal K e := funext (gradOp_eq K e d hd)
  have h3 : vparOp K e d true false = vparGlobal K e :=
    funext fun dt => funext fun F => funext fun G => vparOp_eq K e d hd false dt F G
  have h4 : polOp K e d = polGlobal K e := funext fun dt => funext fun F => funext fun P => polOp_eq K e d hd dt F P
  have h5 : rhoOp K e d = rhoGlobal K e := funext (rhoOp_eq K e d hd)
  have h6 : ∀ kern, lineOp e d kern = lineGlobal (β := β) e kern := fun kern => funext (lineOp_eq e d hd kern)
  have h7 : solveOp K e d = solveGlobal K e := funext (solveOp_eq K e d hd)
  simp only [wiringOps, globalOps, h1, h2, h3, h4, h5, h6, h7]

/-- `gridStepKeepGradient` runs the same advection loop as `gridStep` -/
theorem vparOp_keep (hd : d.Pos) : vparOp K e d true true = vparOp K e d true false := by
  funext dt F G
  rw [vparOp_eq K e d hd, vparOp_eq K e d hd]

/-- the set-up data of a run on the process grid `d`: arbitrary contents of the freshly allocated arrays and of the
    checkpoint (global contents), the initial condition produced by the modelled initialiser loop -/
def wiringEnv (junkP junkR : FieldP β) (junkG : FieldG γ) (loaded : AGrid (FieldF α)) (bg : FieldF α) :
    Env (FieldF α) (FieldP β) (FieldP β) (FieldG γ) :=
  { junkP := junkP, junkR := junkR, junkG := junkG, loaded := loaded, fresh := initOp K e d bg }

end ops

end PygyroVerif.WiringOps
